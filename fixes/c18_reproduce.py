"""Reproducers for the C18 findings on the command-line front end (phonopy/cui/settings.py).
Run:  cd /verif && PYTHONPATH=/verif [VERIF_REPO=<tree>] /venv/bin/python fixes/c18_reproduce.py
Each block prints what the real front end does for equivalent inputs given by different routes."""
import os
import sys
import tempfile

from harness import bootstrap  # noqa: F401
from harness import c18_cli as C
from harness.c18_parser import run_real

import numpy as np


def show(title, *runs):
    print("\n== " + title)
    for label, (res, confs) in runs:
        print("   %-58s -> %s %s" % (label, res["st"], res["diff"]))


# 1. an explicit 0 given by option is dropped (truthiness test in read_options)
show("explicit zero: tag vs option",
     ("file: RANDOM_SEED = 0", run_real("phonopy", ["RANDOM_SEED = 0"], [])),
     ("option: --random-seed 0", run_real("phonopy", [], ["--random-seed", "0"])),
     ("file: TMAX = 0", run_real("phonopy", ["TMAX = 0"], [])),
     ("option: --tmax 0", run_real("phonopy", [], ["--tmax", "0"])),
     ("file: TMIN = 100 ; option: --tmin 0", run_real("phonopy", ["TMIN = 100"], ["--tmin", "0"])),
     ("file: CUTOFF_FREQUENCY = 0", run_real("phonopy", ["CUTOFF_FREQUENCY = 0"], [])),
     ("option: --cutoff-freq 0", run_real("phonopy", [], ["--cutoff-freq", "0"])),
     ("file: TDISPMAT_CIF = 0", run_real("phonopy", ["TDISPMAT_CIF = 0"], [])),
     ("option: --tdm-cif 0", run_real("phonopy", [], ["--tdm-cif", "0"])),
     ("file: MOMENT = .TRUE. / MOMENT_ORDER = 0", run_real("phonopy", ["MOMENT = .TRUE.", "MOMENT_ORDER = 0"], [])),
     ("option: --moment --moment-order 0", run_real("phonopy", [], ["--moment", "--moment-order", "0"])))

# 2. file and options are parsed in two passes: rules that combine tags see only one pass
band = "0 0 0 1/2 0 0"
show("MESH + BAND: file / options / split",
     ("file: MESH = 4 4 4 ; BAND = " + band, run_real("load", ["MESH = 4 4 4", "BAND = " + band], [])),
     ("options: --mesh 4 4 4 --band ...", run_real("load", [], ["--mesh", "4", "4", "4", "--band", band])),
     ("file: MESH = 4 4 4 ; option: --band ...", run_real("load", ["MESH = 4 4 4"], ["--band", band])),
     ("file: BAND = ... ; option: --mesh 4 4 4", run_real("load", ["BAND = " + band], ["--mesh", "4", "4", "4"])))
show("QPOINTS_FORMAT / MOMENT_ORDER given in the file are lost when the mode comes from an option",
     ("file: QPOINTS = 0 0 0 ; QPOINTS_FORMAT = HDF5", run_real("load", ["QPOINTS = 0 0 0", "QPOINTS_FORMAT = HDF5"], [])),
     ("file: QPOINTS_FORMAT = HDF5 ; option: --qpoints 0 0 0", run_real("load", ["QPOINTS_FORMAT = HDF5"], ["--qpoints", "0 0 0"])),
     ("file: MOMENT_ORDER = 2 ; option: --moment", run_real("load", ["MOMENT_ORDER = 2"], ["--moment"])),
     ("options: --moment --moment-order 2", run_real("load", [], ["--moment", "--moment-order", "2"])))
show("the option does not supersede what the same tag set in the file",
     ("file: QPOINTS = .TRUE. ; option: --qpoints 0 0 0", run_real("load", ["QPOINTS = .TRUE."], ["--qpoints", "0 0 0"])),
     ("option: --qpoints 0 0 0", run_real("load", [], ["--qpoints", "0 0 0"])),
     ("file: IRREPS = 0 0 0 1e-3 ; option: --irreps 0 0 1/2", run_real("load", ["IRREPS = 0 0 0 1e-3"], ["--irreps", "0", "0", "1/2"])),
     ("option: --irreps 0 0 1/2", run_real("load", [], ["--irreps", "0", "0", "1/2"])))

# 3. a value that contains '=' cannot be given in the configuration file
show("FC_CALCULATOR_OPTIONS = cutoff = 4.0",
     ("file: FC_CALCULATOR_OPTIONS = cutoff = 4.0", run_real("phonopy", ["FC_CALCULATOR_OPTIONS = cutoff = 4.0"], [])),
     ("option: --fc-calc-opt 'cutoff = 4.0'", run_real("phonopy", [], ["--fc-calc-opt", "cutoff = 4.0"])))

# 4. INCLUDE_ALL = .FALSE. switches everything on
show("INCLUDE_ALL = .FALSE.", ("file: INCLUDE_ALL = .FALSE.", run_real("phonopy", ["INCLUDE_ALL = .FALSE."], [])))

# effect of (1) and (2) on the files the commands write
from harness.oracle import Oracle  # noqa: E402

S = [[2, 0, 0], [0, 2, 0], [0, 0, 2]]
orc = Oracle("cscl", [S], seed=1, rotate=False)
uc = orc.unitcell()
d = tempfile.mkdtemp(prefix="c18rep_")
C.write_cell("vasp", os.path.join(d, "POSCAR-unitcell"), uc.cell, uc.symbols, uc.scaled_positions)
print("\n== effect: `phonopy -d --rd 1 --random-seed 0` twice (a seeded run must be reproducible)")
disp = []
for _ in range(2):
    C.run_cli("phonopy", ["-c", "POSCAR-unitcell", "--dim", "2", "2", "2", "-d", "--rd", "1", "--random-seed", "0"], d)
    disp.append(np.array(C.load_yaml(os.path.join(d, "phonopy_disp.yaml"))["dataset"]["displacements"]))
print("   displacements identical:", bool(np.array_equal(disp[0], disp[1])),
      "| random_seed recorded in phonopy_disp.yaml:",
      C.load_yaml(os.path.join(d, "phonopy_disp.yaml"))["phonopy"]["configuration"].get("random_seed"))
print("\n== effect: mesh.conf (MESH = 2 2 2) + --band on the command line")
from phonopy import Phonopy  # noqa: E402
from phonopy.structure.atoms import PhonopyAtoms  # noqa: E402

C.run_cli("phonopy", ["-c", "POSCAR-unitcell", "--dim", "2", "2", "2", "-d"], d)
ph = Phonopy(PhonopyAtoms(symbols=uc.symbols, cell=uc.cell, scaled_positions=uc.scaled_positions), S)
ph.generate_displacements()
fc = orc.supercell_fc(S, ph.supercell)
files = []
for i, sc in enumerate(ph.supercells_with_displacements):
    u = sc.positions - ph.supercell.positions
    C.write_forces("vasp", os.path.join(d, "vasprun-%d.xml" % i), sc.cell, sc.scaled_positions,
                   -np.einsum("ijab,jb->ia", fc, u))
    files.append("vasprun-%d.xml" % i)
C.run_cli("phonopy", ["-f"] + files, d)
with open(os.path.join(d, "mesh.conf"), "w") as f:
    f.write("MESH = 2 2 2\n")
with open(os.path.join(d, "both.conf"), "w") as f:
    f.write("MESH = 2 2 2\nBAND = 0 0 0 1/2 0 0\nBAND_POINTS = 3\n")
r = C.run_cli("load", ["--fc-calc", "traditional", "--config", "both.conf"], d)
print("   both tags in the file      : wrote", [w for w in r["written"] if w.endswith(".yaml") and w != "phonopy.yaml"])
r = C.run_cli("load", ["--fc-calc", "traditional", "--config", "mesh.conf", "--band", "0 0 0 1/2 0 0", "--band-points", "3"], d)
print("   MESH in file, --band option: wrote", [w for w in r["written"] if w.endswith(".yaml") and w != "phonopy.yaml"],
      "| configuration recorded in phonopy.yaml:",
      C.load_yaml(os.path.join(d, "phonopy.yaml"))["phonopy"]["configuration"])
