"""Reproducer: ddm_get_derivative_dynmat_at_q (c/derivative_dynmat.c) does not
make dD/dq Hermitian: its symmetrisation loop starts the row index at the
Cartesian direction index (`for (j = i; ...)`), so rows/columns 0..i-1 of
direction i are skipped.  Run:  cd /verif && /venv/bin/python fixes/c13-derivative-dynmat-hermitian-loop.repro.py
(VERIF_REPO=<worktree> to test a patched tree)."""
import sys

sys.path.insert(0, "/verif")
from harness import bootstrap  # noqa: E402,F401  builds c/ and makes phonopy._phonopy importable

import numpy as np  # noqa: E402
from phonopy import Phonopy  # noqa: E402
from phonopy.harmonic.derivative_dynmat import DerivativeOfDynamicalMatrix  # noqa: E402
from phonopy.structure.atoms import PhonopyAtoms  # noqa: E402

cell = PhonopyAtoms(symbols=["Si", "O", "Si"], masses=[28.0, 16.0, 28.5],
                    scaled_positions=[[0, 0, 0], [.25, .5, .25], [.5, .25, .75]],
                    cell=[[3.9, 0.2, 0.1], [0.5, 4.3, 0.3], [0.2, 0.6, 4.9]])
ph = Phonopy(cell, supercell_matrix=[[2, 0, 0], [0, 1, 0], [0, 0, 1]], log_level=0)
rng = np.random.default_rng(0)
n = len(ph.supercell)
# force constants as they come from noisy forces: no exact index-permutation symmetry
fc = rng.normal(size=(n, n, 3, 3))
fc = (fc + fc.transpose(1, 0, 3, 2)) / 2 + 0.05 * rng.normal(size=(n, n, 3, 3))
ph.force_constants = fc
q = [0.11, 0.23, 0.37]
ddm = DerivativeOfDynamicalMatrix(ph.dynamical_matrix)
ddm.run(q, lang="C")
c = ddm.d_dynamical_matrix.copy()
ddm.run(q, lang="Py")
p = ddm.d_dynamical_matrix.copy()
for d in range(3):
    bad = np.argwhere(np.abs(c[d] - p[d]) > 1e-10)
    print("direction %d: C Hermitian: %-5s  Py Hermitian: %-5s  entries where C != Py: %s"
          % (d, np.allclose(c[d], c[d].conj().T), np.allclose(p[d], p[d].conj().T), [tuple(map(int, b)) for b in bad]))
print("max |C - Py| =", np.abs(c - p).max())
sys.exit(1 if np.abs(c - p).max() > 1e-10 else 0)
