"""Reproducer for D2 (run from /verif:  PYTHONPATH=/verif /venv/bin/python fixes/... or see fixes/*.md)."""
from harness import bootstrap  # builds c/ of $VERIF_REPO (default /repo) and makes phonopy._phonopy importable
import numpy as np
from phonopy import Phonopy
from phonopy.structure.atoms import PhonopyAtoms
from phonopy.harmonic.force_constants import (
    compact_fc_to_full_fc, get_nsym_list_and_s2pp, symmetrize_compact_force_constants, symmetrize_force_constants)
import phonopy._phonopy as phonoc

cell = PhonopyAtoms(symbols=["Na", "Cl"], scaled_positions=[[0, 0, 0], [.5, .5, .5]], cell=np.eye(3) * 3.0)
ph = Phonopy(cell, supercell_matrix=np.diag([1, 1, 2]), log_level=0)     # 2 primitive cells: t + t = 0
prim = ph.primitive
c = np.arange(2 * 4 * 9, dtype=float).reshape(2, 4, 3, 3) % 7 - 3          # any non-symmetric compact array
full = compact_fc_to_full_fc(prim, c.copy())

# (a) transpose_compact_fc is not the transposition
s2pp, nsym = get_nsym_list_and_s2pp(prim.s2p_map, prim.p2p_map, prim.atomic_permutations)
t = c.copy()
phonoc.transpose_compact_fc(t, prim.atomic_permutations, s2pp, prim.p2s_map, nsym)
want = np.transpose(full, (1, 0, 3, 2))
print("transpose: max |expand(transpose_compact(c)) - expand(c)^T| =", np.abs(compact_fc_to_full_fc(prim, t) - want).max())
print("  block (i_p=0, j=1) before:\n", c[0, 1], "\n  after (should be the transpose):\n", t[0, 1])

# (b) compact symmetrisation differs from full symmetrisation, leaves drift, is not idempotent
f = full.copy(); symmetrize_force_constants(f, level=1)
cc = c.copy(); symmetrize_compact_force_constants(cc, prim, level=1)
ff = compact_fc_to_full_fc(prim, cc)
c2 = cc.copy(); symmetrize_compact_force_constants(c2, prim, level=1)
print("symmetrize: max |compact - full| =", np.abs(ff - f).max())
print("            max row drift after compact symmetrisation =", np.abs(ff.sum(axis=1)).max())
print("            max change on second application =", np.abs(c2 - cc).max())
