# Reproducer D11: generic shift + time reversal (run: cd /verif && PYTHONPATH=/verif VERIF_REPO=<tree> /venv/bin/python this.py)
from harness import bootstrap  # builds/loads phonopy's C extension; plain `import phonopy` works as well
import numpy as np
from phonopy.structure.grid_points import GridPoints

rots = np.array([np.eye(3, dtype=int)], dtype="intc")          # P1: no rotation at all
rec = np.eye(3)
shift = [0.25, 0.5, 0.75]
on = GridPoints([2, 2, 2], rec, q_mesh_shift=shift, is_gamma_center=True, is_time_reversal=True,
                rotations=rots, is_mesh_symmetry=True)
off = GridPoints([2, 2, 2], rec, q_mesh_shift=shift, is_gamma_center=True, is_time_reversal=False,
                 rotations=rots, is_mesh_symmetry=False)
print("ir points with time reversal:", len(on.weights), "weights", on.weights.tolist())
print("map:", on.grid_mapping_table.tolist())
q_all = np.sort(np.round(off.qpoints % 1, 6).tolist(), axis=0)
# every grid point must be +-(its representative) modulo a reciprocal lattice vector
bad = 0
for i, r in enumerate(on.grid_mapping_table):
    qi, qr = off.qpoints[i], off.qpoints[r]
    if not any(np.allclose((s * qr - qi) - np.rint(s * qr - qi), 0, atol=1e-9) for s in (1, -1)):
        bad += 1
print("grid points that are NOT an image of their representative:", bad)
print("requested gamma-centred grid (g + shift)/mesh, first q:", (np.array(shift) / 2).tolist(),
      " got first q:", off.qpoints[0].tolist())
