import sys, warnings
sys.path.insert(0, "/verif")
from harness import bootstrap
import numpy as np
warnings.simplefilter("ignore")
from harness.c14_driver import World
import phonopy._phonopy as phonoc
print("use_openmp:", bool(phonoc.use_openmp()))
w = World("tetab", 0)
q = [0.1, 0.23, 0.37]
# D1
ph = w.phonopy("none", False)
ph.run_qpoints([q], with_eigenvectors=True, with_dynamical_matrices=True)
d = ph.get_qpoints_dict()
D = ph.get_dynamical_matrix_at_q(q)
print("D1  max|dynamical_matrices - D(q)| =", np.abs(d["dynamical_matrices"][0] - D).max(),
      "  max|dynamical_matrices - eigenvectors| =", np.abs(d["dynamical_matrices"][0] - d["eigenvectors"][0]).max())
# D13
ph.init_mesh([2, 2, 2], use_iter_mesh=True, with_eigenvectors=False)
try:
    for f, e in ph.mesh:
        pass
    print("D13 ok")
except Exception as ex:
    print("D13", type(ex).__name__, ex)
# D14
ph.init_mesh(7.0, use_iter_mesh=True, with_eigenvectors=True, is_mesh_symmetry=False)
a = ph.mesh.qpoints[0]
ph.init_mesh(7.0, use_iter_mesh=False, with_eigenvectors=True, is_mesh_symmetry=False)
print("D14 mesh numbers", ph.mesh.mesh_numbers, " first q IterMesh", a, " Mesh", ph.mesh.qpoints[0])
# D17
from phonopy.phonon.band_structure import estimate_band_connection
M = np.array([[-1, -1, -1, 0], [-1, 0, 1, -1], [-1, 1, 0, 1], [0, -1, 1, 1]]) / np.sqrt(3)
print("D17 M orthogonal:", np.abs(M @ M.T - np.eye(4)).max() < 1e-15, " band order:", estimate_band_connection(np.eye(4), M, [0, 1, 2, 3]))
# D18
for nac in ("wang", "gl"):
    pn = w.phonopy(nac, False)
    pn.run_qpoints([q]); f1 = pn.get_qpoints_dict()["frequencies"][0]
    pn.run_band_structure([[q]]); f2 = pn.get_band_structure_dict()["frequencies"][0][0]
    pn.run_band_structure([[q, [0.2, 0.1, 0.4], q]]); f3 = pn.get_band_structure_dict()["frequencies"][0][0]
    pn.run_band_structure([[q, [0.2, 0.1, 0.4]]]); f4 = pn.get_band_structure_dict()["frequencies"][0][0]
    print("D18", nac, "max|f_band - f_qpoints|: 1-point path", np.abs(f1 - f2).max(), " closed path", np.abs(f1 - f3).max(), " open path", np.abs(f1 - f4).max())
# D19
pd = w.phonopy("none", True)   # dynamical_matrix_decimals=3
pd.run_qpoints([q], with_dynamical_matrices=True); dq = pd.get_qpoints_dict()
pd.run_band_structure([[q, [0.2, 0.1, 0.4]]]); fb = pd.get_band_structure_dict()["frequencies"][0][0]
print("D19 max|f_qpoints - f_band| =", np.abs(dq["frequencies"][0] - fb).max(), "  max|D_qpoints - D_direct| =", np.abs(dq["dynamical_matrices"][0] - pd.get_dynamical_matrix_at_q(q)).max())
