"""Reproducer: show_drift_force_constants labels the first drift of a COMPACT array with the transposed
Cartesian component pair.  Run: PYTHONPATH=/repo python x10-drift-compact-label-transposed.repro.py
(needs phonopy._phonopy; from /verif: `python -c "from harness import bootstrap"` builds it, or run as
 cd /verif && /venv/bin/python -c "from harness import bootstrap; exec(open('fixes/x10-drift-compact-label-transposed.repro.py').read())")"""
import contextlib
import io

import numpy as np
from phonopy import Phonopy
from phonopy.harmonic.force_constants import show_drift_force_constants
from phonopy.structure.atoms import PhonopyAtoms

cell = PhonopyAtoms(symbols=["Na", "Cl"], cell=np.eye(3) * 4.0, scaled_positions=[[0, 0, 0], [0.5, 0.5, 0.5]])
ph = Phonopy(cell, supercell_matrix=[2, 1, 1], log_level=0)
n = len(ph.supercell)
p2s = ph.primitive.p2s_map
perms = ph.primitive.atomic_permutations
full = np.zeros((n, n, 3, 3))
# one non-zero component (x, y) in the blocks (i, i), made invariant under the pure translations
blk = np.zeros((3, 3))
blk[0, 1] = 1.0                                   # Phi_{xy}
for i in range(n):
    full[i, i] = blk
compact = np.ascontiguousarray(full[p2s])


def text(arr):
    buf = io.StringIO()
    with contextlib.redirect_stdout(buf):
        show_drift_force_constants(arr, primitive=ph.primitive, values_only=True)
    return buf.getvalue().strip()


# sum_i Phi[i, j, x, y] = 1 for every j, all other components 0: both drifts are 1 at (xy)
print("full   :", text(full.copy()))      # 1.000000 (xy) 1.000000 (xy)
print("compact:", text(compact.copy()))   # 1.000000 (yx) 1.000000 (xy)   <- first label transposed
assert text(full.copy()) == text(compact.copy()), "full and compact layouts report different drift locations"
