"""Stand-alone reproducer: phonopy-load with CELL_FILENAME (configuration file) naming a file that does not exist ends
in a FileNotFoundError traceback; `phonopy -c <missing>` and `phonopy-load <missing>` give an error message.

    cd /verif && OMP_NUM_THREADS=1 /venv/bin/python fixes/x09-load-missing-cell-filename-traceback.repro.py
    (VERIF_REPO=<patched tree> to try a patch)
"""
import contextlib
import io
import os
import sys
import tempfile
import traceback

sys.path.insert(0, os.path.dirname(os.path.dirname(os.path.abspath(__file__))))
from harness import bootstrap  # noqa: F401,E402

from phonopy.cui.collect_cell_info import collect_cell_info  # noqa: E402
from phonopy.cui.phonopy_script import main  # noqa: E402
from phonopy.interface.phonopy_yaml import PhonopyYaml  # noqa: E402

os.chdir(tempfile.mkdtemp())
with open("my.conf", "w") as f:
    f.write("CELL_FILENAME = phonopy_params.yaml\n")        # not there (e.g. still compressed, or a typo)

bad = 0
for cmd, ctl, argv in (("phonopy", dict(load_phonopy_yaml=False), ["-c", "phonopy_params.yaml"]),
                       ("phonopy-load", dict(load_phonopy_yaml=True), ["phonopy_params.yaml"]),
                       ("phonopy-load", dict(load_phonopy_yaml=True), ["--config", "my.conf"])):
    sys.argv = [cmd] + argv
    out = io.StringIO()
    with contextlib.redirect_stdout(out), contextlib.redirect_stderr(out):
        try:
            main(fc_symmetry=True, is_nac=True, **ctl)
            result = "ran on"
        except SystemExit as e:
            result = "exit %s" % (e.code,)
        except Exception:  # noqa: BLE001
            result = "TRACEBACK " + traceback.format_exc().strip().splitlines()[-1]
    msg = [line for line in out.getvalue().splitlines() if "not found" in line]
    print(cmd, " ".join(argv), "->", result, msg)
    bad += not (result == "exit 1" and msg)
try:
    r = collect_cell_info(cell_filename="phonopy_params.yaml", phonopy_yaml_cls=PhonopyYaml, load_phonopy_yaml=True)
    print("collect_cell_info(load_phonopy_yaml=True) ->", r)
    bad += "error_message" not in r
except Exception as e:  # noqa: BLE001
    print("collect_cell_info(load_phonopy_yaml=True) -> raises", type(e).__name__, e)
    bad += 1
print("DEFECT" if bad else "ok: every route reports the missing file in a message")
sys.exit(1 if bad else 0)
