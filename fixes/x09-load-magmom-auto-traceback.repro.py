"""Stand-alone reproducer: `phonopy-load --band auto` (or `--pa auto`) on a phonopy yaml whose unit cell carries
magnetic moments ends in a Python traceback instead of the error message phonopy_script.main has for this case.

    cd /verif && OMP_NUM_THREADS=1 /venv/bin/python fixes/x09-load-magmom-auto-traceback.repro.py
    (VERIF_REPO=<patched tree> to try a patch)
"""
import contextlib
import io
import os
import sys
import tempfile
import traceback

sys.path.insert(0, os.path.dirname(os.path.dirname(os.path.abspath(__file__))))
from harness import bootstrap  # noqa: F401,E402

import numpy as np  # noqa: E402
from phonopy import Phonopy  # noqa: E402
from phonopy.cui.phonopy_script import main  # noqa: E402
from phonopy.structure.atoms import PhonopyAtoms  # noqa: E402

# antiferromagnetic bcc Cr, conventional cell, written by phonopy itself
cell = PhonopyAtoms(symbols=["Cr", "Cr"], cell=np.eye(3) * 2.88, scaled_positions=[[0, 0, 0], [0.5, 0.5, 0.5]],
                    magnetic_moments=[1.0, -1.0])
ph = Phonopy(cell, supercell_matrix=np.eye(3, dtype=int) * 2, log_level=0)
ph.generate_displacements()
d = tempfile.mkdtemp()
os.chdir(d)
ph.save("phonopy_params.yaml")

bad = 0
for argv in (["phonopy_params.yaml", "--band", "auto"], ["phonopy_params.yaml", "--pa", "auto"]):
    sys.argv = ["phonopy-load"] + argv
    out = io.StringIO()
    with contextlib.redirect_stdout(out), contextlib.redirect_stderr(out):
        try:
            main(fc_symmetry=True, is_nac=True, load_phonopy_yaml=True)
            result = "ran on"
        except SystemExit as e:
            result = "exit %s" % (e.code,)
        except Exception:  # noqa: BLE001
            result = "TRACEBACK " + traceback.format_exc().strip().splitlines()[-1]
    msg = [line for line in out.getvalue().splitlines() if "not allowed" in line or "was read from" in line]
    print("phonopy-load", " ".join(argv), "->", result, msg)
    if not (result == "exit 1" and any("not allowed using with magnetic_moments" in m for m in msg)):
        bad += 1
print("DEFECT" if bad else "ok: both runs stop with the message of phonopy_script.main")
sys.exit(1 if bad else 0)
