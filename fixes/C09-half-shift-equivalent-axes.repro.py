# Reproducer D10: half shift that is not invariant under the point group (C-centred cell in its primitive basis)
from harness import bootstrap
import numpy as np
from phonopy.structure.grid_points import GridPoints

# point group 2 of a C-centred monoclinic crystal in the primitive basis a'=(a-b)/2, b'=(a+b)/2:
# the two-fold axis sends a' -> -b', b' -> -a', c -> -c
rots = np.array([np.eye(3, dtype=int), [[0, -1, 0], [-1, 0, 0], [0, 0, -1]]], dtype="intc")
rec = np.linalg.inv(np.linalg.cholesky(np.array([[3., 1, 1], [1, 3, 1], [1, 1, 5]])))
gp = GridPoints([2, 2, 1], rec, q_mesh_shift=[0.5, 0, 0], is_gamma_center=True, is_time_reversal=False,
                rotations=rots, is_mesh_symmetry=True)
full = GridPoints([2, 2, 1], rec, q_mesh_shift=[0.5, 0, 0], is_gamma_center=True, is_time_reversal=False,
                  rotations=rots, is_mesh_symmetry=False)
print("is_shift", gp._is_shift, "map", gp.grid_mapping_table.tolist(), "weights", gp.weights.tolist())
recops = [np.linalg.inv(r).T for r in rots]
bad = 0
for i, r in enumerate(gp.grid_mapping_table):
    qi, qr = full.qpoints[i], full.qpoints[r]
    if not any(np.allclose((R @ qr - qi) - np.rint(R @ qr - qi), 0, atol=1e-9) for R in recops):
        bad += 1
        print("  grid point", i, "q =", qi.tolist(), "is mapped to", int(r), "q =", qr.tolist(),
              "whose images are", [(R @ qr).tolist() for R in recops])
print("grid points that are NOT an image of their representative:", bad)
