"""X03 reproducers.  cd /verif && /venv/bin/python fixes/x03_repro.py   (VERIF_REPO=<worktree> for a patched tree)"""
import sys, warnings
sys.path.insert(0, "/verif")
from harness import bootstrap  # noqa
import numpy as np
warnings.simplefilter("ignore")
from harness.x03_driver import DsfWorld, MomWorld, B_LEN

# D1: S(Q, nu) of DynamicStructureFactor against the DEFINITION on the real supercell eigenvectors (no phase convention),
#     triclinic P1 crystal (3 atoms), supercell 3x2x2 = mesh, Q = (2/3, 0, 2): q = (-1/3, 0, 0), G = (1, 0, 2)
w = DsfWorld("tric", 0)
ph = w.ph
ph.run_mesh(w.N, is_mesh_symmetry=False, with_eigenvectors=True, is_gamma_center=True)
Q = np.array([[2 / 3, 0.0, 2.0]])
T, fmin = 300.0, 1e-3
ph.run_dynamic_structure_factor(Q, T, scattering_lengths=B_LEN, freq_min=fmin)
qf, S = ph.get_dynamic_structure_factor()
Qc = w.rec @ Q[0]
dw = np.exp(-0.5 * (2 * np.pi * np.linalg.norm(Qc)) ** 2 * w.u2(Qc / np.linalg.norm(Qc), T, fmin, None))
bf = w.brute_force(Q[0], T, fmin, w.fvals("b", 0.0)[w.img_of], dw[w.img_of])
fr = ph._dynamic_structure_factor.frequencies[0]
ref = np.array([sum(v for f, v in bf if abs(f - x) < 1e-6) for x in fr])
print("D1 q =", qf[0].round(4), " S(code)      ", S[0].round(3))
print("D1                 S(definition)", ref.round(3), "  max rel diff %.3f" % (np.abs(S[0] - ref).max() / ref.max()))

# D2 / D3: run_moment
m = MomWorld("tetab", 0)
p = m.ph
p.run_mesh(m.mesh, is_mesh_symmetry=False, with_eigenvectors=False)
p.run_moment(order=0)
try:
    r = p.run_moment(order=1, is_projection=True)
    print("D2 run_moment(is_projection=True) without eigenvectors returned", type(r).__name__, "; get_moment() =", p.get_moment(),
          "(the order-0 value of the call before)")
except RuntimeError as ex:
    print("D2 run_moment(is_projection=True) without eigenvectors raises:", ex)
for en in ("cscl", "wz"):
    m = MomWorld(en, 0)
    p = m.ph
    p.run_mesh(m.mesh, is_mesh_symmetry=False, with_eigenvectors=True); p.run_moment(order=1, is_projection=True); a = p.get_moment()
    try:
        p.run_mesh(m.mesh, is_mesh_symmetry=True, with_eigenvectors=True); p.run_moment(order=1, is_projection=True); b = p.get_moment()
        print("D3", en, "projected M_1 full mesh", a.round(5), " symmetry-reduced mesh", b.round(5))
    except RuntimeError as ex:
        print("D3", en, "projected moment on a symmetry-reduced mesh raises:", ex)
