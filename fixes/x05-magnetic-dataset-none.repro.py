"""Reproducer (standalone; run with the repository's phonopy and spglib 2.7.0):
Phonopy / Symmetry crash with AttributeError on a plain magnetic supercell because
spglib.get_magnetic_symmetry_dataset returns None (the magnetic space-group TYPE cannot be
identified: "spglib: Failed to match with UNI number!"), although the symmetry OPERATIONS and the
equivalent atoms - the only things phonopy uses - are found by spglib.get_magnetic_symmetry."""
import numpy as np
import spglib

from phonopy import Phonopy
from phonopy.structure.atoms import PhonopyAtoms
from phonopy.structure.cells import get_supercell

# simple tetragonal AB cell; atom A carries a moment along [110] (non-collinear format), B none
a, c = 3.4, 1.7 * np.sqrt(5)
cell = PhonopyAtoms(symbols=["Na", "Cl"], cell=np.diag([a, a, c]),
                    scaled_positions=[[0, 0, 0], [0.5, 0.5, 0.25]],
                    magnetic_moments=[[1, 1, 0], [0, 0, 0]])
print("spglib", spglib.__version__)
failed = False
for dim in ([1, 1, 1], [2, 2, 1], [1, 1, 2], [2, 2, 2]):
    sc = get_supercell(cell, np.diag(dim))
    ms = spglib.get_magnetic_symmetry(sc.totuple(), symprec=1e-5)
    try:
        ph = Phonopy(cell, supercell_matrix=np.diag(dim), primitive_matrix=np.eye(3))
        n = len(ph.symmetry.symmetry_operations["rotations"])
        print(dim, "ok:", n, "operations; spglib.get_magnetic_symmetry:", len(ms["rotations"]))
        failed |= n != len(ms["rotations"])
    except AttributeError as e:
        failed = True
        print(dim, "FAILED: AttributeError:", e, "; spglib.get_magnetic_symmetry finds", len(ms["rotations"]),
              "operations, equivalent_atoms", list(ms["equivalent_atoms"]))
print("DEFECT PRESENT" if failed else "no defect")
