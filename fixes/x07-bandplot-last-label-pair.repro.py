"""Stand-alone reproducer: phonopy-bandplot loses a label when the last two segments end at the same special point.

    cd /verif && OMP_NUM_THREADS=1 /venv/bin/python fixes/x07-bandplot-last-label-pair.repro.py
    (VERIF_REPO=<patched tree> to try a patch)
"""
import os
import sys
import tempfile

sys.path.insert(0, os.path.dirname(os.path.dirname(os.path.abspath(__file__))))
from harness import bootstrap  # noqa: F401,E402

import numpy as np  # noqa: E402
from phonopy import Phonopy  # noqa: E402
from phonopy.phonon.band_structure import get_band_qpoints_and_path_connections  # noqa: E402
from phonopy.scripts import phonopy_bandplot as bp  # noqa: E402
from phonopy.structure.atoms import PhonopyAtoms  # noqa: E402

cell = PhonopyAtoms(symbols=["Na", "Cl"], cell=np.eye(3) * 4.0, scaled_positions=[[0, 0, 0], [0.5, 0.5, 0.5]])
ph = Phonopy(cell, supercell_matrix=np.eye(3, dtype=int) * 2, log_level=0)
n = len(ph.supercell)
fc = np.zeros((n, n, 3, 3))
for i in range(n):
    fc[i, i] = np.eye(3)
ph.force_constants = fc

# X -> Gamma, then (jump) L -> Gamma: four special points, two separate panels
band_paths = [[[0.5, 0, 0], [0, 0, 0]], [[0.5, 0.5, 0.5], [0, 0, 0]]]
labels = ["X", "G", "L", "G"]
qpoints, connections = get_band_qpoints_and_path_connections(band_paths, npoints=5)
ph.run_band_structure(qpoints, path_connections=connections, labels=labels)
assert ph.band_structure.labels == labels and connections == [False, False]
with tempfile.TemporaryDirectory() as d:
    fn = os.path.join(d, "band.yaml")
    ph.write_yaml_band_structure(filename=fn)
    print("label pairs in band.yaml:", [ln.strip() for ln in open(fn) if ln.startswith("- [ '")])
    got_labels, got_conn, _, _ = bp._arrange_band_data(*bp._read_band_yaml(fn))
print("written labels          :", labels, " connections:", connections)
print("labels read by bandplot :", got_labels, " connections:", got_conn)
need = sum(1 if c else 2 for c in got_conn)
print("labels needed by BandPlot.decorate: %d, available: %d" % (need, len(got_labels)))
if got_labels != labels:
    print("DEFECT: the reader lost the start label of the last segment")
    sys.exit(1)
print("ok")
