"""C15: results set up before a state change are silently used to answer after it.
Run:  cd /verif && OMP_NUM_THREADS=1 /venv/bin/python fixes/c15-stale-mesh.repro.py   (VERIF_REPO=<tree> to test a patched tree)
"""
import sys
sys.path.insert(0, "/verif")
from harness import bootstrap  # noqa: F401  (builds / imports the pinned phonopy)
import numpy as np
from phonopy import Phonopy
from phonopy.structure.atoms import PhonopyAtoms

a = 5.6
cell = PhonopyAtoms(symbols=["Na", "Cl"], cell=np.eye(3) * a / 2 * 1.0,
                    scaled_positions=[[0, 0, 0], [0.5, 0.5, 0.5]])
S = np.diag([2, 2, 2])


def fc(k):  # a simple nearest-neighbour-like, translationally invariant force-constant set, strength k
    ph = Phonopy(cell, supercell_matrix=S)
    n = len(ph.supercell)
    pos = ph.supercell.scaled_positions
    f = np.zeros((n, n, 3, 3))
    for i in range(n):
        for j in range(n):
            d = pos[j] - pos[i]
            d -= np.rint(d)
            r = np.linalg.norm(d @ ph.supercell.cell)
            if 0 < r < 0.9 * a / 2 * np.sqrt(3) / 1.0 + 1e-6:
                f[i, j] = -k * np.eye(3)
        f[i, i] = -f[i].sum(axis=0)
    return f


def tp(ph):
    ph.run_thermal_properties(t_min=0, t_max=300, t_step=300)
    return ph.get_thermal_properties_dict()["free_energy"]


ph = Phonopy(cell, supercell_matrix=S)
ph.force_constants = fc(1.0)
ph.run_mesh([4, 4, 4])
old = tp(ph)
ph.force_constants = fc(2.0)            # state change; the mesh is not re-run
fresh = Phonopy(cell, supercell_matrix=S)
fresh.force_constants = fc(2.0)
fresh.run_mesh([4, 4, 4])
want = tp(fresh)
try:
    got = tp(ph)                        # run AFTER the change
    print("run_thermal_properties after force_constants=:", got, " old state:", old, " fresh object:", want)
    print("SILENT STALENESS" if np.allclose(got, old) and not np.allclose(got, want) else "current")
except RuntimeError as e:
    print("refused (run_mesh required again):", e)

ph = Phonopy(cell, supercell_matrix=S)
ph.force_constants = fc(1.0)
ph.init_mesh([4, 4, 4])                 # lazy Mesh: nothing computed yet
ph.force_constants = fc(2.0)
fresh = Phonopy(cell, supercell_matrix=S)
fresh.force_constants = fc(2.0)
fresh.run_mesh([4, 4, 4])
try:
    f = ph.get_mesh_dict()["frequencies"]  # computed NOW, from the dynamical matrix object of the old state
    print("init_mesh; force_constants=; get_mesh_dict: equals fresh object:",
          np.allclose(f, fresh.get_mesh_dict()["frequencies"]))
except RuntimeError as e:
    print("refused:", e)

ph = Phonopy(cell, supercell_matrix=S)
ph.force_constants = fc(1.0)
ph.init_random_displacements()
ph.force_constants = fc(2.0)
fresh = Phonopy(cell, supercell_matrix=S)
fresh.force_constants = fc(2.0)
fresh.init_random_displacements()
try:
    d = ph.get_random_displacements_at_temperature(300, 1, random_seed=1)
    print("random displacements after force_constants=: equal fresh object:",
          np.allclose(d, fresh.get_random_displacements_at_temperature(300, 1, random_seed=1)))
except (RuntimeError, AttributeError) as e:
    print("refused:", e)
