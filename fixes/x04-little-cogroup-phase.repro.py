"""Standalone reproducer (numpy + phonopy only): IrReps(is_little_cogroup=True) does not return representations.

CsCl structure (Pm-3m, symmorphic: every translation part is zero), nearest-neighbour central springs, q = M = (1/2, 1/2, 0).
The matrices IrReps builds for the operations of the little co-group must commute with the dynamical matrix and the
matrices it reports for each degenerate set (IrReps.irreps) must multiply like the group.  With is_little_cogroup=True
neither holds; with False (little group) both hold.
"""
import numpy as np
from phonopy import Phonopy
from phonopy.structure.atoms import PhonopyAtoms

cell = PhonopyAtoms(symbols=["Na", "Cl"], cell=np.eye(3) * 4.0, scaled_positions=[[0, 0, 0], [0.5, 0.5, 0.5]])
ph = Phonopy(cell, supercell_matrix=np.diag([2, 2, 2]), primitive_matrix=np.eye(3), log_level=0)
sc = ph.supercell
n = len(sc)
pos = sc.scaled_positions
lat = sc.cell
fc = np.zeros((n, n, 3, 3))
for i in range(n):
    for j in range(n):
        if sc.symbols[i] == sc.symbols[j]:
            continue
        d = pos[j] - pos[i]
        for img in np.ndindex(3, 3, 3):                       # all periodic images at nearest-neighbour distance
            r = (d - np.rint(d) + np.array(img) - 1) @ lat
            if abs(np.linalg.norm(r) - 4.0 * np.sqrt(3) / 2) < 1e-6:
                fc[i, j] -= np.outer(r, r) / (r @ r)
    fc[i, i] = -fc[i].sum(axis=0)
ph.force_constants = fc

q = [0.5, 0.5, 0.0]
for cog in (False, True):
    ph.set_irreps(q, is_little_cogroup=cog)
    ir = ph.irreps
    ph.dynamical_matrix.run(q)
    dm = ph.dynamical_matrix.dynamical_matrix
    comm = max(np.abs(g @ dm - dm @ g).max() for g in ir.ground_matrices)
    rots = [r.tolist() for r in ir._rotations_at_q]
    hom = 0.0
    for mats in ir.irreps:
        for a, ra in enumerate(rots):
            for b, rb in enumerate(rots):
                c = rots.index((np.array(ra) @ np.array(rb)).tolist())
                hom = max(hom, np.abs(np.array(mats[a]) @ np.array(mats[b]) - np.array(mats[c])).max())
    print("is_little_cogroup=%-5s  max |[Gamma(R), D(q)]| = %.2e   max |D(R1)D(R2) - D(R1R2)| = %.2e" % (cog, comm, hom))
# pinned tree:   False -> 1e-16, 1e-15      True -> 0.1 .. 1, 0.1 .. 1   (all translations are zero here, so both must agree)
