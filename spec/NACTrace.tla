------------------------------ MODULE NACTrace ------------------------------
(* Conformance of the implementation's non-analytical term correction with   *)
(* NAC.tla (C08).  One event per configuration (unit cell, supercell, raw    *)
(* Born charges / dielectric tensor), recorded by harness/props/c08.py from  *)
(* the real code and projected to the abstract state:                        *)
(*                                                                           *)
(*   ev.cfg      the configuration (binds the machine's input)               *)
(*   ev.at       unit-cell atom of which primitive atom p is an image        *)
(*   ev.nprim    supercell atoms / primitive atoms                           *)
(*   ev.born     symmetrize_borns_and_epsilon(raw) for the unit cell, as     *)
(*               rationals [num, den, exact];  ev.eps likewise               *)
(*   ev.bornPrim the charges the dynamical-matrix object finally holds       *)
(*   ev.gam      observations at the zone centre: [n, runs], every run       *)
(*               [method, layout, route, lam, K, Klam, exact] carries the    *)
(*               projected difference                                        *)
(*                 (D_nac(0; n) - D_plain(0)) sqrt(m m') / (4 pi f / V)       *)
(*               in covariant lattice components / a^2, entries as reduced   *)
(*               fractions <<num, den>>, for n and for lam * n               *)
(*   ev.comm     observations at commensurate points: [m, runs], runs        *)
(*               [method, layout, route, image, zero]                        *)
(*   ev.gen      observations at arbitrary points: [x, runs]                 *)
(*                                                                           *)
(* The machine of NAC.tla is run on the event's input; the requirement is    *)
(* evaluated on the LOGGED values (Impl.. invariants) and the logged values are compared *)
(* with the machine's (Conforms.. invariants).                                           *)
EXTENDS NAC

CONSTANT Events

VARIABLES ev, ob
tvars == <<vars, ev, ob>>

NoOb == [runs |-> {}]

TInit == Init /\ ev \in Events /\ ob = NoOb

TSetNAC == SetNACWith(ev.cfg) /\ UNCHANGED <<ev, ob>>
TGamma == \E o \in ev.gam : GammaLimitWith(o.n) /\ ob' = o /\ UNCHANGED ev
TComm == \E o \in ev.comm : AtCommensurateWith(o.m) /\ ob' = o /\ UNCHANGED ev
TGeneric == \E o \in ev.gen : AtGenericWith(o.x) /\ ob' = o /\ UNCHANGED ev

TNext == TSetNAC \/ TGamma \/ TComm \/ TGeneric
TSpec == TInit /\ [][TNext]_tvars

(* non-vacuity of the settings: in at least one configuration the reciprocal basis handed to phonopy is not    *)
(* reduced (its reduction matrix is not a signed permutation: the basis vectors are not the successive minima  *)
(* of the reciprocal lattice; recorded by the harness), and that configuration is a sheared setting U # Id3    *)
PreSomeNonReducedSetting ==
  pc = pc => \E e \in Events : e.nonReducedReciprocal /\ ~IsSignedPermutation(e.cfg.U)

(* Gonze-Lee: the reciprocal sum runs over ALL reciprocal lattice points inside the cutoff sphere - a set that    *)
(* does not depend on the basis the cell is given in.  ev.glist = [theirs, mine]: size of the object's G list    *)
(* and the number of reciprocal lattice points with |G| < G_cutoff counted by the harness                         *)
ImplGListComplete == pc = "ready" => ev.glist.theirs = ev.glist.mine

NP == Len(ev.at)
(* runs of the Gonze-Lee object with all Ewald terms (with_full_terms=True) are judged by their own invariants *)
Main(rs) == {r \in rs : r.route # "fullterms"}
Full(rs) == {r \in rs : r.route = "fullterms"}
FracOfK(j, jp, a, b) == Reduce(K.P[j][jp][a][b] * K.c1, K.c2)

-----------------------------------------------------------------------------
(* symmetrisation *)
ImplBornExact == pc = "ready" => ev.born.exact /\ ev.eps.exact /\ ev.bornPrim.exact
ConformsBornSymmetrised ==
  pc = "ready" =>
     \A i \in 1..NAtoms(cr) : \A a, b \in I3 :
        Reduce(ev.born.num[i][a][b], ev.born.den) = Reduce(zs.num[i][a][b], zs.den)
ConformsEpsSymmetrised ==
  pc = "ready" =>
     \A a, b \in I3 : Reduce(ev.eps.num[a][b], ev.eps.den) = Reduce(es.num[a][b], es.den)
(* the requirement evaluated on the logged tensors themselves *)
ImplBornInvariant ==
  pc = "ready" => BornInvariant(cr, aut, pre, [num |-> ev.born.num, den |-> ev.born.den])
ImplBornASR == pc = "ready" => BornASR(cr, [num |-> ev.born.num, den |-> ev.born.den])
ImplEpsInvariant == pc = "ready" => EpsInvariant(aut, [num |-> ev.eps.num, den |-> ev.eps.den])
(* the charges used by the dynamical matrix are those of the right atoms *)
ConformsBornPrimitive ==
  pc = "ready" =>
     \A p \in 1..NP : \A a, b \in I3 :
        Reduce(ev.bornPrim.num[p][a][b], ev.bornPrim.den) = Reduce(zs.num[ev.at[p]][a][b], zs.den)
ConformsNPrim == pc = "gamma" => ev.nprim = wang.N

-----------------------------------------------------------------------------
(* zone-centre limit *)
ImplExactProjection == pc \in {"gamma"} => \A r \in Main(ob.runs) : r.exact
(* D(0; n) = D_plain(0) + (4 pi f/V) K(n) / sqrt(m m') *)
ImplGammaLimit ==
  pc = "gamma" =>
     \A r \in Main(ob.runs) : \A p, pp \in 1..NP : \A a, b \in I3 :
        r.K[p][pp][a][b] = FracOfK(ev.at[p], ev.at[pp], a, b)
(* independent of the length of n *)
ImplHomogeneous == pc = "gamma" => \A r \in Main(ob.runs) : r.Klam = r.K
(* ... for the whole ladder of lengths of n, from 1e2 down to 3 x Q_DIRECTION_TOLERANCE (Cartesian, 1/Angstrom): *)
(* every rung gives the rational K(n) of the specification                                                         *)
ImplHomogeneousLadder ==
  pc = "gamma" =>
     \A l \in ob.ladder :
        /\ l.exact
        /\ \A p, pp \in 1..NP : \A a, b \in I3 : l.K[p][pp][a][b] = FracOfK(ev.at[p], ev.at[pp], a, b)
(* the correction is real symmetric *)
ImplSymmetric ==
  pc = "gamma" =>
     \A r \in Main(ob.runs) : \A p, pp \in 1..NP : \A a, b \in I3 : r.K[p][pp][a][b] = r.K[pp][p][b][a]
(* both methods, both layouts, all routes give the same matrix *)
ImplRoutesAgree == pc = "gamma" => \A r1, r2 \in Main(ob.runs) : r1.K = r2.K

(* commensurate, non-zero: the correction leaves the matrix unchanged *)
ImplCommensurateNoOp == pc = "comm" => \A r \in Main(ob.runs) : r.zero
(* the images queried are images of the point the machine is at *)
ConformsCommImage ==
  pc = "comm" =>
     \A r \in ob.runs :
        \/ r.image \in qs
        \/ r.kind = "outside" /\ \E y \in qs : \E g \in RecipPrim(cr, cents, 3) :
                                      r.image = VAddS(y, VScaleS(Det(cfg.S), g))
(* zero Born charges: no-op everywhere *)
ImplZeroBornNoOp ==
  (pc = "generic" /\ \A j \in 1..NAtoms(cr) : IsZeroM(zs.num[j])) => \A r \in Main(ob.runs) : r.zero
(* the same three claims for the object with all Ewald terms *)
ImplFullTermsGammaLimit ==
  pc = "gamma" =>
     \A r \in Full(ob.runs) :
        /\ r.exact /\ r.Klam = r.K
        /\ \A p, pp \in 1..NP : \A a, b \in I3 : r.K[p][pp][a][b] = FracOfK(ev.at[p], ev.at[pp], a, b)
ImplFullTermsCommensurateNoOp == pc = "comm" => \A r \in Full(ob.runs) : r.zero
ImplFullTermsZeroBornNoOp ==
  (pc = "generic" /\ \A j \in 1..NAtoms(cr) : IsZeroM(zs.num[j])) => \A r \in Full(ob.runs) : r.zero
(* the dipole-dipole term at an arbitrary q against the independent Ewald sum of the harness                *)
(* (harness/c08_ewald.py: reciprocal + real-space + limiting term of Gonze-Lee Eqs. 71-76, checked to be   *)
(* independent of the convergence parameter), evaluated with the tensors of THIS specification state:       *)
(* "recip" - the default object's reciprocal sum equals the reciprocal part for the same parameter,         *)
(* "full"  - the object with all terms equals the converged sum                                             *)
ImplDipoleSum == pc = "generic" => \A r \in ob.ew : r.what # "full" => r.ok
ImplFullTermsDipoleSum == pc = "generic" => \A r \in ob.ew : r.what = "full" => r.ok

(* non-vacuity: with non-zero charges the correction is active at some arbitrary q, on every run *)
ImplActive ==
  (pc = "ready" /\ ev.gen # {} /\ \E j \in 1..NAtoms(cr) : ~IsZeroM(zs.num[j])) =>
     \E o \in ev.gen : \A r \in o.runs : r.active
=============================================================================
