------------------------------ MODULE QhaJet ------------------------------
(* Exact arithmetic used by the C20 modules (Eos, Qha).                     *)
(*                                                                          *)
(* 1. Rationals <<n, d>> (d > 0, reduced).  TLC integers are 32-bit and TLC *)
(*    raises an error on overflow, so a wrong value is never produced       *)
(*    silently; products are cross-cancelled before multiplying.            *)
(* 2. Jets: truncated Taylor series  c0 + c1 h + c2 h^2 + c3 h^3  with      *)
(*    rational coefficients (a jet is <<c0, c1, c2, c3>>).  The operations  *)
(*    are the DEFINITIONS of derivative of a sum / product / reciprocal /   *)
(*    real power / exponential, restricted to expansion points where the    *)
(*    value is rational (base value 1 for powers, argument 0 for exp).      *)
(* 3. Units as exponent vectors over the named base constants               *)
(*    EV (J per eV), NA (Avogadro), 10.                                     *)
EXTENDS Integers, Sequences, TLC

IAbs(x) == IF x < 0 THEN -x ELSE x

RECURSIVE GcdNat(_, _)
GcdNat(a, b) == IF b = 0 THEN a ELSE GcdNat(b, a % b)
Gcd(a, b) == GcdNat(IAbs(a), IAbs(b))

(* ---------------------------------------------------------------- rationals *)
Rat(n, d) ==
  LET g == Gcd(n, d)
      s == IF d < 0 THEN -1 ELSE 1
  IN  <<(s * n) \div g, (s * d) \div g>>

R0 == <<0, 1>>
R1 == <<1, 1>>
RInt(k) == <<k, 1>>
IsRat(a) == /\ a \in Seq(Int) /\ Len(a) = 2 /\ a[2] > 0 /\ Gcd(a[1], a[2]) = 1

RNeg(a) == <<-a[1], a[2]>>
RAdd(a, b) ==
  LET g == Gcd(a[2], b[2])
  IN  Rat(a[1] * (b[2] \div g) + b[1] * (a[2] \div g), (a[2] \div g) * b[2])
RSub(a, b) == RAdd(a, RNeg(b))
RMul(a, b) ==
  LET g1 == Gcd(a[1], b[2])
      g2 == Gcd(b[1], a[2])
  IN  <<(a[1] \div g1) * (b[1] \div g2), (a[2] \div g2) * (b[2] \div g1)>>
RInv(a) == IF a[1] > 0 THEN <<a[2], a[1]>> ELSE <<-a[2], -a[1]>>     \* a # 0
RDiv(a, b) == RMul(a, RInv(b))
RLt(a, b) == RSub(a, b)[1] < 0
RLe(a, b) == RSub(a, b)[1] <= 0
RAbs(a) == <<IAbs(a[1]), a[2]>>
RAdd3(a, b, c) == RAdd(a, RAdd(b, c))
RMul3(a, b, c) == RMul(a, RMul(b, c))

(* -------------------------------------------------------------------- jets *)
JConst(c) == <<c, R0, R0, R0>>
JVar(v0) == <<v0, R1, R0, R0>>              \* the variable itself, expanded at v0
(* the same variable expanded in the reduced step s = h / v0 (coefficients stay small),   *)
(* and the conversion of a jet in s back to a jet in h:  c_k(h) = c_k(s) / v0^k           *)
JVarScaled(v0) == <<v0, v0, R0, R0>>
JUnscale(u, v0) ==
  LET i1 == RInv(v0)
      i2 == RMul(i1, i1)
      i3 == RMul(i2, i1)
  IN  <<u[1], RMul(u[2], i1), RMul(u[3], i2), RMul(u[4], i3)>>
JAdd(u, w) == <<RAdd(u[1], w[1]), RAdd(u[2], w[2]), RAdd(u[3], w[3]), RAdd(u[4], w[4])>>
JNeg(u) == <<RNeg(u[1]), RNeg(u[2]), RNeg(u[3]), RNeg(u[4])>>
JSub(u, w) == JAdd(u, JNeg(w))
JScale(c, u) == <<RMul(c, u[1]), RMul(c, u[2]), RMul(c, u[3]), RMul(c, u[4])>>
(* Leibniz rule *)
JMul(u, w) ==
  <<RMul(u[1], w[1]),
    RAdd(RMul(u[1], w[2]), RMul(u[2], w[1])),
    RAdd3(RMul(u[1], w[3]), RMul(u[2], w[2]), RMul(u[3], w[1])),
    RAdd(RAdd(RMul(u[1], w[4]), RMul(u[2], w[3])), RAdd(RMul(u[3], w[2]), RMul(u[4], w[1])))>>
(* reciprocal: v with u v = 1 *)
JInv(u) ==
  LET i0 == RInv(u[1])
      v1 == i0
      v2 == RNeg(RMul(i0, RMul(u[2], v1)))
      v3 == RNeg(RMul(i0, RAdd(RMul(u[2], v2), RMul(u[3], v1))))
      v4 == RNeg(RMul(i0, RAdd3(RMul(u[2], v3), RMul(u[3], v2), RMul(u[4], v1))))
  IN  <<v1, v2, v3, v4>>
JDiv(u, w) == JMul(u, JInv(w))
(* real power u^a for a jet with value 1 at the expansion point:            *)
(* p' u = a u' p, solved coefficient by coefficient                         *)
JPow1(u, a) ==
  LET p0 == R1
      p1 == RMul(a, u[2])
      p2 == RMul(<<1, 2>>, RAdd(RMul3(RSub(a, R1), u[2], p1), RMul3(RMul(RInt(2), a), u[3], p0)))
      p3 == RMul(<<1, 3>>, RAdd3(RMul3(RSub(a, RInt(2)), u[2], p2),
                                 RMul3(RSub(RMul(RInt(2), a), R1), u[3], p1),
                                 RMul3(RMul(RInt(3), a), u[4], p0)))
  IN  <<p0, p1, p2, p3>>
(* exponential of a jet with value 0 at the expansion point: e' = w' e *)
JExp0(w) ==
  LET e0 == R1
      e1 == w[2]
      e2 == RMul(<<1, 2>>, RAdd(RMul(w[2], e1), RMul3(RInt(2), w[3], e0)))
      e3 == RMul(<<1, 3>>, RAdd3(RMul(w[2], e2), RMul3(RInt(2), w[3], e1), RMul3(RInt(3), w[4], e0)))
  IN  <<e0, e1, e2, e3>>

(* ------------------------------------------------------------------- units *)
(* a conversion factor is  EV^ev * NA^na * 10^ten  *)
Unit(e, n, t) == [ev |-> e, na |-> n, ten |-> t]
UOne == Unit(0, 0, 0)
UMul(a, b) == Unit(a.ev + b.ev, a.na + b.na, a.ten + b.ten)
UInv(a) == Unit(-a.ev, -a.na, -a.ten)
UDiv(a, b) == UMul(a, UInv(b))
=============================================================================
