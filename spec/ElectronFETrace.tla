-------------------------- MODULE ElectronFETrace --------------------------
(* X08, code -> spec: what real ElectronFreeEnergy / get_free_energy_at_T runs reported, judged by the        *)
(* requirement of ElectronFE.tla.  One TLC state per event; the event is carried in `cs`, the set of failed   *)
(* judgements in `verdict`.  Deviations are logged by the harness in thousandths of the stated tolerance      *)
(* (integers, capped); every expected value the harness compared with is re-derived here exactly and must be *)
(* the one of the definition (Conforms...).  Named real-valued primitives evaluated by the harness: exp, ln.  *)
(*                                                                                                            *)
(* Event kinds (one TLC run each):                                                                            *)
(*  "pt"  rational thermodynamic point: case [sy, y, z]; the class was given T = u/(k ln y), N = DefCount     *)
(*        xN, xE: expected count/energy used;  dv = <<cons, en, mu, ts, fe, occ>>;  fq: occupations * 10^7    *)
(*  "sr"  temperature series of a ground-state case [sy, nw] on the grid xg = <<tmin, tmax, tstep>>           *)
(*        xts: reported temperatures * 1000;  xE0: ground state energy used;  muq: mu / u * 10^6 at T = 0     *)
(*        rows: <<inband, cons, en, ts, fe, api, tsq, fg, eg, der, fd>> per temperature                       *)
(*        column 12: mu against the closed form of a two-level spectrum (-1: not evaluated)                    *)
(*  "sc"  phonopy-vasp-efe's table (get_fe_ev_lines, vasprun.xml parsing replaced by a stand-in): xts the T     *)
(*        column * 1000, rows[i][v] the deviation of the printed entry from                                     *)
(*        energy(sigma->0)(V) - F_el(T=0, V) + F_el(T, V)  (the script's documented formula), dvol: e-v.dat     *)
(*  "iv"  a transformed system against its base at one temperature: xt in Transforms(sy), dv = <<mu, en, ts>> *)
EXTENDS ElectronFE

CONSTANTS Events, EventKind

Lim == 1000
TNames == {"ConformsExpected", "ConformsGround", "ConformsTransform", "ConformsBandFlag",
           "ImplConservation", "ImplOutsideBand", "ImplEnergy", "ImplMu", "ImplEntropy", "ImplFreeEnergy",
           "ImplOccupation", "ImplOccShape", "ImplGrid", "ImplApi", "ImplEntropyNonneg", "ImplBelowGround",
           "ImplEnergyAboveGround", "ImplDerivative", "ImplDecreasing", "ImplZeroT", "ImplInvariance",
           "ImplScriptRows", "ImplScriptReference", "ImplScriptVolumes"}

(* ---- "pt" ---- *)
PtJudge(ev, n) ==
  LET s == ev.xc.sy  y == ev.xc.y  z == ev.xc.z
      inb == MuInBand(s, y, z)
      d == ev.dv
  IN CASE n = "ConformsExpected" -> ev.xN = DefCount(s, y, z) /\ ev.xE = DefEnergy(s, y, z)
       [] n = "ImplConservation" -> inb => d[1] <= Lim
       [] n = "ImplOutsideBand" -> (~inb) => d[1] <= Lim
       [] n = "ImplEnergy" -> inb => d[2] <= Lim
       [] n = "ImplMu" -> inb => d[3] <= Lim
       [] n = "ImplEntropy" -> inb => d[4] <= Lim
       [] n = "ImplFreeEnergy" -> d[5] <= Lim
       [] n = "ImplOccupation" -> inb => d[6] <= Lim
       (* logged occupations: in [0, 1], non-increasing with the level, equal on equal levels, whatever mu is *)
       [] n = "ImplOccShape" ->
            /\ \A t \in States(s) : ev.fq[t[1]][t[2]][t[3]] >= 0 /\ ev.fq[t[1]][t[2]][t[3]] <= 10000000
            /\ \A t1, t2 \in States(s) :
                 /\ Lev(s, t1) < Lev(s, t2) => ev.fq[t1[1]][t1[2]][t1[3]] >= ev.fq[t2[1]][t2[2]][t2[3]]
                 /\ Lev(s, t1) = Lev(s, t2) => ev.fq[t1[1]][t1[2]][t1[3]] = ev.fq[t2[1]][t2[2]][t2[3]]
       [] OTHER -> TRUE

(* ---- "sr" ---- *)
GridOf(g) == [i \in 1..((g[2] - g[1]) \div g[3] + 1) |-> 1000 * (g[1] + (i - 1) * g[3])]
FullFill(s, nw) == Fill(s, nw, Homo(s, nw)) = RInt(Deg(s, Homo(s, nw)))
(* at T -> 0 the count at mu = emin is half the lowest level, at mu = emax all but half the highest *)
ZeroInBand(s, nw) == /\ RLeq(<<Deg(s, MinLevel(s)), 2>>, nw)
                     /\ RLeq(nw, RSub(RInt(Capacity(s)), <<Deg(s, MaxLevel(s)), 2>>))
ZeroStrictIn(s, nw) == /\ RLess(<<Deg(s, MinLevel(s)), 2>>, nw)
                       /\ RLess(nw, RSub(RInt(Capacity(s)), <<Deg(s, MaxLevel(s)), 2>>))
(* the boundary may fall either way in binary64 *)
ZeroFlagOk(flag, s, nw) == (ZeroStrictIn(s, nw) => flag) /\ (flag => ZeroInBand(s, nw))
RowsOk(ev, col) == \A i \in 1..Len(ev.rows) : ev.rows[i][1] => ev.rows[i][col] <= Lim
SrJudge(ev, n) ==
  LET s == ev.xs  nw == ev.xnw
  IN CASE n = "ConformsGround" -> ev.xE0 = GroundEnergy(s, nw) /\ ValidCount(s, nw)
       [] n = "ConformsBandFlag" -> ev.xg[1] = 0 => ZeroFlagOk(ev.rows[1][1], s, nw)
       [] n = "ImplGrid" -> ev.xts = GridOf(ev.xg) /\ Len(ev.rows) = Len(ev.xts)
       [] n = "ImplConservation" -> RowsOk(ev, 2)
       [] n = "ImplOutsideBand" -> \A i \in 1..Len(ev.rows) : (~ev.rows[i][1]) => ev.rows[i][2] <= Lim
       [] n = "ImplEnergy" -> RowsOk(ev, 3)
       [] n = "ImplEntropy" -> RowsOk(ev, 4)
       (* two distinct levels: mu has a closed form (root of a quadratic); it must have been evaluated for T > 0 *)
       [] n = "ImplMu" -> Cardinality(Levels(s)) = 2 =>
                             \A i \in 1..Len(ev.rows) : (ev.rows[i][1] /\ ev.xts[i] > 0) => (ev.rows[i][12] >= 0 /\ ev.rows[i][12] <= Lim)
       [] n = "ImplFreeEnergy" -> \A i \in 1..Len(ev.rows) : ev.rows[i][5] <= Lim
       [] n = "ImplApi" -> \A i \in 1..Len(ev.rows) : ev.rows[i][6] <= Lim
       [] n = "ImplEntropyNonneg" -> \A i \in 1..Len(ev.rows) : ev.rows[i][7] >= 0
       [] n = "ImplBelowGround" -> RowsOk(ev, 8)
       [] n = "ImplEnergyAboveGround" -> RowsOk(ev, 9)
       [] n = "ImplDerivative" -> RowsOk(ev, 10)
       [] n = "ImplDecreasing" -> \A i \in 1..(Len(ev.rows) - 1) : (ev.rows[i][1] /\ ev.rows[i + 1][1]) => ev.rows[i][11] <= Lim
       [] n = "ImplZeroT" ->
            (ev.xg[1] = 0 /\ ev.rows[1][1]) =>
               IF FullFill(s, nw) THEN /\ 1000000 * Homo(s, nw) - 2 <= ev.muq
                                       /\ ev.muq <= 1000000 * Lumo(s, nw) + 2
               ELSE AbsI(ev.muq - 1000000 * Homo(s, nw)) <= 2
       [] OTHER -> TRUE

(* ---- "iv" ---- *)
IvJudge(ev, n) ==
  CASE n = "ConformsTransform" -> ev.xt \in Transforms(ev.xs)
    [] n = "ImplInvariance" -> ev.inb => (ev.dv[1] <= Lim /\ ev.dv[2] <= Lim /\ ev.dv[3] <= Lim)
    [] OTHER -> TRUE

(* ---- "sc" ---- *)
AllRows(ev) == \A i \in 1..Len(ev.rows) : \A v \in 1..Len(ev.rows[i]) : ev.rows[i][v] <= Lim
ScJudge(ev, n) ==
  CASE n = "ImplGrid" -> ev.xts = GridOf(ev.xg) /\ Len(ev.rows) = Len(ev.xts)
    [] n = "ImplScriptRows" -> ev.xg[1] = 0 => AllRows(ev)
    (* the reference is the T = 0 free energy also when the table starts at tmin > 0 *)
    [] n = "ImplScriptReference" -> ev.xg[1] > 0 => AllRows(ev)
    [] n = "ImplScriptVolumes" -> ev.dvol <= Lim
    [] OTHER -> TRUE

Judgement(ev, n) == IF EventKind = "pt" THEN PtJudge(ev, n) ELSE IF EventKind = "sr" THEN SrJudge(ev, n)
                    ELSE IF EventKind = "sc" THEN ScJudge(ev, n) ELSE IvJudge(ev, n)

TInit == /\ pc = "trace" /\ cs \in Events /\ ik = 0 /\ rowN = <<>> /\ rowE = <<>> /\ outN = <<0, 1>> /\ outE = <<0, 1>>
         /\ verdict = {n \in TNames : ~Judgement(cs, n)}
TNext == UNCHANGED vars

Report == PrintT(ToString(<<"Q", cs.xid, verdict>>))
ConformsExpected == "ConformsExpected" \notin verdict
ConformsGround == "ConformsGround" \notin verdict
ConformsTransform == "ConformsTransform" \notin verdict
ConformsBandFlag == "ConformsBandFlag" \notin verdict
ImplConservation == "ImplConservation" \notin verdict
ImplOutsideBand == "ImplOutsideBand" \notin verdict
ImplEnergy == "ImplEnergy" \notin verdict
ImplMu == "ImplMu" \notin verdict
ImplEntropy == "ImplEntropy" \notin verdict
ImplFreeEnergy == "ImplFreeEnergy" \notin verdict
ImplOccupation == "ImplOccupation" \notin verdict
ImplOccShape == "ImplOccShape" \notin verdict
ImplGrid == "ImplGrid" \notin verdict
ImplApi == "ImplApi" \notin verdict
ImplEntropyNonneg == "ImplEntropyNonneg" \notin verdict
ImplBelowGround == "ImplBelowGround" \notin verdict
ImplEnergyAboveGround == "ImplEnergyAboveGround" \notin verdict
ImplDerivative == "ImplDerivative" \notin verdict
ImplDecreasing == "ImplDecreasing" \notin verdict
ImplZeroT == "ImplZeroT" \notin verdict
ImplInvariance == "ImplInvariance" \notin verdict
ImplScriptRows == "ImplScriptRows" \notin verdict
ImplScriptReference == "ImplScriptReference" \notin verdict
ImplScriptVolumes == "ImplScriptVolumes" \notin verdict
=============================================================================
