-------------------------- MODULE RandomDispHistory --------------------------
(* Histories on ONE RandomDisplacements instance (phonon/random_displacements.py; *)
(* through Phonopy.init_random_displacements / get_random_displacements_at_      *)
(* temperature the same instance is kept in Phonopy.random_displacements).       *)
(*                                                                               *)
(* Abstract state.  The eigen-solutions of the instance are identified by the    *)
(* sequence `eig` of modifications applied since construction ("s1", "s2": the   *)
(* `frequencies` setter with one of two scale factors; "treat":                  *)
(* treat_imaginary_modes()).  Every result carries a PROVENANCE: which           *)
(* eigen-solutions (and temperature) it was computed from:                       *)
(*   cov  - covariance of the displacements of the last run(T)                   *)
(*   uu   - correlation matrix of the last run_correlation_matrix(T)             *)
(*   fc   - force constants of the last run_d2f() (treat_imaginary_modes calls   *)
(*          run_d2f itself)                                                      *)
(*   sig  - mode standard deviations an implementation may keep between runs     *)
(* The harness projects real results to provenances by comparing them with the   *)
(* canonical covariance / force constants it computes for every (eig, T) of the  *)
(* history from the specification's exact force constants (harness/c19_num.py).  *)
(*                                                                               *)
(* Requirement (C19 over histories): after ANY history, the covariance of the    *)
(* next run(T) is the canonical covariance of the CURRENT eigen-solutions at T,  *)
(* i.e. that of a fresh instance with the same eigen-solutions; likewise uu and  *)
(* the rebuilt force constants.                                                  *)
(*                                                                               *)
(* Invalidate = TRUE is the specification.  Invalidate = FALSE describes an      *)
(* implementation that keeps `sig` keyed on the temperature only; TLC shows it   *)
(* violates the requirement (used as a self-check of the invariant).             *)
EXTENDS Integers, Sequences, TLC

CONSTANTS Temps,       \* temperature identifiers, e.g. {"T1", "T2"}
          Scales,      \* identifiers of frequency scalings, e.g. {"s1", "s2"}
          MaxLen,      \* histories up to this length
          Invalidate   \* BOOLEAN, see above

VARIABLES eig, sig, cov, uu, fc, hist, obs
vars == <<eig, sig, cov, uu, fc, hist, obs>>

None == [T |-> "-", eig |-> <<"-">>]
Prov(t, e) == [T |-> t, eig |-> e]
Act(a, x) == [a |-> a, arg |-> x]

Init == /\ eig = <<>> /\ sig = None /\ cov = None /\ uu = None /\ fc = None
        /\ hist = <<>> /\ obs = <<>>

Room == Len(hist) < MaxLen

(* run(T): draws with the mode standard deviations of the current eigen-solutions at T *)
Run(t) ==
  /\ Room
  /\ LET reuse == IF Invalidate THEN sig = Prov(t, eig) ELSE (sig # None /\ sig.T = t)
         s == IF reuse THEN sig ELSE Prov(t, eig)
     IN /\ sig' = s
        /\ cov' = s
        /\ obs' = Append(obs, s)
  /\ hist' = Append(hist, Act("run", t))
  /\ UNCHANGED <<eig, uu, fc>>

(* rd.frequencies = scale * rd.frequencies *)
SetFrequencies(m) ==
  /\ Room
  /\ eig' = Append(eig, m)
  /\ sig' = IF Invalidate THEN None ELSE sig
  /\ hist' = Append(hist, Act("set", m))
  /\ obs' = Append(obs, None)
  /\ UNCHANGED <<cov, uu, fc>>

(* treat_imaginary_modes(): |f|, shift of the low window, then run_d2f() *)
TreatImaginary ==
  /\ Room
  /\ eig' = Append(eig, "treat")
  /\ sig' = IF Invalidate THEN None ELSE sig
  /\ fc' = Prov("-", eig')
  /\ hist' = Append(hist, Act("treat", "-"))
  /\ obs' = Append(obs, fc')
  /\ UNCHANGED <<cov, uu>>

RunCorrelation(t) ==
  /\ Room
  /\ uu' = Prov(t, eig)
  /\ hist' = Append(hist, Act("corr", t))
  /\ obs' = Append(obs, uu')
  /\ UNCHANGED <<eig, sig, cov, fc>>

RunD2F ==
  /\ Room
  /\ fc' = Prov("-", eig)
  /\ hist' = Append(hist, Act("d2f", "-"))
  /\ obs' = Append(obs, fc')
  /\ UNCHANGED <<eig, sig, cov, uu>>

Next == \/ \E t \in Temps : Run(t) \/ RunCorrelation(t)
        \/ \E m \in Scales : SetFrequencies(m)
        \/ TreatImaginary \/ RunD2F

Spec == Init /\ [][Next]_vars

-----------------------------------------------------------------------------
(* what must be observed after action `a` when the eigen-solutions are then `e` *)
Required(a, e) ==
  CASE a.a = "run" -> Prov(a.arg, e)
    [] a.a = "corr" -> Prov(a.arg, e)
    [] a.a \in {"d2f", "treat"} -> Prov("-", e)
    [] OTHER -> None

(* eigen-solutions after the first k actions of history h *)
RECURSIVE EigAfter(_, _)
EigAfter(h, k) ==
  IF k = 0 THEN <<>>
  ELSE LET e == EigAfter(h, k - 1)
       IN IF h[k].a = "set" THEN Append(e, h[k].arg)
          ELSE IF h[k].a = "treat" THEN Append(e, "treat") ELSE e

ReqHistory(h, o) ==
  /\ Len(o) = Len(h)
  /\ \A k \in 1..Len(h) : o[k] = Required(h[k], EigAfter(h, k))

(* every result of the machine is that of a fresh instance with the current eigen-solutions *)
InvCanonicalAfterAnyHistory == ReqHistory(hist, obs)
InvEig == eig = EigAfter(hist, Len(hist))
(* anything kept between runs belongs to the current eigen-solutions *)
InvCacheCoherent == sig # None => sig.eig = eig
(* run(T), run_correlation_matrix(T) agree whenever nothing was modified in between *)
InvRunMatchesCorrelation == (cov # None /\ uu # None /\ cov.T = uu.T /\ cov.eig = eig /\ uu.eig = eig) => cov = uu
=============================================================================
