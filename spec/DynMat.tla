------------------------------- MODULE DynMat -------------------------------
(* C02 / C03.  The dynamical matrix phonopy builds from supercell force       *)
(* constants, as a step machine over EXACT data, and what the two properties  *)
(* require of it.                                                             *)
(*                                                                            *)
(* Everything is a FORMAL FOURIER SERIES  sum_r C_r e^{2 pi i q.r}  with      *)
(* exact integer 3x3 coefficient matrices C_r (force constants in covariant   *)
(* lattice components, D^2 Phi~ of Springs.tla) indexed by separation vectors *)
(* r (integer numerators over D in UNIT-cell coordinates).  The primitives    *)
(* exp, sqrt, eigenvalues and the change to Cartesian components are NAMED    *)
(* here and interpreted by the harness:                                       *)
(*                                                                            *)
(*   Dyn(i,j;q) = CartOf( sum_r herm[i,j][r] e^{2 pi i q.r/D} )               *)
(*                / (2 lcm D^2) / sqrt(mass[i] mass[j])                       *)
(*   Freq = sign(e) sqrt|e| * UnitFactor,   e in eig(Dyn)                     *)
(*                                                                            *)
(* REQUIREMENT SIDE (the definition): `def`, the lattice Fourier sum over the *)
(* infinite crystal of the spring model (Springs!AllTerms), per pair of      *)
(* primitive atoms.  IMPLEMENTATION SIDE: `raw`, `herm` - what               *)
(* dym_get_dynamical_matrix_at_q / _run_py_dynamical_matrix do: sum over the  *)
(* supercell atoms k with s2p(k) = p2s(j), phase averaged over the multi[k,i] *)
(* shortest vectors, full or compact indexing of the force-constant array,    *)
(* then make_Hermitian.                                                       *)
(*                                                                            *)
(* A case (chosen from the constant set Cases) is EITHER a descriptor         *)
(* [id, entry, S, Pn, Pd, layout, fck, scale] that action Prepare completes   *)
(* from the definitions (design-level model check) OR the projection of a     *)
(* real phonopy session (DynMatTrace.tla), which carries in addition the      *)
(* LOGGED values of the real Supercell / Primitive / ShortestPairs:           *)
(*                                                                            *)
(*       atoms : Seq([a, u]),        supercell atoms: unit atom, position*D   *)
(*       p2s, s2p : Seq(Nat),        1-based supercell indices                *)
(*       pmass : Seq(Nat),           masses of the primitive atoms (rounded)  *)
(*       pmassU : Seq(Nat),          ... in units of 10^-6 (rounded): a mass  *)
(*                                   that is not the catalogue's integer is   *)
(*                                   visible to TLC (JMasses)                 *)
(*       svecs : Seq(Seq(SUBSET Z^3)), svecs[k][i], numerators over D, unit   *)
(*       mult  : Seq(Seq(Nat)),      stored multiplicities                    *)
(*       massOK : BOOLEAN            supercell and unit-cell masses follow    *)
(*  S, Pn/Pd: supercell and primitive matrix; layout : "full"|"compact";      *)
(*  fck : [kind : "springs"|"chiral"|"gen", seed] (spring model; spring model  *)
(*  plus seed*[r]x, non-symmetric blocks; arbitrary integer array number     *)
(*  seed); scale : [s, t] (fc -> s fc, masses -> t masses).                   *)
(*                                                                            *)
(* What Phonopy.run_qpoints REPORTS (dynamical_matrices, frequencies,          *)
(* eigenvectors) is this Dyn / Freq and nothing else: a function of (force    *)
(* constants, masses, q) only, independent of which other outputs are         *)
(* requested and of the build of the extension.  That statement, judged on    *)
(* logged runs of all option combinations on both builds, is                  *)
(* spec/DynMatReport.tla (dOK/fOK there mean "equals the `herm` series of     *)
(* this module").                                                             *)
(*                                                                            *)
(* TLC NOTE.  TLC caches LET definitions and operator arguments only while    *)
(* it evaluates a next-state action; in invariants and constants they are     *)
(* re-evaluated at every use.  All judgements are therefore evaluated inside  *)
(* the action Judge and stored in `verdict`; the invariants read them.        *)
EXTENDS Catalogue

CONSTANTS Cases,       \* set of case records
          Judgements   \* names of the judgements to evaluate (see Verdict)
(* every case carries two search bounds (chosen by the harness, CHECKED here):            *)
(*   sbox  half-width of the box of unit-lattice translations searched for images        *)
(*         (JSearchComplete: it contains every vector not longer than a shortest one)    *)
(*   cbox  half-width of the box that holds one m per commensurate q (JCommQComplete)    *)

VARIABLES pc, tab, x, terms, aut, sl, comm, def, fcrow, mass, pmap, smap, lcm, raw, herm, verdict, out
vars == <<pc, tab, x, terms, aut, sl, comm, def, fcrow, mass, pmap, smap, lcm, raw, herm, verdict, out>>

(* ---------------------------------------------------------------------------- *)
(* per catalogue entry, evaluated once per run (zero-arity constant definitions) *)
(* ---------------------------------------------------------------------------- *)
UsedEntries == {c.entry : c \in Cases}
CrTable == Materialize([n \in UsedEntries |-> EntryByName(n)])

(* Springs!AllTerms, evaluated with explicit integer arithmetic (TLC evaluates the vector   *)
(* operators of IntLinAlg lazily, component by component, which is very slow over the      *)
(* 10^4 candidate pairs of an 8-atom cell).  JTermsAreSpringsTerms states the equality.    *)
FastPairTerms(c) ==
  LET G == c.G
      D == c.D
      dom == DOMAIN c.springs
      hit == {p \in (1..NAtoms(c)) \X (1..NAtoms(c)) \X Box(c.reach) :
                LET na == Num(c, p[1])
                    nb == Num(c, p[2])
                    t == p[3]
                    r1 == nb[1] + D * t[1] - na[1]
                    r2 == nb[2] + D * t[2] - na[2]
                    r3 == nb[3] + D * t[3] - na[3]
                    l2 == G[1][1] * r1 * r1 + G[2][2] * r2 * r2 + G[3][3] * r3 * r3
                          + (G[1][2] + G[2][1]) * r1 * r2 + (G[1][3] + G[3][1]) * r1 * r3
                          + (G[2][3] + G[3][2]) * r2 * r3
                IN /\ (r1 # 0 \/ r2 # 0 \/ r3 # 0)
                   /\ <<Min(Sp(c, p[1]), Sp(c, p[2])), Max(Sp(c, p[1]), Sp(c, p[2])), l2>> \in dom}
  IN  {LET na == Num(c, p[1])
           nb == Num(c, p[2])
           r == <<nb[1] + D * p[3][1] - na[1], nb[2] + D * p[3][2] - na[2], nb[3] + D * p[3][3] - na[3]>>
       IN [a |-> p[1], b |-> p[2], t |-> p[3], r |-> r, T |-> Materialize(PairTensor(c, p[1], p[2], r))] : p \in hit}
FastAllTerms(c) ==
  LET pt == FastPairTerms(c)
  IN  pt \cup {[a |-> a, b |-> a, t |-> Zero3, r |-> Zero3, T |-> Materialize(OnSiteTensor(pt, a))] : a \in 1..NAtoms(c)}

(* the space group, as Crystal!Aut but with the rotation parts found column by column:   *)
(* W^T G W = G  iff  the columns c_j of W satisfy  c_i^T G c_j = G_ij                    *)
FastMetricPreserving(G) ==
  {<<<<c[1][1], c[2][1], c[3][1]>>, <<c[1][2], c[2][2], c[3][2]>>, <<c[1][3], c[2][3], c[3][3]>>>> :
     c \in {c \in {v \in Box(1) : QForm(G, v) = G[1][1]} \X {v \in Box(1) : QForm(G, v) = G[2][2]}
                   \X {v \in Box(1) : QForm(G, v) = G[3][3]} :
              /\ BForm(G, c[1], c[2]) = G[1][2] /\ BForm(G, c[1], c[3]) = G[1][3]
              /\ BForm(G, c[2], c[3]) = G[2][3]}}
FastAut(c) ==
  UNION {{<<W, w>> : w \in {w \in CandTrans(c, W) : IsSymmetryOp(c, W, w)}} : W \in FastMetricPreserving(c.G)}

(* ---------------------------------------------------------------------------- *)
(* geometry of a case                                                           *)
(* ---------------------------------------------------------------------------- *)
Cr(c) == CrTable[c.entry]
NS(c) == Len(c.atoms)
NP(c) == Len(c.p2s)
U(c, k) == c.atoms[k].u                       \* position numerators of supercell atom k
UP(c, i) == c.atoms[c.p2s[i]].u               \* ... of primitive atom i
AP(c, i) == c.atoms[c.p2s[i]].a               \* unit-cell atom of primitive atom i
KeyS(c, u) == ClassKey(c.S, Cr(c).D, u)       \* class modulo the supercell lattice
KeyP(c, u) == ClassKey(c.Pn, Cr(c).D, VScale(c.Pd, u))   \* ... modulo the primitive lattice
ZeroKey == <<0, 0, 0>>
Col(M, j) == <<M[1][j], M[2][j], M[3][j]>>

(* unit-lattice translations that belong to the supercell lattice, within the search box *)
SubLattice(S, b) == {t \in Box(b) : ClassKey(S, 1, t) = ZeroKey}

(* THE DEFINITION of phonopy's "shortest vectors" of a pair: all images d + R, R in the *)
(* supercell lattice, of minimal length.                                               *)
ShortestSet(G, D, SLs, d) ==
  LET cand == {VAdd(d, VScale(D, t)) : t \in SLs}
      len == Materialize([r \in cand |-> QForm(G, r)])
      lmin == MinOf({len[r] : r \in cand})
  IN  {r \in cand : len[r] = lmin}

(* the box searched really contains every vector not longer than lmax:                  *)
(* r_i^2 <= (r^T G r) (G^-1)_ii  for positive definite G.                               *)
SearchCompleteFor(G, D, b, d, lmax) ==
  \A i \in I3 : /\ D * b > Abs(d[i])
                /\ (D * b - Abs(d[i])) * (D * b - Abs(d[i])) * Det(G) > lmax * Adj(G)[i][i]

(* ---------------------------------------------------------------------------- *)
(* a case completed from the definitions (design-level model)                   *)
(* ---------------------------------------------------------------------------- *)
RECURSIVE FirstOfClass(_, _, _)
FirstOfClass(keys, i, acc) ==
  IF i > Len(keys) THEN acc
  ELSE IF \E n \in 1..Len(acc) : keys[acc[n]] = keys[i]
       THEN FirstOfClass(keys, i + 1, acc)
       ELSE FirstOfClass(keys, i + 1, Append(acc, i))

(* the model's own supercell: one lattice translation per class modulo the supercell     *)
(* lattice, one nearest to the origin (any choice would do; this one keeps the           *)
(* separations, and with them the search box, small)                                     *)
NearReps(S, b) ==
  LET key == Materialize([t \in Box(b) |-> ClassKey(S, 1, t)])
      keys == {key[t] : t \in Box(b)}
  IN  {CHOOSE t \in Box(b) : /\ key[t] = k
                             /\ \A t2 \in Box(b) : key[t2] = k => Dot(t, t) <= Dot(t2, t2) : k \in keys}
ModelAtoms(c, S, b) ==
  LET reps == SetToSeq(NearReps(S, b))
      n == Len(reps)
  IN  Materialize([k \in 1..(NAtoms(c) * n) |->
         [a |-> ((k - 1) \div n) + 1,
          u |-> Materialize(VAdd(Num(c, ((k - 1) \div n) + 1), VScale(c.D, reps[((k - 1) % n) + 1])))]])

ModelCase(d, repbox, sbox) ==
  LET C == CrTable[d.entry]
      atoms == ModelAtoms(C, d.S, repbox)
      keys == Materialize([k \in 1..Len(atoms) |-> ClassKey(d.Pn, C.D, VScale(d.Pd, atoms[k].u))])
      p2s == FirstOfClass(keys, 1, <<>>)
      s2p == Materialize([k \in 1..Len(atoms) |-> p2s[CHOOSE n \in 1..Len(p2s) : keys[p2s[n]] = keys[k]]])
      SLs == SubLattice(d.S, sbox)
      sv == Materialize([k \in 1..Len(atoms) |-> Materialize([i \in 1..Len(p2s) |->
                ShortestSet(C.G, C.D, SLs, VSub(atoms[k].u, atoms[p2s[i]].u))])])
  IN  [id |-> d.id, entry |-> d.entry, S |-> d.S, Pn |-> d.Pn, Pd |-> d.Pd, atoms |-> atoms,
       p2s |-> p2s, s2p |-> s2p,
       pmass |-> [i \in 1..Len(p2s) |-> d.scale.t * C.atoms[atoms[p2s[i]].a].m],
       pmassU |-> [i \in 1..Len(p2s) |-> 1000000 * d.scale.t * C.atoms[atoms[p2s[i]].a].m],
       svecs |-> sv,
       mult |-> [k \in 1..Len(atoms) |-> [i \in 1..Len(p2s) |-> Cardinality(sv[k][i])]],
       layout |-> d.layout, store |-> "model", fck |-> d.fck, scale |-> d.scale, massOK |-> TRUE,
       sbox |-> d.sbox, cbox |-> d.cbox]

(* ---------------------------------------------------------------------------- *)
(* force constants                                                              *)
(* ---------------------------------------------------------------------------- *)
SumFn(K, f) == LET s == SetToSeq(K) IN MSum([n \in 1..Len(s) |-> f[s[n]]])

(* rows of the supercell force constants that belong to the primitive atoms,     *)
(* spring model: sum over periodic images (Springs!SuperFC restricted to rows)   *)
SpringRows(c, tms) ==
  LET key == Materialize([k \in 1..NS(c) |-> KeyS(c, U(c, k))])
  IN  [i \in 1..NP(c) |->
        LET mine == {t \in tms : t.a = AP(c, i)}
            tkey == Materialize([t \in mine |-> KeyS(c, VAdd(UP(c, i), t.r))])
        IN [k \in 1..NS(c) |->
              SumT({t \in mine : t.b = c.atoms[k].a /\ tkey[t] = key[k]})]]

(* arbitrary integer arrays (no symmetry whatsoever) from a bounded generator, for the *)
(* identities that must hold for ANY force constants (C03)                             *)
GenEntry(seed, i, k, al, be) ==
  ((seed * 7 + i * 13 + k * 31 + al * 5 + be * 3 + seed * k * al + i * be * k) % 5) - 2
GenRows(c, seed) ==
  [i \in 1..NP(c) |-> [k \in 1..NS(c) |->
     [al \in I3 |-> [be \in I3 |-> GenEntry(seed, i, k, al, be)]]]]

BaseRows(c, tms) == IF c.fck.kind = "gen" THEN GenRows(c, c.fck.seed) ELSE SpringRows(c, tms)

(* "chiral" force constants: the spring model plus, for every pair, kappa [r]x (the       *)
(* cross-product matrix of the separation; in covariant lattice components of a pair at   *)
(* r = n L / D it is a constant times [n]x, an integer matrix).  The blocks are then NOT   *)
(* symmetric 3x3 matrices (the spring model's are, which would hide a transposed block    *)
(* convention), while index-permutation symmetry ([-r]x = [r]x^T), translational          *)
(* invariance (on-site term by the sum rule) and covariance under PROPER rotations        *)
(* (W^T [W n]x W = det(W) [n]x) still hold.  The on-site term stays symmetric iff the      *)
(* neighbour shells of every atom are inversion symmetric: JSeriesPermSym checks it.      *)
Cross(n) == <<<<0, -n[3], n[2]>>, <<n[3], 0, -n[1]>>, <<-n[2], n[1], 0>>>>
ChiralTerms(tms, kappa, natoms) ==
  LET pt == {[a |-> t.a, b |-> t.b, t |-> t.t, r |-> t.r,
              T |-> Materialize(MAdd(t.T, MScale(kappa, Cross(t.r))))] : t \in {t \in tms : t.r # Zero3}}
  IN  pt \cup {[a |-> a, b |-> a, t |-> Zero3, r |-> Zero3, T |-> Materialize(OnSiteTensor(pt, a))] : a \in 1..natoms}
TermsFor(c, tms) ==
  IF c.fck.kind = "chiral" THEN ChiralTerms(tms, c.fck.seed, NAtoms(CrTable[c.entry])) ELSE tms
ScaleRows(s, rows) == [i \in DOMAIN rows |-> [k \in DOMAIN rows[i] |-> MScale(s, rows[i][k])]]

(* ---------------------------------------------------------------------------- *)
(* the definition: lattice Fourier sum over the infinite crystal                 *)
(*   D(jj',q) ~ sum_l Phi(j0, j'l) exp(2 pi i q.[r(j'l) - r(j0)])                *)
(* ---------------------------------------------------------------------------- *)
DefTerms(c, tms, i, j) ==
  {t \in tms : t.a = AP(c, i) /\ KeyP(c, VAdd(UP(c, i), t.r)) = KeyP(c, UP(c, j))}

DefSeries(c, tms) ==
  [p \in (1..NP(c)) \X (1..NP(c)) |->
     LET T == DefTerms(c, tms, p[1], p[2])
     IN [r \in {t.r : t \in T} |-> SumT({t \in T : t.r = r})]]

(* ---------------------------------------------------------------------------- *)
(* the implementation, step by step                                              *)
(* ---------------------------------------------------------------------------- *)
LCM2(a, b) == (a * b) \div GCD2(a, b)
LcmOf(T) == LET RECURSIVE F(_)
                F(R) == IF R = {} THEN 1 ELSE LET n == CHOOSE n \in R : TRUE IN LCM2(n, F(R \ {n}))
            IN F(T)

Multi(c, k, i) == c.mult[k][i]   \* the kernels divide by the stored multiplicity

(* _get_fc_elements_mapping: which row of the array belongs to primitive atom i, and *)
(* the label compared with it for supercell atom k                                   *)
PMapOf(c) == IF c.layout = "full" THEN c.p2s ELSE [i \in 1..NP(c) |-> i]
SMapOf(c) == IF c.layout = "full" THEN c.s2p
             ELSE [k \in 1..NS(c) |-> CHOOSE i \in 1..NP(c) : c.p2s[i] = c.s2p[k]]

(* element of the force-constant ARRAY as the kernel addresses it: row `row`, column k. *)
(* full layout: only the rows of the primitive atoms are defined by the case (the      *)
(* other rows must never be read).                                                     *)
FcAt(c, rows, row, k) ==
  IF c.layout = "full" THEN rows[CHOOSE i \in 1..NP(c) : c.p2s[i] = row][k]
  ELSE rows[row][k]

(* get_dynmat_ij / get_dm: coefficient of e^{2 pi i q.r} in block (i,j), times L = lcm *)
RawSeries(c, rows, pm, sm, L) ==
  [p \in (1..NP(c)) \X (1..NP(c)) |->
     LET i == p[1]
         j == p[2]
         K == {k \in 1..NS(c) : sm[k] = pm[j]}
     IN [r \in UNION {c.svecs[k][i] : k \in K} |->
           SumFn({k \in K : r \in c.svecs[k][i]},
                 [k \in K |-> MScale(L \div Multi(c, k, i), FcAt(c, rows, pm[i], k))])]]

CoefAt(ser, p, r) == IF r \in DOMAIN ser[p] THEN ser[p][r] ELSE ZeroM

(* make_Hermitian: (M + M^dagger)/2; coefficient of e^{2 pi i q.r}, times 2 *)
HermSeries(c, rw) ==
  [p \in DOMAIN rw |->
     LET pt == <<p[2], p[1]>>
     IN [r \in DOMAIN rw[p] \cup {VNeg(r2) : r2 \in DOMAIN rw[pt]} |->
           MAdd(CoefAt(rw, p, r), Transpose(CoefAt(rw, pt, VNeg(r))))]]

(* integer matrix T = P^-1 S (supercell in primitive coordinates) and one integer row m  *)
(* per class of Z^3 modulo the row lattice of T: q = m S^-1 runs over all q of the       *)
(* primitive Brillouin zone that are commensurate with the supercell                     *)
TMatOf(c) == LET A == MatMul(Adj(c.Pn), c.S)
             IN Materialize([i \in I3 |-> Materialize([j \in I3 |-> (c.Pd * A[i][j]) \div Det(c.Pn)])])
TMatExact(c) == LET A == MatMul(Adj(c.Pn), c.S)
                IN \A i, j \in I3 : (c.Pd * A[i][j]) % Det(c.Pn) = 0
CommReps(c) ==
  LET Tt == Materialize(Transpose(TMatOf(c)))
      A == Materialize(Adj(Tt))
      md == Abs(Det(Tt))
      key == Materialize([t \in Box(c.cbox) |-> LET w == MatVec(A, t) IN <<w[1] % md, w[2] % md, w[3] % md>>])
  IN  {CHOOSE t \in Box(c.cbox) : key[t] = k : k \in {key[t] : t \in Box(c.cbox)}}

Init ==
  /\ pc = "load" /\ tab = <<>> /\ x = <<>>
  /\ terms = {} /\ aut = {} /\ sl = {} /\ comm = {} /\ def = <<>> /\ fcrow = <<>> /\ mass = <<>>
  /\ pmap = <<>> /\ smap = <<>> /\ lcm = 0 /\ raw = <<>> /\ herm = <<>> /\ verdict = <<>> /\ out = <<>>

(* the infinite crystals of the entries in use: force-constant series and space group,   *)
(* computed once per run                                                                *)
Load ==
  /\ pc = "load"
  /\ tab' = Materialize([n \in UsedEntries |-> [terms |-> FastAllTerms(CrTable[n]), aut |-> FastAut(CrTable[n])]])
  /\ pc' = "choose"
  /\ UNCHANGED <<x, terms, aut, sl, comm, def, fcrow, mass, pmap, smap, lcm, raw, herm, verdict, out>>

Choose ==
  /\ pc = "choose"
  /\ \E c \in Cases : /\ x' = c /\ terms' = TermsFor(c, tab[c.entry].terms) /\ aut' = tab[c.entry].aut
  /\ tab' = <<>>
  /\ pc' = "prepare"
  /\ UNCHANGED <<sl, comm, def, fcrow, mass, pmap, smap, lcm, raw, herm, verdict, out>>

(* a descriptor is completed from the definitions; a logged case is taken as it is *)
Prepare ==
  /\ pc = "prepare"
  /\ x' = IF "atoms" \in DOMAIN x THEN x ELSE ModelCase(x, 2, x.sbox)
  /\ pc' = "fourier"
  /\ UNCHANGED <<tab, terms, aut, sl, comm, def, fcrow, mass, pmap, smap, lcm, raw, herm, verdict, out>>

(* the infinite crystal and its Fourier series (requirement side) *)
BuildFourier ==
  /\ pc = "fourier"
  /\ def' = DefSeries(x, terms)
  /\ sl' = SubLattice(x.S, x.sbox)
  /\ pc' = "setfc"
  /\ UNCHANGED <<tab, x, terms, aut, comm, fcrow, mass, pmap, smap, lcm, raw, herm, verdict, out>>

(* Phonopy.force_constants = s * Phi *)
SetFC ==
  /\ pc = "setfc"
  /\ fcrow' = ScaleRows(x.scale.s, BaseRows(x, terms))
  /\ pc' = "setmass"
  /\ UNCHANGED <<tab, x, terms, aut, sl, comm, def, mass, pmap, smap, lcm, raw, herm, verdict, out>>

(* Phonopy.masses = t * m *)
SetMasses ==
  /\ pc = "setmass"
  /\ mass' = [i \in 1..NP(x) |-> x.scale.t * Cr(x).atoms[AP(x, i)].m]
  /\ pc' = "map"
  /\ UNCHANGED <<tab, x, terms, aut, sl, comm, def, fcrow, pmap, smap, lcm, raw, herm, verdict, out>>

MapElements ==
  /\ pc = "map"
  /\ pmap' = PMapOf(x) /\ smap' = SMapOf(x)
  /\ lcm' = LcmOf({Multi(x, k, i) : k \in 1..NS(x), i \in 1..NP(x)})
  /\ comm' = CommReps(x)
  /\ pc' = "raw"
  /\ UNCHANGED <<tab, x, terms, aut, sl, def, fcrow, mass, raw, herm, verdict, out>>

BuildRaw ==
  /\ pc = "raw"
  /\ raw' = RawSeries(x, fcrow, pmap, smap, lcm)
  /\ pc' = "herm"
  /\ UNCHANGED <<tab, x, terms, aut, sl, comm, def, fcrow, mass, pmap, smap, lcm, herm, verdict, out>>

MakeHermitian ==
  /\ pc = "herm"
  /\ herm' = HermSeries(x, raw)
  /\ pc' = "judge"
  /\ UNCHANGED <<tab, x, terms, aut, sl, comm, def, fcrow, mass, pmap, smap, lcm, raw, verdict, out>>

(* ---------------------------------------------------------------------------- *)
(* requirement (each J* is evaluated once per case, in action Judge)             *)
(* ---------------------------------------------------------------------------- *)
Springs == x.fck.kind \in {"springs", "chiral"}   \* force constants of an infinite crystal with a definition
(* the operations under which those force constants are covariant *)
OpsOf(A) == IF x.fck.kind = "chiral" THEN {g \in A : Det(g[1]) = 1} ELSE A
Pairs == (1..NP(x)) \X (1..NP(x))
Sep(k, i) == VSub(U(x, k), UP(x, i))
Scl == 2 * lcm * x.scale.s     \* herm = Scl * (series of the unscaled force constants)

L2Max == MaxOf({QForm(Cr(x).G, t.r) : t \in terms})
(* squared length (units a^2/D^2) of the shortest non-zero supercell lattice vector *)
MinSuperVec2 == MinOf({QForm(Cr(x).G, VScale(Cr(x).D, t)) : t \in sl \ {Zero3}})
ShortRange == 4 * L2Max < MinSuperVec2

(* ---- well-formedness of a case (C04's subject; here the hypothesis under which the     *)
(* logged maps may be used)                                                               *)
JCaseWellFormed ==
    /\ NS(x) = NAtoms(Cr(x)) * Abs(Det(x.S))
    /\ \A k \in 1..NS(x) : /\ x.atoms[k].a \in 1..NAtoms(Cr(x))
                            /\ SamePosModZ(Cr(x).D, U(x, k), Num(Cr(x), x.atoms[k].a))
    /\ Cardinality({KeyS(x, U(x, k)) : k \in 1..NS(x)}) = NS(x)
    /\ Cardinality({KeyP(x, UP(x, i)) : i \in 1..NP(x)}) = NP(x)
    /\ \A k \in 1..NS(x) : /\ \E i \in 1..NP(x) : x.p2s[i] = x.s2p[k]
                            /\ KeyP(x, U(x, k)) = KeyP(x, U(x, x.s2p[k]))
                            /\ Sp(Cr(x), x.atoms[k].a) = Sp(Cr(x), x.atoms[x.s2p[k]].a)
    /\ Len(x.svecs) = NS(x) /\ Len(x.mult) = NS(x)
    /\ \A k \in 1..NS(x) : Len(x.svecs[k]) = NP(x) /\ Len(x.mult[k]) = NP(x)

(* the series used is Springs!AllTerms and the group is Crystal!Aut (the fast evaluations  *)
(* above are only evaluation strategies)                                                  *)
JTermsAreSpringsTerms == terms = TermsFor(x, AllTerms(Cr(x))) /\ aut = Aut(Cr(x))
(* hypothesis of C02 on the series itself: Phi(a0, b t) = Phi(b0, a -t)^T, and the sum rule *)
JSeriesPermSym ==
  Springs => \A t \in terms : \E y \in terms :
      y.a = t.b /\ y.b = t.a /\ y.r = VNeg(t.r) /\ y.T = Transpose(t.T)
JSeriesSumRule ==
  Springs => \A a \in 1..NAtoms(Cr(x)) : SumT({t \in terms : t.a = a}) = ZeroM
(* vacuity guard: the chiral blocks really are non-symmetric matrices *)
JChiralBlocksAsymmetric ==
  (x.fck.kind = "chiral") => \E t \in terms : t.T # Transpose(t.T)

(* ---- the svecs table (recorded from the real Primitive in trace mode) ---------------- *)
(* every stored vector of pair (k,i) is an image of x_k - x_i modulo the supercell lattice *)
JSvecCongruent ==
  \A k \in 1..NS(x) : \A i \in 1..NP(x) :
     /\ x.svecs[k][i] # {}
     /\ LET kk == KeyS(x, Sep(k, i)) IN \A r \in x.svecs[k][i] : KeyS(x, r) = kk
(* ... of equal and minimal length, and all of those (the phase is AVERAGED over the      *)
(* equidistant images)                                                                    *)
JSvecShortestSets ==
  \A k \in 1..NS(x) : \A i \in 1..NP(x) :
     x.svecs[k][i] = ShortestSet(Cr(x).G, Cr(x).D, sl, Sep(k, i))
(* soundness of the bounded search (a failure is a defect of the model's constants): the  *)
(* box contains every vector not longer than a stored one (which is an image by           *)
(* JSvecCongruent, hence not shorter than the minimum)                                    *)
JSearchComplete ==
  \A k \in 1..NS(x) : \A i \in 1..NP(x) :
     x.svecs[k][i] # {} =>
       SearchCompleteFor(Cr(x).G, Cr(x).D, x.sbox, Sep(k, i), QForm(Cr(x).G, CHOOSE r \in x.svecs[k][i] : TRUE))
(* the stored multiplicity is the number of (distinct) stored vectors *)
JMultiplicity ==
  \A k \in 1..NS(x) : \A i \in 1..NP(x) : x.mult[k][i] = Cardinality(x.svecs[k][i])
(* masses used for the weighting are those of the atoms the maps point at (times t after *)
(* Phonopy.masses = t m), and the setter reached supercell and unit cell as well        *)
JMasses == x.pmass = mass /\ x.pmassU = [i \in 1..NP(x) |-> 1000000 * mass[i]]
(* the logged maps are the ones the definitions give for the logged atom order: first    *)
(* atom of each class modulo the primitive lattice (conformance; C04 owns the maps)      *)
JConformsMaps ==
  LET keys == Materialize([k \in 1..NS(x) |-> KeyP(x, U(x, k))])
      p2s == FirstOfClass(keys, 1, <<>>)
  IN  /\ x.p2s = p2s
      /\ x.s2p = [k \in 1..NS(x) |-> p2s[CHOOSE n \in 1..Len(p2s) : keys[p2s[n]] = keys[k]]]
JMassesPropagate == x.massOK

(* ---- C02 --------------------------------------------------------------------------- *)
(* at every q commensurate with the supercell e^{2 pi i q.r} depends on the class of r    *)
(* modulo the supercell lattice only: equality of the folded coefficients, ANY range      *)
Fold(f) ==   \* series of one block -> function class |-> sum of the coefficients in it
  LET key == Materialize([r \in DOMAIN f |-> KeyS(x, r)])
  IN  [kap \in {key[r] : r \in DOMAIN f} |-> SumFn({r \in DOMAIN f : key[r] = kap}, f)]
FAt(f, n) == IF n \in DOMAIN f THEN f[n] ELSE ZeroM
JEqFourierAtCommensurate ==
  Springs => \A p \in Pairs :
      LET h == Materialize(Fold(herm[p]))
          d == Materialize(Fold(def[p]))
      IN \A kap \in DOMAIN h \cup DOMAIN d : FAt(h, kap) = MScale(Scl, FAt(d, kap))

(* interaction range shorter than half the shortest supercell lattice vector: the two     *)
(* formal series are IDENTICAL, hence equal at every q                                    *)
JEqFourierShortRange ==
  (Springs /\ ShortRange) => \A p \in Pairs : \A r \in DOMAIN herm[p] \cup DOMAIN def[p] :
      CoefAt(herm, p, r) = MScale(Scl, CoefAt(def, p, r))

(* the same at the commensurate q-points themselves, as elements of the group ring       *)
(* Z[zeta_N], N = D |det S|:  q = m S^-1 (unit reciprocal coordinates), and              *)
(* q.r/D = PhaseIdx(m, r)/N  modulo 1                                                    *)
NRing == Cr(x).D * Abs(Det(x.S))
PhaseIdx(m, r) == (Sign(Det(x.S)) * Dot(m, MatVec(Adj(x.S), r))) % NRing
RingEval(f, m) ==
  LET AS == Materialize(Adj(x.S))
      sg == Sign(Det(x.S))
      N == NRing
      idx == Materialize([r \in DOMAIN f |-> (sg * Dot(m, MatVec(AS, r))) % N])
  IN  [n \in {idx[r] : r \in DOMAIN f} |-> SumFn({r \in DOMAIN f : idx[r] = n}, f)]
JEqFourierAtCommensurateQ ==
  Springs => \A p \in Pairs : \A m \in comm :
      LET h == Materialize(RingEval(herm[p], m))
          d == Materialize(RingEval(def[p], m))
      IN \A n \in DOMAIN h \cup DOMAIN d : FAt(h, n) = MScale(Scl, FAt(d, n))
JCommQComplete == TMatExact(x) /\ Cardinality(comm) = Abs(Det(TMatOf(x)))

(* ---- C03 --------------------------------------------------------------------------- *)
(* D(q) is Hermitian: C_r(i,j) = C_{-r}(j,i)^T, for ANY force constants *)
JHermitian ==
  \A p \in Pairs : \A r \in DOMAIN herm[p] :
     herm[p][r] = Transpose(CoefAt(herm, <<p[2], p[1]>>, VNeg(r)))
(* for force constants with index-permutation symmetry make_Hermitian changes nothing:   *)
(* the svec sets of reverse pairs are opposite and equally weighted                      *)
JHermitianBeforeSymmetrisation ==
  Springs => \A p \in Pairs : \A r \in DOMAIN herm[p] :
     herm[p][r] = MScale(2, CoefAt(raw, p, r))
(* D(-q) = conj D(q): coefficients are real (integers) and r enters through q.r only;    *)
(* stated at the commensurate points in the group ring (zeta^n -> zeta^-n)               *)
JTimeReversal ==
  \A p \in Pairs : \A m \in comm :
     LET h == Materialize(RingEval(herm[p], m))
         hm == Materialize(RingEval(herm[p], VNeg(m)))
         N == NRing
     IN \A n \in DOMAIN h : FAt(hm, (N - n) % N) = h[n]
(* D_jj'(q+G) = e^{2 pi i G.(tau_j' - tau_j)} D_jj'(q) for G in the primitive reciprocal *)
(* lattice: every r in the support of block (j,j') is congruent to tau_j' - tau_j modulo *)
(* the PRIMITIVE lattice                                                                 *)
JGPeriodic ==
  \A p \in Pairs :
     LET kk == KeyP(x, VSub(UP(x, p[2]), UP(x, p[1])))
     IN \A r \in DOMAIN herm[p] : KeyP(x, r) = kk
(* acoustic sum rule: D(0) annihilates the three uniform translations *)
RowTotal(i) == MSum([j \in 1..NP(x) |-> SumFn(DOMAIN herm[<<i, j>>], herm[<<i, j>>])])
JASR == Springs => \A i \in 1..NP(x) : RowTotal(i) = ZeroM
(* vacuity guard for ASR: the generated arrays do NOT obey it *)
JGenBreaksASR == (~Springs) => \E i \in 1..NP(x) : RowTotal(i) # ZeroM

(* space-group covariance.  (W,w) in Aut maps primitive atom i to Sigma(i); with W       *)
(* acting on coordinates, covariant components obey  W^T C'_{Wr} W = C_r.                *)
Sigma(W, w, i) == CHOOSE j \in 1..NP(x) : KeyP(x, Act(W, w, UP(x, i))) = KeyP(x, UP(x, j))
PreservesSuperLattice(W) == \A j \in I3 : ClassKey(x.S, 1, MatVec(W, Col(x.S, j))) = ZeroKey
AutSuper == {g \in aut : PreservesSuperLattice(g[1])}
(* operations that differ by a primitive-lattice translation state the same condition:   *)
(* one representative per (rotation part, induced map of primitive atoms)                *)
SigmaMap(g) == [i \in 1..NP(x) |-> Sigma(g[1], g[2], i)]
RepsOf(A) == LET sig == Materialize([g \in A |-> <<g[1], SigmaMap(g)>>])
             IN {CHOOSE g \in A : sig[g] = k : k \in {sig[g] : g \in A}}
Covariant(ser, g) ==
  LET W == g[1]
      Wt == Materialize(Transpose(W))
      sg == Materialize(SigmaMap(g))
  IN \A p \in Pairs :
       LET q == <<sg[p[1]], sg[p[2]]>>
       IN /\ {MatVec(W, r) : r \in DOMAIN ser[p]} = DOMAIN ser[q]
          /\ \A r \in DOMAIN ser[p] :
                MatMul(Wt, MatMul(ser[q][MatVec(W, r)], W)) = ser[p][r]
(* the infinite crystal's series is covariant under the whole space group ...            *)
JPointGroupDefinition == Springs => \A g \in RepsOf(OpsOf(aut)) : Covariant(def, g)
(* ... the implementation's under the operations that preserve the supercell lattice     *)
(* (all of them in the short-range regime, by JEqFourierShortRange)                      *)
JPointGroupCovariance == Springs => \A g \in RepsOf(OpsOf(AutSuper)) : Covariant(herm, g)
(* every rotation part is an integer matrix in primitive coordinates *)
PrimRot(W) == LET A == MatMul(Adj(x.Pn), MatMul(W, x.Pn))
              IN [i \in I3 |-> [j \in I3 |-> A[i][j] \div Det(x.Pn)]]
PrimRotExact(W) == LET A == MatMul(Adj(x.Pn), MatMul(W, x.Pn))
                   IN \A i, j \in I3 : A[i][j] % Det(x.Pn) = 0
JPrimRotationsIntegral == \A g \in aut : PrimRotExact(g[1])

(* fc -> s fc multiplies the series by s (the machine is linear in the array); masses    *)
(* t m give mass products t^2 m m', so Dyn -> (s/t) Dyn                                  *)
JScaling ==
  (x.scale.s # 1 \/ x.scale.t # 1) =>
     /\ herm = LET h1 == HermSeries(x, RawSeries(x, BaseRows(x, terms), pmap, smap, lcm))
               IN [p \in DOMAIN h1 |-> [r \in DOMAIN h1[p] |-> MScale(x.scale.s, h1[p][r])]]
     /\ \A i, j \in 1..NP(x) :
          mass[i] * mass[j] = x.scale.t * x.scale.t * Cr(x).atoms[AP(x, i)].m * Cr(x).atoms[AP(x, j)].m

Verdict(n) ==
  CASE n = "CaseWellFormed" -> JCaseWellFormed
    [] n = "SvecCongruent" -> JSvecCongruent
    [] n = "SvecShortestSets" -> JSvecShortestSets
    [] n = "SearchComplete" -> JSearchComplete
    [] n = "Multiplicity" -> JMultiplicity
    [] n = "Masses" -> JMasses
    [] n = "MassesPropagate" -> JMassesPropagate
    [] n = "CommQComplete" -> JCommQComplete
    [] n = "EqFourierAtCommensurate" -> JEqFourierAtCommensurate
    [] n = "EqFourierShortRange" -> JEqFourierShortRange
    [] n = "EqFourierAtCommensurateQ" -> JEqFourierAtCommensurateQ
    [] n = "Hermitian" -> JHermitian
    [] n = "HermitianBeforeSymmetrisation" -> JHermitianBeforeSymmetrisation
    [] n = "TimeReversal" -> JTimeReversal
    [] n = "GPeriodic" -> JGPeriodic
    [] n = "ASR" -> JASR
    [] n = "GenBreaksASR" -> JGenBreaksASR
    [] n = "PointGroupDefinition" -> JPointGroupDefinition
    [] n = "PointGroupCovariance" -> JPointGroupCovariance
    [] n = "PrimRotationsIntegral" -> JPrimRotationsIntegral
    [] n = "Scaling" -> JScaling
    [] n = "ConformsMaps" -> JConformsMaps
    [] n = "TermsAreSpringsTerms" -> JTermsAreSpringsTerms
    [] n = "SeriesPermSym" -> JSeriesPermSym
    [] n = "SeriesSumRule" -> JSeriesSumRule
    [] n = "ChiralBlocksAsymmetric" -> JChiralBlocksAsymmetric

Judge ==
  /\ pc = "judge"
  /\ verdict' = Materialize([n \in Judgements |-> Verdict(n)])
  /\ pc' = "done"
  /\ UNCHANGED <<tab, x, terms, aut, sl, comm, def, fcrow, mass, pmap, smap, lcm, raw, herm, out>>

(* the points at which the harness interprets the named primitives: TLC chooses them.    *)
(* q in PRIMITIVE reciprocal coordinates as <<numerators, denominator>>: zone boundary,  *)
(* generic (incommensurate with every supercell used), outside the first zone            *)
ProbeQ == {<<<<1, 0, 0>>, 2>>, <<<<1, 1, 0>>, 2>>, <<<<1, 1, 1>>, 2>>, <<<<0, 0, 0>>, 1>>,
           <<<<1, 2, 3>>, 7>>, <<<<3, -5, 1>>, 11>>, <<<<2, 2, -3>>, 13>>,
           <<<<10, -9, 19>>, 7>>, <<<<-14, 5, 27>>, 11>>}
ProbeG == {<<1, 0, 0>>, <<0, -1, 1>>, <<2, 1, -1>>}

(* reciprocal point group in PRIMITIVE reciprocal coordinates: transposes of the rotation *)
(* parts P^-1 W P, closed with -1 (time reversal)                                        *)
RecipGroup(A) == LET R == {Transpose(PrimRot(g[1])) : g \in A}
                 IN R \cup {MNeg(M) : M \in R}

Publish ==
  /\ pc = "done"
  /\ out' = [id |-> x.id, shortRange |-> ShortRange, nring |-> NRing, commM |-> comm,
             recipAll |-> RecipGroup(aut), recipSuper |-> RecipGroup(AutSuper),
             nAut |-> Cardinality(aut), nAutSuper |-> Cardinality(AutSuper),
             probeQ |-> ProbeQ, probeG |-> ProbeG,
             l2max |-> L2Max, minSuper2 |-> MinSuperVec2]
  /\ pc' = "pub"
  /\ UNCHANGED <<tab, x, terms, aut, sl, comm, def, fcrow, mass, pmap, smap, lcm, raw, herm, verdict>>

Next == Load \/ Choose \/ Prepare \/ BuildFourier \/ SetFC \/ SetMasses \/ MapElements \/ BuildRaw \/ MakeHermitian
        \/ Judge \/ Publish
Spec == Init /\ [][Next]_vars

(* ---------------------------------------------------------------------------- *)
(* the invariants: verdicts of the judgements                                    *)
(* ---------------------------------------------------------------------------- *)
Holds(n) == (pc \in {"done", "pub"} /\ n \in DOMAIN verdict) => verdict[n]

ReqCaseWellFormed == Holds("CaseWellFormed")
ReqSvecCongruent == Holds("SvecCongruent")
ReqSvecShortestSets == Holds("SvecShortestSets")
AssumeSearchComplete == Holds("SearchComplete")
ReqMultiplicity == Holds("Multiplicity")
ReqMasses == Holds("Masses")
ReqMassesPropagate == Holds("MassesPropagate")
CommQComplete == Holds("CommQComplete")
ImplEqFourierAtCommensurate == Holds("EqFourierAtCommensurate")
ImplEqFourierShortRange == Holds("EqFourierShortRange")
ImplEqFourierAtCommensurateQ == Holds("EqFourierAtCommensurateQ")
Hermitian == Holds("Hermitian")
HermitianBeforeSymmetrisation == Holds("HermitianBeforeSymmetrisation")
TimeReversal == Holds("TimeReversal")
GPeriodic == Holds("GPeriodic")
ASR == Holds("ASR")
GenBreaksASR == Holds("GenBreaksASR")
PointGroupDefinition == Holds("PointGroupDefinition")
PointGroupCovariance == Holds("PointGroupCovariance")
PrimRotationsIntegral == Holds("PrimRotationsIntegral")
Scaling == Holds("Scaling")
ConformsMaps == Holds("ConformsMaps")
TermsAreSpringsTerms == Holds("TermsAreSpringsTerms")
SeriesPermSym == Holds("SeriesPermSym")
SeriesSumRule == Holds("SeriesSumRule")
ChiralBlocksAsymmetric == Holds("ChiralBlocksAsymmetric")
=============================================================================
