---------------------------- MODULE DynMatRoutes ----------------------------
(* C03: the dynamical matrix AS REPORTED by every route obeys the identities  *)
(* DynMat.tla decides on the series `herm`.  A matrix can leave phonopy by    *)
(*   route  "run"      DynamicalMatrix.run(q) -> .dynamical_matrix            *)
(*          "at_q"     Phonopy.get_dynamical_matrix_at_q(q)                   *)
(*          "qpoints"  Phonopy.run_qpoints(...) ->                            *)
(*                       get_qpoints_dict()['dynamical_matrices']             *)
(*          "yaml"     ... -> write_yaml_qpoints_phonon() -> qpoints.yaml     *)
(*          "hdf5"     ... -> write_hdf5_qpoints_phonon() -> qpoints.hdf5     *)
(* and for the three run_qpoints routes the OTHER outputs requested with it   *)
(*   ev  with_eigenvectors      gv  with_group_velocities                     *)
(* are part of the route (the batch buffer is shared with the eigenvectors in *)
(* the OpenMP build); for "run" and "at_q" there is no option (ev = gv =      *)
(* FALSE is logged).  All of it on both builds of the extension:              *)
(*   build  "omp" | "serial".                                                 *)
(* The reported matrix is a function of (force constants, masses, q) only     *)
(* (the series of DynMat.tla), hence for EVERY cell of route x ev x gv x      *)
(* build it is the series, Hermitian, D(-q) = conj D(q), and scales by s/t.   *)
(* One session = one real session of C03's replay on one build, logged as     *)
(*   [id, build, scaled, runs : set of                                        *)
(*      [route, ev, gv, series, herm, trev, scal : BOOLEAN]]                  *)
(* (verdicts interpreted numerically by harness/c03_routes.py at TLC's q and  *)
(* -q; scal is logged TRUE for unscaled sessions; yaml is judged at the       *)
(* precision of its %15.10f format).  Impl* judge the logged verdicts, one    *)
(* step per (cell, identity) so that TLC names every failing identity;        *)
(* ImplEveryCellExercised is the vacuity invariant.                           *)
EXTENDS Integers, FiniteSets, TLC

CONSTANT Sessions

VARIABLES pc, r, todo, cur
vars == <<pc, r, todo, cur>>

Builds == {"omp", "serial"}
Cells == ({"qpoints", "yaml", "hdf5"} \X BOOLEAN \X BOOLEAN) \cup ({"run", "at_q"} \X {FALSE} \X {FALSE})
Identities == {"series", "herm", "trev", "scal"}
CellOf(u) == <<u.route, u.ev, u.gv>>

NoRun == [none |-> TRUE]
Init == pc = "session" /\ r \in Sessions /\ todo = Cells \X Identities /\ cur = NoRun
Report ==
  /\ pc = "session" /\ todo # {}
  /\ LET k == CHOOSE k \in todo : TRUE IN
       /\ todo' = todo \ {k}
       /\ cur' = IF \E u \in r.runs : CellOf(u) = k[1]
                  THEN LET u == CHOOSE u \in r.runs : CellOf(u) = k[1]
                       IN [cell |-> k[1], build |-> r.build, ident |-> k[2], ok |-> u[k[2]]]
                  ELSE [missing |-> k[1]]
  /\ UNCHANGED <<pc, r>>
Finish == pc = "session" /\ todo = {} /\ pc' = "done" /\ UNCHANGED <<r, todo, cur>>
Next == Report \/ Finish
Spec == Init /\ [][Next]_vars

Holds(ident) == ("ident" \in DOMAIN cur /\ cur.ident = ident) => cur.ok

(* vacuity: every cell of route x ev x gv is logged in every session, both builds occur, and *)
(* on each build there are scaled AND unscaled sessions (so that `scal` is a real verdict)   *)
ImplEveryCellExercised ==
  /\ "missing" \notin DOMAIN cur
  /\ pc = "done" =>
       /\ {CellOf(u) : u \in r.runs} = Cells /\ Cardinality(r.runs) = Cardinality(Cells)
       /\ {s.build : s \in Sessions} = Builds
       /\ \A b \in Builds : {s.scaled : s \in {s \in Sessions : s.build = b}} = BOOLEAN
ImplReportedIsTheSeries == Holds("series")
ImplReportedHermitian == Holds("herm")
ImplReportedTimeReversal == Holds("trev")
ImplReportedScaling == Holds("scal")
=============================================================================
