----------------------------- MODULE ApiHistory -----------------------------
(* C15 - a Phonopy object always answers from its current state, whatever   *)
(* its history.                                                             *)
(*                                                                          *)
(* Abstract state of one Phonopy object, of the arrays its caller holds and *)
(* of one copy().  One action per public state-changing operation of        *)
(* phonopy/api_phonopy.py with the guards and the cache handling of the     *)
(* code (MECHANISM side), the environment actions of the caller (mutating / *)
(* dropping arrays it holds, acting on the copy), and the REQUIREMENT side: *)
(* what a freshly constructed object given the current structure, force     *)
(* constants, NAC parameters and masses answers (Want) against what the     *)
(* caches answer (Got).                                                     *)
(*                                                                          *)
(* Contents are abstracted by PROVENANCE relative to the current contents:  *)
(* every derived or caller-held datum records whether it agrees with the    *)
(* content it has to agree with ("cur") or with an earlier one ("old").     *)
(* This is the quotient of "a fresh version token per content change" by    *)
(* token renaming; it makes the reachable state space finite, so TLC's      *)
(* exhaustive search covers histories of ANY length (with at most MaxHeld   *)
(* simultaneously live caller handles).                                     *)
(*                                                                          *)
(* Alias  : the aliasing classes present in the implementation.  The        *)
(*          requirement model has Alias = {}; the pinned tree's set is      *)
(*          observed on the real code by harness/props/c15.py.              *)
(* Forget : seeded defects of the mechanism, only used to show that the     *)
(*          invariants are not vacuous (TLC must catch each).               *)
EXTENDS Integers, Sequences, FiniteSets, TLC

CONSTANTS
  Alias,        \* subset of AliasClasses
  Forget,       \* subset of ForgetClasses
  MaxHeld,      \* bound on simultaneously live caller handles
  EnvAliased,   \* BOOLEAN: may the caller mutate an object that IS aliased
  Layouts,      \* subset of {"full","compact"}
  Results,      \* BOOLEAN: model the result holders (mesh, random displacements, snapshots)
  Repaired      \* BOOLEAN: _set_dynamical_matrix() drops the mesh and the random-displacement
                \* generator when a state change rebuilds the dynamical matrix (fixes/c15-stale-mesh.md);
                \* FALSE = the code as found, which keeps them

Setters == {"fc_setter", "nac_setter", "dataset_setter", "masses_setter", "forces_setter"}
Getters == {"fc_getter", "nac_getter", "dataset_getter", "masses_getter", "displacements_getter",
            "forces_getter", "primitive_getter", "supercell_getter", "unitcell_getter"}
AliasClasses == Setters \cup Getters \cup {"copy_shares"}
ForgetClasses ==
  {"SetFC", "SetNAC", "ClearNAC", "SetMasses", "Symmetrize", "SymmetrizeSG", "Cutoff",
   "ProduceFC", "GV", "SCD", "SCDdisp", "MassU", "MassS", "SR", "DmqNoRebuild"}

ASSUME Alias \subseteq AliasClasses /\ Forget \subseteq ForgetClasses
ASSUME MaxHeld \in 0..3 /\ EnvAliased \in BOOLEAN /\ Layouts \subseteq {"full", "compact"}
ASSUME Results \in BOOLEAN /\ Repaired \in BOOLEAN

(* which internal datum an API point hands in / out                          *)
SlotOf(c) == CASE c \in {"fc_setter", "fc_getter"} -> "fc"
               [] c \in {"nac_setter", "nac_getter"} -> "nac"
               [] c \in {"dataset_setter", "dataset_getter", "displacements_getter"} -> "ds"
               [] c \in {"forces_setter", "forces_getter"} -> "dsF"
               [] c = "supercell_getter" -> "massS"
               [] c = "unitcell_getter" -> "massU"
               [] OTHER -> "mass"
DirOf(c) == IF c \in Setters THEN "in" ELSE "out"

VARIABLES
  layout,  \* "none" | "full" | "compact": Phonopy._force_constants (none = None)
  nacm,    \* "none" | "wang" | "gonze":   Phonopy._nac_params (none = None)
  massS,   \* "cur" | "old": supercell masses agree with the primitive-cell masses
  massU,   \* "cur" | "old": unit-cell masses agree with the primitive-cell masses
  dsT,     \* "none" | "t1" (one displacement per supercell) | "t2" (all atoms displaced)
  dsF,     \* BOOLEAN: the dataset has forces
  dm,      \* DynamicalMatrix object [on, fc, shared, nac, cls, sr]
           \*   fc, nac: "cur"|"old" (content it holds vs Phonopy's current content)
           \*   shared : it holds the very array object Phonopy._force_constants is
           \*   sr     : "none"|"cur"|"old" short-range force constants (Gonze-Lee)
  gv,      \* "none" | "cur" | "stale": GroupVelocity object is bound to the current dm
  scd,     \* "none" | "cur" | "old": supercells-with-displacements cache vs displacements
  cp,      \* last copy(): [on, ok, shared]; ok = its content is what its owner made it
  held,    \* sequence of caller handles [cls, alias, ok]; ok = content is what the caller made it
  taint,   \* alias classes through which the caller has changed internal state
  rs,      \* result holders [mesh, rd, qp, tp]:
           \*   mesh = Phonopy._mesh [st, full, kind, own]: st "none"|"cur"|"old" = the contents it
           \*          was set up from vs the current ones; full = with eigenvectors, no symmetry
           \*          reduction; kind "run" (computed) | "lazy" (init_mesh, computes on first
           \*          access) | "iter" (IterMesh, computes while iterated); own = it holds the
           \*          current DynamicalMatrix object
           \*   rd   = Phonopy._random_displacements (init_random_displacements): "none"|"cur"|"old"
           \*   qp   = snapshot of run_qpoints / run_band_structure results
           \*   tp   = snapshot of the results derived from the mesh (thermal properties, DOS, ...)
  last     \* label of the last action (for replay; not part of the VIEW)

vars == <<layout, nacm, massS, massU, dsT, dsF, dm, gv, scd, cp, held, taint, rs, last>>
(* group ids are names: renumber them by first occurrence                    *)
NormHeld(hs) ==
  [j \in 1..Len(hs) |->
     LET firstj == CHOOSE a \in 1..j : hs[a].grp = hs[j].grp /\ \A b \in 1..(a - 1) : hs[b].grp # hs[j].grp
     IN [hs[j] EXCEPT !.grp = Cardinality({hs[b].grp : b \in 1..firstj})]]
view == <<layout, nacm, massS, massU, dsT, dsF, dm, gv, scd, cp, NormHeld(held), taint, rs>>

NoDM == [on |-> FALSE, fc |-> "cur", shared |-> FALSE, nac |-> "cur", cls |-> "plain", sr |-> "none"]
NoCP == [on |-> FALSE, ok |-> TRUE, shared |-> FALSE]
ClassOf(m) == IF m = "none" THEN "plain" ELSE m
HasFC == layout # "none"
Age(x) == IF x = "cur" THEN "old" ELSE x     \* the content x refers to has been superseded
NoMesh == [st |-> "none", full |-> FALSE, kind |-> "run", own |-> FALSE]
NoRS == [mesh |-> NoMesh, rd |-> "none", qp |-> "none", tp |-> "none"]
(* results when the content `what` ("fc" | "nac" | "mass") they were computed from is superseded  *)
(* (chg = FALSE: the content did not actually change); the random-displacement generator is built *)
(* from force constants and masses only.  rebuilt: the dynamical matrix object is replaced.       *)
Aged(r, what, chg, rebuilt) ==
  [mesh |-> [r.mesh EXCEPT !.st = IF chg THEN Age(@) ELSE @, !.own = IF rebuilt THEN FALSE ELSE @],
   rd |-> IF chg /\ what # "nac" THEN Age(r.rd) ELSE r.rd,
   qp |-> IF chg THEN Age(r.qp) ELSE r.qp, tp |-> IF chg THEN Age(r.tp) ELSE r.tp]
(* ... by a public state change that runs _set_dynamical_matrix()                                  *)
AfterStateChange(r, what, chg) ==
  LET a == Aged(r, what, chg, TRUE)
  IN IF Repaired THEN [a EXCEPT !.mesh = NoMesh, !.rd = "none"] ELSE a

-----------------------------------------------------------------------------
(* MECHANISM: Phonopy._set_dynamical_matrix() and the caches                 *)

(* a new DynamicalMatrix from the current force constants and NAC            *)
(* parameters: it shares the force-constant array with the Phonopy object,   *)
(* its short-range force constants are not built yet; an existing            *)
(* GroupVelocity object is rebuilt on it (api_phonopy.py:4008-4051)          *)
Rebuilt(m) == [on |-> TRUE, fc |-> "cur", shared |-> TRUE, nac |-> "cur", cls |-> ClassOf(m),
               sr |-> IF "SR" \in Forget /\ dm.on /\ ClassOf(m) = "gonze" THEN Age(dm.sr) ELSE "none"]
GvAfterRebuild == IF gv = "none" THEN "none" ELSE IF "GV" \in Forget THEN "stale" ELSE "cur"

(* an existing DynamicalMatrix that is NOT rebuilt when ...                  *)
DmFcReplaced == IF dm.on THEN [dm EXCEPT !.fc = "old", !.shared = FALSE, !.sr = Age(dm.sr)] ELSE dm
DmFcInPlace  == IF dm.on THEN [dm EXCEPT !.fc = IF dm.shared THEN dm.fc ELSE "old", !.sr = Age(dm.sr)] ELSE dm
DmNacChanged == IF dm.on THEN [dm EXCEPT !.nac = "old", !.sr = Age(dm.sr)] ELSE dm

(* handles [cls, alias, ok, grp]: alias = the object IS (part of) the current *)
(* internal object of its slot; ok = its content is what the caller made it; *)
(* handles with the same grp are one object or parts of one object (a getter *)
(* that returns the internal object returns the same object every time, it   *)
(* is the caller's own object if the setter kept that, and the displacement  *)
(* array handed out is the array inside the dataset dict): the caller knows  *)
(* that changing one of them changes the others                              *)
ObjKind(c) == CASE c \in {"fc_setter", "fc_getter"} -> "fc"
                [] c \in {"nac_setter", "nac_getter"} -> "nac"
                [] c \in {"dataset_setter", "dataset_getter", "displacements_getter"} -> "ds"
                [] c \in {"masses_setter", "masses_getter", "forces_setter"} -> "own"
                [] OTHER -> c
FreshGrp(hs) == LET used == {hs[j].grp : j \in 1..Len(hs)}
                    free == (1..(Len(hs) + 1)) \ used
                IN CHOOSE g \in free : \A x \in free : g <= x
NewHandle(hs, c) ==
  LET al == c \in Alias
      twins == {j \in 1..Len(hs) : hs[j].alias /\ ObjKind(hs[j].cls) = ObjKind(c)}
  IN [cls |-> c, alias |-> al, ok |-> TRUE,
      grp |-> IF al /\ twins # {} THEN hs[CHOOSE j \in twins : TRUE].grp ELSE FreshGrp(hs)]
Hand(hs, c) == IF Len(hs) < MaxHeld THEN Append(hs, NewHandle(hs, c)) ELSE hs
(* the internal object of the slots in sl is REPLACED: old handles stop aliasing *)
Unalias(hs, sl) ==
  [i \in 1..Len(hs) |-> IF SlotOf(hs[i].cls) \in sl THEN [hs[i] EXCEPT !.alias = FALSE] ELSE hs[i]]
(* the internal object of a slot is CHANGED IN PLACE: aliased handles see it *)
InPlace(hs, slot) ==
  [i \in 1..Len(hs) |-> IF SlotOf(hs[i].cls) = slot /\ hs[i].alias THEN [hs[i] EXCEPT !.ok = FALSE] ELSE hs[i]]

-----------------------------------------------------------------------------
Init ==
  /\ layout = "none" /\ nacm = "none" /\ massS = "cur" /\ massU = "cur"
  /\ dsT = "none" /\ dsF = FALSE /\ dm = NoDM /\ gv = "none" /\ scd = "none" /\ cp = NoCP
  /\ held = <<>> /\ taint = {} /\ rs = NoRS /\ last = [op |-> "Init"]

(* ph.force_constants = array (api_phonopy.py:777-792)                       *)
(* own: the caller hands in a C-contiguous float64 array that owns its data  *)
(* (the only case the code stores without copying); otherwise a list, a     *)
(* view, a Fortran-ordered or a float32 array                                *)
SetFC(lay, keep, own) ==
  /\ keep \/ own     \* (the form only matters if the caller keeps the object)
  /\ layout' = lay
  /\ held' = LET hs == Unalias(held, {"fc"})
             IN IF keep /\ Len(hs) < MaxHeld
                  THEN Append(hs, [NewHandle(hs, "fc_setter") EXCEPT !.alias = @ /\ own])
                  ELSE hs
  /\ IF "SetFC" \in Forget
       THEN dm' = DmFcReplaced /\ gv' = gv /\ rs' = Aged(rs, "fc", TRUE, FALSE)
       ELSE dm' = Rebuilt(nacm) /\ gv' = GvAfterRebuild /\ rs' = AfterStateChange(rs, "fc", TRUE)
  /\ last' = [op |-> "SetFC", lay |-> lay, keep |-> keep, own |-> own]
  /\ UNCHANGED <<nacm, massS, massU, dsT, dsF, scd, cp, taint>>

(* ph.nac_params = dict (916-920): rebuilds only if force constants exist    *)
SetNAC(m, keep) ==
  /\ nacm' = m
  /\ held' = IF keep THEN Hand(Unalias(held, {"nac"}), "nac_setter") ELSE Unalias(held, {"nac"})
  /\ IF HasFC /\ "SetNAC" \notin Forget
       THEN dm' = Rebuilt(m) /\ gv' = GvAfterRebuild /\ rs' = AfterStateChange(rs, "nac", TRUE)
       ELSE dm' = DmNacChanged /\ gv' = gv /\ rs' = Aged(rs, "nac", TRUE, FALSE)
  /\ last' = [op |-> "SetNAC", m |-> m, keep |-> keep]
  /\ UNCHANGED <<layout, massS, massU, dsT, dsF, scd, cp, taint>>

ClearNAC ==
  /\ nacm # "none"
  /\ nacm' = "none" /\ held' = Unalias(held, {"nac"})
  /\ IF HasFC /\ "ClearNAC" \notin Forget
       THEN dm' = Rebuilt("none") /\ gv' = GvAfterRebuild /\ rs' = AfterStateChange(rs, "nac", TRUE)
       ELSE dm' = DmNacChanged /\ gv' = gv /\ rs' = Aged(rs, "nac", TRUE, FALSE)
  /\ last' = [op |-> "ClearNAC"]
  /\ UNCHANGED <<layout, massS, massU, dsT, dsF, scd, cp, taint>>

(* ph.masses = array (1054-1065): primitive, supercell and unit cell.  The   *)
(* DynamicalMatrix reads masses through the Primitive object it shares with  *)
(* the Phonopy object, so it always sees the current primitive-cell masses.  *)
SetMasses(keep) ==
  /\ massS' = IF "MassS" \in Forget THEN "old" ELSE "cur"
  /\ massU' = IF "MassU" \in Forget THEN "old" ELSE "cur"
  /\ held' = LET hs == [i \in 1..Len(held) |->
                          \* the three cell objects stay, their masses arrays are replaced
                          IF held[i].cls \in {"masses_setter", "masses_getter"} THEN [held[i] EXCEPT !.alias = FALSE]
                          ELSE IF held[i].cls \in {"primitive_getter", "supercell_getter", "unitcell_getter"}
                                  /\ held[i].alias THEN [held[i] EXCEPT !.ok = FALSE]
                          ELSE held[i]]
             IN IF keep THEN Hand(hs, "masses_setter") ELSE hs
  /\ cp' = IF cp.on /\ cp.shared THEN [cp EXCEPT !.ok = FALSE] ELSE cp
  /\ IF HasFC /\ "SetMasses" \notin Forget
       THEN dm' = Rebuilt(nacm) /\ gv' = GvAfterRebuild /\ rs' = AfterStateChange(rs, "mass", TRUE)
       ELSE dm' = dm /\ gv' = gv /\ rs' = Aged(rs, "mass", TRUE, FALSE)
  /\ last' = [op |-> "SetMasses", keep |-> keep]
  /\ UNCHANGED <<layout, nacm, dsT, dsF, scd, taint>>

(* in-place operations on the force constants, then rebuild                  *)
(* (chg: the operation did change the content; it need not, e.g. a second   *)
(* cutoff with the same radius)                                              *)
InPlaceFC(name, chg) ==
  /\ HasFC
  /\ held' = IF chg THEN InPlace(held, "fc") ELSE held
  /\ IF name \in Forget
       THEN dm' = DmFcInPlace /\ gv' = gv /\ rs' = Aged(rs, "fc", chg, FALSE)
       ELSE dm' = Rebuilt(nacm) /\ gv' = GvAfterRebuild /\ rs' = AfterStateChange(rs, "fc", chg)
  /\ last' = [op |-> name, chg |-> chg]
  /\ UNCHANGED <<layout, nacm, massS, massU, dsT, dsF, scd, cp, taint>>
Symmetrize(chg) == InPlaceFC("Symmetrize", chg)                           \* 1274-1305
SymmetrizeSG(chg) == layout = "full" /\ InPlaceFC("SymmetrizeSG", chg)    \* 1307-1333
Cutoff(chg) == InPlaceFC("Cutoff", chg)                                   \* 816-826

(* ph.dataset = dict (596-612): deep copy, cache invalidated                 *)
SetDataset(f, typ, keep) ==
  /\ dsT' = typ /\ dsF' = f
  /\ scd' = IF "SCD" \in Forget THEN Age(scd) ELSE "none"
  /\ held' = LET hs == Unalias(held, {"ds", "dsF"})
             IN IF keep THEN Hand(hs, "dataset_setter") ELSE hs
  /\ last' = [op |-> "SetDataset", f |-> f, typ |-> typ, keep |-> keep]
  /\ UNCHANGED <<layout, nacm, massS, massU, dm, gv, cp, taint, rs>>

(* ph.dataset = None                                                         *)
ClearDataset ==
  /\ dsT # "none"
  /\ dsT' = "none" /\ dsF' = FALSE
  /\ scd' = IF "SCD" \in Forget THEN Age(scd) ELSE "none"
  /\ held' = Unalias(held, {"ds", "dsF"})
  /\ last' = [op |-> "ClearDataset"]
  /\ UNCHANGED <<layout, nacm, massS, massU, dm, gv, cp, taint, rs>>

(* ph.displacements = array (728-741): type-2 displacements replaced (the    *)
(* code refuses on a type-1 dataset); forces already in the dataset stay     *)
SetDisplacements ==
  /\ dsT # "t1"
  /\ dsT' = "t2" /\ dsF' = dsF
  /\ scd' = IF "SCDdisp" \in Forget THEN Age(scd) ELSE "none"
  /\ held' = IF dsT = "none" THEN Unalias(held, {"ds", "dsF"})
             ELSE [i \in 1..Len(held) |->
                     IF held[i].cls = "displacements_getter" THEN [held[i] EXCEPT !.alias = FALSE]
                     ELSE IF held[i].cls = "dataset_getter" /\ held[i].alias THEN [held[i] EXCEPT !.ok = FALSE]
                     ELSE held[i]]
  /\ last' = [op |-> "SetDisplacements"]
  /\ UNCHANGED <<layout, nacm, massS, massU, dm, gv, cp, taint, rs>>

(* ph.forces = array (863-865): copied into the dataset                      *)
SetForces(keep) ==
  /\ dsT # "none"
  /\ dsF' = TRUE
  /\ held' = LET hs == [i \in 1..Len(held) |->
                          IF SlotOf(held[i].cls) = "dsF" THEN [held[i] EXCEPT !.alias = FALSE] ELSE held[i]]
             IN IF keep THEN Hand(hs, "forces_setter") ELSE hs
  /\ last' = [op |-> "SetForces", keep |-> keep]
  /\ UNCHANGED <<layout, nacm, massS, massU, dsT, dm, gv, scd, cp, taint, rs>>

(* ph.produce_force_constants() (1208-1272): a NEW array; only the built-in  *)
(* finite-difference solver is available, which needs a type-1 dataset      *)
(* (chg = FALSE: the same dataset gives the same force constants again)      *)
ProduceFC(lay, chg) ==
  /\ dsT = "t1" /\ dsF
  /\ layout' = lay /\ held' = Unalias(held, {"fc"})
  /\ IF "ProduceFC" \in Forget
       THEN dm' = DmFcReplaced /\ gv' = gv /\ rs' = Aged(rs, "fc", chg, FALSE)
       ELSE dm' = Rebuilt(nacm) /\ gv' = GvAfterRebuild /\ rs' = AfterStateChange(rs, "fc", chg)
  /\ last' = [op |-> "ProduceFC", lay |-> lay, chg |-> chg]
  /\ UNCHANGED <<nacm, massS, massU, dsT, dsF, scd, cp, taint>>

(* ph.supercells_with_displacements (940-954): lazily built cache            *)
GetSCD ==
  /\ dsT # "none"
  /\ scd' = IF scd = "none" THEN "cur" ELSE scd
  /\ last' = [op |-> "GetSCD"]
  /\ UNCHANGED <<layout, nacm, massS, massU, dsT, dsF, dm, gv, cp, held, taint, rs>>

(* ph.copy() (3926-3984): a new object from the unit cell; ph.ph2ph(S)       *)
(* (3866-3924): a new object with Fourier-interpolated force constants       *)
Copy(via) ==
  /\ via \in {"copy", "ph2ph"}
  /\ via = "ph2ph" => HasFC
  /\ cp' = [on |-> TRUE, ok |-> massU = "cur", shared |-> "copy_shares" \in Alias]
  /\ last' = [op |-> "Copy", via |-> via]
  /\ UNCHANGED <<layout, nacm, massS, massU, dsT, dsF, dm, gv, scd, held, taint, rs>>

(* getters hand out an object                                                *)
SlotSet(sl) == CASE sl = "fc" -> HasFC [] sl = "nac" -> nacm # "none" [] sl = "ds" -> dsT # "none"
                 [] sl = "dsF" -> dsF [] OTHER -> TRUE
Get(c) ==
  /\ Len(held) < MaxHeld
  /\ SlotSet(SlotOf(c))
  /\ c \in {"displacements_getter", "forces_getter"} => dsT = "t2"   \* type-1: a new list is assembled
  /\ held' = Append(held, NewHandle(held, c))
  /\ last' = [op |-> "Get", cls |-> c]
  /\ UNCHANGED <<layout, nacm, massS, massU, dsT, dsF, dm, gv, scd, cp, taint, rs>>

(* queries on the dynamical matrix.  "qp" run_qpoints; "qpgv" with group      *)
(* velocities; "dmq" get_dynamical_matrix_at_q / get_frequencies (these call *)
(* _set_dynamical_matrix themselves); "gvq" get_group_velocity_at_q;         *)
(* "band"/"bandgv" run_band_structure; run_mesh: "mesh"/"meshgv" (symmetry   *)
(* reduced), "meshfull" (eigenvectors, no symmetry); init_mesh only:         *)
(* "meshlazy" (a Mesh that computes at the first access), "meshiter"         *)
(* (IterMesh, computes while a consumer iterates over it)                    *)
DmKinds == {"qp", "qpgv", "dmq", "gvq", "mesh", "meshgv", "band", "bandgv"}
           \cup (IF Results THEN {"meshfull", "meshlazy", "meshiter"} ELSE {})
MeshKinds == {"mesh", "meshgv", "meshfull", "meshlazy", "meshiter"}
(* queries on the mesh held by the object (consumers): thermal properties,   *)
(* total DOS, moment, get_mesh_dict; projected DOS and thermal displacements *)
(* ("td", also the displacement matrices) need the full mesh, "td" also      *)
(* takes an IterMesh;                                                        *)
(* "rdq": get_random_displacements_at_temperature on the generator           *)
Consumers == IF Results THEN {"tp", "tdos", "moment", "meshdict", "pdos", "td"} ELSE {}
NeedsFull(k) == k \in {"pdos", "td"}
QueryKinds == DmKinds \cup Consumers \cup (IF Results THEN {"rdq"} ELSE {})
UsesGV(k) == k \in {"qpgv", "gvq", "meshgv", "bandgv"}
Computes(k) == k \notin {"meshlazy", "meshiter"}
Rebuilds(k) == k = "dmq" /\ "DmqNoRebuild" \notin Forget
BuildSR(d) == IF d.cls = "gonze" /\ d.sr = "none" THEN [d EXCEPT !.sr = d.fc] ELSE d
(* the caches after the side effects of a query of kind k                    *)
DmAfterQuery(k) ==
  IF k \in DmKinds
    THEN LET d0 == IF Rebuilds(k) THEN Rebuilt(nacm) ELSE dm
         IN IF Computes(k) THEN BuildSR(d0) ELSE d0
  ELSE IF k \in Consumers /\ rs.mesh.kind \in {"lazy", "iter"} /\ rs.mesh.own
    THEN BuildSR(dm)      \* the mesh computes now, on the DynamicalMatrix object it holds
    ELSE dm
GvAfterQuery(k) ==
  LET g0 == IF Rebuilds(k) THEN GvAfterRebuild ELSE gv
  IN IF UsesGV(k) /\ g0 = "none" THEN "cur" ELSE g0
QueryEnabled(k) ==
  CASE k = "dmq" -> HasFC
    [] k \in DmKinds -> dm.on
    [] k = "rdq" -> rs.rd # "none"
    [] OTHER -> /\ rs.mesh.st # "none"
                /\ NeedsFull(k) => rs.mesh.full
                /\ rs.mesh.kind = "iter" => k = "td"

(* REQUIREMENT side of a query: what a freshly constructed object given the  *)
(* current force constants, NAC parameters and masses answers (after the     *)
(* same set-up calls, e.g. run_mesh before run_thermal_properties): it is    *)
(* built from exactly the current contents                                   *)
Want(k) == IF k \in DmKinds
             THEN [fc |-> "cur", nac |-> "cur", cls |-> ClassOf(nacm), gv |-> IF UsesGV(k) THEN "cur" ELSE "na"]
             ELSE [src |-> "cur"]
(* MECHANISM side: what this object answers, determined by what its caches   *)
(* and result holders were built from                                        *)
Got(k) == IF k \in DmKinds
            THEN LET d == BuildSR(IF Rebuilds(k) THEN Rebuilt(nacm) ELSE dm)
                 IN [fc |-> IF d.cls = "gonze" THEN d.sr ELSE d.fc, nac |-> d.nac, cls |-> d.cls,
                     gv |-> IF UsesGV(k) THEN GvAfterQuery(k) ELSE "na"]
          \* (the generator weighs the displacements with the SUPERCELL masses, which it reads when run)
          ELSE IF k = "rdq" THEN [src |-> IF massS = "cur" THEN rs.rd ELSE "old"]
          ELSE [src |-> rs.mesh.st]
Prov(k) == IF Got(k) = Want(k) THEN "cur" ELSE "old"

RsAfterQuery(k) ==
  LET r0 == IF Rebuilds(k) THEN [rs EXCEPT !.mesh.own = FALSE] ELSE rs
  IN CASE k \in {"qp", "qpgv", "band", "bandgv"} -> [r0 EXCEPT !.qp = Prov(k)]
       [] k \in MeshKinds ->
            [r0 EXCEPT !.mesh = [st |-> Prov(k), full |-> k \in {"meshfull", "meshiter"}, own |-> TRUE,
                                 kind |-> CASE k = "meshlazy" -> "lazy" [] k = "meshiter" -> "iter" [] OTHER -> "run"]]
       [] k \in Consumers ->
            [r0 EXCEPT !.tp = IF k = "meshdict" THEN @ ELSE rs.mesh.st,
                       !.mesh.kind = IF @ = "lazy" THEN "run" ELSE @]
       [] OTHER -> r0
Query(k) ==
  /\ k \in QueryKinds /\ QueryEnabled(k)
  /\ dm' = DmAfterQuery(k) /\ gv' = GvAfterQuery(k)
  /\ rs' = IF Results THEN RsAfterQuery(k) ELSE rs
  /\ last' = [op |-> "Query", k |-> k]
  /\ UNCHANGED <<layout, nacm, massS, massU, dsT, dsF, scd, cp, held, taint>>

(* ph.init_random_displacements() (3720-3753): a generator built from the    *)
(* current force constants (no NAC)                                          *)
InitRD ==
  /\ Results /\ HasFC
  /\ rs' = [rs EXCEPT !.rd = "cur"]
  /\ last' = [op |-> "InitRD"]
  /\ UNCHANGED <<layout, nacm, massS, massU, dsT, dsF, dm, gv, scd, cp, held, taint>>

(* ph.set_group_velocity(q_length) (3495-3505, deprecated): a GroupVelocity  *)
(* object on the current dynamical matrix; q_length is kept for rebuilds     *)
SetGV ==
  /\ dm.on
  /\ gv' = "cur"
  /\ last' = [op |-> "SetGV"]
  /\ UNCHANGED <<layout, nacm, massS, massU, dsT, dsF, dm, scd, cp, held, taint, rs>>

-----------------------------------------------------------------------------
(* ENVIRONMENT                                                               *)
(* the caller changes the content of an object it holds                      *)
MutateHandle(i) ==
  /\ i \in 1..Len(held)
  /\ held[i].alias => EnvAliased
  /\ LET h == held[i]
         sl == SlotOf(h.cls)
         \* the caller knows which of its references are one object
         hs == [j \in 1..Len(held) |-> IF held[j].grp = h.grp THEN [held[j] EXCEPT !.ok = TRUE] ELSE held[j]]
     IN IF h.alias
          THEN /\ held' = [j \in 1..Len(hs) |->
                             IF hs[j].grp # h.grp /\ hs[j].alias /\ SlotOf(hs[j].cls) = sl
                               THEN [hs[j] EXCEPT !.ok = FALSE] ELSE hs[j]]
               /\ taint' = taint \cup {h.cls}
               /\ dm' = CASE sl = "fc" -> DmFcInPlace
                          [] sl = "nac" -> DmNacChanged
                          [] OTHER -> dm
               /\ scd' = IF sl = "ds" THEN Age(scd) ELSE scd
               /\ massS' = IF sl = "mass" THEN "old" ELSE IF sl = "massS" THEN "old" ELSE massS
               /\ massU' = IF sl = "mass" THEN "old" ELSE IF sl = "massU" THEN "old" ELSE massU
               /\ rs' = IF sl \in {"fc", "nac", "mass"} THEN Aged(rs, sl, TRUE, FALSE) ELSE rs
          ELSE /\ held' = hs
               /\ UNCHANGED <<taint, dm, scd, massS, massU, rs>>
  /\ last' = [op |-> "MutateHandle", i |-> i]
  /\ UNCHANGED <<layout, nacm, dsT, dsF, gv, cp>>

Drop(i) ==
  /\ i \in 1..Len(held)
  /\ held' = [j \in 1..(Len(held) - 1) |-> IF j < i THEN held[j] ELSE held[j + 1]]
  /\ last' = [op |-> "Drop", i |-> i]
  /\ UNCHANGED <<layout, nacm, massS, massU, dsT, dsF, dm, gv, scd, cp, taint, rs>>

(* the caller sets masses on the COPY                                        *)
MutateCopy ==
  /\ cp.on
  /\ cp.shared => EnvAliased
  /\ cp' = [cp EXCEPT !.ok = TRUE]
  /\ massU' = IF cp.shared THEN "old" ELSE massU
  /\ taint' = IF cp.shared THEN taint \cup {"copy_shares"} ELSE taint
  /\ last' = [op |-> "MutateCopy"]
  /\ UNCHANGED <<layout, nacm, massS, dsT, dsF, dm, gv, scd, held, rs>>

EnvLabels == {"MutateHandle", "Drop", "MutateCopy"}
EnvNext == (\E i \in 1..MaxHeld : MutateHandle(i) \/ Drop(i)) \/ MutateCopy

OpNext ==
  \/ \E lay \in Layouts, keep \in BOOLEAN, own \in BOOLEAN : SetFC(lay, keep, own)
  \/ \E m \in {"wang", "gonze"}, keep \in BOOLEAN : SetNAC(m, keep)
  \/ ClearNAC
  \/ \E keep \in BOOLEAN : SetMasses(keep)
  \/ \E chg \in BOOLEAN : Symmetrize(chg) \/ SymmetrizeSG(chg) \/ Cutoff(chg)
  \/ \E f \in BOOLEAN, typ \in {"t1", "t2"}, keep \in BOOLEAN : SetDataset(f, typ, keep)
  \/ SetDisplacements \/ ClearDataset
  \/ \E keep \in BOOLEAN : SetForces(keep)
  \/ \E lay \in Layouts, chg \in BOOLEAN : ProduceFC(lay, chg)
  \/ GetSCD \/ Copy("copy") \/ Copy("ph2ph") \/ InitRD \/ SetGV
  \/ \E c \in Getters : Get(c)
  \/ \E k \in QueryKinds : Query(k)

Next == OpNext \/ EnvNext
Spec == Init /\ [][Next]_vars

-----------------------------------------------------------------------------
(* REQUIREMENT                                                               *)

TypeOK ==
  /\ layout \in {"none", "full", "compact"} /\ nacm \in {"none", "wang", "gonze"}
  /\ massS \in {"cur", "old"} /\ massU \in {"cur", "old"}
  /\ dsT \in {"none", "t1", "t2"} /\ dsF \in BOOLEAN /\ (dsF => dsT # "none")
  /\ gv \in {"none", "cur", "stale"} /\ scd \in {"none", "cur", "old"}
  /\ Len(held) <= MaxHeld /\ (dm.on => HasFC)

(* a query is possible as soon as force constants exist (masses always are)  *)
DmExists == HasFC => dm.on
(* the caches were built from the current contents                           *)
Coherent == dm.on => /\ dm.fc = "cur" /\ dm.nac = "cur" /\ dm.cls = ClassOf(nacm)
                     /\ dm.sr # "old" /\ gv # "stale"
(* every query that the object accepts is answered from the current contents:  *)
(* a result OBTAINED BEFORE a state change may be old (rs.qp, rs.tp, and a     *)
(* computed mesh read back), a query RUN AFTER it must be current or refused   *)
FreshEquivalent == \A k \in QueryKinds \ {"meshdict"} : QueryEnabled(k) => Got(k) = Want(k)
(* reading back the mesh: old results are fine if they were computed before   *)
(* the change, not if the (lazy) mesh computes them now                      *)
LazyMeshCurrent == (rs.mesh.st # "none" /\ rs.mesh.kind # "run") => rs.mesh.st = "cur"
MassesConsistent == massS = "cur" /\ massU = "cur"
ScdCoherent == scd # "old"
CopyIndependent == cp.on => (~cp.shared /\ cp.ok)

(* aliasing, per API point                                                   *)
NotRetained(c) == \A i \in 1..Len(held) : held[i].cls = c => ~held[i].alias
NotModified(c) == \A i \in 1..Len(held) : held[i].cls = c => held[i].ok
NoInputAlias == \A c \in Setters : NotRetained(c)
NoOutputAlias == \A c \in Getters : NotRetained(c)
NoInputMutation == \A c \in Setters : NotModified(c)
NoOutputMutation == \A c \in Getters : NotModified(c)
Alias_fc_setter == NotRetained("fc_setter")
Alias_nac_setter == NotRetained("nac_setter")
Alias_dataset_setter == NotRetained("dataset_setter")
Alias_masses_setter == NotRetained("masses_setter")
Alias_forces_setter == NotRetained("forces_setter")
Alias_fc_getter == NotRetained("fc_getter")
Alias_nac_getter == NotRetained("nac_getter")
Alias_dataset_getter == NotRetained("dataset_getter")
Alias_masses_getter == NotRetained("masses_getter")
Alias_displacements_getter == NotRetained("displacements_getter")
Alias_forces_getter == NotRetained("forces_getter")
Alias_primitive_getter == NotRetained("primitive_getter")
Alias_supercell_getter == NotRetained("supercell_getter")
Alias_unitcell_getter == NotRetained("unitcell_getter")
Alias_copy_shares == cp.on => ~cp.shared
(* the environment never changes what the object answers from                *)
EnvFrame == [][last'.op \in EnvLabels =>
                 UNCHANGED <<layout, nacm, massS, massU, dsT, dsF, dm, gv, scd, rs>>]_vars
NoTaint == taint = {}
=============================================================================
