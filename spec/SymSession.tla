----------------------------- MODULE SymSession -----------------------------
(* C07, histories: a Phonopy object holds force constants in full or compact *)
(* layout; public calls symmetrise them, convert between the layouts,        *)
(* transpose the compact array (kernel call used by the drift display) or    *)
(* only look at them.  One action per call, each built from the step         *)
(* transcriptions of SymOps.tla.                                             *)
(*                                                                          *)
(* `twin' is the full-layout array the object's state stands for, advanced   *)
(* with FULL-layout operations and definitions only.  The requirement        *)
(* "compact routines act exactly as the full ones do on the expanded array"  *)
(* is then the invariant TwinAgrees over all histories; "symmetrisers        *)
(* impose the invariances" is SymmetricAfterSymmetrize; "applying the        *)
(* routine again changes nothing more" is SecondSymmetrizeIsNoop.            *)
(*                                                                          *)
(* Behaviours of this module (tlc -simulate) are replayed on a real Phonopy  *)
(* object by harness/props/c07.py, comparing the array after every call.     *)
EXTENDS SymOps

CONSTANTS
  Starts,    \* set of [sys, layout, x]: initial force constants (integer arrays)
  MaxLen,    \* bound on the number of calls
  MaxSym     \* bound on the number of symmetrising calls (keeps denominators within TLC's integers)

VARIABLES st, layout, arr, twin, hist

svars == <<st, layout, arr, twin, hist>>

T == SysTable[st.sys]
NSym(h) == Cardinality({i \in 1..Len(h) : h[i].op = "Symmetrize"})
Levels == IF T.ns <= 4 THEN {1, 2} ELSE {1}

SInit ==
  \E s \in Starts :
    /\ st = s
    /\ layout = s.layout
    /\ arr = Norm(s.x)
    /\ twin = IF s.layout = "full" THEN Norm(s.x) ELSE FullOf(SysTable[s.sys], Norm(s.x))
    /\ hist = <<>>

Room == Len(hist) < MaxLen

(* Phonopy.symmetrize_force_constants(level): dispatch on the array's shape *)
Symmetrize(level) ==
  /\ Room /\ NSym(hist) < MaxSym
  /\ arr' = Run(T, IF layout = "full" THEN "full" ELSE "compact", level, arr)
  /\ twin' = Run(T, "full", level, twin)
  /\ hist' = Append(hist, [op |-> "Symmetrize", level |-> level])
  /\ UNCHANGED <<st, layout>>

(* full_fc_to_compact_fc: the twin forgets what a compact array cannot hold *)
ToCompactCall ==
  /\ Room /\ layout = "full"
  /\ arr' = ToCompact(T, arr)
  /\ twin' = FullOf(T, CompactOf(T, twin))
  /\ layout' = "compact"
  /\ hist' = Append(hist, [op |-> "ToCompact", level |-> 0])
  /\ UNCHANGED st

(* compact_fc_to_full_fc *)
ToFullCall ==
  /\ Room /\ layout = "compact"
  /\ arr' = Expand(T, arr)
  /\ layout' = "full"
  /\ hist' = Append(hist, [op |-> "ToFull", level |-> 0])
  /\ UNCHANGED <<st, twin>>

(* phonoc.transpose_compact_fc *)
TransposeCall ==
  /\ Room /\ layout = "compact"
  /\ arr' = TransposeC(T, arr)
  /\ twin' = FullTranspose(T, twin)
  /\ hist' = Append(hist, [op |-> "Transpose", level |-> 0])
  /\ UNCHANGED <<st, layout>>

(* show_drift_force_constants: looks only (on a compact array it transposes twice) *)
ShowDriftCall ==
  /\ Room
  /\ arr' = IF layout = "compact" THEN TransposeC(T, TransposeC(T, arr)) ELSE arr
  /\ hist' = Append(hist, [op |-> "ShowDrift", level |-> 0])
  /\ UNCHANGED <<st, layout, twin>>

SNext ==
  \/ \E lv \in Levels : Symmetrize(lv)
  \/ ToCompactCall \/ ToFullCall \/ TransposeCall \/ ShowDriftCall

SSpec == SInit /\ [][SNext]_svars

-----------------------------------------------------------------------------
Stands == IF layout = "full" THEN arr ELSE FullOf(T, arr)

TwinAgrees == SameArr(Stands, twin)

LastIs(op) == hist # <<>> /\ hist[Len(hist)].op = op

SymmetricAfterSymmetrize == LastIs("Symmetrize") => Symmetric(T, Stands)

(* action properties: a symmetrising (or looking) call that directly follows a  *)
(* symmetrising call changes nothing more, whatever the levels; looking never  *)
(* changes anything                                                            *)
NewCall(op) == Len(hist') = Len(hist) + 1 /\ hist'[Len(hist')].op = op
SymmetrizeAgainIsNoop ==
  [][(LastIs("Symmetrize") /\ NewCall("Symmetrize")) => arr' = arr]_svars
ShowDriftLooksOnly ==
  [][NewCall("ShowDrift") => arr' = arr]_svars

ArithOK == arr.ok /\ twin.ok
=============================================================================
