--------------------------- MODULE SymmetryCells ---------------------------
(* Spec -> code for X05: TLC builds small decorated cells atom by atom        *)
(* (a behaviour = lattice, magnetic mode, then one atom per step: a free site  *)
(* of the lattice's site list, a species, a moment).  Exhaustive search gives *)
(* every cell within the bounds, -simulate random ones; the harness builds    *)
(* each reached cell as a real PhonopyAtoms and the real Symmetry object is   *)
(* judged by SymmetryClassTrace.  Every prefix of a behaviour is a cell too.  *)
EXTENDS SymmetryClass

CONSTANTS MaxAtoms,    \* atoms per cell
          Modes,       \* subset of {"none", "col", "ncl"}
          NSpecies,
          WithExpect   \* compute the expected values of every reached cell

Grid2 == {<<x, y, z>> : x \in 0..1, y \in 0..1, z \in 0..1}
HexG(c) == <<<<2, -1, 0>>, <<-1, 2, 0>>, <<0, 0, c>>>>

Lattices ==
  << [nm |-> "cub", gram |-> <<<<4,0,0>>,<<0,4,0>>,<<0,0,4>>>>, den |-> 2, sites |-> Grid2],
     [nm |-> "tet", gram |-> <<<<4,0,0>>,<<0,4,0>>,<<0,0,6>>>>, den |-> 2, sites |-> Grid2],
     [nm |-> "ort", gram |-> <<<<3,0,0>>,<<0,4,0>>,<<0,0,5>>>>, den |-> 2, sites |-> Grid2],
     [nm |-> "mon", gram |-> <<<<4,0,1>>,<<0,5,0>>,<<1,0,6>>>>, den |-> 2, sites |-> Grid2],
     [nm |-> "hex", gram |-> HexG(3), den |-> 6,
      sites |-> {<<0,0,0>>, <<0,0,3>>, <<2,4,0>>, <<4,2,0>>, <<2,4,3>>, <<4,2,3>>, <<3,0,0>>, <<0,3,0>>, <<3,3,0>>, <<2,4,1>>}],
     [nm |-> "rho", gram |-> <<<<4,1,1>>,<<1,4,1>>,<<1,1,4>>>>, den |-> 4,
      sites |-> {<<0,0,0>>, <<2,2,2>>, <<1,1,1>>, <<3,3,3>>, <<2,0,0>>, <<0,2,0>>, <<0,0,2>>, <<1,3,0>>}],
     [nm |-> "cu4", gram |-> <<<<4,0,0>>,<<0,4,0>>,<<0,0,4>>>>, den |-> 4,
      sites |-> {<<0,0,0>>, <<2,2,0>>, <<2,0,2>>, <<0,2,2>>, <<1,1,1>>, <<3,3,1>>, <<3,1,3>>, <<1,3,3>>, <<2,2,2>>, <<1,0,0>>}],
     [nm |-> "fcp", gram |-> <<<<2,1,1>>,<<1,2,1>>,<<1,1,2>>>>, den |-> 4,
      sites |-> {<<0,0,0>>, <<1,1,1>>, <<2,2,2>>, <<3,3,3>>, <<2,0,0>>, <<0,2,2>>}],
     [nm |-> "tri", gram |-> <<<<4,1,1>>,<<1,5,2>>,<<1,2,6>>>>, den |-> 2, sites |-> Grid2] >>

Moments(mode) ==
  CASE mode = "none" -> {<<0,0,0>>}
    [] mode = "col" -> {<<m, 0, 0>> : m \in {-1, 0, 1, 2}}
    [] mode = "ncl" -> {<<0,0,0>>, <<0,0,1>>, <<0,0,-1>>, <<1,0,0>>, <<1,1,0>>, <<-1,-1,0>>}

VARIABLES lat, mode, atoms, expect
vars == <<lat, mode, atoms, expect>>

Init == /\ lat \in 1..Len(Lattices)
        /\ mode \in Modes
        /\ atoms = <<>>
        /\ expect = <<>>

Add == /\ Len(atoms) < MaxAtoms
       /\ expect = <<>>
       /\ \E s \in Lattices[lat].sites \ {atoms[k].num : k \in 1..Len(atoms)} :
            \E sp \in 1..NSpecies : \E m \in Moments(mode) :
               atoms' = Append(atoms, [sp |-> sp, num |-> s, mg |-> m])
       /\ UNCHANGED <<lat, mode, expect>>

(* close the cell: what the definition says about it *)
Finish == /\ WithExpect
          /\ Len(atoms) >= 1
          /\ expect = <<>>
          /\ expect' = Expected([gram |-> Lattices[lat].gram, den |-> Lattices[lat].den, atm |-> atoms, mmode |-> mode])
          /\ UNCHANGED <<lat, mode, atoms>>

Next == Add \/ Finish

(* what the harness reads from a state *)
CellOf == [gram |-> Lattices[lat].gram, den |-> Lattices[lat].den, atm |-> atoms, mmode |-> mode]

(* sanity of the generator *)
InvDistinct == \A a, b \in 1..Len(atoms) : a # b => ~PosEq(Lattices[lat].den, atoms[a].num, atoms[b].num)
InvBox == BoxSound(Lattices[lat].gram, 1)
=============================================================================
