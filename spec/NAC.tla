-------------------------------- MODULE NAC --------------------------------
(* Non-analytical term correction (C08).                                    *)
(*                                                                          *)
(* Anchors: phonopy/harmonic/dynamical_matrix.py (DynamicalMatrixNAC.run,   *)
(* DynamicalMatrixWang, DynamicalMatrixGL.make_Gonze_nac_dataset),          *)
(* c/dynmat.c (get_dynmat_want, dym_get_charge_sum, get_dm, get_dd),        *)
(* phonopy/structure/symmetry.py (symmetrize_borns_and_epsilon).            *)
(*                                                                          *)
(* Exact representation.  The unit cell is an integer crystal c of          *)
(* Crystal.tla with lattice rows L, L L^T = a^2 G.                          *)
(*   Born charge of atom j, Cartesian Z_j      <->  mixed lattice components *)
(*        Zh_j = L^-T Z_j L^T    (integers / zs.den); a space-group         *)
(*        operation (W,w) acts by  Zh -> W Zh W^-1  on the image atom.      *)
(*   dielectric tensor, Cartesian eps (symmetric) <-> contravariant         *)
(*        components  Cc = a^2 L^-T eps L^-1  (eps = L^T Cc L / a^2);        *)
(*        W acts by  Cc -> W Cc W^T.                                         *)
(*   direction / wave vector: integer vector n of reduced coordinates of    *)
(*        the UNIT cell's reciprocal basis (q_cart = L^-1 n).               *)
(* Then  (q.Z_j)_cart = L^-1 v_j  with  v_j = Zh_j^T n,                     *)
(*       q.eps.q      = n^T Cc n / a^2,                                      *)
(* and the requirement's matrix K(n)_{j a, j' b} = (n.Z_j)_a (n.Z_j')_b /    *)
(* (n.eps.n) has covariant lattice components                               *)
(*       L K(n)_{jj'} L^T / a^2 = v_j v_j'^T / (n^T Cc n),                   *)
(* a rational matrix.  Masses (1/sqrt(m m')) and the positive constant      *)
(* 4 pi f / V are outside TLA+: the harness supplies them.                  *)
(*                                                                          *)
(* The Wang method adds  C_jj'(q)/N  to every force-constant block between  *)
(* sublattices j, j' before the lattice Fourier sum (c/dynmat.c: get_dm),   *)
(* so its correction to the dynamical matrix is                             *)
(*     K_jj'(q) (4 pi f/V)/sqrt(m m') * (1/N) Sum_k phase(q; k, j)          *)
(* where k runs over the N supercell atoms of sublattice j' and the phase   *)
(* is the multiplicity-averaged exp(2 pi i q.(r_k - r_j)).  At a q          *)
(* commensurate with the supercell the phase is a class function on         *)
(* (translations of the crystal)/(supercell lattice), and the sum is a      *)
(* character sum.  Phases are kept exactly as exponents modulo              *)
(* M = D |det S|:  phase = exp(2 pi i e / M).                               *)
EXTENDS NACOps

CONSTANTS Cfgs      \* set of configurations, see CfgOK

VARIABLES pc,       \* "choose" | "ready" | "gamma" | "comm"
          cfg,      \* the chosen configuration
          zs,       \* symmetrised Born charges  [num |-> <<Mat,...>>, den |-> Nat]  (Zh_j = num[j]/den)
          es,       \* symmetrised dielectric tensor [num |-> Mat, den |-> Nat]       (Cc = num/den)
          n,        \* direction (Gamma limit)  /  m-label of the commensurate point
          K,        \* [P |-> [j -> [j' -> Mat]], c1 |-> Int, c2 |-> Int]:  L K L^T / a^2 = P c1 / c2
          wang,     \* result of the Wang lattice sum: [kind |-> "K" | "zero" | "other", ...]
          qs,       \* "comm": numerators (over det S) of the shortest images q + G of the point
          tgrp,     \* translations of the crystal modulo the supercell lattice (numerators over D)
          labels,   \* one label m per character of tg (commensurate points q = S^-T m)

          cr,       \* the unit cell (integer crystal)
          aut,      \* its space group {<<W, w>>}
          cents,    \* its centring translations (pure translations in aut)
          pre       \* pre[p][i]: the atom that operation p maps onto atom i

vars == <<pc, cfg, zs, es, n, K, wang, qs, tgrp, labels, cr, aut, cents, pre>>

(* A configuration:                                                          *)
(*   id     : Nat                                                            *)
(*   entry  : catalogue name                                                 *)
(*   S      : supercell matrix (relative to the unit cell, columns generate) *)
(*   Z      : raw Born charges, one integer matrix (mixed comps) per atom   *)
(*   C      : raw dielectric tensor, integer matrix (contravariant comps);  *)
(*            NOT necessarily symmetric (raw DFPT tensors of a low-symmetry *)
(*            crystal are not symmetrised by the point-group average)       *)
(*   dirs   : set of integer directions                                      *)
(*   lams   : set of non-zero integers (rescalings of the direction)         *)
(*   box    : half-width of the boxes searched for representatives          *)
(*   probes : set of integer vectors x, pden: arbitrary points q = x / pden  *)
(*   U      : integer unimodular matrix: the crystal is handed in in the     *)
(*            basis L' = U L (Id3: the catalogue setting); Z, C, dirs,       *)
(*            probes and S refer to THAT basis                               *)
-----------------------------------------------------------------------------
CfgOK(g) ==
  /\ g.entry \in AllNames
  /\ Det(g.S) # 0
  /\ Len(g.Z) = NAtoms(EntryOf(g.entry))
  /\ Abs(Det(g.U)) = 1
  /\ \A l \in g.lams : l # 0
  /\ \A d \in g.dirs : d # Zero3

NoK == [P |-> <<>>, c1 |-> 1, c2 |-> 1]
NoWang == [kind |-> "none", N |-> 0, M |-> 0]

Init ==
  /\ pc = "choose" /\ cfg = [id |-> 0] /\ zs = [num |-> <<>>, den |-> 1] /\ es = [num |-> ZeroM, den |-> 1]
  /\ n = Zero3 /\ K = NoK /\ wang = NoWang /\ qs = {}
  /\ tgrp = {} /\ labels = {} /\ cr = <<>> /\ aut = {} /\ cents = {} /\ pre = <<>>

(* nac_params are set: symmetrize_borns_and_epsilon *)
SetNACWith(g) ==
  /\ pc = "choose"
  /\ CfgOK(g)
  /\ cfg' = g
  /\ LET c == Sheared(Strip(EntryOf(g.entry)), g.U)      \* g.U = Id3: the catalogue setting
         au == AutFast(c)
         ce == {p[2] : p \in {p \in au : p[1] = Id3}}
         tr == TransGroup(c, ce, g.S, g.box)
         pt == PreTable(c, au)
     IN  /\ cr' = c /\ aut' = au /\ cents' = ce /\ pre' = pt
         /\ zs' = SymmetriseBorn(c, au, pt, g.Z)
         /\ es' = SymmetriseEps(au, g.C)
         /\ tgrp' = tr
         /\ labels' = CommLabels(c, g.S, g.box, tr)
  /\ pc' = "ready"
  /\ UNCHANGED <<n, K, wang, qs>>

SetNAC == \E g \in Cfgs : SetNACWith(g)

(* dynamical matrix at the zone centre approached along d *)
GammaLimitWith(d) ==
  /\ pc = "ready"
  /\ n' = d
  /\ K' = KofN(cr, zs, es, d)
  /\ wang' = WangSum(cr, cfg.S, Zero3, tgrp)
  /\ pc' = "gamma"
  /\ UNCHANGED <<cfg, zs, es, qs, tgrp, labels, cr, aut, cents, pre>>

GammaLimit == pc = "ready" /\ \E d \in cfg.dirs : GammaLimitWith(d)

(* dynamical matrix at the commensurate point q = S^-T m, not the zone centre *)
AtCommensurateWith(m) ==
  /\ pc = "ready"
  /\ ~TrivialChar(cr, cfg.S, m, tgrp)
  /\ wang' = WangSum(cr, cfg.S, m, tgrp)
  /\ n' = m
  /\ K' = KofN(cr, zs, es, QNum(cfg.S, m))       \* K(q): what the Wang method multiplies the sum with
  /\ qs' = ShortestImages(cr, cents, cfg.S, m, cfg.box + 1)
  /\ pc' = "comm"
  /\ UNCHANGED <<cfg, zs, es, tgrp, labels, cr, aut, cents, pre>>

AtCommensurate == pc = "ready" /\ \E m \in labels : AtCommensurateWith(m)

(* dynamical matrix at an arbitrary point q = x / cfg.pden (unit-cell           *)
(* reciprocal coordinates): only "zero Born charges => no correction" is     *)
(* required there                                                            *)
AtGenericWith(x) ==
  /\ pc = "ready"
  /\ n' = x
  /\ K' = KofN(cr, zs, es, x)
  /\ pc' = "generic"
  /\ UNCHANGED <<cfg, zs, es, wang, qs, tgrp, labels, cr, aut, cents, pre>>

AtGeneric == pc = "ready" /\ \E x \in cfg.probes : AtGenericWith(x)

Next == SetNAC \/ GammaLimit \/ AtCommensurate \/ AtGeneric
Spec == Init /\ [][Next]_vars

-----------------------------------------------------------------------------
(* Invariants.  Req* : the requirement of C08 on the model;                  *)
(*              Pre* : hypotheses / adequacy of the bounds.                  *)

TypeOK == pc \in {"choose", "ready", "gamma", "comm", "generic"}

(* symmetrisation delivers tensors that are symmetric under the space group, *)
(* obey the acoustic sum rule, and is a projection                           *)
ReqBornInvariant == pc = "ready" => BornInvariant(cr, aut, pre, zs)
ReqEpsInvariant == pc = "ready" => EpsInvariant(aut, es)
ReqBornASR == pc = "ready" => BornASR(cr, zs)
ReqProjection ==
  pc = "ready" =>
     LET c == cr
         again == SymmetriseBorn(c, aut, pre, zs.num)
         eagain == SymmetriseEps(aut, es.num)
     IN  /\ \A i \in 1..NAtoms(c) : \A a, b \in I3 :
               Reduce(again.num[i][a][b], again.den) = Reduce(zs.num[i][a][b], 1)
         /\ \A a, b \in I3 : Reduce(eagain.num[a][b], eagain.den) = Reduce(es.num[a][b], 1)
(* atoms related by a centring translation carry the same tensor: choosing   *)
(* the primitive cell's atoms is well defined                                *)
ReqCentringConsistent ==
  pc = "ready" =>
     LET c == cr IN
     \A cn \in cents : \A i \in 1..NAtoms(c) : zs.num[pre[<<Id3, cn>>][i]] = zs.num[i]

PreDenominatorPositive == pc = "gamma" => Qn(es, n) > 0 /\ es.den > 0 /\ zs.den > 0

(* K does not depend on the length (or sign) of n *)
ReqHomogeneous ==
  pc = "gamma" => \A l \in cfg.lams : KEqual(cr, KofN(cr, zs, es, VScaleS(l, n)), K)
(* K_{j'j} = K_{jj'}^T : the corrected matrix stays Hermitian (real symmetric) *)
ReqSymmetric ==
  pc = "gamma" => \A j, jp \in 1..NAtoms(cr) : K.P[jp][j] = TransposeS(K.P[j][jp])
(* acoustic sum rule: Sum_j K_{jj'} = 0 *)
ReqAcoustic ==
  pc = "gamma" => \A jp \in 1..NAtoms(cr) :
     SumFn([j \in 1..NAtoms(cr) |-> K.P[j][jp]], 1..NAtoms(cr)) = ZeroM
(* invariance under the choice of basis: with L' = U L a direction has coordinates n' = U n, the tensors are   *)
(* Zh' = U^-T Zh U^T, Cc' = U^-T Cc U^-1 and K' = U K U^T - i.e. K(n) is one Cartesian object.  Checked by     *)
(* transforming the tensors back to the catalogue setting and recomputing K there.                              *)
ReqBasisCovariant ==
  pc = "gamma" =>
     LET U == cfg.U
         Ui == UniInvS(U)
         c0 == Strip(EntryOf(cfg.entry))
         z0 == [num |-> [j \in 1..NAtoms(cr) |-> MatMulS(TransposeS(U), MatMulS(zs.num[j], TransposeS(Ui)))], den |-> zs.den]
         e0 == [num |-> MatMulS(TransposeS(U), MatMulS(es.num, U)), den |-> es.den]
         K0 == KofN(c0, z0, e0, MatVecS(Ui, n))
     IN  /\ K0.c1 = K.c1 /\ K0.c2 = K.c2
         /\ \A j, jp \in 1..NAtoms(cr) : MatMulS(U, MatMulS(K0.P[j][jp], TransposeS(U))) = K.P[j][jp]

(* n.eps.n sees only the symmetric part of eps: K is unchanged when eps is replaced by (eps + eps^T)/2        *)
(* (a kernel that reads one triangle of eps and doubles it computes something else when eps_ij # eps_ji)      *)
ReqEpsSymmetricPartOnly ==
  pc = "gamma" =>
     KEqual(cr, KofN(cr, zs, [num |-> MAddS(es.num, TransposeS(es.num)), den |-> 2 * es.den], n), K)

(* zero Born charges: no correction for any direction *)
ReqZeroBorn ==
  (pc \in {"gamma", "comm", "generic"} /\ \A j \in 1..NAtoms(cr) : IsZeroM(zs.num[j])) => KZero(cr, K)
(* covariance under the space group: for (W,w) mapping atom j onto atom i,   *)
(*   v_j(W^T n) = Zh_j^T W^T n = (W Zh_j)^T n = (Zh_i W)^T n = W^T v_i(n)      *)
(* and n.eps.n is unchanged, hence K_{jj'}(W^T n) = W^T K_{ii'}(n) W           *)
ReqCovariant ==
  pc = "gamma" =>
    LET c == cr
        vv == Materialize([i \in 1..NAtoms(c) |-> VecOf(zs, i, n)])
    IN  \A p \in aut :
          LET n2 == MatVecS(TransposeS(p[1]), n) IN
          /\ Qn(es, n2) = Qn(es, n)
          /\ \A i \in 1..NAtoms(c) : VecOf(zs, pre[p][i], n2) = MatVecS(TransposeS(p[1]), vv[i])

(* the Wang mechanism: at the zone centre all N phases are 1, the factor 1/N *)
(* cancels and the correction is K(n)                                        *)
ReqWangGamma == pc = "gamma" => wang.kind = "K" /\ wang.N = NPrim(cents, cfg.S)
(* at every other commensurate point the lattice sum vanishes identically    *)
ReqWangVanishesAtCommensurate == pc = "comm" => wang.kind = "zero"
ReqPhaseClassFunction == pc = "comm" => PhaseIsClassFunction(cr, cfg.S, n)

(* the fast search finds the space group of Crystal.tla (thorough tier) *)
PreAutAgrees == pc = "ready" => aut = Aut(cr)

(* enlarging the searched region does not give a shorter image *)
PreShortestStable ==
  pc = "comm" =>
     \A y \in qs : \A z \in ShortestImages(cr, cents, cfg.S, n, cfg.box) : QLen2(cr, y) = QLen2(cr, z)

(* adequacy of the search boxes *)
PreTransGroupComplete ==
  pc = "ready" =>
     LET c == cr
     IN  /\ Cardinality({ClassKey(cfg.S, c.D, u) : u \in tgrp}) = NPrim(cents, cfg.S)
         /\ Cardinality(labels) = NPrim(cents, cfg.S)
=============================================================================
