-------------------------- MODULE ShortestVectors --------------------------
(* C05: shortest-vector tables are the complete minimum-image sets.          *)
(*                                                                           *)
(* Exact metric: a separation is an integer vector d over the denominator D  *)
(* in the coordinates of a lattice with integer Gram matrix G; its periodic  *)
(* images are v = d + D n, n in Z^3, with squared length QForm(G, v) (units   *)
(* a^2/D^2).                                                                 *)
(*                                                                           *)
(* Requirement side (definition): MinImages = all images of minimal length,  *)
(* found by scanning a box whose half-widths B are PROVED sufficient in the  *)
(* spec (BoxSound: by Cauchy-Schwarz with the reciprocal basis an image no   *)
(* longer than the best one found has v_i^2 det G <= L2 Adj(G)_ii).           *)
(*                                                                           *)
(* Implementation side: phonopy reduces the lattice (Niggli), wraps the      *)
(* separation into [-1/2,1/2]^3 of the reduced cell and scans the 65 lattice *)
(* points  i a + j b + k c - l (a+b+c), i,j,k,l in -1..1  ("There is no      *)
(* proof that this is enough", cells.py).  Window65Complete is that missing  *)
(* statement, model-checked over all Niggli-reduced integer forms with       *)
(* bounded entries and all separations on a grid.                            *)
(*                                                                           *)
(* One behaviour handles one case `ev`:                                      *)
(*   kind "model": [G, D, d, B]               -> window scan vs sound scan   *)
(*   kind "impl" : [G, U, Gs, D, ds, B, dense, sparse] recorded from         *)
(*                 get_smallest_vectors on a real lattice with Gram matrix   *)
(*                 Gs = U G U^T (U unimodular, so arbitrarily sheared        *)
(*                 presentations of the reduced form G are exercised)        *)
EXTENDS IntLinAlg

CONSTANT Cases
VARIABLES ev, pc, snd, win
svars == <<ev, pc, snd, win>>

(* ---- Niggli-reduced forms (predicate, not algorithm) ------------------------------ *)
(* A = a.a, B = b.b, C = c.c, xi = 2 b.c, eta = 2 a.c, zeta = 2 a.b *)
Niggli(G) ==
  LET A == G[1][1] B == G[2][2] C == G[3][3]
      xi == 2 * G[2][3] eta == 2 * G[1][3] zeta == 2 * G[1][2]
      typeI == xi > 0 /\ eta > 0 /\ zeta > 0
      typeII == xi <= 0 /\ eta <= 0 /\ zeta <= 0
  IN /\ A > 0 /\ A <= B /\ B <= C
     /\ (A = B => Abs(xi) <= Abs(eta))
     /\ (B = C => Abs(eta) <= Abs(zeta))
     /\ (typeI \/ typeII)
     /\ Abs(xi) <= B /\ Abs(eta) <= A /\ Abs(zeta) <= A
     /\ (typeI => /\ (xi = B => zeta <= 2 * eta)
                  /\ (eta = A => zeta <= 2 * xi)
                  /\ (zeta = A => eta <= 2 * xi))
     /\ (typeII => /\ xi + eta + zeta + A + B >= 0
                   /\ (xi = -B => zeta = 0)
                   /\ (eta = -A => zeta = 0)
                   /\ (zeta = -A => eta = 0)
                   /\ (xi + eta + zeta + A + B = 0 => 2 * (A + eta) + zeta <= 0))
     /\ Det(G) > 0

SymMat(a, b, c, f, e, d) == <<<<a, d, e>>, <<d, b, f>>, <<e, f, c>>>>
ReducedForms(K) ==
  {G \in {SymMat(a, b, c, f, e, d) : a \in 1..K, b \in 1..K, c \in 1..K,
                                     f \in -(K \div 2)..(K \div 2), e \in -(K \div 2)..(K \div 2),
                                     d \in -(K \div 2)..(K \div 2)} : Niggli(G)}

(* ---- scans -------------------------------------------------------------------------- *)
Images(D, d, B) ==
  {<<d[1] + D * n1, d[2] + D * n2, d[3] + D * n3>> : n1 \in -B[1]..B[1], n2 \in -B[2]..B[2], n3 \in -B[3]..B[3]}

Window65 ==
  {<<i - l, j - l, k - l>> : i \in -1..1, j \in -1..1, k \in -1..1, l \in -1..1}

WindowImages(D, d) == {<<d[1] + D * n[1], d[2] + D * n[2], d[3] + D * n[3]>> : n \in Window65}

(* minimal-length members of a finite set of vectors, as [len, vecs] *)
MinSet(G, V) ==
  LET L == MinOf({QForm(G, v) : v \in V})
  IN  [len |-> L, vecs |-> {v \in V : QForm(G, v) = L}]

(* no image outside the box can be as short as the best one inside *)
BoxSound(G, D, d, B, L) ==
  \A i \in I3 : (D * (B[i] + 1) - Abs(d[i])) * (D * (B[i] + 1) - Abs(d[i])) * Det(G) > L * Adj(G)[i][i]

(* ---- per-case machine ------------------------------------------------------------------ *)
(* separation in the coordinates of the reduced form: row vector times U for "impl" cases *)
RedSep(e) == IF e.kind = "model" THEN e.d ELSE VecMat(e.ds, e.U)

Init == ev \in Cases /\ pc = "scan" /\ snd = [len |-> 0, vecs |-> {}] /\ win = [len |-> 0, vecs |-> {}]

Scan ==
  /\ pc = "scan"
  /\ snd' = IF ev.kind = "tol" THEN snd ELSE MinSet(ev.G, Images(ev.D, RedSep(ev), ev.B))
  /\ win' = IF ev.kind = "model" THEN MinSet(ev.G, WindowImages(ev.D, ev.d)) ELSE win
  /\ pc' = "done"
  /\ UNCHANGED ev

Next == Scan
Spec == Init /\ [][Next]_svars

AtEnd == pc = "done"

(* machinery soundness (a failure is a defect of the case generator, not of phonopy) *)
InvBoxSound == (AtEnd /\ ev.kind # "tol") => BoxSound(ev.G, ev.D, RedSep(ev), ev.B, snd.len)
InvCaseWellFormed ==
  /\ ev.kind = "model" => Niggli(ev.G) /\ \A i \in I3 : 2 * Abs(ev.d[i]) <= ev.D
  /\ ev.kind = "impl" => /\ Unimodular(ev.U)
                         /\ ev.Gs = MatMul(ev.U, MatMul(ev.G, Transpose(ev.U)))

(* ---- the missing proof, bounded: the 65-point window is complete ------------------------ *)
Window65Complete == (AtEnd /\ ev.kind = "model") => win = snd

(* ---- requirement on the implementation's tables --------------------------------------------- *)
(* recorded vectors are in the coordinates of the unreduced lattice (rows times U to compare) *)
ToRed(e, vs) == {VecMat(v, e.U) : v \in vs}
SeqSet(s) == {s[i] : i \in 1..Len(s)}

ImplDenseIsMinSet   == (AtEnd /\ ev.kind = "impl") => ToRed(ev, SeqSet(ev.dense)) = snd.vecs
ImplDenseNoDup      == (AtEnd /\ ev.kind = "impl") => Cardinality(SeqSet(ev.dense)) = Len(ev.dense)
ImplDenseMulti      == (AtEnd /\ ev.kind = "impl") => ev.denseMulti = Cardinality(snd.vecs)
ImplSparseIsMinSet  == (AtEnd /\ ev.kind = "impl") => ToRed(ev, SeqSet(ev.sparse)) = snd.vecs
ImplSparseNoDup     == (AtEnd /\ ev.kind = "impl") => Cardinality(SeqSet(ev.sparse)) = Len(ev.sparse)
ImplSparseMulti     == (AtEnd /\ ev.kind = "impl") => ev.sparseMulti = Cardinality(snd.vecs)
(* every recorded vector is an image of the separation, exactly on the lattice grid *)
ImplAreImages == (AtEnd /\ ev.kind = "impl") =>
   /\ ev.exact
   /\ \A v \in SeqSet(ev.dense) \cup SeqSet(ev.sparse) : \A i \in I3 : (v[i] - ev.ds[i]) % ev.D = 0
(* dense addresses are the running sum of multiplicities; converters agree (evaluated by the harness
   on the whole table, logged per pair) *)
ImplAddressOK == (AtEnd /\ ev.kind = "impl") => ev.addrOK /\ ev.convertOK

(* ---- the tolerance window itself (kind "tol") ------------------------------------------------- *)
(* Positions displaced from a tie site by an amount comparable to the tolerance are not on any     *)
(* integer grid; the requirement is then the statement of the property itself, in real numbers:   *)
(* with m the true minimum length over ALL lattice images (found by the harness by brute force in  *)
(* a box whose sufficiency it checks) and t the tolerance of the call,                             *)
(*   within   : every stored vector is an image and has length <= m + t (1 + 1e-6)                  *)
(*   complete : every image of length <  m + t (1 - 1e-6) is stored                                *)
(*   nodup    : no image is stored twice;  multi : multiplicity = number stored                    *)
(*   same     : dense and sparse tables hold the same set                                          *)
(* The real comparisons are evaluated by the harness in binary64 and logged per pair and table;    *)
(* images whose length lies within 1e-6 t of the window's edge may be on either side.              *)
TolTables == {"dense", "sparse"}
ImplTolWithin   == (AtEnd /\ ev.kind = "tol") => \A k \in TolTables : ev.within[k]
ImplTolComplete == (AtEnd /\ ev.kind = "tol") => \A k \in TolTables : ev.complete[k]
ImplTolNoDup    == (AtEnd /\ ev.kind = "tol") => \A k \in TolTables : ev.nodup[k]
ImplTolMulti    == (AtEnd /\ ev.kind = "tol") => \A k \in TolTables : ev.multi[k]
ImplTolSame     == (AtEnd /\ ev.kind = "tol") => ev.same
(* vacuity: the harness must have produced pairs whose window holds more than the strict minimum  *)
(* and pairs where a near-tie lies outside it (logged per event)                                    *)
=============================================================================

