------------------------------ MODULE Gruneisen ------------------------------
(* C12, second half: mode Grueneisen parameters from three volumes           *)
(* (phonopy/gruneisen/core.py: GruneisenBase.__init__, _set_gruneisen,       *)
(* _get_dD; phonopy/api_gruneisen.py).                                       *)
(*                                                                           *)
(* The code evaluates, for every mode (eigenvalue lam = w^2, eigenvector e   *)
(* of the dynamical matrix at V0),                                           *)
(*      gamma = - <e| D(V+) - D(V-) |e> / strain / lam / 2,                   *)
(*      strain = delta_strain if given, else (V+ - V-) / V0.                  *)
(* Requirement: gamma = -(V / 2 w^2) <e| dD/dV |e> with the finite           *)
(* difference of the three volumes supplied.  Exactly decidable instance:    *)
(* force constants scaling uniformly, Phi(V) = Phi(V0) (V/V0)^(-k), k = 2g a *)
(* positive integer, V- = V0 (1 - d1), V+ = V0 (1 + d2) with rational d1, d2: *)
(* then D(V+-) = s+- D(V0), s+ = (1+d2)^-k, s- = (1-d1)^-k (rationals),        *)
(* <e|D(V+-)|e> = s+- lam, and every mode has                                 *)
(*      gamma = -(s+ - s-) / (2 (d1 + d2)),                                    *)
(* which tends to g = k/2 as d1, d2 -> 0.  Fractions are pairs <<num, den>>. *)
EXTENDS Integers, Sequences, FiniteSets, TLC

CONSTANTS Cases,     \* set of [id, k, d1, d2, dd, ds]: d1/dd, d2/dd; ds = <<0,1>> (none) or the delta_strain handed in <<num, den>>
          Lams,      \* set of positive integers: eigenvalues the mode-independence is checked on
          Observed   \* set of [id, ...] recorded from the implementation ({} in model runs)

VARIABLES pc, cs, sp, sm, strain, gam
vars == <<pc, cs, sp, sm, strain, gam>>

AbsI(v) == IF v < 0 THEN -v ELSE v
RECURSIVE Gcd(_, _)
Gcd(a, b) == IF b = 0 THEN AbsI(a) ELSE Gcd(b, a % b)
Norm(f) == LET g == Gcd(AbsI(f[1]), AbsI(f[2]))
               s == IF f[2] < 0 THEN -1 ELSE 1
           IN  IF f[1] = 0 THEN <<0, 1>> ELSE <<s * (f[1] \div g), s * (f[2] \div g)>>
FMul(a, b) == Norm(<<a[1] * b[1], a[2] * b[2]>>)
FDiv(a, b) == Norm(<<a[1] * b[2], a[2] * b[1]>>)
FSub(a, b) == Norm(<<a[1] * b[2] - b[1] * a[2], a[2] * b[2]>>)
FAdd(a, b) == Norm(<<a[1] * b[2] + b[1] * a[2], a[2] * b[2]>>)
FNeg(a) == <<-a[1], a[2]>>
FLe(a, b) == a[1] * b[2] <= b[1] * a[2]          \* positive denominators
RECURSIVE FPow(_, _)
FPow(a, k) == IF k = 0 THEN <<1, 1>> ELSE FMul(a, FPow(a, k - 1))
FInv(a) == Norm(<<a[2], a[1]>>)

Init == pc = "start" /\ cs \in Cases /\ sp = <<1, 1>> /\ sm = <<1, 1>> /\ strain = <<0, 1>> /\ gam = <<>>

(* GruneisenBase.__init__: the strain *)
SetVolumes ==
  /\ pc = "start"
  /\ strain' = IF cs.ds[1] # 0 THEN Norm(cs.ds) ELSE Norm(<<cs.d1 + cs.d2, cs.dd>>)     \* (V+ - V-)/V0
  /\ pc' = "volumes"
  /\ UNCHANGED <<cs, sp, sm, gam>>

(* the three sets of force constants: Phi (V/V0)^-k *)
ScaleFC ==
  /\ pc = "volumes"
  /\ sp' = FInv(FPow(<<cs.dd + cs.d2, cs.dd>>, cs.k))
  /\ sm' = FInv(FPow(<<cs.dd - cs.d1, cs.dd>>, cs.k))
  /\ pc' = "scaled"
  /\ UNCHANGED <<cs, strain, gam>>

(* _set_gruneisen for a mode with eigenvalue lam: edDe = (s+ - s-) lam *)
GammaOf(lam) == FDiv(FDiv(FNeg(FMul(FSub(sp, sm), <<lam, 1>>)), strain), <<2 * lam, 1>>)
Evaluate ==
  /\ pc = "scaled"
  /\ gam' = [lam \in Lams |-> GammaOf(lam)]
  /\ pc' = "done"
  /\ UNCHANGED <<cs, sp, sm, strain>>

Next == SetVolumes \/ ScaleFC \/ Evaluate
Spec == Init /\ [][Next]_vars

-----------------------------------------------------------------------------
(* requirement *)
TrueStrain == Norm(<<cs.d1 + cs.d2, cs.dd>>)
ClosedForm == FDiv(FNeg(FSub(sp, sm)), FMul(<<2, 1>>, TrueStrain))
G == <<cs.k, 2>>

ReqModeIndependent == pc = "done" => \A l1, l2 \in Lams : gam[l1] = gam[l2]
(* the value is -(V/2w^2) <e|dD/dV|e> with dV = V+ - V-: only if the strain used is (V+ - V-)/V0 *)
ReqClosedForm == (pc = "done" /\ cs.ds[1] = 0) => \A l \in Lams : gam[l] = ClosedForm
(* a delta_strain handed in rescales the result by (true strain)/(given strain) *)
ReqDeltaStrain ==
  (pc = "done" /\ cs.ds[1] # 0) => \A l \in Lams : FMul(gam[l], Norm(cs.ds)) = FMul(ClosedForm, TrueStrain)
(* finite-difference value brackets g:  g <= gamma <= g (1 + (k+1)(k+2) d^2) for d = max(d1,d2)/dd <= 1/5 *)
ReqNearG ==
  (pc = "done" /\ cs.ds[1] = 0 /\ cs.d1 = cs.d2) =>
     \A l \in Lams :
        /\ FLe(G, gam[l])
        /\ FLe(gam[l], FMul(G, <<cs.dd * cs.dd + (cs.k + 1) * (cs.k + 2) * cs.d1 * cs.d1, cs.dd * cs.dd>>))

(* recorded from the implementation: every mode above the cutoff at every q of the mesh / band has the closed-form value *)
ImplClosedForm ==
  pc = "done" => \A o \in Observed : o.id = cs.id => (o.allModesMatch /\ o.meshSymmetryAgrees /\ o.formulaAgrees)
ObservedAll == pc = "done" => (Observed = {} \/ \E o \in Observed : o.id = cs.id)
=============================================================================
