----------------------------- MODULE CellClose ------------------------------
(* X06: isclose(a, b, with_arbitrary_order, return_order) of cells.py.        *)
(* TLC enumerates pairs (a, b): b is made from a base cell a by up to MaxOps   *)
(* edits (permutation of the atoms, lattice translation of one atom, another  *)
(* species, a displacement that is not a lattice vector, another basis, one   *)
(* atom less).  The verdicts are computed from the DEFINITION (CellUtils 4),   *)
(* never from the edit that was applied.  Invariants: the definition is an    *)
(* equivalence, invariant under permutations (any order only) and lattice     *)
(* translations.  Emit prints (a, b, verdicts) for the replay on the real     *)
(* function.                                                                  *)
EXTENDS CellUtils

CONSTANTS Bases,     \* set of cells [lat, atoms]
          DD,        \* common denominator of the positions
          MaxOps,
          Shifts,    \* lattice translations (integer vectors)
          Moves      \* displacements over DD that are not lattice vectors
VARIABLES ca, cb, nops
cvars == <<ca, cb, nops>>

Perms(n) == {p \in [1..n -> 1..n] : \A i \in 1..n, j \in 1..n : i # j => p[i] # p[j]}
Permuted(c, p) == [c EXCEPT !.atoms = [i \in DOMAIN c.atoms |-> c.atoms[p[i]]]]
WithNum(c, k, u) == [c EXCEPT !.atoms[k].num = Tup(u)]
Edits(c) ==
  LET n == Len(c.atoms) IN
       {Permuted(c, p) : p \in Perms(n)}
  \cup {WithNum(c, k, VAdd(c.atoms[k].num, VScale(DD, t))) : k \in 1..n, t \in Shifts}
  \cup {WithNum(c, k, VAdd(c.atoms[k].num, d)) : k \in 1..n, d \in Moves}
  \cup {[c EXCEPT !.atoms[k].sp = 3 - c.atoms[k].sp] : k \in 1..n}
  \cup {[c EXCEPT !.lat = 3 - c.lat]}
  \cup (IF n > 1 THEN {[c EXCEPT !.atoms = SubSeq(c.atoms, 1, n - 1)]} ELSE {})

CInit == ca \in Bases /\ cb = ca /\ nops = 0
Edit == nops < MaxOps /\ \E c \in Edits(cb) : cb' = c /\ DistinctPositions(DD, c) /\ nops' = nops + 1 /\ ca' = ca
CNext == Edit

InvEquivalence ==
  /\ CloseOrdered(DD, cb, cb) /\ CloseAnyOrder(DD, cb, cb)
  /\ CloseOrdered(DD, ca, cb) = CloseOrdered(DD, cb, ca)
  /\ CloseAnyOrder(DD, ca, cb) = CloseAnyOrder(DD, cb, ca)
  /\ CloseOrdered(DD, ca, cb) => CloseAnyOrder(DD, ca, cb)
  /\ \A c \in Bases : (CloseAnyOrder(DD, c, ca) /\ CloseAnyOrder(DD, ca, cb)) => CloseAnyOrder(DD, c, cb)
InvPermutation ==
  \A p \in Perms(Len(cb.atoms)) :
     /\ CloseAnyOrder(DD, ca, Permuted(cb, p)) = CloseAnyOrder(DD, ca, cb)
     /\ (CloseOrdered(DD, ca, cb) /\ CloseOrdered(DD, ca, Permuted(cb, p))) => \A i \in DOMAIN p : p[i] = i
InvTranslation ==
  \A k \in DOMAIN cb.atoms, t \in Shifts :
     LET c == WithNum(cb, k, VAdd(cb.atoms[k].num, VScale(DD, t)))
     IN CloseOrdered(DD, ca, c) = CloseOrdered(DD, ca, cb) /\ CloseAnyOrder(DD, ca, c) = CloseAnyOrder(DD, ca, cb)
Emit == PrintT(ToString(<<"ISC", ca, cb, CloseOrdered(DD, ca, cb), CloseAnyOrder(DD, ca, cb),
                          IF CloseAnyOrder(DD, ca, cb) THEN OrderOf(DD, ca, cb) ELSE <<>>, ConvertReq(DD, ca, cb)>>))
=============================================================================
