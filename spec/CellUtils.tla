----------------------------- MODULE CellUtils -----------------------------
(* X06: cell utilities of phonopy/structure/cells.py that C04/C05 leave out.  *)
(* Pure, exact definitions (integers / rationals as numerators over a common  *)
(* denominator).  Every predicate below is a REQUIREMENT written from the     *)
(* crystallographic definition; the step machines are in CellEstimate /       *)
(* CellClose, the binding to the real code in CellUtilsTrace.                 *)
(*                                                                            *)
(* Conventions.  A lattice basis is known through its integer Gram matrix G   *)
(* (rows/cols = basis vectors); the harness realises it as a real lattice.    *)
(* A primitive matrix M = Mn / den has the primitive basis vectors in its     *)
(* COLUMNS, in coordinates of the conventional basis (Primitive: plat =       *)
(* M^T . cell with cell in rows).                                             *)
EXTENDS Crystal

Tup(v) == <<v[1], v[2], v[3]>>
Col(M, j) == <<M[1][j], M[2][j], M[3][j]>>
Unit(i) == [j \in I3 |-> IF i = j THEN 1 ELSE 0]
Pos3(m) == \A i \in I3 : m[i] \in Nat /\ m[i] >= 1
ISqrt(x) == CHOOSE r \in 0..64 : r * r <= x /\ (r + 1) * (r + 1) > x     \* floor(sqrt x), x < 4225

(* The exact space group of Crystal.tla with the metric-preserving matrices found column by column *)
(* (a column of W has the squared length of the basis vector it is the image of); CellCat checks     *)
(* FastAut = Aut on the catalogue.                                                                   *)
ColsFor(G, j) == {v \in Box(1) : QForm(G, v) = G[j][j]}
FastMetricPreserving(G) ==
  {<<<<t[1][1], t[2][1], t[3][1]>>, <<t[1][2], t[2][2], t[3][2]>>, <<t[1][3], t[2][3], t[3][3]>>>> :
     t \in {t \in ColsFor(G, 1) \X ColsFor(G, 2) \X ColsFor(G, 3) :
              BForm(G, t[1], t[2]) = G[1][2] /\ BForm(G, t[1], t[3]) = G[1][3] /\ BForm(G, t[2], t[3]) = G[2][3]}}
FastAut(c) == UNION {{<<W, w>> : w \in {w \in CandTrans(c, W) : IsSymmetryOp(c, W, w)}} : W \in FastMetricPreserving(c.G)}

-----------------------------------------------------------------------------
(* 1. Centring letters (International Tables A, 1.2): the lattice points of    *)
(* the conventional cell besides the origin, numerators over 6.  R is the     *)
(* obverse setting on hexagonal axes.                                         *)
Letters == {"P", "F", "I", "A", "C", "R"}
CDen == 6
CentringTrans(l) ==
  CASE l = "P" -> {}
    [] l = "F" -> {<<0,3,3>>, <<3,0,3>>, <<3,3,0>>}
    [] l = "I" -> {<<3,3,3>>}
    [] l = "A" -> {<<0,3,3>>}
    [] l = "B" -> {<<3,0,3>>}          \* not a letter phonopy accepts; used for catalogue crystals in a non-standard setting
    [] l = "C" -> {<<3,3,0>>}
    [] l = "R" -> {<<4,2,2>>, <<2,4,4>>}
LatPoints(T) == {<<0,0,0>>} \cup T
(* sanity of the table itself: the lattice points form a group modulo Z^3 *)
IsGroupMod(T, D) == \A s \in LatPoints(T), t \in LatPoints(T) : Tup(ModVec(D, VAdd(s, t))) \in LatPoints(T)

(* REQUIREMENT: the columns of M = Mn/den generate exactly Z^3 + LatPoints(T)/D, *)
(* right-handed, cell volume 1/k of the conventional one (k lattice points).    *)
ColumnsInLattice(Mn, den, T, D) ==
  \A j \in I3 : \E t \in LatPoints(T) : \A i \in I3 : (Mn[i][j] * D - t[i] * den) % (den * D) = 0
GeneratorsReached(Mn, den, T, D) ==
  LET d == Det(Mn)
      A == Adj(Mn)
  IN  /\ d # 0
      /\ \A i \in I3, r \in I3 : (den * A[r][i]) % d = 0                               \* M^-1 e_i integer
      /\ \A t \in T : \A r \in I3 : (den * Dot(A[r], t)) % (D * d) = 0                 \* M^-1 (t/D) integer
VolumeRight(Mn, den, T) == Det(Mn) > 0 /\ Det(Mn) * Cardinality(LatPoints(T)) = den * den * den
PrimitiveMatrixReq(Mn, den, T, D) ==
  /\ ColumnsInLattice(Mn, den, T, D)
  /\ GeneratorsReached(Mn, den, T, D)
  /\ VolumeRight(Mn, den, T)

(* get_primitive_matrix(pmat): what the argument means.  A matrix is a primitive matrix only if it   *)
(* keeps the handedness and does not enlarge the cell: 0 < det <= 1.                                  *)
PMatKinds == {"letter", "auto", "none", "matrix", "flat9", "flat8", "word", "words9"}
DetClasses == {"negative", "zero", "fraction", "one", "two"}
PMatReq(kind, dc) == CASE kind = "letter" -> "matrix" [] kind = "auto" -> "auto" [] kind = "none" -> "none"
                       [] kind \in {"matrix", "flat9"} -> IF dc \in {"fraction", "one"} THEN "matrix" ELSE "error"
                       [] OTHER -> "error"
PMatTable == {<<k, d, PMatReq(k, d)>> : k \in PMatKinds, d \in DetClasses}
(* shape_supercell_matrix(smat): None is the identity, three numbers a diagonal, nine numbers a matrix *)
ShapeKinds == {"none", "three", "nine", "matrix", "two", "four"}
ShapeReq(kind, v) == CASE kind = "none" -> Id3
                       [] kind = "three" -> Diag(v[1], v[2], v[3])
                       [] kind \in {"nine", "matrix"} -> <<<<v[1], v[2], v[3]>>, <<v[4], v[5], v[6]>>, <<v[7], v[8], v[9]>>>>
                       [] OTHER -> "error"
ShapeTable == {<<k, v, ShapeReq(k, v)>> : k \in ShapeKinds, v \in {<<2, 3, 4, -1, 0, 1, 5, 0, 2>>, <<1, 1, 2, 0, 3, 0, 0, -2, 1>>}}

-----------------------------------------------------------------------------
(* 2. Diagonal supercell estimate ("closest to a sphere under keeping the     *)
(* lattice symmetry", at most maxn atoms).  knobs is the partition of the     *)
(* axes {1,2,3} into sets that symmetry forces to share a multiplicity.       *)
(* Definition of the documented rule: the supercell is grown by always        *)
(* extending (one of) its currently shortest edge(s) until that would exceed  *)
(* maxn (or maxit extensions were made).  Stated without the loop:            *)
(*   Balanced - no edge was extended while longer than another one,           *)
(*   Terminal - extending a currently shortest edge exceeds maxn.             *)
System(spg) == IF spg <= 2 THEN "triclinic" ELSE IF spg <= 15 THEN "monoclinic" ELSE IF spg <= 74 THEN "orthorhombic"
               ELSE IF spg <= 142 THEN "tetragonal" ELSE IF spg <= 167 THEN "trigonal" ELSE IF spg <= 194 THEN "hexagonal"
               ELSE "cubic"
SystemOfPointGroup(pg) == IF pg <= 2 THEN "triclinic" ELSE IF pg <= 5 THEN "monoclinic" ELSE IF pg <= 8 THEN "orthorhombic"
               ELSE IF pg <= 15 THEN "tetragonal" ELSE IF pg <= 20 THEN "trigonal" ELSE IF pg <= 27 THEN "hexagonal"
               ELSE "cubic"
KnobsOfSystem(s) == IF s \in {"triclinic", "monoclinic", "orthorhombic"} THEN {{1}, {2}, {3}}
                    ELSE IF s = "cubic" THEN {{1, 2, 3}} ELSE {{1, 2}, {3}}
(* knobs from an exact point group (integer matrices in the basis of the cell): axes i, j share a knob *)
(* iff some operation maps the direction of a_i onto that of a_j                                     *)
AxisLinked(PG, i, j) == \E W \in PG : \A r \in I3 : (r # j) => W[r][i] = 0
KnobsOfGroup(PG) == {{j \in I3 : AxisLinked(PG, i, j)} : i \in I3}
(* diag(m) Z^3 is invariant under the point group *)
KeepsSymmetry(PG, m) == \A W \in PG : \A i \in I3, j \in I3 : (W[i][j] * m[j]) % m[i] = 0

Mu(m, K) == m[CHOOSE i \in K : TRUE]
Lam(l2, K) == l2[CHOOSE i \in K : \A j \in K : i <= j]
Edge2(m, l2, K) == Mu(m, K) * Mu(m, K) * Lam(l2, K)
Inc(m, K) == <<IF 1 \in K THEN m[1] + 1 ELSE m[1], IF 2 \in K THEN m[2] + 1 ELSE m[2], IF 3 \in K THEN m[3] + 1 ELSE m[3]>>
Count(n, m) == n * m[1] * m[2] * m[3]
StepsTaken(m, knobs) == LET RECURSIVE F(_)
                            F(S) == IF S = {} THEN 0 ELSE LET K == CHOOSE K \in S : TRUE IN (Mu(m, K) - 1) + F(S \ {K})
                        IN F(knobs)
SymOK(m, knobs) == \A K \in knobs : \A i \in K, j \in K : m[i] = m[j]
Balanced(m, l2, knobs) ==
  \A K1 \in knobs, K2 \in knobs :
     Mu(m, K1) > 1 => (Mu(m, K1) - 1) * (Mu(m, K1) - 1) * Lam(l2, K1) <= Edge2(m, l2, K2)
Shortest(m, l2, knobs) == {K \in knobs : \A K2 \in knobs : Edge2(m, l2, K) <= Edge2(m, l2, K2)}
Terminal(n, m, l2, knobs, maxn) == \E K \in Shortest(m, l2, knobs) : Count(n, Inc(m, K)) > maxn
EstimateReq(n, l2, knobs, maxn, maxit, m) ==
  /\ Pos3(m)
  /\ SymOK(m, knobs)
  /\ Count(n, m) <= maxn \/ Tup(m) = <<1,1,1>>
  /\ Balanced(m, l2, knobs)
  /\ StepsTaken(m, knobs) <= maxit
  /\ StepsTaken(m, knobs) = maxit \/ Terminal(n, m, l2, knobs, maxn)
EstimateFailed(n, l2, knobs, maxn, maxit, m) ==
  IF ~ Pos3(m) THEN {"positive"} ELSE
  {x \in {"symmetry", "count", "balanced", "iterations", "terminal"} :
     ~ CASE x = "symmetry" -> SymOK(m, knobs)
         [] x = "count" -> (Count(n, m) <= maxn \/ Tup(m) = <<1,1,1>>)
         [] x = "balanced" -> Balanced(m, l2, knobs)
         [] x = "iterations" -> StepsTaken(m, knobs) <= maxit
         [] x = "terminal" -> (StepsTaken(m, knobs) >= maxit \/ Terminal(n, m, l2, knobs, maxn))}

-----------------------------------------------------------------------------
(* 3. Reduced bases.  Input basis with Gram G, output = T . input (rows), so   *)
(* the output Gram is T G T^T.  Same lattice iff T is unimodular.              *)
GramOf(T, G) == LET R == MatMul(T, MatMul(G, Transpose(T))) IN <<Tup(R[1]), Tup(R[2]), Tup(R[3])>>
SameLattice(T) == Unimodular(T)

(* Niggli reduced form (Krivy & Gruber 1976; Int. Tables A 9.2): A = a.a, B = b.b, C = c.c,   *)
(* xi = 2 b.c, eta = 2 a.c, zeta = 2 a.b                                                     *)
NiggliFailed(G) ==
  LET A == G[1][1]
      B == G[2][2]
      C == G[3][3]
      xi == 2 * G[2][3]
      eta == 2 * G[1][3]
      zeta == 2 * G[1][2]
      typeI == xi > 0 /\ eta > 0 /\ zeta > 0
      typeII == xi <= 0 /\ eta <= 0 /\ zeta <= 0
  IN {x \in {"order", "bounds", "type", "A=B", "B=C", "typeI-special", "typeII-special", "typeII-sum"} :
       ~ CASE x = "order" -> (A <= B /\ B <= C)
           [] x = "bounds" -> (Abs(xi) <= B /\ Abs(eta) <= A /\ Abs(zeta) <= A)
           [] x = "type" -> (typeI \/ typeII)
           [] x = "A=B" -> (A = B => Abs(xi) <= Abs(eta))
           [] x = "B=C" -> (B = C => Abs(eta) <= Abs(zeta))
           [] x = "typeI-special" -> (typeI => /\ (xi = B => zeta <= 2 * eta)
                                                /\ (eta = A => zeta <= 2 * xi)
                                                /\ (zeta = A => eta <= 2 * xi))
           [] x = "typeII-special" -> (typeII => /\ (Abs(xi) = B => zeta = 0)
                                                  /\ (Abs(eta) = A => zeta = 0)
                                                  /\ (Abs(zeta) = A => eta = 0))
           [] x = "typeII-sum" -> (typeII => /\ xi + eta + zeta + A + B >= 0
                                              /\ (xi + eta + zeta + A + B = 0 => 2 * (A + eta) + zeta <= 0))}

(* "Shortest basis vectors" (Delaunay route of spglib: the three shortest independent vectors among the  *)
(* Voronoi vectors of the Selling-reduced superbase): the basis vectors attain the successive minima of  *)
(* the lattice.  Decided by complete enumeration: a lattice vector x = sum x_i b_i shorter than the      *)
(* longest basis vector has x_i^2 <= Gmax adj(G)_ii / det G  (Cauchy-Schwarz with the dual basis).        *)
AxisOrder(G) == CHOOSE p \in {<<1,2,3>>, <<1,3,2>>, <<2,1,3>>, <<2,3,1>>, <<3,1,2>>, <<3,2,1>>} :
                  G[p[1]][p[1]] <= G[p[2]][p[2]] /\ G[p[2]][p[2]] <= G[p[3]][p[3]]
Window(G) == LET gmax == MaxOf({G[i][i] : i \in I3})
                 d == Det(G)
                 A == Adj(G)
             IN [i \in I3 |-> ISqrt((gmax * A[i][i]) \div d)]
WindowTooLarge(G) == \E i \in I3 : (MaxOf({G[k][k] : k \in I3}) * Adj(G)[i][i]) \div Det(G) >= 4225 \/ Window(G)[i] > 6
Shorter(G) == LET w == Window(G)
                  gmax == MaxOf({G[i][i] : i \in I3})
              IN {x \in {<<a, b, c>> : a \in -w[1]..w[1], b \in -w[2]..w[2], c \in -w[3]..w[3]} :
                    x # <<0,0,0>> /\ QForm(G, x) < gmax}
MinimaFailed(G) ==
  IF Det(G) <= 0 THEN {"degenerate"} ELSE IF WindowTooLarge(G) THEN {"skewed"} ELSE
  LET p == AxisOrder(G)
      S == Shorter(G)
  IN {x \in {"first", "second", "third"} :
       ~ CASE x = "first" -> \A v \in S : QForm(G, v) >= G[p[1]][p[1]]
           [] x = "second" -> \A v \in S : (v[p[2]] # 0 \/ v[p[3]] # 0) => QForm(G, v) >= G[p[2]][p[2]]
           [] x = "third" -> \A v \in S : v[p[3]] # 0 => QForm(G, v) >= G[p[3]][p[3]]}

-----------------------------------------------------------------------------
(* 4. Equivalence of cells (isclose).  A cell is [lat, atoms]: lat an id of   *)
(* the basis, atoms a sequence of [sp, num] with positions num / D.           *)
PosKey(D, u) == <<u[1] % D, u[2] % D, u[3] % D>>
DistinctPositions(D, c) == \A i \in DOMAIN c.atoms, j \in DOMAIN c.atoms : i # j => PosKey(D, c.atoms[i].num) # PosKey(D, c.atoms[j].num)
(* same atoms in the same order up to a lattice translation of each atom *)
CloseOrdered(D, a, b) ==
  /\ a.lat = b.lat /\ Len(a.atoms) = Len(b.atoms)
  /\ \A i \in DOMAIN a.atoms : a.atoms[i].sp = b.atoms[i].sp /\ PosKey(D, a.atoms[i].num) = PosKey(D, b.atoms[i].num)
(* same atoms in any order *)
AtomSet(D, c) == {<<c.atoms[i].sp, PosKey(D, c.atoms[i].num)>> : i \in DOMAIN c.atoms}
CloseAnyOrder(D, a, b) == a.lat = b.lat /\ Len(a.atoms) = Len(b.atoms) /\ AtomSet(D, a) = AtomSet(D, b)
(* for each atom of b its index in a (1-based) *)
OrderOf(D, a, b) == [i \in DOMAIN b.atoms |-> CHOOSE j \in DOMAIN a.atoms : PosKey(D, a.atoms[j].num) = PosKey(D, b.atoms[i].num)]

(* convert_to_phonopy_primitive(supercell built from a, b): b is turned into a Primitive iff it is the  *)
(* primitive cell of that supercell; a cell that is not the same crystal must be refused, a permuted    *)
(* one may be.  An accepted result is b itself (same order) with maps into the supercell.               *)
ConvertReq(D, a, b) == IF CloseOrdered(D, a, b) THEN {"ok"} ELSE IF CloseAnyOrder(D, a, b) THEN {"ok", "refused"} ELSE {"refused"}

(* Tolerance (documented: "atol: tolerance in Cartesian distance"): one atom of b is displaced by a    *)
(* distance of class  zero: 0,  below: < atol,  between: atol < d < sqrt(atol) (d < 1),  above: > sqrt(atol). *)
(* The verdict depends on the distance only, not on the mode.                                             *)
TolClasses == {"zero", "below", "between", "above"}
TolReq(cls) == cls \in {"zero", "below"}

-----------------------------------------------------------------------------
(* 5. Primitive cells.  A list of symmetry operations belongs to a primitive   *)
(* cell iff the only pure translation in it is the identity.                  *)
CountIdentity(rots) == Cardinality({k \in DOMAIN rots : Tup(rots[k][1]) = <<1,0,0>> /\ Tup(rots[k][2]) = <<0,1,0>> /\ Tup(rots[k][3]) = <<0,0,1>>})
IsPrimitiveList(rots) == CountIdentity(rots) = 1

(* 7. yaml text of a cell (PhonopyAtoms.__str__ -> yaml -> parse_cell_dict).  Every number is printed   *)
(* with a fixed number of decimals, at least YamlDecimals of them; reading the text back gives the     *)
(* number within half a unit of the last printed decimal (plus one unit in the last place of a double). *)
(* err and ulp are in units of 10^-(printed + 3), rounded up.                                           *)
YamlDecimals == [lattice |-> 15, coordinates |-> 15, mass |-> 6, magnetic_moment |-> 8]
YamlFailed(field, shown, err, ulp, same) ==
  (IF shown >= YamlDecimals[field] THEN {} ELSE {"precision:" \o field})
  \cup (IF err <= 500 + ulp THEN {} ELSE {"round-trip:" \o field})
  \cup (IF same THEN {} ELSE {"symbols"})

(* 6. Cell parameters: squared lengths and scalar products are the Gram entries *)
ParamsReq(G, l2, c23, c13, c12) == Tup(l2) = <<G[1][1], G[2][2], G[3][3]>> /\ c23 = G[2][3] /\ c13 = G[1][3] /\ c12 = G[1][2]
=============================================================================
