--------------------------- MODULE BandConnection ---------------------------
(* C14, band connection: estimate_band_connection(prev_eigvecs, eigvecs,    *)
(* prev_band_order) of phonopy/phonon/band_structure.py as a step machine,  *)
(* and the requirement that its result is a PERMUTATION of the bands, so    *)
(* that with is_band_connection the per-q set of frequencies is only        *)
(* re-ordered.                                                               *)
(*                                                                          *)
(* The overlap matrix is  metric[i][j] = | <prev_i | e_j> |.  The machine   *)
(* works on the exactly representable family  U = M / sqrt(K)  with M a     *)
(* matrix of Gaussian integers (entries a + b i, a in ReRange, b in ImRange) *)
(* whose rows are mutually orthogonal (Hermitian product) and have the      *)
(* common squared norm K: these are exactly the unitary matrices of that    *)
(* form (M M^H = K I  <=>  M^H M = K I).  Comparisons of |.| are            *)
(* comparisons of the squared moduli a^2 + b^2, integers.  Mode "free"      *)
(* drops the orthogonality (any non-negative overlap table): there the      *)
(* greedy matching DOES fail, which shows that unitarity is what the        *)
(* property rests on (suspected defect D17).                                *)
EXTENDS Integers, Sequences, FiniteSets, TLC

CONSTANTS Dim, ReRange, ImRange, Mode, PrevOrders,
          InitMaxvals   \* initial value of `maxval` per row: 0 on the pinned tree, -1 repaired

VARIABLES pc, M, row, conn, maxindex, stale, prev, result, err, mv0
vars == <<pc, M, row, conn, maxindex, stale, prev, result, err, mv0>>

Idx == 1..Dim
Entries == ReRange \X ImRange
Rows == [Idx -> Entries]
Mod2(z) == z[1] * z[1] + z[2] * z[2]
RECURSIVE SumTo(_, _)
SumTo(f, n) == IF n = 0 THEN 0 ELSE f[n] + SumTo(f, n - 1)
Norm2(r) == SumTo([k \in Idx |-> Mod2(r[k])], Dim)
(* Hermitian product  sum_k r_k conj(s_k)  = <<re, im>> *)
HermRe(r, s) == SumTo([k \in Idx |-> r[k][1] * s[k][1] + r[k][2] * s[k][2]], Dim)
HermIm(r, s) == SumTo([k \in Idx |-> r[k][2] * s[k][1] - r[k][1] * s[k][2]], Dim)
Orthogonal(r, s) == HermRe(r, s) = 0 /\ HermIm(r, s) = 0

Unbound == 0     \* Python local `maxindex` before its first assignment (bands are 1..Dim here)

Init == /\ pc = "build" /\ M = <<>> /\ row = 1 /\ conn = <<>> /\ maxindex = Unbound
        /\ stale = FALSE /\ prev = <<>> /\ result = <<>> /\ err = "none" /\ mv0 \in InitMaxvals

(* choose the overlap matrix row by row *)
AddRow ==
  /\ pc = "build" /\ Len(M) < Dim
  /\ \E r \in Rows :
       /\ Norm2(r) > 0
       /\ (Mode = "unitary") => ((\A k \in 1..Len(M) : Orthogonal(M[k], r))
                                 /\ (Len(M) > 0 => Norm2(r) = Norm2(M[1])))
       /\ M' = Append(M, r)
  /\ pc' = IF Len(M) + 1 = Dim THEN "greedy" ELSE "build"
  /\ UNCHANGED <<row, conn, maxindex, stale, prev, result, err, mv0>>

(* the inner loop  for i in reversed(range(n)): ...  for one row of metric:  *)
(* returns <<maxval, maxindex>> starting from <<mv0, maxindex carried over>>   *)
RECURSIVE Scan(_, _, _, _)
Scan(ov, taken, j, acc) ==
  IF j = 0 THEN acc
  ELSE IF j \in taken THEN Scan(ov, taken, j - 1, acc)
  ELSE IF Mod2(ov[j]) > acc[1] THEN Scan(ov, taken, j - 1, <<Mod2(ov[j]), j>>)
  ELSE Scan(ov, taken, j - 1, acc)

GreedyRow ==
  /\ pc = "greedy"
  /\ LET taken == {conn[k] : k \in 1..Len(conn)}
         r == Scan(M[row], taken, Dim, <<mv0, maxindex>>)
     IN IF r[2] = Unbound
          THEN /\ err' = "UnboundLocalError" /\ pc' = "done"
               /\ UNCHANGED <<row, conn, maxindex, stale, prev, result>>
          ELSE /\ conn' = Append(conn, r[2])          \* connection_order.append(maxindex)
               /\ maxindex' = r[2]
               /\ stale' = (stale \/ r[1] = mv0)        \* no unassigned band overlaps: the OLD maxindex is appended
               /\ row' = row + 1
               /\ pc' = IF row = Dim THEN "compose" ELSE "greedy"
               /\ UNCHANGED <<prev, result, err>>
  /\ UNCHANGED <<M, mv0>>

(* band_order = [connection_order[x] for x in prev_band_order] *)
Compose ==
  /\ pc = "compose"
  /\ \E p \in PrevOrders : prev' = p /\ result' = [k \in Idx |-> conn[p[k]]]
  /\ pc' = "done"
  /\ UNCHANGED <<M, row, conn, maxindex, stale, err, mv0>>

Next == AddRow \/ GreedyRow \/ Compose
Spec == Init /\ [][Next]_vars

-----------------------------------------------------------------------------
IsPermutation(s) == Len(s) = Dim /\ {s[k] : k \in 1..Len(s)} = Idx

(* the requirement *)
ConnectionIsPermutation == (pc = "done" /\ err = "none") => IsPermutation(result)
PermPinned == mv0 = 0 => ConnectionIsPermutation
PermRepaired == mv0 = -1 => ConnectionIsPermutation
UndefinedVariableFree == err = "none"
NoStaleIndex == ~stale
(* each band is connected to the unassigned band it overlaps most with *)
GreedyChoice ==
  pc \in {"compose", "done"} /\ err = "none" =>
    \A i \in 1..Len(conn) :
       \A j \in Idx \ {conn[k] : k \in 1..(i - 1)} : Mod2(M[i][j]) <= Mod2(M[i][conn[i]])

(* replay table: printed at every final state *)
Emit == pc = "done" => PrintT(ToString(<<"BC", mv0, M, prev, result, err>>))
=============================================================================
