----------------------------- MODULE Symmetrize -----------------------------
(* C07 - force-constant symmetrisers are projections; compact and full      *)
(* layouts agree.                                                           *)
(*                                                                          *)
(* The symmetrisation routines of phonopy (harmonic/force_constants.py,     *)
(* c/phonopy.c) as a step machine over EXACT rational arrays, and the       *)
(* requirement of C07 stated from the definitions (translational            *)
(* invariance, index-permutation symmetry, periodicity under the lattice    *)
(* translations of the supercell, invariance under space-group operations). *)
(*                                                                          *)
(* Abstract state.                                                          *)
(*  - A system is what the routines see of a crystal: ns supercell atoms,   *)
(*    np primitive atoms, the pure lattice translations as permutations of  *)
(*    the supercell atoms (perms[t][i] = image of atom i), p2s, s2p, and -  *)
(*    for the space-group average - the Gram matrix G of the supercell       *)
(*    lattice and the operations [W, perm], W the integer rotation in        *)
(*    lattice coordinates (arrays of these routes are in covariant lattice   *)
(*    components, see SymOps.tla).  Atom and component indices are           *)
(*    0-based as in the code; TLA+ sequences are 1-based, hence the "+ 1".  *)
(*  - A force-constant array is [den, a, ok]: value a[m] / den at the flat  *)
(*    C position m = ((i*ns + j)*d + k)*d + l (+1), i the row atom (all     *)
(*    supercell atoms: full layout; primitive atoms: compact layout), d the *)
(*    tensor dimension (3 in the code; 1 and 2 in the exhaustive model       *)
(*    runs).  Arrays are kept normalised (gcd 1) so equality of records is  *)
(*    equality of rational arrays.  ok = FALSE would record an inexact      *)
(*    integer division inside a sequential averaging loop (never happens;   *)
(*    invariant ArithExact).                                                 *)
(*                                                                          *)
(* One action per step of the code:                                         *)
(*  full   phpy_perm_trans_symmetrize_fc: (ColDrift RowDrift PermAvg)^level *)
(*         FinalASR                                                         *)
(*  py     the Python fall-back of symmetrize_force_constants:              *)
(*         (ColDrift RowDrift PermAvg)^level ColDrift RowDrift              *)
(*  compact phpy_perm_trans_symmetrize_compact_fc:                          *)
(*         (TransposeC RowDriftC TransposeC RowDriftC PermAvgC)^level       *)
(*         FinalASRC, TransposeC/PermAvgC being                             *)
(*         phpy_set_index_permutation_symmetry_compact_fc with its `done'   *)
(*         flags and its diagonal special case, transcribed as the          *)
(*         sequential in-place loop it is                                    *)
(*  transpose  phonoc.transpose_compact_fc                                  *)
(*  drift  show_drift_force_constants on a compact array (transpose twice)  *)
(*  expand compact_fc_to_full_fc  (distribute_fc2 with identity rotations)  *)
(*  tocompact full_fc_to_compact_fc                                         *)
(*  sg     set_tensor_symmetry_PJ                                           *)
(*                                                                          *)
(* The array operators (one per step) and the definitions live in SymOps.tla; *)
(* this module is the step machine of ONE routine call and its verdict.       *)
(*                                                                          *)
(* Variant names the transcription of the self-paired blocks of the compact *)
(* loop: "pinned" = the code as pinned (special case only for i = j),       *)
(* "repaired" = special case for every block that is its own partner.       *)
(* Which one the code under test follows is decided by conformance          *)
(* (SymmetrizeTrace.tla), not assumed.                                      *)
EXTENDS SymOps

CONSTANTS
  Cases      \* set of [sys, route, level, x (array), ...]

VARIABLES cs, S, x0, fc, prog, pc, verdict

vars == <<cs, S, x0, fc, prog, pc, verdict>>

-----------------------------------------------------------------------------
(* the step machine *)

(* scale to an integer array (den 1): a multiple of a symmetric array is symmetric *)
Ints(r) == [den |-> 1, a |-> r.a, ok |-> TRUE]

PrepDef(T, prep, x) ==
  CASE prep = "proj" -> Ints(ProjDef(T, x))
    [] prep = "projc" -> Ints(CompactOf(T, ProjDef(T, FullOf(T, x))))
    [] prep = "fullof" -> Ints(FullOf(T, x))
    [] prep = "sgproj" -> Ints(SGAverage(T, x))

(* the input of a case: given literally, or (model runs) derived from a literal *)
(* by a definition named in c.prep; done in an action of its own so that TLC   *)
(* spreads the work over its workers                                           *)
Prepared(T, c) ==
  IF "prep" \notin DOMAIN c \/ c.prep = "raw" THEN Norm(c.x)
  ELSE PrepDef(T, c.prep, Norm(c.x))

InitCase(c) ==
  /\ cs = c
  /\ S = SysTable[c.sys]
  /\ x0 = [den |-> 1, a |-> <<>>, ok |-> TRUE]
  /\ fc = [den |-> 1, a |-> <<>>, ok |-> TRUE]
  /\ prog = Program(c.route, c.level)
  /\ pc = "prep"
  /\ verdict = {}

Init == \E c \in Cases : InitCase(c)

APrepare ==
  /\ pc = "prep"
  /\ x0' = Prepared(S, cs)
  /\ fc' = x0'
  /\ pc' = "run"
  /\ UNCHANGED <<cs, S, prog, verdict>>

Do(name) ==
  /\ pc = "run" /\ prog # <<>> /\ Head(prog) = name
  /\ fc' = Step(S, name, fc)
  /\ prog' = Tail(prog)
  /\ pc' = IF Tail(prog) = <<>> THEN "done" ELSE "run"
  /\ UNCHANGED <<cs, S, x0, verdict>>

AColDrift == pc = "run" /\ Do("ColDrift")
ARowDrift == pc = "run" /\ Do("RowDrift")
APermAvg == pc = "run" /\ Do("PermAvg")
AFinalASR == pc = "run" /\ Do("FinalASR")
ATransposeC == pc = "run" /\ Do("TransposeC")
ARowDriftC == pc = "run" /\ Do("RowDriftC")
APermAvgC == pc = "run" /\ Do("PermAvgC")
AFinalASRC == pc = "run" /\ Do("FinalASRC")
AExpand == pc = "run" /\ Do("Expand")
AToCompact == pc = "run" /\ Do("ToCompact")
ASGAverage == pc = "run" /\ Do("SGAverage")

Steps == \/ APrepare
         \/ AColDrift \/ ARowDrift \/ APermAvg \/ AFinalASR
         \/ ATransposeC \/ ARowDriftC \/ APermAvgC \/ AFinalASRC
         \/ AExpand \/ AToCompact \/ ASGAverage

-----------------------------------------------------------------------------
(* THE REQUIREMENT as predicates of (system, case, input, output).  They are   *)
(* evaluated on the machine's output (Inv... invariants) and, in             *)
(* SymmetrizeTrace, on the outputs logged from the implementation (Impl...). *)

IsFullRoute(route) == route \in {"full", "py"}

(* full and py symmetrisers on an arbitrary full array *)
ReqImposesFull(T, c, xin, out) == IsFullRoute(c.route) => Symmetric(T, out)
ReqFixesFull(T, c, xin, out) == (IsFullRoute(c.route) /\ Symmetric(T, xin)) => SameArr(out, xin)
ReqKeepsPeriodic(T, c, xin, out) == (IsFullRoute(c.route) /\ Periodic(T, xin)) => Periodic(T, out)

(* compact symmetriser on a compact array *)
ReqImposesCompact(T, c, xin, out) == c.route = "compact" => Symmetric(T, FullOf(T, out))
ReqFixesCompact(T, c, xin, out) ==
  (c.route = "compact" /\ Symmetric(T, FullOf(T, xin))) => SameArr(out, xin)

(* space-group average *)
ReqImposesSG(T, c, xin, out) == c.route = "sg" => SGInv(T, out)
ReqFixesSG(T, c, xin, out) == (c.route = "sg" /\ SGInv(T, xin)) => SameArr(out, xin)
ReqSGKeeps(T, c, xin, out) == (c.route = "sg" /\ Symmetric(T, xin)) => Symmetric(T, out)

(* converters, transposition *)
ReqExpand(T, c, xin, out) == c.route = "expand" => (SameArr(out, FullOf(T, xin)) /\ Periodic(T, out))
ReqToCompact(T, c, xin, out) == c.route = "tocompact" => SameArr(out, CompactOf(T, xin))
ReqTranspose(T, c, xin, out) ==
  c.route = "transpose" => SameArr(FullOf(T, out), FullTranspose(T, FullOf(T, xin)))
ReqDriftUnchanged(T, c, xin, out) == c.route = "drift" => SameArr(out, xin)

(* a case announced as symmetric / periodic input really is (guards the Fixes and *)
(* CompactEqFull hypotheses against vacuity)                                      *)
Announced(T, c, xin) ==
  /\ ("sym" \in DOMAIN c /\ c.sym) =>
        CASE c.route = "compact" -> Symmetric(T, FullOf(T, xin))
          [] c.route = "sg" -> SGInv(T, xin)
          [] OTHER -> Symmetric(T, xin)
  /\ ("periodic" \in DOMAIN c /\ c.periodic) => Periodic(T, xin)
  (* spring-model force constants obey every invariance *)
  /\ ("spring" \in DOMAIN c /\ c.spring) => (SGInv(T, xin) /\ Symmetric(T, xin) /\ Periodic(T, xin))

V(name, holds) == IF holds THEN {} ELSE {name}

(* requirement evaluated on the step machine's own result *)
ModelVerdict ==
  LET c == cs
      r == c.route
  IN       V("ValidSystem", ValidSystem(Systems[c.sys]))
     \cup V("ArithExact", fc.ok)
     \cup V("Announced", Announced(S, c, x0))
     \cup (IF IsFullRoute(r) THEN
                   V("ImposesFull", ReqImposesFull(S, c, x0, fc))
             \cup V("FixesFull", ReqFixesFull(S, c, x0, fc))
             \cup V("KeepsPeriodic", ReqKeepsPeriodic(S, c, x0, fc))
             \cup V("Idempotent", SameArr(Run(S, r, c.level, fc), fc))
             \cup V("PyEqC", r = "py" => SameArr(fc, Run(S, "full", c.level, x0)))
           ELSE {})
     \cup (IF r = "compact" THEN
             LET fx == FullOf(S, x0)       \* the full arrays the compact input and output stand for
                 fo == FullOf(S, fc)
             IN    V("ImposesCompact", Symmetric(S, fo))
             \cup V("FixesCompact", Symmetric(S, fx) => SameArr(fc, x0))
             \cup V("Idempotent", SameArr(Run(S, r, c.level, fc), fc))
             \cup V("CompactEqFull", SameArr(fo, Run(S, "full", c.level, fx)))
           ELSE {})
     \cup (IF r = "sg" THEN
                   V("ValidOps", ValidOps(S))
             \cup V("ImposesSG", ReqImposesSG(S, c, x0, fc))
             \cup V("FixesSG", ReqFixesSG(S, c, x0, fc))
             \cup V("SGKeeps", ReqSGKeeps(S, c, x0, fc))
             \cup V("SGKeepsPermSym", PermSym(S, x0) => PermSym(S, fc))
             \cup V("Idempotent", SameArr(Run(S, r, c.level, fc), fc))
           ELSE {})
     \cup V("TransposeIsTranspose", ReqTranspose(S, c, x0, fc))
     \cup V("TransposeInvolution", r = "transpose" => SameArr(TransposeC(S, fc), x0))
     \cup V("DriftUnchanged", ReqDriftUnchanged(S, c, x0, fc))
     \cup V("DriftDisplayed", r = "drift" => DriftShown(S, x0) = DriftDef(S, x0))
     \cup V("ExpandIsDefinition", ReqExpand(S, c, x0, fc))
     \cup V("CompactFullCompact", r = "expand" => SameArr(ToCompact(S, fc), x0))
     \cup V("ToCompactIsDefinition", ReqToCompact(S, c, x0, fc))
     \cup V("FullCompactFull", (r = "tocompact" /\ Periodic(S, x0)) => SameArr(Expand(S, fc), x0))

(* informational: the full routine IS the orthogonal projector of the definition *)
InfoVerdict == V("IsOrthogonalProjector", IsFullRoute(cs.route) => SameArr(fc, ProjDef(S, x0)))

AJudge ==
  /\ pc = "done"
  /\ verdict' = ModelVerdict \cup InfoVerdict
  /\ pc' = "judged"
  /\ UNCHANGED <<cs, S, x0, fc, prog>>

Next == Steps \/ AJudge

Spec == Init /\ [][Next]_vars

-----------------------------------------------------------------------------
(* invariants: one per requirement, read off the verdict *)

TypeOK == pc \in {"prep", "run", "done", "judged"} /\ fc.den > 0

InvValidSystem == "ValidSystem" \notin verdict
InvValidOps == "ValidOps" \notin verdict
InvArithExact == "ArithExact" \notin verdict
InvAnnounced == "Announced" \notin verdict
InvImposesFull == "ImposesFull" \notin verdict
InvFixesFull == "FixesFull" \notin verdict
InvKeepsPeriodic == "KeepsPeriodic" \notin verdict
InvImposesCompact == "ImposesCompact" \notin verdict
InvFixesCompact == "FixesCompact" \notin verdict
InvImposesSG == "ImposesSG" \notin verdict
InvFixesSG == "FixesSG" \notin verdict
InvSGKeeps == "SGKeeps" \notin verdict
InvSGKeepsPermSym == "SGKeepsPermSym" \notin verdict
InvIdempotent == "Idempotent" \notin verdict
InvCompactEqFull == "CompactEqFull" \notin verdict
InvPyEqC == "PyEqC" \notin verdict
InvTransposeIsTranspose == "TransposeIsTranspose" \notin verdict
InvTransposeInvolution == "TransposeInvolution" \notin verdict
InvDriftUnchanged == "DriftUnchanged" \notin verdict
InvDriftDisplayed == "DriftDisplayed" \notin verdict
InvExpandIsDefinition == "ExpandIsDefinition" \notin verdict
InvCompactFullCompact == "CompactFullCompact" \notin verdict
InvToCompactIsDefinition == "ToCompactIsDefinition" \notin verdict
InvFullCompactFull == "FullCompactFull" \notin verdict
InfoIsOrthogonalProjector == "IsOrthogonalProjector" \notin verdict
=============================================================================
