------------------------------ MODULE QhaModel ------------------------------
(* Exhaustive model runs of Qha.tla on inputs enumerated by TLC itself.        *)
(*                                                                            *)
(* ModelInputs: every temperature grid with 1..MaxN points and steps from     *)
(* Steps (all step patterns, so every mixture of locally uniform and non-     *)
(* uniform stencils), every t_max on a 5 K raster from below the first to     *)
(* beyond the last temperature (on-grid, between, exact ties) or none, both   *)
(* electronic shapes, pressure none / zero / positive / negative, quadratic   *)
(* V0(T), cubic E0(T); all fits converge.                                     *)
(* FailInputs: uniform grids with 2..4 points, EVERY assignment of fit        *)
(* outcomes (ok / not converged / RuntimeError / TypeError) to the            *)
(* temperatures, and every outcome of the BulkModulus fit.                    *)
(* DegenerateInputs: EVERY temperature sequence of length 1..3 over           *)
(* {0, 10, 20} (descending, repeated, ...), 1/3/4/5/7 distinct volumes,       *)
(* integer or float number types, electronic (T,V) tables with fewer, as many *)
(* or more rows than temperatures.                                            *)
(* Decides on the specification: index safety of every loop and stencil, the  *)
(* length rule, refusal of invalid input, completion of valid input, failed   *)
(* fits never silently replaced, per-temperature electronic rows, +PV,        *)
(* recovery, exactness of the finite differences, units.                      *)
EXTENDS Qha

CONSTANTS MaxN, Steps, ShapeSel, PressureSel, FailN, DegLen, NvdSel

RECURSIVE Grids(_)
Grids(n) == IF n = 1 THEN {<<0>>, <<10>>}
            ELSE {Append(g, g[Len(g)] + s) : g \in Grids(n - 1), s \in Steps}

VPoly == <<RInt(40), <<1, 100>>, <<1, 10000>>>>
EPoly == <<RInt(-10), <<-1, 1000>>, <<-1, 100000>>, <<-1, 1000000>>>>
AllOkPlan(n) == [i \in 1..n |-> "ok"]

MkInputX(T, tm, shape, P, nvd, eld, vold, nq, fplan, bplan) ==
  [id |-> 0, T |-> T, tmax |-> tm, shape |-> shape, eos |-> "vinet", P |-> P,
   ptab |-> [k \in 1..Len(T) |-> [E0 |-> PolyEval(EPoly, RInt(T[k])), B0 |-> Rat(100 - T[k] \div 10, 100),
                                  Bp |-> RInt(4), V0 |-> PolyEval(VPoly, RInt(T[k]))]],
   qtab |-> [j \in 1..nq |-> [E0 |-> Rat(-72 + j, 8), B0 |-> <<3, 5>>, Bp |-> <<9, 2>>, V0 |-> Rat(390 + j, 10)]],
   poly |-> [set |-> TRUE, v |-> VPoly, e |-> EPoly],
   cvtab |-> [k \in 1..Len(T) |-> IF k = 2 THEN <<R0, R0, R0>> ELSE <<RInt(20 + k), <<1, 10>>, <<1, 100>>>>],
   stab |-> [k \in 1..Len(T) |-> <<RInt(10 + k), <<1, 2>>, <<-1, 100>>>>],
   vorder |-> "asc", shift |-> R0, e0base |-> [k \in 1..Len(T) |-> PolyEval(EPoly, RInt(T[k]))],
   vref |-> 40, nvd |-> nvd, eldtype |-> eld, voldtype |-> vold, elcurve |-> eld = "float", wf |-> FALSE,
   fitplan |-> fplan, bmplan |-> bplan]

NQ(T, shape) == IF shape = "TV" THEN Len(T) ELSE 1
MkInput(T, tm, shape, P) ==
  MkInputX(T, tm, shape, P, 7, "float", "float", NQ(T, shape), AllOkPlan(Len(T)), AllOkPlan(NQ(T, shape)))

TMaxes(T) == {[set |-> FALSE, v |-> 0]} \cup
             {[set |-> TRUE, v |-> 5 * m] : m \in ((T[1] \div 5) - 1)..((T[Len(T)] \div 5) + 1)}
Pressures == {[set |-> FALSE, v |-> R0], [set |-> TRUE, v |-> R0], [set |-> TRUE, v |-> RInt(2)],
              [set |-> TRUE, v |-> <<-3, 2>>]}
AllPressures == Pressures
SomePressures == {[set |-> FALSE, v |-> R0], [set |-> TRUE, v |-> RInt(2)]}

ModelInputs ==
  UNION {{MkInput(T, tm, sh, P) : tm \in TMaxes(T), sh \in ShapeSel, P \in PressureSel} :
         T \in UNION {Grids(n) : n \in 1..MaxN}}

UniformGrid(n) == [k \in 1..n |-> 10 * (k - 1)]
P2 == [set |-> TRUE, v |-> RInt(2)]
FailInputs ==
  UNION {
    {MkInputX(UniformGrid(n), tm, sh, P2, 7, "float", "float", NQ(UniformGrid(n), sh), fp, AllOkPlan(NQ(UniformGrid(n), sh))) :
        tm \in {[set |-> FALSE, v |-> 0], [set |-> TRUE, v |-> 10]}, sh \in {"V", "TV"}, fp \in [1..n -> Plans]}
    \cup
    {MkInputX(UniformGrid(n), [set |-> FALSE, v |-> 0], "V", P2, 7, "float", "float", 1, AllOkPlan(n), <<b>>) : b \in Plans}
    : n \in 2..FailN}

SmallSeqs == UNION {[1..n -> {0, 10, 20}] : n \in 1..DegLen}
DegenerateInputs ==
  {MkInputX(T, [set |-> FALSE, v |-> 0], sh, P, nvd, eld, vold,
            IF sh = "TV" THEN (IF Len(T) + dq >= 1 THEN Len(T) + dq ELSE 1) ELSE 1, AllOkPlan(Len(T)),
            AllOkPlan(IF sh = "TV" THEN (IF Len(T) + dq >= 1 THEN Len(T) + dq ELSE 1) ELSE 1)) :
     T \in SmallSeqs, sh \in {"V", "TV"}, P \in SomePressures, nvd \in NvdSel,
     eld \in {"float", "int"}, vold \in {"float", "int"}, dq \in {-1, 0, 1}}
AllInputs == ModelInputs \cup FailInputs \cup DegenerateInputs
=============================================================================
