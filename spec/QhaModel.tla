------------------------------ MODULE QhaModel ------------------------------
(* Exhaustive model run of Qha.tla on inputs enumerated by TLC itself:        *)
(* every temperature grid with 1..MaxN points and steps from Steps (all step  *)
(* patterns, so every mixture of locally uniform and non-uniform stencils),   *)
(* every t_max on a 5 K raster from below the first to beyond the last        *)
(* temperature (on-grid, between, exact ties) or none, both electronic shapes,*)
(* pressure none / zero / positive / negative, quadratic V0(T), cubic E0(T).  *)
(* Decides on the specification: index safety of every loop and stencil, the  *)
(* length rule, completion for >= 2 temperatures, per-temperature electronic  *)
(* rows, +PV, recovery, exactness of the finite differences, units.           *)
EXTENDS Qha

CONSTANTS MaxN, Steps, ShapeSel, PressureSel

RECURSIVE Grids(_)
Grids(n) == IF n = 1 THEN {<<0>>, <<10>>}
            ELSE {Append(g, g[Len(g)] + s) : g \in Grids(n - 1), s \in Steps}

VPoly == <<RInt(40), <<1, 100>>, <<1, 10000>>>>
EPoly == <<RInt(-10), <<-1, 1000>>, <<-1, 100000>>, <<-1, 1000000>>>>

MkInput(T, tm, shape, P) ==
  [id |-> 0, T |-> T, tmax |-> tm, shape |-> shape, eos |-> "vinet", P |-> P,
   ptab |-> [k \in 1..Len(T) |-> [E0 |-> PolyEval(EPoly, RInt(T[k])), B0 |-> Rat(100 - T[k] \div 10, 100),
                                  Bp |-> RInt(4), V0 |-> PolyEval(VPoly, RInt(T[k]))]],
   qtab |-> [j \in 1..(IF shape = "TV" THEN Len(T) ELSE 1) |->
               [E0 |-> Rat(-72 + j, 8), B0 |-> <<3, 5>>, Bp |-> <<9, 2>>, V0 |-> Rat(390 + j, 10)]],
   poly |-> [set |-> TRUE, v |-> VPoly, e |-> EPoly],
   cvtab |-> [k \in 1..Len(T) |-> <<RInt(20 + k), <<1, 10>>, <<1, 100>>>>],
   stab |-> [k \in 1..Len(T) |-> <<RInt(10 + k), <<1, 2>>, <<-1, 100>>>>],
   vref |-> 40]

TMaxes(T) == {[set |-> FALSE, v |-> 0]} \cup
             {[set |-> TRUE, v |-> 5 * m] : m \in ((T[1] \div 5) - 1)..((T[Len(T)] \div 5) + 1)}
Pressures == {[set |-> FALSE, v |-> R0], [set |-> TRUE, v |-> R0], [set |-> TRUE, v |-> RInt(2)],
              [set |-> TRUE, v |-> <<-3, 2>>]}
AllPressures == Pressures
SomePressures == {[set |-> FALSE, v |-> R0], [set |-> TRUE, v |-> RInt(2)]}

ModelInputs ==
  UNION {{MkInput(T, tm, sh, P) : tm \in TMaxes(T), sh \in ShapeSel, P \in PressureSel} :
         T \in UNION {Grids(n) : n \in 1..MaxN}}
=============================================================================
