------------------------- MODULE CLIWorkflowTrace -------------------------
(* Conformance of the real commands with CLIWorkflow.tla.                   *)
(* One event = one invocation of `phonopy` / `phonopy-load` in a scratch    *)
(* directory (harness/c18_workflow.py):                                     *)
(*   [id, cmd, inp, s,                                                      *)
(*    obs |-> [status |-> "ok" | "fail" | "crash",                           *)
(*             out    |-> abstract names of the files written,              *)
(*             bad    |-> set of comparisons (file vs library result of the  *)
(*                        specification's `calls`) that failed,             *)
(*             checked |-> set of files that were compared,                  *)
(*             solver |-> fc solver the real front end selects ]]            *)
(* The machine is run on (cmd, inp, s); at exit                              *)
(*   ImplStatus    the command succeeded exactly when the machine does      *)
(*   ImplOutputs   it wrote exactly the machine's output files              *)
(*   ImplFaithful  every file equals, at its printed precision, what the    *)
(*                 library calls of the machine return                      *)
(*   ImplCompared  every data file the machine predicts was compared        *)
(*   ImplSolver    phonopy_script._get_fc_calculator_params, called on the  *)
(*                 real settings, selects the solver of the specification   *)
(*                 (symfc is phonopy-load's default; it is not installed    *)
(*                 here, so this rule is checked at the decision level)     *)
EXTENDS CLIWorkflow

CONSTANT WEvents
VARIABLE wev
wtvars == <<wvars, wev>>

WTInit == /\ wev \in WEvents
          /\ wc = [id |-> wev.id, cmd |-> wev.cmd, inp |-> wev.inp, s |-> wev.s]
          /\ pc = "start" /\ status = "running"
          /\ calls = <<>> /\ out = {} /\ fcsrc = "none" /\ nacsrc = "none" /\ cellsrc = "none"
          /\ nacfac = "none"
WTNext == WNext /\ UNCHANGED wev
WTSpec == WTInit /\ [][WTNext]_wtvars

AtExit == pc = "exit"
Ok == status = "ok"

ImplStatus == AtExit => (Ok <=> wev.obs.status = "ok") /\ wev.obs.status # "crash"
ImplOutputs == AtExit => wev.obs.out = out
ImplFaithful == AtExit => wev.obs.bad = {}
ImplSolver == wev.obs.solver = Solver
(* Vacuity: every (mesh consumer, mesh modifier) cell is exercised by a successful run    *)
(* whose files were compared.  "range" = FMIN/FMAX for the consumers that take a frequency *)
(* window, CUTOFF_FREQUENCY for the thermal properties; it does not apply to the mesh file. *)
Consumers == {"mesh", "dos", "pdos", "tprop", "ptprop", "tdisp", "tdm", "tdm_cif", "moment"}
CellMods == {"gc", "shift", "nomeshsym", "even", "odd", "range"}
Applicable(c, x) == ~(c = "mesh" /\ x = "range")
MainEvents == {e \in WEvents : e.cmd \in MainCmds}
MissingCells ==
  {cx \in Consumers \X CellMods :
     /\ Applicable(cx[1], cx[2])
     /\ ~\E e \in MainEvents : /\ e.obs.checked # {}
                               /\ ConsumerS(e.s) = cx[1] /\ cx[2] \in ModsS(e.s)}
(* evaluated once (in the initial state of one event) *)
CellsExercised ==
  (pc = "start" /\ wev = (CHOOSE e \in WEvents : TRUE) /\ (\E e \in MainEvents : e.full)) => MissingCells = {}
(* log files, structure files and plots are not data outputs *)
DataFiles == out \ {"SUPERCELLS", "MODULATED"}
ImplCompared == (AtExit /\ Ok) => DataFiles \subseteq wev.obs.checked
=============================================================================
