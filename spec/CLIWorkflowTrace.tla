------------------------- MODULE CLIWorkflowTrace -------------------------
(* Conformance of the real commands with CLIWorkflow.tla.                   *)
(* One event = one invocation of `phonopy` / `phonopy-load` in a scratch    *)
(* directory (harness/c18_workflow.py):                                     *)
(*   [id, cmd, inp, s,                                                      *)
(*    obs |-> [status |-> "ok" | "fail" | "crash",                           *)
(*             out    |-> abstract names of the files written,              *)
(*             bad    |-> set of comparisons (file vs library result of the  *)
(*                        specification's `calls`) that failed,             *)
(*             checked |-> set of files that were compared,                  *)
(*             solver |-> fc solver the real front end selects ]]            *)
(* The machine is run on (cmd, inp, s); at exit                              *)
(*   ImplStatus    the command succeeded exactly when the machine does      *)
(*   ImplOutputs   it wrote exactly the machine's output files              *)
(*   ImplFaithful  every file equals, at its printed precision, what the    *)
(*                 library calls of the machine return                      *)
(*   ImplCompared  every data file the machine predicts was compared        *)
(*   ImplSolver    phonopy_script._get_fc_calculator_params, called on the  *)
(*                 real settings, selects the solver of the specification   *)
(*                 (symfc is phonopy-load's default; it is not installed    *)
(*                 here, so this rule is checked at the decision level)     *)
EXTENDS CLIWorkflow

CONSTANT WEvents
VARIABLE wev
wtvars == <<wvars, wev>>

WTInit == /\ wev \in WEvents
          /\ wc = [id |-> wev.id, cmd |-> wev.cmd, inp |-> wev.inp, s |-> wev.s]
          /\ pc = "start" /\ status = "running"
          /\ calls = <<>> /\ out = {} /\ fcsrc = "none" /\ nacsrc = "none" /\ cellsrc = "none"
          /\ nacfac = "none"
WTNext == WNext /\ UNCHANGED wev
WTSpec == WTInit /\ [][WTNext]_wtvars

AtExit == pc = "exit"
Ok == status = "ok"

ImplStatus == AtExit => (Ok <=> wev.obs.status = "ok") /\ wev.obs.status # "crash"
ImplOutputs == AtExit => wev.obs.out = out
ImplFaithful == AtExit => wev.obs.bad = {}
ImplSolver == wev.obs.solver = Solver
(* log files, structure files and plots are not data outputs *)
DataFiles == out \ {"SUPERCELLS", "MODULATED"}
ImplCompared == (AtExit /\ Ok) => DataFiles \subseteq wev.obs.checked
=============================================================================
