-------------------------------- MODULE Eos --------------------------------
(* Equations of state of phonopy (qha/eos.py: get_eos) and what C20 demands *)
(* of their parameters.                                                     *)
(*                                                                          *)
(* Each form is written ONCE, here, as an expression tree over the          *)
(* primitives  const, parameter, V, + - * /, real power, exp  (textbook     *)
(* forms: Vinet in the Rose form, Birch-Murnaghan in Eulerian strain,       *)
(* Murnaghan in reduced volume - not the way eos.py spells them).           *)
(*   - TLC evaluates the tree to its 3-jet at V = V0 in exact rational      *)
(*     arithmetic (QhaJet) and checks the defining meaning of the           *)
(*     parameters on it (the requirement Req...).                             *)
(*   - The harness interprets the SAME tree (printed by EosDump) with IEEE  *)
(*     doubles at arbitrary V: it is the reference the real get_eos() is    *)
(*     compared with pointwise, and the generator of the exact free-energy  *)
(*     curves given to the quasi-harmonic analysis (Qha.tla).               *)
(* Real powers and exp are uninterpreted away from V0 (DESIGN 2.3).         *)
EXTENDS QhaJet

CONSTANTS
  EosNames,    \* subset of {"vinet", "birch_murnaghan", "murnaghan"}
  ParamSets    \* set of records [E0, B0, Bp, V0] of rationals, B0 > 0, V0 > 0, Bp # 1

VARIABLES pc, name, par, jet
vars == <<pc, name, par, jet>>

-----------------------------------------------------------------------------
(* expression trees *)
K(n, d) == [op |-> "const", v |-> Rat(n, d)]
Par(s) == [op |-> "par", name |-> s]
Vol == [op |-> "V"]
Add(a, b) == [op |-> "add", a |-> a, b |-> b]
Sub(a, b) == [op |-> "sub", a |-> a, b |-> b]
Mul(a, b) == [op |-> "mul", a |-> a, b |-> b]
Div(a, b) == [op |-> "div", a |-> a, b |-> b]
Pow(a, e) == [op |-> "pow", a |-> a, b |-> e]      \* e: a constant expression (no V)
Exp(a) == [op |-> "exp", a |-> a]
Sq(a) == Mul(a, a)
Cube(a) == Mul(a, Mul(a, a))

pE0 == Par("E0")
pB0 == Par("B0")
pBp == Par("Bp")
pV0 == Par("V0")

(* Vinet (Rose-Vinet universal EOS):  x = (V/V0)^(1/3),  eta = 3/2 (B0'-1)   *)
(*  E = E0 + 2 B0 V0/(B0'-1)^2 * { 2 - [5 + 3 B0'(x-1) - 3x] exp(-eta (x-1)) } *)
FormVinet ==
  LET x == Pow(Div(Vol, pV0), K(1, 3))
      xm == Sub(x, K(1, 1))
      eta == Mul(K(3, 2), Sub(pBp, K(1, 1)))
      br == Sub(Add(K(5, 1), Mul(Mul(K(3, 1), pBp), xm)), Mul(K(3, 1), x))
  IN  Add(pE0, Mul(Div(Mul(K(2, 1), Mul(pB0, pV0)), Sq(Sub(pBp, K(1, 1)))),
                   Sub(K(2, 1), Mul(br, Exp(Mul(Sub(K(0, 1), eta), xm))))))

(* third-order Birch-Murnaghan:  f = ((V0/V)^(2/3) - 1)/2  (Eulerian strain)  *)
(*  E = E0 + 9 V0 B0 / 2 * [ f^2 + (B0' - 4) f^3 ]                            *)
FormBirchMurnaghan ==
  LET f == Mul(K(1, 2), Sub(Pow(Div(pV0, Vol), K(2, 3)), K(1, 1)))
  IN  Add(pE0, Mul(Mul(K(9, 2), Mul(pV0, pB0)),
                   Add(Sq(f), Mul(Sub(pBp, K(4, 1)), Cube(f)))))

(* Murnaghan:  y = V/V0                                                      *)
(*  E = E0 + B0 V0 [ y^(1-B0') / (B0'(B0'-1)) + y/B0' - 1/(B0'-1) ]           *)
FormMurnaghan ==
  LET y == Div(Vol, pV0)
      bm1 == Sub(pBp, K(1, 1))
  IN  Add(pE0, Mul(Mul(pB0, pV0),
                   Sub(Add(Div(Pow(y, Sub(K(1, 1), pBp)), Mul(pBp, bm1)), Div(y, pBp)),
                       Div(K(1, 1), bm1))))

Form(n) == CASE n = "vinet" -> FormVinet
             [] n = "birch_murnaghan" -> FormBirchMurnaghan
             [] n = "murnaghan" -> FormMurnaghan

AllNames == {"vinet", "birch_murnaghan", "murnaghan"}
AllForms == [n \in AllNames |-> Form(n)]

-----------------------------------------------------------------------------
(* exact 3-jet of an expression tree at V = p.V0, in the reduced step s = (V - V0)/V0 *)
IsConstJet(u) == u[2] = R0 /\ u[3] = R0 /\ u[4] = R0

RECURSIVE JEval(_, _)
JEval(t, p) ==
  CASE t.op = "const" -> JConst(t.v)
    [] t.op = "par" -> JConst(CASE t.name = "E0" -> p.E0 [] t.name = "B0" -> p.B0
                                [] t.name = "Bp" -> p.Bp [] t.name = "V0" -> p.V0)
    [] t.op = "V" -> JVarScaled(p.V0)
    [] t.op = "add" -> JAdd(JEval(t.a, p), JEval(t.b, p))
    [] t.op = "sub" -> JSub(JEval(t.a, p), JEval(t.b, p))
    [] t.op = "mul" -> JMul(JEval(t.a, p), JEval(t.b, p))
    [] t.op = "div" -> JDiv(JEval(t.a, p), JEval(t.b, p))
    [] t.op = "pow" -> LET u == JEval(t.a, p)
                           e == JEval(t.b, p)
                       IN  IF u[1] = R1 /\ IsConstJet(e) THEN JPow1(u, e[1])
                           ELSE Assert(FALSE, <<"power with irrational value at V0", t>>)
    [] t.op = "exp" -> LET w == JEval(t.a, p)
                       IN  IF w[1] = R0 THEN JExp0(w)
                           ELSE Assert(FALSE, <<"exp with irrational value at V0", t>>)

-----------------------------------------------------------------------------
(* The requirement: the defining meaning of (E0, B0, B0', V0), stated on any  *)
(* jet c = <<E, E', E''/2, E'''/6>> at V0 - the machine's or a measured one.  *)
(*   P(V) = -dE/dV,  B(V) = V d2E/dV2,  B' = dB/dP = (dB/dV)/(dP/dV).         *)
ReqEnergy(p, c) == c[1] = p.E0
ReqPressure(p, c) == RNeg(c[2]) = R0
Bulk(p, c) == RMul(p.V0, RMul(RInt(2), c[3]))
ReqBulk(p, c) == Bulk(p, c) = p.B0
dBdV(p, c) == RAdd(RMul(RInt(2), c[3]), RMul(p.V0, RMul(RInt(6), c[4])))
dPdV(p, c) == RNeg(RMul(RInt(2), c[3]))
ReqBulkPrime(p, c) == c[3] # R0 /\ RDiv(dBdV(p, c), dPdV(p, c)) = p.Bp
Requirement(p, c) == ReqEnergy(p, c) /\ ReqPressure(p, c) /\ ReqBulk(p, c) /\ ReqBulkPrime(p, c)

-----------------------------------------------------------------------------
Init == pc = "choose" /\ name = "" /\ par = [E0 |-> R0, B0 |-> R1, Bp |-> RInt(4), V0 |-> R1] /\ jet = JConst(R0)

Choose ==
  /\ pc = "choose"
  /\ \E n \in EosNames, p \in ParamSets : name' = n /\ par' = p
  /\ pc' = "jet" /\ UNCHANGED jet

EvalJet ==
  /\ pc = "jet"
  /\ jet' = JUnscale(JEval(Form(name), par), par.V0)      \* coefficients of (V - V0)^k
  /\ pc' = "done" /\ UNCHANGED <<name, par>>

Next == Choose \/ EvalJet
Spec == Init /\ [][Next]_vars

AtEnd == pc = "done"
InvEnergy == AtEnd => ReqEnergy(par, jet)
InvPressure == AtEnd => ReqPressure(par, jet)
InvBulk == AtEnd => ReqBulk(par, jet)
InvBulkPrime == AtEnd => ReqBulkPrime(par, jet)

(* the jet algebra obeys the laws that define the primitives (checked on the  *)
(* jets that occur: u = V/V0 at V0 and the parameter values as exponents)     *)
InvJetLaws ==
  AtEnd =>
    LET y == JDiv(JVarScaled(par.V0), JConst(par.V0))
        a == par.Bp
        b == RSub(R1, par.Bp)
        w == JScale(a, JSub(y, JConst(R1)))
    IN  /\ JMul(y, JInv(y)) = JConst(R1)
        /\ JPow1(y, RInt(2)) = JMul(y, y)
        /\ JPow1(y, RInt(-1)) = JInv(y)
        /\ JMul(JPow1(y, a), JPow1(y, b)) = JPow1(y, RAdd(a, b))
        /\ JPow1(JPow1(y, <<1, 3>>), RInt(3)) = y
        /\ JPow1(JPow1(y, a), b) = JPow1(y, RMul(a, b))
        /\ JMul(JExp0(w), JExp0(JNeg(w))) = JConst(R1)
        /\ JExp0(JAdd(w, w)) = JMul(JExp0(w), JExp0(w))
        (* d/dh exp(w) = w' exp(w), first two orders *)
        /\ JExp0(w)[2] = w[2]
=============================================================================
