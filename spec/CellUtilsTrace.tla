--------------------------- MODULE CellUtilsTrace ---------------------------
(* X06: events recorded from the real functions of phonopy/structure/cells.py *)
(* (harness/x06_driver.py), one behaviour per event.  Failed is the set of     *)
(* requirement clauses of CellUtils that the LOGGED values violate; Impl... are *)
(* the invariants, Report prints the verdict per event.                       *)
(*  centring  [letter, Mn, den, exact]        get_primitive_matrix_by_centring / get_primitive_matrix *)
(*  guess     [crystal, Mn, den, exact, natom_prim, prim_is_primitive, conv_is_primitive, nrot]       *)
(*  estsys    [which, num, n, l2, maxn, maxit, res]   stub dataset / point-group number               *)
(*  estxtal   [crystal, Pm, runs: [maxn, maxit, res]] spglib dataset of a catalogue crystal; Pm = transformation_matrix (unimodular) *)
(*  reduce    [method, Gin, Tm, exact, det]   get_reduced_bases; det = determinant(Tm) of cells.py                                        *)
(*  tol       [cls, mode, atol, verdict]      isclose on a cell with one atom displaced by a distance of class cls *)
(*  yaml      [field, shown, err, ulp, same]  str(cell) -> yaml -> parse_cell_dict, worst number of a field *)
(*  params    [Gin, l2, c23, c13, c12, exact, lower, G2]  get_cell_parameters / get_angles / get_cell_matrix_from_lattice *)
EXTENDS CellCatalogue, Json

CONSTANT EventFile
VARIABLES ev, pc, grp
tvars == <<ev, pc, grp>>

Events == LET raw == ndJsonDeserialize(EventFile) IN {raw[j] : j \in DOMAIN raw}
HasCrystal(e) == e.kind \in {"guess", "estxtal"}
Cr == XEntry(ev.crystal)

TInit == ev \in Events /\ pc = "start" /\ grp = {}
Compute == /\ pc = "start" /\ pc' = "done" /\ UNCHANGED ev
           /\ grp' = IF HasCrystal(ev) THEN FastAut(Cr) ELSE {}
TNext == Compute
AtEnd == pc = "done"

PG == {p[1] : p \in grp}
Cen == {Tup(p[2]) : p \in {p \in grp : p[1] = Id3}} \ {<<0,0,0>>}
Scale(T, k) == {<<k * t[1], k * t[2], k * t[3]>> : t \in T}

(* the standardized cell spglib hands to estimate_supercell_matrix: basis (a b c) Pm^-1 with Pm unimodular *)
StdPG == {MatMul(ev.Pm, MatMul(W, UniInv(ev.Pm))) : W \in PG}
StdGram == GramOf(Transpose(UniInv(ev.Pm)), Cr.G)

PrimFailed(Mn, den, T, D) ==
  {x \in {"columns-in-lattice", "generators-reached", "volume"} :
     ~ CASE x = "columns-in-lattice" -> ColumnsInLattice(Mn, den, T, D)
         [] x = "generators-reached" -> GeneratorsReached(Mn, den, T, D)
         [] x = "volume" -> VolumeRight(Mn, den, T)}

Failed ==
  CASE ev.kind = "centring" ->
         IF ~ ev.exact THEN {"not-rational"} ELSE PrimFailed(ev.Mn, ev.den, CentringTrans(ev.letter), CDen)
    [] ev.kind = "guess" ->
         (IF ~ ev.exact THEN {"not-rational"} ELSE PrimFailed(ev.Mn, ev.den, Cen, Cr.D))
         \cup (IF ev.natomprim * Cardinality(LatPoints(Cen)) = NAtoms(Cr) THEN {} ELSE {"primitive-atom-count"})
         \cup (IF ev.primisprim THEN {} ELSE {"primitive-cell-not-primitive"})
         \cup (IF ev.convisprim = (Cen = {}) THEN {} ELSE {"is_primitive_cell"})
         \cup (IF ev.nrot = Cardinality(grp) THEN {} ELSE {"group-order"})
         \cup (IF Scale(Cen, 6) = Scale(CentringTrans(Cr.centring), Cr.D) THEN {} ELSE {"catalogue-centring"})
    [] ev.kind = "estsys" ->
         EstimateFailed(ev.n, ev.l2, KnobsOfSystem(IF ev.which = "spg" THEN System(ev.num) ELSE SystemOfPointGroup(ev.num)),
                        ev.maxn, ev.maxit, ev.res)
    [] ev.kind = "estxtal" ->
         UNION {{x \o " (max_num_atoms=" \o ToString(r.maxn) \o ", max_iter=" \o ToString(r.maxit) \o ")" :
                   x \in EstimateFailed(NAtoms(Cr), <<StdGram[1][1], StdGram[2][2], StdGram[3][3]>>, KnobsOfGroup(StdPG), r.maxn, r.maxit, r.res)
                         \cup (IF Pos3(r.res) /\ KeepsSymmetry(StdPG, r.res) THEN {} ELSE {"keeps-symmetry"})} :
                r \in {ev.runs[k] : k \in DOMAIN ev.runs}}
    [] ev.kind = "reduce" ->
         IF ~ ev.exact THEN {"not-integer-transformation"}
         ELSE IF ev.det # Det(ev.Tm) THEN {"determinant"}
         ELSE IF ~ SameLattice(ev.Tm) THEN {"same-lattice"}
         ELSE LET Gr == GramOf(ev.Tm, ev.Gin)
              IN IF ev.method = "niggli" THEN {"niggli:" \o x : x \in NiggliFailed(Gr)}
                 ELSE {"minima:" \o x : x \in MinimaFailed(Gr)}
    [] ev.kind = "tol" ->
         IF ev.verdict = TolReq(ev.cls) THEN {} ELSE {"distance-tolerance:" \o ev.mode}
    [] ev.kind = "yaml" -> YamlFailed(ev.field, ev.shown, ev.err, ev.ulp, ev.same)
    [] ev.kind = "params" ->
         (IF ev.exact /\ ParamsReq(ev.Gin, ev.l2, ev.c23, ev.c13, ev.c12) THEN {} ELSE {"lengths-angles"})
         \cup (IF ev.lower THEN {} ELSE {"lower-triangular"})
         \cup (IF <<Tup(ev.G2[1]), Tup(ev.G2[2]), Tup(ev.G2[3])>> = <<Tup(ev.Gin[1]), Tup(ev.Gin[2]), Tup(ev.Gin[3])>> THEN {} ELSE {"metric-preserved"})

ImplCentring == AtEnd /\ ev.kind = "centring" => Failed = {}
ImplGuess    == AtEnd /\ ev.kind = "guess" => Failed = {}
ImplEstimate == AtEnd /\ ev.kind \in {"estsys", "estxtal"} => Failed = {}
ImplReduce   == AtEnd /\ ev.kind = "reduce" => Failed = {}
ImplParams   == AtEnd /\ ev.kind = "params" => Failed = {}
ImplYaml == AtEnd /\ ev.kind = "yaml" => Failed = {}
ImplTolerance == AtEnd /\ ev.kind = "tol" => Failed = {}
Report == AtEnd => PrintT(ToString(<<"V", ev.id, Failed>>))

(* model level: the centring table is a table of lattices (groups modulo Z^3) and every letter's set *)
(* is what the catalogue crystal of that letter has as pure translations (checked per guess event)   *)
TableIsLattices == \A l \in Letters : IsGroupMod(CentringTrans(l), CDen)
=============================================================================
