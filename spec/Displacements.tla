---------------------------- MODULE Displacements ----------------------------
(* get_least_displacements / get_displacement / _get_displacement_one /      *)
(* _get_displacement_two / is_minus_displacement (harmonic/displacement.py)  *)
(* as a step machine, one action per iteration of the outer loops, run on    *)
(* EVERY subgroup of a set of ambient finite integer matrix groups.          *)
(*                                                                          *)
(* The ambient groups are the holohedries of the lattices named by          *)
(* `Ambients` (Gram matrix G), re-expressed in the basis B (columns of B =   *)
(* new basis vectors in the old basis; only the operations that stay        *)
(* integral are kept - exactly the rotations spglib reports for a supercell *)
(* with matrix B).  The `grow` phase walks the subgroup lattice: the states *)
(* of that phase ARE the subgroups (Extend adjoins one element and closes). *)
(* From every subgroup the search is run with every option.                 *)
(*                                                                          *)
(* Requirement (C01, sufficiency part): InvSpan, InvPlusMinus.              *)
EXTENDS DispAlgo, Crystal

CONSTANTS
  Ambients,   \* sequence of [G |-> Gram matrix, B |-> integer basis matrix, det # 0]
  PMs,        \* subset of {"auto", "on", "off"}
  Trigs,      \* subset of BOOLEAN  (is_trigonal, a test-only option of the code)
  Orders      \* subset of {"fwd", "rev"}: order in which the group is handed to the search

VARIABLES pc, cfg, gens, grp, site, diag, k, chosen, trig, pm, mi, out
vars == <<pc, cfg, gens, grp, site, diag, k, chosen, trig, pm, mi, out>>
(* gens is auxiliary (any generating set gives the same group) *)
view == <<pc, cfg, grp, site, diag, k, chosen, trig, pm, mi, out>>

-----------------------------------------------------------------------------
(* ambient groups as constant tables *)

(* B^-1 W B, defined when integral *)
ConjNum(B, W) == MatMul(Adj(B), MatMul(W, B))
IntegralConj(B, W) == \A i, j \in I3 : ConjNum(B, W)[i][j] % Abs(Det(B)) = 0
Conj(B, W) == LET d == Det(B) N == ConjNum(B, W) IN [i \in I3 |-> [j \in I3 |-> N[i][j] \div d]]

HoloIn(G, B) == {Conj(B, W) : W \in {W \in MetricPreserving(G) : IntegralConj(B, W)}}

NCfg == Len(Ambients)
AmbTab == Materialize([c \in 1..NCfg |-> SetToSeq(HoloIn(Ambients[c].G, Ambients[c].B))])
IdxOf(s, m) == CHOOSE i \in 1..Len(s) : s[i] = m
MulTab == Materialize([c \in 1..NCfg |->
             LET s == AmbTab[c]
             IN  Materialize([i \in 1..Len(s) |-> Materialize([j \in 1..Len(s) |-> IdxOf(s, MatMul(s[i], s[j]))])])])
IdIdx == Materialize([c \in 1..NCfg |-> IdxOf(AmbTab[c], Id3)])

RECURSIVE Close(_, _, _, _)
Close(c, gs, X, F) ==
  IF F = {} THEN X
  ELSE LET N == {MulTab[c][x][gs[i]] : x \in F, i \in 1..Len(gs)} \ X
       IN  Close(c, gs, X \cup N, N)
Generated(c, gs) == Close(c, gs, {IdIdx[c]}, {IdIdx[c]})

RECURSIVE SortedSeq(_)
SortedSeq(S) == IF S = {} THEN <<>> ELSE LET m == MinOf(S) IN <<m>> \o SortedSeq(S \ {m})
Reverse(s) == [i \in 1..Len(s) |-> s[Len(s) + 1 - i]]

-----------------------------------------------------------------------------
Init ==
  /\ pc = "grow" /\ cfg \in 1..NCfg /\ gens = <<>> /\ grp = {IdIdx[cfg]}
  /\ site = <<>> /\ diag = TRUE /\ k = 0 /\ chosen = <<>> /\ trig = FALSE /\ pm = "none" /\ mi = 0 /\ out = <<>>

(* adjoin one more element of the ambient group and close *)
Extend ==
  /\ pc = "grow"
  /\ \E g \in (1..Len(AmbTab[cfg])) \ grp :
       /\ gens' = Append(gens, g)
       /\ grp' = Generated(cfg, Append(gens, g))
  /\ UNCHANGED <<pc, cfg, site, diag, k, chosen, trig, pm, mi, out>>

(* hand the subgroup to get_least_displacements as the site symmetry of one atom *)
Start ==
  /\ pc = "grow"
  /\ \E dg \in BOOLEAN, o \in Orders :
       /\ diag' = dg
       /\ site' = LET idx == SortedSeq(grp)
                      s == [i \in 1..Len(idx) |-> AmbTab[cfg][idx[i]]]
                  IN  IF o = "fwd" THEN s ELSE Reverse(s)
  /\ pc' = "one" /\ k' = 1
  /\ UNCHANGED <<cfg, gens, grp, chosen, trig, pm, mi, out>>

Dirs == DirList(diag)

(* one iteration of `for direction in directions` in _get_displacement_one *)
TryOne ==
  /\ pc = "one"
  /\ IF OneHit(site, Dirs[k])
       THEN /\ chosen' = <<Dirs[k]>> /\ pc' = "pm" /\ k' = k
       ELSE /\ chosen' = chosen
            /\ IF k < Len(Dirs) THEN (pc' = "one" /\ k' = k + 1) ELSE (pc' = "two" /\ k' = 1)
  /\ UNCHANGED <<cfg, gens, grp, site, diag, trig, pm, mi, out>>

(* one iteration of `for direction in directions` in _get_displacement_two *)
TryTwoWith(TS) ==
  /\ pc = "two"
  /\ LET hit == TwoHit(site, Dirs, Dirs[k])
     IN  IF hit # <<0, 0>>
           THEN \E t \in TS : /\ trig' = t
                              /\ chosen' = TwoResult(site, Dirs, Dirs[k], hit, t)
                              /\ pc' = "pm" /\ k' = k
           ELSE /\ chosen' = chosen /\ trig' = trig
                /\ IF k < Len(Dirs) THEN (pc' = "two" /\ k' = k + 1) ELSE (pc' = "three" /\ k' = k)
  /\ UNCHANGED <<cfg, gens, grp, site, diag, pm, mi, out>>
TryTwo == TryTwoWith(Trigs)

(* `return [directions[0], directions[1], directions[2]]` *)
FallbackThree ==
  /\ pc = "three"
  /\ chosen' = <<Dirs[1], Dirs[2], Dirs[3]>>
  /\ pc' = "pm"
  /\ UNCHANGED <<cfg, gens, grp, site, diag, k, trig, pm, mi, out>>

ChoosePMWith(PS) ==
  /\ pc = "pm"
  /\ \E p \in PS : pm' = p
  /\ pc' = "minus" /\ mi' = 1
  /\ UNCHANGED <<cfg, gens, grp, site, diag, k, chosen, trig, out>>
ChoosePM == ChoosePMWith(PMs)

(* one iteration of `for disp in get_displacement(...)` in get_least_displacements *)
AddMinus ==
  /\ pc = "minus"
  /\ IF mi > Len(chosen)
       THEN (pc' = "done" /\ out' = out /\ mi' = mi)
       ELSE LET d == chosen[mi]
                both == (pm = "on") \/ (pm = "auto" /\ IsMinus(site, d))
            IN  /\ out' = out \o (IF both THEN <<d, VNeg(d)>> ELSE <<d>>)
                /\ mi' = mi + 1 /\ pc' = "minus"
  /\ UNCHANGED <<cfg, gens, grp, site, diag, k, chosen, trig, pm>>

Next == Extend \/ Start \/ TryOne \/ TryTwo \/ FallbackThree \/ ChoosePM \/ AddMinus
Spec == Init /\ [][Next]_vars

-----------------------------------------------------------------------------
(* requirement *)
InvSpan == pc = "done" => ReqSpan(site, out)
InvSpanChosen == pc \in {"pm", "minus"} => ReqSpan(site, chosen)
InvPlusMinus == pc = "done" => ReqPlusMinus(site, pm, out)
InvFromList == pc = "done" => ReqFromList(diag, trig, out)
(* theorems about the search / consistency of the two formulations *)
InvLeast == (pc = "pm" /\ ~trig) => Len(chosen) = LeastCount(site, Dirs)
InvFunctional == pc = "done" => out = LeastDisplacements(site, diag, pm, trig)
InvGroup == pc = "one" => IsMatrixGroup(site)
InvAmbient == pc = "grow" => /\ grp \subseteq 1..Len(AmbTab[cfg])
                             /\ \A a \in grp, b \in grp : MulTab[cfg][a][b] \in grp
=============================================================================
