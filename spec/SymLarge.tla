------------------------------ MODULE SymLarge ------------------------------
(* C07 on large supercells (64 ... 700 atoms), where the arrays are too big  *)
(* for the step machine and where the kernels' work sharing (OpenMP regions  *)
(* guarded by an atom count) becomes active.                                 *)
(*                                                                          *)
(* An event is one real call of a symmetriser on an INTEGER array x (full    *)
(* layout, or compact layout standing for the full array x), in one thread  *)
(* mode, with                                                                *)
(*  - whole-array facts measured by the harness on the returned array, as    *)
(*    residual classes ("zero": <= 1e-9 relative, "small": <= 1e-6,          *)
(*    "large"): row sums, column sums, index-permutation asymmetry, change   *)
(*    under a second application, distance from the input (symmetric input), *)
(*    distance of the compact result from the full-layout result, and        *)
(*    agreement of the two thread modes;                                      *)
(*  - a SAMPLE of entries spread over the array (every sampled block (i,j)   *)
(*    together with its partner (j,i); many self blocks (i,i)), each with    *)
(*    the exact integer ingredients of the definition: x(i,j)_kl, x(j,i)_lk, *)
(*    the column and row sums through both, the total sums; and the returned *)
(*    value at (i,j,k,l) and at (j,i,l,k) as numerators over ev.den           *)
(*    (2 ns^2; 1 for symmetric input, which must come back unchanged).        *)
(* The requirement is judged here on the facts and, exactly, on the sample;  *)
(* the returned sample values are also compared with the orthogonal          *)
(* projector of the definition (what the step machine of Symmetrize.tla      *)
(* computes: InfoIsOrthogonalProjector there):                                *)
(*   y(i,j) = x(i,j) - colmean(j) - rowmean(i) + totalmean,                  *)
(*   out(i,j)_kl = (y(i,j)_kl + y(j,i)_lk) / 2.                               *)
EXTENDS Integers, Sequences, FiniteSets, TLC

CONSTANT Events

VARIABLES ev, pc, verdict

lvars == <<ev, pc, verdict>>

(* numerator over 2 n^2 of the projector's value at the entry *)
ProjNum(e, n) ==
  n * n * (e.x + e.xt) - n * (e.cj + e.ri + e.cit + e.rjt) + e.t + e.tt

V(name, holds) == IF holds THEN {} ELSE {name}

Samples == {ev.sample[q] : q \in 1..Len(ev.sample)}

Judgement ==
  LET f == ev.facts
      n == ev.ns
  IN       V("LargeExact", f.exact)
     \cup V("LargeImposesTransInv", f.rowsum = "zero" /\ f.colsum = "zero")
     \cup V("LargeImposesPermSym", f.asym = "zero" /\ \A e \in Samples : e.out = e.outt)
     \cup V("LargeIdempotent", f.again = "zero")
     \cup V("LargeFixesSymmetric",
            ev.kind = "sym" => (f.moved = "zero" /\ \A e \in Samples : e.out = ev.den * e.x))
     \cup V("LargeCompactEqFull", ev.route = "compact" => f.vsfull = "zero")
     \cup V("LargeThreadsAgree", f.threads)
     \cup V("ConformsLargeEntries", ev.kind # "sym" => (ev.den = 2 * n * n /\ \A e \in Samples : e.out = ProjNum(e, n)))
     (* self-checks of the recorded ingredients *)
     \cup V("LargeAnnounced",
            /\ \A e \in Samples : (e.i = e.j /\ e.k = e.l) => (e.x = e.xt /\ e.cj = e.cit /\ e.ri = e.rjt /\ e.t = e.tt)
            /\ ev.kind = "sym" => \A e \in Samples : e.x = e.xt /\ e.cj = 0 /\ e.ri = 0 /\ e.cit = 0 /\ e.rjt = 0
                                                       /\ e.t = 0 /\ e.tt = 0
            /\ \E e \in Samples : e.i = e.j
            /\ \E e \in Samples : e.i # e.j)

LInit == ev \in Events /\ pc = "recorded" /\ verdict = {}

Judge ==
  /\ pc = "recorded"
  /\ verdict' = Judgement
  /\ pc' = "judged"
  /\ UNCHANGED ev

LNext == Judge
LSpec == LInit /\ [][LNext]_lvars

LargeExact == "LargeExact" \notin verdict
LargeImposesTransInv == "LargeImposesTransInv" \notin verdict
LargeImposesPermSym == "LargeImposesPermSym" \notin verdict
LargeIdempotent == "LargeIdempotent" \notin verdict
LargeFixesSymmetric == "LargeFixesSymmetric" \notin verdict
LargeCompactEqFull == "LargeCompactEqFull" \notin verdict
LargeThreadsAgree == "LargeThreadsAgree" \notin verdict
ConformsLargeEntries == "ConformsLargeEntries" \notin verdict
LargeAnnounced == "LargeAnnounced" \notin verdict
=============================================================================
