----------------------------- MODULE Primitive -----------------------------
(* Primitive-cell extraction of phonopy (structure/cells.py: Primitive,       *)
(* TrimmedCell, compute_all_sg_permutations) as a step machine, and what C04 *)
(* requires of its result.                                                   *)
(*                                                                           *)
(* Input: the supercell as a sequence of atoms [a, sp, u] (unit-cell atom,   *)
(* species, position u/D in unit-cell coordinates), the supercell matrix S   *)
(* (supercell lattice LS = column lattice of S) and the primitive matrix     *)
(* P = Pn/Pd relative to the UNIT cell (primitive lattice LP = column lattice *)
(* of Pn/Pd).  u/D lies in LP  iff  ClassKey(Pn, D, Pd*u) = <<0,0,0>>.        *)
(* The event generator guarantees Pd divides D.                              *)
(*                                                                           *)
(* Steps: Validate (LS subset of LP) ; Trim (first-come removal of atoms     *)
(* equivalent modulo LP, symbol check, count check) ; MapIndices (s2p, p2p) ; *)
(* Permutations (pure translations of the first sublattice as permutations). *)
EXTENDS IntLinAlg

VARIABLES pc, inp, p2s, s2p, perms, result,
          kS, kP     \* class keys of every atom modulo LS / LP: computed once (TLC does not cache LET definitions)
pvars == <<pc, inp, p2s, s2p, perms, result, kS, kP>>

(* inp = [D, S, Pn, Pd, atoms, reorder]   (reorder = <<>> or the requested primitive positions, over D) *)
NA(x) == Len(x.atoms)
KeyS(x, u) == ClassKey(x.S, x.D, u)
KeyP(x, u) == ClassKey(x.Pn, x.D, VScale(x.Pd, u))
ZeroKey == <<0, 0, 0>>
Col(M, j) == <<M[1][j], M[2][j], M[3][j]>>

(* number of primitive cells in the supercell: det S / det P *)
NCells(x) == (Abs(Det(x.S)) * x.Pd * x.Pd * x.Pd) \div Abs(Det(x.Pn))

(* ---- validity of the input, by definition -------------------------------------- *)
LatticeCompatible(x) ==
  /\ Det(x.Pn) # 0 /\ Det(x.S) # 0
  /\ \A j \in I3 : ClassKey(x.Pn, 1, VScale(x.Pd, Col(x.S, j))) = ZeroKey
  /\ (Abs(Det(x.S)) * x.Pd * x.Pd * x.Pd) % Abs(Det(x.Pn)) = 0

(* generators of LP as numerators over D (Pd divides D) *)
PGen(x, j) == [i \in I3 |-> (x.D \div x.Pd) * x.Pn[i][j]]

(* every primitive lattice translation maps the supercell crystal onto itself *)
TranslationSymmetric(x) ==
  \A j \in I3 : \A k \in 1..NA(x) : \E k2 \in 1..NA(x) :
     /\ x.atoms[k2].sp = x.atoms[k].sp
     /\ KeyS(x, VAdd(x.atoms[k].u, PGen(x, j))) = KeyS(x, x.atoms[k2].u)

Valid(x) == LatticeCompatible(x) /\ Det(x.S) * Det(x.Pn) > 0 /\ TranslationSymmetric(x)

(* ---- the step machine ------------------------------------------------------------- *)
RECURSIVE KeepFromP(_, _, _)
KeepFromP(keys, i, acc) ==
  IF i > Len(keys) THEN acc
  ELSE IF \E k \in 1..Len(acc) : keys[acc[k]] = keys[i]
       THEN KeepFromP(keys, i + 1, acc)
       ELSE KeepFromP(keys, i + 1, Append(acc, i))

PInit(x) ==
  /\ pc = "trim" /\ inp = x /\ p2s = <<>> /\ s2p = <<>> /\ perms = <<>> /\ result = [status |-> "none"]
  /\ kS = [k \in 1..NA(x) |-> KeyS(x, x.atoms[k].u)]
  /\ kP = IF Det(x.Pn) = 0 THEN <<>> ELSE [k \in 1..NA(x) |-> KeyP(x, x.atoms[k].u)]

Trim ==
  /\ pc = "trim"
  (* a singular matrix makes numpy raise; a primitive lattice that does not contain the     *)
  (* supercell lattice is caught later by the integrality assertion on                     *)
  (* supercell_bases . inv(primitive_bases) in Primitive._get_smallest_vectors - the order  *)
  (* in which the code notices is not modelled, only that it refuses.                       *)
  /\ IF ~LatticeCompatible(inp)
       THEN /\ p2s' = <<>> /\ pc' = "error"
       ELSE LET keys == kP
                kept == KeepFromP(kP, 1, <<>>)
                (* mapping_table: every atom -> the kept atom it coincides with modulo LP *)
                mapped(k) == kept[CHOOSE i \in 1..Len(kept) : keys[kept[i]] = keys[k]]
                symbolsOK == \A k \in 1..NA(inp) : inp.atoms[mapped(k)].sp = inp.atoms[k].sp
                (* len(cell) == rint(len(trimmed) * det(S)/det(P)) : exact rational comparison; *)
                (* rint is modelled for the exact case and for the clearly-off case only       *)
                countOK == NA(inp) * Det(inp.Pn) = Len(kept) * Det(inp.S) * inp.Pd * inp.Pd * inp.Pd
                (* positions_to_reorder: the caller asks for the primitive atoms in the order of  *)
                (* the given positions (each must coincide with exactly one kept atom modulo LP)  *)
                reorderOK == inp.reorder = <<>> \/
                               (/\ Len(inp.reorder) = Len(kept)
                                /\ \A i \in 1..Len(inp.reorder) :
                                      Cardinality({k \in 1..Len(kept) : keys[kept[k]] = KeyP(inp, inp.reorder[i])}) = 1)
                ordered == IF inp.reorder = <<>> \/ ~reorderOK THEN kept
                           ELSE [i \in 1..Len(inp.reorder) |->
                                   kept[CHOOSE k \in 1..Len(kept) : keys[kept[k]] = KeyP(inp, inp.reorder[i])]]
            IN /\ p2s' = ordered
               /\ pc' = IF symbolsOK /\ countOK /\ reorderOK THEN "map" ELSE "error"
  /\ UNCHANGED <<inp, s2p, perms, result, kS, kP>>

MapIndices ==
  /\ pc = "map"
  /\ s2p' = [k \in 1..NA(inp) |-> p2s[CHOOSE i \in 1..Len(p2s) : kP[p2s[i]] = kP[k]]]
  /\ pc' = "perm"
  /\ UNCHANGED <<inp, p2s, perms, result, kS, kP>>

(* translations: positions of the atoms of the first sublattice relative to p2s[1];       *)
(* perm[i] = the atom at position(i) + t modulo LS                                        *)
TransPermutations ==
  /\ pc = "perm"
  /\ LET first == p2s[1]
         sub == SelectSeq([k \in 1..NA(inp) |-> k], LAMBDA k : s2p[k] = first)
         permOf(t) == [i \in 1..NA(inp) |->
                         LET target == KeyS(inp, VAdd(inp.atoms[i].u, t))
                         IN IF \E j \in 1..NA(inp) : kS[j] = target
                              THEN CHOOSE j \in 1..NA(inp) : kS[j] = target ELSE 0]
     IN perms' = [m \in 1..Len(sub) |-> permOf(VSub(inp.atoms[sub[m]].u, inp.atoms[first].u))]
  /\ pc' = "permcheck"
  /\ UNCHANGED <<inp, p2s, s2p, result, kS, kP>>

(* separate step so that `perms` is a materialised state value (TLC re-evaluates LET definitions) *)
PermCheck ==
  /\ pc = "permcheck"
  /\ IF \E m \in 1..Len(perms) : \E i \in 1..NA(inp) : perms[m][i] = 0
       THEN /\ pc' = "error" /\ result' = result
       ELSE /\ pc' = "done"
            /\ result' = [status |-> "built", p2s |-> p2s, s2p |-> s2p, perms |-> perms]
  /\ UNCHANGED <<inp, p2s, s2p, perms, kS, kP>>

Error ==
  /\ pc = "error"
  /\ result' = [status |-> "error"]
  /\ pc' = "done"
  /\ UNCHANGED <<inp, p2s, s2p, perms, kS, kP>>

PNext == Trim \/ MapIndices \/ TransPermutations \/ PermCheck \/ Error

(* ---- the requirement on a result record r (indices are 1-based atom numbers) ---------- *)
(* (x is always the current input inp; kS, kP are its atoms' class keys)                    *)
ReqP2S(x, r) ==
  /\ Len(r.p2s) * NCells(x) = NA(x)
  /\ \A i \in 1..Len(r.p2s) : r.p2s[i] \in 1..NA(x)
  /\ \A i, j \in 1..Len(r.p2s) : i # j => kP[r.p2s[i]] # kP[r.p2s[j]]

(* every supercell atom = its primitive atom + primitive lattice vector, same species *)
ReqS2P(x, r) ==
  /\ Len(r.s2p) = NA(x)
  /\ \A k \in 1..NA(x) :
       /\ \E i \in 1..Len(r.p2s) : r.p2s[i] = r.s2p[k]
       /\ x.atoms[r.s2p[k]].sp = x.atoms[k].sp
       /\ kP[k] = kP[r.s2p[k]]

(* the stored permutations are exactly the N pure translations of LP/LS *)
IsPerm(x, p) == /\ Len(p) = NA(x)
                /\ \A i \in 1..NA(x) : p[i] \in 1..NA(x)
                /\ Cardinality({p[i] : i \in 1..NA(x)}) = NA(x)
TransOf(x, p) == VSub(x.atoms[p[1]].u, x.atoms[1].u)
IsTranslation(x, p) ==
  LET t == TransOf(x, p) IN
  /\ KeyP(x, t) = ZeroKey
  /\ \A i \in 1..NA(x) : /\ KeyS(x, VAdd(x.atoms[i].u, t)) = kS[p[i]]
                         /\ x.atoms[p[i]].sp = x.atoms[i].sp
(* The stored permutations are N = |LP/LS| pairwise different pure translations of LP   *)
(* (different images of atom 1), each preserving species and sublattices.  Since LP/LS  *)
(* has exactly N elements they are ALL of its translations: hence a group (identity,    *)
(* closure, inverses) acting simply transitively on each sublattice.  The identity is   *)
(* checked directly as well.                                                            *)
ReqPerms(x, r) ==
  /\ Len(r.perms) = NCells(x)
  /\ \A m \in 1..Len(r.perms) : IsPerm(x, r.perms[m]) /\ IsTranslation(x, r.perms[m])
  /\ \A m, n \in 1..Len(r.perms) : m # n => r.perms[m][1] # r.perms[n][1]
  /\ \E m \in 1..Len(r.perms) : \A i \in 1..NA(x) : r.perms[m][i] = i
  /\ \A m \in 1..Len(r.perms) : \A i \in 1..NA(x) : r.s2p[r.perms[m][i]] = r.s2p[i]

RequirementP(x, r) == r.status = "built" => ReqP2S(x, r) /\ ReqS2P(x, r) /\ ReqPerms(x, r)
ReqAcceptsP(x, r) == Valid(x) => r.status = "built"
ReqRejectsP(x, r) == ~Valid(x) => r.status = "error"
=============================================================================
