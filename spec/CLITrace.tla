----------------------------- MODULE CLITrace -----------------------------
(* Conformance of phonopy's real settings pipeline with CLI.tla.            *)
(* One event = one configuration (command, items) with the results that     *)
(* the real PhonopyConfParser produced for every way of giving it:          *)
(*   runs = << [F |-> items in the file, O |-> items as options,            *)
(*              res |-> [st |-> "ok" | "EXC:..." | "EXIT:..", diff |-> map] ] >> *)
(* (harness/props/c18.py; diff = settings attributes that differ from the   *)
(* command's defaults, values as canonical tokens).                         *)
(*  - Impl* evaluate the requirement of C18 on the LOGGED results (a        *)
(*    failure is a property violation);                                     *)
(*  - Conforms* compare each logged result with the step machine of CLI.tla *)
(*    run on the same input (as built: two passes) - a failure with the     *)
(*    requirement intact is specification drift.                            *)
EXTENDS CLI

CONSTANT Events
VARIABLES ev, ri
tvars == <<vars, ev, ri>>

TInit == /\ ev \in Events /\ ri \in 1..Len(ev.runs)
         /\ case = [id |-> ev.id, cmd |-> ev.cmd, kind |-> ev.kind, F |-> ev.runs[ri].F, O |-> ev.runs[ri].O]
         /\ pc = "start" /\ confs = <<>> /\ params = Empty /\ settings = Empty
TNext == Next /\ UNCHANGED <<ev, ri>>
TSpec == TInit /\ [][TNext]_tvars

Runs == {ev.runs[i] : i \in 1..Len(ev.runs)}
Once == Done /\ ri = 1
UniformRun(r) == r.F = <<>> \/ r.O = <<>>
EvCase == [id |-> ev.id, cmd |-> ev.cmd, kind |-> ev.kind, F |-> ev.items, O |-> <<>>]
Ok(diff) == [st |-> "ok", diff |-> diff]
Eff(res) == [st |-> res.st, diff |-> Effective(res.diff)]

(* file route = option route (also every alternative spelling of the option) *)
ImplRoutesEquivalent ==
  (Once /\ ev.kind # "override") =>
     \A r1, r2 \in Runs : (UniformRun(r1) /\ UniformRun(r2)) => r1.res = r2.res

(* tag in the file and the same tag as option: the option alone *)
ImplOptionOverridesTag ==
  (Once /\ ev.kind = "override") =>
     \A r1, r2 \in Runs : (r1.O = r2.O) => Eff(r1.res) = Eff(r2.res)

(* compatible tags split between file and options *)
ImplMixedIndependent ==
  (Once /\ ev.kind \in {"pair", "triple"} /\ ~Exclusive(EvCase)) =>
     \A r1, r2 \in Runs : Eff(r1.res) = Eff(r2.res)

(* tags have the effect the table records for them (file route; merged flow); *)
(* TblDoc marks the rows that have a section in doc/setting-tags.md, the      *)
(* others are specified by the help string of their option                    *)
ImplTagSemantics ==
  (Once /\ ev.kind # "override") =>
     \A r \in Runs : (r.O = <<>>) => r.res = Ok(RunMerged(ev.cmd, r.F, <<>>))

(* no tags, no options: the documented defaults of the command *)
ImplDefaults ==
  (Once /\ ev.kind = "empty") => \A r \in Runs : r.res = Ok(Empty)

(* the logged result is what the machine produces: two passes as built, or   *)
(* the documented merged flow (after a repair of the front end)               *)
ConformsFlow ==
  Done => \/ ev.runs[ri].res = Ok(Result)
          \/ ev.runs[ri].res = Ok(RunMerged(ev.cmd, ev.runs[ri].F, ev.runs[ri].O))
ConformsBuilt == Done => ev.runs[ri].res = Ok(Result)
=============================================================================
