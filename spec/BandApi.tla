------------------------------ MODULE BandApi ------------------------------
(* X07(c): histories of band-structure calls on one Phonopy object.          *)
(*   set force constants | run_band_structure(cfg) | get_band_structure_dict *)
(*   | get_band_structure (deprecated 4-tuple) | write_yaml_band_structure   *)
(*   | write_hdf5_band_structure (+ reader of phonopy-bandplot)              *)
(*   | plot_band_structure                                                   *)
(*                                                                           *)
(* Requirement (docstrings): run_band_structure needs a dynamical matrix     *)
(* (RuntimeError otherwise, nothing changes); every getter / writer / plot   *)
(* refuses before the first successful run and afterwards answers from the   *)
(* LAST successful run: per-segment shapes, eigenvectors iff requested or    *)
(* band connection, group velocities iff requested; files carry the segment  *)
(* lengths and one label pair per segment when labels are in use; a plot has *)
(* one panel per disconnected run of segments (legacy: one panel), one tick  *)
(* per special point of the panel, labelled from the label list in order     *)
(* (empty strings when labels are not in use).                               *)
(* The requirement side looks the last successful run up in the history; the *)
(* machine carries the object state forward.                                 *)
EXTENDS Integers, Sequences, FiniteSets, TLC

(* the segment sets the harness realises (lengths, coinciding joints, the    *)
(* path_connections handed over when cfg.conn = "given")                     *)
SegTable == [A |-> [lens |-> <<3, 5>>, joint |-> <<TRUE>>, given |-> <<TRUE, FALSE>>],
             B |-> [lens |-> <<4>>, joint |-> <<>>, given |-> <<FALSE>>],
             C |-> [lens |-> <<2, 2, 2>>, joint |-> <<TRUE, FALSE>>, given |-> <<TRUE, FALSE, FALSE>>],
             D |-> [lens |-> <<3, 3>>, joint |-> <<FALSE>>, given |-> <<FALSE, FALSE>>]]
AllCfgs == [segs : {"A", "B", "C", "D"}, ev : BOOLEAN, gv : BOOLEAN, bc : BOOLEAN, legacy : BOOLEAN,
            lab : {"none", "ok", "more", "less"}, conn : {"none", "given"}]

RECURSIVE SumTo(_, _)
SumTo(f, n) == IF n = 0 THEN 0 ELSE f[n] + SumTo(f, n - 1)
Lens(c) == SegTable[c.segs].lens
NSeg(c) == Len(Lens(c))
Equal(c) == \A s \in 1..NSeg(c) : Lens(c)[s] = Lens(c)[1]
Conn(c) == IF c.conn = "given" THEN SegTable[c.segs].given ELSE [s \in 1..NSeg(c) |-> s < NSeg(c)]
Eff(c) == IF c.legacy THEN [s \in 1..NSeg(c) |-> TRUE] ELSE Conn(c)
Weight(c) == [s \in 1..NSeg(c) |-> IF Eff(c)[s] THEN 1 ELSE 2]
NWanted(c) == IF c.legacy THEN NSeg(c) + 1 ELSE SumTo(Weight(c), NSeg(c))
(* labels are handed over as 1..k; k = NWanted ("ok"), one more / one less otherwise *)
NGiven(c) == CASE c.lab = "none" -> 0 [] c.lab = "ok" -> NWanted(c) [] c.lab = "more" -> NWanted(c) + 1 [] c.lab = "less" -> NWanted(c) - 1
Labelled(c) == c.lab = "ok"
Idx(c, s) == 1 + SumTo(Weight(c), s - 1)
Pairs(c) == IF Labelled(c) THEN [s \in 1..NSeg(c) |-> <<Idx(c, s), Idx(c, s) + 1>>] ELSE <<>>
(* panels of the figure: runs of segments closed by a disconnected joint *)
RECURSIVE PanelsFrom(_, _, _)
PanelsFrom(c, s, start) ==
  IF s > NSeg(c) THEN <<>>
  ELSE IF ~ Conn(c)[s] \/ s = NSeg(c)
       THEN <<[k \in 1..(s - start + 2) |-> IF Labelled(c) THEN Idx(c, start) + k - 1 ELSE 0]>> \o PanelsFrom(c, s + 1, s + 1)
       ELSE PanelsFrom(c, s + 1, start)
Panels(c) == IF c.legacy THEN <<[k \in 1..(NSeg(c) + 1) |-> IF Labelled(c) THEN k ELSE 0]>> ELSE PanelsFrom(c, 1, 1)
(* what the bandplot reader makes of band.hdf5 (labels distinct, so unambiguous) *)
ReaderConn(c) == IF Labelled(c) THEN [s \in 1..NSeg(c) |-> s < NSeg(c) /\ Eff(c)[s]]
                 ELSE [s \in 1..NSeg(c) |-> s < NSeg(c) /\ SegTable[c.segs].joint[s]]
ReaderLabels(c) == IF Labelled(c) THEN [k \in 1..NWanted(c) |-> k] ELSE <<>>

Refuse == [kind |-> "RuntimeError"]
Raises == [kind |-> "raises"]
Answer(o, c) ==
  CASE o = "dict" -> [kind |-> "dict", segn |-> Lens(c), ev |-> c.ev \/ c.bc, gv |-> c.gv]
    [] o = "tuple" -> [kind |-> "tuple", segn |-> Lens(c), ev |-> c.ev \/ c.bc]
    [] o = "yaml" -> [kind |-> "yaml", segn |-> Lens(c), pairs |-> Pairs(c), ev |-> c.ev \/ c.bc, gv |-> c.gv]
    [] o = "h5" -> IF Equal(c) THEN [kind |-> "h5", segn |-> Lens(c), pairs |-> Pairs(c), ev |-> c.ev \/ c.bc, gv |-> c.gv,
                                      rlabels |-> ReaderLabels(c), rconn |-> ReaderConn(c)]
                   ELSE Raises       (* band.hdf5 stores rectangular arrays: segments of different lengths cannot be written *)
    [] o = "plot" -> [kind |-> "plot", panels |-> Panels(c)]

CONSTANTS Cfgs, Depth, Starts
Getters == {"dict", "tuple", "yaml", "h5", "plot"}
Ops == {[op |-> "setfc"]} \cup {[op |-> g] : g \in Getters} \cup {[op |-> "run", cfg |-> c] : c \in Cfgs}
VARIABLES hist, dm0, dm, bs, obs
vars == <<hist, dm0, dm, bs, obs>>
NoBs == [segs |-> "none"]

Init == hist = <<>> /\ dm0 \in Starts /\ dm = dm0 /\ bs = NoBs /\ obs = <<>>
Do(o) ==
  /\ hist' = Append(hist, o) /\ dm0' = dm0
  /\ CASE o.op = "setfc" -> dm' = TRUE /\ bs' = bs /\ obs' = Append(obs, [kind |-> "ok"])
       [] o.op = "run" -> IF dm THEN dm' = dm /\ bs' = o.cfg /\ obs' = Append(obs, [kind |-> "ok"])
                          ELSE dm' = dm /\ bs' = bs /\ obs' = Append(obs, Refuse)
       [] OTHER -> /\ dm' = dm /\ bs' = bs
                   /\ obs' = Append(obs, IF bs = NoBs THEN (IF o.op \in {"yaml", "h5"} THEN Raises ELSE Refuse) ELSE Answer(o.op, bs))
Next == Len(hist) < Depth /\ \E o \in Ops : Do(o)

(* ---- requirement: stated on the history ---- *)
(* a dynamical matrix exists after step i *)
RECURSIVE DmAt(_, _)
DmAt(h, i) == IF i = 0 THEN dm0 ELSE h[i].op = "setfc" \/ DmAt(h, i - 1)
(* the last successful run among the first i steps *)
RECURSIVE LastRun(_, _)
LastRun(h, i) == IF i = 0 THEN NoBs ELSE IF h[i].op = "run" /\ DmAt(h, i - 1) THEN h[i].cfg ELSE LastRun(h, i - 1)
InvAnswersFromLastRun ==
  \A i \in DOMAIN hist :
    /\ hist[i].op \in Getters =>
         obs[i] = (IF LastRun(hist, i - 1) = NoBs THEN (IF hist[i].op \in {"yaml", "h5"} THEN Raises ELSE Refuse)
                   ELSE Answer(hist[i].op, LastRun(hist, i - 1)))
    /\ hist[i].op = "run" => obs[i] = (IF DmAt(hist, i - 1) THEN [kind |-> "ok"] ELSE Refuse)
(* consequences of the definition *)
InvLabelBudget == hist = <<>> => \A c \in Cfgs : Labelled(c) => \A s \in 1..NSeg(c) : Idx(c, s) + 1 <= NWanted(c)
InvPanels == hist = <<>> => \A c \in Cfgs : /\ Len(Panels(c)) = (IF c.legacy THEN 1 ELSE Cardinality({s \in 1..NSeg(c) : ~ Conn(c)[s] \/ s = NSeg(c)}))
                             /\ SumTo([p \in DOMAIN Panels(c) |-> Len(Panels(c)[p])], Len(Panels(c))) = (IF c.legacy THEN NSeg(c) + 1 ELSE NSeg(c) + Len(Panels(c)))
Emit == Len(hist) = Depth => PrintT(ToString(<<"SES", dm0, hist, obs>>))
=============================================================================
