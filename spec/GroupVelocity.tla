---------------------------- MODULE GroupVelocity ----------------------------
(* C12, first half: the q-derivative of the dynamical matrix that phonopy    *)
(* uses for group velocities.                                                *)
(*                                                                           *)
(* Anchors: phonopy/harmonic/derivative_dynmat.py (_run_c, _run_py, _nac,    *)
(* _d_nac), c/derivative_dynmat.c (get_derivative_dynmat_at_q,               *)
(* get_derivative_nac), phonopy/phonon/group_velocity.py.                    *)
(*                                                                           *)
(* The dynamical matrix of the implementation is the lattice Fourier sum     *)
(*   D_ij(q) = Sum_k [Phi(i,k) + C_ij(q)/N] (1/m_ik) Sum_{r in sv(i,k)}      *)
(*             exp(2 pi i q.r) / sqrt(m_i m_j)                                *)
(* over the supercell atoms k of sublattice j, where sv(i,k) is the set of   *)
(* shortest vectors from atom i to the periodic images of atom k (m_ik of    *)
(* them) and C_ij(q) = (4 pi f/V) K_ij(q) the Wang term (absent without      *)
(* NAC).  Its derivative with respect to the reduced coordinate q_b is, term *)
(* by term,                                                                  *)
(*   dD_ij/dq_b = Sum_k { [Phi + C/N] (1/m) Sum_r (2 pi i r_b) e^{..}         *)
(*                        + (dC_ij/dq_b / N) (1/m) Sum_r e^{..} } / sqrt(mm). *)
(* Exact in TLA+: the supercell, the sets sv(i,k) (by definition: the images *)
(* of minimal length), the rational matrices K(q) and dK/dq_b.  The          *)
(* exponentials, the real lattice and the masses are applied by the harness. *)
(*                                                                           *)
(* K(n) = P(n) c1 / (zden^2 Q(n)),  P_jj'(n) = v_j v_j'^T, v_j = Zh_j^T n,    *)
(* Q(n) = n^T Cc n  (NACOps).  P and Q are quadratic forms in n, so their    *)
(* derivative BY DEFINITION is the central difference with step 1:           *)
(*     d_b F(n) = (F(n + e_b) - F(n - e_b)) / 2        (exact for quadratics) *)
(* and d_b (P/Q) = (d_b P Q - P d_b Q) / Q^2.  The implementation instead     *)
(* uses  da = Z[b][.], dc = 2 (eps q)_b  (get_dA, get_dC); CodeDK transcribes *)
(* that and ReqQuotientRule compares the two.                                *)
EXTENDS NACOps

CONSTANTS Cfgs,
          Cells     \* set of [build, openmp, via, ddm, gv] recorded from the implementation ({} in model runs), see CellsExercised
(* A configuration:  id, entry, S (supercell matrix), box,                   *)
(*   nac  : BOOLEAN; Z : Born charges per atom (mixed lattice components,    *)
(*          already symmetric under the space group, summing to zero),      *)
(*          zden; C : dielectric tensor (contravariant, symmetric), cden     *)
(*   pts  : set of integer vectors x; the q-points are x / pden              *)

VARIABLES pc,      \* "choose" | "built" | "at"
          cfg, cr,
          atoms,   \* supercell atoms <<[a, u]>> (SupercellAtoms)
          sv,      \* sv[<<i, k>>] : set of shortest vectors (numerators over D) from unit atom i to images of supercell atom k
          cents,   \* centring translations of the unit cell (numerators over D): the primitive cell has |cents| times fewer atoms
          dir,     \* direction along which the zone centre is approached (Zero3 when the point is not the zone centre)
          x,       \* current point (numerators over cfg.pden)
          K,       \* K(x)   [P, c1, c2]        (NACOps!KofN)
          dK       \* dK/dn_b (x), b = 1..3:  [dP |-> [b -> [j -> [j' -> Mat]]], c1, c2]  value = dP c1 / c2

vars == <<pc, cfg, cr, atoms, sv, cents, dir, x, K, dK>>

E3(b) == [i \in I3 |-> IF i = b THEN 1 ELSE 0]

-----------------------------------------------------------------------------
(* supercell atoms: every unit atom displaced by one lattice vector per class *)
(* modulo the supercell lattice, the representative being a shortest one      *)
NearReps(c, S, b) ==
  LET key == Materialize([t \in Box(b) |-> ClassKey(S, 1, t)])
      len == Materialize([t \in Box(b) |-> QForm(c.G, t)])
      keys == {key[t] : t \in Box(b)}
  IN  {CHOOSE t \in Box(b) : key[t] = k /\ \A t2 \in Box(b) : key[t2] = k => len[t] <= len[t2] : k \in keys}

NearAtoms(c, S, b) ==
  LET reps == SetToSeq(NearReps(c, S, b))
      nr == Len(reps)
  IN  [k \in 1..(NAtoms(c) * nr) |->
         [a |-> ((k - 1) \div nr) + 1, u |-> VAddS(Num(c, ((k - 1) \div nr) + 1), VScaleS(c.D, reps[((k - 1) % nr) + 1]))]]

(* shortest vectors, by definition *)
Images(c, S, d, b) == {VAddS(d, VScaleS(c.D, MatVecS(S, t))) : t \in Box(b)}
ShortestOf(c, im) ==
  LET best == MinOf({QForm(c.G, y) : y \in im}) IN {y \in im : QForm(c.G, y) = best}
Shortest(c, S, d, b) == ShortestOf(c, Images(c, S, d, b))

ShortestTable(c, S, ats, b) ==
  Materialize([p \in (1..NAtoms(c)) \X (1..Len(ats)) |-> Shortest(c, S, VSubS(ats[p[2]].u, Num(c, p[1])), b)])

-----------------------------------------------------------------------------
(* derivative of K *)
ZRec(g) == [num |-> g.Z, den |-> g.zden]
ERec(g) == [num |-> g.C, den |-> g.cden]

PofN(c, z, nn, j, jp) == OuterS(VecOf(z, j, nn), VecOf(z, jp, nn))

(* definition: central difference of the quadratic forms *)
HalfM(M) == [i \in I3 |-> [k \in I3 |-> M[i][k] \div 2]]
DefDP(c, z, nn, b, j, jp) ==
  TM(HalfM(MAddS(PofN(c, z, VAddS(nn, E3(b)), j, jp), MScaleS(-1, PofN(c, z, VSubS(nn, E3(b)), j, jp)))))
DefDQ(e, nn, b) == (Qn(e, VAddS(nn, E3(b))) - Qn(e, VSubS(nn, E3(b)))) \div 2
EvenDifferences(c, z, e, nn) ==
  \A b \in I3 :
    /\ (Qn(e, VAddS(nn, E3(b))) - Qn(e, VSubS(nn, E3(b)))) % 2 = 0
    /\ \A j, jp \in 1..NAtoms(c) : \A i, k \in I3 :
         (PofN(c, z, VAddS(nn, E3(b)), j, jp)[i][k] - PofN(c, z, VSubS(nn, E3(b)), j, jp)[i][k]) % 2 = 0

(* numerator of d_b (P/Q) over Q^2 *)
QuotNum(Pm, dPm, Q, dQ) == TM(MAddS(MScaleS(Q, dPm), MScaleS(-dQ, Pm)))

DefDK(c, z, e, nn) ==
  LET nat == NAtoms(c)
      Q == Qn(e, nn)
  IN  [dP |-> [b \in I3 |-> [j \in 1..nat |-> [jp \in 1..nat |->
                 QuotNum(PofN(c, z, nn, j, jp), DefDP(c, z, nn, b, j, jp), Q, DefDQ(e, nn, b))]]],
       c1 |-> e.den, c2 |-> z.den * z.den * Q * Q]

(* transcription of get_derivative_nac / _d_nac:                              *)
(*   a = (q.Z_i)_l, da = Z_i[b][l], c = q.eps.q, dc = 2 (eps q)_b              *)
(*   ddnac = (da b' + db' a - a b' dc / c) / c                                  *)
CodeDK(c, z, e, nn) ==
  LET nat == NAtoms(c)
      Q == Qn(e, nn)
      v == Materialize([j \in 1..nat |-> VecOf(z, j, nn)])
      dv(j, b) == TV(z.num[j][b])                                  \* row b of Zh_j
      dQ(b) == 2 * MatVecS(e.num, nn)[b]
  IN  [dP |-> [b \in I3 |-> [j \in 1..nat |-> [jp \in 1..nat |->
                 TM([l \in I3 |-> [m \in I3 |->
                      (dv(j, b)[l] * v[jp][m] + dv(jp, b)[m] * v[j][l]) * Q - v[j][l] * v[jp][m] * dQ(b)]])]]],
       c1 |-> e.den, c2 |-> z.den * z.den * Q * Q]

-----------------------------------------------------------------------------
NoK == [P |-> <<>>, c1 |-> 1, c2 |-> 1]
NoDK == [dP |-> <<>>, c1 |-> 1, c2 |-> 1]

Init ==
  /\ pc = "choose" /\ cfg = [id |-> 0] /\ cr = <<>> /\ atoms = <<>> /\ sv = <<>> /\ cents = {}
  /\ dir = Zero3 /\ x = Zero3 /\ K = NoK /\ dK = NoDK

(* the dynamical-matrix object is built: supercell, shortest vectors *)
BuildWith(g) ==
  /\ pc = "choose"
  /\ LET c == Strip(EntryOf(g.entry))
         ats == NearAtoms(c, g.S, g.box)
     IN  /\ cr' = c /\ atoms' = ats
         /\ sv' = ShortestTable(c, g.S, ats, g.box)
         /\ cents' = {p[2] : p \in {p \in AutFast(c) : p[1] = Id3}}
  /\ cfg' = g
  /\ pc' = "built"
  /\ UNCHANGED <<dir, x, K, dK>>

Build == \E g \in Cfgs : BuildWith(g)

(* DerivativeOfDynamicalMatrix.run(q) at q = y / pden *)
DifferentiateWith(y) ==
  /\ pc = "built"
  /\ x' = y
  /\ IF cfg.nac /\ y # Zero3
       THEN /\ K' = KofN(cr, ZRec(cfg), ERec(cfg), y)
            /\ dK' = CodeDK(cr, ZRec(cfg), ERec(cfg), y)
       ELSE /\ K' = NoK /\ dK' = NoDK
  /\ dir' = Zero3
  /\ pc' = "at"
  /\ UNCHANGED <<cfg, cr, atoms, sv, cents>>

Differentiate == pc = "built" /\ \E y \in cfg.pts : DifferentiateWith(y)

(* the zone centre approached along d (run_qpoints(nac_q_direction=d), GroupVelocity.run(perturbation=d)):  *)
(* D(t d) = D_plain(t d) + (4 pi f/V) K(d) for every t > 0, because K is homogeneous of degree 0; the slope  *)
(* of the spectrum along d is that of D_plain with K(d) held fixed (ReqEulerGamma: d . grad K (d) = 0)       *)
GammaAlongWith(d) ==
  /\ pc = "built" /\ cfg.nac
  /\ x' = Zero3 /\ dir' = d
  /\ K' = KofN(cr, ZRec(cfg), ERec(cfg), d)
  /\ dK' = CodeDK(cr, ZRec(cfg), ERec(cfg), d)
  /\ pc' = "gamma"
  /\ UNCHANGED <<cfg, cr, atoms, sv, cents>>

GammaAlong == pc = "built" /\ cfg.nac /\ \E d \in cfg.dirs : GammaAlongWith(d)

Next == Build \/ Differentiate \/ GammaAlong
Spec == Init /\ [][Next]_vars

-----------------------------------------------------------------------------
TypeOK == pc \in {"choose", "built", "at", "gamma"}

(* the primitive cell phonopy is given has |cents| times fewer atoms than the unit cell *)
PreCentringGroup ==
  pc = "built" => /\ Zero3 \in cents
                  /\ NAtoms(cr) % Cardinality(cents) = 0
                  /\ Cardinality(cents) = cfg.ncent
ReqEulerGamma ==
  pc = "gamma" =>
     /\ Qn(ERec(cfg), dir) > 0
     /\ \A j, jp \in 1..NAtoms(cr) : \A l, m \in I3 :
           dir[1] * dK.dP[1][j][jp][l][m] + dir[2] * dK.dP[2][j][jp][l][m] + dir[3] * dK.dP[3][j][jp][l][m] = 0

(* the supercell is complete and the search box for images was large enough *)
PreSupercellComplete == pc = "built" => Len(atoms) = NAtoms(cr) * Abs(Det(cfg.S)) /\ RepsComplete(cfg.S, cfg.box)
PreShortestStable ==
  pc = "built" =>
     \A p \in DOMAIN sv :
        sv[p] = Shortest(cr, cfg.S, VSubS(atoms[p[2]].u, Num(cr, p[1])), cfg.box + 1)

(* every shortest vector is an image of the pair it belongs to *)
ReqShortestIsImage ==
  pc = "built" =>
     \A p \in DOMAIN sv : sv[p] # {} /\
        \A y \in sv[p] : SameClass(cfg.S, cr.D, y, VSubS(atoms[p[2]].u, Num(cr, p[1])))
(* reversal: the vectors from the atom of k back to the image of i are the negatives; *)
(* with permutation-symmetric force constants this makes D(q) and every dD/dq_b       *)
(* Hermitian                                                                          *)
ReqShortestReversal ==
  pc = "built" =>
     \A p \in DOMAIN sv :
        LET i == p[1]
            k == p[2]
            j == atoms[k].a
            back == VSubS(VAddS(Num(cr, i), Num(cr, j)), atoms[k].u)     \* position of the image of i seen from cell 0 of j
            kk == CHOOSE k2 \in 1..Len(atoms) : atoms[k2].a = i /\ SameClass(cfg.S, cr.D, atoms[k2].u, back)
        IN  sv[<<j, kk>>] = {VScaleS(-1, y) : y \in sv[p]}

(* the supercell lattice is invariant under the point group of the crystal:   *)
(* only then do supercell force constants (sums over periodic images) have    *)
(* the symmetry of the primitive cell, which phonopy assumes when it          *)
(* symmetrises group velocities with the primitive cell's point group         *)
PreSupercellKeepsPointGroup ==
  pc = "built" =>
     \A p \in AutFast(cr) : \A k \in I3 :
        SameClass(cfg.S, 1, MatVecS(p[1], Col3(cfg.S, k)), Zero3)

(* hypotheses on the tensors handed in *)
PreTensorsSymmetric ==
  (pc = "built" /\ cfg.nac) =>
     LET c == cr
         au == AutFast(c)
         pr == PreTable(c, au)
     IN  /\ BornInvariant(c, au, pr, ZRec(cfg))
         /\ EpsInvariant(au, ERec(cfg))
         /\ BornASR(c, ZRec(cfg))
         /\ cfg.C = TransposeS(cfg.C)
PreDenominator == (pc = "at" /\ cfg.nac /\ x # Zero3) => Qn(ERec(cfg), x) > 0 /\ EvenDifferences(cr, ZRec(cfg), ERec(cfg), x)

(* the derivative the code computes is the derivative *)
ReqQuotientRule ==
  (pc = "at" /\ cfg.nac /\ x # Zero3) => dK.dP = DefDK(cr, ZRec(cfg), ERec(cfg), x).dP
(* K is homogeneous of degree 0, hence  Sum_b n_b dK/dn_b = 0  (Euler) *)
ReqEuler ==
  (pc = "at" /\ cfg.nac /\ x # Zero3) =>
     \A j, jp \in 1..NAtoms(cr) : \A l, m \in I3 :
        x[1] * dK.dP[1][j][jp][l][m] + x[2] * dK.dP[2][j][jp][l][m] + x[3] * dK.dP[3][j][jp][l][m] = 0
(* dK_{j'j} = dK_{jj'}^T *)
ReqDKSymmetric ==
  (pc = "at" /\ cfg.nac /\ x # Zero3) =>
     \A b \in I3 : \A j, jp \in 1..NAtoms(cr) : dK.dP[b][jp][j] = TransposeS(dK.dP[b][j][jp])
-----------------------------------------------------------------------------
(* The compiled derivative kernel has two loops over atom pairs (c/derivative_dynmat.c: an OpenMP loop and a     *)
(* serial loop, chosen by the use_openmp flag of the dynamical-matrix object), in two builds of the extension   *)
(* (with and without OpenMP).  Every cell of                                                                    *)
(*     build in {"omp", "serial"}  x  via in {"phonopy" (flag = build's use_openmp()), "direct" (object from     *)
(*     get_dynamical_matrix, flag False (its default) and True)}                                                 *)
(* must be exercised, and in every cell dD/dq is the term-wise derivative of the lattice Fourier sum of this     *)
(* specification (ddm) and the group velocity is <e|dD/dq|e> factor^2/2f (gv).                                    *)
CellKeys ==
  {<<b, "phonopy", b = "omp">> : b \in {"omp", "serial"}} \cup
  {<<b, "direct", f>> : b \in {"omp", "serial"}, f \in BOOLEAN}
CellsExercised == Cells = {} \/ \A k \in CellKeys : \E c \in Cells : <<c.build, c.via, c.openmp>> = k
ImplCells == \A c \in Cells : c.ddm /\ c.gv
InvCells == pc = pc => (CellsExercised /\ ImplCells)
=============================================================================
