------------------------------ MODULE Unfolding ------------------------------
(* Band unfolding of phonopy (unfolding/core.py: Unfolding) for a supercell    *)
(* that is an exact repetition of a primitive crystal, as a step machine, and  *)
(* the requirement X02(a) states about it.                                     *)
(*                                                                             *)
(* Abstract state.  S: supercell matrix (COLUMNS = supercell lattice vectors   *)
(* in primitive coordinates), N = |det S|; an atomic site is [a, l]: atom a of *)
(* the primitive cell displaced by the lattice vector l (primitive             *)
(* coordinates), sites are identified modulo S Z^3.  A wave vector q of the    *)
(* primitive zone is characterised by m = rint(q S): the supercell wave vector *)
(* is K = q S - m, and the eigenvectors of the supercell at K do not carry the *)
(* phase exp(2 pi i K.r), so the mode that folds from q + G0 has components    *)
(*       e(a, l) = c_a exp(2 pi i (G + G0).l),    G = m S^-1  (mod 1).          *)
(* Steps of the code:                                                          *)
(*   Choose          - input (S, atoms per primitive cell, m)                  *)
(*   SetTranslations - _set_translations: the N primitive translations         *)
(*   SetIndexMap     - _set_index_map: for every translation t the permutation *)
(*                     site j -> site at (position_j - t)                      *)
(*   CommPoints      - get_commensurate_points                                 *)
(*   FindG           - the search `k = G + K` in _get_unfolding_weights        *)
(*   Project         - Eq. (7): e <- (1/N) sum_t exp(2 pi i G.t) e[T_t^-1 .],   *)
(*                     weight = |e|^2, applied to the model eigenvectors of     *)
(*                     every fold label G0 (c_a = 1)                           *)
(* Characters are exact (Phases12) when the group exponent divides 12; E12 =   *)
(* 2 exp(i theta), so amplitudes carry powers of two noted at each formula.    *)
EXTENDS Phases12

CONSTANTS SSpace, NAs, MSpace

VARIABLES pc, S, na, m, trans, sites, imap, comm, gidx, wts
vars == <<pc, S, na, m, trans, sites, imap, comm, gidx, wts>>

SetToSeq(T) == LET RECURSIVE F(_)
                   F(R) == IF R = {} THEN <<>> ELSE LET x == CHOOSE x \in R : TRUE IN <<x>> \o F(R \ {x})
               IN F(T)

SitesOf(tr, k) == [j \in 1..(k * Len(tr)) |-> [a |-> ((j - 1) \div Len(tr)) + 1, l |-> tr[((j - 1) % Len(tr)) + 1]]]

(* N G for G = m S^-1 (row vector) *)
GOf(M, mm) == ModV(VScale(Sign(Det(M)), VecMat(mm, Adj(M))), NN(M))

(* _set_index_map: row i, column j -> the site with the same atom at l_j - t_i *)
IndexMap(M, tr, st) ==
  [i \in 1..Len(tr) |-> [j \in 1..Len(st) |->
     CHOOSE k \in 1..Len(st) : st[k].a = st[j].a /\ SameL(M, st[k].l, VSub(st[j].l, tr[i]))]]

Exponent12(M, ps, ls) == \A p \in ps : \A l \in ls : TwelfthOK(p, l, NN(M))

(* 2N (P_G e)(j) for a vector e given as a function of the site index *)
RECURSIVE ProjSum(_, _, _, _, _, _, _)
ProjSum(i, j, pg, tr, im, e, n) ==
  IF i > Len(tr) THEN CZero
  ELSE CAdd(CMul(E12(Twelfth(pg, tr[i], n)), e[im[i][j]]), ProjSum(i + 1, j, pg, tr, im, e, n))

RECURSIVE WeightSum(_, _, _, _, _, _)
WeightSum(j, pg, tr, im, e, n) ==        \* sum_j |2N (P_G e)(j)|^2, an element of Z[sqrt 3]
  IF j > Len(im[1]) THEN ZZero
  ELSE LET x == ProjSum(1, j, pg, tr, im, e, n)
       IN ZAdd(CMul(x, CConj(x))[1], WeightSum(j + 1, pg, tr, im, e, n))

RECURSIVE Norm2(_, _)
Norm2(j, e) == IF j > Len(e) THEN ZZero ELSE ZAdd(CMul(e[j], CConj(e[j]))[1], Norm2(j + 1, e))

(* model eigenvector (x2) that folds from q + G0, and a degenerate mixture 3 e1 + 4 e2 *)
ModelVec(pg, p0, st, n) == Materialize([j \in 1..Len(st) |-> E12(Twelfth(VAdd(pg, p0), st[j].l, n))])
Mixture(e1, e2) == Materialize([j \in 1..Len(e1) |-> CAdd(CScale(3, e1[j]), CScale(4, e2[j]))])

-----------------------------------------------------------------------------
Init == /\ pc = "choose" /\ S = Id3 /\ na = 1 /\ m = Zero3 /\ trans = <<>> /\ sites = <<>> /\ imap = <<>>
        /\ comm = <<>> /\ gidx = 0 /\ wts = <<>>

ChooseWith(M, k, mm) ==
  /\ pc = "choose" /\ Det(M) # 0
  /\ S' = M /\ na' = k /\ m' = mm
  /\ pc' = "trans"
  /\ UNCHANGED <<trans, sites, imap, comm, gidx, wts>>
Choose == \E M \in SSpace, k \in NAs, mm \in MSpace : ChooseWith(M, k, mm)

(* the order of translations and sites is the implementation's choice; the contract is checked *)
TransContract(M, tr) ==
  /\ Len(tr) = NN(M)
  /\ \A x, y \in 1..Len(tr) : x # y => ~SameL(M, tr[x], tr[y])
SitesContract(M, k, st) ==
  /\ Len(st) = k * NN(M)
  /\ \A a \in 1..k : Cardinality({LKey(M, st[j].l) : j \in {j \in 1..Len(st) : st[j].a = a}}) = NN(M)
  /\ \A j \in 1..Len(st) : st[j].a \in 1..k

SetTranslationsWith(tr, st) ==
  /\ pc = "trans"
  /\ TransContract(S, tr) /\ SitesContract(S, na, st)
  /\ trans' = tr /\ sites' = st
  /\ pc' = "imap"
  /\ UNCHANGED <<S, na, m, imap, comm, gidx, wts>>
SetTranslations == LET tr == SetToSeq(LatticeSites(S)) IN SetTranslationsWith(tr, SitesOf(tr, na))

SetIndexMap ==
  /\ pc = "imap"
  /\ imap' = IndexMap(S, trans, sites)
  /\ pc' = "comm"
  /\ UNCHANGED <<S, na, m, trans, sites, comm, gidx, wts>>

CommPointsWith(cp) ==
  /\ pc = "comm"
  /\ Len(cp) = NN(S) /\ Injective(cp) /\ Range(cp) = CommSet(S)
  /\ comm' = cp
  /\ pc' = "findg"
  /\ UNCHANGED <<S, na, m, trans, sites, imap, gidx, wts>>
CommPoints == CommPointsWith(SetToSeq(CommSet(S)))

FindG ==
  /\ pc = "findg"
  /\ LET hits == {i \in 1..Len(comm) : comm[i] = GOf(S, m)}
     IN gidx' = IF hits = {} THEN 0 ELSE MinOf(hits)
  /\ pc' = "project"
  /\ UNCHANGED <<S, na, m, trans, sites, imap, comm, wts>>

Project ==
  /\ pc = "project"
  /\ LET n == NN(S)
         pg == comm[gidx]
     IN wts' = IF gidx > 0 /\ Exponent12(S, Range(comm), Range(trans))
               THEN [g0 \in 1..Len(comm) |-> WeightSum(1, pg, trans, imap, ModelVec(pg, comm[g0], sites, n), n)]
               ELSE <<>>
  /\ pc' = "done"
  /\ UNCHANGED <<S, na, m, trans, sites, imap, comm, gidx>>

Next == Choose \/ SetTranslations \/ SetIndexMap \/ CommPoints \/ FindG \/ Project
Spec == Init /\ [][Next]_vars

-----------------------------------------------------------------------------
(* Requirement, stated on any (M, translations, sites, index map, commensurate points) *)
ReqIndexMap(M, tr, st, im) ==
  /\ Len(im) = Len(tr)
  /\ \A i \in 1..Len(tr) :
       /\ Len(im[i]) = Len(st)
       /\ \A j \in 1..Len(st) : /\ im[i][j] \in 1..Len(st)
                                /\ st[im[i][j]].a = st[j].a
                                /\ SameL(M, st[im[i][j]].l, VSub(st[j].l, tr[i]))
       /\ \A j, k \in 1..Len(st) : j # k => im[i][j] # im[i][k]            \* a permutation

(* character orthogonality and completeness on Z^3 / M Z^3 (x4: E12 = 2 exp) *)
RECURSIVE CharSumT(_, _, _, _, _)
CharSumT(i, tr, p1, p2, n) ==
  IF i > Len(tr) THEN CZero
  ELSE CAdd(CMul(E12(Twelfth(p1, tr[i], n)), CConj(E12(Twelfth(p2, tr[i], n)))), CharSumT(i + 1, tr, p1, p2, n))
RECURSIVE CharSumG(_, _, _, _)
CharSumG(i, cp, t, n) ==
  IF i > Len(cp) THEN CZero ELSE CAdd(E12(Twelfth(cp[i], t, n)), CharSumG(i + 1, cp, t, n))

ReqOrthogonality(M, tr, cp) ==
  Exponent12(M, Range(cp), Range(tr)) =>
    /\ \A x, y \in 1..Len(cp) : CharSumT(1, tr, cp[x], cp[y], NN(M)) = IF x = y THEN CInt(4 * NN(M)) ELSE CZero
    /\ \A i, k \in 1..Len(tr) : CharSumG(1, cp, VSub(tr[i], tr[k]), NN(M)) = IF i = k THEN CInt(2 * NN(M)) ELSE CZero

(* weights of the model modes: 1 on the fold label G0 = 0, 0 otherwise (x 16 N^2 sites) *)
ReqWeights(M, cp, st, w) ==
  w # <<>> => \A g0 \in 1..Len(cp) :
       w[g0] = IF cp[g0] = Zero3 THEN <<16 * NN(M) * NN(M) * Len(st), 0>> ELSE ZZero

(* sum rule: for ANY vector the weights over all G add up to its norm (here: model vectors and *)
(* a 3:4 mixture of two fold labels, as produced by degenerate eigen-solvers), none negative   *)
RECURSIVE SumOverG(_, _, _, _, _, _)
SumOverG(i, cp, tr, im, e, n) ==
  IF i > Len(cp) THEN ZZero ELSE ZAdd(WeightSum(1, cp[i], tr, im, e, n), SumOverG(i + 1, cp, tr, im, e, n))

ReqSumRule(M, tr, st, im, cp) ==
  (Exponent12(M, Range(cp), Range(tr)) /\ Len(cp) >= 2) =>
    LET n == NN(M)
        e1 == ModelVec(Zero3, cp[1], st, n)
        e2 == ModelVec(Zero3, cp[Len(cp)], st, n)
        mix == Mixture(e1, e2)
    IN /\ SumOverG(1, cp, tr, im, mix, n) = ZScale(4 * n * n, Norm2(1, mix))
       /\ WeightSum(1, cp[1], tr, im, mix, n) = ZScale(4 * n * n * 9, Norm2(1, e1))
       /\ WeightSum(1, cp[Len(cp)], tr, im, mix, n) = ZScale(4 * n * n * 16, Norm2(1, e2))

Done == pc = "done"
TypeOK == pc \in {"choose", "trans", "imap", "comm", "findg", "project", "done"}
InvIndexMap == Done => ReqIndexMap(S, trans, sites, imap)
InvOrthogonality == Done => ReqOrthogonality(S, trans, comm)
InvGFound == Done => gidx > 0 /\ \A j \in I3 : Dot(comm[gidx], Col(S, j)) % NN(S) = 0
InvWeights == Done => ReqWeights(S, comm, sites, wts)
InvSumRule == Done => ReqSumRule(S, trans, sites, imap, comm)
=============================================================================
