--------------------------- MODULE MeshGridTrace ---------------------------
(* Conformance of the real grids with MeshGrid.tla.                          *)
(* Every event is one construction of a sampling mesh by the real code       *)
(* (harness/props/c09.py): a direct GridPoints(...) call (level "grid") or   *)
(* Phonopy.init_mesh(...) (level "api", the GridPoints arguments captured    *)
(* at the call inside MeshBase).  Logged fields:                             *)
(*   cfg      the configuration as handed to the real call                   *)
(*   crystal  catalogue entry whose exact point group (GroupTable[crystal],  *)
(*            computed by TLC in MeshGroups) the rotations belong to         *)
(*   full     TRUE when the rotations are claimed to be that whole group     *)
(*   passed   (api) arguments GridPoints received: mesh, gamma, tr, sym, rots *)
(*   isShift  GridPoints._is_shift                                           *)
(*   res      projected result: addr, map, ir, weights, qx, exact            *)
(* The machine is run on the event's configuration.  At the end              *)
(*   Impl*      evaluate the REQUIREMENT of C09 on the logged result         *)
(*              (a failure is a property violation);                        *)
(*   Conforms*  compare the logged values with the machine's (a failure      *)
(*              with the requirement intact is specification drift);        *)
(*   Event*     well-formedness of the event itself (harness machinery).     *)
EXTENDS MeshGrid

CONSTANT Events    \* set of event records

VARIABLE ev
tvars == <<vars, ev>>
E == ev

TInit == Init /\ ev \in Events

TChoose == pc = "choose" /\ Start(E.cfg)

(* the logged table is bound; whether it is the table the machine produces is  *)
(* judged by the characterisation (ConformsMap)                                *)
TReduce == ReduceWith(E.res.map)

TNext == (TChoose \/ LengthToMesh \/ InitMesh \/ Shift2Boolean \/ HasMeshSymmetry \/ TReduce \/ ExtractIr)
         /\ UNCHANGED ev
TSpec == TInit /\ [][TNext]_tvars

C == E.cfg
RM == ReqMesh(E.cfg)
(* once the logged mesh numbers are known to be the requested ones they are used as such: *)
(* TLC re-evaluates RM at every use, and for a length it is a search through the group   *)
EM == E.mesh
Generic == \E k \in I3 : (2 * C.sn[k]) % C.sd # 0

(* ---- event well-formedness (machinery) *)
EventRotsInCrystalGroup ==
  (AtEnd /\ E.crystal # "") =>
     /\ Rots(C) \subseteq GroupTable[E.crystal]
     /\ (E.full => Rots(C) = GroupTable[E.crystal])

(* a boundary-length event (bnd.k > 0): the raw numbers the harness evaluated from the real   *)
(* (strained) lattice are the ones the specification predicts for that case                  *)
EventBoundaryRaw ==
  (AtEnd /\ E.bnd.k > 0) =>
     /\ C.len
     /\ C.mesh[E.bnd.j] = BoundaryRaw(E.bnd).strained
     /\ C.mesh[E.bnd.p] = BoundaryRaw(E.bnd).nominal
     /\ AxisEquiv(Rots(C), E.bnd.j, E.bnd.p)

(* ---- handed-out q-points lie in the first Brillouin zone (fit_in_BZ, the default) ------------- *)
(* E.bz = [on, G, D, B, qv]: G an integer multiple of the Gram matrix of the reciprocal basis   *)
(* (exact: Adj of the catalogue crystal's Gram matrix), qv[k] the handed-out q-point k times D   *)
(* (NOT reduced modulo D).  As in BZReloc.tla (X01): q is a shortest member of its class q + G   *)
(* in Cartesian reciprocal space, up to the tolerance the relocation routines document           *)
(* (0.01 min |b_i / m_i|^2 for the grid relocation of spglib, 0.01 min |b_i|^2 for phonopy's      *)
(* get_qpoints_in_Brillouin_zone used with generic shifts); ties are allowed.  With y = G q:      *)
(*   |q + n|^2 - |q|^2 = (2 y.n + D n^T G n) / D   (in units of 1/D).                             *)
BzBox(B) == {<<n1, n2, n3>> : n1 \in -B..B, n2 \in -B..B, n3 \in -B..B}
BzTolOK(gain, G, D, m) ==
  (* gain = D (|q|^2 - |q + n|^2) >= 0 in units of 1/D^2 *)
  IF Generic THEN 100 * gain < MinOf({G[1][1], G[2][2], G[3][3]}) * D
             ELSE \A i \in I3 : 100 * gain * m[i] * m[i] < G[i][i] * D
ReqQInFirstZone(bz, m) ==
  LET box == BzBox(bz.B)
      qn == Materialize([n \in box |-> bz.D * QForm(bz.G, n)])
  IN  \A k \in 1..Len(bz.qv) :
         LET y == MatVec(bz.G, bz.qv[k])
         IN  \A n \in box : LET gain == -(2 * Dot(y, n) + qn[n]) IN gain <= 0 \/ BzTolOK(gain, bz.G, bz.D, m)
ImplQInFirstZone == (AtEnd /\ E.bz.on) => ReqQInFirstZone(E.bz, E.mesh)
(* the handed-out points are the logged qx modulo reciprocal lattice vectors *)
ImplQvCongruent ==
  (AtEnd /\ E.bz.on /\ Len(E.bz.qv) = Len(E.res.qx)) =>
     LET q == QMod(C, E.mesh)
     IN  \A k \in 1..Len(E.bz.qv) :
            \A i \in I3 : (E.bz.qv[k][i] * (q \div E.bz.D)) % q = E.res.qx[k][i]
(* machinery: no translate outside the box is shorter than the handed-out point (Cauchy-Schwarz    *)
(* bound of ShortestVectors.tla / BZReloc.tla), so the box decides                                 *)
EventBzBoxSound ==
  (AtEnd /\ E.bz.on) =>
     /\ QMod(C, E.mesh) % E.bz.D = 0
     /\ \A k \in 1..Len(E.bz.qv) : \A i \in I3 :
           LET w == E.bz.D * (E.bz.B + 1) - Abs(E.bz.qv[k][i])
           IN  w > 0 /\ w * w * Det(E.bz.G) > QForm(E.bz.G, E.bz.qv[k]) * Adj(E.bz.G)[i][i]

(* ---- requirement on the logged result *)
ImplMeshIsRequested == AtEnd => E.mesh = RM
(* length-specified mesh: equivalent axes carry equal numbers, with mesh symmetry on and off *)
ImplEquivalentAxesEqual == AtEnd => ReqEquivalentAxesEqual(C, E.mesh)
ImplGridComplete == AtEnd /\ E.mesh = RM => ReqGridComplete(C, EM, E.res)
ImplMapWellFormed == AtEnd /\ E.mesh = RM => ReqMapWellFormed(C, EM, E.res)
Ready == AtEnd /\ E.mesh = RM /\ ReqGridComplete(C, EM, E.res) /\ ReqMapWellFormed(C, EM, E.res)
ImplEveryPointIsImageHalf == Ready /\ ~Generic => ReqEveryPointIsImage(C, EM, E.res)
ImplEveryPointIsImageGeneric == Ready /\ Generic => ReqEveryPointIsImage(C, EM, E.res)
ImplIrWeights == Ready => ReqIrWeights(C, EM, E.res)
ImplWeightsSum == Ready => ReqWeightsSum(C, EM, E.res)
ImplQpointsHalf == Ready /\ ~Generic => ReqQpoints(C, EM, E.res)
ImplQpointsGeneric == Ready /\ Generic => ReqQpoints(C, EM, E.res)
ImplExact == AtEnd => E.res.exact
ImplOffIsFull == Ready => ReqOffIsFull(C, EM, E.res)
ImplSymOnOffEqual ==
  (Ready /\ NPts(EM) * Cardinality(ReqOps(C)) <= 600) => ReqSymOnOffEqual(C, EM, E.res)
(* what Phonopy.init_mesh hands to the grid is the crystal's point group *)
ImplGroupIsExact ==
  (AtEnd /\ C.level = "api") => E.passed.rots = GroupTable[E.crystal]

(* ---- logged values are the machine's *)
ConformsInitMesh ==
  (pc = "shift" /\ C.level = "api") =>
     /\ E.passed.mesh = eff.mesh /\ E.passed.gamma = eff.gamma
     /\ E.passed.tr = eff.tr /\ E.passed.sym = eff.sym
ConformsMesh == AtEnd => E.mesh = eff.mesh
ConformsIsShift == AtEnd => E.isShift = isShift
ConformsIndexConvention ==
  AtEnd /\ E.mesh = eff.mesh /\ Len(E.res.addr) = NPts(eff.mesh) =>
     \A i \in 1..Len(E.res.addr) : IndexOf(eff.mesh, E.res.addr[i]) = i - 1
ConformsMap ==
  AtEnd /\ E.mesh = eff.mesh /\ ReqMapWellFormed(C, eff.mesh, E.res) =>
     IsOrbitMinMap(C, eff.mesh, isShift, UsedOps, E.res.map)
ConformsIr == AtEnd => E.res.ir = ir /\ E.res.weights = weights
ConformsQpoints ==
  AtEnd /\ E.mesh = eff.mesh /\ E.res.ir = ir =>
     E.res.qx = [k \in 1..Len(ir) |-> MachX(C, eff.mesh, isShift, eff.generic, AddrOf(eff.mesh, ir[k]))]
=============================================================================
