------------------------------ MODULE NACOps ------------------------------
(* Pure operators shared by NAC.tla (C08) and GroupVelocity.tla (C12):       *)
(* strict 3x3 arithmetic, reduced fractions, exact space-group average of    *)
(* Born charges / dielectric tensor, the matrix K(n), characters of the      *)
(* translation group modulo the supercell, first-zone images.  See NAC.tla   *)
(* for the representation.                                                   *)
EXTENDS Catalogue

(* The crystal, its space group and its centring translations are computed   *)
(* once, when the configuration is chosen, and kept in the state.            *)
Strip(c) == [name |-> c.name, G |-> c.G, D |-> c.D, atoms |-> c.atoms]

(* An extra crystal for the symmetrisation of tensors: space group P4 (four   *)
(* operations, 4-fold rotations W with W^-1 # W), two orbits of four atoms   *)
(* in general positions (trivial site symmetry), so that neither the order   *)
(* W Z W^-1 versus W^-1 Z W nor pre-image versus image of the atom is        *)
(* hidden by the symmetry.  No spring model: used with zero force constants. *)
P4Crystal ==
  [name |-> "p4", G |-> <<<<4,0,0>>,<<0,4,0>>,<<0,0,5>>>>, D |-> 8, reach |-> 0,
   atoms |-> <<At(1, <<1,2,1>>, 10), At(1, <<6,1,1>>, 10), At(1, <<7,6,1>>, 10), At(1, <<2,7,1>>, 10),
               At(2, <<3,1,4>>, 20), At(2, <<7,3,4>>, 20), At(2, <<5,7,4>>, 20), At(2, <<1,5,4>>, 20)>>,
   springs |-> <<>>]
AllNames == Names \cup {"p4"}
EntryOf(nm) == IF nm = "p4" THEN P4Crystal ELSE EntryByName(nm)

(* Crystal!Aut filters all 3^9 matrices; the same set is found faster column *)
(* by column: column k of a metric-preserving W has the squared length of    *)
(* basis vector k.  (PreAutAgrees compares the two.)                         *)
FromCols(a, b, d) == <<<<a[1], b[1], d[1]>>, <<a[2], b[2], d[2]>>, <<a[3], b[3], d[3]>>>>
ColCands(G, k) == {v \in Box(1) : QForm(G, v) = G[k][k]}
MetricPreservingFast(G) ==
  {W \in {FromCols(a, b, d) : a \in ColCands(G, 1), b \in ColCands(G, 2), d \in ColCands(G, 3)} :
      \A k, l \in I3 : BForm(G, <<W[1][k], W[2][k], W[3][k]>>, <<W[1][l], W[2][l], W[3][l]>>) = G[k][l]}
AutFast(c) ==
  UNION {{<<W, w>> : w \in {w \in CandTrans(c, W) : IsSymmetryOp(c, W, w)}} : W \in MetricPreservingFast(c.G)}

-----------------------------------------------------------------------------
(* small exact arithmetic                                                    *)
(* TLC applies [i \in I3 |-> e] lazily (e is re-evaluated at every access);   *)
(* the S-versions build tuples, which are evaluated once.                    *)
TV(v) == <<v[1], v[2], v[3]>>
TM(A) == <<TV(A[1]), TV(A[2]), TV(A[3])>>
MatMulS(A, B) == TM(MatMul(A, B))
MatVecS(A, v) == TV(MatVec(A, v))
VecMatS(v, A) == TV(VecMat(v, A))
TransposeS(A) == TM(Transpose(A))
MAddS(A, B) == TM(MAdd(A, B))
MScaleS(k, A) == TM(MScale(k, A))
UniInvS(A) == TM(UniInv(A))
AdjS(A) == TM(Adj(A))
OuterS(v, w) == TM(Outer(v, w))
VAddS(a, b) == TV(VAdd(a, b))
VSubS(a, b) == TV(VSub(a, b))
VScaleS(k, a) == TV(VScale(k, a))

(* The same crystal expressed in another basis of its lattice: rows L' = U L for an integer unimodular U.      *)
(* Gram matrix G' = U G U^T; a position with (column) coordinates x has coordinates U^-T x.  The physics is   *)
(* unchanged, so every Cartesian statement of the requirement is invariant under the choice of U               *)
(* (NAC!ReqBasisCovariant).                                                                                    *)
Sheared(c, U) ==
  [name |-> c.name, G |-> TM(MatMul(U, MatMul(c.G, Transpose(U)))), D |-> c.D,
   atoms |-> [a \in 1..Len(c.atoms) |->
               [sp |-> c.atoms[a].sp, m |-> c.atoms[a].m, num |-> TV(MatVec(Transpose(UniInv(U)), c.atoms[a].num))]]]
IsSignedPermutation(U) == \A i \in I3 : Cardinality({j \in I3 : U[i][j] # 0}) = 1 /\ \A j \in I3 : U[i][j] \in {-1, 0, 1}
Col3(M, j) == <<M[1][j], M[2][j], M[3][j]>>
RECURSIVE SumFn(_, _)
SumFn(f, Dd) == IF Dd = {} THEN ZeroM
                ELSE LET x == CHOOSE x \in Dd : TRUE IN MAddS(f[x], SumFn(f, Dd \ {x}))

RECURSIVE GcdSet(_)
GcdSet(T) == IF T = {} THEN 0
             ELSE LET x == CHOOSE x \in T : TRUE IN GCD2(x, GcdSet(T \ {x}))

MEntries(M) == {M[i][j] : i \in I3, j \in I3}
MDivide(M, g) == [i \in I3 |-> [j \in I3 |-> M[i][j] \div g]]
IsZeroM(M) == M = ZeroM \/ \A i, j \in I3 : M[i][j] = 0

(* a fraction num/den (den # 0) in lowest terms with positive denominator *)
Reduce(num, den) ==
  LET g == GCD2(num, den)
      s == IF den < 0 THEN -1 ELSE 1
  IN  IF num = 0 THEN <<0, 1>> ELSE <<s * (num \div g), s * (den \div g)>>

-----------------------------------------------------------------------------
(* symmetrisation: the group average, by definition                          *)

(* the atom that (W,w) maps onto atom i *)
PreImage(c, W, w, i) ==
  CHOOSE j \in 1..NAtoms(c) : Sp(c, j) = Sp(c, i) /\ SamePosModZ(c.D, Act(W, w, Num(c, j)), Num(c, i))

(* Sum over the space group of  W Zh_{pr(i)} W^-1 *)
PreTable(c, au) == Materialize([p \in au |-> Materialize([i \in 1..NAtoms(c) |-> PreImage(c, p[1], p[2], i)])])

BornGroupSum(c, au, pr, Z, i) ==
  SumFn([p \in au |-> MatMulS(p[1], MatMulS(Z[pr[p][i]], UniInvS(p[1])))], au)

(* group average followed by the acoustic sum rule (subtract the mean):      *)
(*   Zs_i = ( nat * Gs_i - Sum_j Gs_j ) / ( nat * |au| )                     *)
SymmetriseBorn(c, au, pr, Z) ==
  LET nat == NAtoms(c)
      gs == Materialize([i \in 1..nat |-> BornGroupSum(c, au, pr, Z, i)])
      tot == SumFn(gs, 1..nat)
      num == Materialize([i \in 1..nat |-> MAddS(MScaleS(nat, gs[i]), MScaleS(-1, tot))])
      den == nat * Cardinality(au)
      g == GcdSet({den} \cup UNION {MEntries(num[i]) : i \in 1..nat})
  IN  [num |-> [i \in 1..nat |-> MDivide(num[i], g)], den |-> den \div g]

SymmetriseEps(au, Cm) ==
  LET num == SumFn([p \in au |-> MatMulS(p[1], MatMulS(Cm, TransposeS(p[1])))], au)
      den == Cardinality(au)
      g == GcdSet({den} \cup MEntries(num))
  IN  [num |-> MDivide(num, g), den |-> den \div g]

(* ---- what "symmetric under the crystal's space group" means ------------- *)
BornInvariant(c, au, pr, z) ==
  \A p \in au : \A i \in 1..NAtoms(c) :
     MatMulS(p[1], z.num[pr[p][i]]) = MatMulS(z.num[i], p[1])
EpsInvariant(au, e) ==
  \A p \in au : MatMulS(p[1], MatMulS(e.num, TransposeS(p[1]))) = e.num
BornASR(c, z) == SumFn(z.num, 1..NAtoms(c)) = ZeroM

-----------------------------------------------------------------------------
(* the requirement's matrix K(n)                                             *)
VecOf(z, j, nn) == MatVecS(TransposeS(z.num[j]), nn)           \* den z.den
Qn(e, nn) == Dot(nn, MatVecS(e.num, nn))                      \* den e.den ; n.eps.n a^2

KofN(c, z, e, nn) ==
  LET nat == NAtoms(c)
      v == Materialize([j \in 1..nat |-> VecOf(z, j, nn)])
  IN  [P |-> [j \in 1..nat |-> [jp \in 1..nat |-> OuterS(v[j], v[jp])]],
       c1 |-> e.den,
       c2 |-> z.den * z.den * Qn(e, nn)]

(* equality of two K records as rational matrices *)
KEqual(c, A, B) ==
  \A j, jp \in 1..NAtoms(c) : \A a, b \in I3 :
     Reduce(A.P[j][jp][a][b] * A.c1, A.c2) = Reduce(B.P[j][jp][a][b] * B.c1, B.c2)

KZero(c, A) == \A j, jp \in 1..NAtoms(c) : IsZeroM(A.P[j][jp])

-----------------------------------------------------------------------------
(* translations of the crystal modulo the supercell lattice; characters      *)

(* all lattice translations of the crystal (numerators over D) modulo S:     *)
(* centring vectors of the unit cell combined with unit-cell lattice vectors *)
TransGroup(c, ce, S, b) ==
  {VAddS(cn, VScaleS(c.D, t)) : cn \in ce, t \in LatticeReps(S, b)}

NPrim(ce, S) == Cardinality(ce) * Abs(Det(S))

(* q = S^-T m (unit-cell reciprocal coordinates); phase of a vector u/D is   *)
(* exp(2 pi i PhaseExp / PhaseMod)                                           *)
PhaseMod(c, S) == c.D * Abs(Det(S))
PhaseExp(c, S, m, u) == (Sign(Det(S)) * Dot(m, MatVecS(AdjS(S), u))) % PhaseMod(c, S)

(* q is commensurate: the phase does not change when a supercell lattice     *)
(* vector is added, so the multiplicity average over equivalent shortest     *)
(* vectors (get_dm) is the phase of the class                                *)
PhaseIsClassFunction(c, S, m) ==
  \A k \in I3 : PhaseExp(c, S, m, VScaleS(c.D, Col3(S, k))) = 0

Signature(c, S, m, tg) == [u \in tg |-> PhaseExp(c, S, m, u)]
TrivialChar(c, S, m, tg) == \A u \in tg : PhaseExp(c, S, m, u) = 0

(* one label m per character of TransGroup: among the labels of the box that *)
(* give the character, one of the shortest wave vectors                      *)
CommLabels(c, S, b, tg) ==
  LET sg == Materialize([m \in Box(b) |-> Signature(c, S, m, tg) @@ <<>>])
      ln == Materialize([m \in Box(b) |-> QForm(AdjS(c.G), VecMatS(m, AdjS(S)))])
      sigs == {sg[m] : m \in Box(b)}
  IN  {CHOOSE m \in Box(b) : sg[m] = s /\ \A m2 \in Box(b) : sg[m2] = s => ln[m] <= ln[m2] : s \in sigs}

(* histogram of the phases of the N atoms of sublattice jp seen from atom j *)
PhaseCounts(c, S, m, tg, j, jp) ==
  LET M == PhaseMod(c, S)
      d == VSubS(Num(c, jp), Num(c, j))
  IN  [e \in 0..(M - 1) |-> Cardinality({u \in tg : PhaseExp(c, S, m, VAddS(d, u)) = e})]

(* Sum_e cnt[e] w^e = 0 (w = exp(2 pi i/M)) is implied by invariance of cnt  *)
(* under a shift 0 < d < M:  sum = w^d sum.                                  *)
SumVanishes(cnt, M) ==
  \E d \in 1..(M - 1) : \A e \in 0..(M - 1) : cnt[(e + d) % M] = cnt[e]
(* all N phases equal exp(2 pi i e0/M): the sum is N times that phase *)
SumIsNTimes(cnt, M, N) == \E e0 \in 0..(M - 1) : cnt[e0] = N

(* the Wang lattice sum, classified: (1/N) Sum_k phase  is 1 ("K": the       *)
(* correction is K itself; only possible with phase 1 for j = j'), a pure    *)
(* phase ("K" with e0 recorded), or 0                                        *)
WangSum(c, S, m, tg) ==
  LET M == PhaseMod(c, S)
      N == Cardinality(tg)
      nat == NAtoms(c)
      cnt == Materialize([p \in (1..nat) \X (1..nat) |-> PhaseCounts(c, S, m, tg, p[1], p[2])])
  IN  [kind |-> IF \A p \in DOMAIN cnt : SumVanishes(cnt[p], M) THEN "zero"
                ELSE IF \A p \in DOMAIN cnt : SumIsNTimes(cnt[p], M, N) THEN "K"
                ELSE "other",
       N |-> N, M |-> M]

-----------------------------------------------------------------------------
(* first Brillouin zone (for the Gonze-Lee method: the dipole-dipole term is *)
(* subtracted at the shortest representative of each commensurate point)     *)
(* q + G has numerators x + det(S) g over det(S); |q|^2 ~ x^T AdjS(G) x        *)
RecipPrim(c, ce, b) == {g \in Box(b) : \A cn \in ce : Dot(g, cn) % c.D = 0}
QNum(S, m) == VecMatS(m, AdjS(S))              \* AdjS(S)^T m : numerators of q over det S
QLen2(c, x) == QForm(AdjS(c.G), x)
ShortestImages(c, ce, S, m, b) ==
  LET x == QNum(S, m)
      im == {VAddS(x, VScaleS(Det(S), g)) : g \in RecipPrim(c, ce, b)}
      best == MinOf({QLen2(c, y) : y \in im})
  IN  {y \in im : QLen2(c, y) = best}

=============================================================================
