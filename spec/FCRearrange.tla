----------------------------- MODULE FCRearrange -----------------------------
(* X10 (c): rearrange_force_constants_array(full_fc, a, b): the force constants of one     *)
(* supercell given in the atom order of cell a, returned in the atom order of cell b,      *)
(* where b presents the same periodic structure: atoms permuted, positions shifted by      *)
(* supercell lattice vectors.                                                              *)
(*                                                                                         *)
(* DEFINITION.  Atom i of b IS atom pi(i) of a when they carry the same species and their  *)
(* positions agree modulo the supercell lattice S Z^3 (exact: ClassKey of IntLinAlg on the *)
(* integer numerators).  If pi is a well-defined bijection the result is                   *)
(*     re[i][k] = fc[pi(i)][pi(k)]   (3x3 blocks untouched)   and   indices = pi;           *)
(* rearranging back (b -> a) restores the array and returns the inverse permutation.       *)
(* If the two cells are not the same structure there is no answer and the call must not    *)
(* return one.                                                                             *)
EXTENDS Integers, Sequences, FiniteSets, TLC, IntLinAlg

CONSTANTS Events
VARIABLES ev, pc, cand, failed
rvars == <<ev, pc, cand, failed>>

NAt(e) == Len(e.ua)
Cands(e, i) == {k \in 1..NAt(e) : e.spa[k] = e.spb[i] /\ SameClass(e.smat, e.dd, e.ua[k], e.ub[i])}

WellDefined(e) == /\ \A i \in 1..NAt(e) : Cardinality(cand[i]) = 1
                  /\ Cardinality(UNION {cand[i] : i \in 1..NAt(e)}) = NAt(e)
Pi(e) == [i \in 1..NAt(e) |-> CHOOSE k \in cand[i] : TRUE]

Judgements(e) ==
  LET n == NAt(e)
      wd == WellDefined(e)
      ok == e.outc = "ok"
  IN IF ~wd
     THEN [ReqSameStructure |-> e.alien, ImplRefuses |-> ~ok, ImplIndices |-> TRUE, ImplArray |-> TRUE,
           ImplInverseIndices |-> TRUE, ImplInverseArray |-> TRUE, ImplOracle |-> TRUE, ImplInputUntouched |-> e.same]
     ELSE LET p == Materialize(Pi(e)) IN
          [ReqSameStructure |-> ~e.alien,
           ImplRefuses |-> ok,
           ImplIndices |-> ok => \A i \in 1..n : e.idx[i] = p[i],
           ImplArray |-> ok => \A i, k \in 1..n : e.rarr[i][k] = e.farr[p[i]][p[k]],
           ImplInverseIndices |-> ok => \A i \in 1..n : e.bidx[p[i]] = i,
           ImplInverseArray |-> ok => e.barr = e.farr,
           ImplOracle |-> e.orok,
           ImplInputUntouched |-> e.same]

JNames == {"ReqSameStructure", "ImplRefuses", "ImplIndices", "ImplArray", "ImplInverseIndices", "ImplInverseArray", "ImplOracle",
           "ImplInputUntouched"}

Init == ev \in Events /\ pc = "load" /\ cand = <<>> /\ failed = {}
Load == /\ pc = "load"
        /\ cand' = Materialize([i \in 1..NAt(ev) |-> Cands(ev, i)])
        /\ pc' = "judge"
        /\ UNCHANGED <<ev, failed>>
Judge == /\ pc = "judge"
         /\ \E jd \in {Judgements(ev)} : failed' = {nm \in JNames : ~jd[nm]}
         /\ pc' = "done"
         /\ UNCHANGED <<ev, cand>>
Next == Load \/ Judge
Spec == Init /\ [][Next]_rvars

AtEnd == pc = "done"
Holds(nm) == AtEnd => nm \notin failed
ReqSameStructure == Holds("ReqSameStructure")
ImplRefuses == Holds("ImplRefuses")
ImplIndices == Holds("ImplIndices")
ImplArray == Holds("ImplArray")
ImplInverseIndices == Holds("ImplInverseIndices")
ImplInverseArray == Holds("ImplInverseArray")
ImplOracle == Holds("ImplOracle")
ImplInputUntouched == Holds("ImplInputUntouched")

Report == AtEnd => PrintT(<<"X10R", ev.id, failed, IF WellDefined(ev) THEN Pi(ev) ELSE <<>>>>)
=============================================================================
