--------------------------- MODULE ModulationTrace ---------------------------
(* Conformance of real Phonopy.run_modulations results on oracle crystals       *)
(* (harness/props/x02.py) with Modulation.tla.  An event is one phonon mode of  *)
(* one run: the `dimension` argument in the form it was passed, the supercell   *)
(* matrix of the modulation supercell that was built (Mlog), the sites of its   *)
(* atoms (projected to [atom, lattice vector]), the commensurate q = qn/qd, and *)
(* from the complex displacements u:                                            *)
(*   rel[j]  phase of site j relative to the first site of the same atom, in    *)
(*           twelfths of a turn (rounded; `exact` tells the rounding residual   *)
(*           was below 1e-9 turns); mv[j] is FALSE for atoms the mode leaves at *)
(*           rest (no phase)                                                    *)
(*   num     deviations (integers, unit 1e-12, capped) evaluated with numpy on  *)
(*           the specification's exact force constants:                         *)
(*     spread  u sqrt(N_a m)/A exp(-2 pi i q.r) is the same for all cells       *)
(*     norm    that lattice-periodic part has norm 1 (amplitude honoured)       *)
(*     eigen   and is an eigenvector of D(q) for the eigenvalue of the band     *)
(*     arg     the largest component of u has the phase `argument`              *)
(*     pos     get_modulated_supercells = supercell + Re u (modulo the lattice) *)
(*     add     Modulation.write(): the combined structure = supercell + sum of  *)
(*             Re u over the modes; the -orig structure = supercell             *)
(*     freq    eigenvalue recorded for the mode = eigenvalue of the band        *)
(* The machine is run on the event's input with a unit eigenvector model: the   *)
(* relative phase classes do not depend on the eigenvector.                     *)
EXTENDS Modulation

CONSTANTS Events, Tol
VARIABLE ev
tvars == <<vars, ev>>
E == ev

UnitEig(k) == [a \in 1..k |-> [r |-> 1, k |-> 0]]
First(st, j) == MinOf({i \in 1..Len(st) : st[i].a = st[j].a})

TInit == Init /\ ev \in Events
TChoose == ChooseWith(E.arg, E.wave, UnitEig(E.na), 1, 0) /\ UNCHANGED ev
TParse == ParseDimension /\ UNCHANGED ev
TBuild == BuildSupercellWith(E.sites) /\ UNCHANGED ev
TDisplace == Displace /\ UNCHANGED ev
TNormalise == Normalise /\ UNCHANGED ev
TNext == TChoose \/ TParse \/ TBuild \/ TDisplace \/ TNormalise

ImplDimension == pc = "supercell" => ReqDimension(E.arg, E.Mlog) /\ E.Mlog = M
ImplSites == pc = "supercell" => SitesContract(E.Mlog, E.na, E.sites)
ImplCommensurate == Done => Commensurate(E.wave, E.Mlog) /\ ReqPeriodic(E.wave, E.Mlog)
ImplBloch == Done => /\ E.exact
                     /\ \A j \in 1..Len(E.sites) :
                          E.mv[j] => E.rel[j] = QTwelfth(E.wave, VSub(E.sites[j].l, E.sites[First(E.sites, j)].l))
ImplPeriodicPart == Done => E.num.spread <= Tol
ImplAmplitude == Done => E.num.norm <= Tol
ImplEigenvector == Done => E.num.eigen <= Tol /\ E.num.freq <= Tol
ImplArgument == Done => E.num.arg <= Tol
ImplPositions == Done => E.num.pos <= Tol
ImplAdditive == Done => E.num.add <= Tol

ConformsBloch == Done => \A j \in 1..Len(sites) : E.mv[j] => E.rel[j] = (u[j].k - u[First(sites, j)].k + 12) % 12
=============================================================================
