------------------------------- MODULE Units -------------------------------
(* C17, unit part: every calculator's unit set is self-consistent.          *)
(*                                                                          *)
(* Every quantity is a MONOMIAL over the base constants of phonopy/units.py *)
(*     1 EV   2 AMU   3 BOHR(in Angstrom)   4 HARTREE(in eV)   5 TWO  6 PI   *)
(*     7 TEN                                                                *)
(* written as the vector of DOUBLED exponents (so that a square root stays  *)
(* integral): value(m) = PROD base[i]^(m[i]/2).  Products are sums of       *)
(* vectors.  Angstrom = 10^-10 m and THz = 10^12 /s are powers of TEN.      *)
(*                                                                          *)
(* The documented unit table of get_default_physical_units (docstring) is   *)
(* the INPUT: per calculator the energy unit of a force, the length unit in *)
(* the denominator of a force, and the length unit of distances.  From it   *)
(* the requirement derives, by dimensional analysis only:                   *)
(*   force-constant unit  fc = E / (L1 L2)                                  *)
(*   frequency factor     sqrt(fc / AMU) / (2 pi) / THz                     *)
(*   NAC factor           e^2/(4 pi eps0) / (fc L2^3),                      *)
(*                        e^2/(4 pi eps0) = Hartree * Bohr  (eV Angstrom)   *)
(*   distance_to_A        L2 / Angstrom                                     *)
(*   force_to_eVperA      (E / L1) / (eV / Angstrom)                        *)
(*   conversion[u -> c]   fc(u) / fc(c)     for the six named fc units      *)
(* and states that ONE physical crystal expressed in any calculator's units *)
(* has the same frequencies in THz and the same non-analytical term.        *)
EXTENDS Integers, Sequences, FiniteSets, TLC

CONSTANT Calcs

NB == 7
Zero == [i \in 1..NB |-> 0]
B(i) == [j \in 1..NB |-> IF j = i THEN 2 ELSE 0]     \* base constant i (exponent 1 -> doubled 2)
Mul(a, b) == [i \in 1..NB |-> a[i] + b[i]]
Inv(a) == [i \in 1..NB |-> 0 - a[i]]
Div(a, b) == Mul(a, Inv(b))
Pow(a, n) == [i \in 1..NB |-> n * a[i]]
Sqrt(a) == [i \in 1..NB |-> a[i] \div 2]
IsSquare(a) == \A i \in 1..NB : a[i] % 2 = 0

EV == B(1)  AMU == B(2)  BOHR == B(3)  HARTREE == B(4)  TWO == B(5)  PI == B(6)  TEN == B(7)

(* SI values of the named units *)
Joule_eV == EV
Joule_hartree == Mul(HARTREE, EV)
Joule_Ry == Div(Joule_hartree, TWO)
Joule_mRy == Div(Joule_Ry, Pow(TEN, 3))
Metre_angstrom == Pow(TEN, -10)
Metre_au == Mul(BOHR, Metre_angstrom)
THz == Pow(TEN, 12)
TwoPi == Mul(TWO, PI)
(* e^2 / (4 pi eps0) in J m: Hartree[eV] EV * Bohr[A] 1e-10 *)
Coulomb == Mul(Joule_hartree, Metre_au)

EnergyUnit == [eV |-> Joule_eV, Ry |-> Joule_Ry, mRy |-> Joule_mRy, hartree |-> Joule_hartree]
LengthUnit == [angstrom |-> Metre_angstrom, au |-> Metre_au]

(* the documented table: energy unit of a force, length unit of a force,     *)
(* length unit of distances (docstring of get_default_physical_units)        *)
T(e, l1, l2) == [e |-> e, l1 |-> l1, l2 |-> l2]
Table ==
  [vasp      |-> T("eV", "angstrom", "angstrom"),
   wien2k    |-> T("mRy", "au", "au"),
   abinit    |-> T("eV", "angstrom", "au"),
   elk       |-> T("hartree", "au", "au"),
   qe        |-> T("Ry", "au", "au"),
   siesta    |-> T("eV", "angstrom", "au"),
   crystal   |-> T("eV", "angstrom", "angstrom"),
   dftbp     |-> T("hartree", "au", "au"),
   turbomole |-> T("hartree", "au", "au"),
   cp2k      |-> T("hartree", "au", "angstrom"),
   aims      |-> T("eV", "angstrom", "angstrom"),
   castep    |-> T("eV", "angstrom", "angstrom"),
   fleur     |-> T("hartree", "au", "au"),
   abacus    |-> T("eV", "angstrom", "au"),
   lammps    |-> T("eV", "angstrom", "angstrom"),
   pwmat     |-> T("eV", "angstrom", "angstrom")]

AllCalcs == DOMAIN Table

(* names used by the code for the units *)
FcName(t) ==
  IF t.l1 = t.l2 THEN t.e \o "/" \o t.l1 \o "^2" ELSE t.e \o "/angstrom.au"   \* mixed: angstrom is named first
ForceName(t) == t.e \o "/" \o t.l1
FcNames == {"eV/angstrom^2", "eV/angstrom.au", "Ry/au^2", "mRy/au^2", "hartree/au^2", "hartree/angstrom.au"}
TripleOfName ==
  [n \in FcNames |->
     CASE n = "eV/angstrom^2" -> T("eV", "angstrom", "angstrom")
       [] n = "eV/angstrom.au" -> T("eV", "angstrom", "au")
       [] n = "Ry/au^2" -> T("Ry", "au", "au")
       [] n = "mRy/au^2" -> T("mRy", "au", "au")
       [] n = "hartree/au^2" -> T("hartree", "au", "au")
       [] n = "hartree/angstrom.au" -> T("hartree", "au", "angstrom")]

(* ---- the requirement, by dimensional analysis --------------------------- *)
ForceSI(t) == Div(EnergyUnit[t.e], LengthUnit[t.l1])
FcSI(t) == Div(ForceSI(t), LengthUnit[t.l2])
Factor2(t) == Div(Div(FcSI(t), AMU), Mul(Pow(TwoPi, 2), Pow(THz, 2)))   \* factor^2
ReqFactor(t) == Sqrt(Factor2(t))
ReqNac(t) == Div(Coulomb, Mul(FcSI(t), Pow(LengthUnit[t.l2], 3)))
ReqDistToA(t) == Div(LengthUnit[t.l2], Metre_angstrom)
ReqForceToEVA(t) == Div(ForceSI(t), Div(Joule_eV, Metre_angstrom))
ReqConv(u, t) == Div(FcSI(TripleOfName[u]), FcSI(t))

-----------------------------------------------------------------------------
(* A small machine that derives the table calculator by calculator, so that *)
(* TLC visits every row and the dump carries the required monomials.        *)
VARIABLES pc, calc, row
uvars == <<pc, calc, row>>

NoRow == [factor |-> Zero]

Init == pc = "choose" /\ calc = "vasp" /\ row = NoRow

Choose == /\ pc = "choose" /\ \E c \in Calcs : calc' = c
          /\ pc' = "derive" /\ UNCHANGED row

Derive ==
  /\ pc = "derive"
  /\ LET t == Table[calc]
     IN row' = [factor |-> ReqFactor(t), nac |-> ReqNac(t), dist |-> ReqDistToA(t),
                force |-> ReqForceToEVA(t), fcsi |-> FcSI(t), len |-> LengthUnit[t.l2],
                fcname |-> FcName(t), lname |-> t.l2, fname |-> ForceName(t),
                conv |-> [u \in FcNames |-> ReqConv(u, t)]]
  /\ pc' = "done" /\ UNCHANGED calc

Next == Choose \/ Derive
Spec == Init /\ [][Next]_uvars

-----------------------------------------------------------------------------
(* Invariants: the derived table is self-consistent and physically          *)
(* invariant.  Stated by multiplication (the derivation divides).           *)
Done == pc = "done"
t0 == Table[calc]

(* factor^2 (2 pi)^2 THz^2 AMU = fc *)
InvFactor == Done => /\ IsSquare(Factor2(t0))
                     /\ Mul(Mul(Pow(row.factor, 2), Mul(Pow(TwoPi, 2), Pow(THz, 2))), AMU) = row.fcsi
(* nac fc L^3 = e^2/(4 pi eps0) *)
InvNac == Done => Mul(row.nac, Mul(row.fcsi, Pow(row.len, 3))) = Coulomb
(* the fc-unit name of the row is one of the six names and denotes the row's fc unit *)
InvName == Done => /\ row.fcname \in FcNames
                   /\ FcSI(TripleOfName[row.fcname]) = row.fcsi
(* conversion is a cocycle: u -> c -> vasp = u -> vasp, and identity on the own unit *)
InvConv == Done => /\ row.conv[row.fcname] = Zero
                   /\ \A u \in FcNames :
                        Mul(row.conv[u], Div(row.fcsi, FcSI(Table["vasp"]))) = ReqConv(u, Table["vasp"])
(* ONE physical crystal: a stiffness K [J/m^2], a mass m AMU, charges Z e, volume V [m^3]. *)
(* In the calculator's units: k = K / fc, v = V / L^3.  Frequency = factor sqrt(k/m) and   *)
(* the NAC term nac Z^2 / v [fc units] must not depend on the calculator:                  *)
(*   factor^2 / fc       is the same for all calculators  (= 1/(AMU (2 pi THz)^2))         *)
(*   nac * L^3 * fc      is the same for all calculators  (= e^2/(4 pi eps0))              *)
InvSameTHz == Done => \A c \in AllCalcs :
                 Div(Pow(row.factor, 2), row.fcsi) = Div(Factor2(Table[c]), FcSI(Table[c]))
InvSameNac == Done => \A c \in AllCalcs :
                 Mul(row.nac, Mul(Pow(row.len, 3), row.fcsi))
                   = Mul(ReqNac(Table[c]), Mul(Pow(LengthUnit[Table[c].l2], 3), FcSI(Table[c])))
(* calculators documented with the same triple have the same row *)
InvSameTriple == Done => \A c \in AllCalcs : Table[c] = t0 => ReqFactor(Table[c]) = row.factor
=============================================================================
