----------------------------- MODULE ThermalDisp -----------------------------
(* Mean-square displacement matrices of phonopy (phonon/thermal_displacement.py:  *)
(* ThermalMotion, ThermalDisplacements.run, ThermalDisplacementMatrices.run /      *)
(* _get_disp_matrices) as a step machine over an EXACT model of the sampled modes, *)
(* and what C19 requires of the results.                                           *)
(*                                                                                 *)
(* Abstract state.  A sampled mode is a record                                     *)
(*    lvl : its frequency as an integer level (only the order matters here)        *)
(*    w   : the scalar  hbar (1 + 2 n(omega, T)) / (2 omega N_q)  as a positive    *)
(*          integer - an UNINTERPRETED positive function of the mode (DESIGN 2.3); *)
(*          its real values are interpreted by the harness (harness/c19_num.py)    *)
(*    e   : the polarisation vector, one 3-vector of Gaussian integers <<re, im>>  *)
(*          per atom (common normalisation and 1/mass are positive scalars per     *)
(*          atom and are left out: they affect none of the statements below).      *)
(* The three code paths are separate actions:                                      *)
(*   Select        - frequency window  fmin < f (< fmax)   (valid_indices)         *)
(*   RunMatrices   - B_k = sum w e_k (x) e_k^*        (ThermalDisplacementMatrices)*)
(*   RunMSD        - d_k,a = sum w |e_k,a|^2          (ThermalDisplacements)       *)
(*   RunProjected  - p_k = sum w |e_k . dir|^2        (projection_direction)       *)
(*   ToCif         - U_k = T B_k T^T  with T = (A N)^-1  (integer stand-in)        *)
EXTENDS IntLinAlg

CONSTANTS
  Samples,   \* set of sampled mode families (each a sequence of mode records)
  Windows,   \* set of <<lo, hi>> frequency windows in levels; hi = 0 means no upper bound
  Dirs,      \* set of integer projection directions
  Tmats      \* set of non-singular integer matrices standing for (A N)^-1

VARIABLES pc, sample, window, dir, tm, valid, B, msd, proj, U

vars == <<pc, sample, window, dir, tm, valid, B, msd, proj, U>>

-----------------------------------------------------------------------------
(* Gaussian integers *)
GZero == <<0, 0>>
GAdd(x, y) == <<x[1] + y[1], x[2] + y[2]>>
GMul(x, y) == <<x[1] * y[1] - x[2] * y[2], x[1] * y[2] + x[2] * y[1]>>
GConj(x) == <<x[1], -x[2]>>
GScale(k, x) == <<k * x[1], k * x[2]>>
GNorm2(x) == x[1] * x[1] + x[2] * x[2]

NAt(s) == IF Len(s) = 0 THEN 0 ELSE Len(s[1].e)
GZeroMat == [a \in I3 |-> [b \in I3 |-> GZero]]
GMatAdd(X, Y) == [a \in I3 |-> [b \in I3 |-> GAdd(X[a][b], Y[a][b])]]
Outer(k, v) == [a \in I3 |-> [b \in I3 |-> GScale(k, GMul(v[a], GConj(v[b])))]]

RECURSIVE SumMats(_, _, _)
SumMats(s, idx, k) ==     \* idx: sequence of selected mode numbers
  IF idx = <<>> THEN GZeroMat
  ELSE GMatAdd(Outer(s[Head(idx)].w, s[Head(idx)].e[k]), SumMats(s, Tail(idx), k))

RECURSIVE SumInts(_)
SumInts(q) == IF q = <<>> THEN 0 ELSE Head(q) + SumInts(Tail(q))

GDot(v, d) == GAdd(GAdd(GScale(d[1], v[1]), GScale(d[2], v[2])), GScale(d[3], v[3]))

(* x^dagger M x for a Gaussian matrix M and integer vector x : Gaussian number *)
QuadG(M, x) ==
  LET term(a, b) == GScale(x[a] * x[b], M[a][b])
  IN GAdd(GAdd(GAdd(term(1,1), term(1,2)), GAdd(term(1,3), term(2,1))),
          GAdd(GAdd(term(2,2), term(2,3)), GAdd(term(3,1), GAdd(term(3,2), term(3,3)))))

(* T M T^T for integer T and Gaussian M *)
Congr(T, M) ==
  [a \in I3 |-> [b \in I3 |->
     LET el(c, d) == GScale(T[a][c] * T[b][d], M[c][d])
     IN GAdd(GAdd(GAdd(el(1,1), el(1,2)), GAdd(el(1,3), el(2,1))),
             GAdd(GAdd(el(2,2), el(2,3)), GAdd(el(3,1), GAdd(el(3,2), el(3,3)))))]]

InWindow(m, wdw) == m.lvl > wdw[1] /\ (wdw[2] = 0 \/ m.lvl < wdw[2])

RECURSIVE Sel(_, _, _)
Sel(s, k, wdw) == IF k > Len(s) THEN <<>>
                  ELSE IF InWindow(s[k], wdw) THEN <<k>> \o Sel(s, k + 1, wdw) ELSE Sel(s, k + 1, wdw)

TestVectors == {<<x, y, z>> : x \in -1..1, y \in -1..1, z \in -1..1}

-----------------------------------------------------------------------------
Init == /\ pc = "choose" /\ sample = <<>> /\ window = <<0, 0>> /\ dir = <<0, 0, 1>> /\ tm = Id3
        /\ valid = <<>> /\ B = <<>> /\ msd = <<>> /\ proj = <<>> /\ U = <<>>

Choose ==
  /\ pc = "choose"
  /\ \E s \in Samples, wdw \in Windows, d \in Dirs, t \in Tmats :
        sample' = s /\ window' = wdw /\ dir' = d /\ tm' = t
  /\ pc' = "select"
  /\ UNCHANGED <<valid, B, msd, proj, U>>

Select ==
  /\ pc = "select"
  /\ valid' = Sel(sample, 1, window)
  /\ pc' = "matrices"
  /\ UNCHANGED <<sample, window, dir, tm, B, msd, proj, U>>

RunMatrices ==
  /\ pc = "matrices"
  /\ B' = [k \in 1..NAt(sample) |-> SumMats(sample, valid, k)]
  /\ pc' = "msd"
  /\ UNCHANGED <<sample, window, dir, tm, valid, msd, proj, U>>

RunMSD ==
  /\ pc = "msd"
  /\ msd' = [k \in 1..NAt(sample) |-> [a \in I3 |->
               SumInts([j \in 1..Len(valid) |-> sample[valid[j]].w * GNorm2(sample[valid[j]].e[k][a])])]]
  /\ pc' = "projected"
  /\ UNCHANGED <<sample, window, dir, tm, valid, B, proj, U>>

RunProjected ==
  /\ pc = "projected"
  /\ proj' = [k \in 1..NAt(sample) |->
               SumInts([j \in 1..Len(valid) |-> sample[valid[j]].w * GNorm2(GDot(sample[valid[j]].e[k], dir))])]
  /\ pc' = "cif"
  /\ UNCHANGED <<sample, window, dir, tm, valid, B, msd, U>>

ToCif ==
  /\ pc = "cif"
  /\ U' = [k \in 1..NAt(sample) |-> Congr(tm, B[k])]
  /\ pc' = "done"
  /\ UNCHANGED <<sample, window, dir, tm, valid, B, msd, proj>>

Next == Choose \/ Select \/ RunMatrices \/ RunMSD \/ RunProjected \/ ToCif
Spec == Init /\ [][Next]_vars

-----------------------------------------------------------------------------
(* Requirement *)
Hermitian(M) == \A a, b \in I3 : M[a][b] = GConj(M[b][a])
RealSym(M) == \A a, b \in I3 : M[a][b][2] = 0 /\ M[a][b] = M[b][a]
PSD(M) == \A x \in TestVectors : QuadG(M, x)[1] >= 0 /\ QuadG(M, x)[2] = 0

(* the sample contains with every selected mode its time-reversed partner (same level *)
(* and weight, conjugate polarisation): then the imaginary parts cancel               *)
ClosedUnderConj(s, idx) ==
  \A i \in 1..Len(idx) :
     Cardinality({j \in 1..Len(idx) : s[idx[j]].lvl = s[idx[i]].lvl /\ s[idx[j]].w = s[idx[i]].w
                                       /\ \A k \in 1..NAt(s) : \A a \in I3 : s[idx[j]].e[k][a] = GConj(s[idx[i]].e[k][a])})
   = Cardinality({j \in 1..Len(idx) : s[idx[j]].lvl = s[idx[i]].lvl /\ s[idx[j]].w = s[idx[i]].w
                                       /\ \A k \in 1..NAt(s) : \A a \in I3 : s[idx[j]].e[k][a] = s[idx[i]].e[k][a]})

Done == pc = "done"
InvWindow == Done => /\ \A j \in 1..Len(valid) : InWindow(sample[valid[j]], window)
                     /\ \A k \in 1..Len(sample) : InWindow(sample[k], window) => \E j \in 1..Len(valid) : valid[j] = k
InvHermitianPSD == Done => \A k \in 1..NAt(sample) : Hermitian(B[k]) /\ PSD(B[k])
InvRealSymmetric == Done /\ ClosedUnderConj(sample, valid) => \A k \in 1..NAt(sample) : RealSym(B[k])
InvDiagonalIsMSD == Done => \A k \in 1..NAt(sample) : \A a \in I3 : B[k][a][a] = <<msd[k][a], 0>>
InvProjection == Done => \A k \in 1..NAt(sample) : QuadG(B[k], dir) = <<proj[k], 0>>
InvCif == Done => \A k \in 1..NAt(sample) :
                     /\ Hermitian(U[k]) /\ PSD(U[k])
                     /\ (RealSym(B[k]) => RealSym(U[k]))
                     /\ Congr(Adj(tm), U[k]) = [a \in I3 |-> [b \in I3 |-> GScale(Det(tm) * Det(tm), B[k][a][b])]]
(* a wider window never lowers any mean-square displacement *)
InvMonotone == Done => \A k \in 1..NAt(sample) : \A a \in I3 :
                  msd[k][a] <= SumInts([j \in 1..Len(sample) |-> sample[j].w * GNorm2(sample[j].e[k][a])])
=============================================================================
