----------------------------- MODULE YamlCompat -----------------------------
(* C16: phonopy.yaml files in the layouts of older versions load to the same *)
(* calculation as the current layout (PhonopyYamlLoader,                    *)
(* structure/atoms.py parse_cell_dict).                                     *)
(*                                                                          *)
(* CONTENT c (what a calculation consists of, independent of the layout):    *)
(*   nac  [present, factor (own unit factor), method]                        *)
(*   ds   [type 0/1/2, forces, energies]                                     *)
(*   cells "all" (unit, primitive, supercell) / "unit" (unit cell only)      *)
(* LAYOUT v (how a version wrote it):                                        *)
(*   atoms   "points" (>= 1.10.9: coordinates) / "atoms" (older: position)   *)
(*   nacAt   "nested" (>= 2.18: under nac:) / "top" (older: keys at top      *)
(*           level, factor as phonopy.nac_unit_conversion_factor)            *)
(*   dsAs    "cur" (type 1: displacements list of dicts; type 2: dataset:)   *)
(*           / "v223" (type 2 before 2.24: displacements list of lists of    *)
(*           displacement/force, supercell_energies at top level)            *)
(*   natom   for type 1 without forces: "supercell" / "key" (natom:) / "no"  *)
(* Render gives the set of keys a file of that layout has; the Parse steps   *)
(* transcribe the loader's branches.  Requirement: the loaded content is the *)
(* content, whatever the layout (for the content a layout can express:       *)
(* the method of NAC exists only in the nested layout).                      *)
EXTENDS Integers, FiniteSets, TLC

CONSTANTS Contents, Layouts
VARIABLES pc, c, v, file, got
vars == <<pc, c, v, file, got>>

NoGot == [nac |-> [present |-> FALSE, factor |-> FALSE, method |-> "none"],
          ds |-> [type |-> 0, forces |-> FALSE, energies |-> FALSE], status |-> "none"]

Expressible(cc, vv) ==
  /\ (vv.nacAt = "top" => cc.nac.method = "none")
  /\ (vv.dsAs = "v223" => cc.ds.type = 2)
  /\ (vv.natom # "supercell" => cc.cells = "unit")                  \* without a supercell section
  /\ (vv.natom = "supercell" => cc.cells = "all")

(* keys of the file *)
Render(cc, vv) ==
  [cellKey |-> vv.atoms,
   cells |-> cc.cells,
   nacNested |-> cc.nac.present /\ vv.nacAt = "nested",
   nacTop |-> cc.nac.present /\ vv.nacAt = "top",
   factorNested |-> cc.nac.present /\ cc.nac.factor /\ vv.nacAt = "nested",
   factorHeader |-> cc.nac.present /\ cc.nac.factor /\ vv.nacAt = "top",
   method |-> IF vv.nacAt = "nested" THEN cc.nac.method ELSE "none",
   disps |-> IF cc.ds.type = 1 THEN "dicts" ELSE IF cc.ds.type = 2 /\ vv.dsAs = "v223" THEN "lists" ELSE "none",
   dataset |-> cc.ds.type = 2 /\ vv.dsAs = "cur",
   forces |-> cc.ds.forces,
   energiesInline |-> cc.ds.energies /\ ~(cc.ds.type = 2 /\ vv.dsAs = "v223"),
   energiesTop |-> cc.ds.energies /\ cc.ds.type = 2 /\ vv.dsAs = "v223",
   natomKey |-> vv.natom = "key"]

Init == pc = "choose" /\ c = [nac |-> NoGot.nac, ds |-> NoGot.ds, cells |-> "all"]
        /\ v = [atoms |-> "points", nacAt |-> "nested", dsAs |-> "cur", natom |-> "supercell"]
        /\ file = <<>> /\ got = NoGot
Choose == pc = "choose" /\ \E cc \in Contents, vv \in Layouts : Expressible(cc, vv) /\ c' = cc /\ v' = vv
          /\ pc' = "write" /\ UNCHANGED <<file, got>>
Write == pc = "write" /\ file' = Render(c, v) /\ pc' = "dataset" /\ UNCHANGED <<c, v, got>>

(* PhonopyYamlLoaderBase._get_dataset / _parse_force_sets_type1 / _type2 / _type2_v223 *)
ParseDataset ==
  /\ pc = "dataset"
  /\ got' = [got EXCEPT
       !.ds = IF file.disps = "dicts" THEN [type |-> 1, forces |-> file.forces, energies |-> file.energiesInline]
              ELSE IF file.disps = "lists" THEN [type |-> 2, forces |-> file.forces, energies |-> file.energiesTop]
              ELSE IF file.dataset THEN [type |-> 2, forces |-> file.forces, energies |-> file.energiesInline]
              ELSE NoGot.ds,
       (* type 1: the number of supercell atoms from the forces, else the supercell, else natom: *)
       !.status = IF file.disps = "dicts" /\ ~file.forces /\ file.cells # "all" /\ ~file.natomKey THEN "raised" ELSE "ok"]
  /\ pc' = "nac" /\ UNCHANGED <<c, v, file>>

(* _parse_nac / _parse_nac_params: top-level keys first, the nested block overrides; *)
(* method only in the nested block                                                   *)
ParseNac ==
  /\ pc = "nac"
  /\ got' = [got EXCEPT !.nac = [present |-> file.nacNested \/ file.nacTop,
                                 factor |-> file.factorNested \/ (file.nacTop /\ file.factorHeader),
                                 method |-> IF file.nacNested THEN file.method ELSE "none"]]
  /\ pc' = "done" /\ UNCHANGED <<c, v, file>>

Next == Choose \/ Write \/ ParseDataset \/ ParseNac
Spec == Init /\ [][Next]_vars

Done == pc = "done"
Same(cc, g) == g.nac = cc.nac /\ g.ds = cc.ds
InvLayoutIndependent == Done /\ got.status = "ok" => Same(c, got)
(* a type-1 dataset without forces needs the number of supercell atoms from somewhere: only then may loading fail *)
InvLoads == Done /\ got.status = "raised" => c.ds.type = 1 /\ ~c.ds.forces /\ v.natom = "no"
=============================================================================
