------------------------------ MODULE FCSiteOps ------------------------------
(* X10 (d): small helpers of the finite-displacement solver that are public because        *)
(* phono3py uses them.                                                                     *)
(*                                                                                         *)
(*  similarity_transformation(R, M) = R M R^-1.  Exact for unimodular integer R and        *)
(*      integer M (R^-1 = det(R) adj(R)).  Consequences decided here: it is a group action *)
(*      (R2 . (R . M) = (R2 R) . M), multiplicative, preserves trace and determinant.      *)
(*  get_rotated_displacement(us, syms): row (k, s) of the result, u-major, is syms[s] us[k].*)
(*  get_positions_sent_by_rot_inv(lattice, positions, site_symmetry, symprec):             *)
(*      "Rotated_positions[rot_map] == positions": for the operation W about the centre    *)
(*      atom c,  W (x[rot_map[k]] - x[c]) = x[k] - x[c]  modulo the supercell lattice.      *)
(*      Integer crystal: positions u/D in unit-cell coordinates, W integer in unit-cell    *)
(*      coordinates (an element of the exact point group that maps the supercell lattice   *)
(*      to itself), congruence modulo D S Z^3 through ClassKey.  The map must be a         *)
(*      permutation that preserves species (ReqSitePermutes, model side, says that the     *)
(*      operations handed to the code are site symmetries of the supercell structure).     *)
EXTENDS Integers, Sequences, FiniteSets, TLC, IntLinAlg

CONSTANTS Events
VARIABLES ev, pc, failed, answer
svars == <<ev, pc, failed, answer>>

Strict(M) == <<<<M[1][1], M[1][2], M[1][3]>>, <<M[2][1], M[2][2], M[2][3]>>, <<M[3][1], M[3][2], M[3][3]>>>>
StrictV(v) == <<v[1], v[2], v[3]>>
Sim(R, M) == Strict(MatMul(R, MatMul(M, UniInv(R))))
Tr(M) == M[1][1] + M[2][2] + M[3][3]

RotDisp(us, syms) ==
  [t \in 1..(Len(us) * Len(syms)) |->
     LET k == ((t - 1) \div Len(syms)) + 1
         s == ((t - 1) % Len(syms)) + 1
     IN StrictV(MatVec(syms[s], us[k]))]

Rel(e, i) == <<e.upos[i][1] - e.upos[e.ctr][1], e.upos[i][2] - e.upos[e.ctr][2], e.upos[i][3] - e.upos[e.ctr][3]>>
(* atoms m with W (x_m - x_c) = x_k - x_c modulo the supercell lattice, same species *)
Sources(e, W, k) == {m \in 1..Len(e.upos) : e.spec[m] = e.spec[k] /\ SameClass(e.smat, e.dd, StrictV(MatVec(W, Rel(e, m))), Rel(e, k))}

Answer(e) ==
  CASE e.kind = "sim" -> Sim(e.rmat, e.mmat)
    [] e.kind = "rotdisp" -> RotDisp(e.us, e.syms)
    [] e.kind = "rotmap" -> [s \in 1..Len(e.wmats) |-> [k \in 1..Len(e.upos) |-> Sources(e, e.wmats[s], k)]]

Judgements(e) ==
  CASE e.kind = "sim" ->
         [ReqUnimodular |-> Unimodular(e.rmat) /\ Unimodular(e.rtwo),
          ReqSimAction |-> Sim(e.rtwo, answer) = Sim(Strict(MatMul(e.rtwo, e.rmat)), e.mmat),
          ReqSimMultiplicative |-> Sim(e.rmat, Strict(MatMul(e.mmat, e.mtwo))) = Strict(MatMul(answer, Sim(e.rmat, e.mtwo))),
          ReqSimInvariants |-> Tr(answer) = Tr(e.mmat) /\ Det(answer) = Det(e.mmat),
          ReqSitePermutes |-> TRUE,
          ImplAnswer |-> e.got = answer]
    [] e.kind = "rotdisp" ->
         [ReqUnimodular |-> TRUE, ReqSimAction |-> TRUE, ReqSimMultiplicative |-> TRUE, ReqSimInvariants |-> TRUE,
          ReqSitePermutes |-> TRUE,
          ImplAnswer |-> e.got = answer]
    [] e.kind = "rotmap" ->
         [ReqUnimodular |-> \A s \in 1..Len(e.wmats) : Unimodular(e.wmats[s]),
          ReqSimAction |-> TRUE, ReqSimMultiplicative |-> TRUE, ReqSimInvariants |-> TRUE,
          ReqSitePermutes |-> \A s \in 1..Len(e.wmats) :
                                /\ \A k \in 1..Len(e.upos) : Cardinality(answer[s][k]) = 1
                                /\ Cardinality(UNION {answer[s][k] : k \in 1..Len(e.upos)}) = Len(e.upos),
          ImplAnswer |-> /\ e.outc = "ok"
                         /\ Len(e.got) = Len(e.wmats)
                         /\ \A s \in 1..Len(e.wmats) : \A k \in 1..Len(e.upos) : answer[s][k] = {e.got[s][k]}]

JNames == {"ReqUnimodular", "ReqSimAction", "ReqSimMultiplicative", "ReqSimInvariants", "ReqSitePermutes", "ImplAnswer"}

Init == ev \in Events /\ pc = "load" /\ failed = {} /\ answer = <<>>
Load == /\ pc = "load"
        /\ answer' = Materialize(Answer(ev))
        /\ pc' = "judge"
        /\ UNCHANGED <<ev, failed>>
Judge == /\ pc = "judge"
         /\ \E jd \in {Judgements(ev)} : failed' = {nm \in JNames : ~jd[nm]}
         /\ pc' = "done"
         /\ UNCHANGED <<ev, answer>>
Next == Load \/ Judge
Spec == Init /\ [][Next]_svars

AtEnd == pc = "done"
Holds(nm) == AtEnd => nm \notin failed
ReqUnimodular == Holds("ReqUnimodular")
ReqSimAction == Holds("ReqSimAction")
ReqSimMultiplicative == Holds("ReqSimMultiplicative")
ReqSimInvariants == Holds("ReqSimInvariants")
ReqSitePermutes == Holds("ReqSitePermutes")
ImplAnswer == Holds("ImplAnswer")

Report == AtEnd => PrintT(<<"X10S", ev.id, failed, IF ev.kind = "rotmap" THEN <<>> ELSE answer>>)
=============================================================================
