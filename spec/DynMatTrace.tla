---------------------------- MODULE DynMatTrace ----------------------------
(* Conformance of phonopy's dynamical-matrix set-up with DynMat.tla.         *)
(* One event = one real session  Phonopy(unitcell, S, P, store_dense_svecs)  *)
(* projected to the abstract state (harness/c02_dynmat.py):                  *)
(*   atoms  the real supercell, in the real order (unit atom, position * D)  *)
(*   p2s, s2p  the real Primitive's maps (1-based)                           *)
(*   pmass  Primitive.masses (after Phonopy.masses = t m when scale.t # 1)   *)
(*   svecs, mult  Primitive.get_smallest_vectors(), dense or sparse storage, *)
(*          transformed to unit-cell coordinates and multiplied by D         *)
(*          (exact integers; the rounding residual is checked by the harness) *)
(*   massOK  supercell and unit-cell masses follow the primitive ones        *)
(* Events are complete cases, so DynMat!Prepare takes them as they are and   *)
(* the step machine runs on the LOGGED values: every judgement of DynMat is  *)
(* evaluated on the logged tables (code -> spec).  The invariants below are  *)
(* the trace-side names: Impl* = requirement on logged values, Conforms* =   *)
(* the logged tables are the ones the definitions produce.  The series       *)
(* `herm` TLC computes is what the harness then replays against the real     *)
(* kernels (spec -> code).                                                   *)
EXTENDS DynMat

ImplCaseWellFormed == ReqCaseWellFormed
ImplSvecCongruent == ReqSvecCongruent
ImplMultiplicity == ReqMultiplicity
ImplMassesPropagate == ReqMassesPropagate
ConformsSvecs == ReqSvecShortestSets
ConformsMasses == ReqMasses
=============================================================================
