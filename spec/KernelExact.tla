----------------------------- MODULE KernelExact -----------------------------
(* C13 - exact contracts of two index-heavy kernels, computed by TLC from    *)
(* the definition on small integer scenarios and replayed on the real        *)
(* extension (spec -> code: the "plan" states carry the inputs; code -> spec:*)
(* the "check" states carry the kernel's output, compared here).             *)
(*                                                                           *)
(* Scenario: a crystal with P atoms per primitive cell on the translation    *)
(* lattice Z_N1 x Z_N2 (the supercell), atoms s = p*N + t relabelled by the  *)
(* affine bijection l = (A*s + B) mod n so that no index map is the identity *)
(* or a stride.  All force-constant entries are distinct small integers, so  *)
(* every misplaced or untransposed element is visible and comparison is      *)
(* exact in binary64.                                                        *)
(*                                                                           *)
(* transpose_compact_fc  (c/phonopy.c:                                       *)
(*   phpy_set_index_permutation_symmetry_compact_fc, is_transpose = 1):      *)
(*   compact fc[ip][j] stands for FULL[p2s[ip]][j]; translation invariance   *)
(*   gives FULL[i][j] = fc[s2pp[i]][perms[nsym[i]][j]] where nsym[i] is the  *)
(*   translation taking i into the primitive cell.  The transposed array is  *)
(*   out[ip][j][a][b] = FULL[j][p2s[ip]][b][a].                              *)
(*                                                                           *)
(* distribute_fc2  (c/phonopy.c: distribute_fc2): for every atom `todo` that *)
(*   the operation g (rotation R, permutation perm) maps onto the computed   *)
(*   atom `done`,  fc2[todo][other] += R^T fc2[done][perm[other]] R.         *)
EXTENDS Integers, Sequences, FiniteSets, TLC

CONSTANTS Configs,   \* set of [P, N1, N2, A, B]
          Events     \* set of [kernel, cfg, out]  (out: flat sequence of integers)

VARIABLES phase, cfg, inp, ev
vars == <<phase, cfg, inp, ev>>

Mat(f) == f @@ <<>>   \* force one evaluation per element (TLC applies functions lazily)

NT(c) == c.N1 * c.N2
NA(c) == c.P * NT(c)
Lab(c, s) == (c.A * s + c.B) % NA(c)
Inv(c, l) == CHOOSE s \in 0..(NA(c) - 1) : Lab(c, s) = l
PrimOf(c, s) == s \div NT(c)
TOf(c, s) == s % NT(c)
T1(c, t) == t \div c.N2
T2(c, t) == t % c.N2
MkT(c, a, b) == (a % c.N1) * c.N2 + (b % c.N2)
AddT(c, t, u) == MkT(c, T1(c, t) + T1(c, u), T2(c, t) + T2(c, u))
NegT(c, t) == MkT(c, c.N1 - T1(c, t), c.N2 - T2(c, t))
Translate(c, s, u) == PrimOf(c, s) * NT(c) + AddT(c, TOf(c, s), u)

(* ---- inputs of transpose_compact_fc (0-based values, tables as functions) *)
P2S(c) == Mat([ip \in 0..(c.P - 1) |-> Lab(c, ip * NT(c))])
S2PP(c) == Mat([l \in 0..(NA(c) - 1) |-> PrimOf(c, Inv(c, l))])
NSym(c) == Mat([l \in 0..(NA(c) - 1) |-> NegT(c, TOf(c, Inv(c, l)))])
Perms(c) == Mat([u \in 0..(NT(c) - 1) |-> Mat([l \in 0..(NA(c) - 1) |-> Lab(c, Translate(c, Inv(c, l), u))])])
Code(c, i, j, a, b) == ((i * NA(c) + j) * 9 + a * 3 + b) + 1
CompactFC(c) == Mat([ip \in 0..(c.P - 1) |-> Mat([j \in 0..(NA(c) - 1) |->
                   Mat([a \in 0..2 |-> Mat([b \in 0..2 |-> Code(c, ip, j, a, b)])])])])

(* requirement: the definition of the transposed compact array               *)
ExpTranspose(c) ==
  LET fc == CompactFC(c)
      p2s == P2S(c)
      s2pp == S2PP(c)
      ns == NSym(c)
      pm == Perms(c)
  IN [ip \in 0..(c.P - 1) |-> [j \in 0..(NA(c) - 1) |-> [a \in 0..2 |-> [b \in 0..2 |->
        fc[s2pp[j]][pm[ns[j]][p2s[ip]]][b][a]]]]]

Flat4(f, n1, n2) ==   \* [0..n1-1][0..n2-1][0..2][0..2] -> flat sequence (C order)
  [x \in 1..(n1 * n2 * 9) |->
     LET y == x - 1 IN f[y \div (n2 * 9)][(y \div 9) % n2][(y \div 3) % 3][y % 3]]
Seq1(f, n) == [x \in 1..n |-> f[x - 1]]

(* ---- distribute_fc2: operations g = (rotation power e, translation u)      *)
(* on the one-atom-per-cell lattice (P = 1); fourfold axis when N1 = N2,     *)
(* twofold otherwise.                                                        *)
NRot(c) == IF c.N1 = c.N2 THEN 4 ELSE 2
RotT(c, e, t) ==   \* rotation power e applied to the lattice point t
  LET a == T1(c, t)  b == T2(c, t)
  IN IF NRot(c) = 4
     THEN CASE e = 0 -> MkT(c, a, b) [] e = 1 -> MkT(c, c.N1 - b, a)
            [] e = 2 -> MkT(c, c.N1 - a, c.N2 - b) [] OTHER -> MkT(c, b, c.N2 - a)
     ELSE IF e = 0 THEN MkT(c, a, b) ELSE MkT(c, c.N1 - a, c.N2 - b)
RotM(c, e) ==     \* Cartesian rotation matrix (rows), integer
  IF NRot(c) = 4
  THEN CASE e = 0 -> <<<<1,0,0>>,<<0,1,0>>,<<0,0,1>>>> [] e = 1 -> <<<<0,-1,0>>,<<1,0,0>>,<<0,0,1>>>>
         [] e = 2 -> <<<<-1,0,0>>,<<0,-1,0>>,<<0,0,1>>>> [] OTHER -> <<<<0,1,0>>,<<-1,0,0>>,<<0,0,1>>>>
  ELSE IF e = 0 THEN <<<<1,0,0>>,<<0,1,0>>,<<0,0,1>>>> ELSE <<<<-1,0,0>>,<<0,-1,0>>,<<0,0,1>>>>
NOps(c) == NRot(c) * NT(c)
OpE(c, g) == g \div NT(c)
OpU(c, g) == g % NT(c)
OpPerm(c) == Mat([g \in 0..(NOps(c) - 1) |-> Mat([l \in 0..(NA(c) - 1) |->
                Lab(c, AddT(c, RotT(c, OpE(c, g), TOf(c, Inv(c, l))), OpU(c, g)))])])
Done(c) == Lab(c, 0)
(* the operation used for atom l: rotation power (l mod NRot) followed by the  *)
(* translation that brings the rotated atom onto `done` (unique)             *)
MapSyms(c) == Mat([l \in 0..(NA(c) - 1) |->
                CHOOSE g \in 0..(NOps(c) - 1) :
                   /\ OpPerm(c)[g][l] = Done(c)
                   /\ OpE(c, g) = l % NRot(c)])
FullFC(c) == Mat([i \in 0..(NA(c) - 1) |-> Mat([j \in 0..(NA(c) - 1) |->
                Mat([a \in 0..2 |-> Mat([b \in 0..2 |-> (Code(c, i, j, a, b) % 97) - 40])])])])

ExpDistribute(c) ==
  LET fc == FullFC(c)
      pm == OpPerm(c)
      ms == MapSyms(c)
      d == Done(c)
  IN [i \in 0..(NA(c) - 1) |-> [j \in 0..(NA(c) - 1) |-> [a \in 0..2 |-> [b \in 0..2 |->
        IF i = d THEN fc[i][j][a][b]
        ELSE LET R == RotM(c, OpE(c, ms[i]))
                 src == fc[d][pm[ms[i]][j]]
                 (* (R^T src R)[a][b] = sum_{l,m} R[l][a] src[l][m] R[m][b] *)
                 term(l, m) == R[l + 1][a + 1] * src[l][m] * R[m + 1][b + 1]
             IN fc[i][j][a][b]
                + term(0,0) + term(0,1) + term(0,2) + term(1,0) + term(1,1) + term(1,2)
                + term(2,0) + term(2,1) + term(2,2)]]]]

InputOf(c) ==
  [p2s |-> Seq1(P2S(c), c.P), s2pp |-> Seq1(S2PP(c), NA(c)), nsym |-> Seq1(NSym(c), NA(c)),
   perms |-> [u \in 1..NT(c) |-> Seq1(Perms(c)[u - 1], NA(c))],
   fc |-> Flat4(CompactFC(c), c.P, NA(c)),
   expT |-> Flat4(ExpTranspose(c), c.P, NA(c)),
   dist |-> IF c.P = 1
            THEN [opperm |-> [g \in 1..NOps(c) |-> Seq1(OpPerm(c)[g - 1], NA(c))],
                  rot |-> [g \in 1..NOps(c) |-> RotM(c, OpE(c, g - 1))],
                  mapsyms |-> Seq1(MapSyms(c), NA(c)), done |-> Done(c),
                  fc |-> Flat4(FullFC(c), NA(c), NA(c)),
                  expD |-> Flat4(ExpDistribute(c), NA(c), NA(c))]
            ELSE <<>>]

-----------------------------------------------------------------------------
Init == \/ /\ phase = "plan" /\ cfg \in Configs /\ inp = InputOf(cfg) /\ ev = <<>>
        \/ /\ phase = "check" /\ ev \in Events /\ cfg = ev.cfg /\ inp = <<>>
Next == UNCHANGED vars
Spec == Init /\ [][Next]_vars

(* the scenario itself is well-formed (sanity of the specification)          *)
InvScenario ==
  (phase = "plan") =>
     /\ \A u \in 0..(NT(cfg) - 1) : {Perms(cfg)[u][l] : l \in 0..(NA(cfg) - 1)} = 0..(NA(cfg) - 1)
     /\ \A l \in 0..(NA(cfg) - 1) : Perms(cfg)[NSym(cfg)[l]][l] = P2S(cfg)[S2PP(cfg)[l]]
     (* transposing twice is the identity *)
     /\ LET e == ExpTranspose(cfg)
        IN \A ip \in 0..(cfg.P - 1), j \in 0..(NA(cfg) - 1), a \in 0..2, b \in 0..2 :
              e[S2PP(cfg)[j]][Perms(cfg)[NSym(cfg)[j]][P2S(cfg)[ip]]][b][a] = CompactFC(cfg)[ip][j][a][b]

ImplTransposeCompact ==
  (phase = "check" /\ ev.kernel = "transpose_compact_fc") =>
     ev.out = Flat4(ExpTranspose(ev.cfg), ev.cfg.P, NA(ev.cfg))
ImplDistribute ==
  (phase = "check" /\ ev.kernel = "distribute_fc2") =>
     ev.out = Flat4(ExpDistribute(ev.cfg), NA(ev.cfg), NA(ev.cfg))
ImplKnownKernel ==
  (phase = "check") => ev.kernel \in {"transpose_compact_fc", "distribute_fc2"} /\ ev.cfg \in Configs
=============================================================================
