----------------------------- MODULE Catalogue -----------------------------
(* The reference crystals (DESIGN.md 2.4).  Every entry is an integer crystal *)
(* of Crystal.tla with a spring table of Springs.tla.  Squared lengths l2 in *)
(* the spring keys are r^T G r for r in units of 1/D of the unit cell.       *)
(* Species ids are integers; the harness maps them to chemical symbols.      *)
EXTENDS Springs

Cubic == Id3
Hexagonal(c) == <<<<2,-1,0>>,<<-1,2,0>>,<<0,0,c>>>>

At(sp, n, m) == [sp |-> sp, num |-> n, m |-> m]

(* simple cubic, 1 atom; first and second neighbours *)
SC ==
  [name |-> "sc", G |-> Cubic, D |-> 1, reach |-> 3,
   atoms |-> <<At(1, <<0,0,0>>, 4)>>,
   springs |-> (<<1,1,1>> :> <<5,1>>) @@ (<<1,1,2>> :> <<2,0>>)]

(* CsCl structure, two species *)
CsCl ==
  [name |-> "cscl", G |-> Cubic, D |-> 2, reach |-> 3,
   atoms |-> <<At(1, <<0,0,0>>, 9), At(2, <<1,1,1>>, 4)>>,
   springs |-> (<<1,2,3>> :> <<4,1>>) @@ (<<1,1,4>> :> <<1,0>>) @@ (<<2,2,4>> :> <<2,1>>)]

(* rock salt, conventional cell (8 atoms, centring F), species interleaved on purpose *)
NaClConv ==
  [name |-> "nacl", G |-> Cubic, D |-> 2, reach |-> 3,
   atoms |-> <<At(1, <<0,0,0>>, 23), At(2, <<1,0,0>>, 35), At(1, <<0,1,1>>, 23), At(2, <<1,1,1>>, 35),
               At(1, <<1,0,1>>, 23), At(2, <<0,0,1>>, 35), At(1, <<1,1,0>>, 23), At(2, <<0,1,0>>, 35)>>,
   springs |-> (<<1,2,1>> :> <<6,1>>) @@ (<<1,1,2>> :> <<1,0>>) @@ (<<2,2,2>> :> <<2,0>>)]

(* rock salt, conventional cell, species grouped (the order phonopy users usually have) *)
NaClGrouped ==
  [name |-> "naclg", G |-> Cubic, D |-> 2, reach |-> 3,
   atoms |-> <<At(1, <<0,0,0>>, 23), At(1, <<0,1,1>>, 23), At(1, <<1,0,1>>, 23), At(1, <<1,1,0>>, 23),
               At(2, <<1,1,1>>, 35), At(2, <<1,0,0>>, 35), At(2, <<0,1,0>>, 35), At(2, <<0,0,1>>, 35)>>,
   springs |-> (<<1,2,1>> :> <<6,1>>) @@ (<<1,1,2>> :> <<1,0>>) @@ (<<2,2,2>> :> <<2,0>>)]

(* body-centred cubic, conventional cell (centring I) *)
BccConv ==
  [name |-> "bcc", G |-> Cubic, D |-> 2, reach |-> 3,
   atoms |-> <<At(1, <<0,0,0>>, 7), At(1, <<1,1,1>>, 7)>>,
   springs |-> (<<1,1,3>> :> <<3,1>>) @@ (<<1,1,4>> :> <<1,0>>)]

(* hexagonal close packed-like, 2 atoms, c^2/a^2 = 3/2 *)
Hcp ==
  [name |-> "hcp", G |-> Hexagonal(3), D |-> 6, reach |-> 3,
   atoms |-> <<At(1, <<0,0,0>>, 5), At(1, <<2,4,3>>, 5)>>,
   springs |-> (<<1,1,72>> :> <<3,1>>) @@ (<<1,1,51>> :> <<2,0>>)]

(* polar hexagonal (wurtzite-like, 4 atoms, two species) *)
Wurtzite ==
  [name |-> "wz", G |-> Hexagonal(5), D |-> 24, reach |-> 3,
   atoms |-> <<At(1, <<8,16,0>>, 27), At(1, <<16,8,12>>, 27), At(2, <<8,16,9>>, 14), At(2, <<16,8,21>>, 14)>>,
   springs |-> (<<1,2,405>> :> <<3,1>>) @@ (<<1,2,429>> :> <<3,1>>) @@ (<<1,1,1152>> :> <<1,0>>) @@ (<<2,2,1152>> :> <<1,0>>)]

(* triclinic P1, three atoms of two species, interleaved *)
Tric ==
  [name |-> "tric", G |-> <<<<4,1,1>>,<<1,5,2>>,<<1,2,6>>>>, D |-> 4, reach |-> 3,
   atoms |-> <<At(1, <<0,0,0>>, 12), At(2, <<1,2,1>>, 16), At(1, <<2,1,3>>, 12)>>,
   springs |-> [k \in {<<s1, s2, l2>> : s1 \in 1..2, s2 \in 1..2, l2 \in 1..64} \cap
                      {k \in (1..2) \X (1..2) \X (1..64) : k[1] <= k[2]} |->
                  <<1 + (k[3] % 3), k[3] % 2>>]]

(* simple tetragonal polar AB (P4mm-like): for NAC and anisotropy *)
TetAB ==
  [name |-> "tetab", G |-> <<<<4,0,0>>,<<0,4,0>>,<<0,0,5>>>>, D |-> 4, reach |-> 3,
   atoms |-> <<At(1, <<0,0,0>>, 24), At(2, <<2,2,1>>, 16)>>,
   springs |-> (<<1,2,37>> :> <<5,1>>) @@ (<<1,2,77>> :> <<2,0>>) @@ (<<1,1,64>> :> <<1,1>>) @@ (<<2,2,64>> :> <<1,0>>)]

(* one-dimensional-like chain in a long cell: needle cells for shortest vectors *)
Entries == <<SC, CsCl, NaClConv, NaClGrouped, BccConv, Hcp, Wurtzite, Tric, TetAB>>
EntryByName(n) == Entries[CHOOSE i \in 1..Len(Entries) : Entries[i].name = n]
Names == {Entries[i].name : i \in 1..Len(Entries)}
=============================================================================
