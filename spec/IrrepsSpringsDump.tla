---------------------------- MODULE IrrepsSpringsDump ----------------------------
(* X04: SpringsDump.tla for the entries of IrrepsCatalogue.tla (same actions and invariants; only the catalogue differs). *)
(* Computes, for catalogue entry `Entry` and each supercell matrix of `Mats`, *)
(* the exact supercell force constants of the spring model and checks the    *)
(* three invariances the listed properties take as hypothesis.  The dumped   *)
(* states are the oracle the harness realises as real arrays.                *)
EXTENDS IrrepsCatalogue

CONSTANTS Entry,  \* name of the catalogue entry
          Mats,   \* set of supercell matrices
          RepBox  \* box half-width for class representatives

VARIABLES pc, S, atoms, fc, terms, aut, cr
vars == <<pc, S, atoms, fc, terms, aut, cr>>

C == XEntryByName(Entry)
TermsC == AllTerms(C)

Init == /\ pc = "start" /\ S = Id3 /\ atoms = <<>> /\ fc = <<>> /\ terms = {} /\ aut = {} /\ cr = <<>>

Series ==
  /\ pc = "start"
  /\ terms' = TermsC
  /\ aut' = Aut(C)
  /\ cr' = [name |-> C.name, G |-> C.G, D |-> C.D, atoms |-> C.atoms, reach |-> C.reach]
  /\ pc' = "series"
  /\ UNCHANGED <<S, atoms, fc>>

Build ==
  /\ pc = "series"
  /\ \E M \in Mats :
       /\ S' = M
       /\ atoms' = SupercellAtoms(C, M, RepBox)
       /\ fc' = SuperFC(C, M, SupercellAtoms(C, M, RepBox), terms)
  /\ pc' = "built"
  /\ UNCHANGED <<terms, aut, cr>>

Next == Series \/ Build
Spec == Init /\ [][Next]_vars

InvReach == pc = "series" => ReachOK(C)
InvReps == pc = "built" => RepsComplete(S, RepBox)
InvPermSym == pc = "built" => PermSym(fc)
InvTransInv == pc = "built" => TransInv(fc)
(* the infinite-crystal series itself: Phi(a0,bt) = Phi(b0,a -t)^T *)
InvSeriesPerm ==
  pc = "series" => \A x \in terms : \E y \in terms :
      y.a = x.b /\ y.b = x.a /\ y.t = VNeg(x.t) /\ y.T = Transpose(x.T)
(* space-group invariance of the series: for (W,w) in Aut, with W acting on coordinates,   *)
(* D^2 Phi~ transforms as  T' = W^-T T W^-1 ; checked as  W^T T(image pair) W = T(pair).  *)
InvSeriesSpaceGroup ==
  pc = "series" => \A p \in aut : \A x \in {x \in terms : x.r # Zero3} :
      LET W == p[1]
          r2 == MatVec(W, x.r)
      IN \E y \in terms : /\ y.r = r2 /\ Sp(C, y.a) = Sp(C, x.a) /\ Sp(C, y.b) = Sp(C, x.b)
                          /\ MatMul(Transpose(W), MatMul(y.T, W)) = x.T
=============================================================================
