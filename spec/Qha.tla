-------------------------------- MODULE Qha --------------------------------
(* Quasi-harmonic analysis of phonopy (api_qha.PhonopyQHA, qha/core.py:       *)
(* BulkModulus, QHA.__init__ / run / _set_... / write_...) as a step machine  *)
(* over per-temperature tables with RATIONAL entries, and what C20 demands.   *)
(*                                                                            *)
(* Hypothesis of the property ("free energies that are exactly an equation of *)
(* state in volume at every temperature"), as the inputs are built:           *)
(*   El_j + P V u_PV           = Curve(qtab[j])   (only if x.elcurve)         *)
(*   Ph_k u_Ph + El_e(k) + P V u_PV = Curve(ptab[k]),  e(k) = k for "TV", 1 for "V" *)
(* Curve(p) is the EOS curve of Eos.tla with parameters p, u_PV and u_Ph the  *)
(* conversion factors REQUIRED by the unit definitions (ReqPVUnit, ReqPhUnit).*)
(*                                                                            *)
(* The non-linear fit and the degree-4 polynomial fit are UNINTERPRETED:      *)
(*   Fit(row) = p        if the row handed to the fit is exactly Curve(p)     *)
(*                       and the environment lets the fit converge,           *)
(*   polyfit4 of data that are a polynomial of degree <= 4 on >= 5 distinct   *)
(*   volumes returns it (exactly 4 distinct volumes: no claim, not generated).*)
(* What the fit does at each call is the ENVIRONMENT's choice, given with the *)
(* input (x.bmplan for BulkModulus, x.fitplan per temperature):               *)
(*   "ok" converged; "nonconv" leastsq returned a status outside 1..4;        *)
(*   "runtimeerror" / "typeerror" the fit raised.                             *)
(* A row is kept as a formal combination                                      *)
(*   [ph |-> k, phunit, el |-> j, pvsign, pvunit]  =  Ph_k phunit + El_j + pvsign P V pvunit *)
(* so "is exactly Curve(p)" is decided by cancellation (RowCurve).            *)
(*                                                                            *)
(* The machine describes the tree with the two C20 repairs (energies converted *)
(* to double; a least-squares run that did not converge is an error).  Three  *)
(* situations are OUTSIDE the statement of C20 and only observed (Obs...):    *)
(* temperatures that are not strictly ascending and fewer than 4 distinct     *)
(* volumes (the machine stops with status "unspecified": nothing is demanded  *)
(* of the result), and a fit that raises TypeError (not reachable through the *)
(* pinned scipy; the machine transcribes what QHA.run does: the previous      *)
(* temperature's parameters are reused, the first temperature fails).         *)
(* Index convention: 1-based (k = python index + 1).                          *)
EXTENDS QhaJet

CONSTANT Inputs      \* set of input records, see TypeInput

VARIABLES pc, inp, elpv, bm, numElems, rows, kept, fitted, vol, gibbs, bulk, beta, cp, cpfit, dsdv, gru, len, status
vars == <<pc, inp, elpv, bm, numElems, rows, kept, fitted, vol, gibbs, bulk, beta, cp, cpfit, dsdv, gru, len, status>>

Force(f) == f @@ <<>>          \* evaluate a function constructor once (TLC is lazy)

-----------------------------------------------------------------------------
(* units.py, transcribed as exponent vectors:  EV^ev NA^na 10^ten           *)
CodeEVAngstromToGPa == Unit(1, 0, 21)       \* EV * 1e21
CodeEvTokJmol == Unit(1, 1, -3)             \* EV / 1000 * Avogadro
CodePVUnit == UInv(CodeEVAngstromToGPa)     \* core.py: volumes * pressure / EVAngstromToGPa
CodePhUnit == UInv(CodeEvTokJmol)           \* core.py: fe_phonon / EvTokJmol
CodeBulkUnit == CodeEVAngstromToGPa         \* parameters[:, 1] * EVAngstromToGPa
CodeCpUnit == UMul(CodeEvTokJmol, Unit(0, 0, 3))           \* equiv_energies * EvTokJmol * 1000
(* cv / v / 1000 / EvTokJmol * EVAngstromToGPa divides beta * kt[GPa] *)
CodeGruUnit == UDiv(CodeBulkUnit, UMul(UInv(UMul(Unit(0, 0, 3), CodeEvTokJmol)), CodeEVAngstromToGPa))
CodeDsdvUnit == Unit(0, -1, 21)             \* write_heat_capacity_P_polyfit: dsdv * 1e21 / Avogadro

(* the same factors from the definitions of the units (SI): requirement side *)
SIeV == Unit(1, 0, 0)             \* J
SIkJ == Unit(0, 0, 3)             \* J
SIGPa == Unit(0, 0, 9)            \* J / m^3
SIA3 == Unit(0, 0, -30)           \* m^3
PerMol == Unit(0, -1, 0)          \* per formula unit = per mol / NA
ReqPVUnit == UDiv(UMul(SIGPa, SIA3), SIeV)              \* GPa A^3 -> eV
ReqPhUnit == UDiv(UMul(SIkJ, PerMol), SIeV)             \* kJ/mol -> eV per cell
ReqBulkUnit == UDiv(UDiv(SIeV, SIA3), SIGPa)            \* eV/A^3 -> GPa
ReqCpUnit == UDiv(SIeV, PerMol)                          \* eV/K per cell -> J/K/mol
ReqGruUnit == ReqCpUnit            \* V beta K_T / C_V with C_V given in J/K/mol
ReqDsdvUnit == UDiv(UDiv(PerMol, SIA3), SIGPa)          \* J/K/mol/A^3 -> GPa/K per cell

-----------------------------------------------------------------------------
(* polynomials with rational coefficients  c[1] + c[2] x + c[3] x^2 + ...    *)
RECURSIVE Horner(_, _, _)
Horner(c, x, k) == IF k > Len(c) THEN R0 ELSE RAdd(c[k], RMul(x, Horner(c, x, k + 1)))
PolyEval(c, x) == Horner(c, x, 1)
PolyD(c) == [k \in 1..(Len(c) - 1) |-> RMul(RInt(k), c[k + 1])]
Degree(c) == IF \A k \in 1..Len(c) : c[k] = R0 THEN 0
             ELSE (CHOOSE k \in 1..Len(c) : c[k] # R0 /\ \A m \in (k + 1)..Len(c) : c[m] = R0) - 1

NT(x) == Len(x.T)
TT(x, k) == RInt(x.T[k])
EIdx(x, k) == IF x.shape = "TV" THEN k ELSE 1
PressureActs(x) == x.P.set /\ x.P.v # R0
Ascending(x) == \A k \in 1..(NT(x) - 1) : x.T[k] < x.T[k + 1]
Plans == {"ok", "nonconv", "runtimeerror", "typeerror"}
(* what a caller may pass and must get a result for (given converging fits)  *)
ValidInput(x) ==
  /\ Ascending(x) /\ x.nvd >= 5
  /\ x.shape = "TV" => Len(x.qtab) >= NT(x)
AllFitsOk(x) == (\A i \in 1..NT(x) : x.fitplan[i] = "ok") /\ (\A j \in 1..Len(x.bmplan) : x.bmplan[j] = "ok")

CvAt(x, k, v) == PolyEval(x.cvtab[k], RSub(v, RInt(x.vref)))
DsDvAt(x, k, v) == PolyEval(PolyD(x.stab[k]), RSub(v, RInt(x.vref)))

TypeInput(x) ==
  /\ NT(x) >= 1
  /\ x.shape \in {"V", "TV"} /\ x.eldtype \in {"float", "int"} /\ x.voldtype \in {"float", "int"}
  /\ Len(x.ptab) = NT(x) /\ Len(x.cvtab) = NT(x) /\ Len(x.stab) = NT(x)
  /\ Len(x.fitplan) = NT(x) /\ \A i \in 1..NT(x) : x.fitplan[i] \in Plans
  /\ Len(x.qtab) >= 1 /\ (x.shape = "V" => Len(x.qtab) = 1)
  /\ Len(x.bmplan) = Len(x.qtab) /\ \A j \in 1..Len(x.qtab) : x.bmplan[j] \in Plans
  /\ x.nvd >= 1 /\ x.wf \in BOOLEAN /\ x.elcurve \in BOOLEAN
  (* order in which the volume points (and, consistently, all per-volume inputs) are listed *)
  /\ x.vorder \in {"asc", "desc", "shuffle"}
  (* all energies carry the constant offset x.shift: E0 = (E0 without offset) + shift *)
  /\ Len(x.e0base) = NT(x) /\ \A k \in 1..NT(x) : x.ptab[k].E0 = RAdd(x.e0base[k], x.shift)
  /\ \A k \in 1..NT(x) : IsRat(x.ptab[k].V0) /\ IsRat(x.ptab[k].E0) /\ IsRat(x.ptab[k].B0)
  (* heat capacities are either well above the 1e-10 cutoff of the Gruneisen routine or <= 0 *)
  /\ \A k \in 1..NT(x) : LET c == CvAt(x, k, x.ptab[k].V0)
                         IN  RLe(c, R0) \/ RLe(<<1, 1000>>, RDiv(c, x.ptab[k].V0))
  /\ x.poly.set => \A k \in 1..NT(x) :
        /\ x.ptab[k].V0 = PolyEval(x.poly.v, TT(x, k))
        /\ x.ptab[k].E0 = PolyEval(x.poly.e, TT(x, k))

-----------------------------------------------------------------------------
(* formal rows and the uninterpreted fit *)
PVMatches(x, r) == PressureActs(x) => (r.pvsign = 1 /\ r.pvunit = ReqPVUnit)
(* index k such that the row is exactly Curve(ptab[k]); 0 if it is no such curve *)
RowCurve(x, r) ==
  IF r.ph \in 1..NT(x) /\ r.phunit = ReqPhUnit /\ r.el = EIdx(x, r.ph) /\ PVMatches(x, r) THEN r.ph ELSE 0
(* electronic row alone (BulkModulus): Curve(qtab[j]) if the electronic energies are curves at all *)
ElCurve(x, r) == IF x.elcurve /\ r.el \in 1..Len(x.qtab) /\ PVMatches(x, r) THEN r.el ELSE 0

ArgMinFirst(x) ==
  LET d(k) == IAbs(x.T[k] - x.tmax.v)
  IN  CHOOSE k \in 1..NT(x) : /\ \A m \in 1..NT(x) : d(k) <= d(m)
                              /\ \A m \in 1..(k - 1) : d(m) > d(k)

(* leading coefficient and derivative at the middle node of the parabola     *)
(* through (t1,f1), (t2,f2), (t3,f3): Lagrange form                          *)
ParabolaA(t1, t2, t3, f1, f2, f3) ==
  RAdd3(RDiv(f1, RMul(RSub(t1, t2), RSub(t1, t3))),
        RDiv(f2, RMul(RSub(t2, t1), RSub(t2, t3))),
        RDiv(f3, RMul(RSub(t3, t1), RSub(t3, t2))))
ParabolaDMid(t1, t2, t3, f1, f2, f3) ==
  RAdd3(RMul(f1, RDiv(RSub(t2, t3), RMul(RSub(t1, t2), RSub(t1, t3)))),
        RMul(f2, RDiv(RAdd(RSub(t2, t1), RSub(t2, t3)), RMul(RSub(t2, t1), RSub(t2, t3)))),
        RMul(f3, RDiv(RSub(t2, t1), RMul(RSub(t3, t1), RSub(t3, t2)))))

-----------------------------------------------------------------------------
NoPV == [sign |-> 0, unit |-> UOne]
UnknownPar == [E0 |-> <<0, 0>>, B0 |-> <<0, 0>>, Bp |-> <<0, 0>>, V0 |-> <<0, 0>>]   \* not a rational: equals no parameter set
InitWith(x) ==
  /\ pc = "choose" /\ inp = x
  /\ elpv = NoPV /\ bm = <<>> /\ numElems = 0 /\ rows = <<>> /\ kept = <<>> /\ fitted = <<>>
  /\ vol = <<>> /\ gibbs = <<>> /\ bulk = <<>> /\ beta = <<>> /\ cp = <<>> /\ cpfit = <<>> /\ dsdv = <<>> /\ gru = <<>>
  /\ len = 0 /\ status = "running"
Init == \E x \in Inputs : InitWith(x)

Refuse == status' = "refused" /\ pc' = "done"

(* BulkModulus.__init__ and QHA.__init__: electronic energies (converted to double, *)
(* whatever number type came in) += V P / EVAngstromToGPa, broadcast along the     *)
(* volume axis for both shapes                                                     *)
AddPV ==
  /\ pc = "choose"
  /\ elpv' = IF PressureActs(inp) THEN [sign |-> 1, unit |-> CodePVUnit] ELSE NoPV
  /\ pc' = "bulkmodulus"
  /\ UNCHANGED <<inp, bm, numElems, rows, kept, fitted, vol, gibbs, bulk, beta, cp, cpfit, dsdv, gru, len, status>>

(* BulkModulus: one fit (shape V) or one per row (shape TV) of the electronic energies; *)
(* any failing fit is an error (TypeError is re-raised as RuntimeError there)           *)
BulkModulusFit ==
  /\ pc = "bulkmodulus"
  /\ LET r(j) == [el |-> j, pvsign |-> elpv.sign, pvunit |-> elpv.unit]
     IN  IF \E j \in 1..Len(inp.qtab) : inp.bmplan[j] # "ok"
           THEN Refuse /\ bm' = bm
           ELSE /\ bm' = Force([j \in 1..Len(inp.qtab) |-> ElCurve(inp, r(j))])
                /\ pc' = "validate" /\ status' = status
  /\ UNCHANGED <<inp, elpv, numElems, rows, kept, fitted, vol, gibbs, bulk, beta, cp, cpfit, dsdv, gru, len>>

(* outside the statement: unordered / repeated temperatures, underdetermined fit *)
Validate ==
  /\ pc = "validate"
  /\ IF Ascending(inp) /\ inp.nvd >= 4 THEN pc' = "numelems" /\ status' = status
     ELSE status' = "unspecified" /\ pc' = "done"
  /\ UNCHANGED <<inp, elpv, bm, numElems, rows, kept, fitted, vol, gibbs, bulk, beta, cp, cpfit, dsdv, gru, len>>

(* QHA.run: num_elems = _get_num_elems() + 1, minus one if beyond the grid *)
NumElems ==
  /\ pc = "numelems"
  /\ LET n0 == IF inp.tmax.set THEN ArgMinFirst(inp) ELSE NT(inp)
         n1 == n0 + 1
     IN  numElems' = IF n1 > NT(inp) THEN n1 - 1 ELSE n1
  /\ pc' = "fit"
  /\ UNCHANGED <<inp, elpv, bm, rows, kept, fitted, vol, gibbs, bulk, beta, cp, cpfit, dsdv, gru, len, status>>

(* one pass of the temperature loop of QHA.run.  The start values of the fit are   *)
(* derived from the row itself, never from another temperature.                    *)
FitAt ==
  /\ pc = "fit" /\ Len(rows) < numElems
  /\ LET i == Len(rows) + 1
         r == [ph |-> i, phunit |-> CodePhUnit, el |-> EIdx(inp, i), pvsign |-> elpv.sign, pvunit |-> elpv.unit]
         c == RowCurve(inp, r)
         plan == inp.fitplan[i]
     IN  IF inp.shape = "TV" /\ i > Len(inp.qtab)                 \* no electronic row for this temperature
           THEN Refuse /\ UNCHANGED <<rows, kept, fitted>>
         ELSE IF plan \in {"nonconv", "runtimeerror"}              \* reported as an error
           THEN Refuse /\ rows' = Append(rows, r) /\ UNCHANGED <<kept, fitted>>
         ELSE IF plan = "typeerror" /\ fitted = <<>>              \* `ep` is still unbound: UnboundLocalError
           THEN Refuse /\ rows' = Append(rows, r) /\ UNCHANGED <<kept, fitted>>
         ELSE IF plan = "typeerror"                                \* `ep` still holds the previous parameters
           THEN /\ rows' = Append(rows, r) /\ kept' = Append(kept, i)
                /\ fitted' = Append(fitted, fitted[Len(fitted)]) /\ UNCHANGED <<pc, status>>
         ELSE IF c = 0
           THEN status' = "fitfail" /\ pc' = "done" /\ rows' = Append(rows, r) /\ UNCHANGED <<kept, fitted>>
         ELSE /\ rows' = Append(rows, r) /\ kept' = Append(kept, i) /\ fitted' = Append(fitted, inp.ptab[c])
              /\ UNCHANGED <<pc, status>>
  /\ UNCHANGED <<inp, elpv, bm, numElems, vol, gibbs, bulk, beta, cp, cpfit, dsdv, gru, len>>

(* the arrays of the surviving temperatures; num_elems becomes their number *)
Extract ==
  /\ pc = "fit" /\ Len(rows) = numElems
  /\ IF kept = <<>>
       THEN Refuse /\ UNCHANGED <<vol, gibbs, bulk, numElems>>
       ELSE /\ vol' = [k \in 1..Len(kept) |-> fitted[k].V0]
            /\ gibbs' = [k \in 1..Len(kept) |-> fitted[k].E0]
            /\ bulk' = [k \in 1..Len(kept) |-> fitted[k].B0]
            /\ numElems' = Len(kept)
            /\ pc' = "beta" /\ status' = status
  /\ UNCHANGED <<inp, elpv, bm, rows, kept, fitted, beta, cp, cpfit, dsdv, gru, len>>

TK(k) == TT(inp, kept[k])      \* temperature of the k-th surviving point
NB == IF numElems >= 2 THEN numElems - 1 ELSE 1

(* _set_thermal_expansion *)
SetThermalExpansion ==
  /\ pc = "beta"
  /\ beta' = Force([k \in 1..NB |->
               IF k = 1 THEN R0
               ELSE RDiv(RDiv(RSub(vol[k + 1], vol[k - 1]), RSub(TK(k + 1), TK(k - 1))), vol[k])])
  /\ pc' = "cp"
  /\ UNCHANGED <<inp, elpv, bm, numElems, rows, kept, fitted, vol, gibbs, bulk, cp, cpfit, dsdv, gru, len, status>>

(* _set_heat_capacity_P_numerical: -T * 2 a of the parabola through three points of G *)
SetCpNumerical ==
  /\ pc = "cp"
  /\ cp' = Force([k \in 1..NB |->
             IF k = 1 THEN R0
             ELSE RNeg(RMul(TK(k), RMul(RInt(2),
                    ParabolaA(TK(k - 1), TK(k), TK(k + 1), gibbs[k - 1], gibbs[k], gibbs[k + 1]))))])
  /\ pc' = "cpfit"
  /\ UNCHANGED <<inp, elpv, bm, numElems, rows, kept, fitted, vol, gibbs, bulk, beta, cpfit, dsdv, gru, len, status>>

(* _set_heat_capacity_P_polyfit: C_V(V_eq) + T dV/dT dS/dV, C_V and S of the SAME temperature *)
SetCpPolyfit ==
  /\ pc = "cpfit"
  /\ dsdv' = Force([k \in 1..NB |-> IF k = 1 THEN R0 ELSE DsDvAt(inp, kept[k], vol[k])])
  /\ cpfit' = Force([k \in 1..NB |->
                IF k = 1 THEN R0
                ELSE RAdd(CvAt(inp, kept[k], vol[k]),
                          RMul3(TK(k),
                                ParabolaDMid(TK(k - 1), TK(k), TK(k + 1), vol[k - 1], vol[k], vol[k + 1]),
                                DsDvAt(inp, kept[k], vol[k])))])
  /\ pc' = "gru"
  /\ UNCHANGED <<inp, elpv, bm, numElems, rows, kept, fitted, vol, gibbs, bulk, beta, cp, gru, len, status>>

(* _set_gruneisen_parameter: beta K_T / (C_V / V); 0 below the heat-capacity cutoff *)
SetGruneisen ==
  /\ pc = "gru"
  /\ gru' = Force([k \in 1..Len(beta) |->
              IF k = 1 \/ RLe(CvAt(inp, kept[k], vol[k]), R0) THEN R0
              ELSE RDiv(RMul(beta[k], bulk[k]), RDiv(CvAt(inp, kept[k], vol[k]), vol[k]))])
  /\ pc' = "len"
  /\ UNCHANGED <<inp, elpv, bm, numElems, rows, kept, fitted, vol, gibbs, bulk, beta, cp, cpfit, dsdv, len, status>>

(* self._len = len(thermal_expansions); assert self._len + 1 == self._num_elems *)
SetLen ==
  /\ pc = "len"
  /\ len' = Len(beta)
  /\ status' = IF Len(beta) + 1 = numElems THEN "ok" ELSE "assert"
  /\ pc' = "done"
  /\ UNCHANGED <<inp, elpv, bm, numElems, rows, kept, fitted, vol, gibbs, bulk, beta, cp, cpfit, dsdv, gru>>

Next == AddPV \/ BulkModulusFit \/ Validate \/ NumElems \/ FitAt \/ Extract \/ SetThermalExpansion
        \/ SetCpNumerical \/ SetCpPolyfit \/ SetGruneisen \/ SetLen
Spec == Init /\ [][Next]_vars

(* what the public properties return: everything cut to [:len] *)
Cut(s, n) == SubSeq(s, 1, IF n < Len(s) THEN n ELSE Len(s))
(* heat_capacity_P_polyfit raises NotImplementedError for shape "TV" *)
CpfitAvail(x) == x.shape = "V"
BmPar(x, b) == [j \in 1..Len(b) |-> IF b[j] \in 1..Len(x.qtab) THEN x.qtab[b[j]] ELSE UnknownPar]
KeptRows == [k \in 1..Len(kept) |-> rows[kept[k]]]

(* write_... methods: one line "T value" per returned temperature, with these C formats *)
FileSpecs ==
  <<[file |-> "volume-temperature.dat", attr |-> "vol", tw |-> 25, tp |-> 15, vw |-> 25, vp |-> 15],
    [file |-> "thermal_expansion.dat", attr |-> "beta", tw |-> 25, tp |-> 15, vw |-> 25, vp |-> 15],
    [file |-> "gibbs-temperature.dat", attr |-> "gibbs", tw |-> 20, tp |-> 15, vw |-> 25, vp |-> 15],
    [file |-> "bulk_modulus-temperature.dat", attr |-> "bulk", tw |-> 20, tp |-> 15, vw |-> 25, vp |-> 15],
    [file |-> "Cp-temperature.dat", attr |-> "cp", tw |-> 20, tp |-> 15, vw |-> 20, vp |-> 15],
    [file |-> "Cp-temperature_polyfit.dat", attr |-> "cpfitfile", tw |-> 20, tp |-> 15, vw |-> 20, vp |-> 15],
    [file |-> "dsdv-temperature.dat", attr |-> "dsdv", tw |-> 20, tp |-> 15, vw |-> 20, vp |-> 15],
    [file |-> "gruneisen-temperature.dat", attr |-> "gru", tw |-> 20, tp |-> 15, vw |-> 25, vp |-> 15]>>
(* the writers print the internal tables (the polyfit writer also for shape "TV") *)
TableOf(a) == CASE a = "vol" -> vol [] a = "beta" -> beta [] a = "gibbs" -> gibbs [] a = "bulk" -> bulk
                [] a = "cp" -> cp [] a = "cpfitfile" -> cpfit [] a = "dsdv" -> dsdv [] a = "gru" -> gru
OutFiles ==
  [i \in 1..Len(FileSpecs) |->
     [attr |-> FileSpecs[i].attr, fmtok |-> TRUE,
      trows |-> [k \in 1..len |-> <<TT(inp, kept[k]), TableOf(FileSpecs[i].attr)[k]>>]]]
Ok == status = "ok"
Out == [len |-> IF Ok THEN len ELSE 0, status |-> status,
        bm |-> bm, bmpar |-> BmPar(inp, bm),
        rows |-> IF Ok THEN Cut(KeptRows, len) ELSE <<>>,
        vol |-> IF Ok THEN Cut(vol, len) ELSE <<>>, gibbs |-> IF Ok THEN Cut(gibbs, len) ELSE <<>>,
        bulk |-> IF Ok THEN Cut(bulk, len) ELSE <<>>, beta |-> IF Ok THEN Cut(beta, len) ELSE <<>>,
        cp |-> IF Ok THEN Cut(cp, len) ELSE <<>>,
        cpfit |-> IF Ok /\ CpfitAvail(inp) THEN Cut(cpfit, len) ELSE <<>>,
        gru |-> IF Ok THEN Cut(gru, len) ELSE <<>>,
        files |-> IF Ok /\ inp.wf THEN OutFiles ELSE <<>>]

-----------------------------------------------------------------------------
(* THE REQUIREMENT, on any result record o (the machine's Out or one         *)
(* projected from the implementation) for input x.                           *)

(* inputs the statement of C20 speaks about *)
NoTypeError(x) == \A i \in 1..NT(x) : x.fitplan[i] # "typeerror"
InStatement(x) == Ascending(x) /\ x.nvd >= 4 /\ NoTypeError(x)
(* OBSERVATIONS outside the statement (recorded, never a violation): would such input be refused; *)
(* is a temperature whose fit raised TypeError absent from the result                             *)
ObsRefuses(x, o) == (~Ascending(x) \/ x.nvd < 4) => o.status # "ok"
ObsTypeErrorNotReplaced(x, o) ==
  o.status = "ok" => \A k \in 1..Len(o.rows) : o.rows[k].ph \in 1..NT(x) => x.fitplan[o.rows[k].ph] # "typeerror"
ReqCompletes(x, o) == (ValidInput(x) /\ AllFitsOk(x) /\ NT(x) >= 2) => o.status = "ok"

(* original temperature index of each returned row *)
Tidx(o) == [k \in 1..Len(o.rows) |-> o.rows[k].ph]
(* temperatures attempted for an admissible choice n of the number of points: the  *)
(* grid temperature nearest to t_max (any of two equally near ones) plus one, or    *)
(* all; the ones whose fit the environment let converge; all but the last of them   *)
(* are returned (the last only serves the central differences)                      *)
Nearest(x) == {k \in 1..NT(x) : \A m \in 1..NT(x) : IAbs(x.T[k] - x.tmax.v) <= IAbs(x.T[m] - x.tmax.v)}
AdmissibleN(x) == {IF t + 1 > NT(x) THEN NT(x) ELSE t + 1 : t \in (IF x.tmax.set THEN Nearest(x) ELSE {NT(x)})}
RECURSIVE OkIn(_, _, _)
OkIn(x, n, i) == IF i > n THEN <<>>
                 ELSE IF x.fitplan[i] = "ok" THEN <<i>> \o OkIn(x, n, i + 1) ELSE OkIn(x, n, i + 1)
AllButLast(s) == SubSeq(s, 1, Len(s) - 1)
(* the surviving temperatures (with the last one) that explain the returned rows; <<>> if none does *)
KeptFor(x, o) ==
  LET cands == {n \in AdmissibleN(x) : AllButLast(OkIn(x, n, 1)) = Tidx(o)}
  IN  IF cands = {} THEN <<>> ELSE OkIn(x, CHOOSE n \in cands : TRUE, 1)
ReqLength(x, o) ==
  /\ o.len >= 1
  /\ KeptFor(x, o) # <<>>
  /\ Len(o.rows) = o.len /\ Len(o.vol) = o.len /\ Len(o.gibbs) = o.len /\ Len(o.bulk) = o.len
  /\ Len(o.beta) = o.len /\ Len(o.cp) = o.len /\ Len(o.gru) = o.len
  /\ CpfitAvail(x) => Len(o.cpfit) = o.len
(* a fit that failed is never silently replaced: the run is an error, or the        *)
(* temperature does not appear in the result                                        *)
ReqFailedFitReported(x, o) ==
  /\ (\E j \in 1..Len(x.bmplan) : x.bmplan[j] # "ok") => o.status # "ok"
  /\ o.status = "ok" => \A k \in 1..Len(o.rows) :
        o.rows[k].ph \in 1..NT(x) /\ x.fitplan[o.rows[k].ph] \notin {"nonconv", "runtimeerror"}

(* the row fitted for temperature t is phonon row t + electronic row of the SAME *)
(* temperature (or the single one) *)
ReqPerTemperatureElectronic(x, o) ==
  \A k \in 1..Len(o.rows) : o.rows[k].el = EIdx(x, o.rows[k].ph)
ReqPhononUnit(x, o) == \A k \in 1..Len(o.rows) : o.rows[k].phunit = ReqPhUnit
(* pressure enters as + P V, converted GPa A^3 -> eV *)
ReqPressureSign(x, o) == \A k \in 1..Len(o.rows) : PVMatches(x, o.rows[k])
ReqNoSpuriousPV(x, o) == ~PressureActs(x) => \A k \in 1..Len(o.rows) : o.rows[k].pvsign = 0
(* recovery of the known parameters at each returned temperature *)
PT(x, o, k) == x.ptab[o.rows[k].ph]
InRange(x, o) == \A k \in 1..Len(o.rows) : o.rows[k].ph \in 1..NT(x)
ReqRecoverVolume(x, o) == InRange(x, o) /\ Len(o.vol) = Len(o.rows) /\ \A k \in 1..Len(o.vol) : o.vol[k] = PT(x, o, k).V0
ReqRecoverGibbs(x, o) == InRange(x, o) /\ Len(o.gibbs) = Len(o.rows) /\ \A k \in 1..Len(o.gibbs) : o.gibbs[k] = PT(x, o, k).E0
ReqRecoverBulk(x, o) == InRange(x, o) /\ Len(o.bulk) = Len(o.rows) /\ \A k \in 1..Len(o.bulk) : o.bulk[k] = PT(x, o, k).B0
(* the zero of energy is arbitrary: adding a constant C to all (electronic) energies shifts  *)
(* the Gibbs energy of every temperature by C and leaves V0(T), B0(T) untouched - for every  *)
(* energy scale and however little consecutive temperatures differ                            *)
ReqShiftInvariance(x, o) ==
  /\ InRange(x, o) /\ Len(o.gibbs) = Len(o.rows) /\ Len(o.vol) = Len(o.rows) /\ Len(o.bulk) = Len(o.rows)
  /\ \A k \in 1..Len(o.rows) :
        /\ RSub(o.gibbs[k], x.shift) = x.e0base[o.rows[k].ph]
        /\ o.vol[k] = PT(x, o, k).V0 /\ o.bulk[k] = PT(x, o, k).B0
  /\ x.elcurve => \A j \in 1..Len(o.bmpar) : j <= Len(x.qtab) =>
        o.bmpar[j].Bp = x.qtab[j].Bp /\ o.bmpar[j].V0 = x.qtab[j].V0 /\ o.bmpar[j].B0 = x.qtab[j].B0
(* electronic-only bulk modulus object: one curve (V) / one per row (TV) *)
ReqBulkModulusObject(x, o) ==
  x.elcurve =>
    /\ Len(o.bm) = Len(x.qtab) /\ \A j \in 1..Len(o.bm) : o.bm[j] = j
    /\ Len(o.bmpar) = Len(x.qtab) /\ \A j \in 1..Len(o.bmpar) : o.bmpar[j] = x.qtab[j]

(* finite differences, from the definition of the derivative of the generating *)
(* polynomials: a central difference is exact for degree <= 1 on any grid and  *)
(* for degree <= 2 on a locally uniform grid; a three-point parabola is exact  *)
(* for degree <= 2 on any grid and for degree <= 3 (second derivative) on a    *)
(* locally uniform grid.  K: surviving temperature indices, K[k] the k-th.     *)
Uniform(x, K, k) == x.T[K[k + 1]] - x.T[K[k]] = x.T[K[k]] - x.T[K[k - 1]]
DV(x, i) == PolyEval(PolyD(x.poly.v), TT(x, i))
D2E(x, i) == PolyEval(PolyD(PolyD(x.poly.e)), TT(x, i))
BetaExact(x, K, k) == x.poly.set /\ (Degree(x.poly.v) <= 1 \/ (Degree(x.poly.v) <= 2 /\ Uniform(x, K, k)))
ReqThermalExpansion(x, o) ==
  LET K == KeptFor(x, o) IN
  K # <<>> => \A k \in 2..Len(o.beta) : BetaExact(x, K, k) => RMul(o.beta[k], x.ptab[K[k]].V0) = DV(x, K[k])
ReqHeatCapacity(x, o) ==
  LET K == KeptFor(x, o) IN
  K # <<>> => \A k \in 2..Len(o.cp) :
    (x.poly.set /\ (Degree(x.poly.e) <= 2 \/ (Degree(x.poly.e) <= 3 /\ Uniform(x, K, k))))
      => o.cp[k] = RNeg(RMul(TT(x, K[k]), D2E(x, K[k])))
ReqHeatCapacityPolyfit(x, o) ==
  LET K == KeptFor(x, o) IN
  K # <<>> => \A k \in 2..Len(o.cpfit) :
    (x.poly.set /\ Degree(x.poly.v) <= 2)
      => o.cpfit[k] = RAdd(CvAt(x, K[k], x.ptab[K[k]].V0),
                           RMul3(TT(x, K[k]), DV(x, K[k]), DsDvAt(x, K[k], x.ptab[K[k]].V0)))
(* gamma = V beta K_T / C_V; reported as 0 where C_V vanishes *)
ReqGruneisen(x, o) ==
  LET K == KeptFor(x, o) IN
  K # <<>> => \A k \in 2..Len(o.gru) :
    LET c == CvAt(x, K[k], x.ptab[K[k]].V0) IN
    IF RLe(c, R0) THEN o.gru[k] = R0
    ELSE BetaExact(x, K, k) => RMul(o.gru[k], c) = RMul(DV(x, K[k]), x.ptab[K[k]].B0)
(* files equal the attributes at printed precision (f.fmtok: the line is the C format of   *)
(* FileSpecs applied to the attribute value, character by character), one line per          *)
(* returned temperature, with that temperature                                               *)
AttrOf(o, a) == CASE a = "vol" -> o.vol [] a = "beta" -> o.beta [] a = "gibbs" -> o.gibbs [] a = "bulk" -> o.bulk
                  [] a = "cp" -> o.cp [] a = "gru" -> o.gru [] a = "cpfitfile" -> o.cpfit
PublicAttr(x, a) == a \in {"vol", "beta", "gibbs", "bulk", "cp", "gru"} \/ (a = "cpfitfile" /\ CpfitAvail(x))
ReqFiles(x, o) ==
  \A i \in 1..Len(o.files) :
    LET f == o.files[i] IN
    /\ Len(f.trows) = o.len
    /\ \A k \in 1..Len(f.trows) : k <= Len(o.rows) => f.trows[k][1] = TT(x, o.rows[k].ph)
    /\ PublicAttr(x, f.attr) =>
          /\ f.fmtok
          /\ \A k \in 1..Len(f.trows) : k <= Len(AttrOf(o, f.attr)) => f.trows[k][2] = AttrOf(o, f.attr)[k]
(* the result is a function of the SET of (volume, energies, free energies) tuples, not of   *)
(* the order in which they are listed: for every listing order the rows that reach the fit   *)
(* are the formal combinations of the (consistently ordered) inputs, and V0(T), G(T), B(T),  *)
(* the thermal expansion are those of the generating parameters                              *)
ReqOrderInvariance(x, o) ==
  /\ ReqPerTemperatureElectronic(x, o) /\ ReqPhononUnit(x, o) /\ ReqPressureSign(x, o)
  /\ ReqRecoverVolume(x, o) /\ ReqRecoverGibbs(x, o) /\ ReqRecoverBulk(x, o)
  /\ ReqThermalExpansion(x, o)
ReqUnits ==
  /\ CodePVUnit = ReqPVUnit /\ CodePhUnit = ReqPhUnit /\ CodeBulkUnit = ReqBulkUnit
  /\ CodeCpUnit = ReqCpUnit /\ CodeGruUnit = ReqGruUnit /\ CodeDsdvUnit = ReqDsdvUnit

-----------------------------------------------------------------------------
(* invariants of the machine *)
AtEnd == pc = "done"
Done == AtEnd /\ status = "ok"
TypeOK == pc = "choose" => TypeInput(inp)
(* every index the loops and stencils touch exists *)
InvIndexSafety ==
  /\ pc \in {"fit", "beta", "cp", "cpfit", "gru", "len"} => numElems \in 1..NT(inp)
  /\ pc = "fit" => \A k \in 1..Len(rows) : rows[k].el \in 1..Len(inp.qtab)
  /\ pc \in {"beta", "cp", "cpfit"} =>
        /\ Len(vol) = numElems /\ Len(gibbs) = numElems /\ Len(kept) = numElems
        /\ \A k \in 2..(numElems - 1) : k + 1 <= Len(vol) /\ kept[k + 1] <= NT(inp) /\ kept[k] <= Len(inp.cvtab)
InvCompletes == AtEnd => ReqCompletes(inp, Out)
InvFailedFitReported == AtEnd => ReqFailedFitReported(inp, Out)
InvLength == Done /\ InStatement(inp) => ReqLength(inp, Out)
InvPerTemperatureElectronic == Done /\ InStatement(inp) => ReqPerTemperatureElectronic(inp, Out)
InvPhononUnit == Done /\ InStatement(inp) => ReqPhononUnit(inp, Out)
InvPressureSign == Done /\ InStatement(inp) => ReqPressureSign(inp, Out) /\ ReqNoSpuriousPV(inp, Out)
InvRecovery == Done /\ InStatement(inp) => ReqRecoverVolume(inp, Out) /\ ReqRecoverGibbs(inp, Out) /\ ReqRecoverBulk(inp, Out)
InvShiftInvariance == Done /\ InStatement(inp) => ReqShiftInvariance(inp, Out)
InvOrderInvariance == Done /\ InStatement(inp) => ReqOrderInvariance(inp, Out)
InvBulkModulusObject == Done /\ InStatement(inp) => ReqBulkModulusObject(inp, Out)
InvThermalExpansion == Done /\ InStatement(inp) => ReqThermalExpansion(inp, Out)
InvHeatCapacity == Done /\ InStatement(inp) => ReqHeatCapacity(inp, Out)
InvHeatCapacityPolyfit == Done /\ InStatement(inp) => ReqHeatCapacityPolyfit(inp, Out)
InvGruneisen == Done /\ InStatement(inp) => ReqGruneisen(inp, Out)
InvFiles == Done /\ InStatement(inp) => ReqFiles(inp, Out)
InvUnits == ReqUnits
(* hands the expected tables of every input to the harness (replay direction) *)
Emit == AtEnd => PrintT(<<"OUT", inp.id, Out>>)
=============================================================================
