-------------------------------- MODULE Qha --------------------------------
(* Quasi-harmonic analysis of phonopy (api_qha.PhonopyQHA, qha/core.py:       *)
(* BulkModulus, QHA.__init__ / run / _set_...) as a step machine over per-    *)
(* temperature tables with RATIONAL entries, and what C20 demands of it.      *)
(*                                                                            *)
(* Hypothesis of the property ("free energies that are exactly an equation of *)
(* state in volume at every temperature"), as the inputs are built:           *)
(*   El_j + P V u_PV           = Curve(qtab[j])   (j = 1 for shape "V")       *)
(*   Ph_k u_Ph + Curve(qtab[e(k)]) = Curve(ptab[k]),  e(k) = k for "TV", 1 for "V" *)
(* Curve(p) is the EOS curve of Eos.tla with parameters p, u_PV and u_Ph the  *)
(* conversion factors REQUIRED by the unit definitions (ReqPVUnit, ReqPhUnit).*)
(*                                                                            *)
(* The non-linear fit and the degree-4 polynomial fit are UNINTERPRETED:      *)
(*   Fit(row) = p        if the row handed to the fit is exactly Curve(p),    *)
(*   polyfit4 of data that are a polynomial of degree <= 4 returns it.        *)
(* A row is kept as a formal combination                                      *)
(*   [ph |-> k, phunit, el |-> j, pvsign, pvunit]  =  Ph_k phunit + El_j + pvsign P V pvunit *)
(* so "is exactly Curve(p)" is decided by cancellation (RowCurve).            *)
(*                                                                            *)
(* Index convention: 1-based (k = python index + 1).                          *)
EXTENDS QhaJet

CONSTANT Inputs      \* set of input records, see TypeInput

VARIABLES pc, inp, elpv, bm, numElems, rows, fitted, vol, gibbs, bulk, beta, cp, cpfit, gru, len, status
vars == <<pc, inp, elpv, bm, numElems, rows, fitted, vol, gibbs, bulk, beta, cp, cpfit, gru, len, status>>

Force(f) == f @@ <<>>          \* evaluate a function constructor once (TLC is lazy)

-----------------------------------------------------------------------------
(* units.py, transcribed as exponent vectors:  EV^ev NA^na 10^ten           *)
CodeEVAngstromToGPa == Unit(1, 0, 21)       \* EV * 1e21
CodeEvTokJmol == Unit(1, 1, -3)             \* EV / 1000 * Avogadro
CodePVUnit == UInv(CodeEVAngstromToGPa)     \* core.py: volumes * pressure / EVAngstromToGPa
CodePhUnit == UInv(CodeEvTokJmol)           \* core.py: fe_phonon / EvTokJmol
CodeBulkUnit == CodeEVAngstromToGPa         \* parameters[:, 1] * EVAngstromToGPa
CodeCpUnit == UMul(CodeEvTokJmol, Unit(0, 0, 3))           \* equiv_energies * EvTokJmol * 1000
(* cv / v / 1000 / EvTokJmol * EVAngstromToGPa divides beta * kt[GPa] *)
CodeGruUnit == UDiv(CodeBulkUnit, UMul(UInv(UMul(Unit(0, 0, 3), CodeEvTokJmol)), CodeEVAngstromToGPa))

(* the same factors from the definitions of the units (SI): requirement side *)
SIeV == Unit(1, 0, 0)             \* J
SIkJ == Unit(0, 0, 3)             \* J
SIGPa == Unit(0, 0, 9)            \* J / m^3
SIA3 == Unit(0, 0, -30)           \* m^3
PerMol == Unit(0, -1, 0)          \* per formula unit = per mol / NA
ReqPVUnit == UDiv(UMul(SIGPa, SIA3), SIeV)              \* GPa A^3 -> eV
ReqPhUnit == UDiv(UMul(SIkJ, PerMol), SIeV)             \* kJ/mol -> eV per cell
ReqBulkUnit == UDiv(UDiv(SIeV, SIA3), SIGPa)            \* eV/A^3 -> GPa
ReqCpUnit == UDiv(SIeV, PerMol)                          \* eV/K per cell -> J/K/mol
ReqGruUnit == ReqCpUnit            \* V beta K_T / C_V with C_V given in J/K/mol

-----------------------------------------------------------------------------
(* polynomials with rational coefficients  c[1] + c[2] x + c[3] x^2 + ...    *)
RECURSIVE Horner(_, _, _)
Horner(c, x, k) == IF k > Len(c) THEN R0 ELSE RAdd(c[k], RMul(x, Horner(c, x, k + 1)))
PolyEval(c, x) == Horner(c, x, 1)
PolyD(c) == [k \in 1..(Len(c) - 1) |-> RMul(RInt(k), c[k + 1])]
Degree(c) == IF \A k \in 1..Len(c) : c[k] = R0 THEN 0
             ELSE (CHOOSE k \in 1..Len(c) : c[k] # R0 /\ \A m \in (k + 1)..Len(c) : c[m] = R0) - 1

NT(x) == Len(x.T)
TT(x, k) == RInt(x.T[k])
EIdx(x, k) == IF x.shape = "TV" THEN k ELSE 1
PressureActs(x) == x.P.set /\ x.P.v # R0

TypeInput(x) ==
  /\ NT(x) >= 1 /\ \A k \in 1..(NT(x) - 1) : x.T[k] < x.T[k + 1]
  /\ x.shape \in {"V", "TV"}
  /\ Len(x.ptab) = NT(x) /\ Len(x.cvtab) = NT(x) /\ Len(x.stab) = NT(x)
  /\ Len(x.qtab) = IF x.shape = "TV" THEN NT(x) ELSE 1
  /\ \A k \in 1..NT(x) : IsRat(x.ptab[k].V0) /\ IsRat(x.ptab[k].E0) /\ IsRat(x.ptab[k].B0)
  /\ x.poly.set => \A k \in 1..NT(x) :
        /\ x.ptab[k].V0 = PolyEval(x.poly.v, TT(x, k))
        /\ x.ptab[k].E0 = PolyEval(x.poly.e, TT(x, k))

-----------------------------------------------------------------------------
(* formal rows and the uninterpreted fit *)
PVMatches(x, r) == PressureActs(x) => (r.pvsign = 1 /\ r.pvunit = ReqPVUnit)
(* index k such that the row is exactly Curve(ptab[k]); 0 if it is no such curve *)
RowCurve(x, r) ==
  IF r.ph \in 1..NT(x) /\ r.phunit = ReqPhUnit /\ r.el = EIdx(x, r.ph) /\ PVMatches(x, r) THEN r.ph ELSE 0
(* electronic row alone (BulkModulus): Curve(qtab[j]) *)
ElCurve(x, r) == IF r.el \in 1..Len(x.qtab) /\ PVMatches(x, r) THEN r.el ELSE 0

ArgMinFirst(x) ==
  LET d(k) == IAbs(x.T[k] - x.tmax.v)
  IN  CHOOSE k \in 1..NT(x) : /\ \A m \in 1..NT(x) : d(k) <= d(m)
                              /\ \A m \in 1..(k - 1) : d(m) > d(k)

(* leading coefficient and derivative at the middle node of the parabola     *)
(* through (t1,f1), (t2,f2), (t3,f3): Lagrange form                          *)
ParabolaA(t1, t2, t3, f1, f2, f3) ==
  RAdd3(RDiv(f1, RMul(RSub(t1, t2), RSub(t1, t3))),
        RDiv(f2, RMul(RSub(t2, t1), RSub(t2, t3))),
        RDiv(f3, RMul(RSub(t3, t1), RSub(t3, t2))))
ParabolaDMid(t1, t2, t3, f1, f2, f3) ==
  RAdd3(RMul(f1, RDiv(RSub(t2, t3), RMul(RSub(t1, t2), RSub(t1, t3)))),
        RMul(f2, RDiv(RAdd(RSub(t2, t1), RSub(t2, t3)), RMul(RSub(t2, t1), RSub(t2, t3)))),
        RMul(f3, RDiv(RSub(t2, t1), RMul(RSub(t3, t1), RSub(t3, t2)))))

CvAt(x, k, v) == PolyEval(x.cvtab[k], RSub(v, RInt(x.vref)))
DsDvAt(x, k, v) == PolyEval(PolyD(x.stab[k]), RSub(v, RInt(x.vref)))

-----------------------------------------------------------------------------
NoPV == [sign |-> 0, unit |-> UOne]
UnknownPar == [E0 |-> <<0, 0>>, B0 |-> <<0, 0>>, Bp |-> <<0, 0>>, V0 |-> <<0, 0>>]   \* not a rational: equals no parameter set
InitWith(x) ==
  /\ pc = "choose" /\ inp = x
  /\ elpv = NoPV /\ bm = <<>> /\ numElems = 0 /\ rows = <<>> /\ fitted = <<>>
  /\ vol = <<>> /\ gibbs = <<>> /\ bulk = <<>> /\ beta = <<>> /\ cp = <<>> /\ cpfit = <<>> /\ gru = <<>>
  /\ len = 0 /\ status = "running"
Init == \E x \in Inputs : InitWith(x)

(* BulkModulus.__init__ and QHA.__init__: electronic energies += V P / EVAngstromToGPa *)
(* (numpy broadcasting along the volume axis for both shapes) *)
AddPV ==
  /\ pc = "choose"
  /\ elpv' = IF PressureActs(inp) THEN [sign |-> 1, unit |-> CodePVUnit] ELSE NoPV
  /\ pc' = "bulkmodulus"
  /\ UNCHANGED <<inp, bm, numElems, rows, fitted, vol, gibbs, bulk, beta, cp, cpfit, gru, len, status>>

(* BulkModulus: one fit (shape V) or one per row (shape TV) of the electronic energies *)
BulkModulusFit ==
  /\ pc = "bulkmodulus"
  /\ LET r(j) == [el |-> j, pvsign |-> elpv.sign, pvunit |-> elpv.unit]
     IN  bm' = Force([j \in 1..Len(inp.qtab) |-> ElCurve(inp, r(j))])
  /\ pc' = "numelems"
  /\ UNCHANGED <<inp, elpv, numElems, rows, fitted, vol, gibbs, bulk, beta, cp, cpfit, gru, len, status>>

(* QHA.run: num_elems = _get_num_elems() + 1, minus one if beyond the grid *)
NumElems ==
  /\ pc = "numelems"
  /\ LET n0 == IF inp.tmax.set THEN ArgMinFirst(inp) ELSE NT(inp)
         n1 == n0 + 1
     IN  numElems' = IF n1 > NT(inp) THEN n1 - 1 ELSE n1
  /\ pc' = "fit"
  /\ UNCHANGED <<inp, elpv, bm, rows, fitted, vol, gibbs, bulk, beta, cp, cpfit, gru, len, status>>

(* one pass of the temperature loop of QHA.run *)
FitAt ==
  /\ pc = "fit" /\ Len(rows) < numElems
  /\ LET i == Len(rows) + 1
         r == [ph |-> i, phunit |-> CodePhUnit, el |-> EIdx(inp, i), pvsign |-> elpv.sign, pvunit |-> elpv.unit]
         c == RowCurve(inp, r)
     IN  /\ rows' = Append(rows, r)
         /\ IF c = 0 THEN status' = "fitfail" /\ pc' = "done" /\ fitted' = fitted
            ELSE status' = status /\ pc' = pc /\ fitted' = Append(fitted, inp.ptab[c])
  /\ UNCHANGED <<inp, elpv, bm, numElems, vol, gibbs, bulk, beta, cp, cpfit, gru, len>>

Extract ==
  /\ pc = "fit" /\ Len(rows) = numElems
  /\ vol' = [k \in 1..numElems |-> fitted[k].V0]
  /\ gibbs' = [k \in 1..numElems |-> fitted[k].E0]
  /\ bulk' = [k \in 1..numElems |-> fitted[k].B0]
  /\ pc' = "beta"
  /\ UNCHANGED <<inp, elpv, bm, numElems, rows, fitted, beta, cp, cpfit, gru, len, status>>

(* _set_thermal_expansion *)
SetThermalExpansion ==
  /\ pc = "beta"
  /\ beta' = Force([k \in 1..(IF numElems >= 2 THEN numElems - 1 ELSE 1) |->
               IF k = 1 THEN R0
               ELSE RDiv(RDiv(RSub(vol[k + 1], vol[k - 1]), RSub(TT(inp, k + 1), TT(inp, k - 1))), vol[k])])
  /\ pc' = "cp"
  /\ UNCHANGED <<inp, elpv, bm, numElems, rows, fitted, vol, gibbs, bulk, cp, cpfit, gru, len, status>>

(* _set_heat_capacity_P_numerical: -T * 2 a of the parabola through three points of G *)
SetCpNumerical ==
  /\ pc = "cp"
  /\ cp' = Force([k \in 1..(IF numElems >= 2 THEN numElems - 1 ELSE 1) |->
             IF k = 1 THEN R0
             ELSE RNeg(RMul(TT(inp, k), RMul(RInt(2),
                    ParabolaA(TT(inp, k - 1), TT(inp, k), TT(inp, k + 1), gibbs[k - 1], gibbs[k], gibbs[k + 1]))))])
  /\ pc' = "cpfit"
  /\ UNCHANGED <<inp, elpv, bm, numElems, rows, fitted, vol, gibbs, bulk, beta, cpfit, gru, len, status>>

(* _set_heat_capacity_P_polyfit: C_V(V_eq) + T dV/dT dS/dV *)
SetCpPolyfit ==
  /\ pc = "cpfit"
  /\ cpfit' = Force([k \in 1..(IF numElems >= 2 THEN numElems - 1 ELSE 1) |->
                IF k = 1 THEN R0
                ELSE RAdd(CvAt(inp, k, vol[k]),
                          RMul3(TT(inp, k),
                                ParabolaDMid(TT(inp, k - 1), TT(inp, k), TT(inp, k + 1), vol[k - 1], vol[k], vol[k + 1]),
                                DsDvAt(inp, k, vol[k])))])
  /\ pc' = "gru"
  /\ UNCHANGED <<inp, elpv, bm, numElems, rows, fitted, vol, gibbs, bulk, beta, cp, gru, len, status>>

(* _set_gruneisen_parameter: beta K_T / (C_V / V)  (inputs keep C_V well above the 1e-10 cutoff) *)
SetGruneisen ==
  /\ pc = "gru"
  /\ gru' = Force([k \in 1..Len(beta) |->
              IF k = 1 THEN R0
              ELSE RDiv(RMul(beta[k], bulk[k]), RDiv(CvAt(inp, k, vol[k]), vol[k]))])
  /\ pc' = "len"
  /\ UNCHANGED <<inp, elpv, bm, numElems, rows, fitted, vol, gibbs, bulk, beta, cp, cpfit, len, status>>

(* self._len = len(thermal_expansions); assert self._len + 1 == self._num_elems *)
SetLen ==
  /\ pc = "len"
  /\ len' = Len(beta)
  /\ status' = IF Len(beta) + 1 = numElems THEN "ok" ELSE "assert"
  /\ pc' = "done"
  /\ UNCHANGED <<inp, elpv, bm, numElems, rows, fitted, vol, gibbs, bulk, beta, cp, cpfit, gru>>

Next == AddPV \/ BulkModulusFit \/ NumElems \/ FitAt \/ Extract \/ SetThermalExpansion
        \/ SetCpNumerical \/ SetCpPolyfit \/ SetGruneisen \/ SetLen
Spec == Init /\ [][Next]_vars

(* what the public properties return: everything cut to [:len] *)
Cut(s, n) == SubSeq(s, 1, IF n < Len(s) THEN n ELSE Len(s))
(* heat_capacity_P_polyfit raises NotImplementedError for shape "TV" *)
CpfitAvail(x) == x.shape = "V"
BmPar(x, b) == [j \in 1..Len(b) |-> IF b[j] \in 1..Len(x.qtab) THEN x.qtab[b[j]] ELSE UnknownPar]
Out == [len |-> len, status |-> status, bm |-> bm, bmpar |-> BmPar(inp, bm),
        rows |-> Cut(rows, len), vol |-> Cut(vol, len), gibbs |-> Cut(gibbs, len), bulk |-> Cut(bulk, len),
        beta |-> Cut(beta, len), cp |-> Cut(cp, len),
        cpfit |-> IF CpfitAvail(inp) THEN Cut(cpfit, len) ELSE <<>>, gru |-> Cut(gru, len)]

-----------------------------------------------------------------------------
(* THE REQUIREMENT, on any result record o (the machine's Out or one         *)
(* projected from the implementation) for input x.                           *)

(* every returned table has the same length; it reaches the grid temperature *)
(* nearest to t_max (any of two equally near ones), or the last temperature  *)
(* that still has a right neighbour for the central differences             *)
Nearest(x) == {k \in 1..NT(x) : \A m \in 1..NT(x) : IAbs(x.T[k] - x.tmax.v) <= IAbs(x.T[m] - x.tmax.v)}
ReqLength(x, o) ==
  /\ o.len >= 1 /\ o.len <= NT(x) - 1
  /\ IF x.tmax.set /\ \E k \in Nearest(x) : k <= NT(x) - 1
       THEN o.len \in Nearest(x)
       ELSE o.len = NT(x) - 1
  /\ Len(o.rows) = o.len /\ Len(o.vol) = o.len /\ Len(o.gibbs) = o.len /\ Len(o.bulk) = o.len
  /\ Len(o.beta) = o.len /\ Len(o.cp) = o.len /\ Len(o.gru) = o.len
  /\ CpfitAvail(x) => Len(o.cpfit) = o.len
ReqCompletes(x, o) == NT(x) >= 2 => o.status = "ok"

(* the row fitted at temperature k is phonon row k + electronic row of the SAME *)
(* temperature (or the single one) *)
ReqPerTemperatureElectronic(x, o) ==
  \A k \in 1..Len(o.rows) : o.rows[k].ph = k /\ o.rows[k].el = EIdx(x, k)
ReqPhononUnit(x, o) == \A k \in 1..Len(o.rows) : o.rows[k].phunit = ReqPhUnit
(* pressure enters as + P V, converted GPa A^3 -> eV *)
ReqPressureSign(x, o) == \A k \in 1..Len(o.rows) : PVMatches(x, o.rows[k])
ReqNoSpuriousPV(x, o) == ~PressureActs(x) => \A k \in 1..Len(o.rows) : o.rows[k].pvsign = 0
(* recovery of the known parameters at each temperature *)
ReqRecoverVolume(x, o) == \A k \in 1..Len(o.vol) : o.vol[k] = x.ptab[k].V0
ReqRecoverGibbs(x, o) == \A k \in 1..Len(o.gibbs) : o.gibbs[k] = x.ptab[k].E0
ReqRecoverBulk(x, o) == \A k \in 1..Len(o.bulk) : o.bulk[k] = x.ptab[k].B0
(* electronic-only bulk modulus object: one curve (V) / one per temperature (TV) *)
ReqBulkModulusObject(x, o) ==
  /\ Len(o.bm) = Len(x.qtab) /\ \A j \in 1..Len(o.bm) : o.bm[j] = j
  /\ Len(o.bmpar) = Len(x.qtab) /\ \A j \in 1..Len(o.bmpar) : o.bmpar[j] = x.qtab[j]

(* finite differences, from the definition of the derivative of the generating *)
(* polynomials: a central difference is exact for degree <= 1 on any grid and  *)
(* for degree <= 2 on a locally uniform grid; a three-point parabola is exact  *)
(* for degree <= 2 on any grid and for degree <= 3 (second derivative) on a    *)
(* locally uniform grid                                                        *)
Uniform(x, k) == x.T[k + 1] - x.T[k] = x.T[k] - x.T[k - 1]
DV(x, k) == PolyEval(PolyD(x.poly.v), TT(x, k))
D2E(x, k) == PolyEval(PolyD(PolyD(x.poly.e)), TT(x, k))
BetaExact(x, k) == x.poly.set /\ (Degree(x.poly.v) <= 1 \/ (Degree(x.poly.v) <= 2 /\ Uniform(x, k)))
ReqThermalExpansion(x, o) ==
  \A k \in 2..Len(o.beta) : BetaExact(x, k) => RMul(o.beta[k], x.ptab[k].V0) = DV(x, k)
ReqHeatCapacity(x, o) ==
  \A k \in 2..Len(o.cp) :
    (x.poly.set /\ (Degree(x.poly.e) <= 2 \/ (Degree(x.poly.e) <= 3 /\ Uniform(x, k))))
      => o.cp[k] = RNeg(RMul(TT(x, k), D2E(x, k)))
ReqHeatCapacityPolyfit(x, o) ==
  \A k \in 2..Len(o.cpfit) :
    (x.poly.set /\ Degree(x.poly.v) <= 2)
      => o.cpfit[k] = RAdd(CvAt(x, k, x.ptab[k].V0), RMul3(TT(x, k), DV(x, k), DsDvAt(x, k, x.ptab[k].V0)))
(* gamma = V beta K_T / C_V *)
ReqGruneisen(x, o) ==
  \A k \in 2..Len(o.gru) :
    BetaExact(x, k) => RMul(o.gru[k], CvAt(x, k, x.ptab[k].V0)) = RMul(DV(x, k), x.ptab[k].B0)
ReqUnits ==
  /\ CodePVUnit = ReqPVUnit /\ CodePhUnit = ReqPhUnit /\ CodeBulkUnit = ReqBulkUnit
  /\ CodeCpUnit = ReqCpUnit /\ CodeGruUnit = ReqGruUnit

-----------------------------------------------------------------------------
(* invariants of the machine *)
AtEnd == pc = "done"
Done == AtEnd /\ status = "ok"
TypeOK == pc = "choose" => TypeInput(inp)
(* every index the loops and stencils touch exists *)
InvIndexSafety ==
  /\ pc \in {"fit", "beta", "cp", "cpfit", "gru", "len", "done"} => numElems \in 1..NT(inp)
  /\ pc \in {"beta", "cp", "cpfit"} =>
        /\ Len(vol) = numElems /\ Len(gibbs) = numElems
        /\ \A k \in 2..(numElems - 1) : k + 1 <= Len(vol) /\ k + 1 <= NT(inp) /\ k <= Len(inp.cvtab)
InvCompletes == AtEnd => ReqCompletes(inp, Out)
InvLength == Done => ReqLength(inp, Out)
InvPerTemperatureElectronic == Done => ReqPerTemperatureElectronic(inp, Out)
InvPhononUnit == Done => ReqPhononUnit(inp, Out)
InvPressureSign == Done => ReqPressureSign(inp, Out) /\ ReqNoSpuriousPV(inp, Out)
InvRecovery == Done => ReqRecoverVolume(inp, Out) /\ ReqRecoverGibbs(inp, Out) /\ ReqRecoverBulk(inp, Out)
InvBulkModulusObject == AtEnd => ReqBulkModulusObject(inp, Out)
InvThermalExpansion == Done => ReqThermalExpansion(inp, Out)
InvHeatCapacity == Done => ReqHeatCapacity(inp, Out)
InvHeatCapacityPolyfit == Done => ReqHeatCapacityPolyfit(inp, Out)
InvGruneisen == Done => ReqGruneisen(inp, Out)
InvUnits == ReqUnits
(* hands the expected tables of every input to the harness (replay direction) *)
Emit == AtEnd => PrintT(<<"OUT", inp.id, Out>>)
=============================================================================
