----------------------------- MODULE QhaSeqTrace -----------------------------
(* Conformance of call sequences on the real code with QhaSeq.tla.  One     *)
(* event = one sequence of constructor calls re-using the same input array  *)
(* objects (harness/props/c20.py: seq_part):                                *)
(*   ev.sq   - the run (api, electronic shape, array kind, pressures)       *)
(*   ev.obs  - per call: pv - the effective pressure (GPa) found in the rows *)
(*             that reached the fit, relative to the PRISTINE electronic     *)
(*             energies; fresh - every returned table equals that of the     *)
(*             same call on pristine copies; unmod - all caller arrays are   *)
(*             bit-identical to their pristine copies after the call         *)
(*   ev.exact - the effective pressures were identified within tolerance     *)
EXTENDS QhaSeq

CONSTANT Events
VARIABLE ev
tvars == <<vars, ev>>

TInit == \E e \in Events : ev = e /\ InitWith(e.sq)
TNext == Next /\ UNCHANGED ev

ImplSeqExact == AtEnd => ev.exact
ImplFreshEquivalent == AtEnd => ReqFreshEquivalent(ev.sq, ev.obs)
ImplInputsUnmodified == AtEnd => ReqInputsUnmodified(ev.sq, ev.obs)
ConformsSeq == AtEnd => ev.obs = calls
=============================================================================
