-------------------------- MODULE DynMatCatalogue --------------------------
(* Publishes the geometry of the catalogue entries (Gram matrix, denominator, *)
(* atoms) so that the harness can realise them as real unit cells before any *)
(* session exists.  One state; read from the dump by harness/c02_dynmat.py.  *)
EXTENDS Catalogue
VARIABLES cat, tag   \* tag only makes the dump a conjunction list
Init == tag = "catalogue" /\ cat = [i \in 1..Len(Entries) |->
                 [name |-> Entries[i].name, G |-> Entries[i].G, D |-> Entries[i].D, atoms |-> Entries[i].atoms]]
Next == UNCHANGED <<cat, tag>>
(* every entry is a well-formed integer crystal: positive-definite Gram matrix (leading  *)
(* minors), positions on the 1/D grid inside the cell, no two atoms on one site          *)
WellFormed ==
  \A i \in 1..Len(cat) :
    LET c == cat[i] IN
    /\ c.G[1][1] > 0 /\ c.G[1][1] * c.G[2][2] - c.G[1][2] * c.G[2][1] > 0 /\ Det(c.G) > 0
    /\ c.G = Transpose(c.G)
    /\ \A a \in 1..Len(c.atoms) : \A k \in I3 : c.atoms[a].num[k] \in 0..(c.D - 1)
    /\ \A a, b \in 1..Len(c.atoms) : a # b => c.atoms[a].num # c.atoms[b].num
=============================================================================
