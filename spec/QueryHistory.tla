---------------------------- MODULE QueryHistory ----------------------------
(* C14, query-history dimension.  A Phonopy object keeps state BETWEEN       *)
(* queries: ONE shared GroupVelocity instance (its perturbation direction    *)
(* and the switch that turns site-symmetrisation off), ONE dynamical-matrix *)
(* object (last q / q_direction it was run with), and the result holders    *)
(* _qpoints, _mesh, _band_structure.  C14 demands that what query number k  *)
(* reports depends only on (physical state, q, the direction requested BY   *)
(* THAT query) - i.e. equals what the same query reports on a freshly       *)
(* constructed object - whatever was asked before.                           *)
(*                                                                          *)
(* A history is a sequence of queries  [kind, dir, gv]:                      *)
(*   qpoints  run_qpoints(Q, with_group_velocities=gv,                       *)
(*                        nac_q_direction = d_k if dir)                      *)
(*   mesh     run_mesh(M, with_group_velocities=gv)                          *)
(*   band     run_band_structure([P], with_group_velocities=gv)   P radial   *)
(*   gvq      get_group_velocity_at_q(qs)                                     *)
(*   direct   get_frequencies_with_eigenvectors(qs)  (rebuilds the          *)
(*            dynamical-matrix object and with it the GroupVelocity object) *)
(* Q, M, P contain Gamma, a q-point with degenerate bands and a non-trivial *)
(* little group, and a generic point (chosen by the harness).  d_1,d_2,d_3  *)
(* are three different directions, one per position in the history.          *)
(*                                                                          *)
(* Interpretation boundary: what a query reports is named by                 *)
(*   gvp   index of the query whose direction perturbs the degenerate sets  *)
(*         of the group velocities and switches symmetrisation off          *)
(*         (0 = no direction: default perturbation, symmetrised; -1 = no gv) *)
(*   fdir  index of the query whose direction enters the non-analytical     *)
(*         term at Gamma (0 = none; -1 = no frequencies reported)           *)
(* The harness classifies the real arrays into the SETS of such indices     *)
(* they are numerically equal to, and compares every array with the same    *)
(* query on a fresh object (field fresh).                                    *)
EXTENDS Integers, Sequences, FiniteSets, TLC

CONSTANTS Histories,   \* set of histories explored
          NacClasses,  \* subset of {"none", "wang", "gl"}
          Codes        \* code variants: [gvReset : BOOLEAN]; TRUE = GroupVelocity.run resets the direction

VARIABLES pc, hist, nac, fac, code, k,
          gvObj,      \* the shared GroupVelocity instance exists
          gvPert,     \* its stored perturbation: 0 or the index of the query that set it
          dmDir,      \* q_direction the dynamical-matrix object was last run with (0 none)
          hQp, hMesh, hBand,   \* which query's results the holders _qpoints/_mesh/_band_structure contain (0: none)
          res,        \* what each query reported: sequence of [gvp, fdir]
          reread      \* what the holders report at the end: [qp, mesh, band] -> index of query (0: nothing / raises)
vars == <<pc, hist, nac, fac, code, k, gvObj, gvPert, dmDir, hQp, hMesh, hBand, res, reread>>

B == BOOLEAN
Factors == {"vasp", "cm", "x37"}
Q(kind, dir, gv) == [kind |-> kind, dir |-> dir, gv |-> gv]
Alphabet == {Q("qpoints", d, g) : d \in B, g \in B} \cup {Q("mesh", FALSE, g) : g \in B}
            \cup {Q("band", FALSE, g) : g \in B} \cup {Q("gvq", FALSE, TRUE), Q("direct", FALSE, FALSE)}
HistoriesUpTo(n) == UNION {[1..m -> Alphabet] : m \in 1..n}

-----------------------------------------------------------------------------
(* REQUIREMENT: functions of the query alone *)
WantsGV(q) == q.kind = "gvq" \/ (q.kind \in {"qpoints", "mesh", "band"} /\ q.gv)
ReqGvp(j, q) == IF ~WantsGV(q) THEN -1 ELSE IF q.kind = "qpoints" /\ q.dir THEN j ELSE 0
ReqFdir(n, j, q) ==
  IF q.kind = "gvq" THEN -1
  ELSE IF n # "none" /\ ((q.kind = "qpoints" /\ q.dir) \/ q.kind = "band") THEN j ELSE 0
(* an observation o = [gvp, fdir, fresh] with SETS of indices *)
ReqObs(n, j, q, o) == ReqGvp(j, q) \in o.gvp /\ ReqFdir(n, j, q) \in o.fdir /\ o.fresh
(* the holders still hold the results of the last query of their kind, unchanged *)
LastOf(h, kind) == IF \E j \in 1..Len(h) : h[j].kind = kind
                     THEN CHOOSE j \in 1..Len(h) : h[j].kind = kind /\ \A m \in (j + 1)..Len(h) : h[m].kind # kind
                     ELSE 0
ReqReread(h, rr) == rr.qp = LastOf(h, "qpoints") /\ rr.mesh = LastOf(h, "mesh") /\ rr.band = LastOf(h, "band")

-----------------------------------------------------------------------------
(* IMPLEMENTATION: the persistent state and what each call does to it *)
Init ==
  /\ pc = "query" /\ hist \in Histories /\ nac \in NacClasses /\ code \in Codes
  /\ fac \in Factors      \* the unit conversion factor is part of the object's state: fixed for the whole history
  /\ k = 1 /\ gvObj = FALSE /\ gvPert = 0 /\ dmDir = 0
  /\ hQp = 0 /\ hMesh = 0 /\ hBand = 0 /\ res = <<>> /\ reread = [qp |-> 0, mesh |-> 0, band |-> 0]

Cur == hist[k]
Advance == /\ k' = k + 1 /\ pc' = IF k = Len(hist) THEN "reread" ELSE "query"

(* GroupVelocity.run(qpoints, perturbation): the stored direction after the call *)
GvAfter(own) == IF own THEN k ELSE IF code.gvReset THEN 0 ELSE gvPert
(* direction the NAC term of this query's dynamical matrices uses at Gamma *)
DmAfter(own) == IF own /\ nac # "none" THEN k ELSE 0

RunQpoints ==      \* _set_group_velocity() on first use; gv_obj.run(qpoints, perturbation=nac_q_direction)
  /\ pc = "query" /\ Cur.kind = "qpoints"
  /\ gvObj' = (gvObj \/ Cur.gv)
  /\ gvPert' = IF Cur.gv THEN GvAfter(Cur.dir) ELSE gvPert
  /\ dmDir' = DmAfter(Cur.dir)
  /\ res' = Append(res, [gvp |-> IF Cur.gv THEN GvAfter(Cur.dir) ELSE -1, fdir |-> DmAfter(Cur.dir)])
  /\ hQp' = k /\ Advance
  /\ UNCHANGED <<hist, nac, fac, code, hMesh, hBand, reread>>

RunMesh ==         \* Mesh.run(): _set_phonon, then group_velocity.run(qpoints)
  /\ pc = "query" /\ Cur.kind = "mesh"
  /\ gvObj' = (gvObj \/ Cur.gv)
  /\ gvPert' = IF Cur.gv THEN GvAfter(FALSE) ELSE gvPert
  /\ dmDir' = 0
  /\ res' = Append(res, [gvp |-> IF Cur.gv THEN GvAfter(FALSE) ELSE -1, fdir |-> 0])
  /\ hMesh' = k /\ Advance
  /\ UNCHANGED <<hist, nac, fac, code, hQp, hBand, reread>>

RunBand ==         \* _solve_dm_on_path: group_velocity.run(path); q_direction = path[0] - path[-1]
  /\ pc = "query" /\ Cur.kind = "band"
  /\ gvObj' = (gvObj \/ Cur.gv)
  /\ gvPert' = IF Cur.gv THEN GvAfter(FALSE) ELSE gvPert
  /\ dmDir' = DmAfter(TRUE)
  /\ res' = Append(res, [gvp |-> IF Cur.gv THEN GvAfter(FALSE) ELSE -1, fdir |-> DmAfter(TRUE)])
  /\ hBand' = k /\ Advance
  /\ UNCHANGED <<hist, nac, fac, code, hQp, hMesh, reread>>

GvAtQ ==           \* get_group_velocity_at_q: self._group_velocity.run([q])
  /\ pc = "query" /\ Cur.kind = "gvq"
  /\ gvObj' = TRUE
  /\ gvPert' = GvAfter(FALSE)
  /\ res' = Append(res, [gvp |-> GvAfter(FALSE), fdir |-> -1])
  /\ Advance
  /\ UNCHANGED <<hist, nac, fac, code, dmDir, hQp, hMesh, hBand, reread>>

Direct ==          \* _set_dynamical_matrix(): new dynamical-matrix object, and a new GroupVelocity if one existed
  /\ pc = "query" /\ Cur.kind = "direct"
  /\ gvPert' = 0 /\ dmDir' = 0
  /\ res' = Append(res, [gvp |-> -1, fdir |-> 0])
  /\ Advance
  /\ UNCHANGED <<hist, nac, fac, code, gvObj, hQp, hMesh, hBand, reread>>

Reread ==          \* get_qpoints_dict / get_mesh_dict / get_band_structure_dict at the end
  /\ pc = "reread"
  /\ reread' = [qp |-> hQp, mesh |-> hMesh, band |-> hBand]
  /\ pc' = "done"
  /\ UNCHANGED <<hist, nac, fac, code, k, gvObj, gvPert, dmDir, hQp, hMesh, hBand, res>>

Next == RunQpoints \/ RunMesh \/ RunBand \/ GvAtQ \/ Direct \/ Reread
Spec == Init /\ [][Next]_vars

-----------------------------------------------------------------------------
Single(r) == [gvp |-> {r.gvp}, fdir |-> {r.fdir}, fresh |-> TRUE]
TypeOK == pc \in {"query", "reread", "done"} /\ k \in 1..4 /\ gvPert \in 0..3 /\ dmDir \in 0..3
(* every query answers as on a fresh object, whatever was asked before *)
HistoryIndependent == \A j \in 1..Len(res) : ReqObs(nac, j, hist[j], Single(res[j]))
HoldersIntact == pc = "done" => ReqReread(hist, reread)
Emit == pc = "done" => PrintT(ToString(<<"H", hist>>))
=============================================================================
