-------------------------------- MODULE DSF --------------------------------
(* X03(a): dynamic structure factor (phonopy/spectrum/dynamic_structure_factor.py, *)
(* Phonopy.init/run_dynamic_structure_factor).                               *)
(*                                                                          *)
(* One-phonon creation at momentum transfer Q, mode (q, nu), q = Q - G:      *)
(*   S(Q, nu) = | sum_j f_j(Q)/sqrt(2 m_j) exp(-W_j(Q)) (Q . eps_j) exp(i Q.x_j) |^2 (n + 1)/omega *)
(* where eps_j exp(-i q.R_l) is the displacement pattern the CREATED phonon  *)
(* has on atom j of cell l.  With the eigenvectors e(q) of phonopy's          *)
(* dynamical matrix (phases exp(i q.(x_j' - x_j))) the pattern is             *)
(* conj(e_j(q)) exp(-i q.x_j), so the summand is (Q . conj(e_j)) exp(i G.x_j) *)
(* - equivalently (Q . e_j) exp(-i G.x_j).  The harness does not trust this *)
(* algebra: for Q commensurate with the supercell it evaluates the           *)
(* definition directly on the REAL eigenvectors of the supercell force       *)
(* constants (field bf of an event), which needs no phase convention at all. *)
(*                                                                          *)
(* Exact part (decided by TLC in integers): folding Q into the first zone.  *)
(* Q = Qn / Den; the reciprocal metric is Adj(Gram) up to a positive factor. *)
(* Option part: the step machine of init_dynamic_structure_factor /         *)
(* DynamicStructureFactor with the interpretation tokens                     *)
(*   [ph, f, dw, bose]: ph "conj" | "plain" (eigenvector conjugated or not  *)
(*   against exp(+i G.x)), f "aff" | "b", dw "mesh" (Debye-Waller exponents  *)
(*   from the thermal-displacement mesh) | "one", bose "np1" | "n".          *)
EXTENDS IntLinAlg

CONSTANTS Cfgs, Codes
VARIABLES pc, cfg, code, out
vars == <<pc, cfg, code, out>>

-----------------------------------------------------------------------------
(* exact folding *)
N2(M, v) == Dot(v, MatVec(M, v))
Box(r) == {<<a, b, c>> : a \in -r..r, b \in -r..r, c \in -r..r}
Congruent(D, Qn, qn) == \A i \in I3 : (Qn[i] - qn[i]) % D = 0
(* REQUIREMENT: q is Q minus a reciprocal lattice vector and no equivalent point is shorter *)
IsFolded(M, D, Qn, qn) ==
  /\ Congruent(D, Qn, qn)
  /\ \A g \in Box(3) : N2(M, qn) <= N2(M, VAdd(qn, VScale(D, g)))
(* round half away from zero is irrelevant here: any nearest integer does *)
Nearest(x, D) == FloorDiv(2 * x + D, 2 * D)
(* the search the code performs (27 neighbours of the rounded point); sufficient for a *)
(* reduced basis, which is what BrillouinZone prepares                                  *)
Fold27(M, D, Qn) ==
  LET q0 == [i \in I3 |-> Qn[i] - D * Nearest(Qn[i], D)]
      cands == {VAdd(q0, VScale(D, g)) : g \in Box(1)}
  IN CHOOSE q \in cands : \A r \in cands : N2(M, q) <= N2(M, r)

-----------------------------------------------------------------------------
(* REQUIREMENT: status and interpretation of the reported array *)
Tok(ph, f, dw, bose) == [ph |-> ph, f |-> f, dw |-> dw, bose |-> bose]
ReqStatus(c) == IF c.mesh # "full_ev" THEN "RuntimeError"
                ELSE IF c.src = "neither" /\ c.anymode THEN "RuntimeError" ELSE "ok"
ReqTok(c) == Tok("conj", IF c.src \in {"aff", "both"} THEN "aff" ELSE "b", "mesh", "np1")
(* o = [status, toks (set of interpretations the array equals, summed over degenerate sets),   *)
(*      cutoff (modes at or below freq_min report exactly 0), bf (definition on supercell modes)] *)
ReqOut(c, o) ==
  /\ o.status = ReqStatus(c)
  /\ o.status = "ok" => /\ ReqTok(c) \in o.toks
                        /\ o.cutoff # "bad"
                        /\ o.bf # "bad"

-----------------------------------------------------------------------------
(* IMPLEMENTATION: what the calls do; code.phaseConj = TRUE is the repaired phase *)
Init == pc = "init" /\ cfg \in Cfgs /\ code \in Codes
        /\ out = [status |-> "none", tok |-> Tok("-", "-", "-", "-")]

InitDSF ==     \* Phonopy.init_dynamic_structure_factor: mesh present, with eigenvectors, not symmetry-reduced
  /\ pc = "init"
  /\ IF cfg.mesh # "full_ev"
       THEN out' = [out EXCEPT !.status = "RuntimeError"] /\ pc' = "done"
       ELSE out' = out /\ pc' = "setq"
  /\ UNCHANGED <<cfg, code>>
SetQpoints ==  \* get_qpoints_in_Brillouin_zone; G = Q - q
  /\ pc = "setq" /\ pc' = "phonon" /\ UNCHANGED <<cfg, code, out>>
SetPhonon ==   \* QpointsPhonon(self.qpoints, dynamical_matrix, with_eigenvectors=True)
  /\ pc = "phonon" /\ pc' = "run" /\ UNCHANGED <<cfg, code, out>>
RunAtQ ==      \* Debye-Waller from ThermalDisplacements(mesh, projection_direction=Q); F per mode above freq_min
  /\ pc = "run"
  /\ IF cfg.anymode /\ cfg.src = "neither"
       THEN out' = [out EXCEPT !.status = "RuntimeError"]
       ELSE out' = [status |-> "ok",
                    tok |-> Tok(IF code.phaseConj THEN "conj" ELSE "plain",
                                IF cfg.src \in {"aff", "both"} THEN "aff" ELSE "b",   \* the form factor function wins
                                "mesh", "np1")]
  /\ pc' = "done"
  /\ UNCHANGED <<cfg, code>>
Next == InitDSF \/ SetQpoints \/ SetPhonon \/ RunAtQ
Spec == Init /\ [][Next]_vars

Done == pc = "done"
Obs == [status |-> out.status, toks |-> {out.tok}, cutoff |-> "ok", bf |-> "ok"]
InvRequirement == Done => ReqOut(cfg, Obs)

AllCfgs == [mesh : {"none", "sym_ev", "full_noev", "full_ev"}, src : {"aff", "b", "both", "neither"}, anymode : BOOLEAN]
Emit == Done => PrintT(ToString(<<"DSFCFG", cfg>>))
=============================================================================
