------------------------------ MODULE MomentApi ------------------------------
(* X03(b): Phonopy.run_moment / get_moment on top of a mesh run, as a step   *)
(* machine, and events of the real calls (harness/x03_driver.py).            *)
(*                                                                          *)
(* A session is  run_mesh(sym, ev) ; run_moment(q1) ; get ; run_moment(q2) ; get  *)
(* with q = [proj, ord, lo, hi] (lo / hi: whether freq_min / freq_max given).  *)
(* REQUIREMENT on what get_moment() returns after request k:                 *)
(*   - not projected: the definition of Moment.tla evaluated on the FULL     *)
(*     mesh (eqdef), the same with mesh symmetry on and off;                 *)
(*   - projected: needs eigenvectors (else the request must raise) and the   *)
(*     whole star of every q-point: on a symmetry-reduced mesh the request   *)
(*     must either raise or still return the full-mesh value (Moment.tla,    *)
(*     ProjectedReducible is not a theorem);                                  *)
(*   - order 0 gives exactly 1;                                               *)
(*   - never the value of an EARLIER request (stale).                         *)
(* An observation is  [status, eqdef, one, stale]:  status "ok" | "raised",  *)
(* the rest "yes" | "no" | "na".                                              *)
EXTENDS Integers, Sequences, TLC, Json

CONSTANTS Sessions, Codes, EventFile
VARIABLES pc, ses, code, k, holder, obs, ev
vars == <<pc, ses, code, k, holder, obs, ev>>

(* what request q on mesh m has to produce *)
MustRaise(m, q) == q.proj /\ ~m.ev
MayRaise(m, q) == q.proj /\ m.sym
ReqObs(m, q, o) ==
  IF MustRaise(m, q) THEN o.status = "raised"
  ELSE /\ (o.status = "raised" => MayRaise(m, q))
       /\ o.status = "ok" => /\ o.eqdef = "yes" /\ o.stale # "yes"
                             /\ q.ord = 0 => o.one = "yes"

(* IMPLEMENTATION.  code.projRaise: `raise` instead of `return RuntimeError(..)` without eigenvectors; *)
(* code.symGuard: projected moments refuse a symmetry-reduced mesh.                                   *)
Init == /\ pc = "req" /\ ses \in Sessions /\ code \in Codes /\ k = 1
        /\ holder = 0          \* which request's PhononMoment object self._moment is (0: none)
        /\ obs = <<>> /\ ev = 0
Cur == ses.reqs[k]
RunMoment ==
  /\ pc = "req"
  /\ IF Cur.proj /\ ~ses.mesh.ev
       THEN IF code.projRaise
              THEN /\ obs' = Append(obs, [status |-> "raised", eqdef |-> "na", one |-> "na", stale |-> "na"])
                   /\ holder' = holder
              ELSE \* returns silently: get_moment() answers from the previous object, or fails on None
                   /\ obs' = Append(obs, IF holder = 0
                                           THEN [status |-> "raised", eqdef |-> "na", one |-> "na", stale |-> "na"]
                                           ELSE [status |-> "ok", eqdef |-> "?", one |-> "?", stale |-> "yes"])
                   /\ holder' = holder
       ELSE IF Cur.proj /\ ses.mesh.sym /\ code.symGuard
         THEN /\ obs' = Append(obs, [status |-> "raised", eqdef |-> "na", one |-> "na", stale |-> "na"])
              /\ holder' = holder
         ELSE /\ obs' = Append(obs, [status |-> "ok",
                                     eqdef |-> IF Cur.proj /\ ses.mesh.sym THEN "?" ELSE "yes",
                                     one |-> IF Cur.ord = 0 THEN "yes" ELSE "na", stale |-> "no"])
              /\ holder' = k
  /\ k' = k + 1
  /\ pc' = IF k = Len(ses.reqs) THEN "done" ELSE "req"
  /\ UNCHANGED <<ses, code, ev>>
Next == RunMoment
Spec == Init /\ [][Next]_vars

(* "?" = the machine does not predict the value (data dependent) *)
Known(o) == o.eqdef # "?" /\ o.one # "?"
InvRequirement == \A j \in 1..Len(obs) : Known(obs[j]) => ReqObs(ses.mesh, ses.reqs[j], obs[j])
InvNeverStale == \A j \in 1..Len(obs) : obs[j].stale # "yes"
InvProjectedDefined == \A j \in 1..Len(obs) : (obs[j].status = "ok" /\ ses.reqs[j].proj) => ~ses.mesh.sym

B == BOOLEAN
Reqs == [proj : B, ord : 0..2, lo : B, hi : B]
AllSessions == {[mesh |-> m, reqs |-> r] : m \in [sym : B, ev : B], r \in {<<a>> : a \in Reqs} \cup {<<a, b>> : a \in Reqs, b \in [proj : B, ord : {1}, lo : {FALSE}, hi : {FALSE}]}}
Emit == pc = "done" => PrintT(ToString(<<"SES", ses>>))

-----------------------------------------------------------------------------
(* events of the real calls *)
Events == LET raw == ndJsonDeserialize(EventFile) IN {raw[j] : j \in DOMAIN raw}
AllCodes == [projRaise : B, symGuard : B]
TInit == /\ ev \in Events /\ pc = "req" /\ ses = ev.ses /\ code \in AllCodes /\ k = 1 /\ holder = 0 /\ obs = <<>>
First == pc = "req" /\ k = 1 /\ code.projRaise /\ code.symGuard
ImplOne(j) == ReqObs(ev.ses.mesh, ev.ses.reqs[j], ev.obs[j])
ImplRequirement == First => \A j \in 1..Len(ev.obs) : ImplOne(j)
ReportReq == First => PrintT(ToString(<<"Q", ev.id, {j \in 1..Len(ev.obs) : ~ImplOne(j)}>>))
Match(m, o) == /\ m.status = o.status
               /\ (m.eqdef = "?" \/ m.eqdef = o.eqdef) /\ (m.one = "?" \/ m.one = o.one) /\ m.stale = o.stale
Conf == Len(obs) = Len(ev.obs) /\ \A j \in 1..Len(obs) : Match(obs[j], ev.obs[j])
Report == pc = "done" => PrintT(ToString(<<"R", ev.id, code.projRaise, code.symGuard, Conf>>))
=============================================================================
