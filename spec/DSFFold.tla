------------------------------ MODULE DSFFold ------------------------------
(* X03(a): the fold of Q into the first Brillouin zone, exhaustively, for    *)
(* one reciprocal metric: the 27-neighbour search after rounding returns a   *)
(* point that no reciprocal lattice vector of the larger box shortens.       *)
EXTENDS DSF
CONSTANTS Metric, Den, QRange
VARIABLES Qn, qn
Init2 == Qn \in {<<a, b, c>> : a \in QRange, b \in QRange, c \in QRange} /\ qn = Fold27(Metric, Den, Qn)
         /\ pc = "fold" /\ cfg = 0 /\ code = 0 /\ out = 0
Next2 == UNCHANGED <<Qn, qn, pc, cfg, code, out>>
FoldIsShortest == IsFolded(Metric, Den, Qn, qn)
EmitFold == PrintT(ToString(<<"FOLD", Qn, qn>>))
=============================================================================
