------------------------- MODULE AccessPathsTrace -------------------------
(* C14: conformance of the real access paths with AccessPaths.tla.          *)
(* An event is one call of the real API (harness/c14_driver.py) for a       *)
(* configuration that TLC enumerated, with every reported array projected   *)
(* to the SET of tokens it equals:                                           *)
(*   [id, cfg, out |-> [err, freq, eigvec, dm, gv, gc, diag, iter, permok],  *)
(*    files |-> {[fmt, field, present, digits, milli]}]                       *)
(*  - Impl*: the requirement of C14 evaluated on the LOGGED observation      *)
(*    (a failure is a property violation);                                   *)
(*  - conformance: the step machine is run on the event's configuration     *)
(*    under every code variant that is relevant for the path; at the end     *)
(*    TLC reports whether the logged observation is the machine's           *)
(*    (Report).  The harness then knows which variant of the model this     *)
(*    tree implements, and that variant is model-checked against the        *)
(*    requirement.                                                           *)
EXTENDS AccessPaths, Json

CONSTANT EventFile     \* newline-delimited JSON, one event per line (a TLA+ literal of this size takes SANY minutes)
VARIABLE ev
tvars == <<vars, ev>>

(* JSON arrays arrive as sequences: the token lists become sets *)
SetOf(s) == {s[k] : k \in DOMAIN s}
Slots(s) == IF s = <<>> THEN <<>> ELSE [j \in 1..Len(s) |-> SetOf(s[j])]
Conv(e) ==
  [id |-> e.id, cfg |-> e.cfg,
   out |-> [err |-> e.out.err, freq |-> Slots(e.out.freq), eigvec |-> Slots(e.out.eigvec),
            dm |-> Slots(e.out.dm), gv |-> Slots(e.out.gv), gc |-> e.out.gc,
            diag |-> e.out.diag, iter |-> e.out.iter, permok |-> e.out.permok, bulk |-> e.out.bulk],
   files |-> SetOf(e.files)]
Events == LET raw == ndJsonDeserialize(EventFile) IN {Conv(raw[k]) : k \in DOMAIN raw}

Relevant(path) ==
  CASE path = "qpoints" -> {"dmCopy", "ompRound", "qCopy"}
    [] path = "mesh" -> {"ompRound"}
    [] path = "itermesh" -> {"iterInit", "gcPrivate", "iterFactor"}
    [] path = "band" -> {"closedDir", "qCopy"}
    [] path = "direct" -> {"qCopy"}
    [] OTHER -> {}
AllCodes == [CodeSites -> BOOLEAN]

TInit ==
  /\ ev \in Events
  /\ pc = "choose" /\ cfg = ev.cfg
  /\ code \in {v \in AllCodes : \A s \in CodeSites \ Relevant(ev.cfg.path) : ~v[s]}
  /\ i = 0 /\ heap = <<>> /\ loc = EmptyLoc /\ out = EmptyOut /\ err = "none"

TNext == Next /\ UNCHANGED ev

(* requirement on the logged observation; evaluated once per event *)
First == pc = "choose" /\ \A s \in CodeSites : ~code[s]
ImplNoError   == First => ReqNoError(ev.cfg, ev.out)
ImplFreq      == First => ReqFreq(ev.cfg, ev.out)
ImplEigvec    == First => ReqEigvec(ev.cfg, ev.out)
ImplDynmat    == First => ReqDynmat(ev.cfg, ev.out)
ImplGV        == First => ReqGV(ev.cfg, ev.out)
ImplGrid      == First => ReqGrid(ev.cfg, ev.out)
ImplDiag      == First => ReqDiag(ev.cfg, ev.out)
ImplSameOrder == First => ReqSameOrder(ev.cfg, ev.out)
(* evaluated numerically on the reported arrays alone *)
ImplDiagNumeric == First => ev.out.diag # "bad"
ImplIterSame    == First => ev.out.iter # "bad"
ImplPermutation == First => ev.out.permok # "bad"
ImplFiles       == First => \A f \in ev.files : ReqFile(ev.cfg, f)
ImplBulk        == First => ReqBulk(ev.cfg, ev.out)

FailedReqs ==
  {n \in {"NoError", "Freq", "Eigvec", "Dynmat", "GV", "Grid", "Diag", "SameOrder",
          "DiagNumeric", "IterSame", "Permutation", "Files", "Bulk"} :
     ~ CASE n = "NoError" -> ReqNoError(ev.cfg, ev.out)
         [] n = "Freq" -> ReqFreq(ev.cfg, ev.out)
         [] n = "Eigvec" -> ReqEigvec(ev.cfg, ev.out)
         [] n = "Dynmat" -> ReqDynmat(ev.cfg, ev.out)
         [] n = "GV" -> ReqGV(ev.cfg, ev.out)
         [] n = "Grid" -> ReqGrid(ev.cfg, ev.out)
         [] n = "Diag" -> ReqDiag(ev.cfg, ev.out)
         [] n = "SameOrder" -> ReqSameOrder(ev.cfg, ev.out)
         [] n = "DiagNumeric" -> ev.out.diag # "bad"
         [] n = "IterSame" -> ev.out.iter # "bad"
         [] n = "Permutation" -> ev.out.permok # "bad"
         [] n = "Files" -> \A f \in ev.files : ReqFile(ev.cfg, f)
         [] n = "Bulk" -> ReqBulk(ev.cfg, ev.out)}
ReportReq == First => PrintT(ToString(<<"Q", ev.id, FailedReqs>>))

(* conformance of the logged observation with the machine's *)
ConfSlot(ms, es) == Len(ms) = Len(es) /\ \A j \in 1..Len(ms) : ms[j] \in es[j]
Conf ==
  IF out.err # "none" \/ ev.out.err # "none"
    THEN out.err = ev.out.err
    ELSE /\ ConfSlot(out.freq, ev.out.freq) /\ ConfSlot(out.eigvec, ev.out.eigvec)
         /\ ConfSlot(out.dm, ev.out.dm) /\ ConfSlot(out.gv, ev.out.gv)
         /\ out.gc = ev.out.gc
Report == Done => PrintT(ToString(<<"R", ev.id, {s \in CodeSites : code[s]}, Conf>>))
=============================================================================
