------------------------- MODULE CalculatorsTrace -------------------------
(* Conformance of phonopy's calculator interfaces with Calculators.tla.     *)
(* Every event is one real execution recorded by harness/props/c17.py:      *)
(*   kind "rt"     - a cell was written with write_crystal_structure /      *)
(*                   write_supercells_with_displacements of E.ecalc and the  *)
(*                   written file was read back; E.eres is the projected  *)
(*                   read-back cell (species, position id matched modulo    *)
(*                   lattice vectors within the format's resolution,        *)
(*                   moment) plus lattice flags;                            *)
(*   kind "read"   - see TOrder;                                            *)
(*   kind "forces" - additionally a synthetic calculator output listing     *)
(*                   the atoms in FILE order was given to create_FORCE_SETS;*)
(*                   E.fs is the projected FORCE_SETS (force tokens per     *)
(*                   dataset atom) or the refusal.                          *)
(* The step machine runs on the event's input; at the end the requirement   *)
(* is evaluated on the LOGGED values (Impl.. invariants: a failure violates  *)
(* C17) and the logged values are compared with the machine (Conforms..).  *)
EXTENDS Calculators

CONSTANT Events   \* records [n, kind, ecalc, ecell, eres, fs]  (field names differ from the variables'
                  \* names on purpose: SANY's linter warns once per record literal otherwise)

VARIABLE ev
tvars == <<vars, ev>>
E == ev

TInit == Init /\ ev \in Events

TChoose ==
  /\ pc = "choose"
  /\ calc' = E.ecalc /\ cell' = E.ecell
  /\ phase' = IF E.kind = "forces" THEN "displaced" ELSE "perfect"
  /\ pc' = "order"
  /\ UNCHANGED <<order, file, back, outp, result>>

(* kind "read": an input file of the format, emitted by the harness with the *)
(* atoms in the given order, was read by the interface's reader: no writer  *)
(* of phonopy is involved, the order is the identity                        *)
TOrder ==
  IF E.kind = "read"
    THEN /\ pc = "order" /\ order' = Identity(Len(cell)) /\ pc' = "write"
         /\ UNCHANGED <<calc, cell, phase, file, back, outp, result>>
    ELSE Order

(* "rt"/"read" events end after Read (pc = "displace"), "forces" events at  *)
(* pc = "done"; Judge then evaluates every Impl.. / Conforms.. predicate on *)
(* the finished run and PRINTS the numbers of those that fail (see          *)
(* JudgeNames) as <<"C17V", E.n, {numbers}>>.  The harness runs all events  *)
(* this way (a violated INVARIANT makes TLC rebuild a trace from thousands  *)
(* of initial states, once per event), then re-checks one representative    *)
(* event per failing class with the predicates as INVARIANTs.               *)
Finished == IF E.kind = "forces" THEN pc = "done" ELSE pc = "displace"

AtEndRT == pc \in {"displace", "done"}
AtEndFS == pc = "done"
Ok == E.eres.status = "ok"

ImplNoError == AtEndRT => E.eres.status # "error"
ImplSameCrystal == (AtEndRT /\ Ok) => ReqSameCrystal(E.ecell, E.eres.atoms)
ImplSameMoments == (AtEndRT /\ Ok /\ Trait[E.ecalc].magmom) => ReqSameMoments(E.ecell, E.eres.atoms)
ImplOrder == (AtEndRT /\ Ok) => ReqOrder(E.ecell, E.eres.atoms)
ImplLattice == (AtEndRT /\ Ok) => E.eres.latticeOK
ImplFrame == (AtEndRT /\ Ok /\ Trait[E.ecalc].frame = "asis") => E.eres.frameOK
ImplForcesNoError == (AtEndFS /\ E.kind = "forces") => E.fs.status \in {"built", "refused"}
ImplForcesPaired ==
  (AtEndFS /\ E.kind = "forces" /\ Trait[E.ecalc].points) => ReqForcesPaired(E.ecell, E.fs)
ImplForcesPairedSameOrder ==
  (AtEndFS /\ E.kind = "forces" /\ Ok) => ReqForcesPairedSameOrder(E.ecell, E.eres.atoms, E.fs)
ImplNotRefused ==
  (AtEndFS /\ E.kind = "forces" /\ Ok) => ReqNotRefusedWhenSameOrder(E.ecell, E.eres.atoms, E.fs)

(* the machine itself on these inputs *)
TInvSameCrystal == InvSameCrystal
TInvOrder == InvOrder
TInvForcesPaired == InvForcesPaired

SameAtoms(a, b, withmom) ==
  /\ Len(a) = Len(b)
  /\ \A k \in 1..Len(a) : a[k].sp = b[k].sp /\ a[k].id = b[k].id /\ (withmom => a[k].mom = b[k].mom)
ConformsOrder == (AtEndRT /\ Ok) => SameAtoms(E.eres.atoms, back, Trait[E.ecalc].magmom)
ConformsForces ==
  (AtEndFS /\ E.kind = "forces") =>
     /\ E.fs.status = result.status
     /\ (result.status = "built" => E.fs.forces = result.forces)

JudgeNames == <<"ImplNoError", "ImplSameCrystal", "ImplSameMoments", "ImplOrder", "ImplLattice", "ImplFrame",
                "ImplForcesNoError", "ImplForcesPaired", "ImplNotRefused", "ConformsOrder", "ConformsForces",
                "ImplForcesPairedSameOrder">>
Holds(i) ==
  CASE i = 1 -> ImplNoError [] i = 2 -> ImplSameCrystal [] i = 3 -> ImplSameMoments [] i = 4 -> ImplOrder
    [] i = 5 -> ImplLattice [] i = 6 -> ImplFrame [] i = 7 -> ImplForcesNoError [] i = 8 -> ImplForcesPaired
    [] i = 9 -> ImplNotRefused [] i = 10 -> ConformsOrder [] i = 11 -> ConformsForces
    [] i = 12 -> ImplForcesPairedSameOrder
Verdict == {i \in 1..Len(JudgeNames) : ~Holds(i)}

Judge ==
  /\ Finished
  /\ LET v == Verdict IN IF v = {} THEN TRUE ELSE PrintT(<<"C17V", E.n, v>>)
  /\ pc' = "judged"
  /\ UNCHANGED <<calc, cell, phase, order, file, back, outp, result>>

TNext == (TChoose \/ TOrder \/ Write \/ Read \/ Collect \/ Agree \/ Judge) /\ UNCHANGED ev

TSpec == TInit /\ [][TNext]_tvars
=============================================================================
