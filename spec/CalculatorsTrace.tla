------------------------- MODULE CalculatorsTrace -------------------------
(* Conformance of phonopy's calculator interfaces with Calculators.tla.     *)
(* Every event is one real execution recorded by harness/props/c17.py:      *)
(*   kind "rt"     - a cell was written with write_crystal_structure        *)
(*                   (route "api") or write_supercells_with_displacements   *)
(*                   (route "sc") of E.ecalc and the written file was read  *)
(*                   back; E.eres is the projected read-back cell (species, *)
(*                   position id matched modulo lattice vectors within the  *)
(*                   format's resolution, moment token) plus lattice flags; *)
(*   kind "read"   - see TOrder;                                            *)
(*   kind "forces" - additionally synthetic calculator outputs listing the  *)
(*                   atoms in FILE order were given to create_FORCE_SETS    *)
(*                   (E.emode: dataset type, --fz, WIEN2k symmetric scf);    *)
(*                   E.fs is the projected FORCE_SETS (force tokens per     *)
(*                   dataset atom, displacements kept) or the refusal;      *)
(*   kind "convert"- convert_crystal_structure from E.ecalc to E.ocalc;     *)
(*                   E.eres is the read-back of the OUTPUT file, lattice    *)
(*                   compared in Angstrom with the unit factors of Units.tla*)
(* The step machine runs on the event's input; at the end the requirement   *)
(* is evaluated on the LOGGED values (Impl.. predicates: a failure violates *)
(* C17) and the logged values are compared with the machine (Conforms..).   *)
EXTENDS Calculators

CONSTANT Events   \* records [n, kind, route, ecalc, ocalc, ecell, ncl, emode, eorbit, ezref, erows, eres, fs]
                  \* (field names differ from the variables' names on purpose: SANY's
                  \* linter warns once per record literal otherwise)

VARIABLE ev
tvars == <<vars, ev>>
E == ev

TInit == Init /\ ev \in Events

PerfectOf(c) == [k \in 1..Len(c) |-> [c[k] EXCEPT !.id = k]]

TChoose ==
  /\ pc = "choose"
  /\ calc' = E.ecalc /\ cell' = E.ecell
  /\ phase' = CASE E.kind = "forces" -> "displaced" [] E.kind = "convert" -> "convert-in" [] OTHER -> "perfect"
  /\ calc2' = IF E.kind = "convert" THEN E.ocalc ELSE ""
  /\ mode' = E.emode
  /\ orbit' = E.eorbit
  /\ cell0' = IF E.kind = "convert" THEN E.ecell ELSE PerfectOf(E.ecell)
  /\ order0' = IF Trait[E.ecalc].groups THEN GroupPerm(SpeciesOf(E.ecell)) ELSE Identity(Len(E.ecell))
  /\ pc' = "order"
  /\ UNCHANGED <<order, file, back, outp, result, resid, zr, rowp>>

(* kind "read": an input file of the format, emitted by the harness with the *)
(* atoms in the given order, was read by the interface's reader: no writer  *)
(* of phonopy is involved, the order is the identity                        *)
TOrder ==
  IF E.kind = "read"
    THEN /\ pc = "order" /\ order' = Identity(Len(cell)) /\ pc' = "write"
         /\ UNCHANGED <<calc, cell, phase, file, back, outp, result, aux>>
    ELSE Order

(* the reference file of --fz that the harness really supplied (E.ezref); for  *)
(* kinds other than "perm" the lines follow the writer's order of the machine *)
TZeroRef ==
  ZeroRefWith([kind |-> E.ezref.kind, e |-> E.ezref.e,
               p |-> IF E.ezref.kind = "perm" THEN E.ezref.p ELSE order0])

(* the row order of the displaced run's output that the harness really wrote *)
(* (E.erows; <<>> = the order of the structure file)                        *)
TCollect == CollectWith(IF E.erows = <<>> THEN Identity(Len(back)) ELSE E.erows)
ERowsInOrder == E.erows = <<>> \/ E.erows = Identity(Len(E.erows)) \/ Trait[E.ecalc].ids

(* "rt"/"read" events end after Read (pc = "displace"), "forces"/"convert"  *)
(* events at pc = "done"; Judge then evaluates every Impl.. / Conforms..    *)
(* predicate on the finished run and PRINTS the numbers of those that fail  *)
(* (see JudgeNames) as <<"C17V", E.n, {numbers}>>.  The harness runs all    *)
(* events this way (a violated INVARIANT makes TLC rebuild a trace from     *)
(* thousands of initial states, once per event), then re-checks one         *)
(* representative event per failing class with the predicates as INVARIANTs.*)
Finished == IF E.kind \in {"forces", "convert"} THEN pc = "done" ELSE pc = "displace"

IsRT == E.kind \in {"rt", "read", "forces"}
AtEndRT == IsRT /\ pc \in {"displace", "done"}
AtEndFS == E.kind = "forces" /\ pc = "done"
AtEndCV == E.kind = "convert" /\ pc = "done"
Ok == E.eres.status = "ok"
Carried == MomentsCarried(E.ecalc, E.route, E.ncl)

ImplNoError == AtEndRT => E.eres.status # "error"
ImplSameCrystal == (AtEndRT /\ Ok) => ReqSameCrystal(E.ecell, E.eres.atoms)
ImplSameMoments == (AtEndRT /\ Ok /\ Carried) => ReqSameMoments(E.ecell, E.eres.atoms)
ImplOrder == (AtEndRT /\ Ok) => ReqOrder(E.ecell, E.eres.atoms)
ImplLattice == (AtEndRT /\ Ok) => E.eres.latticeOK
ImplFrame == (AtEndRT /\ Ok /\ Trait[E.ecalc].frame = "asis") => E.eres.frameOK
ImplForcesNoError == AtEndFS => E.fs.status \in {"built", "refused"}
ImplForcesPaired == (AtEndFS /\ Trait[E.ecalc].points) => ReqForcesPaired(E.ecell, E.fs)
ImplForcesPairedSameOrder == (AtEndFS /\ Ok) => ReqForcesPairedSameOrder(E.ecell, E.eres.atoms, E.fs)
ImplNotRefused == (AtEndFS /\ Ok /\ E.ezref.kind = "own" /\ ERowsInOrder) => ReqNotRefusedWhenSameOrder(E.ecell, E.eres.atoms, E.fs)
(* --fz with positions in the output: built only if EVERY atom of the reference agrees, *)
(* and phonopy's own reference is accepted                                              *)
ImplZeroRef ==
  (AtEndFS /\ Ok /\ E.emode.fz /\ Trait[E.ecalc].points) =>
     /\ ReqZeroRef(cell0, resid, E.fs)
     /\ ReqZeroRefAccepted(E.ecell, E.eres.atoms, cell0, resid, E.fs)
(* the displacements written to FORCE_SETS are the dataset's *)
ImplDisplacementsKept == (AtEndFS /\ E.fs.status = "built") => E.fs.dispOK
(* WIEN2k symmetric scf: forces of all atoms are recovered *)
ImplSymPaired == (AtEndFS /\ E.emode.sym) => (E.fs.status = "built" /\ ReqForcesPaired(E.ecell, E.fs))
(* conversion between interfaces *)
ImplConvertible == AtEndCV => (Ok <=> ~Trait[E.ocalc].needsinfo)
ImplConvertCrystal ==
  (AtEndCV /\ Ok) => /\ ReqSameCrystal(E.ecell, E.eres.atoms) /\ ReqOrder(E.ecell, E.eres.atoms)
                     /\ E.eres.latticeOK
                     /\ (Trait[E.ecalc].frame = "asis" /\ Trait[E.ocalc].frame = "asis" => E.eres.frameOK)

(* the machine itself on these inputs *)
TInvSameCrystal == InvSameCrystal
TInvOrder == InvOrder
TInvForcesPaired == InvForcesPaired
TInvConvert == InvConvertCrystal /\ InvConvertible
TInvSym == InvSymPaired
TInvZeroRef == InvZeroRef
TInvRows == InvRowOrderIrrelevant

SameAtoms(a, b, withmom) ==
  /\ Len(a) = Len(b)
  /\ \A k \in 1..Len(a) : a[k].sp = b[k].sp /\ a[k].id = b[k].id /\ (withmom => a[k].mom = b[k].mom)
ConformsOrder == ((AtEndRT \/ (AtEndCV /\ result.status = "converted")) /\ Ok) => SameAtoms(E.eres.atoms, back, IsRT /\ Carried)
ConformsForces ==
  AtEndFS =>
     /\ E.fs.status = result.status
     /\ (result.status = "built" => E.fs.forces = result.forces)

JudgeNames == <<"ImplNoError", "ImplSameCrystal", "ImplSameMoments", "ImplOrder", "ImplLattice", "ImplFrame",
                "ImplForcesNoError", "ImplForcesPaired", "ImplNotRefused", "ConformsOrder", "ConformsForces",
                "ImplForcesPairedSameOrder", "ImplDisplacementsKept", "ImplSymPaired", "ImplConvertible",
                "ImplConvertCrystal", "ImplZeroRef">>
Holds(i) ==
  CASE i = 1 -> ImplNoError [] i = 2 -> ImplSameCrystal [] i = 3 -> ImplSameMoments [] i = 4 -> ImplOrder
    [] i = 5 -> ImplLattice [] i = 6 -> ImplFrame [] i = 7 -> ImplForcesNoError [] i = 8 -> ImplForcesPaired
    [] i = 9 -> ImplNotRefused [] i = 10 -> ConformsOrder [] i = 11 -> ConformsForces
    [] i = 12 -> ImplForcesPairedSameOrder [] i = 13 -> ImplDisplacementsKept [] i = 14 -> ImplSymPaired
    [] i = 15 -> ImplConvertible [] i = 16 -> ImplConvertCrystal [] i = 17 -> ImplZeroRef
Verdict == {i \in 1..Len(JudgeNames) : ~Holds(i)}

Judge ==
  /\ Finished
  /\ LET v == Verdict IN IF v = {} THEN TRUE ELSE PrintT(<<"C17V", E.n, v>>)
  /\ pc' = "judged"
  /\ UNCHANGED <<calc, cell, phase, order, file, back, outp, result, aux>>

TNext == (TChoose \/ TOrder \/ Write \/ Read \/ Convert \/ TCollect \/ TZeroRef \/ Agree \/ Judge) /\ UNCHANGED ev

TSpec == TInit /\ [][TNext]_tvars
=============================================================================
