---------------------------- MODULE UnitsTrace ----------------------------
(* Conformance of phonopy's unit tables with Units.tla.  One event per      *)
(* calculator, recorded by harness/props/c17.py from                        *)
(* get_default_physical_units(calc), get_force_constant_conversion_factor   *)
(* and phonopy.units: every float is PROJECTED to the monomial (doubled     *)
(* exponent vector over EV, AMU, BOHR, HARTREE, TWO, PI, TEN, evaluated     *)
(* with the code's own base constants) that reproduces it to 1e-12; a value *)
(* that is no monomial of the box is logged as the vector of 99s.  E.phys   *)
(* carries what the real code computed for ONE physical crystal expressed   *)
(* in the calculator's units (phonopy.load(calculator=...)): whether the    *)
(* THz frequencies, the thermal properties and the LO-TO split frequencies  *)
(* equal those of the reference unit system.                                *)
EXTENDS Units

CONSTANT Events
VARIABLE ev
tvars == <<uvars, ev>>
E == ev

TInit == Init /\ ev \in Events
TChoose == /\ pc = "choose" /\ calc' = E.calc /\ pc' = "derive" /\ UNCHANGED row
TNext == (TChoose \/ Derive) /\ UNCHANGED ev
TSpec == TInit /\ [][TNext]_tvars

tE == Table[E.calc]

(* requirement evaluated on the LOGGED values *)
ImplFactor == Done => Mul(Mul(Pow(E.factor, 2), Mul(Pow(TwoPi, 2), Pow(THz, 2))), AMU) = FcSI(tE)
ImplNac == (Done /\ E.nacPresent) => Mul(E.nac, Mul(FcSI(tE), Pow(LengthUnit[tE.l2], 3))) = Coulomb
(* only CP2K documents the NAC factor as not implemented *)
ImplNacPresent == (Done /\ ~E.nacPresent) => E.calc = "cp2k"
ImplDistance == Done => Mul(E.dist, Metre_angstrom) = LengthUnit[tE.l2]
ImplForce == (Done /\ E.forcePresent) => Mul(E.force, Div(Joule_eV, Metre_angstrom)) = ForceSI(tE)
ImplNames == Done => /\ E.fcname \in FcNames
                     /\ FcSI(TripleOfName[E.fcname]) = FcSI(tE)
                     /\ E.lname = tE.l2
                     /\ E.fname = ForceName(tE)
ImplConv == Done => \A u \in FcNames : Mul(E.conv[u], FcSI(tE)) = FcSI(TripleOfName[u])
(* physical invariance on the logged tables *)
ImplSameTHz == Done => Div(Pow(E.factor, 2), FcSI(tE)) = Div(Factor2(Table["vasp"]), FcSI(Table["vasp"]))
ImplSameNac == (Done /\ E.nacPresent) =>
                 Mul(E.nac, Mul(Pow(LengthUnit[tE.l2], 3), FcSI(tE))) = Coulomb
(* ... and on what the real code computed for the physical crystal *)
ImplPhysFrequencies == Done => E.phys.sameFrequencies
ImplPhysThermal == Done => E.phys.sameThermal
ImplPhysLOTO == (Done /\ E.nacPresent) => E.phys.sameLOTO
ImplPhysNontrivial == Done => E.phys.lotoSplit      \* the reference really has an LO-TO splitting

(* the machine on this input *)
TInvFactor == InvFactor
TInvNac == InvNac
TInvConv == InvConv

(* logged table = derived table *)
ConformsFactor == Done => E.factor = row.factor
ConformsNac == (Done /\ E.nacPresent) => E.nac = row.nac
ConformsDistance == Done => E.dist = row.dist
ConformsConv == Done => \A u \in FcNames : E.conv[u] = row.conv[u]
=============================================================================
