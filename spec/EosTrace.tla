------------------------------ MODULE EosTrace ------------------------------
(* Conformance of phonopy.qha.eos.get_eos(name) with Eos.tla.  One event =   *)
(* one (name, parameter set):                                                *)
(*   ev.sjet  - reduced Taylor coefficients c_k V0^k (k = 0..3) at V0 of the  *)
(*              REAL function, c = (E, dE/dV, d2E/dV2 / 2, d3E/dV3 / 6),      *)
(*              measured by the harness (Cauchy integral of the real         *)
(*              function on a circle around V0) and projected to rationals;  *)
(*              ev.exact - the projection residuals were within tolerance;   *)
(*   ev.pts   - the real function agreed with the harness' interpretation of *)
(*              Form(name) at the sampled real volumes (replay direction).   *)
(* Impl...: the meaning of the parameters, evaluated on the measured jet.    *)
(* ConformsJet: the measured jet is the jet of the specification's formula.  *)
EXTENDS Eos

CONSTANT Events
VARIABLE ev
tvars == <<vars, ev>>

TInit == \E e \in Events : ev = e /\ Init
TChoose == /\ pc = "choose" /\ name' = ev.name /\ par' = ev.p /\ pc' = "jet" /\ UNCHANGED jet
TNext == (TChoose \/ EvalJet) /\ UNCHANGED ev
TSpec == TInit /\ [][TNext]_tvars

MJet == JUnscale(ev.sjet, ev.p.V0)        \* measured coefficients of (V - V0)^k
ImplExact == AtEnd => ev.exact
ImplEnergy == AtEnd => ReqEnergy(ev.p, MJet)
ImplPressure == AtEnd => ReqPressure(ev.p, MJet)
ImplBulk == AtEnd => ReqBulk(ev.p, MJet)
ImplBulkPrime == AtEnd => ReqBulkPrime(ev.p, MJet)
ImplPointwise == AtEnd => ev.pts
ConformsJet == AtEnd => MJet = jet
=============================================================================
