-------------------------- MODULE ThermalIEEETrace --------------------------
(* Conformance of the real per-mode kernels with ThermalIEEE.tla.            *)
(* Every event is one evaluation of one kernel of one code path on the real  *)
(* code (C: phonoc.thermal_properties on a single mode of weight 1; Py:      *)
(* mode_F / mode_S / mode_cv) at a point (x, T) the harness drew inside the  *)
(* x-class xc; obs is the IEEE class of the result: [c, s, e] with           *)
(* |v| in [2^(e-1), 2^e) (math.frexp).                                       *)
(*  - Impl*: the requirement on the observed value (finite; F_th <= 0;       *)
(*    S, C_V >= 0) - a failure is a property violation;                      *)
(*  - ConformsPinned* / ConformsStable*: the observation lies in the         *)
(*    concretisation of the abstract result of that variant's tree; the      *)
(*    variant whose invariant holds on all events is the code's.             *)
EXTENDS ThermalIEEE

CONSTANTS Events, Variants
VARIABLE ev
tvars == <<ivars, ev>>

TInit == /\ ev \in Events /\ variant \in Variants
         /\ pc = "eval" /\ xc = ev.xc /\ lang = ev.lang /\ kern = ev.kern /\ res = {}
TNext == Next /\ UNCHANGED ev

Gamma(o, r) ==
  /\ o.c = r.c
  /\ o.c \in {"fin", "inf"} => o.s = r.s
  /\ o.c = "fin" => r.lo <= o.e - 1 /\ o.e - 1 <= r.hi

AtEnd == pc = "done"
Conforms(v, l) == (AtEnd /\ variant = v /\ lang = l) => \E r \in res : Gamma(ev.obs, r)
ConformsPinnedC == Conforms("pinned", "C")
ConformsPinnedPy == Conforms("pinned", "Py")
ConformsStableC == Conforms("stable", "C")
ConformsStablePy == Conforms("stable", "Py")

ImplFiniteC == (AtEnd /\ lang = "C") => ev.obs.c \in {"fin", "zero"}
ImplFinitePy == (AtEnd /\ lang = "Py") => ev.obs.c \in {"fin", "zero"}
ImplNonNegative == (AtEnd /\ kern \in {"S", "Cv"} /\ ev.obs.c = "fin") => ev.obs.s = 1
ImplThermalFreeEnergyNonPositive == (AtEnd /\ kern = "F" /\ lang = "C" /\ ev.obs.c = "fin") => ev.obs.s = -1
=============================================================================
