------------------------------ MODULE Thermal ------------------------------
(* C10 - thermal properties at constant volume: WHICH harmonic-oscillator    *)
(* terms, with which weights, each code path of phonopy adds up              *)
(* (phonon/thermal_properties.py: ThermalPropertiesBase, ThermalProperties;  *)
(* c/phonopy.c: phpy_get_thermal_properties), as a step machine over an      *)
(* exact abstract state, and the requirement of C10 on that state.           *)
(*                                                                           *)
(* Abstract state.  A mesh is nq q-points with integer weights w[q] and nb   *)
(* bands; the frequency of mode (q, b) is an integer LEVEL lev[q][b]         *)
(* (order-isomorphic to the real frequencies: level < 0 imaginary mode,      *)
(* level 0 exactly zero; the cutoff is a level too, so ties nu = cutoff are  *)
(* exact).  A temperature is an integer level (< 0, 0, > 0).  The real-      *)
(* valued per-mode expressions are NAMED, not evaluated (DESIGN 2.3):        *)
(*    "Fth"  k T ln(1 - exp(-h nu / k T))      "ZPE"  h nu / 2               *)
(*    "S"    entropy of one oscillator          "Cv"   heat capacity          *)
(*    "Fcl" "Scl" "Cvcl"   the classical-statistics expressions              *)
(* A result is a multiset ("bag") of terms [q, b, lev, kind, c]: the mode,   *)
(* its effective frequency level, the expression and the integer             *)
(* coefficient it is multiplied with; every reported number is               *)
(*    unit(Q) * (SUM over the bag of c * kind(nu(lev), T)) / divisor.        *)
(* The harness interprets a bag with its own numerically stable closed       *)
(* forms (replay), and recovers the bag of a real run by decoding            *)
(* (ThermalTrace).                                                           *)
(*                                                                           *)
(* One action per step of the code:                                          *)
(*   SetCutoff        __init__: cutoff None or < 0 -> 0                       *)
(*   SelectBands      __init__: frequencies[:, band_indices]                  *)
(*   PretendReal      __init__: abs(frequencies)                              *)
(*   CountModes       __init__: num_modes, num_integrated_modes               *)
(*   ZeroPoint        ThermalProperties.__init__: zero_point_energy           *)
(*   SetTemperatures  temperatures.setter: drop negative temperatures         *)
(*   KernelC          phpy_get_thermal_properties                             *)
(*   AssembleC        _run_c_thermal_properties: /sum(w), + zero_point_energy *)
(*   RunPy            _run_py_thermal_properties: mode_F/mode_S/mode_cv,      *)
(*                    mode_ZPE/mode_zero at T = 0                             *)
(*   Project          run(): projected properties (|e|^2-weighted)            *)
(* Deliberate deviations of the code are named constants, identified from    *)
(* the real code by ThermalTrace (see Variant).                              *)
EXTENDS Integers, Sequences, FiniteSets, TLC

CONSTANTS
  Configs,   \* set of complete configuration records (trace / replay runs)
  Seeds,     \* exhaustive runs: set of meshes [lev, w, ed, e2] ...
  Options,   \* ... each combined with every option record
             \*   [cutGiven, cut, pr, biGiven, bi, classical, temps, proj]
  Variant    \* [zpeCutoff, projBandIndices, pyProjTotals, weightsByValue |-> BOOLEAN]: which code is modelled
             \*   zpeCutoff = FALSE : zero_point_energy sums every nu > 0 (pinned tree)
             \*   zpeCutoff = TRUE  : zero_point_energy sums nu > cutoff
             \*   projBandIndices = FALSE : is_projection with band_indices is broken (pinned tree,
             \*                       see ProjShapeError / ProjInexact);  TRUE : it works
             \*   pyProjTotals = FALSE : run(lang="Py") with is_projection reports the projected
             \*                       components in place of the totals (pinned tree)
             \*   pyProjTotals = TRUE  : totals, as the compiled path
             \*   weightsByValue = FALSE : _run_c_thermal_properties hands mesh.weights to the kernel as
             \*                       it is and the kernel reads the buffer as contiguous int64: any other
             \*                       dtype or a strided view gives numbers unrelated to the weights
             \*   weightsByValue = TRUE  : the kernel sees the VALUES of the weights
             \* cfg.wl is the memory layout of the weight array ("int64", "uint64", "intc", "strided");
             \* the layouts of the frequency and eigenvector arrays (cfg.fl, cfg.el) are not read by
             \* the machine at all: the requirement does not depend on any of the three.
             \* band_indices may list a band several times and in any order: the code then works on
             \* the selected COLUMNS, a band listed m times is counted m times (requirement alike).

VARIABLES pc, cfg, cut, fr, nmodes, nint, zpe, temps, propsC, outC, outPy, proj

vars == <<pc, cfg, cut, fr, nmodes, nint, zpe, temps, propsC, outC, outPy, proj>>

-----------------------------------------------------------------------------
(* helpers *)
AbsI(x) == IF x < 0 THEN -x ELSE x

RECURSIVE SeqSum(_)
SeqSum(s) == IF s = <<>> THEN 0 ELSE Head(s) + SeqSum(Tail(s))

RECURSIVE SetSum(_)
SetSum(S) == IF S = {} THEN 0 ELSE LET x == CHOOSE x \in S : TRUE IN x[2] + SetSum(S \ {x})

Range(s) == {s[i] : i \in 1..Len(s)}

(* ---- bags of terms -------------------------------------------------------- *)
(* a bag is a set of term records with pairwise distinct keys and c # 0        *)
Term(k, q, b, l, kind, c) == [k |-> k, q |-> q, b |-> b, lev |-> l, kind |-> kind, c |-> c]
KeyOf(t) == <<t.k, t.q, t.b, t.lev, t.kind>>
CoefIn(B, key) == SetSum({<<t, t.c>> : t \in {u \in B : KeyOf(u) = key}})
BagPlus(A, B) ==
  LET keys == {KeyOf(t) : t \in A \cup B}
      all == {Term(key[1], key[2], key[3], key[4], key[5], CoefIn(A, key) + CoefIn(B, key)) : key \in keys}
  IN {t \in all : t.c # 0}
(* union of bags built from a set of bags *)
RECURSIVE BagUnion(_)
BagUnion(SS) == IF SS = {} THEN {} ELSE LET B == CHOOSE B \in SS : TRUE IN BagPlus(B, BagUnion(SS \ {B}))

NoBags == [F |-> {}, S |-> {}, Cv |-> {}]

-----------------------------------------------------------------------------
(* configuration accessors *)
NQ(c) == Len(c.lev)
NB(c) == Len(c.lev[1])
WSum(c) == SeqSum(c.w)
Bands(c) == IF c.biGiven THEN c.bi ELSE [i \in 1..NB(c) |-> i]

-----------------------------------------------------------------------------
(* the step machine *)

InitWith(c) ==
  /\ pc = "cutoff" /\ cfg = c /\ cut = 0 /\ fr = <<>> /\ nmodes = 0 /\ nint = 0 /\ zpe = {}
  /\ temps = <<>> /\ propsC = <<>> /\ outC = [status |-> "none"] /\ outPy = [status |-> "none"] /\ proj = [status |-> "none"]

InitPick(s) ==
  /\ pc = "pick" /\ cfg = s /\ cut = 0 /\ fr = <<>> /\ nmodes = 0 /\ nint = 0 /\ zpe = {}
  /\ temps = <<>> /\ propsC = <<>> /\ outC = [status |-> "none"] /\ outPy = [status |-> "none"] /\ proj = [status |-> "none"]

Init == (\E c \in Configs : InitWith(c)) \/ (\E s \in Seeds : InitPick(s))

(* the caller's choice of options (ThermalProperties(...) arguments, temperatures) *)
Pick ==
  /\ pc = "pick"
  /\ \E o \in Options :
       cfg' = [lev |-> cfg.lev, w |-> cfg.w, ed |-> cfg.ed, e2 |-> cfg.e2,
               cutGiven |-> o.cutGiven, cut |-> o.cut, pr |-> o.pr, biGiven |-> o.biGiven, bi |-> o.bi,
               classical |-> o.classical, temps |-> o.temps, proj |-> o.proj, wl |-> o.wl]
  /\ pc' = "cutoff"
  /\ UNCHANGED <<cut, fr, nmodes, nint, zpe, temps, propsC, outC, outPy, proj>>

SetCutoff ==
  /\ pc = "cutoff"
  /\ cut' = IF (~cfg.cutGiven) \/ cfg.cut < 0 THEN 0 ELSE cfg.cut
  /\ pc' = "select"
  /\ UNCHANGED <<cfg, fr, nmodes, nint, zpe, temps, propsC, outC, outPy, proj>>

SelectBands ==
  /\ pc = "select"
  /\ LET B == Bands(cfg)
     IN fr' = [q \in 1..NQ(cfg) |-> [i \in 1..Len(B) |-> [b |-> B[i], lev |-> cfg.lev[q][B[i]]]]]
  /\ pc' = "pretend"
  /\ UNCHANGED <<cfg, cut, nmodes, nint, zpe, temps, propsC, outC, outPy, proj>>

PretendReal ==
  /\ pc = "pretend"
  /\ fr' = IF cfg.pr
             THEN [q \in DOMAIN fr |-> [i \in DOMAIN fr[q] |-> [b |-> fr[q][i].b, lev |-> AbsI(fr[q][i].lev)]]]
             ELSE fr
  /\ pc' = "count"
  /\ UNCHANGED <<cfg, cut, nmodes, nint, zpe, temps, propsC, outC, outPy, proj>>

CountModes ==
  /\ pc = "count"
  /\ nmodes' = Len(fr[1]) * WSum(cfg)
  /\ nint' = SeqSum([q \in DOMAIN fr |-> cfg.w[q] * Cardinality({i \in DOMAIN fr[q] : fr[q][i].lev > cut})])
  /\ pc' = "zpe"
  /\ UNCHANGED <<cfg, cut, fr, zpe, temps, propsC, outC, outPy, proj>>

(* slots of the selected-band arrays passing a threshold *)
Above(thr) == {<<q, i>> \in {<<q, i>> : q \in DOMAIN fr, i \in 1..Len(fr[1])} : fr[q][i].lev > thr}
(* a band selected several times occupies several columns: its term is added once per column *)
Columns(q, b) == Cardinality({i \in 1..Len(fr[1]) : fr[q][i].b = b})
TermsOfW(kind, thr, W(_)) ==
  {Term(0, s[1], fr[s[1]][s[2]].b, fr[s[1]][s[2]].lev, kind, W(s[1]) * Columns(s[1], fr[s[1]][s[2]].b)) : s \in Above(thr)}
TrueW(q) == cfg.w[q]
TermsOf(kind, thr) == {t \in TermsOfW(kind, thr, TrueW) : t.c # 0}
(* what the compiled kernel takes for the weight of q-point q: the buffer read as contiguous int64. *)
(* A strided view (every second element of a buffer whose other elements are Pad) shows w1, Pad,   *)
(* w2, ...; narrower integers are modelled as "garbage" (WeightsMisread).                          *)
Pad == 7
KernelW(q) == IF (~Variant.weightsByValue) /\ cfg.wl = "strided"
                THEN (IF q % 2 = 1 THEN cfg.w[(q + 1) \div 2] ELSE Pad)
                ELSE cfg.w[q]
KTermsOf(kind, thr) == {t \in TermsOfW(kind, thr, KernelW) : t.c # 0}

ZeroPoint ==
  /\ pc = "zpe"
  /\ zpe' = IF cfg.classical THEN {}
            ELSE TermsOf("ZPE", IF Variant.zpeCutoff THEN cut ELSE 0)
  /\ pc' = "temps"
  /\ UNCHANGED <<cfg, cut, fr, nmodes, nint, temps, propsC, outC, outPy, proj>>

SetTemperatures ==
  /\ pc = "temps"
  /\ temps' = SelectSeq(cfg.temps, LAMBDA t : ~(t < 0))
  /\ pc' = "kernelC"
  /\ UNCHANGED <<cfg, cut, fr, nmodes, nint, zpe, propsC, outC, outPy, proj>>

(* phpy_get_thermal_properties: for T > 0 and f > cutoff add the three kernels *)
KernelC ==
  /\ pc = "kernelC"
  /\ propsC' = [j \in DOMAIN temps |->
                  IF temps[j] > 0
                    THEN [F  |-> KTermsOf(IF cfg.classical THEN "Fcl" ELSE "Fth", cut),
                          S  |-> KTermsOf(IF cfg.classical THEN "Scl" ELSE "S", cut),
                          Cv |-> KTermsOf(IF cfg.classical THEN "Cvcl" ELSE "Cv", cut)]
                    ELSE NoBags]
  /\ pc' = "assembleC"
  /\ UNCHANGED <<cfg, cut, fr, nmodes, nint, zpe, temps, outC, outPy, proj>>

(* a reported row: value(Q) = unit(Q) * (sum of the bag Q) / (div * den) *)
Row(t, den, F, S, Cv) == [t |-> t, div |-> WSum(cfg), den |-> den, F |-> F, S |-> S, Cv |-> Cv]

(* the kernel reads the weight buffer as contiguous int64 (see Variant.weightsByValue) *)
WeightsMisread == /\ ~Variant.weightsByValue /\ cfg.wl = "intc"
                  /\ \E j \in DOMAIN temps : propsC[j].F # {} \/ propsC[j].S # {} \/ propsC[j].Cv # {}

AssembleC ==
  /\ pc = "assembleC"
  /\ outC' = IF WeightsMisread THEN [status |-> "garbage"]
             ELSE [status |-> "ok",
                   rows |-> [j \in DOMAIN temps |-> Row(temps[j], 1, BagPlus(propsC[j].F, zpe), propsC[j].S, propsC[j].Cv)]]
  /\ pc' = "runPy"
  /\ UNCHANGED <<cfg, cut, fr, nmodes, nint, zpe, temps, propsC, outPy, proj>>

(* run_free_energy / run_entropy / run_heat_capacity through _calculate_thermal_property *)
PyBags(t) ==
  IF t > 0
    THEN [F  |-> IF cfg.classical THEN TermsOf("Fcl", cut)
                 ELSE BagPlus(TermsOf("Fth", cut), TermsOf("ZPE", cut)),     \* mode_F: ... + freqs / 2
          S  |-> TermsOf(IF cfg.classical THEN "Scl" ELSE "S", cut),
          Cv |-> TermsOf(IF cfg.classical THEN "Cvcl" ELSE "Cv", cut)]
    ELSE [F  |-> IF cfg.classical THEN {} ELSE TermsOf("ZPE", cut),          \* mode_ZPE
          S  |-> {}, Cv |-> {}]                                              \* mode_zero

(* the is_projection branch of _calculate_thermal_property: component k gets   *)
(* sum_b |e[k, b]|^2 f(nu_b); cfg.e2[q][k][b] are the numerators of |e|^2 over *)
(* the common denominator cfg.ed                                              *)
Spread(B) ==
  BagUnion({ {t2 \in {Term(k, t.q, t.b, t.lev, t.kind, t.c * cfg.e2[t.q][k][t.b]) : k \in 1..NB(cfg)} : t2.c # 0}
             : t \in B })
ProjRows == [j \in DOMAIN temps |->
               LET B == PyBags(temps[j]) IN Row(temps[j], cfg.ed, Spread(B.F), Spread(B.S), Spread(B.Cv))]
(* pinned tree, is_projection together with band_indices:                                       *)
(*  - the accumulator np.zeros(len(frequencies[0])) has one slot per SELECTED band; numpy cannot  *)
(*    add the (nb,) vector of components into it unless the counts agree (ValueError);            *)
(*  - eigenvectors[:, :, band_indices] is cast to dtype "double": the imaginary parts are         *)
(*    dropped and the weights are Re(e)^2 instead of |e|^2 - the numbers are then no integer      *)
(*    combination of the closed forms at all ("inexact")                                          *)
ProjShapeError == (~Variant.projBandIndices) /\ cfg.biGiven /\ Len(fr[1]) # NB(cfg)
ProjInexact == /\ (~Variant.projBandIndices) /\ cfg.biGiven /\ Len(fr[1]) = NB(cfg)
               /\ \E j \in DOMAIN temps : ProjRows[j].F # {} \/ ProjRows[j].S # {} \/ ProjRows[j].Cv # {}
ProjResult == IF ProjShapeError THEN [status |-> "error"]
              ELSE IF ProjInexact THEN [status |-> "inexact"]
              ELSE [status |-> "ok", rows |-> ProjRows]

RunPy ==
  /\ pc = "runPy"
  /\ outPy' = IF cfg.proj /\ ~Variant.pyProjTotals
                THEN ProjResult
                ELSE [status |-> "ok",
                      rows |-> [j \in DOMAIN temps |-> LET B == PyBags(temps[j]) IN Row(temps[j], 1, B.F, B.S, B.Cv)]]
  /\ pc' = "project"
  /\ UNCHANGED <<cfg, cut, fr, nmodes, nint, zpe, temps, propsC, outC, proj>>

(* run(): projected properties, always through the Python functions *)
Project ==
  /\ pc = "project"
  /\ proj' = IF ~cfg.proj THEN [status |-> "none"] ELSE ProjResult
  /\ pc' = "done"
  /\ UNCHANGED <<cfg, cut, fr, nmodes, nint, zpe, temps, propsC, outC, outPy>>

Next == Pick \/ SetCutoff \/ SelectBands \/ PretendReal \/ CountModes \/ ZeroPoint \/ SetTemperatures
        \/ KernelC \/ AssembleC \/ RunPy \/ Project

Spec == Init /\ [][Next]_vars

-----------------------------------------------------------------------------
(* THE REQUIREMENT (C10, bookkeeping part), from the definition:              *)
(* a mode (q, b) of the selection contributes iff its frequency - absolute    *)
(* value if pretend_real - is above the cutoff frequency (default 0); it      *)
(* contributes with its q-point weight, the result is divided by the sum of   *)
(* weights; F = sum (h nu/2 + kT ln(1 - e^(-h nu/kT))), S, C_V the harmonic   *)
(* expressions; at T = 0:  F = zero-point energy of the same modes, S = C_V   *)
(* = 0; classical statistics: kT ln(h nu/kT), k(1 - ln(h nu/kT)), k, and no   *)
(* zero-point energy; negative temperatures are not reported; a projected     *)
(* component k weights every term with |e[k, b]|^2.  Stated for any           *)
(* configuration c, independent of the step machine.                          *)

EffLev(c, l) == IF c.pr THEN AbsI(l) ELSE l
CutOf(c) == IF c.cutGiven /\ c.cut > 0 THEN c.cut ELSE 0
Selected(c) == IF c.biGiven THEN Range(c.bi) ELSE 1..NB(c)
Contributing(c) == {m \in (1..NQ(c)) \X Selected(c) : EffLev(c, c.lev[m[1]][m[2]]) > CutOf(c)}
(* how often band b is listed (1 without band_indices) *)
Listed(c, b) == IF c.biGiven THEN Cardinality({i \in 1..Len(c.bi) : c.bi[i] = b}) ELSE 1
ReqTerms(c, kind) ==
  {Term(0, m[1], m[2], EffLev(c, c.lev[m[1]][m[2]]), kind, c.w[m[1]] * Listed(c, m[2])) : m \in Contributing(c)}

ReqBags(c, t) ==
  IF t > 0
    THEN IF c.classical
           THEN [F |-> ReqTerms(c, "Fcl"), S |-> ReqTerms(c, "Scl"), Cv |-> ReqTerms(c, "Cvcl")]
           ELSE [F |-> ReqTerms(c, "Fth") \cup ReqTerms(c, "ZPE"), S |-> ReqTerms(c, "S"), Cv |-> ReqTerms(c, "Cv")]
    ELSE [F |-> IF c.classical THEN {} ELSE ReqTerms(c, "ZPE"), S |-> {}, Cv |-> {}]

ReqTemps(c) == SelectSeq(c.temps, LAMBDA t : t >= 0)

ReqSpread(c, B) ==
  {t2 \in {Term(k, u.q, u.b, u.lev, u.kind, u.c * c.e2[u.q][k][u.b]) : u \in B, k \in 1..NB(c)} : t2.c # 0}

ReqRows(c) ==
  [j \in 1..Len(ReqTemps(c)) |->
     LET R == ReqBags(c, ReqTemps(c)[j])
     IN [t |-> ReqTemps(c)[j], div |-> WSum(c), den |-> 1, F |-> R.F, S |-> R.S, Cv |-> R.Cv]]
ReqProjRows(c) ==
  [j \in 1..Len(ReqTemps(c)) |->
     LET R == ReqBags(c, ReqTemps(c)[j])
     IN [t |-> ReqTemps(c)[j], div |-> WSum(c), den |-> c.ed,
         F |-> ReqSpread(c, R.F), S |-> ReqSpread(c, R.S), Cv |-> ReqSpread(c, R.Cv)]]

(* everything C10 demands of one run, as one record (also what the replay interprets) *)
ReqRecord(c) ==
  [rows |-> ReqRows(c),
   proj |-> IF c.proj THEN [status |-> "ok", rows |-> ReqProjRows(c)] ELSE [status |-> "none"],
   zpe |-> IF c.classical THEN {} ELSE ReqTerms(c, "ZPE"),
   nmodes |-> Len(Bands(c)) * WSum(c),
   nint |-> SetSum({<<m, c.w[m[1]] * Listed(c, m[2])>> : m \in Contributing(c)})]

(* sum over components k of a projected bag *)
Collapse(B) ==
  LET keys == {<<t.q, t.b, t.lev, t.kind>> : t \in B}
  IN {Term(0, key[1], key[2], key[3], key[4],
           SetSum({<<t, t.c>> : t \in {u \in B : <<u.q, u.b, u.lev, u.kind>> = key}})) : key \in keys}
Scale(B, n) == {Term(t.k, t.q, t.b, t.lev, t.kind, t.c * n) : t \in B}

(* totals of an output, whatever its shape: rows with den = 1, or the sum of the components *)
TotalsOf(c, rows) ==
  [j \in DOMAIN rows |->
     IF rows[j].den = 1 THEN rows[j]
     ELSE [t |-> rows[j].t, div |-> rows[j].div, den |-> rows[j].den,
           F |-> Collapse(rows[j].F), S |-> Collapse(rows[j].S), Cv |-> Collapse(rows[j].Cv)]]
ScaledReq(c, den) ==
  [j \in DOMAIN ReqRows(c) |->
     LET r == ReqRows(c)[j] IN [t |-> r.t, div |-> r.div, den |-> den,
                                F |-> Scale(r.F, den), S |-> Scale(r.S, den), Cv |-> Scale(r.Cv, den)]]

(* the totals are the required sums (unit-norm eigenvectors: components add up to the total) *)
ReqOut(c, out) ==
  /\ out.status = "ok"
  /\ Len(out.rows) = Len(ReqTemps(c))
  /\ \A j \in 1..Len(out.rows) : TotalsOf(c, out.rows)[j] = ScaledReq(c, out.rows[j].den)[j]
ReqReportsTotals(c, out) == out.status = "ok" => \A j \in 1..Len(out.rows) : out.rows[j].den = 1

(* every term belongs to a selected mode above the cutoff (and above zero) *)
OnlyAbove(c, B) == \A t \in B : t.lev > CutOf(c) /\ t.lev > 0 /\ t.lev = EffLev(c, c.lev[t.q][t.b]) /\ t.b \in Selected(c)
ReqOnlyAbove(c, out) ==
  out.status = "ok" => \A j \in 1..Len(out.rows) :
     OnlyAbove(c, out.rows[j].F) /\ OnlyAbove(c, out.rows[j].S) /\ OnlyAbove(c, out.rows[j].Cv)

ReqZeroT(c, out) ==
  out.status = "ok" => \A j \in 1..Len(out.rows) : out.rows[j].t = 0 =>
     /\ out.rows[j].S = {} /\ out.rows[j].Cv = {}
     /\ \A t \in out.rows[j].F : t.kind = "ZPE"
     /\ Collapse(out.rows[j].F) = Scale(IF c.classical THEN {} ELSE ReqTerms(c, "ZPE"), out.rows[j].den)

ReqProj(c, p) ==
  /\ p.status # "error"                                  \* never an exception
  /\ p = ReqRecord(c).proj
  /\ c.proj => \A j \in 1..Len(p.rows) :
        /\ Collapse(p.rows[j].F) = Scale(ReqRows(c)[j].F, c.ed)
        /\ Collapse(p.rows[j].S) = Scale(ReqRows(c)[j].S, c.ed)
        /\ Collapse(p.rows[j].Cv) = Scale(ReqRows(c)[j].Cv, c.ed)

ReqCounts(c, nm, ni) == nm = ReqRecord(c).nmodes /\ ni = ReqRecord(c).nint
ReqZpeAttr(c, z) == z = ReqRecord(c).zpe

-----------------------------------------------------------------------------
(* Invariants of the step machine = the requirement on the model of the code *)
Done == pc = "done"
TypeOK == pc \in {"pick", "cutoff", "select", "pretend", "count", "zpe", "temps", "kernelC", "assembleC",
                  "runPy", "project", "done"}

InvNoError == Done => outC.status # "error" /\ outPy.status # "error" /\ proj.status # "error"
InvTermsC  == Done => ReqOut(cfg, outC)
InvTermsPy == Done /\ outPy.status # "error" => ReqOut(cfg, outPy)
InvSameTermsBothLanguages ==
  Done /\ outPy.status = "ok" =>
     /\ outC.status = "ok"
     /\ \A j \in 1..Len(outC.rows) :
        LET a == TotalsOf(cfg, outC.rows)[j]  b == TotalsOf(cfg, outPy.rows)[j]
        IN /\ a.t = b.t /\ a.div = b.div
           /\ Scale(a.F, b.den) = Scale(b.F, a.den) /\ Scale(a.S, b.den) = Scale(b.S, a.den)
           /\ Scale(a.Cv, b.den) = Scale(b.Cv, a.den)
InvPyReportsTotals == Done => ReqReportsTotals(cfg, outPy)
InvOnlyAboveCutoff == Done => ReqOnlyAbove(cfg, outC) /\ ReqOnlyAbove(cfg, outPy)
InvZeroT == Done => ReqZeroT(cfg, outC) /\ ReqZeroT(cfg, outPy)
(* coverage: the requirement is a sum over the WHOLE index set (1..NQ) x selected bands - nothing in it depends *)
(* on NQ; every q-point with a contributing mode appears in the compiled sum (ThermalCoverage.tla carries this     *)
(* to meshes of thousands of q-points on the trace side)                                                         *)
InvEveryQPointCovered ==
  Done /\ outC.status = "ok" =>
     \A j \in 1..Len(outC.rows) : outC.rows[j].t > 0 =>
        {t.q : t \in outC.rows[j].Cv} = {m[1] : m \in Contributing(cfg)}
InvTemperatures == Done => temps = ReqTemps(cfg)
InvCounts == Done => ReqCounts(cfg, nmodes, nint)
InvZeroPointAttribute == Done => ReqZpeAttr(cfg, zpe)
InvProjection == Done => ReqProj(cfg, proj)
(* the reported number of integrated modes is the number of modes that contribute *)
InvCountMatchesTerms ==
  Done /\ outC.status = "ok" => \A j \in 1..Len(outC.rows) : outC.rows[j].t > 0 => SetSum({<<t, t.c>> : t \in outC.rows[j].Cv}) = nint

-----------------------------------------------------------------------------
(* Configuration spaces for the model runs *)
SeqsOf(S, n) == [1..n -> S]
E2Id(n, ed) == [k \in 1..n |-> [b \in 1..n |-> IF k = b THEN ed ELSE 0]]
(* a doubly stochastic mixing matrix with denominator n + 1 *)
E2Mix(n) == [k \in 1..n |-> [b \in 1..n |-> IF k = b THEN 2 ELSE 1]]

(* meshes: nq q-points, nb bands with non-decreasing levels (eigenvalues are sorted) *)
SortedSeqs(S, n) == {s \in SeqsOf(S, n) : \A i \in 1..(n - 1) : s[i] <= s[i + 1]}
AllSeeds(nq, nb, Levs, Ws, sorted) ==
  { [lev |-> L, w |-> W, ed |-> nb + 1,
     e2 |-> [q \in 1..nq |-> IF q = 1 THEN E2Mix(nb) ELSE E2Id(nb, nb + 1)]] :
      L \in SeqsOf(IF sorted THEN SortedSeqs(Levs, nb) ELSE SeqsOf(Levs, nb), nq), W \in SeqsOf(Ws, nq) }
AllOptions(Cuts, BIs, TempLists, ProjSet, WLs) ==
  { [cutGiven |-> cg.g, cut |-> cg.c, pr |-> p, biGiven |-> bi.g, bi |-> bi.s,
     classical |-> cl, temps |-> T, proj |-> pj, wl |-> wl] :
      cg \in Cuts, p \in BOOLEAN, bi \in BIs, cl \in BOOLEAN, T \in TempLists, pj \in ProjSet, wl \in WLs }
=============================================================================
