----------------------------- MODULE NACHistory -----------------------------
(* C08 over the life of ONE dynamical-matrix object: "with Born charges Z    *)
(* and dielectric tensor eps SET, ..." must hold for the parameters that are *)
(* set at the moment of the query, whatever was set or evaluated before.     *)
(*                                                                           *)
(* Anchors: DynamicalMatrixNAC.nac_params (setter -> _set_nac_params),       *)
(* DynamicalMatrixGL.make_Gonze_nac_dataset, DynamicalMatrixNAC.run,         *)
(* run_dynamical_matrix_solver_c / _extract_params                           *)
(* (phonopy/harmonic/dynamical_matrix.py), Phonopy.nac_params / run_qpoints. *)
(*                                                                           *)
(* Parameter sets are tokens "A", "B" (two different non-zero sets of Born   *)
(* charges, dielectric tensor and unit factor) and "Z" (zero Born charges).  *)
(* Actions on the object:                                                    *)
(*   SetNAC(t)    dm.nac_params = t          (route "phonopy": ph.nac_params = t, a fresh object is built) *)
(*   MakeGonze    dm.make_Gonze_nac_dataset() (Gonze-Lee objects only)       *)
(*   Run(qc)      query at a point of class qc: "gamma" (zone centre along a *)
(*                direction), "comm" (non-zero commensurate), "generic"      *)
(* Hypothesis (API contract of the Gonze-Lee object): the short-range force  *)
(* constants are those of the current parameters, i.e. after an assignment   *)
(* make_Gonze_nac_dataset() is called before the next query unless no        *)
(* dataset exists yet (it is then made on demand).                           *)
(* Requirement: every Run answers from the CURRENT parameters.               *)
EXTENDS Integers, Sequences, FiniteSets, TLC

CONSTANTS MaxLen,
          Observed   \* set of [method, route, steps, answers] recorded from the implementation ({} in model runs)

Tokens == {"A", "B", "Z"}
QClasses == {"gamma", "comm", "generic"}
Methods == {"wang", "gonze"}
Routes == {"solver", "dmrun", "phonopy"}

VARIABLES method, route,
          params,    \* token currently set ("none" before the first assignment)
          dataset,   \* Gonze-Lee: token the short-range force constants were made from ("none": not made)
          hist,      \* the steps so far: <<"set", t>> | <<"make", "-">> | <<"run", qc>>
          req,       \* aligned with hist: for a run step the token that must answer, "-" otherwise
          ev         \* the recorded event being validated ([steps |-> <<>>] in model runs)
vars == <<method, route, params, dataset, hist, req, ev>>

NoEv == [steps |-> <<>>]
Model == Observed = {}

Init ==
  /\ params = "none" /\ dataset = "none" /\ hist = <<>> /\ req = <<>>
  /\ IF Model THEN method \in Methods /\ route \in Routes /\ ev = NoEv
              ELSE \E e \in Observed : ev = e /\ method = e.method /\ route = e.route

Step(s) == IF Model THEN Len(hist) < MaxLen
                    ELSE Len(hist) < Len(ev.steps) /\ ev.steps[Len(hist) + 1] = s

SetNAC(t) ==
  /\ Step(<<"set", t>>)
  /\ params' = t
  /\ dataset' = IF route = "phonopy" THEN "none" ELSE dataset      \* Phonopy builds a fresh object; dm keeps what it has
  /\ hist' = Append(hist, <<"set", t>>) /\ req' = Append(req, "-")
  /\ UNCHANGED <<method, route, ev>>

MakeGonze ==
  /\ Step(<<"make", "-">>)
  /\ method = "gonze" /\ route # "phonopy" /\ params # "none"
  /\ dataset' = params
  /\ hist' = Append(hist, <<"make", "-">>) /\ req' = Append(req, "-")
  /\ UNCHANGED <<method, route, params, ev>>

Run(qc) ==
  /\ Step(<<"run", qc>>)
  /\ params # "none"
  /\ method = "gonze" => dataset \in {"none", params}              \* hypothesis, see above
  /\ dataset' = IF method = "gonze" THEN params ELSE dataset       \* made on demand
  /\ hist' = Append(hist, <<"run", qc>>) /\ req' = Append(req, params)
  /\ UNCHANGED <<method, route, params, ev>>

Next == (\E t \in Tokens : SetNAC(t)) \/ MakeGonze \/ (\E qc \in QClasses : Run(qc))
Spec == Init /\ [][Next]_vars

-----------------------------------------------------------------------------
(* by definition: the parameters in force at step k are those of the latest assignment before k *)
RECURSIVE LastSet(_, _)
LastSet(h, k) == IF k = 0 THEN "none" ELSE IF h[k][1] = "set" THEN h[k][2] ELSE LastSet(h, k - 1)

IsRun(k) == hist[k][1] = "run"

(* the machine's bookkeeping is the definition *)
ReqCurrent == \A k \in 1..Len(hist) : IsRun(k) => req[k] = LastSet(hist, k)
ReqNeverUnset == \A k \in 1..Len(hist) : IsRun(k) => req[k] \in Tokens

(* what a query must show, given the token in force:                          *)
(*   gamma:   the correction is (4 pi f/V) K(n)/sqrt(mm') of THAT token (none for "Z") -> the token itself *)
(*   comm:    the matrix is unchanged                                         -> "noop"        *)
(*   generic: the correction of THAT token (none for "Z")                     -> the token itself *)
Expected(k) == IF hist[k][2] = "comm" THEN "noop" ELSE req[k]

(* the implementation's recorded answers *)
ImplAnswersFromCurrent ==
  (~Model) => \A k \in 1..Len(hist) : IsRun(k) => ev.answers[k] = Expected(k)
(* in particular: zero Born charges are a no-op whatever was set before *)
ImplZeroBornNoOp ==
  (~Model) => \A k \in 1..Len(hist) : (IsRun(k) /\ req[k] = "Z" /\ hist[k][2] # "comm") => ev.answers[k] = "Z"
(* every recorded event is a behaviour of the machine: consumed completely *)
Consumed == Len(hist) = Len(ev.steps)
=============================================================================
