---------------------------- MODULE CellEstimate ----------------------------
(* X06: step machine of estimate_supercell_matrix /                           *)
(* estimate_supercell_matrix_from_pointgroup (_get_multiplicity_abc/_ac/_a):  *)
(* one action per loop iteration.  The comparison of edge lengths is exact    *)
(* here; the code compares doubles, so a tie may be broken either way - the   *)
(* machine is non-deterministic exactly at ties.  InvRequirement: every       *)
(* outcome of the machine meets EstimateReq (CellUtils, stated without the    *)
(* loop).  Emit prints the outcomes for the replay on the real functions.     *)
EXTENDS CellUtils

CONSTANTS Cases      \* set of [n, l2, sys, maxn, maxit]
VARIABLES cs, multi, iter, stuck
evars == <<cs, multi, iter, stuck>>

KnobsOf(c) == KnobsOfSystem(c.sys)

EInit == cs \in Cases /\ multi = <<1,1,1>> /\ iter = 0 /\ stuck = FALSE

(* one iteration: extend a shortest edge; take it back if that exceeds maxn *)
Iterate ==
  /\ iter < cs.maxit /\ ~ stuck
  /\ \E K \in Shortest(multi, cs.l2, KnobsOf(cs)) :
        IF Count(cs.n, Inc(multi, K)) > cs.maxn
          THEN multi' = multi /\ stuck' = TRUE
          ELSE multi' = Inc(multi, K) /\ stuck' = FALSE
  /\ iter' = iter + 1
  /\ cs' = cs
(* the same doubles give the same argmin: the remaining iterations repeat the failed extension *)
Idle == stuck /\ iter < cs.maxit /\ iter' = cs.maxit /\ UNCHANGED <<cs, multi, stuck>>
ENext == Iterate \/ Idle

EDone == iter = cs.maxit
InvRequirement == EDone => EstimateReq(cs.n, cs.l2, KnobsOf(cs), cs.maxn, cs.maxit, multi)
(* along the way: never above maxn, always balanced *)
InvAlways == (Count(cs.n, multi) <= cs.maxn \/ multi = <<1,1,1>>) /\ Balanced(multi, cs.l2, KnobsOf(cs)) /\ SymOK(multi, KnobsOf(cs))
Emit == EDone => PrintT(ToString(<<"EST", cs, multi>>))
=============================================================================
