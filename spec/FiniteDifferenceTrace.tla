----------------------- MODULE FiniteDifferenceTrace -----------------------
(* Conformance of real phonopy sessions with FiniteDifference.tla.          *)
(*                                                                          *)
(* A session (element of Sessions) carries, besides the input (catalogue    *)
(* entry, harmonic model, supercell matrix S, primitive translations),      *)
(* what the harness RECORDED from real Phonopy objects built on that input  *)
(* (harness/props/c01.py), every atom index translated to the               *)
(* specification's numbering by position:                                   *)
(*   runs[x] = [sym, diag, pm, layout,          options of the run          *)
(*              nops,        number of operations Symmetry found            *)
(*              reps,        displaced atoms (Symmetry.get_independent_atoms) *)
(*              mapa,        Symmetry.get_map_atoms                          *)
(*              site, dirs,  per displaced atom: get_site_symmetry and the   *)
(*                           directions of get_least_displacements           *)
(*              p2s,         Primitive.p2s_map                               *)
(*              fc, exact,   index into `arrays` of the force constants      *)
(*                           produce_force_constants returned for forces     *)
(*                           F = -Phi u of the harmonic model, projected to  *)
(*                           the integers D^2 L Phi L^T; exact = the         *)
(*                           projection residual is below tolerance          *)
(*              conv, convexact,  the same for the array converted to the   *)
(*                           other layout by the real code                   *)
(*              err]         exception raised by the real code, "" if none   *)
(*   arrays  = the distinct projected arrays                                 *)
(*   ref     = index of the reference array the harness used for the forces  *)
(*             (computed by an earlier TLC run of this module)               *)
(* Impl*  : the requirement of C01 evaluated on the recorded values.        *)
(* Conforms* : recorded intermediate values equal the step machine's.       *)
EXTENDS FiniteDifference

Runs == {x \in 1..Len(ses.runs) : ses.runs[x].sym = sym}
Rn(x) == ses.runs[x]
Rng(s) == {s[q] : q \in 1..Len(s)}
Known == pc = "mapped"

(* orbit representative (smallest index) under all operations / under primitive translations *)
Orb(i) == orb[i]
TCls(i) == tcls[i]
TrueSite(b) == {Conj(SM, ops[g].W) : g \in {g \in 1..Len(ops) : ops[g].perm[b] = b}}

(* the reference the forces were computed from is this specification's reference *)
HypRefAgree == pc = "cells" => ses.arrays[ses.ref] = fc
HypNonSymmetricExpected == (pc = "cells" /\ ses.nonsym) => \E i, j \in 1..N : fc[i][j] # Transpose(fc[i][j])

ImplNoError == Known => \A x \in Runs : Rn(x).err = ""
(* every atom is symmetry-equivalent to a displaced atom *)
ImplCoverAll == Known => \A x \in Runs : Rn(x).err = "" => {Orb(b) : b \in Rng(Rn(x).reps)} = reps
ImplMapAtoms == Known => \A x \in Runs : Rn(x).err = "" =>
                  \A i \in 1..N : Rn(x).mapa[i] \in Rng(Rn(x).reps) /\ Orb(Rn(x).mapa[i]) = Orb(i)
(* every operation the solver uses as site symmetry is a symmetry of the crystal fixing that atom *)
ImplSiteSound == Known => \A x \in Runs : Rn(x).err = "" =>
                  \A q \in 1..Len(Rn(x).reps) : Rng(Rn(x).site[q]) \subseteq TrueSite(Rn(x).reps[q])
(* sufficiency on the recorded directions and site symmetry; plus/minus rule *)
ImplSpan == Known => \A x \in Runs : Rn(x).err = "" =>
                  \A q \in 1..Len(Rn(x).reps) : ReqSpan(Rn(x).site[q], Rn(x).dirs[q])
ImplPlusMinus == Known => \A x \in Runs : Rn(x).err = "" =>
                  \A q \in 1..Len(Rn(x).reps) : ReqPlusMinus(Rn(x).site[q], Rn(x).pm, Rn(x).dirs[q])
(* p2s has one atom of every class of primitive translations, and contains the displaced atoms *)
ImplP2S == Known => \A x \in Runs : Rn(x).err = "" =>
                  /\ {TCls(b) : b \in Rng(Rn(x).p2s)} = Rng(p2s) /\ Len(Rn(x).p2s) = Len(p2s)
                  /\ Rng(Rn(x).reps) \subseteq Rng(Rn(x).p2s)
(* THE property: the force constants produced equal the harmonic crystal's, in the layout asked for *)
ImplFCExact == Known => \A x \in Runs : Rn(x).err = "" =>
                  /\ Rn(x).exact
                  /\ ses.arrays[Rn(x).fc] = IF Rn(x).layout = "full" THEN fc
                                           ELSE [q \in 1..Len(Rn(x).p2s) |-> fc[Rn(x).p2s[q]]]

(* converting the produced array to the other layout (full_fc_to_compact_fc / compact_fc_to_full_fc, the *)
(* latter through distribute_force_constants_by_translations) gives the harmonic crystal's array too    *)
ImplConvertExact == Known => \A x \in Runs : Rn(x).err = "" =>
                  /\ Rn(x).convexact
                  /\ ses.arrays[Rn(x).conv] = IF Rn(x).layout = "compact" THEN fc
                                             ELSE [q \in 1..Len(Rn(x).p2s) |-> fc[Rn(x).p2s[q]]]

ConformsReps == Known => \A x \in Runs : Rn(x).err = "" =>
                  Len(Rn(x).reps) = Cardinality(reps) /\ Cardinality(Rng(Rn(x).reps)) = Len(Rn(x).reps)
ConformsNumOps == Known => \A x \in Runs : Rn(x).err = "" => Rn(x).nops = Len(ops)
ConformsSite == Known => \A x \in Runs : Rn(x).err = "" =>
                  \A q \in 1..Len(Rn(x).reps) : /\ Rng(Rn(x).site[q]) = TrueSite(Rn(x).reps[q])
                                               /\ Len(Rn(x).site[q]) = Cardinality(TrueSite(Rn(x).reps[q]))
=============================================================================
