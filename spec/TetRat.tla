------------------------------ MODULE TetRat ------------------------------
(* Exact rational arithmetic for the tetrahedron-method modules (C11).      *)
(* A rational is <<n, d>> with d > 0 and gcd(n, d) = 1; zero is <<0, 1>>.   *)
(* TLC integers are 32 bit and TLC raises an error on overflow (never a     *)
(* silent wrap), so every operator cancels common factors BEFORE it         *)
(* multiplies.  All users keep reduced denominators below ~2*10^6.          *)
EXTENDS Integers, Sequences, FiniteSets, TLC

RAbs(x) == IF x < 0 THEN -x ELSE x

RECURSIVE RGcdRec(_, _)
RGcdRec(a, b) == IF b = 0 THEN a ELSE RGcdRec(b, a % b)
RGcd(a, b) == RGcdRec(RAbs(a), RAbs(b))

RZero == <<0, 1>>
ROne == <<1, 1>>
RInt(n) == <<n, 1>>

(* n/d for integers n, d with d # 0 *)
RMake(n, d) ==
  IF n = 0 THEN RZero
  ELSE LET g == RGcd(n, d)
           s == IF d < 0 THEN -1 ELSE 1
       IN <<s * (n \div g), s * (d \div g)>>

RNeg(a) == <<-a[1], a[2]>>
RAdd(a, b) ==
  LET g == RGcd(a[2], b[2])
      ka == b[2] \div g
      kb == a[2] \div g
  IN RMake(a[1] * ka + b[1] * kb, a[2] * ka)
RSub(a, b) == RAdd(a, RNeg(b))
RMul(a, b) ==
  IF a[1] = 0 \/ b[1] = 0 THEN RZero
  ELSE LET g1 == RGcd(a[1], b[2])
           g2 == RGcd(b[1], a[2])
       IN <<(a[1] \div g1) * (b[1] \div g2), (a[2] \div g2) * (b[2] \div g1)>>
(* a # 0 *)
RInv(a) == IF a[1] > 0 THEN <<a[2], a[1]>> ELSE <<-a[2], -a[1]>>
RDiv(a, b) == RMul(a, RInv(b))
RScale(k, a) == RMul(RInt(k), a)
RDivInt(a, k) == RMul(a, RMake(1, k))

RSign(a) == IF a[1] > 0 THEN 1 ELSE IF a[1] = 0 THEN 0 ELSE -1
RLe(a, b) == RSub(b, a)[1] >= 0
RLt(a, b) == RSub(b, a)[1] > 0
(* x lies in the closed interval spanned by p and q (in either order) *)
RBetween(p, x, q) == (RLe(p, x) /\ RLe(x, q)) \/ (RLe(q, x) /\ RLe(x, p))

IsRat(a) == /\ a \in Seq(Int) /\ Len(a) = 2 /\ a[2] > 0 /\ RGcd(a[1], a[2]) = 1

RECURSIVE RSumSeq(_)
RSumSeq(s) == IF s = <<>> THEN RZero ELSE RAdd(s[1], RSumSeq(Tail(s)))
=============================================================================
