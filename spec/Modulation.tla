------------------------------ MODULE Modulation ------------------------------
(* Atomic modulations of phonopy (phonon/modulation.py: Modulation) as a step    *)
(* machine over exact phase classes, and the requirement X02(b):                 *)
(*   u(j, l) = A / sqrt(N_a m_j) * e_j * exp(2 pi i q.r_jl) * exp(i phi) / f0 ,  *)
(* N_a = atoms in the modulation supercell (as documented and coded), f0 = the   *)
(* phase of the largest component, so that this component gets the phase phi.    *)
(*                                                                               *)
(* Abstract state.  M: modulation supercell matrix parsed from the `dimension`   *)
(* argument; a site is [a, l]; the wave vector is q = qn / qd; the chosen        *)
(* eigenvector has, per atom, modulus r_a (integer) and phase class k_a (twelfths *)
(* of a turn, the phase exp(2 pi i q.tau_a) of the basis position included);     *)
(* amplitude A (integer) and argument phi (units of 30 degrees).  A displacement *)
(* is kept as [mod2 |-> <<num, den>> (squared modulus, rational), k |-> class].  *)
(* Steps: ParseDimension (_get_dimension_3x3), BuildSupercell (get_supercell),   *)
(* Displace (_get_displacements before the phase factor), Normalise              *)
(* (_get_phase_factor and amplitude).                                            *)
EXTENDS Phases12

CONSTANTS DimArgs,   \* set of [form |-> "3" | "9" | "3x3" | "bad", val |-> sequence]
          Waves,     \* set of [qn |-> integer vector, qd |-> positive integer]
          Eigs,      \* set of sequences (one entry per primitive atom) of [r, k]
          Masses,    \* sequence of integer masses, one per primitive atom (longest Eigs entry)
          Amps, Phis

VARIABLES pc, arg, M, wave, eig, amp, phi, sites, raw, u
vars == <<pc, arg, M, wave, eig, amp, phi, sites, raw, u>>

SetToSeq(T) == LET RECURSIVE F(_)
                   F(R) == IF R = {} THEN <<>> ELSE LET x == CHOOSE x \in R : TRUE IN <<x>> \o F(R \ {x})
               IN F(T)

ParseDim(x) ==
  CASE x.form = "3" -> Diag(x.val[1], x.val[2], x.val[3])
    [] x.form = "9" -> <<<<x.val[1], x.val[2], x.val[3]>>, <<x.val[4], x.val[5], x.val[6]>>, <<x.val[7], x.val[8], x.val[9]>>>>
    [] x.form = "3x3" -> x.val
    [] OTHER -> Id3

QTwelfthOK(w, l) == (12 * Dot(w.qn, l)) % w.qd = 0
QTwelfth(w, l) == ((12 * Dot(w.qn, l)) \div w.qd) % 12
Commensurate(w, MM) == \A j \in I3 : Dot(w.qn, Col(MM, j)) % w.qd = 0

RatEq(x, y) == x[1] * y[2] = y[1] * x[2]
RatLess(x, y) == x[1] * y[2] < y[1] * x[2]      \* positive denominators

Init == /\ pc = "choose" /\ arg = [form |-> "bad", val |-> <<>>] /\ M = Id3 /\ wave = [qn |-> Zero3, qd |-> 1]
        /\ eig = <<>> /\ amp = 1 /\ phi = 0 /\ sites = <<>> /\ raw = <<>> /\ u = <<>>

ChooseWith(x, w, e, a, f) ==
  /\ pc = "choose"
  /\ arg' = x /\ wave' = w /\ eig' = e /\ amp' = a /\ phi' = f
  /\ pc' = "parse"
  /\ UNCHANGED <<M, sites, raw, u>>
Choose == \E x \in DimArgs, w \in Waves, e \in Eigs, a \in Amps, f \in Phis : ChooseWith(x, w, e, a, f)

ParseDimension ==
  /\ pc = "parse"
  /\ M' = ParseDim(arg)
  /\ pc' = "supercell"
  /\ UNCHANGED <<arg, wave, eig, amp, phi, sites, raw, u>>

SitesContract(MM, k, st) ==
  /\ Len(st) = k * NN(MM)
  /\ \A a \in 1..k : Cardinality({LKey(MM, st[j].l) : j \in {j \in 1..Len(st) : st[j].a = a}}) = NN(MM)
  /\ \A j \in 1..Len(st) : st[j].a \in 1..k

BuildSupercellWith(st) ==
  /\ pc = "supercell" /\ Det(M) # 0
  /\ SitesContract(M, Len(eig), st)
  /\ sites' = st
  /\ pc' = "displace"
  /\ UNCHANGED <<arg, M, wave, eig, amp, phi, raw, u>>
BuildSupercell ==
  LET tr == SetToSeq(LatticeSites(M))
  IN BuildSupercellWith([j \in 1..(Len(eig) * Len(tr)) |->
                           [a |-> ((j - 1) \div Len(tr)) + 1, l |-> tr[((j - 1) % Len(tr)) + 1]]])

(* eigvec * exp(2 pi i q.r) / sqrt(m) / sqrt(N_a) *)
Displace ==
  /\ pc = "displace"
  /\ \A j \in 1..Len(sites) : QTwelfthOK(wave, sites[j].l)
  /\ raw' = [j \in 1..Len(sites) |->
               LET a == sites[j].a
               IN [mod2 |-> <<eig[a].r * eig[a].r, Len(sites) * Masses[a]>>,
                   k |-> (eig[a].k + QTwelfth(wave, sites[j].l)) % 12]]
  /\ pc' = "normalise"
  /\ UNCHANGED <<arg, M, wave, eig, amp, phi, sites, u>>

(* phase_for_zero = phase of the FIRST component of largest modulus; u *= exp(i phi) / phase_for_zero * A *)
Normalise ==
  /\ pc = "normalise"
  /\ LET top == {j \in 1..Len(raw) : \A i \in 1..Len(raw) : ~RatLess(raw[j].mod2, raw[i].mod2)}
         j0 == MinOf(top)
     IN u' = [j \in 1..Len(raw) |->
                [mod2 |-> <<amp * amp * raw[j].mod2[1], raw[j].mod2[2]>>,
                 k |-> (raw[j].k - raw[j0].k + phi + 12) % 12]]
  /\ pc' = "done"
  /\ UNCHANGED <<arg, M, wave, eig, amp, phi, sites, raw>>

Next == Choose \/ ParseDimension \/ BuildSupercell \/ Displace \/ Normalise
Spec == Init /\ [][Next]_vars

-----------------------------------------------------------------------------
(* Requirement on any displacement field uu over sites st *)
ReqDimension(x, MM) ==
  /\ x.form = "3" => MM = Diag(x.val[1], x.val[2], x.val[3])
  /\ x.form = "9" => \A i, j \in I3 : MM[i][j] = x.val[3 * (i - 1) + j]
  /\ x.form = "3x3" => MM = x.val
  /\ x.form = "bad" => MM = Id3

(* Bloch wave: sites of the same atom differ by the phase exp(2 pi i q.(l - l')) *)
ReqBloch(w, st, uu) ==
  \A i, j \in 1..Len(st) :
     (st[i].a = st[j].a /\ uu[i].mod2[1] # 0) =>
         (uu[i].k - uu[j].k + 12) % 12 = QTwelfth(w, VSub(st[i].l, st[j].l))

(* periodic over the modulation supercell iff q is commensurate with it *)
ReqPeriodic(w, MM) ==
  (\A j \in I3 : QTwelfthOK(w, Col(MM, j))) =>
     (Commensurate(w, MM) <=> \A j \in I3 : QTwelfth(w, Col(MM, j)) = 0)

(* |u|^2 = A^2 r_a^2 / (N_a m_a) *)
ReqModulus(st, e, a, uu) ==
  \A j \in 1..Len(st) : RatEq(uu[j].mod2, <<a * a * e[st[j].a].r * e[st[j].a].r, Len(st) * Masses[st[j].a]>>)

(* the argument is honoured: a component of largest modulus has the phase phi *)
ReqArgument(f, uu) ==
  \E j \in 1..Len(uu) : /\ \A i \in 1..Len(uu) : ~RatLess(uu[j].mod2, uu[i].mod2)
                        /\ uu[j].k = f

Done == pc = "done"
TypeOK == pc \in {"choose", "parse", "supercell", "displace", "normalise", "done"}
InvDimension == pc # "choose" /\ pc # "parse" => ReqDimension(arg, M)
InvBloch == Done => ReqBloch(wave, sites, u)
InvPeriodic == Done => ReqPeriodic(wave, M)
InvModulus == Done => ReqModulus(sites, eig, amp, u)
InvArgument == Done => ReqArgument(phi, u)
=============================================================================
