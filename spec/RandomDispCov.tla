---------------------------- MODULE RandomDispCov ----------------------------
(* The linear map of RandomDisplacements.run (_solve_ii, _solve_ij and the    *)
(* final 1/sqrt(m N)) on an EXACT model, and the statement of C19 about it:   *)
(* its covariance is the harmonic canonical covariance of the supercell,      *)
(*      Cov(l a, l' b) = (1/N) sum over ALL commensurate q of                 *)
(*                         Re[ F(q)_ab exp(2 pi i q.(l - l')) ],              *)
(*      F(q) = E(q) diag(sigma^2(q nu)) E(q)^dagger ,   F(-q) = F(q)^* ,      *)
(* i.e. the mode-amplitude function applied to the supercell dynamical matrix *)
(* - whichever member of a conjugate pair the code happens to solve.          *)
(*                                                                            *)
(* Model: one atom per primitive cell with TWO polarisation components (so    *)
(* that eigenvector matrices are non-trivial), unit mass.  Eigenvector        *)
(* matrices are unitary with Gaussian-rational entries k/5 (real orthogonal   *)
(* at self-conjugate q, as the code's D-type real matrix yields); E(-q) =     *)
(* E(q)^*.  sigma^2(q nu) is an uninterpreted positive function, symmetric in *)
(* q -> -q, here a positive integer.  Supercells whose quotient group has     *)
(* exponent dividing 4: all phases are powers of i, so everything is decided  *)
(* in the Gaussian integers.  Square roots never appear: a row of the map is  *)
(* kept as (squared prefactor) x (integer row); sqrt(2) enters as 2, sigma    *)
(* as sigma^2, 1/sqrt(N) as 1/N.                                              *)
(*                                                                            *)
(* Steps added to RandomDisp: SolveII, SolveIJ (rows of the map), Combine     *)
(* (covariance of the image of independent standard normal variates).         *)
EXTENDS RandomDisp

VARIABLES rows, cov
cvars == <<vars, rows, cov>>

Bands == 1..2
Comps == 1..2

(* Gaussian integers *)
GAdd(x, y) == <<x[1] + y[1], x[2] + y[2]>>
GMul(x, y) == <<x[1] * y[1] - x[2] * y[2], x[1] * y[2] + x[2] * y[1]>>
GConj(x) == <<x[1], -x[2]>>
GScale(k, x) == <<k * x[1], k * x[2]>>
IPow(k) == << <<1, 0>>, <<0, 1>>, <<-1, 0>>, <<0, -1>> >>[(k % 4) + 1]

Quarter(p, l, n) == ((4 * Dot(p, l)) \div n) % 4
ExponentDivides4(P, ls, n) == \A k \in 1..Len(P) : \A l \in ls : (4 * Dot(P[k], l)) % n = 0
Chi(p, l, n) == IPow(Quarter(p, l, n))        \* exp(2 pi i q.l)

(* ---- the uninterpreted mode data, fixed by rules that respect time reversal ---- *)
LexLess(a, b) == \/ a[1] < b[1] \/ (a[1] = b[1] /\ a[2] < b[2]) \/ (a[1] = b[1] /\ a[2] = b[2] /\ a[3] < b[3])
H(p) == p[1] + 2 * p[2] + 3 * p[3]
Sigma2(p, nu, n) == nu + 1 + H(p) + H(NegMod(p, n))          \* > 0, equal at p and -p, distinct per band
(* 5 E(q): columns are the eigenvectors *)
EReal1 == << << <<3, 0>>, <<4, 0>> >>, << <<-4, 0>>, <<3, 0>> >> >>
EReal2 == << << <<5, 0>>, <<0, 0>> >>, << <<0, 0>>, <<5, 0>> >> >>
ECplx1 == << << <<3, 0>>, <<0, 4>> >>, << <<0, 4>>, <<3, 0>> >> >>
ECplx2 == << << <<0, 4>>, <<3, 0>> >>, << <<-3, 0>>, <<0, -4>> >> >>
ConjMat(E) == [a \in Comps |-> [b \in Bands |-> GConj(E[a][b])]]
Eig5(p, n) ==
  LET m == NegMod(p, n) IN
  IF m = p THEN (IF H(p) % 2 = 0 THEN EReal1 ELSE EReal2)
  ELSE LET lo == IF LexLess(p, m) THEN p ELSE m
           base == IF H(lo) % 2 = 0 THEN ECplx1 ELSE ECplx2
       IN IF lo = p THEN base ELSE ConjMat(base)
ASSUME \A E \in {EReal1, EReal2, ECplx1, ECplx2} :      \* unitary (times 5)
         \A b1, b2 \in Bands :
            GAdd(GMul(E[1][b1], GConj(E[1][b2])), GMul(E[2][b1], GConj(E[2][b2]))) = IF b1 = b2 THEN <<25, 0>> ELSE <<0, 0>>

(* 25 F(q)_ab *)
F25(p, a, b, n) ==
  LET E == Eig5(p, n)
  IN GAdd(GScale(Sigma2(p, 1, n), GMul(E[a][1], GConj(E[b][1]))),
          GScale(Sigma2(p, 2, n), GMul(E[a][2], GConj(E[b][2]))))

-----------------------------------------------------------------------------
CInit == Init /\ rows = <<>> /\ cov = <<>>

Base == Next /\ UNCHANGED <<rows, cov>>

(* _solve_ii: for q in ii and band nu:  sigma * e(q nu)_a * cos(2 pi q.l)   (e real)           *)
(* _solve_ij: for q in ij, the two variates of band nu:                                          *)
(*        sqrt 2 sigma Re[ e_a exp(2 pi i q.l) ]   and   - sqrt 2 sigma Im[ e_a exp(2 pi i q.l) ] *)
(* a row is [c |-> squared prefactor, r |-> function (site, component) -> integer (x5)]          *)
RowOf(m, nu, n) ==
  LET p == pts[m.pt]
      E == Eig5(p, n)
  IN [c |-> m.w * Sigma2(p, nu, n),
      r |-> [l \in sites |-> [a \in Comps |->
               LET z == GMul(E[a][nu], Chi(p, l, n))
               IN IF m.kind = "im" THEN -z[2] ELSE z[1]]]]

Solve ==
  /\ pc = "done" /\ status = "built"
  /\ ExponentDivides4(pts, sites, Len(pts))
  /\ rows' = [k \in 1..(2 * Len(modes)) |-> RowOf(modes[((k - 1) \div 2) + 1], ((k - 1) % 2) + 1, Len(pts))]
  /\ pc' = "solved"
  /\ UNCHANGED <<S, np, snf, pts, ii, ij, sites, modes, dof, qlist, status, cov>>

RECURSIVE RowSum(_, _, _, _, _, _)
RowSum(rs, k, l1, a, l2, b) ==
  IF k > Len(rs) THEN 0 ELSE rs[k].c * rs[k].r[l1][a] * rs[k].r[l2][b] + RowSum(rs, k + 1, l1, a, l2, b)

(* covariance of  u = xi A / sqrt(N)  for independent standard normal xi:  25 N Cov = sum_rows c r r^T *)
Combine ==
  /\ pc = "solved"
  /\ cov' = [l1 \in sites |-> [a \in Comps |-> [l2 \in sites |-> [b \in Comps |-> RowSum(rows, 1, l1, a, l2, b)]]]]
  /\ pc' = "combined"
  /\ UNCHANGED <<S, np, snf, pts, ii, ij, sites, modes, dof, qlist, status, rows>>

CNext == Base \/ Solve \/ Combine
CSpec == CInit /\ [][CNext]_cvars

-----------------------------------------------------------------------------
(* requirement: 25 N Cov from the definition, summed over the whole dual group *)
FTable(cs, n) == Materialize([p \in cs |-> Materialize([a \in Comps |-> Materialize([b \in Comps |-> F25(p, a, b, n)])])])
ChiTable(cs, ls, n) == Materialize([p \in cs |-> Materialize([l \in ls |-> Chi(p, l, n)])])

(* sum over p of  F(p)_ab chi_p(l1) chi_p(l2)^*  as a Gaussian integer *)
RECURSIVE DefSum(_, _, _, _, _, _, _)
DefSum(ps, ft, ct, l1, a, l2, b) ==
  IF ps = {} THEN <<0, 0>>
  ELSE LET p == CHOOSE p \in ps : TRUE
       IN GAdd(GMul(ft[p][a][b], GMul(ct[p][l1], GConj(ct[p][l2]))), DefSum(ps \ {p}, ft, ct, l1, a, l2, b))

(* the real part is the covariance; F(-q) = F(q)^* makes the imaginary parts cancel *)
InvCanonicalCovariance ==
  pc = "combined" =>
     LET cs == CommSet(S)
         n == NN(S)
         ft == FTable(cs, n)
         ct == ChiTable(cs, sites, n)
     IN \A l1, l2 \in sites : \A a, b \in Comps : DefSum(cs, ft, ct, l1, a, l2, b) = <<cov[l1][a][l2][b], 0>>

-----------------------------------------------------------------------------
(* run_d2f: "rebuilding force constants from the unmodified eigen-solutions returns the original   *)
(* ones" - for ALL force constants, dynamically unstable ones included.  Model: SIGNED eigenvalues   *)
(* w(q nu) (negative = imaginary mode) on some points, equal at q and -q; the original force         *)
(* constants are by definition the Fourier inversion of D(q) = E(q) diag(w) E(q)^dagger over the      *)
(* whole dual group.  The code's route (_collect_eigensolutions -> create_dynamical_matrices ->        *)
(* inverse transformation) works on the collected list `qlist`: solved members and conjugated copies. *)
Lam(p, nu, n) == IF (H(p) + H(NegMod(p, n)) + nu) % 2 = 0 THEN -Sigma2(p, nu, n) ELSE Sigma2(p, nu, n)
(* what create_dynamical_matrices puts on the diagonal for eigenvalue w: w itself, sign included *)
EigWeight(w) == w

D25Of(E, p0, a, b, n) ==       \* 25 (E diag(w) E^dagger)_ab with the eigenvalues of the point p0
  GAdd(GScale(EigWeight(Lam(p0, 1, n)), GMul(E[a][1], GConj(E[b][1]))),
       GScale(EigWeight(Lam(p0, 2, n)), GMul(E[a][2], GConj(E[b][2]))))

(* dynamical matrix rebuilt for entry k of the collected list *)
RebuiltDm(k, a, b, n) ==
  LET q == qlist[k]
      p0 == IF q.conj THEN NegMod(q.p, n) ELSE q.p        \* the member that was solved
      E == IF q.conj THEN ConjMat(Eig5(p0, n)) ELSE Eig5(p0, n)
  IN D25Of(E, p0, a, b, n)

RECURSIVE RebuiltSum(_, _, _, _, _, _)
RebuiltSum(k, l1, a, l2, b, n) ==      \* 25 N Phi(l1 a, l2 b) as rebuilt
  IF k > Len(qlist) THEN <<0, 0>>
  ELSE GAdd(GMul(RebuiltDm(k, a, b, n), GMul(Chi(qlist[k].p, l1, n), GConj(Chi(qlist[k].p, l2, n)))),
            RebuiltSum(k + 1, l1, a, l2, b, n))

(* the original: definition-side sum over the dual group with the true signed eigenvalues *)
OrigTable(cs, n) ==
  Materialize([p \in cs |-> Materialize([a \in Comps |-> Materialize([b \in Comps |->
     LET E == Eig5(p, n)
     IN GAdd(GScale(Lam(p, 1, n), GMul(E[a][1], GConj(E[b][1]))), GScale(Lam(p, 2, n), GMul(E[a][2], GConj(E[b][2]))))])])])

InvD2FIdentity ==
  pc = "combined" =>
     LET cs == CommSet(S)
         n == NN(S)
         ot == OrigTable(cs, n)
         ct == ChiTable(cs, sites, n)
     IN \A l1, l2 \in sites : \A a, b \in Comps :
           RebuiltSum(1, l1, a, l2, b, n) = DefSum(cs, ot, ct, l1, a, l2, b)
(* the model is not vacuous: some solved point has a negative eigenvalue *)
InvSomeImaginary ==
  pc = "combined" => \E k \in 1..Len(qlist) : \E nu \in Bands : Lam(qlist[k].p, nu, NN(S)) < 0

TypeOKC == pc \in {"choose", "snf", "points", "categorize", "prepare", "collect", "reject", "done", "solved", "combined"}
(* number of independent variates = rows of the map = degrees of freedom of the model supercell *)
InvRows == pc \in {"solved", "combined"} => Len(rows) = 2 * NN(S)
(* the map has the translation symmetry of the lattice: Cov depends on l - l' only (checked through the trace) *)
InvTrace == pc = "combined" =>
     \A l1, l2 \in sites : \A a \in Comps : cov[l1][a][l1][a] = cov[l2][a][l2][a]
=============================================================================
