------------------------------ MODULE EosDump ------------------------------
(* Prints the expression trees of the three equations of state so that the  *)
(* harness interprets exactly the formulas TLC has checked (Eos.tla).       *)
EXTENDS Eos
ASSUME PrintT(<<"EOSFORMS", AllForms>>)
=============================================================================
