----------------------------- MODULE KernelsOMP -----------------------------
(* C13 - the OpenMP `parallel for` regions of phonopy's compiled kernels as  *)
(* a thread-interleaving model.                                              *)
(*                                                                           *)
(* The constant Sites is REGENERATED FROM /repo/c ON EVERY RUN by            *)
(* harness/c13_omp.py (clang AST + concrete-index interpreter): one record   *)
(* per `#pragma omp parallel for`, holding for every loop iteration the      *)
(* sequence of memory accesses <<kind, loc>> (kind 0 = read, 1 = write) to   *)
(* locations that exist before the region starts, and for every location its *)
(* data-sharing class as the pragma text gives it: "shared", "private"       *)
(* (fresh, undefined copy per thread), "firstprivate".                       *)
(*                                                                           *)
(* Threads claim iterations (any order for small loops, otherwise in         *)
(* increasing order with arbitrary stalling, which still lets every pair of  *)
(* iterations overlap and every thread run any increasing subsequence) and   *)
(* execute their accesses one visible step at a time.  Accesses to locations *)
(* that no other iteration touches are invisible and are merged with the     *)
(* next visible one (standard reduction).                                    *)
(*                                                                           *)
(* Requirement side (what C13 demands of a parallel region):                 *)
(*   NoDataRace                  no two threads are simultaneously about to  *)
(*                               access the same shared location, one of     *)
(*                               them writing;                               *)
(*   NoConflictingIterations     the same, as a relation between iterations; *)
(*   ReadsFromSequential         every read of a shared location observes    *)
(*                               the write it observes in the sequential     *)
(*                               (serial build) execution;                   *)
(*   NoUndefinedPrivateRead      a private copy is written in the iteration  *)
(*                               before it is read (it is undefined at       *)
(*                               region entry and stale between iterations); *)
(*   ResultIndependentOfSchedule at the end every shared location holds the  *)
(*                               value of the sequential execution;          *)
(*   ImagesVisited               every supercell image of a primitive atom   *)
(*                               is visited by the image-scan loops;         *)
(*   ReductionOnlyAccumulated    a reduction variable is only accumulated    *)
(*                               into inside the region, never read as value;*)
(*   LastprivateIndependentOfSchedule  the value a lastprivate variable has  *)
(*                               after the region is the sequential one;     *)
(*   SiteModelled                every construct of the site was classified; *)
(*   NoOutOfBounds               the interpreter met no access outside the   *)
(*                               arrays of the scenario.                     *)
EXTENDS Integers, Sequences, FiniteSets, TLC, SequencesExt

CONSTANTS Sites,        \* sequence of site records (generated)
          NThreads,     \* 2 or 3
          MaxAnyOrder   \* loops with at most this many iterations: any claim order

VARIABLES site, pre, claimed, cur, pc, smem, pmem, badRF, badUndef, done, taken, lpw, lastthread
vars == <<site, pre, claimed, cur, pc, smem, pmem, badRF, badUndef, done, taken, lpw, lastthread>>

Threads == 1..NThreads
NSites == Len(Sites)
MaxS(S) == CHOOSE x \in S : \A y \in S : y <= x
MinS(S) == CHOOSE x \in S : \A y \in S : x <= y
(* TLC applies [x \in S |-> e] lazily (e is re-evaluated at every use);      *)
(* combining with the empty function forces one evaluation per element.     *)
Mat(f) == f @@ <<>>

-----------------------------------------------------------------------------
(* per-site tables, computed once in Init and carried in the variable `pre` *)
(*                                                                           *)
(* Reduction (done here, by TLC, on the generated access lists): an access   *)
(* can only matter to the requirement below if it is                         *)
(*   - on a shared location that some iteration writes (reads of locations   *)
(*     nobody writes observe the value before the region on every schedule), *)
(*   - or on a private location that this iteration has not written yet (once*)
(*     the iteration has written its private copy, later accesses of it by   *)
(*     the same iteration see a defined, iteration-local value).             *)
(* `ev[i]` is the subsequence of `acc[i]` of the accesses that can matter.   *)
KeepStep(st, e, cls, written) ==
  IF cls[e[2]] = "shared"
  THEN IF e[2] \in written THEN [st EXCEPT !.out = Append(@, e)] ELSE st
  ELSE IF cls[e[2]] = "reduction" THEN [st EXCEPT !.out = Append(@, e)]   \* every access of a reduction variable matters
       ELSE IF e[2] \in st.wp THEN st
       ELSE [out |-> Append(st.out, e), wp |-> IF e[1] = 1 THEN st.wp \cup {e[2]} ELSE st.wp]

(* Index-level requirement of the kernels that scan the supercell for the     *)
(* images of a primitive atom (`if (s2p_map[k] != p2s_map[j]) continue;`):   *)
(* iteration (a, b) must read the force-constant block fc[p2s[a]][k] of      *)
(* EVERY supercell atom k with s2p[k] = p2s[b], wherever those k lie in the  *)
(* supercell order (the scenario's images are deliberately not consecutive); *)
(* transform_dynmat_to_fc must write the whole block fc[fc_index_map[a]][j]. *)
(* The set of required locations is defined here from the scenario's maps;   *)
(* the accesses are what the interpreter logged from the C code.             *)
ScanOK(s) ==
  LET sc == Sites[s].scan
      acc == Sites[s].acc
      want == IF sc.kind = "rowwrite" THEN 1 ELSE 0
      Block(a, k) == {sc.p2s[a + 1] * sc.ns * 9 + k * 9 + c : c \in 0..8}
      Images(b) == {k \in 0..(sc.ns - 1) : sc.s2p[k + 1] = sc.p2s[b + 1]}
      Need(v) ==
        IF sc.kind = "pair" THEN UNION {Block(v \div sc.np, k) : k \in Images(v % sc.np)}
        ELSE IF sc.kind = "allpairs"
             THEN UNION {UNION {Block(a, k) : k \in Images(b)} : <<a, b>> \in (0..(sc.np - 1)) \X (0..(sc.np - 1))}
             ELSE Block(v \div sc.ns, v % sc.ns)
  IN IF sc.kind = "none" THEN TRUE
     ELSE \A it \in 1..Len(acc) :
            LET touched == {acc[it][p][2] : p \in {x \in 1..Len(acc[it]) : acc[it][x][1] = want}}
            IN \A off \in Need(sc.iters[it]) :
                  sc.fcloc[off + 1] # 0 /\ sc.fcloc[off + 1] \in touched

PreOf(s) ==
  LET acc == Sites[s].acc
      cls == Sites[s].cls
      n == Len(acc)
      W == Mat([i \in 1..n |-> {acc[i][p][2] : p \in {x \in 1..Len(acc[i]) :
                    acc[i][x][1] = 1 /\ cls[acc[i][x][2]] = "shared"}}])
      written == UNION {W[i] : i \in 1..n}
      ev == Mat([i \in 1..n |->
                FoldLeft(LAMBDA st, e : KeepStep(st, e, cls, written), [out |-> <<>>, wp |-> {}], acc[i]).out])
      A == Mat([i \in 1..n |-> {ev[i][p][2] : p \in {x \in 1..Len(ev[i]) : cls[ev[i][x][2]] = "shared"}}])
      rel == UNION {W[ij[1]] \cap A[ij[2]] : ij \in {xy \in (1..n) \X (1..n) : xy[1] # xy[2]}}
      (* own[i][p]: position of the latest write of iteration i to the location *)
      (* of access p strictly before p (0: none); last[i]: final own writes     *)
      scan == Mat([i \in 1..n |->
                FoldLeft(LAMBDA st, p :
                           LET l == ev[i][p][2]
                               prev == IF l \in DOMAIN st.m THEN st.m[l] ELSE 0
                           IN [m |-> IF ev[i][p][1] = 1 /\ cls[l] = "shared" THEN (l :> p) @@ st.m ELSE st.m,
                               own |-> Append(st.own, prev)],
                         [m |-> <<>>, own |-> <<>>], [x \in 1..Len(ev[i]) |-> x])])
      lastw == Mat([i \in 1..n |-> scan[i].m])
      own == Mat([i \in 1..n |-> scan[i].own])
      relidx == Mat([i \in 1..n |-> {p \in 1..Len(ev[i]) : ev[i][p][2] \in rel}])
      priv == {l \in 1..Len(cls) : cls[l] # "shared"}
      lp == {l \in 1..Len(cls) : cls[l] \in {"lastprivate", "firstlastprivate"}}
  IN [n |-> n, lp |-> lp, maylp |-> {x \in Sites[s].maywr : x[2] \in lp}, unmodelled |-> Sites[s].unmodelled, acc |-> ev, cls |-> cls, W |-> W, rel |-> rel, written |-> written,
      lastw |-> lastw, own |-> own, relidx |-> relidx, priv |-> priv,
      oob |-> Sites[s].oob, parallel |-> Sites[s].parallel, scanok |-> ScanOK(s)]

P == pre
Acc(i) == pre.acc[i]
Cls(l) == pre.cls[l]
Iters == 1..pre.n

(* the write a read of shared location l at position p of iteration i        *)
(* observes in the sequential execution: <<iteration, position>>, <<0,0>> =  *)
(* the value before the region                                              *)
PrevWriter(i, l) ==
  LET js == {j \in 1..(i - 1) : l \in P.W[j]}
  IN IF js = {} THEN <<0, 0>> ELSE <<MaxS(js), P.lastw[MaxS(js)][l]>>

Expected(i, p, l) ==
  IF P.own[i][p] # 0 THEN <<i, P.own[i][p]>> ELSE PrevWriter(i, l)

-----------------------------------------------------------------------------
Init ==
  /\ site \in 1..NSites
  /\ pre = PreOf(site)
  /\ claimed = {}
  /\ cur = [t \in Threads |-> 0]
  /\ pc = [t \in Threads |-> 0]
  /\ smem = [l \in pre.written |-> <<0, 0>>]
  /\ pmem = [t \in Threads |-> [l \in pre.priv |-> -1]]   \* -1: undefined, 0: stale, 1: written in the current iteration
  /\ badRF = {} /\ badUndef = {}
  /\ done = {}
  (* which of the data-dependent (conditional) writes to lastprivate variables happen: any subset *)
  /\ taken \in SUBSET pre.maylp
  /\ lpw = [t \in Threads |-> [l \in pre.lp |-> 0]]
  /\ lastthread = 0

Claim(t) ==
  /\ cur[t] = 0
  /\ \E i \in Iters \ claimed :
       /\ (P.n <= MaxAnyOrder \/ i = MinS(Iters \ claimed))
       /\ cur' = [cur EXCEPT ![t] = i]
       /\ pc' = [pc EXCEPT ![t] = 1]
       /\ claimed' = claimed \cup {i}
  (* what the thread's private copies hold from earlier iterations is stale *)
  /\ pmem' = [pmem EXCEPT ![t] = [l \in DOMAIN @ |-> IF @[l] = 1 THEN 0 ELSE @[l]]]
  /\ lastthread' = IF cur'[t] = P.n THEN t ELSE lastthread
  /\ UNCHANGED <<site, pre, smem, badRF, badUndef, done, taken, lpw>>

(* one access of iteration i by thread-private memory pm / shared memory sm *)
Apply(st, i, p) ==
  LET e == Acc(i)[p]
      k == e[1]
      l == e[2]
      c == Cls(l)
  IN IF c = "shared"
     THEN IF l \notin P.written THEN st
          ELSE IF k = 1 THEN [st EXCEPT !.sm[l] = <<i, p>>]
          ELSE IF st.sm[l] = Expected(i, p, l) THEN st
          ELSE [st EXCEPT !.rf = @ \cup {[it |-> i, idx |-> p, loc |-> l, saw |-> st.sm[l]]}]
     ELSE IF c = "reduction"
          THEN (* `x op= e` (logged as a write) is what a reduction is for; any other read sees the   *)
               (* thread's partial result, which depends on the schedule                            *)
               IF k = 1 THEN st
               ELSE [st EXCEPT !.ud = @ \cup {[it |-> i, idx |-> p, loc |-> l, holds |-> -2]}]
     ELSE IF k = 1
          THEN IF l \in P.lp /\ (<<i, l>> \notin P.maylp \/ <<i, l>> \in taken)
               THEN [st EXCEPT !.pm[l] = 1, !.lp[l] = i]
               ELSE [st EXCEPT !.pm[l] = 1]
          ELSE IF st.pm[l] = 1 \/ (c \in {"firstprivate", "firstlastprivate"} /\ st.pm[l] = -1) THEN st
          ELSE [st EXCEPT !.ud = @ \cup {[it |-> i, idx |-> p, loc |-> l, holds |-> st.pm[l]]}]

(* next visible position of iteration i at or after p (0: none)             *)
NextVisible(i, p) ==
  LET later == {x \in P.relidx[i] : x >= p}
  IN IF later = {} THEN 0 ELSE MinS(later)

Step(t) ==
  /\ cur[t] # 0
  /\ LET i == cur[t]
         n == Len(Acc(i))
         v == NextVisible(i, pc[t])
         q == IF v = 0 THEN n ELSE v
         idxs == [x \in 1..(q - pc[t] + 1) |-> pc[t] + x - 1]
         st0 == [sm |-> smem, pm |-> pmem[t], rf |-> badRF, ud |-> badUndef, lp |-> lpw[t]]
         st == FoldLeft(LAMBDA a, p : Apply(a, i, p), st0, idxs)
     IN /\ smem' = st.sm
        /\ pmem' = [pmem EXCEPT ![t] = st.pm]
        /\ badRF' = st.rf
        /\ badUndef' = st.ud
        /\ lpw' = [lpw EXCEPT ![t] = st.lp]
        /\ IF q >= n
           THEN /\ cur' = [cur EXCEPT ![t] = 0]
                /\ pc' = [pc EXCEPT ![t] = 0]
                /\ done' = done \cup {i}
           ELSE /\ pc' = [pc EXCEPT ![t] = q + 1]
                /\ UNCHANGED <<cur, done>>
  /\ UNCHANGED <<site, pre, claimed, taken, lastthread>>

Next == \E t \in Threads : Claim(t) \/ Step(t)
Spec == Init /\ [][Next]_vars

-----------------------------------------------------------------------------
(* requirement                                                              *)
Pending(t) ==   \* the visible access thread t performs next, <<>> if none
  IF cur[t] = 0 THEN <<>>
  ELSE LET v == NextVisible(cur[t], pc[t]) IN IF v = 0 THEN <<>> ELSE Acc(cur[t])[v]

NoDataRace ==
  \A t1, t2 \in Threads :
     (t1 < t2 /\ Pending(t1) # <<>> /\ Pending(t2) # <<>>) =>
        ~(Pending(t1)[2] = Pending(t2)[2] /\ (Pending(t1)[1] = 1 \/ Pending(t2)[1] = 1))

NoConflictingIterations == P.rel = {}
ReadsFromSequential == badRF = {}
NoUndefinedPrivateRead == \A b \in badUndef : b.holds = -2
ReductionOnlyAccumulated == \A b \in badUndef : b.holds # -2
ResultIndependentOfSchedule ==
  (done = Iters) => \A l \in P.written : smem[l] = PrevWriter(P.n + 1, l)
NoOutOfBounds == pre.oob = 0
ImagesVisited == pre.scanok
(* lastprivate: after the region the variable holds the private copy of the  *)
(* thread that executed the sequentially LAST iteration.  What the code      *)
(* after the loop reads must not depend on which thread ran which iteration: *)
(* it has to be the value of the sequential execution, i.e. of the last      *)
(* iteration (in sequential order) whose write actually happens, for every   *)
(* choice `taken` of the data-dependent writes.                              *)
Happens(i, l) == (\E p \in 1..Len(Acc(i)) : Acc(i)[p] = <<1, l>>) /\ (<<i, l>> \notin P.maylp \/ <<i, l>> \in taken)
SeqFinalLP(l) == LET ws == {i \in Iters : Happens(i, l)} IN IF ws = {} THEN 0 ELSE MaxS(ws)
LastprivateIndependentOfSchedule ==
  (done = Iters /\ lastthread # 0) => \A l \in P.lp : lpw[lastthread][l] = SeqFinalLP(l)
(* the extractor classified every construct of the site (otherwise the site  *)
(* is conservatively reported: it may hide a schedule dependence)            *)
SiteModelled == pre.unmodelled = 0
RegionModelled == pre.parallel /\ P.n >= 2

TypeOK ==
  /\ claimed \subseteq Iters /\ done \subseteq claimed
  /\ \A t \in Threads : cur[t] \in {0} \cup claimed
=============================================================================
