--------------------------- MODULE SymmetryExpect ---------------------------
(* Spec -> code for X05, second source: for decorated crystals handed over by *)
(* the harness (catalogue entries, integer supercells) TLC computes from the  *)
(* definition the operations, the permutation of the atoms by each, and the   *)
(* orbit representatives (Expected, SymmetryClass.tla); the harness replays   *)
(* them on the real code.                                                     *)
EXTENDS SymmetryClass

CONSTANT Given

VARIABLES gv, expect

Init == gv \in Given /\ expect = <<>>
Next == /\ expect = <<>>
        /\ expect' = Expected([gram |-> gv.gram, den |-> gv.den, atm |-> gv.atm, mmode |-> gv.mmode])
        /\ UNCHANGED gv
=============================================================================
