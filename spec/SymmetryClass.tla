--------------------------- MODULE SymmetryClass ---------------------------
(* X05 (specification growth): the Symmetry class of phonopy                *)
(* (phonopy/structure/symmetry.py) and the atomic permutations              *)
(* (compute_all_sg_permutations / compute_permutation_for_rotation).        *)
(*                                                                          *)
(* Pure part: decorated integer crystals and, BY DEFINITION, their          *)
(* (magnetic) space group and everything the class reports about it.        *)
(*                                                                          *)
(* A decorated crystal c is a record                                        *)
(*   gram  : integer positive-definite Gram matrix of the cell's lattice    *)
(*   den   : common denominator of the positions                            *)
(*   atm   : sequence of [sp |-> species, num |-> <<n1,n2,n3>>, mg |-> m]   *)
(*   mmode : "none" (no moments, mg = <<0,0,0>>), "col" (collinear, mg =    *)
(*           <<m,0,0>> with the integer moment m), "ncl" (non-collinear,    *)
(*           mg = <<m1,m2,m3>> the components of the moment along the       *)
(*           cell's basis vectors, m = m1 a + m2 b + m3 c)                  *)
(* Positions are num/den in cell coordinates.  An operation is <<W, w, th>>: *)
(* x -> W x + w/den (W an integer matrix acting on column coordinate        *)
(* vectors), th = 1 or -1 the time-reversal part.                           *)
(*                                                                          *)
(* Documented semantics (spglib's magnetic symmetry, which phonopy calls    *)
(* with the defaults): collinear moments are not axial, m -> th m;          *)
(* non-collinear moments are axial vectors, m -> th det(R) R m.  Phonopy    *)
(* keeps rotations and translations of ALL magnetic operations and drops    *)
(* the time-reversal flag.                                                  *)
EXTENDS IntLinAlg

T3(v) == <<v[1], v[2], v[3]>>
M3(A) == <<T3(A[1]), T3(A[2]), T3(A[3])>>
CBox(b) == {<<x, y, z>> : x \in -b..b, y \in -b..b, z \in -b..b}
ColOf(W, j) == <<W[1][j], W[2][j], W[3][j]>>
FromCols(c1, c2, c3) == <<<<c1[1], c2[1], c3[1]>>, <<c1[2], c2[2], c3[2]>>, <<c1[3], c2[3], c3[3]>>>>
Unit(j) == <<IF j = 1 THEN 1 ELSE 0, IF j = 2 THEN 1 ELSE 0, IF j = 3 THEN 1 ELSE 0>>
NegV(v) == <<-v[1], -v[2], -v[3]>>

MulM(A, B) == M3(MatMul(A, B))
TrM(A) == M3(Transpose(A))
NegM(A) == M3(MNeg(A))
(* inverse of a unimodular matrix, and the inverse transpose (how a real-space rotation acts on *)
(* reciprocal vectors: q.x is invariant)                                                           *)
InvM(A) == M3(UniInv(A))
InvTr(A) == TrM(InvM(A))

-----------------------------------------------------------------------------
(* isometries of the lattice: integer W with W^T G W = G.  Column j of W is an integer vector of  *)
(* squared length G[j][j]; pairs of columns have the scalar products of G.  A vector v with        *)
(* v^T G v = L has v_i^2 <= L (G^-1)_ii (Cauchy-Schwarz), so CBox(b) holds every candidate column   *)
(* when BoxSound(G, b).                                                                            *)
BoxSound(G, b) ==
  /\ Det(G) > 0
  /\ \A i, j \in I3 : (b + 1) * (b + 1) * Det(G) > G[j][j] * Adj(G)[i][i]

Isometries(G, b) ==
  LET C(j) == {v \in CBox(b) : QForm(G, v) = G[j][j]}
  IN UNION {UNION {{FromCols(c1, c2, c3) :
                      c3 \in {c \in C(3) : BForm(G, c1, c) = G[1][3] /\ BForm(G, c2, c) = G[2][3]}} :
                   c2 \in {c \in C(2) : BForm(G, c1, c) = G[1][2]}} :
            c1 \in C(1)}

IsIsometry(G, W) == MulM(TrM(W), MulM(G, W)) = M3(G) /\ Abs(Det(W)) = 1

-----------------------------------------------------------------------------
(* action on positions and moments *)
NAt(c) == Len(c.atm)
ModV(D, u) == <<u[1] % D, u[2] % D, u[3] % D>>
PosEq(D, u, v) == (u[1] - v[1]) % D = 0 /\ (u[2] - v[2]) % D = 0 /\ (u[3] - v[3]) % D = 0
ActOn(W, w, u) ==
  <<W[1][1] * u[1] + W[1][2] * u[2] + W[1][3] * u[3] + w[1],
    W[2][1] * u[1] + W[2][2] * u[2] + W[2][3] * u[3] + w[2],
    W[3][1] * u[1] + W[3][2] * u[2] + W[3][3] * u[3] + w[3]>>

MagImage(mode, W, th, m) ==
  CASE mode = "none" -> m
    [] mode = "col" -> <<th * m[1], 0, 0>>
    [] mode = "ncl" -> LET s == th * Det(W)
                           v == ActOn(W, <<0, 0, 0>>, m)
                       IN <<s * v[1], s * v[2], s * v[3]>>

Thetas(mode) == IF mode = "none" THEN {1} ELSE {1, -1}

(* the atom whose position is the image of atom a *)
HasImage(c, W, w, a) ==
  \E x \in {ActOn(W, w, c.atm[a].num)} :
    \E b \in 1..NAt(c) : c.atm[b].sp = c.atm[a].sp /\ PosEq(c.den, x, c.atm[b].num)
ImgIdx(c, W, w, a) ==
  LET x == ActOn(W, w, c.atm[a].num) IN CHOOSE b \in 1..NAt(c) : PosEq(c.den, x, c.atm[b].num)

(* (W, w) maps every atom onto an atom of the same species *)
SpatialOp(c, W, w) == \A a \in 1..NAt(c) : HasImage(c, W, w, a)
(* ... and the moment found there is the transformed moment *)
MagOK(c, W, w, th) ==
  \A a \in 1..NAt(c) : c.atm[ImgIdx(c, W, w, a)].mg = MagImage(c.mmode, W, th, c.atm[a].mg)

(* every operation sends the pivot atom onto a like atom: that fixes w modulo the lattice *)
SpCount(c, s) == Cardinality({a \in 1..NAt(c) : c.atm[a].sp = s})
Pivot(c) == CHOOSE a \in 1..NAt(c) : \A a2 \in 1..NAt(c) : SpCount(c, c.atm[a].sp) <= SpCount(c, c.atm[a2].sp)
CandTrans(c, W) ==
  LET p == Pivot(c)
      x == ActOn(W, <<0, 0, 0>>, c.atm[p].num)
  IN {ModV(c.den, <<c.atm[b].num[1] - x[1], c.atm[b].num[2] - x[2], c.atm[b].num[3] - x[3]>>) :
        b \in {b \in 1..NAt(c) : c.atm[b].sp = c.atm[p].sp}}

(* THE (MAGNETIC) SPACE GROUP, by definition: every (W, w, th), W an isometry of the lattice, w modulo *)
(* the lattice, that maps the decorated crystal onto itself                                          *)
MSG(c, b) ==
  UNION {UNION {{<<W, w, th>> : th \in {th \in Thetas(c.mmode) : MagOK(c, W, w, th)}} :
                w \in {w \in CandTrans(c, W) : SpatialOp(c, W, w)}} :
         W \in Isometries(c.gram, b)}

(* composition, inverse, identity of operations (translations modulo the lattice) *)
OpMul(D, g, h) == <<MulM(g[1], h[1]), ModV(D, ActOn(g[1], g[2], h[2])), g[3] * h[3]>>
OpInv(D, g) == LET Wi == InvM(g[1]) IN <<Wi, ModV(D, NegV(ActOn(Wi, <<0, 0, 0>>, g[2]))), g[3]>>
OpId == <<Id3, <<0, 0, 0>>, 1>>
IsGroupOps(D, H) ==
  /\ \E g \in H : g[1] = Id3 /\ g[2] = <<0, 0, 0>> /\ g[3] \in {0, 1}   \* (0: time-reversal part not reported)
  /\ \A g \in H : OpInv(D, g) \in H
  /\ \A g, h \in H : OpMul(D, g, h) \in H

(* orbits and stabilisers *)
OrbitOf(c, H, a) == {ImgIdx(c, g[1], g[2], a) : g \in H}
StabOf(c, H, a) == {g \in H : PosEq(c.den, ActOn(g[1], g[2], c.atm[a].num), c.atm[a].num)}

(* what the definition says about a cell: the operations (in some order), the permutation of the atoms by   *)
(* each (0-based image indices, as phonopy counts), the smallest index of every atom's orbit                *)
SeqOfSet(T) == LET RECURSIVE F(_)
                   F(R) == IF R = {} THEN <<>> ELSE LET x == CHOOSE x \in R : TRUE IN <<x>> \o F(R \ {x})
               IN F(T)
SoundBoxOf(G) == CHOOSE b \in 1..6 : BoxSound(G, b) /\ \A b2 \in 1..(b - 1) : ~BoxSound(G, b2)
Expected(c) ==
  LET H == MSG(c, SoundBoxOf(c.gram))
      q == SeqOfSet(H)
  IN [ops |-> q,
      perms |-> [k \in 1..Len(q) |-> [a \in 1..NAt(c) |-> ImgIdx(c, q[k][1], q[k][2], a) - 1]],
      reps |-> [a \in 1..NAt(c) |-> MinOf(OrbitOf(c, H, a)) - 1]]

(* pure translations of the cell that keep the labels of a supercell-to-primitive map (is_symmetry=False *)
(* with s2p_map: "pure translations inside cell")                                                        *)
LabelTranslations(c, lab) ==
  LET cand == {ModV(c.den, <<c.atm[b].num[1] - c.atm[1].num[1], c.atm[b].num[2] - c.atm[1].num[2],
                             c.atm[b].num[3] - c.atm[1].num[3]>>) : b \in {b \in 1..NAt(c) : lab[b] = lab[1]}}
  IN {w \in cand : /\ SpatialOp(c, Id3, w)
                   /\ \A a \in 1..NAt(c) : LET b == ImgIdx(c, Id3, w, a)
                                           IN lab[b] = lab[a] /\ c.atm[b].mg = c.atm[a].mg}

(* get_lattice_vector_equivalence: basis vectors a_i and a_j are equivalent when a point-group operation *)
(* carries one onto plus or minus the other ((a',b',c') = (a,b,c) R: column i of R is the image of a_i)    *)
VecEquiv(PG, i, j) ==
  \E W \in PG : \/ ColOf(W, i) = Unit(j) \/ ColOf(W, i) = NegV(Unit(j))
                \/ ColOf(W, j) = Unit(i) \/ ColOf(W, j) = NegV(Unit(i))
LatVecEquivDef(PG) == <<VecEquiv(PG, 2, 3), VecEquiv(PG, 3, 1), VecEquiv(PG, 1, 2)>>

(* ---- the crystallographic point-group type from the census of rotation types ---------------------- *)
(* type of a rotation: (trace, det) -> one of -6 -4 -3 -2(=m) -1 1 2 3 4 6 *)
RotType(W) ==
  LET t == W[1][1] + W[2][2] + W[3][3]
      d == Det(W)
  IN IF d = 1 THEN (CASE t = 3 -> 1 [] t = -1 -> 2 [] t = 0 -> 3 [] t = 1 -> 4 [] t = 2 -> 6 [] OTHER -> 0)
     ELSE (CASE t = -3 -> -1 [] t = 1 -> -2 [] t = 0 -> -3 [] t = -1 -> -4 [] t = -2 -> -6 [] OTHER -> 0)
Census(PG) == [k \in {-6, -4, -3, -2, -1, 1, 2, 3, 4, 6} |-> Cardinality({W \in PG : RotType(W) = k})]
(* International Tables: the 32 crystal classes by their census <<n(-6),n(-4),n(-3),n(m),n(-1),n(1),n(2),n(3),n(4),n(6)>> *)
Cs(a, b, c, d, e, f, g, h, i, j) ==
  (-6 :> a) @@ (-4 :> b) @@ (-3 :> c) @@ (-2 :> d) @@ (-1 :> e) @@ (1 :> f) @@ (2 :> g) @@ (3 :> h) @@ (4 :> i) @@ (6 :> j)
ClassTable ==
  [s \in {"1", "-1", "2", "m", "2/m", "222", "mm2", "mmm", "4", "-4", "4/m", "422", "4mm", "-42m", "4/mmm",
          "3", "-3", "32", "3m", "-3m", "6", "-6", "6/m", "622", "6mm", "-6m2", "6/mmm", "23", "m-3", "432",
          "-43m", "m-3m"} |->
    CASE s = "1" -> Cs(0,0,0,0,0,1,0,0,0,0) [] s = "-1" -> Cs(0,0,0,0,1,1,0,0,0,0)
      [] s = "2" -> Cs(0,0,0,0,0,1,1,0,0,0) [] s = "m" -> Cs(0,0,0,1,0,1,0,0,0,0)
      [] s = "2/m" -> Cs(0,0,0,1,1,1,1,0,0,0) [] s = "222" -> Cs(0,0,0,0,0,1,3,0,0,0)
      [] s = "mm2" -> Cs(0,0,0,2,0,1,1,0,0,0) [] s = "mmm" -> Cs(0,0,0,3,1,1,3,0,0,0)
      [] s = "4" -> Cs(0,0,0,0,0,1,1,0,2,0) [] s = "-4" -> Cs(0,2,0,0,0,1,1,0,0,0)
      [] s = "4/m" -> Cs(0,2,0,1,1,1,1,0,2,0) [] s = "422" -> Cs(0,0,0,0,0,1,5,0,2,0)
      [] s = "4mm" -> Cs(0,0,0,4,0,1,1,0,2,0) [] s = "-42m" -> Cs(0,2,0,2,0,1,3,0,0,0)
      [] s = "4/mmm" -> Cs(0,2,0,5,1,1,5,0,2,0) [] s = "3" -> Cs(0,0,0,0,0,1,0,2,0,0)
      [] s = "-3" -> Cs(0,0,2,0,1,1,0,2,0,0) [] s = "32" -> Cs(0,0,0,0,0,1,3,2,0,0)
      [] s = "3m" -> Cs(0,0,0,3,0,1,0,2,0,0) [] s = "-3m" -> Cs(0,0,2,3,1,1,3,2,0,0)
      [] s = "6" -> Cs(0,0,0,0,0,1,1,2,0,2) [] s = "-6" -> Cs(2,0,0,1,0,1,0,2,0,0)
      [] s = "6/m" -> Cs(2,0,2,1,1,1,1,2,0,2) [] s = "622" -> Cs(0,0,0,0,0,1,7,2,0,2)
      [] s = "6mm" -> Cs(0,0,0,6,0,1,1,2,0,2) [] s = "-6m2" -> Cs(2,0,0,4,0,1,3,2,0,0)
      [] s = "6/mmm" -> Cs(2,0,2,7,1,1,7,2,0,2) [] s = "23" -> Cs(0,0,0,0,0,1,3,8,0,0)
      [] s = "m-3" -> Cs(0,0,8,3,1,1,3,8,0,0) [] s = "432" -> Cs(0,0,0,0,0,1,9,8,6,0)
      [] s = "-43m" -> Cs(0,6,0,6,0,1,3,8,0,0) [] s = "m-3m" -> Cs(0,6,8,9,1,1,9,8,6,0)]
ClassOf(PG) == {s \in DOMAIN ClassTable : ClassTable[s] = Census(PG)}
=============================================================================
