--------------------------- MODULE DatasetConvTrace ---------------------------
(* Events from the real code (harness/c16_codecs.py):                        *)
(*  conv : a real type-1 dataset x (projected to tokens), the result of      *)
(*         get_displacements_and_forces / parse_FORCE_SETS(to_type2=True) /  *)
(*         write_FORCE_SETS + parse as type 2, projected to tokens (token 99 *)
(*         = an array that is none of the inputs), and the list returned by  *)
(*         Phonopy.displacements                                            *)
(*  hdf5 : write_force_constants_to_hdf5 / read_force_constants_hdf5 with    *)
(*         layout, compression and physical unit; obs = which parts came    *)
(*         back bit-identical                                               *)
EXTENDS DatasetConv

CONSTANT Events
VARIABLE ev
tvars == <<vars, ev>>
E == ev

TInit == Init /\ ev \in Events
TChoose == pc = "choose" /\ t1' = (IF E.ek = "conv" THEN E.x ELSE t1) /\ pc' = "convert" /\ UNCHANGED t2
TNext == (TChoose \/ Convert) /\ UNCHANGED ev
AtEnd == pc = "done"
IsConv == E.ek = "conv"

(* requirement on the logged result *)
ImplLossless == AtEnd /\ IsConv /\ Complete(E.x) => Lossless(E.x, E.y)
ImplView == AtEnd /\ IsConv /\ E.view # <<>> => E.view = DisplacementsView(E.x)
(* the logged result is the specification's *)
ConformsConversion == AtEnd /\ IsConv => E.y = t2
(* hdf5 is an exact container: array, p2s_map and unit come back identical, whatever the *)
(* layout, the lossless compression filter and the unit string                          *)
ImplHdf5 == AtEnd /\ E.ek = "hdf5" => E.obs.fc /\ E.obs.p2s /\ E.obs.unit
=============================================================================
