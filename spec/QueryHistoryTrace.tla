------------------------- MODULE QueryHistoryTrace -------------------------
(* C14, query histories: conformance of one real Phonopy object with         *)
(* QueryHistory.tla.  An event is one history replayed on ONE freshly        *)
(* constructed Phonopy object (harness/c14_history.py):                      *)
(*   [id, nac, hist, obs |-> <<[gvp, fdir, fresh]>>, reread |-> [qp,mesh,band]] *)
(* gvp / fdir are the lists of direction indices the reported arrays are     *)
(* numerically equal to, fresh says that every array of the query equals the *)
(* same query on a fresh object.  Impl*: the requirement on the logged       *)
(* observation.  Report: under which code variant the machine reproduces it. *)
EXTENDS QueryHistory, Json

CONSTANT EventFile
VARIABLE ev
tvars == <<vars, ev>>

SetOf(s) == {s[j] : j \in DOMAIN s}
ObsOf(o) == [gvp |-> SetOf(o.gvp), fdir |-> SetOf(o.fdir), fresh |-> o.fresh]
Events == LET raw == ndJsonDeserialize(EventFile) IN {raw[j] : j \in DOMAIN raw}

TInit ==
  /\ ev \in Events
  /\ pc = "query" /\ hist = ev.hist /\ nac = ev.nac /\ fac = ev.fac /\ code \in {[gvReset |-> TRUE], [gvReset |-> FALSE]}
  /\ k = 1 /\ gvObj = FALSE /\ gvPert = 0 /\ dmDir = 0
  /\ hQp = 0 /\ hMesh = 0 /\ hBand = 0 /\ res = <<>> /\ reread = [qp |-> 0, mesh |-> 0, band |-> 0]
TNext == Next /\ UNCHANGED ev

First == pc = "query" /\ k = 1 /\ code.gvReset
ImplIndependent(j) == ReqObs(ev.nac, j, ev.hist[j], ObsOf(ev.obs[j]))
ImplHistoryIndependent == First => \A j \in 1..Len(ev.hist) : ImplIndependent(j)
ImplHoldersIntact == First => ReqReread(ev.hist, ev.reread)
ReportReq == First => PrintT(ToString(<<"Q", ev.id,
                  {j \in 1..Len(ev.hist) : ~ImplIndependent(j)}, ReqReread(ev.hist, ev.reread)>>))

Conf == /\ Len(res) = Len(ev.obs)
        /\ \A j \in 1..Len(res) : res[j].gvp \in SetOf(ev.obs[j].gvp) /\ res[j].fdir \in SetOf(ev.obs[j].fdir)
        /\ reread = ev.reread
Report == pc = "done" => PrintT(ToString(<<"R", ev.id, code.gvReset, Conf>>))
=============================================================================
