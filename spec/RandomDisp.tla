----------------------------- MODULE RandomDisp -----------------------------
(* Sampling structure of phonopy's finite-temperature random displacements   *)
(* (phonon/random_displacements.py: RandomDisplacements._setup_sampling_     *)
(* qpoints, _prepare, run/_solve_ii/_solve_ij, _collect_eigensolutions;      *)
(* harmonic/dynmat_to_fc.py: get_commensurate_points_in_integers,            *)
(* categorize_commensurate_points) as a step machine, and what C19 requires  *)
(* of it.                                                                    *)
(*                                                                           *)
(* Abstract state.  S is the supercell matrix with respect to the PRIMITIVE  *)
(* cell (the code's `smat`): its COLUMNS are the supercell lattice vectors   *)
(* in primitive coordinates, N = |det S| primitive cells per supercell.      *)
(* A commensurate wave vector q (reduced primitive reciprocal coordinates)   *)
(* is kept as the integer vector p = N q  modulo N.                          *)
(*                                                                           *)
(* One action per step of the code:                                          *)
(*   Choose         - input (S, atoms per primitive cell)                    *)
(*   SNF            - SNF3x3(S^T).run(): contract D = P S^T Q                *)
(*   CommPointsInt  - get_commensurate_points_in_integers                    *)
(*   Categorize     - categorize_commensurate_points (ii: q = -q + G, ij:    *)
(*                    one member of every conjugate pair)                    *)
(*   Prepare        - the real normal-mode family of _prepare/_solve_*: one  *)
(*                    cosine mode per q in ii, a sqrt(2) Re and a sqrt(2) Im *)
(*                    mode per q in ij; dof = standard normal variates       *)
(*                    consumed per snapshot                                  *)
(*   Collect        - _collect_eigensolutions (input of run_d2f and          *)
(*                    run_correlation_matrix): ii, ij, then ij again negated *)
(*                    with conjugated eigenvectors                           *)
(*                                                                           *)
(* Real-valued primitives.  cos/sin of 2 pi k/12 are elements of Z[sqrt 3]   *)
(* (pairs <<a,b>> = a + b sqrt 3, table below validated by ASSUME), so the   *)
(* orthonormality of the real mode family is decided EXACTLY whenever the    *)
(* quotient group Z^3/SZ^3 has exponent dividing 12.  Mode amplitudes        *)
(* sigma(q nu), eigenvectors and the resulting covariance are outside TLA+   *)
(* (DESIGN 2.3): the harness evaluates them (harness/c19_num.py) on the      *)
(* specification's exact force constants and reports the deviation as an     *)
(* integer multiple of 1e-12, judged in RandomDispTrace.                     *)
EXTENDS IntLinAlg

CONSTANTS
  SSpace,     \* set of supercell matrices (w.r.t. the primitive cell) explored
  NPrims,     \* set of numbers of atoms per primitive cell explored
  SNFTable    \* function S -> [P, Q, D] used by the SNF action in model runs

VARIABLES pc, S, np, snf, pts, ii, ij, sites, modes, dof, qlist, status

vars == <<pc, S, np, snf, pts, ii, ij, sites, modes, dof, qlist, status>>

-----------------------------------------------------------------------------
(* helpers *)
NN(M) == Abs(Det(M))
Col(M, j) == <<M[1][j], M[2][j], M[3][j]>>
ModV(v, n) == <<v[1] % n, v[2] % n, v[3] % n>>
NegMod(p, n) == ModV(VNeg(p), n)
Cube(n) == {<<x, y, z>> : x \in 0..(n - 1), y \in 0..(n - 1), z \in 0..(n - 1)}
Range(s) == {s[k] : k \in 1..Len(s)}
Injective(s) == \A a, b \in 1..Len(s) : a # b => s[a] # s[b]

(* ---- definitions the requirement is stated with ------------------------- *)
(* the dual group: p = N q with q . (every supercell lattice vector) integral *)
CommSet(M) == LET n == NN(M) IN {p \in Cube(n) : \A j \in I3 : Dot(p, Col(M, j)) % n = 0}
SelfConj(p, n) == NegMod(p, n) = p

(* one representative lattice vector per class of Z^3 modulo the column lattice of M; *)
(* every class meets the cube because N Z^3 is a sublattice of M Z^3.                  *)
LatticeSites(M) ==
  LET n == NN(M)
      adj == Adj(M)
      keyOf == Materialize([t \in Cube(n) |-> ModV(MatVec(adj, t), n)])     \* = ClassKey(M, 1, t)
      keys == {keyOf[t] : t \in Cube(n)}
  IN  {CHOOSE t \in Cube(n) : keyOf[t] = k : k \in keys}

(* ---- Z[sqrt 3] and the twelfth roots of unity --------------------------------- *)
ZAdd(x, y) == <<x[1] + y[1], x[2] + y[2]>>
ZMul(x, y) == <<x[1] * y[1] + 3 * x[2] * y[2], x[1] * y[2] + x[2] * y[1]>>
ZScale(k, x) == <<k * x[1], k * x[2]>>
ZZero == <<0, 0>>
(* TwoCos[k+1] = 2 cos(2 pi k / 12) *)
TwoCos == << <<2,0>>, <<0,1>>, <<1,0>>, <<0,0>>, <<-1,0>>, <<0,-1>>,
             <<-2,0>>, <<0,-1>>, <<-1,0>>, <<0,0>>, <<1,0>>, <<0,1>> >>
C12(k) == TwoCos[(k % 12) + 1]
S12(k) == TwoCos[((k + 9) % 12) + 1]        \* sin x = cos(x - pi/2)
(* the table is the cosine: value 2 at 0, addition theorem, Pythagoras *)
ASSUME /\ C12(0) = <<2, 0>>
       /\ \A a, b \in 0..11 : ZAdd(C12(a + b), C12(a + 12 - b)) = ZMul(C12(a), C12(b))
       /\ \A a \in 0..11 : ZAdd(ZMul(C12(a), C12(a)), ZMul(S12(a), S12(a))) = <<4, 0>>
       /\ \A a, b \in 0..11 : ZScale(2, S12(a + b)) = ZAdd(ZMul(S12(a), C12(b)), ZMul(C12(a), S12(b)))

(* angle index of exp(2 pi i p.l / n) in twelfths of a turn; defined when 12 p.l = 0 mod n *)
Twelfth(p, l, n) == ((12 * Dot(p, l)) \div n) % 12
ExponentDivides12(P, ls, n) ==
  \A k \in 1..Len(P) : \A l \in ls : (12 * Dot(P[k], l)) % n = 0

(* ---- the real mode family ------------------------------------------------------ *)
(* kind "cos": phi(l) = cos(2 pi q.l)/sqrt N;  "re","im": sqrt 2 cos / sin (2 pi q.l)/sqrt N. *)
(* w is the squared prefactor (1 or 2).                                                    *)
ModesOf(a, b) ==
  [k \in 1..(Len(a) + 2 * Len(b)) |->
     IF k <= Len(a) THEN [pt |-> a[k], kind |-> "cos", w |-> 1]
     ELSE LET z == k - Len(a) - 1
          IN [pt |-> b[(z \div 2) + 1], kind |-> IF z % 2 = 0 THEN "re" ELSE "im", w |-> 2]]

(* 4 N phi_m(l) phi_m(l') summed over the modes, in Z[sqrt 3] *)
ModeProduct(m, P, l1, l2, n) ==
  LET p == P[m.pt]
      a == Twelfth(p, l1, n)
      b == Twelfth(p, l2, n)
  IN IF m.kind = "im" THEN ZScale(m.w, ZMul(S12(a), S12(b))) ELSE ZScale(m.w, ZMul(C12(a), C12(b)))

RECURSIVE GramSum(_, _, _, _, _, _)
GramSum(ms, k, P, l1, l2, n) ==
  IF k > Len(ms) THEN ZZero ELSE ZAdd(ModeProduct(ms[k], P, l1, l2, n), GramSum(ms, k + 1, P, l1, l2, n))

-----------------------------------------------------------------------------
(* Smith-normal-form contract of SNF3x3 applied to S^T *)
SNFContract(M, r) ==
  /\ MatMul(r.P, MatMul(Transpose(M), r.Q)) = r.D
  /\ IsDiagonal(r.D)
  /\ \A i \in I3 : r.D[i][i] > 0
  /\ Abs(Det(r.P)) = 1
  /\ Abs(Det(r.Q)) = 1

NoSNF == [P |-> Id3, Q |-> Id3, D |-> Id3]

(* lattice point number t (1-based) of get_commensurate_points_in_integers: a runs fastest *)
PointAt(t, d, Q, n) ==
  LET z == t - 1
      a == z % d[1]
      b == (z \div d[1]) % d[2]
      c == z \div (d[1] * d[2])
  IN ModV(MatVec(Q, <<a * d[2] * d[3], b * d[1] * d[3], c * d[1] * d[2]>>), n)

(* categorize_commensurate_points: first j with p_i + p_j = 0 mod N (0 if none) *)
FirstPartner(P, i, n) ==
  LET js == {j \in 1..Len(P) : ModV(VAdd(P[i], P[j]), n) = Zero3}
  IN IF js = {} THEN 0 ELSE MinOf(js)

RECURSIVE Pick(_, _, _)
Pick(f, k, want) ==      \* ascending sequence of the k.. with f[k] of the wanted kind
  IF k > Len(f) THEN <<>>
  ELSE IF (want = "ii" /\ f[k] = k) \/ (want = "ij" /\ f[k] > k)
       THEN <<k>> \o Pick(f, k + 1, want) ELSE Pick(f, k + 1, want)

-----------------------------------------------------------------------------
Init ==
  /\ pc = "choose" /\ S = Id3 /\ np = 1 /\ snf = NoSNF /\ pts = <<>> /\ ii = <<>> /\ ij = <<>>
  /\ sites = {} /\ modes = <<>> /\ dof = 0 /\ qlist = <<>> /\ status = "none"

ChooseWith(M, k) ==
  /\ pc = "choose"
  /\ S' = M /\ np' = k
  /\ pc' = IF Det(M) = 0 THEN "reject" ELSE "snf"
  /\ UNCHANGED <<snf, pts, ii, ij, sites, modes, dof, qlist, status>>

Choose == \E M \in SSpace, k \in NPrims : ChooseWith(M, k)

SNFWith(r) ==
  /\ pc = "snf"
  /\ SNFContract(S, r)
  /\ snf' = r
  /\ pc' = "points"
  /\ UNCHANGED <<S, np, pts, ii, ij, sites, modes, dof, qlist, status>>

SNF == SNFWith(SNFTable[S])

CommPointsInt ==
  /\ pc = "points"
  /\ LET d == <<snf.D[1][1], snf.D[2][2], snf.D[3][3]>>
         n == d[1] * d[2] * d[3]
     IN pts' = [t \in 1..n |-> PointAt(t, d, snf.Q, n)]
  /\ pc' = "categorize"
  /\ UNCHANGED <<S, np, snf, ii, ij, sites, modes, dof, qlist, status>>

Categorize ==
  /\ pc = "categorize"
  /\ LET n == Len(pts)
         f == Materialize([k \in 1..n |-> FirstPartner(pts, k, n)])
         a == Pick(f, 1, "ii")
         b == Pick(f, 1, "ij")
     IN /\ ii' = a /\ ij' = b
        /\ IF Len(a) + 2 * Len(b) = n          \* the code's assert
             THEN pc' = "prepare" /\ status' = status
             ELSE pc' = "done" /\ status' = "failed"
  /\ UNCHANGED <<S, np, snf, pts, sites, modes, dof, qlist>>

Prepare ==
  /\ pc = "prepare"
  /\ sites' = LatticeSites(S)            \* the lattice points l of the supercell atoms (_lpos)
  /\ modes' = ModesOf(ii, ij)
  /\ dof' = (Len(ii) + 2 * Len(ij)) * 3 * np
  /\ pc' = "collect"
  /\ UNCHANGED <<S, np, snf, pts, ii, ij, qlist, status>>

Collect ==
  /\ pc = "collect"
  /\ LET n == Len(pts)
         a == Len(ii)
         b == Len(ij)
     IN qlist' = [k \in 1..(a + 2 * b) |->
                    IF k <= a THEN [p |-> pts[ii[k]], conj |-> FALSE]
                    ELSE IF k <= a + b THEN [p |-> pts[ij[k - a]], conj |-> FALSE]
                    ELSE [p |-> NegMod(pts[ij[k - a - b]], n), conj |-> TRUE]]
  /\ status' = "built"
  /\ pc' = "done"
  /\ UNCHANGED <<S, np, snf, pts, ii, ij, sites, modes, dof>>

Reject ==
  /\ pc = "reject"
  /\ status' = "failed"
  /\ pc' = "done"
  /\ UNCHANGED <<S, np, snf, pts, ii, ij, sites, modes, dof, qlist>>

Next == Choose \/ SNF \/ CommPointsInt \/ Categorize \/ Prepare \/ Collect \/ Reject

Spec == Init /\ [][Next]_vars

-----------------------------------------------------------------------------
(* The requirement (C19, sampling structure), stated on any (M, P, a, b, ...):   *)
(* used on the machine's state and, in RandomDispTrace, on values recorded from  *)
(* the implementation.  P: sequence of points, a/b: 1-based index sequences.     *)

(* the points are the dual group of Z^3 / M Z^3, each element once *)
ReqDualGroup(M, P) ==
  /\ Len(P) = NN(M)
  /\ Injective(P)
  /\ Range(P) = CommSet(M)

(* a = the self-conjugate points; b = exactly one member of every conjugate pair *)
ReqPartition(P, a, b) ==
  LET n == Len(P) IN
  /\ Injective(a) /\ Injective(b)
  /\ Range(a) \subseteq 1..n /\ Range(b) \subseteq 1..n
  /\ Range(a) = {k \in 1..n : SelfConj(P[k], n)}
  /\ Range(a) \cap Range(b) = {}
  /\ \A k \in 1..n : ~SelfConj(P[k], n) =>
        Cardinality({j \in Range(b) : P[j] = P[k] \/ P[j] = NegMod(P[k], n)}) = 1
  /\ Len(a) + 2 * Len(b) = n

ReqDof(M, k, d) == d = 3 * k * NN(M)

(* the eigen-solutions handed to the inverse transformation cover every commensurate *)
(* point exactly once, and the conjugated copies sit at the negated points            *)
ReqCollect(M, P, a, b, ql) ==
  LET n == Len(P) IN
  /\ Len(ql) = NN(M)
  /\ \A x, y \in 1..Len(ql) : x # y => ql[x].p # ql[y].p
  /\ {ql[k].p : k \in 1..Len(ql)} = CommSet(M)
  /\ \A k \in 1..Len(ql) :
        ql[k].conj => /\ ~SelfConj(ql[k].p, n)
                      /\ \E j \in 1..Len(ql) : ~ql[j].conj /\ ql[j].p = NegMod(ql[k].p, n)
  (* of a conjugate pair exactly one entry is solved, the other is its complex conjugate *)
  /\ \A k \in 1..Len(ql) :
        ~SelfConj(ql[k].p, n) =>
           \E j \in 1..Len(ql) : ql[j].p = NegMod(ql[k].p, n) /\ ql[j].conj # ql[k].conj

(* the real mode family is orthonormal on the N lattice sites: *)
(*   sum_m phi_m(l) phi_m(l') = delta(l, l')   <=>   4N-scaled sum in Z[sqrt 3] *)
ReqOrthonormal(M, ls, P, a, b) ==
  LET n == NN(M)
      ms == ModesOf(a, b)
  IN ExponentDivides12(P, ls, n) =>
       \A l1, l2 \in ls :
          GramSum(ms, 1, P, l1, l2, n) = IF l1 = l2 THEN <<4 * n, 0>> ELSE ZZero

(* ... and complete the other way round: distinct modes are orthogonal over the sites *)
RECURSIVE SiteSum(_, _, _, _, _)
SiteSum(ls, m1, m2, P, n) ==
  IF ls = {} THEN ZZero
  ELSE LET l == CHOOSE l \in ls : TRUE
           f(m) == IF m.kind = "im" THEN S12(Twelfth(P[m.pt], l, n)) ELSE C12(Twelfth(P[m.pt], l, n))
       IN ZAdd(ZMul(f(m1), f(m2)), SiteSum(ls \ {l}, m1, m2, P, n))

ReqModesIndependent(M, ls, P, a, b) ==
  LET n == NN(M)
      ms == ModesOf(a, b)
  IN ExponentDivides12(P, ls, n) =>
       \A x, y \in 1..Len(ms) : x < y => SiteSum(ls, ms[x], ms[y], P, n) = ZZero

-----------------------------------------------------------------------------
(* Invariants of the step machine *)
TypeOK == pc \in {"choose", "snf", "points", "categorize", "prepare", "collect", "reject", "done"}

Built == pc = "done" /\ status = "built"

InvAccepts == (pc = "done" /\ Det(S) # 0) => status = "built"
InvSites == Built => /\ Cardinality(sites) = NN(S)
                     /\ \A l1, l2 \in sites : l1 # l2 => ~SameClass(S, 1, l1, l2)
InvDualGroup == Built => ReqDualGroup(S, pts)
InvPartition == Built => ReqPartition(pts, ii, ij)
InvDof == Built => ReqDof(S, np, dof)
InvCollect == Built => ReqCollect(S, pts, ii, ij, qlist)
InvOrthonormal == Built => ReqOrthonormal(S, sites, pts, ii, ij)
InvModesIndependent == Built => ReqModesIndependent(S, sites, pts, ii, ij)
(* the variates: one per mode and band *)
InvModeCount == Built => Len(modes) * 3 * np = dof /\ Len(modes) = NN(S)
=============================================================================
