-------------------------- MODULE ApiHistoryTrace --------------------------
(* Conformance of the real Phonopy object with ApiHistory.tla (C15).         *)
(*                                                                          *)
(* A history is a sequence of events recorded by harness/c15_driver.py: one *)
(* public call (or one action of the caller) on the real object, with the   *)
(* projected real state after the call (e.obs).  The machine of ApiHistory  *)
(* is stepped along the events (the logged operation and its arguments bind *)
(* the action); after every event                                           *)
(*   - the REQUIREMENT is evaluated on the LOGGED state and facts (Impl..:   *)
(*     a failure is a property violation).  Where the machine - which has   *)
(*     the implementation's documented aliasing classes switched on -       *)
(*     predicts a failure as a consequence of such a class, the failure is  *)
(*     collected in the set `known` (printed by TDone at the end of the     *)
(*     history) together with the aliasing facts themselves, and            *)
(*   - the logged state is compared with the machine's state (Conforms..).  *)
(* Histories come from harness/c15_driver.py (random and TLC-generated      *)
(* behaviours) and from harness/c15_pytest_trace.py (the repository's own   *)
(* tests); they are supplied as module C15Data.                             *)
EXTENDS ApiHistory, C15Data

VARIABLES hid, i, obs, ev, stuck, known, done, pure, enabled
tvars == <<vars, hid, i, obs, ev, stuck, known, done, pure, enabled>>

NoEv == [op |-> "Init", lay |-> "none", m |-> "none", keep |-> FALSE, f |-> FALSE, typ |-> "none",
         cls |-> "none", k |-> "none", i |-> 0, chg |-> TRUE, own |-> TRUE, via |-> "copy", snapok |-> TRUE,
         refused |-> FALSE, err |-> FALSE, stored |-> TRUE,
         qok |-> TRUE, frame |-> TRUE]

StateRec == [layout |-> layout, nacm |-> nacm, massS |-> massS, massU |-> massU, dsT |-> dsT, dsF |-> dsF,
             dm |-> dm, gv |-> gv, scd |-> scd, cp |-> cp, held |-> held, rs |-> rs]

TInit == Init /\ hid \in 1..Len(Histories) /\ i = 1 /\ ev = NoEv /\ stuck = FALSE
         /\ known = {} /\ done = FALSE /\ pure = TRUE /\ enabled = TRUE
         /\ obs = [layout |-> "none", nacm |-> "none", massS |-> "cur", massU |-> "cur", dsT |-> "none",
                   dsF |-> FALSE, dm |-> NoDM, gv |-> "none", scd |-> "none", cp |-> NoCP, held |-> <<>>,
                   rs |-> NoRS]

Do(e) ==
  \/ e.op = "SetFC" /\ SetFC(e.lay, e.keep, e.own)
  \/ e.op = "SetNAC" /\ SetNAC(e.m, e.keep)
  \/ e.op = "ClearNAC" /\ ClearNAC
  \/ e.op = "SetMasses" /\ SetMasses(e.keep)
  \/ e.op = "Symmetrize" /\ Symmetrize(e.chg)
  \/ e.op = "SymmetrizeSG" /\ SymmetrizeSG(e.chg)
  \/ e.op = "Cutoff" /\ Cutoff(e.chg)
  \/ e.op = "SetDataset" /\ SetDataset(e.f, e.typ, e.keep)
  \/ e.op = "SetDisplacements" /\ SetDisplacements
  \/ e.op = "ClearDataset" /\ ClearDataset
  \/ e.op = "InitRD" /\ InitRD
  \/ e.op = "SetGV" /\ SetGV
  \/ e.op = "SetForces" /\ SetForces(e.keep)
  \/ e.op = "ProduceFC" /\ ProduceFC(e.lay, e.chg)
  \/ e.op = "GetSCD" /\ GetSCD
  \/ e.op = "Copy" /\ Copy(e.via)
  \/ e.op = "Get" /\ Get(e.cls)
  \/ e.op = "Query" /\ Query(e.k)
  \/ e.op = "MutateHandle" /\ MutateHandle(e.i)
  \/ e.op = "Drop" /\ Drop(e.i)
  \/ e.op = "MutateCopy" /\ MutateCopy

(* the guard of the action the event names, written out (TLC evaluates it    *)
(* in the current state)                                                     *)
Guard(e) ==
  CASE e.op = "ClearNAC" -> nacm # "none"
    [] e.op \in {"Symmetrize", "Cutoff"} -> HasFC
    [] e.op = "SymmetrizeSG" -> layout = "full"
    [] e.op = "SetDisplacements" -> dsT # "t1"
    [] e.op = "ClearDataset" -> dsT # "none"
    [] e.op = "InitRD" -> HasFC
    [] e.op = "SetGV" -> dm.on
    [] e.op = "Copy" -> (e.via = "ph2ph" => HasFC)
    [] e.op \in {"SetForces", "GetSCD"} -> dsT # "none"
    [] e.op = "ProduceFC" -> dsT = "t1" /\ dsF
    [] e.op = "Get" -> /\ Len(held) < MaxHeld /\ SlotSet(SlotOf(e.cls))
                       /\ (e.cls \in {"displacements_getter", "forces_getter"} => dsT = "t2")
    [] e.op = "Query" -> e.k \in QueryKinds /\ QueryEnabled(e.k)
    [] e.op = "MutateHandle" -> e.i \in 1..Len(held) /\ (held[e.i].alias => EnvAliased)
    [] e.op = "Drop" -> e.i \in 1..Len(held)
    [] e.op = "MutateCopy" -> cp.on /\ (cp.shared => EnvAliased)
    [] OTHER -> TRUE

(* requirement predicates on a logged state record o                         *)
RDmExists(o) == o.layout # "none" => o.dm.on
RCoherent(o) == o.dm.on => /\ o.dm.fc = "cur" /\ o.dm.nac = "cur" /\ o.dm.cls = ClassOf(o.nacm)
                           /\ o.dm.sr # "old" /\ o.gv # "stale"
RMasses(o) == o.massS = "cur" /\ o.massU = "cur"
RScd(o) == o.scd # "old"
RCopy(o) == o.cp.on => (~o.cp.shared /\ o.cp.ok)
RNotRetained(o, C) == \A j \in 1..Len(o.held) : o.held[j].cls \in C => ~o.held[j].alias
RNotModified(o, C) == \A j \in 1..Len(o.held) : o.held[j].cls \in C => o.held[j].ok

(* KNOWN FINDINGS (aliasing by documented design), decided here on the       *)
(* logged facts: which API points retain / hand out internal objects, which  *)
(* operations modify an array the caller handed in, and which requirement    *)
(* predicates fail AFTER the caller changed internal state through an alias  *)
(* (tnt = the machine's taint set).  Entries are tagged with the event index.*)
KnownOf(e, o, prev, tnt, idx) ==
  LET n == Len(o.held)
      same == e.op \notin {"Drop", "Get"} /\ Len(prev.held) <= n
      failing == (IF RCoherent(o) THEN {} ELSE {"Coherent"})
                 \cup (IF e.op = "Query" /\ ~e.refused /\ ~e.qok THEN {"FreshEquivalent"} ELSE {})
                 \cup (IF e.op \in EnvLabels /\ ~e.frame THEN {"EnvFrame"} ELSE {})
                 \cup (IF RMasses(o) THEN {} ELSE {"MassesConsistent"})
                 \cup (IF RScd(o) THEN {} ELSE {"ScdCoherent"})
                 \cup (IF RCopy(o) THEN {} ELSE {"CopyIndependent"})
  IN {<<"alias", o.held[j].cls, idx>> : j \in {j \in 1..n : o.held[j].alias}}
     \cup (IF o.cp.on /\ o.cp.shared THEN {<<"alias", "copy_shares", idx>>} ELSE {})
     \cup {<<"mutates_caller", e.op, idx>> :
             j \in {j \in 1..n : /\ same /\ j <= Len(prev.held) /\ o.held[j].cls \in Setters
                                  /\ ~o.held[j].ok /\ prev.held[j].ok /\ e.op \notin EnvLabels}}
     \cup {<<"consequence", p, c, idx>> : p \in failing, c \in tnt}
(* keep the first occurrence of every finding (without its index) only       *)
Merge(old, new) ==
  LET strip(x) == SubSeq(x, 1, Len(x) - 1)
  IN old \cup {x \in new : \A y \in old : strip(y) # strip(x)}

TStep ==
  /\ i <= Len(Histories[hid]) /\ ~stuck
  /\ LET e == Histories[hid][i] IN
       /\ ev' = [x \in DOMAIN NoEv |-> e[x]]
       /\ obs' = e.obs
       /\ i' = i + 1 /\ hid' = hid /\ done' = FALSE
       /\ enabled' = Guard(e)
       /\ IF e.refused \/ (~Guard(e) /\ e.err)
            THEN (* called outside the guard and the code refused (or, if the harness *)
                 (* announced a refusal, has to): nothing changes                     *)
                 /\ UNCHANGED vars /\ stuck' = (e.refused /\ Guard(e))
            ELSE IF Guard(e) THEN Do(e) /\ stuck' = FALSE
                             ELSE (* the code answered a call the machine refuses *)
                                  UNCHANGED vars /\ stuck' = TRUE
       /\ known' = Merge(known, KnownOf(e, e.obs, obs, taint', i))
       (* the caller's action does not go through an alias (decided in the pre-state) *)
       /\ pure' = IF ~Guard(e) THEN TRUE
                  ELSE CASE e.op = "MutateHandle" -> ~held[e.i].alias
                         [] e.op = "MutateCopy" -> ~cp.shared
                         [] OTHER -> TRUE

(* end of a history: TLC reports the findings it decided                     *)
TDone ==
  /\ (i > Len(Histories[hid]) \/ stuck) /\ ~done
  /\ PrintT(<<"C15KNOWN", hid, known>>)
  /\ done' = TRUE
  /\ UNCHANGED <<vars, hid, i, obs, ev, stuck, known, pure, enabled>>

TNext == TStep \/ TDone
TSpec == TInit /\ [][TNext]_tvars

-----------------------------------------------------------------------------
(* Impl..: the implementation violates the requirement where the machine      *)
(* (with the implementation's aliasing) satisfies it: a VIOLATION.           *)
(* (Failures the machine predicts as consequences of an aliasing class are   *)
(* collected in `known`.)                                                    *)
ImplNoError == (enabled /\ ~ev.refused) => ~ev.err
ImplRefuses == ev.refused => ev.err
ImplRefuseFrame == ev.refused => ev.frame
(* a query the machine cannot answer from the current contents (no current   *)
(* mesh / generator: it was set up before a state change) must be refused by *)
(* the implementation, not answered from the stale holder                    *)
ImplRefusesStale == (stuck /\ ev.op = "Query" /\ ~ev.refused) => ev.err
(* results obtained before a state change are still what they were           *)
ImplSnapshotFrozen == ev.snapok
(* a setter stores the content handed in, a getter returns the current       *)
(* content (the displaced supercells: unless the machine says the cache is   *)
(* stale, which only happens after the caller changed the dataset through an *)
(* alias - collected in `known`)                                             *)
ImplStored == ev.stored \/ (ev.op = "GetSCD" /\ ~stuck /\ scd = "old")
ImplFreshEquivalent == (ev.op = "Query" /\ ~ev.refused /\ ~stuck /\ FreshEquivalent /\ Coherent) => ev.qok
ImplEnvFrame == (ev.op \in EnvLabels /\ ~stuck /\ pure) => ev.frame
ImplDmExists == DmExists => RDmExists(obs)
ImplCoherent == Coherent => RCoherent(obs)
ImplMassesConsistent == MassesConsistent => RMasses(obs)
ImplScdCoherent == ScdCoherent => RScd(obs)
ImplCopyIndependent == CopyIndependent => RCopy(obs)
(* the implementation retains / hands out internal objects only at the API  *)
(* points of the (documented) aliasing classes                              *)
ImplAliasOnlyDocumented ==
  /\ \A j \in 1..Len(obs.held) : obs.held[j].alias => obs.held[j].cls \in Alias
  /\ obs.cp.on /\ obs.cp.shared => "copy_shares" \in Alias
(* an object the caller holds is modified only where the machine says so    *)
(* (i.e. through one of those aliasing classes)                              *)
ImplNoForeignMutation ==
  ~stuck => \A j \in 1..Len(obs.held) : (j <= Len(held) /\ ~obs.held[j].ok) => ~held[j].ok

(* Conforms..: the logged state is the machine's state                        *)
ConformsEnabled == ~stuck
ConformsFC == ~stuck => obs.layout = layout
ConformsNAC == ~stuck => obs.nacm = nacm
ConformsMasses == ~stuck => obs.massS = massS /\ obs.massU = massU
ConformsDataset == ~stuck => obs.dsT = dsT /\ obs.dsF = dsF
ConformsDM == ~stuck => obs.dm = dm
ConformsGV == ~stuck => obs.gv = gv
ConformsSCD == ~stuck => obs.scd = scd
ConformsCopy == ~stuck => obs.cp = cp
ConformsHeld == ~stuck => obs.held = NormHeld(held)
ConformsResults == ~stuck => obs.rs = rs
=============================================================================
