------------------------------ MODULE CellCat -------------------------------
(* X06: model-level run over the catalogue: TLC computes the exact space      *)
(* group of every entry, states that the pure translations are the declared   *)
(* centring letter's (CellUtils 1) and that the letter's reference matrix     *)
(* from the definition is a primitive matrix; emits the entry, the list of    *)
(* rotation parts (with repetitions, as a symmetry finder returns them) and   *)
(* whether a cell with that list is primitive, for the replay on              *)
(* is_primitive_cell.                                                         *)
EXTENDS CellCatalogue
VARIABLES nm, pc, grp
kvars == <<nm, pc, grp>>

KInit == nm \in XNames /\ pc = "start" /\ grp = {}
KCompute == pc = "start" /\ pc' = "done" /\ grp' = FastAut(XEntry(nm)) /\ UNCHANGED nm
KNext == KCompute
KDone == pc = "done"
Cen == {Tup(p[2]) : p \in {p \in grp : p[1] = Id3}} \ {<<0,0,0>>}
Scale(T, k) == {<<k * t[1], k * t[2], k * t[3]>> : t \in T}
OpsSeq == SetToSeq(grp)
RotList == [k \in DOMAIN OpsSeq |-> OpsSeq[k][1]]

TableIsLattices == \A l \in Letters : IsGroupMod(CentringTrans(l), CDen)
CentringIsDeclared == KDone => Scale(Cen, 6) = Scale(CentringTrans(XEntry(nm).centring), XEntry(nm).D)
PrimitiveIffNoCentring == KDone => (IsPrimitiveList(RotList) <=> Cen = {})
FastIsAut == KDone => grp = Aut(XEntry(nm))
GroupHasIdentity == KDone => CountIdentity(RotList) >= 1
EmitTable == PrintT(ToString(<<"PMAT", PMatTable>>)) /\ PrintT(ToString(<<"SHAPE", ShapeTable>>))
Emit == KDone => PrintT(ToString(<<"XCELL", XEntry(nm), RotList, IsPrimitiveList(RotList)>>))
=============================================================================
