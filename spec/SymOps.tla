------------------------------- MODULE SymOps -------------------------------
(* Pure part of the C07 specification (no variables): exact rational arrays, *)
(* systems and their derived tables, the definitions the requirement is     *)
(* stated with (TransInv, PermSym, Periodic, FullOf, CompactOf,              *)
(* FullTranspose, ProjDef, SGInv), and the transcription of every step of    *)
(* the symmetrisation routines of phonopy as an operator on arrays.  Used by *)
(* Symmetrize.tla (one routine call as a step machine) and SymSession.tla    *)
(* (histories of API calls).  See the header of Symmetrize.tla.              *)
EXTENDS Integers, Sequences, FiniteSets, TLC

CONSTANTS
  Systems,   \* function  key -> [np, ns, d, perms, p2s, s2p (, ops)]
  Variant    \* "pinned" | "repaired"

Materialize(f) == f @@ <<>>
Abs(x) == IF x < 0 THEN -x ELSE x

-----------------------------------------------------------------------------
(* exact arrays *)

RECURSIVE Gcd(_, _)
Gcd(a, b) == IF b = 0 THEN a ELSE Gcd(b, a % b)

RECURSIVE GcdSeq(_, _, _, _)
GcdSeq(a, i, n, g) == IF i > n \/ g = 1 THEN g ELSE GcdSeq(a, i + 1, n, Gcd(g, Abs(a[i])))

Norm(r) ==
  LET n == Len(r.a)
      g == GcdSeq(r.a, 1, n, r.den)
  IN IF g = 1 THEN r
     ELSE [den |-> r.den \div g, a |-> Materialize([m \in 1..n |-> r.a[m] \div g]), ok |-> r.ok]

Arr(den, a, ok) == Norm([den |-> den, a |-> Materialize(a), ok |-> ok])

(* value comparison of two arrays (both normalised) *)
SameArr(r1, r2) == r1.den = r2.den /\ r1.a = r2.a

RECURSIVE SumStride(_, _, _, _)
SumStride(a, start, stride, count) ==
  IF count = 0 THEN 0 ELSE a[start] + SumStride(a, start + stride, stride, count - 1)

-----------------------------------------------------------------------------
(* systems: tables derived by definition from (perms, p2s, s2p)              *)

NTrans(s) == Len(s.perms)
Range(f) == {f[x] : x \in DOMAIN f}
FirstIn(n, P(_)) == CHOOSE t \in 1..n : P(t) /\ \A u \in 1..(t - 1) : ~P(u)

(* s2pp[j]: primitive index of the primitive atom that j is a translate of  *)
(* (get_nsym_list_and_s2pp: p2p_map[s2p_map[j]])                            *)
S2PPOf(s) == [j \in 1..s.ns |-> (CHOOSE ip \in 1..s.np : s.p2s[ip] = s.s2p[j]) - 1]
(* nsym[j]: (first) translation carrying j onto its primitive atom s2p[j]   *)
NSymOf(s) == [j \in 1..s.ns |-> LET P(t) == s.perms[t][j] = s.s2p[j] IN FirstIn(NTrans(s), P) - 1]
(* _get_sym_mappings_from_permutations(perms, p2s): first operation that    *)
(* sends the atom into the done list, and where it lands                    *)
MapSymOf(s) == [j \in 1..s.ns |-> LET P(t) == s.perms[t][j] \in Range(s.p2s) IN FirstIn(NTrans(s), P) - 1]

DimOf(s) == s.d

Sys(k) ==
  LET s == Systems[k]
      ms == Materialize(MapSymOf(s))
  IN [key |-> k, np |-> s.np, ns |-> s.ns, d |-> s.d, perms |-> s.perms, p2s |-> s.p2s, s2p |-> s.s2p,
      s2pp |-> Materialize(S2PPOf(s)),
      nsym |-> Materialize(NSymOf(s)),
      mapsym |-> ms,
      mapatom |-> Materialize([j \in 1..s.ns |-> s.perms[ms[j] + 1][j]]),
      ops |-> IF "ops" \in DOMAIN s THEN s.ops ELSE <<>>,
      G |-> IF "G" \in DOMAIN s THEN s.G ELSE <<<<1, 0, 0>>, <<0, 1, 0>>, <<0, 0, 1>>>>]


(* what a set of pure lattice translations must be: a commutative group of  *)
(* permutations acting freely, with exactly the primitive atoms as orbit     *)
(* representatives                                                           *)
IsPerm(p, n) == Len(p) = n /\ {p[i] : i \in 1..n} = 0..(n - 1)
Compose(p, q) == [i \in 1..Len(p) |-> p[q[i] + 1]]
ValidSystem(s) ==
  /\ s.ns = s.np * NTrans(s)
  /\ \A t \in 1..NTrans(s) : IsPerm(s.perms[t], s.ns)
  /\ \E t \in 1..NTrans(s) : \A i \in 1..s.ns : s.perms[t][i] = i - 1
  /\ \A t, u \in 1..NTrans(s) :
        /\ \E v \in 1..NTrans(s) : \A i \in 1..s.ns : s.perms[v][i] = Compose(s.perms[t], s.perms[u])[i]
        /\ \A i \in 1..s.ns : Compose(s.perms[t], s.perms[u])[i] = Compose(s.perms[u], s.perms[t])[i]
        /\ (t # u => \A i \in 1..s.ns : s.perms[t][i] # s.perms[u][i])
  /\ Len(s.p2s) = s.np /\ Len(s.s2p) = s.ns
  /\ \A a, b \in 1..s.np : a # b => s.p2s[a] # s.p2s[b]
  /\ \A j \in 1..s.ns : /\ s.s2p[j] \in Range(s.p2s)
                        /\ \E t \in 1..NTrans(s) : s.perms[t][j] = s.s2p[j]
  /\ \A a \in 1..s.np : s.s2p[s.p2s[a] + 1] = s.p2s[a]

-----------------------------------------------------------------------------
(* positions *)

DD(T) == T.d * T.d
Pos(T, i, j, k, l) == ((i * T.ns + j) * T.d + k) * T.d + l + 1
RowOf(T, m) == (m - 1) \div (T.ns * DD(T))
ColOf(T, m) == ((m - 1) \div DD(T)) % T.ns
KOf(T, m) == ((m - 1) \div T.d) % T.d
LOf(T, m) == (m - 1) % T.d
Size(T, R) == R * T.ns * DD(T)
Rows(T, r) == Len(r.a) \div (T.ns * DD(T))

-----------------------------------------------------------------------------
(* THE REQUIREMENT, from the definitions.  f is a full-layout array.         *)

(* translational invariance: every row and every column sums to zero *)
TransInv(T, f) ==
  LET dd == DD(T)
      n == T.ns
  IN /\ \A q \in 0..(n * dd - 1) : SumStride(f.a, q + 1, n * dd, n) = 0
     /\ \A q \in 0..(n * dd - 1) : SumStride(f.a, (q \div dd) * n * dd + (q % dd) + 1, dd, n) = 0

(* index-permutation symmetry: Phi(i,j)_kl = Phi(j,i)_lk *)
PermSym(T, f) ==
  \A m \in 1..Size(T, T.ns) : f.a[m] = f.a[Pos(T, ColOf(T, m), RowOf(T, m), LOf(T, m), KOf(T, m))]

(* periodicity: Phi(t i, t j) = Phi(i, j) for every lattice translation t of the supercell *)
Periodic(T, f) ==
  \A t \in 1..Len(T.perms) : \A m \in 1..Size(T, T.ns) :
     f.a[Pos(T, T.perms[t][RowOf(T, m) + 1], T.perms[t][ColOf(T, m) + 1], KOf(T, m), LOf(T, m))] = f.a[m]

Symmetric(T, f) == TransInv(T, f) /\ PermSym(T, f)

(* the full array a compact array stands for: Phi(i, j) = Phi(t i, t j) with  *)
(* t the translation carrying i onto its primitive atom                      *)
FullOf(T, c) ==
  Arr(c.den, [m \in 1..Size(T, T.ns) |->
                c.a[Pos(T, T.s2pp[RowOf(T, m) + 1], T.perms[T.nsym[RowOf(T, m) + 1] + 1][ColOf(T, m) + 1],
                        KOf(T, m), LOf(T, m))]], c.ok)

(* rows of the primitive atoms *)
CompactOf(T, f) ==
  Arr(f.den, [m \in 1..Size(T, T.np) |->
                f.a[Pos(T, T.p2s[RowOf(T, m) + 1], ColOf(T, m), KOf(T, m), LOf(T, m))]], f.ok)

(* transposed full array: Phi^T(i,j)_kl = Phi(j,i)_lk *)
FullTranspose(T, f) ==
  Arr(f.den, [m \in 1..Size(T, T.ns) |-> f.a[Pos(T, ColOf(T, m), RowOf(T, m), LOf(T, m), KOf(T, m))]], f.ok)


(* the orthogonal projector onto {TransInv /\ PermSym}, from the definition:  *)
(* y = x - column means - row means + total mean,  out = (y + y^T)/2          *)
ProjDef(T, f) ==
  LET n == T.ns
      dd == DD(T)
      w == n * dd
      col == Materialize([q \in 0..(w - 1) |-> SumStride(f.a, q + 1, w, n)])
      row == Materialize([q \in 0..(n * dd - 1) |-> SumStride(f.a, (q \div dd) * w + (q % dd) + 1, dd, n)])
      tot == Materialize([e \in 0..(dd - 1) |-> SumStride(row, e, dd, n)])
      y == Materialize([m \in 1..Size(T, n) |->
              n * n * f.a[m] - n * col[(m - 1) % w] - n * row[RowOf(T, m) * dd + ((m - 1) % dd)] + tot[(m - 1) % dd]])
  IN Arr(2 * n * n * f.den,
         [m \in 1..Size(T, n) |-> y[m] + y[Pos(T, ColOf(T, m), RowOf(T, m), LOf(T, m), KOf(T, m))]], f.ok)



-----------------------------------------------------------------------------
(* steps of the full-layout kernels (c/phonopy.c 536-575, 696-752) and of   *)
(* the Python fall-back (set_translational_invariance_per_index,            *)
(* set_permutation_symmetry); R = number of rows                            *)

(* for every (j,k,l): subtract the mean over the rows i *)
ColDrift(T, R, r) ==
  LET w == T.ns * DD(T)
      sums == Materialize([q \in 0..(w - 1) |-> SumStride(r.a, q + 1, w, R)])
  IN Arr(r.den * R, [m \in 1..Size(T, R) |-> r.a[m] * R - sums[(m - 1) % w]], r.ok)

(* for every (i,k,l): subtract the mean over the columns j *)
RowDrift(T, R, r) ==
  LET dd == DD(T)
      n == T.ns
      sums == Materialize([q \in 0..(R * dd - 1) |->
                 SumStride(r.a, (q \div dd) * n * dd + (q % dd) + 1, dd, n)])
  IN Arr(r.den * n, [m \in 1..Size(T, R) |-> r.a[m] * n - sums[RowOf(T, m) * dd + ((m - 1) % dd)]], r.ok)

(* set_index_permutation_symmetry_fc: every pair {(i,j,k,l), (j,i,l,k)} is   *)
(* visited once and both members become their mean                          *)
PermAvg(T, r) ==
  Arr(r.den * 2,
      [m \in 1..Size(T, T.ns) |-> r.a[m] + r.a[Pos(T, ColOf(T, m), RowOf(T, m), LOf(T, m), KOf(T, m))]], r.ok)

(* set_translational_symmetry_fc / _compact_fc: the diagonal block becomes   *)
(* -(sums + sums^T)/2, sums = sum of the row over the other atoms            *)
FinalASRGen(T, R, r, diag(_)) ==
  LET dd == DD(T)
      n == T.ns
      sums == Materialize([q \in 0..(R * dd - 1) |->
                 SumStride(r.a, (q \div dd) * n * dd + (q % dd) + 1, dd, n)
                 - r.a[(q \div dd) * n * dd + diag(q \div dd) * dd + (q % dd) + 1]])
  IN Arr(r.den * 2,
         [m \in 1..Size(T, R) |->
            IF ColOf(T, m) = diag(RowOf(T, m))
              THEN -(sums[RowOf(T, m) * dd + KOf(T, m) * T.d + LOf(T, m)]
                     + sums[RowOf(T, m) * dd + LOf(T, m) * T.d + KOf(T, m)])
              ELSE 2 * r.a[m]], r.ok)

FinalASR(T, r) == LET dg(i) == i IN FinalASRGen(T, T.ns, r, dg)
FinalASRC(T, r) == LET dg(ip) == T.p2s[ip + 1] IN FinalASRGen(T, T.np, r, dg)

-----------------------------------------------------------------------------
(* phpy_set_index_permutation_symmetry_compact_fc (c/phonopy.c 577-678):     *)
(* the sequential in-place loop, j outer, i_p inner, with the done flags.    *)
(* acc = [a, ok, done]; in averaging mode the array has been scaled by 2     *)
(* beforehand so that the first mean of a pair is an exact integer.          *)

SwapOrAvg(acc, m, n, isT) ==
  IF isT
    THEN [acc EXCEPT !.a = [@ EXCEPT ![m] = acc.a[n], ![n] = acc.a[m]]]
    ELSE LET v == acc.a[m] + acc.a[n]
         IN [acc EXCEPT !.a = [@ EXCEPT ![m] = v \div 2, ![n] = v \div 2], !.ok = @ /\ (v % 2 = 0)]

(* for k: for l: [if upper: only l > k]  m = bm + k*d + l, n = bn + l*d + k *)
RECURSIVE KLLoop(_, _, _, _, _, _, _)
KLLoop(T, acc, q, bm, bn, isT, upper) ==
  IF q >= DD(T) THEN acc
  ELSE LET k == q \div T.d
           l == q % T.d
       IN IF upper /\ ~(l > k)
            THEN KLLoop(T, acc, q + 1, bm, bn, isT, upper)
            ELSE KLLoop(T, SwapOrAvg(acc, bm + k * T.d + l + 1, bn + l * T.d + k + 1, isT),
                        q + 1, bm, bn, isT, upper)

Visit(T, acc, j, ip, isT) ==
  LET i == T.p2s[ip + 1]
      jp == T.s2pp[j + 1]
      it == T.perms[T.nsym[j + 1] + 1][i + 1]        \* i_trans
      special == IF Variant = "pinned" THEN i = j ELSE (jp = ip /\ it = j)
      b0 == (ip * T.ns + (IF Variant = "pinned" THEN i ELSE j)) * DD(T)
      acc1 == IF special THEN KLLoop(T, acc, 0, b0, b0, isT, TRUE) ELSE acc
      key == ip * T.ns + j
  IN IF key \in acc1.done THEN acc1
     ELSE KLLoop(T, [acc1 EXCEPT !.done = @ \cup {key, jp * T.ns + it}], 0,
                 (ip * T.ns + j) * DD(T), (jp * T.ns + it) * DD(T), isT, FALSE)

RECURSIVE VisitLoop(_, _, _, _)
VisitLoop(T, acc, q, isT) ==
  IF q >= T.ns * T.np THEN acc
  ELSE VisitLoop(T, Visit(T, acc, q \div T.np, q % T.np, isT), q + 1, isT)

(* Transposition mode only moves values, so the loop is run ONCE per system, on an  *)
(* array of position labels; sig[m] = where the value that ends at m came from.       *)
TransposeSigma(T) ==
  VisitLoop(T, [a |-> Materialize([m \in 1..Size(T, T.np) |-> m]), ok |-> TRUE, done |-> {}], 0, TRUE).a

(* every system with its derived tables; computed once (constant level, forced) *)
SysTable ==
  Materialize([k \in DOMAIN Systems |-> LET b == Sys(k) IN [sig |-> TransposeSigma(b)] @@ b])

TransposeC(T, r) ==
  [den |-> r.den, a |-> Materialize([m \in 1..Size(T, T.np) |-> r.a[T.sig[m]]]), ok |-> r.ok]

PermAvgC(T, r) ==
  LET res == VisitLoop(T, [a |-> Materialize([m \in 1..Len(r.a) |-> 2 * r.a[m]]), ok |-> r.ok, done |-> {}], 0, FALSE)
  IN Arr(2 * r.den, res.a, res.ok)

-----------------------------------------------------------------------------
(* converters *)

(* full_fc_to_compact_fc: rows p2s *)
ToCompact(T, f) ==
  Arr(f.den, [m \in 1..Size(T, T.np) |->
                f.a[Pos(T, T.p2s[RowOf(T, m) + 1], ColOf(T, m), KOf(T, m), LOf(T, m))]], f.ok)

(* compact_fc_to_full_fc: zero array, rows p2s filled, then distribute_fc2   *)
(* with identity rotations: row todo += row map_atoms[todo] read through the *)
(* permutation map_syms[todo]; rows that map to themselves are skipped       *)
(* (0 when the atom is no primitive atom: only reachable with foreign tables, SymProcess.tla) *)
IpOf(T, atom) == IF \E ip \in 1..T.np : T.p2s[ip] = atom THEN (CHOOSE ip \in 1..T.np : T.p2s[ip] = atom) - 1 ELSE 0
Expand(T, c) ==
  Arr(c.den,
      [m \in 1..Size(T, T.ns) |->
         LET todo == RowOf(T, m)
             dn == T.mapatom[todo + 1]
             init == IF todo \in Range(T.p2s)
                       THEN c.a[Pos(T, IpOf(T, todo), ColOf(T, m), KOf(T, m), LOf(T, m))] ELSE 0
         IN IF dn = todo THEN init
            ELSE init + c.a[Pos(T, IpOf(T, dn), T.perms[T.mapsym[todo + 1] + 1][ColOf(T, m) + 1], KOf(T, m), LOf(T, m))]],
      c.ok)

-----------------------------------------------------------------------------
(* set_tensor_symmetry_PJ: mean over the space-group operations g of               *)
(* R^T Phi(g i, g j) R, R the Cartesian rotation of g.  For the space-group routes  *)
(* the arrays are kept in COVARIANT COMPONENTS of a frame F (rows = the supercell's  *)
(* lattice vectors): Phi_F = F Phi F^T.  There the same mean reads                   *)
(* W^T Phi_F(g i, g j) W with W = F^-T R F^T the rotation in lattice coordinates, an  *)
(* INTEGER matrix for every lattice (hexagonal, monoclinic, rigidly rotated, ...);   *)
(* R orthogonal  <=>  W^T G W = G for the Gram matrix G = F F^T (ValidOps).          *)
(* An operation is [W, perm]; perm[i] = image of atom i.  (d = 3)                     *)
WtXW(T, a, W, gi, gj, k, l) ==
  LET b == Pos(T, gi, gj, 0, 0) - 1
      Tm(p, q) == IF W[p][k + 1] = 0 \/ W[q][l + 1] = 0 THEN 0
                  ELSE W[p][k + 1] * a[b + 3 * (p - 1) + q] * W[q][l + 1]
  IN Tm(1, 1) + Tm(1, 2) + Tm(1, 3) + Tm(2, 1) + Tm(2, 2) + Tm(2, 3) + Tm(3, 1) + Tm(3, 2) + Tm(3, 3)

SGAverage(T, r) ==
  LET ng == Len(T.ops)
      RECURSIVE G(_, _)
      G(g, m) == IF g > ng THEN 0
                 ELSE WtXW(T, r.a, T.ops[g].W, T.ops[g].perm[RowOf(T, m) + 1], T.ops[g].perm[ColOf(T, m) + 1],
                           KOf(T, m), LOf(T, m)) + G(g + 1, m)
  IN Arr(r.den * ng, [m \in 1..Size(T, T.ns) |-> G(1, m)], r.ok)

(* invariance under the space-group operations of the system:                 *)
(* Phi(g i, g j) = R Phi(i, j) R^T  for every operation g, i.e. in the frame     *)
(* W^T Phi_F(g i, g j) W = Phi_F(i, j)                                           *)
SGInv(T, f) ==
  \A g \in 1..Len(T.ops) : \A m \in 1..Size(T, T.ns) :
     WtXW(T, f.a, T.ops[g].W, T.ops[g].perm[RowOf(T, m) + 1], T.ops[g].perm[ColOf(T, m) + 1], KOf(T, m), LOf(T, m))
       = f.a[m]

(* what operations must be: integer isometries of the lattice (W^T G W = G) with atom  *)
(* permutations, a group under composition, containing the pure translations           *)
MatT(R) == [i \in 1..3 |-> [j \in 1..3 |-> R[j][i]]]
MatM(A, B) == [i \in 1..3 |-> [j \in 1..3 |-> A[i][1] * B[1][j] + A[i][2] * B[2][j] + A[i][3] * B[3][j]]]
Eye3 == <<<<1, 0, 0>>, <<0, 1, 0>>, <<0, 0, 1>>>>
ValidOps(T) ==
  /\ T.G = MatT(T.G)
  /\ \A g \in 1..Len(T.ops) : /\ MatM(MatT(T.ops[g].W), MatM(T.G, T.ops[g].W)) = T.G
                              /\ IsPerm(T.ops[g].perm, T.ns)
  /\ LET opset == {<<T.ops[g].W, T.ops[g].perm>> : g \in 1..Len(T.ops)}
     IN /\ Cardinality(opset) = Len(T.ops)
        /\ \A g, h \in 1..Len(T.ops) :
              <<MatM(T.ops[g].W, T.ops[h].W), Compose(T.ops[g].perm, T.ops[h].perm)>> \in opset
  /\ \A t \in 1..Len(T.perms) : \E g \in 1..Len(T.ops) : T.ops[g].W = Eye3 /\ T.ops[g].perm = T.perms[t]

-----------------------------------------------------------------------------
(* show_drift_force_constants on a compact array prints, for the array transposed by the   *)
(* kernel and for the array itself, _get_drift_per_index: the row sum (over the second    *)
(* atom index) of largest magnitude, first one in the order (i, k, l), with its (k, l).   *)
RECURSIVE FirstMax(_, _, _, _)
FirstMax(sums, q, n, best) ==
  IF q >= n THEN best
  ELSE FirstMax(sums, q + 1, n, IF Abs(sums[q]) > Abs(best.v) THEN [v |-> sums[q], q |-> q] ELSE best)

DriftPerIndex(T, R, r) ==
  LET dd == DD(T)
      n == T.ns
      sums == Materialize([q \in 0..(R * dd - 1) |-> SumStride(r.a, (q \div dd) * n * dd + (q % dd) + 1, dd, n)])
      b == FirstMax(sums, 0, R * dd, [v |-> 0, q |-> 0])
      g == Gcd(Abs(b.v), r.den)
  IN [num |-> b.v \div g, den |-> r.den \div g,
      k |-> IF b.v = 0 THEN 0 ELSE (b.q % dd) \div T.d, l |-> IF b.v = 0 THEN 0 ELSE b.q % T.d]

(* The first drift is found on the TRANSPOSED array, whose 3x3 blocks are transposed too: the     *)
(* component pair (k, l) found there is the pair (l, k) of the array being described, which is   *)
(* how the full-layout display labels it (fixed in /repo f02c0e3; before that the compact display *)
(* printed the transposed pair).                                                                   *)
SwapKL(d) == [d EXCEPT !.k = d.l, !.l = d.k]
(* as displayed by the code: through its transposition kernel *)
DriftShown(T, c) == [first |-> SwapKL(DriftPerIndex(T, T.np, TransposeC(T, c))), second |-> DriftPerIndex(T, T.np, c)]
(* what it should display: the same for the transposed array of the definition *)
DriftDef(T, c) ==
  [first |-> SwapKL(DriftPerIndex(T, T.np, CompactOf(T, FullTranspose(T, FullOf(T, c))))), second |-> DriftPerIndex(T, T.np, c)]

-----------------------------------------------------------------------------
(* programs *)

RECURSIVE Rep(_, _)
Rep(sq, n) == IF n = 0 THEN <<>> ELSE sq \o Rep(sq, n - 1)

Program(route, level) ==
  CASE route = "full" -> Rep(<<"ColDrift", "RowDrift", "PermAvg">>, level) \o <<"FinalASR">>
    [] route = "py" -> Rep(<<"ColDrift", "RowDrift", "PermAvg">>, level) \o <<"ColDrift", "RowDrift">>
    [] route = "compact" ->
         Rep(<<"TransposeC", "RowDriftC", "TransposeC", "RowDriftC", "PermAvgC">>, level) \o <<"FinalASRC">>
    [] route = "transpose" -> <<"TransposeC">>
    [] route = "drift" -> <<"TransposeC", "TransposeC">>
    [] route = "expand" -> <<"Expand">>
    [] route = "tocompact" -> <<"ToCompact">>
    [] route = "sg" -> <<"SGAverage">>

StepNames == {"ColDrift", "RowDrift", "PermAvg", "FinalASR", "TransposeC", "RowDriftC", "PermAvgC", "FinalASRC",
              "Expand", "ToCompact", "SGAverage"}

Step(T, name, r) ==
  CASE name = "ColDrift" -> ColDrift(T, T.ns, r)
    [] name = "RowDrift" -> RowDrift(T, T.ns, r)
    [] name = "PermAvg" -> PermAvg(T, r)
    [] name = "FinalASR" -> FinalASR(T, r)
    [] name = "TransposeC" -> TransposeC(T, r)
    [] name = "RowDriftC" -> RowDrift(T, T.np, r)
    [] name = "PermAvgC" -> PermAvgC(T, r)
    [] name = "FinalASRC" -> FinalASRC(T, r)
    [] name = "Expand" -> Expand(T, r)
    [] name = "ToCompact" -> ToCompact(T, r)
    [] name = "SGAverage" -> SGAverage(T, r)

RECURSIVE RunProg(_, _, _)
RunProg(T, p, r) == IF p = <<>> THEN r ELSE RunProg(T, Tail(p), Step(T, Head(p), r))
Run(T, route, level, r) == RunProg(T, Program(route, level), r)

=============================================================================
