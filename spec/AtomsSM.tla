------------------------------ MODULE AtomsSM -------------------------------
(* X06: PhonopyAtoms (phonopy/structure/atoms.py) as a state machine.         *)
(*                                                                            *)
(* Abstract state of one object:                                              *)
(*   syms   sequence of symbols ("Fe", extended "Fe1")                        *)
(*   nums   atomic number + 1000 * index of the extended symbol               *)
(*   mass   <<>> (None) or sequence of <<"tab", Z>> (table value of element   *)
(*          Z) / <<"val", k>> (the k-th explicit value of the caller)         *)
(*   mag    <<>> (None), n integers (collinear) or n triples                  *)
(*   cell   <<d1, d2, d3, s>>: basis rows (d1,0,0), (s,d2,0), (0,0,d3)           *)
(*   spos   scaled positions, numerators over 16                              *)
(* Cartesian positions are numerators over 4; x_scaled = x_cart . basis^-1.   *)
(* A history is a constructor call followed by setters, copy(), a yaml text   *)
(* round trip, and in-place modifications of containers the caller owns       *)
(* (arguments passed earlier, values a getter returned).  REQUIREMENT (class  *)
(* documentation): lengths agree, numbers <-> symbols are consistent, masses  *)
(* come from the table unless given, extended symbols need explicit masses,   *)
(* invalid input is refused with an error, an object shares no mutable state  *)
(* with the caller or with its copies.  A history ends at the first error.    *)
(* TLC enumerates every history up to MaxOps steps; Emit prints it with the   *)
(* expected objects for the replay on the real class.                         *)
EXTENDS Integers, Sequences, FiniteSets, TLC

CONSTANTS Ctors, MaxOps
VARIABLES objs, hist, status
avars == <<objs, hist, status>>

Base(s) == IF s \in {"H", "H3"} THEN "H" ELSE IF s = "Si" THEN "Si" ELSE "Fe"
Index(s) == IF s = "H3" THEN 3 ELSE IF s = "Fe1" THEN 1 ELSE IF s = "Fe2" THEN 2 ELSE 0
ZOf(b) == IF b = "H" THEN 1 ELSE IF b = "Si" THEN 14 ELSE 26
SymOfZ(z) == IF z = 1 THEN "H" ELSE IF z = 14 THEN "Si" ELSE "Fe"
NumOf(s) == ZOf(Base(s)) + 1000 * Index(s)
(* printed precision of the yaml text (decimals) *)
FormatDecimals == [lattice |-> 15, coordinates |-> 15, mass |-> 6, magnetic_moment |-> 8]

(* derived attributes: the cell volume and the chemical formulae (elements in alphabetical order, the  *)
(* index of an extended symbol does not make another element; reduced = counts divided by their gcd)   *)
Elements == <<"Fe", "H", "Si">>
CountOf(syms, el) == Cardinality({i \in DOMAIN syms : Base(syms[i]) = el})
Gcd(a, b) == LET RECURSIVE G(_, _)
                 G(x, y) == IF y = 0 THEN x ELSE G(y, x % y)
             IN G(a, b)
GcdCounts(syms) == Gcd(Gcd(CountOf(syms, "Fe"), CountOf(syms, "H")), CountOf(syms, "Si"))
Part(el, k) == IF k = 0 THEN "" ELSE IF k = 1 THEN el ELSE el \o ToString(k)
FormulaDiv(syms, d) == Part("Fe", CountOf(syms, "Fe") \div d) \o Part("H", CountOf(syms, "H") \div d) \o Part("Si", CountOf(syms, "Si") \div d)
Derived(x) == [volume |-> x.cell[1] * x.cell[2] * x.cell[3], formula |-> FormulaDiv(x.syms, 1),
               reduced |-> FormulaDiv(x.syms, GcdCounts(x.syms))]

NoCtor == [sy |-> <<>>, nu |-> <<>>, ma |-> <<>>, mg |-> <<>>, pk |-> "scaled", po |-> <<>>, ce |-> <<1,1,1,0>>]
S2 == <<<<0,0,0>>, <<8,8,8>>>>
C2 == <<<<0,0,0>>, <<1,2,2>>>>
S3 == <<<<0,0,0>>, <<8,8,8>>, <<4,12,2>>>>
S5 == <<<<0,0,0>>, <<8,8,8>>, <<4,12,2>>, <<12,4,6>>, <<2,2,10>>>>
AllCtors == {
  [NoCtor EXCEPT !.sy = <<"Si", "Si">>, !.po = S2, !.ce = <<2,2,1,1>>],
  [NoCtor EXCEPT !.sy = <<"H", "Fe">>, !.pk = "cart", !.po = C2, !.ce = <<1,2,4,1>>],
  [NoCtor EXCEPT !.nu = <<14, 1>>, !.po = S2],
  [NoCtor EXCEPT !.sy = <<"Fe1", "Fe2">>, !.ma = <<1, 2>>, !.po = S2],
  [NoCtor EXCEPT !.sy = <<"Fe1", "Fe">>, !.po = S2],
  [NoCtor EXCEPT !.sy = <<"H", "Si">>, !.ma = <<3, 4>>, !.mg = <<1, -1>>, !.po = S2, !.ce = <<1,2,4,1>>],
  [NoCtor EXCEPT !.sy = <<"Fe", "Fe">>, !.mg = <<1, 0, 0, 0, 1, 0>>, !.po = S2],
  [NoCtor EXCEPT !.sy = <<"Fe", "Fe">>, !.mg = <<1, 2, 3>>, !.po = S2],
  [NoCtor EXCEPT !.nu = <<26, 119>>, !.po = S2],
  [NoCtor EXCEPT !.sy = <<"Si">>, !.po = S2],
  [NoCtor EXCEPT !.po = S2],
  [NoCtor EXCEPT !.sy = <<"H", "H", "Si">>, !.mg = <<1, 2, 3>>, !.po = S3],
  [NoCtor EXCEPT !.sy = <<"Fe">>, !.mg = <<0, 0, 2>>, !.po = <<<<4,4,4>>>>],
  [NoCtor EXCEPT !.sy = <<"H3">>, !.ma = <<5>>, !.mg = <<1>>, !.po = <<<<0,8,0>>>>],
  [NoCtor EXCEPT !.sy = <<"H", "Si">>, !.nu = <<1, 14>>, !.po = S2],
  [NoCtor EXCEPT !.sy = <<"H", "Si">>, !.ma = <<1, 2, 3>>, !.po = S2],
  [NoCtor EXCEPT !.sy = <<"H", "Si">>],
  [NoCtor EXCEPT !.sy = <<"H", "Si", "H", "Si", "Si">>, !.po = S5, !.ce = <<2,2,1,1>>],
  [NoCtor EXCEPT !.sy = <<"Fe1", "H", "Fe2", "H">>, !.ma = <<1, 2, 3, 2>>, !.mg = <<1, 0, -1, 0>>, !.po = SubSeq(S5, 1, 4)],
  [NoCtor EXCEPT !.sy = <<"Fe2", "H">>, !.ma = <<7, 8>>, !.pk = "cart", !.po = C2, !.ce = <<2,2,1,1>>]}

Bad == [ok |-> FALSE, o |-> <<>>]
Good(x) == [ok |-> TRUE, o |-> x]
Extended(syms) == \E i \in DOMAIN syms : Index(syms[i]) > 0
MagOf(mg, n) == IF Len(mg) = 3 * n THEN [i \in 1..n |-> <<mg[3*i-2], mg[3*i-1], mg[3*i]>>] ELSE mg
MagOK(mg, n) == Len(mg) \in {0, n, 3 * n}
Scaled(pk, po, ce) ==
  IF pk = "scaled" THEN po
  ELSE [i \in DOMAIN po |-> <<(po[i][1] * 4) \div ce[1] - (po[i][2] * 4 * ce[4]) \div (ce[1] * ce[2]),
                              (po[i][2] * 4) \div ce[2], (po[i][3] * 4) \div ce[3]>>]

(* REQUIREMENT: what a constructor call yields *)
Construct(a) ==
  LET n == Len(a.po)
      nums == IF a.nu # <<>> THEN a.nu ELSE [i \in DOMAIN a.sy |-> NumOf(a.sy[i])]
      syms == IF a.nu # <<>> THEN [i \in DOMAIN a.nu |-> SymOfZ(a.nu[i])] ELSE a.sy
  IN  IF n = 0 \/ (a.sy = <<>> /\ a.nu = <<>>) THEN Bad
      ELSE IF \E i \in DOMAIN a.nu : a.nu[i] > 118 THEN Bad
      ELSE IF Len(nums) # n \/ (a.ma # <<>> /\ Len(a.ma) # n) \/ ~ MagOK(a.mg, n) THEN Bad
      ELSE IF a.ma = <<>> /\ Extended(syms) THEN Bad
      ELSE Good([syms |-> syms, nums |-> nums,
                 mass |-> IF a.ma # <<>> THEN [i \in 1..n |-> <<"val", a.ma[i]>>] ELSE [i \in 1..n |-> <<"tab", ZOf(Base(syms[i]))>>],
                 mag |-> MagOf(a.mg, n), cell |-> a.ce, spos |-> Scaled(a.pk, a.po, a.ce)])

AltS(n) == SubSeq(<<<<2,0,6>>, <<0,4,4>>, <<10,2,8>>, <<6,6,6>>, <<14,0,2>>, <<4,4,12>>>>, 1, n)
AltC(n) == SubSeq(<<<<1,0,2>>, <<0,2,4>>, <<3,2,0>>, <<2,2,2>>, <<1,2,0>>, <<3,0,2>>>>, 1, n)
AltM(n) == SubSeq(<<9, 8, 7, 6, 5, 4>>, 1, n)
AltG(n) == SubSeq(<<2, -2, 1, 0, 0, 3, 1, 1, 0, 0, -1, 2, 3, 0, 1>>, 1, n)
(* the setters: [name, argument] -> new object or refusal *)
Setters(x) ==
  LET n == Len(x.syms) IN
  {<<[op |-> "cell", arg |-> c], Good([x EXCEPT !.cell = c])>> : c \in {<<1,2,4,1>>, <<2,2,1,0>>}}
  \cup {<<[op |-> "scaled_positions", arg |-> AltS(k)], IF k = n THEN Good([x EXCEPT !.spos = AltS(n)]) ELSE Bad>> : k \in {n, n + 1}}
  \cup {<<[op |-> "positions", arg |-> AltC(k)], IF k = n THEN Good([x EXCEPT !.spos = Scaled("cart", AltC(n), x.cell)]) ELSE Bad>> : k \in {n, n + 1}}
  \cup {<<[op |-> "masses", arg |-> AltM(k)],
          IF k = n THEN Good([x EXCEPT !.mass = [i \in 1..n |-> <<"val", AltM(n)[i]>>]]) ELSE Bad>> : k \in {n, n + 1}}
  \cup {<<[op |-> "magnetic_moments", arg |-> AltG(k)],
          IF MagOK(AltG(k), n) THEN Good([x EXCEPT !.mag = MagOf(AltG(k), n)]) ELSE Bad>> : k \in {0, n, 3 * n, n + 1}}
ArgFields(a) == {f \in {"symbols", "numbers", "masses", "magnetic_moments", "positions", "cell"} :
                   CASE f = "symbols" -> a.sy # <<>> [] f = "numbers" -> a.nu # <<>> [] f = "masses" -> a.ma # <<>>
                     [] f = "magnetic_moments" -> a.mg # <<>> [] OTHER -> TRUE}
Getters == {"symbols", "numbers", "numbers_with_shifts", "masses", "magnetic_moments", "cell", "scaled_positions", "positions"}

AInit == objs = <<>> /\ hist = <<>> /\ status = "new"
New == /\ status = "new"
       /\ \E a \in Ctors : LET r == Construct(a) IN
            /\ hist' = <<[op |-> "new", obj |-> 0, arg |-> a]>>
            /\ IF r.ok THEN objs' = <<r.o>> /\ status' = "ok" ELSE objs' = <<>> /\ status' = "error"
Alive == status = "ok" /\ Len(hist) <= MaxOps
Set == /\ Alive
       /\ \E k \in DOMAIN objs : \E s \in Setters(objs[k]) :
            /\ hist' = Append(hist, [op |-> s[1].op, obj |-> k, arg |-> s[1].arg])
            /\ IF s[2].ok THEN objs' = [objs EXCEPT ![k] = s[2].o] /\ status' = "ok" ELSE objs' = objs /\ status' = "error"
Copy == /\ Alive /\ Len(objs) = 1
        /\ objs' = Append(objs, objs[1]) /\ hist' = Append(hist, [op |-> "copy", obj |-> 1, arg |-> <<>>]) /\ status' = "ok"
Yaml == /\ Alive /\ Len(objs) = 1          \* parse_cell_dict(yaml.safe_load(str(x))) is a second object equal to x
        /\ objs' = Append(objs, objs[1]) /\ hist' = Append(hist, [op |-> "yaml", obj |-> 1, arg |-> <<>>]) /\ status' = "ok"
(* the caller modifies, in place, a container it passed to the constructor: no object changes *)
MutateArg == /\ Alive
             /\ \E f \in ArgFields(hist[1].arg) :
                  hist' = Append(hist, [op |-> "mutate_argument", obj |-> 0, arg |-> f]) /\ UNCHANGED <<objs, status>>
(* the caller modifies, in place, what a getter returned: no object changes *)
MutateGot == /\ Alive
             /\ \E k \in DOMAIN objs : \E f \in Getters :
                  hist' = Append(hist, [op |-> "mutate_returned", obj |-> k, arg |-> f]) /\ UNCHANGED <<objs, status>>
ANext == New \/ Set \/ Copy \/ Yaml \/ MutateArg \/ MutateGot

(* invariants of every object of every reachable state *)
InvLengths == \A k \in DOMAIN objs : LET x == objs[k] n == Len(x.syms) IN
                 n >= 1 /\ Len(x.nums) = n /\ Len(x.spos) = n /\ Len(x.mass) \in {0, n} /\ Len(x.mag) \in {0, n}
InvNumbersSymbols == \A k \in DOMAIN objs : \A i \in DOMAIN objs[k].syms : objs[k].nums[i] = NumOf(objs[k].syms[i])
InvExtendedHaveMasses == \A k \in DOMAIN objs : \A i \in DOMAIN objs[k].mass :
                            Index(objs[k].syms[i]) > 0 => objs[k].mass[i][1] = "val"
InvTableMass == \A k \in DOMAIN objs : \A i \in DOMAIN objs[k].mass :
                   objs[k].mass[i][1] = "tab" => objs[k].mass[i][2] = ZOf(Base(objs[k].syms[i]))
(* a step on one object leaves the others alone *)
Independent == [][\A k \in DOMAIN objs : (k \in DOMAIN objs' /\ hist'[Len(hist')].obj # k) => objs'[k] = objs[k]]_avars
Emit == status # "new" => PrintT(ToString(<<"AT", hist, status, objs, [k \in DOMAIN objs |-> Derived(objs[k])]>>))
=============================================================================
