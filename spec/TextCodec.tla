----------------------------- MODULE TextCodec -----------------------------
(* C16, text level: the number formats of the files phonopy writes and the  *)
(* way they are read back.                                                  *)
(*                                                                          *)
(* A number is an exact decimal  (-1)^neg * m / 10^k.  A LINE KIND is the    *)
(* sequence of printf items the writer uses for one line of a file           *)
(* (literal text, "%w.df", "%wd", "%-wd", a free tag such as the " a" of a  *)
(* lattice row) together with the way the reader finds the numbers again:   *)
(*   "ws"     - the whole line is split at blanks (FORCE_SETS,               *)
(*              FORCE_CONSTANTS, BORN: str.split / numpy.loadtxt)            *)
(*   "flow"   - YAML flow sequence: the text between [ and ], split at      *)
(*              commas and blanks, comments (" #...") removed               *)
(*   "scalar" - YAML scalar at the end of the line, comments removed        *)
(* Render is printf; Lex + ParseDec is the reader.  The requirement of C16  *)
(* at this level (LineOK): reading a written line yields as many numbers    *)
(* as were written, each equal to the written value rounded to the decimals *)
(* of its format - "to the precision of the written text" - for values      *)
(* spanning the printable range (1e-9 ... 1e6, both signs, zero).           *)
(* The table Formats is the statement of those formats; TextCodecTrace      *)
(* checks it character by character against the files the real writers      *)
(* produce, and the requirement against what the real readers return.       *)
(* Two rows (FS2_row, FC_row) describe the REPAIRED writers (blank between  *)
(* the fields, fixes/c16-text-fields-run-together.md).                       *)
EXTENDS Integers, Sequences, FiniteSets, TLC

CONSTANTS KindsToCheck,  \* set of line-kind names explored by the model run
          UsePinned      \* BOOLEAN: take the two rows as the pinned tree writes them (no blanks)

VARIABLES pc, kind, vals, tag, text
vars == <<pc, kind, vals, tag, text>>

-----------------------------------------------------------------------------
(* strings *)
RECURSIVE Pow10(_), Rep(_, _)
Pow10(n) == IF n <= 0 THEN 1 ELSE 10 * Pow10(n - 1)
Rep(s, n) == IF n <= 0 THEN "" ELSE s \o Rep(s, n - 1)
Ch(s, i) == SubSeq(s, i, i)
PadL(s, w) == Rep(" ", w - Len(s)) \o s
PadR(s, w) == s \o Rep(" ", w - Len(s))

(* decimals *)
Dec(neg, m, k) == [neg |-> neg, m |-> m, k |-> k]
RECURSIVE Norm(_)
Norm(v) == IF v.m = 0 THEN Dec(FALSE, 0, 0)
           ELSE IF v.k > 0 /\ v.m % 10 = 0 THEN Norm(Dec(v.neg, v.m \div 10, v.k - 1))
           ELSE v
(* value rounded to d decimals (half up; callers exclude exact ties, where the binary *)
(* double decides)                                                                    *)
RoundTo(v, d) == IF v.k <= d THEN v
                 ELSE LET p == Pow10(v.k - d) IN Dec(v.neg, (v.m + p \div 2) \div p, d)
IsTie(v, d) == v.k > d /\ 2 * (v.m % Pow10(v.k - d)) = Pow10(v.k - d)

(* "%.df" *)
FixedStr(v, d) ==
  LET r == RoundTo(v, d)
      ip == r.m \div Pow10(r.k)
      fp == r.m % Pow10(r.k)
      fs == IF r.k = 0 THEN "" ELSE Rep("0", r.k - Len(ToString(fp))) \o ToString(fp)
  IN (IF v.neg THEN "-" ELSE "") \o ToString(ip) \o (IF d > 0 THEN "." \o fs \o Rep("0", d - r.k) ELSE "")

(* items *)
L(s) == [t |-> "L", s |-> s]
F(w, d) == [t |-> "F", w |-> w, d |-> d]
I(w) == [t |-> "I", w |-> w, left |-> FALSE]
IL(w) == [t |-> "I", w |-> w, left |-> TRUE]
T == [t |-> "T"]
IsNum(it) == it.t \in {"F", "I"}
DecimalsOf(it) == IF it.t = "F" THEN it.d ELSE 0

ItemStr(it, v) ==
  IF it.t = "F" THEN PadL(FixedStr(v, it.d), it.w)
  ELSE LET s == (IF v.neg /\ v.m # 0 THEN "-" ELSE "") \o ToString(v.m) IN
       IF it.left THEN PadR(s, it.w) ELSE PadL(s, it.w)

RECURSIVE RenderFrom(_, _, _, _, _)
RenderFrom(items, i, vs, j, tg) ==
  IF i > Len(items) THEN ""
  ELSE LET it == items[i] IN
       IF it.t = "L" THEN it.s \o RenderFrom(items, i + 1, vs, j, tg)
       ELSE IF it.t = "T" THEN tg \o RenderFrom(items, i + 1, vs, j, tg)
       ELSE ItemStr(it, vs[j]) \o RenderFrom(items, i + 1, vs, j + 1, tg)
Render(fmt, vs, tg) == RenderFrom(fmt.items, 1, vs, 1, tg)

NumItems(fmt) == SelectSeq(fmt.items, IsNum)

-----------------------------------------------------------------------------
(* the formats (transcribed from phonopy/file_IO.py, interface/phonopy_yaml.py,  *)
(* structure/atoms.py; checked against the real output in TextCodecTrace)       *)
F3(pre, w, d, sep, post) == <<L(pre), F(w, d), L(sep), F(w, d), L(sep), F(w, d), L(post)>>
Row9 == <<F(13, 8), L(" "), F(13, 8), L(" "), F(13, 8), L(" "), F(13, 8), L(" "), F(13, 8), L(" "),
          F(13, 8), L(" "), F(13, 8), L(" "), F(13, 8), L(" "), F(13, 8), L(" ")>>

Repaired ==
  [ \* FORCE_SETS type 1
    FS1_int   |-> [cls |-> "ws", items |-> <<IL(5)>>],
    FS1_disp  |-> [cls |-> "ws", items |-> F3("", 20, 16, " ", "")],
    FS1_force |-> [cls |-> "ws", items |-> F3("", 15, 10, " ", "")],
    \* FORCE_SETS type 2 (repaired: blank between the six fields)
    FS2_row   |-> [cls |-> "ws", items |-> <<F(15, 8), L(" "), F(15, 8), L(" "), F(15, 8), L(" "),
                                             F(15, 8), L(" "), F(15, 8), L(" "), F(15, 8)>>],
    \* FORCE_CONSTANTS (FC_row repaired: blank between the three fields)
    FC_hdr    |-> [cls |-> "ws", items |-> <<I(4), L(" "), I(4)>>],
    FC_idx    |-> [cls |-> "ws", items |-> <<I(0), L(" "), I(0)>>],
    FC_row    |-> [cls |-> "ws", items |-> F3("", 22, 15, " ", "")],
    \* BORN
    BORN_row  |-> [cls |-> "ws", items |-> Row9],
    \* phonopy.yaml
    smat      |-> [cls |-> "flow", items |-> <<L("- [ "), I(3), L(", "), I(3), L(", "), I(3), L(" ]")>>],
    pmat      |-> [cls |-> "flow", items |-> F3("- [ ", 18, 15, ", ", " ]")],
    lattice   |-> [cls |-> "flow", items |-> F3("  - [ ", 21, 15, ", ", " ] # ") \o <<T>>],
    coords    |-> [cls |-> "flow", items |-> F3("    coordinates: [ ", 18, 15, ", ", " ]")],
    mass      |-> [cls |-> "scalar", items |-> <<L("    mass: "), F(0, 6)>>],
    mag       |-> [cls |-> "scalar", items |-> <<L("    magnetic_moment: "), F(0, 8)>>],
    magv      |-> [cls |-> "flow", items |-> F3("    magnetic_moment: [", 0, 8, ", ", "]")],
    born      |-> [cls |-> "flow", items |-> F3("    - [ ", 18, 15, ", ", " ]")],
    eps       |-> [cls |-> "flow", items |-> F3("    - [ ", 18, 15, ", ", " ]")],
    nacfactor |-> [cls |-> "scalar", items |-> <<L("  unit_conversion_factor: "), F(0, 6)>>],
    freqfactor|-> [cls |-> "scalar", items |-> <<L("  frequency_unit_conversion_factor: "), F(0, 6)>>],
    t1atom    |-> [cls |-> "scalar", items |-> <<L("- atom: "), I(4)>>],
    t1disp    |-> [cls |-> "flow", items |-> F3("    [ ", 20, 16, ",", " ]")],
    t1force   |-> [cls |-> "flow", items |-> F3("  - [ ", 20, 16, ",", " ]")],
    t1energy  |-> [cls |-> "scalar", items |-> <<L("  supercell_energy: "), F(0, 8)>>],
    t2row     |-> [cls |-> "flow", items |-> F3("    - [ ", 21, 16, ", ", " ]")],
    t2energy  |-> [cls |-> "scalar", items |-> <<L("  - "), F(0, 16), L(" # "), T>>],
    fcshape   |-> [cls |-> "flow", items |-> <<L("  shape: [ "), I(0), L(", "), I(0), L(" ]")>>],
    fcrow     |-> [cls |-> "flow", items |-> F3("    - [ ", 21, 15, ", ", " ]")]
  ]
(* the two rows as written by the pinned tree: the fields follow each other without a blank, *)
(* so a field that fills its width runs into its neighbour                                    *)
Pinned == [Repaired EXCEPT
             !.FS2_row = [cls |-> "ws", items |-> <<F(15, 8), F(15, 8), F(15, 8), F(15, 8), F(15, 8), F(15, 8)>>],
             !.FC_row  = [cls |-> "ws", items |-> <<F(22, 15), F(22, 15), F(22, 15)>>]]
Formats == IF UsePinned THEN Pinned ELSE Repaired
AllKinds == DOMAIN Repaired
(* the table in the form the harness needs to choose eligible numbers: per kind the reader *)
(* class and, per numeric item, its type and decimals (printed by MC_TextCodecTable)       *)
TableForHarness ==
  [kd \in AllKinds |->
     [cls |-> Repaired[kd].cls,
      nums |-> [i \in 1..Len(SelectSeq(Repaired[kd].items, IsNum)) |->
                  LET it == SelectSeq(Repaired[kd].items, IsNum)[i] IN <<it.t, DecimalsOf(it)>>]]]

-----------------------------------------------------------------------------
(* the reader *)
RECURSIVE FirstIdx(_, _, _), LastIdx(_, _, _)
FirstIdx(s, c, i) == IF i > Len(s) THEN 0 ELSE IF Ch(s, i) = c THEN i ELSE FirstIdx(s, c, i + 1)
LastIdx(s, c, i) == IF i < 1 THEN 0 ELSE IF Ch(s, i) = c THEN i ELSE LastIdx(s, c, i - 1)

RECURSIVE CommentAt(_, _)
CommentAt(s, i) == IF i + 1 > Len(s) THEN 0
                   ELSE IF Ch(s, i) = " " /\ Ch(s, i + 1) = "#" THEN i ELSE CommentAt(s, i + 1)
StripComment(s) == LET c == CommentAt(s, 1) IN IF c = 0 THEN s ELSE SubSeq(s, 1, c - 1)

RECURSIVE SplitFrom(_, _, _, _, _)
SplitFrom(s, i, cur, acc, seps) ==
  IF i > Len(s) THEN (IF cur = "" THEN acc ELSE Append(acc, cur))
  ELSE LET c == Ch(s, i) IN
       IF c \in seps THEN SplitFrom(s, i + 1, "", IF cur = "" THEN acc ELSE Append(acc, cur), seps)
       ELSE SplitFrom(s, i + 1, cur \o c, acc, seps)
Split(s, seps) == SplitFrom(s, 1, "", <<>>, seps)

Lex(cls, s) ==
  IF cls = "ws" THEN Split(s, {" "})
  ELSE LET b == StripComment(s) IN
       IF cls = "flow"
         THEN LET o == FirstIdx(b, "[", 1) c == LastIdx(b, "]", Len(b)) IN
              IF o = 0 \/ c <= o THEN <<>> ELSE Split(SubSeq(b, o + 1, c - 1), {" ", ","})
         ELSE LET ts == Split(b, {" "}) IN IF ts = <<>> THEN <<>> ELSE <<ts[Len(ts)]>>

Digit == [c \in {"0", "1", "2", "3", "4", "5", "6", "7", "8", "9"} |->
            CASE c = "0" -> 0 [] c = "1" -> 1 [] c = "2" -> 2 [] c = "3" -> 3 [] c = "4" -> 4
              [] c = "5" -> 5 [] c = "6" -> 6 [] c = "7" -> 7 [] c = "8" -> 8 [] c = "9" -> 9]
RECURSIVE AllDigits(_, _), StrNat(_, _, _), TrimZeros(_)
AllDigits(s, i) == i > Len(s) \/ (Ch(s, i) \in DOMAIN Digit /\ AllDigits(s, i + 1))
StrNat(s, i, acc) == IF i > Len(s) THEN acc ELSE StrNat(s, i + 1, 10 * acc + Digit[Ch(s, i)])
TrimZeros(s) == IF s # "" /\ Ch(s, Len(s)) = "0" THEN TrimZeros(SubSeq(s, 1, Len(s) - 1)) ELSE s
RECURSIVE DropZeros(_)
DropZeros(s) == IF Len(s) > 1 /\ Ch(s, 1) = "0" THEN DropZeros(SubSeq(s, 2, Len(s))) ELSE s

Bad == [ok |-> FALSE, v |-> Dec(FALSE, 0, 0), decimals |-> 0]
(* what float() accepts of the fixed-point notation: [-]digits[.digits]; the value as a  *)
(* normalised decimal (at most nine significant digits in this model) and the number of  *)
(* decimals that were written                                                            *)
ParseDec(tok) ==
  LET neg == tok # "" /\ Ch(tok, 1) = "-"
      body == IF neg THEN SubSeq(tok, 2, Len(tok)) ELSE tok
      dot == FirstIdx(body, ".", 1)
      ip == IF dot = 0 THEN body ELSE SubSeq(body, 1, dot - 1)
      fr == IF dot = 0 THEN "" ELSE SubSeq(body, dot + 1, Len(body))
      frt == TrimZeros(fr)
      digits == DropZeros(ip \o frt)
  IN IF body = "" \/ ip = "" \/ ~AllDigits(ip, 1) \/ ~AllDigits(fr, 1) \/ Len(digits) > 9 THEN Bad
     ELSE [ok |-> TRUE, v |-> Norm(Dec(neg, StrNat(digits, 1, 0), Len(frt))), decimals |-> Len(fr)]

(* the requirement on one line: fmt, the values written, the text *)
TokensOK(fmt, txt) == Len(Lex(fmt.cls, txt)) = Len(NumItems(fmt))
ValuesOK(fmt, vs, txt) ==
  LET toks == Lex(fmt.cls, txt)  nums == NumItems(fmt) IN
  Len(toks) = Len(nums) /\
  \A i \in 1..Len(nums) : LET p == ParseDec(toks[i]) IN p.ok /\ p.v = Norm(RoundTo(vs[i], DecimalsOf(nums[i])))
(* the text carries at least the decimals the format promises *)
PrecisionOK(fmt, txt) ==
  LET toks == Lex(fmt.cls, txt)  nums == NumItems(fmt) IN
  Len(toks) = Len(nums) /\
  \A i \in 1..Len(nums) : LET p == ParseDec(toks[i]) IN p.ok => p.decimals >= DecimalsOf(nums[i])
LineOK(fmt, vs, txt) == TokensOK(fmt, txt) /\ ValuesOK(fmt, vs, txt)
(* a written zero is a value: a number that is 0, -0 or rounds to zero at the decimals of its format is a token of the  *)
(* line and reads back as zero (not as "absent") - the value class {0.0, -0.0, 1e-9 at <= 8 decimals} of the domain     *)
IsZeroAt(v, d) == Norm(RoundTo(v, d)).m = 0
ZerosKept(fmt, vs, txt) ==
  LET toks == Lex(fmt.cls, txt)  nums == NumItems(fmt) IN
  \A i \in 1..Len(nums) : IsZeroAt(vs[i], DecimalsOf(nums[i])) =>
      i <= Len(toks) /\ ParseDec(toks[i]).ok /\ ParseDec(toks[i]).v.m = 0

-----------------------------------------------------------------------------
(* model: values spanning the printable range *)
BigVals == {Dec(s, m, 2) : s \in BOOLEAN, m \in {0, 125, 99999950, 10000025, 123456775}}   \* ... 1234567.75
SmallVals == {Dec(s, m, 9) : s \in BOOLEAN, m \in {1, 123456789, 999999999, 31250000}}      \* 1e-9 ... 0.03125
FloatVals == BigVals \cup SmallVals
IntVals == {Dec(FALSE, m, 0) : m \in {0, 1, 7, 64, 1234, 54321}}
Base == Dec(FALSE, 125, 2)
BaseI == Dec(FALSE, 3, 0)

DomOf(it) == IF it.t = "F" THEN FloatVals ELSE IntVals
BaseOf(it) == IF it.t = "F" THEN Base ELSE BaseI
(* every field in turn takes every value of its domain while the others hold the base   *)
(* value, and all fields take the same value                                             *)
Tuples(fmt) ==
  LET nums == NumItems(fmt)  n == Len(nums) IN
  {[j \in 1..n |-> IF j = i THEN v ELSE BaseOf(nums[j])] : i \in 1..n, v \in FloatVals \cup IntVals} \cup
  {[j \in 1..n |-> v] : v \in FloatVals \cup IntVals}
WellTyped(fmt, vs) ==
  LET nums == NumItems(fmt) IN
  \A j \in 1..Len(nums) : vs[j] \in DomOf(nums[j]) /\ ~IsTie(vs[j], DecimalsOf(nums[j]))

Init == pc = "choose" /\ kind = "none" /\ vals = <<>> /\ tag = "" /\ text = ""

Choose ==
  /\ pc = "choose"
  /\ \E kd \in KindsToCheck : \E vs \in Tuples(Formats[kd]) :
        /\ WellTyped(Formats[kd], vs)
        /\ kind' = kd /\ vals' = vs /\ tag' = "a"
  /\ pc' = "render" /\ UNCHANGED text

Write ==
  /\ pc = "render"
  /\ text' = Render(Formats[kind], vals, tag)
  /\ pc' = "done" /\ UNCHANGED <<kind, vals, tag>>

Next == Choose \/ Write
Spec == Init /\ [][Next]_vars

InvTokens == pc = "done" => TokensOK(Formats[kind], text)
InvValues == pc = "done" => ValuesOK(Formats[kind], vals, text)
InvPrecision == pc = "done" => PrecisionOK(Formats[kind], text)
InvZerosKept == pc = "done" => ZerosKept(Formats[kind], vals, text)
(* fixed-point text never needs more columns than its field unless the value is large:   *)
(* informative, the separators make it harmless                                         *)
=============================================================================
