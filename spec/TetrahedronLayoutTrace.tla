---------------------- MODULE TetrahedronLayoutTrace ----------------------
(* C11: the public tetrahedron functions depend on the VALUES handed in, not *)
(* on how the arrays are laid out in memory.                                 *)
(* One event = 24 vertex-value tuples (central vertex first), a function     *)
(* (I or J), a frequency list ws, and the summed weight (1/6) SUM_24 returned *)
(* by the real code through every route x memory layout                      *)
(*   routes   get_tetrahedra_integration_weight with an array of frequencies *)
(*            (tetrahedra_integration_weight_at_omegas) and with one float   *)
(*            at a time; TetrahedronMethod(lang="C" / "Py")                  *)
(*            .set_tetrahedra_omegas + run                                   *)
(*   layouts  of the (24,4) vertex array: C-contiguous, Fortran-ordered,     *)
(*            transposed view, band slice of a (24,4,nb) array, strided      *)
(*            view, float32, nested lists; of the frequencies: contiguous,   *)
(*            strided view, reversed view, float32, list                     *)
(* val[route] is the list of results at ws (exact rationals).                *)
(* Step machine: Integrate (sum of the closed-form weights of the 24 rows;   *)
(* the definition's bounds are kept as a history variable).                  *)
(*   ImplLayoutIndependent  every route/layout returns the definition's      *)
(*                          value (so all of them are equal)                 *)
(*   ConformsLayout         ... and the machine's value                      *)
EXTENDS Tetrahedron

CONSTANT LEvents
VARIABLES lev, lpc, lsum, ldef
lvars == <<lev, lpc, lsum, ldef>>

LInit == Init /\ lev \in LEvents /\ lpc = "integrate" /\ lsum = <<>> /\ ldef = <<>>

RMinL(a, b) == IF RLe(a, b) THEN a ELSE b
RMaxL(a, b) == IF RLe(a, b) THEN b ELSE a
BoundsOf(f, tp, w) ==
  IF IsTie(tp, w)
  THEN LET l == DefW(f, tp, w, "L", 1) r == DefW(f, tp, w, "R", 1) IN <<RMinL(l, r), RMaxL(l, r)>>
  ELSE LET x == DefW(f, tp, w, "R", 1) IN <<x, x>>

LIntegrate ==
  /\ lpc = "integrate"
  /\ lsum' = [j \in 1..Len(lev.ws) |->
                RDivInt(RSumSeq([t \in 1..24 |-> AlgoWeight(lev.fn, lev.rows[t], lev.ws[j], TieRule)]), 6)]
  /\ ldef' = [j \in 1..Len(lev.ws) |->
                LET b == [t \in 1..24 |-> BoundsOf(lev.fn, lev.rows[t], lev.ws[j])] @@ <<>>
                IN <<RDivInt(RSumSeq([t \in 1..24 |-> b[t][1]]), 6), RDivInt(RSumSeq([t \in 1..24 |-> b[t][2]]), 6)>>]
  /\ lpc' = "done"
  /\ UNCHANGED lev /\ UNCHANGED vars

LNext == LIntegrate
LDone == lpc = "done"
Routes == DOMAIN lev.val

ImplLayoutExact == LDone => \A r \in Routes : \A j \in 1..Len(lev.ws) : lev.exact[r][j]
ImplLayoutIndependent ==
  LDone => \A r \in Routes : \A j \in 1..Len(lev.ws) : RBetween(ldef[j][1], lev.val[r][j], ldef[j][2])
(* stated directly: any two routes / layouts agree at every frequency *)
ImplLayoutsAgree ==
  LDone => \A r1, r2 \in Routes : \A j \in 1..Len(lev.ws) : lev.val[r1][j] = lev.val[r2][j]
(* the weights of a band above its top add up to one state per grid point: 24/4/6 = 1 *)
ImplAboveTop ==
  (LDone /\ lev.fn = "J") =>
     \A j \in 1..Len(lev.ws) :
        (\A t \in 1..24 : \A k \in 1..4 : lev.rows[t][k] < lev.ws[j]) => \A r \in Routes : lev.val[r][j] = ROne
ConformsLayout == LDone => \A r \in Routes : \A j \in 1..Len(lev.ws) : lev.val[r][j] = lsum[j]
=============================================================================
