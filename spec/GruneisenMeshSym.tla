--------------------------- MODULE GruneisenMeshSym ---------------------------
(* C12: "results on symmetry-reduced and full meshes agree" when the three   *)
(* cells handed to PhonopyGruneisen do not share their point group           *)
(* (phonopy/api_gruneisen.py: PhonopyGruneisen.set_mesh;                      *)
(* phonopy/gruneisen/mesh.py: GruneisenMesh -> get_qpoints(rotations=...)).  *)
(*                                                                           *)
(* The mode Grueneisen parameters are built from D(V0), D(V+), D(V-); as a   *)
(* function of q they are invariant under a rotation only if all three are.  *)
(* A symmetry-reduced mesh may therefore use the operations common to the    *)
(* three cells and no others.  Cells are a catalogue crystal with three      *)
(* integer Gram matrices (reference, plus, minus): a uniaxial or shear       *)
(* strain changes the metric, the reduced positions stay.  The point group   *)
(* of a cell is computed exactly (rotation parts of NACOps!AutFast).          *)
(* set_mesh must hand GruneisenMesh the operations common to the three       *)
(* Phonopy objects.  (The pinned tree takes `phonon.primitive_symmetry`      *)
(* after its loop over (reference, plus, minus), i.e. the MINUS cell's       *)
(* group: right whenever the minus cell has the lowest symmetry, wrong for   *)
(* e.g. a one-sided triple (V-, V0, V+) = (reference, reference, strained);  *)
(* fixes/c12-gruneisen-mesh-rotations.md.  ConformsUsed / ImplUsedIsCommon   *)
(* report it.)                                                               *)
EXTENDS NACOps

CONSTANTS Cases,      \* set of [id, entry, G0, Gp, Gm]
          Observed    \* set of [id, rotations, reducedEqualsFull, averagesAgree] recorded from the implementation

VARIABLES pc, cs, pg0, pgp, pgm, used
vars == <<pc, cs, pg0, pgp, pgm, used>>

PGof(c, G) == {p[1] : p \in AutFast([name |-> c.name, G |-> G, D |-> c.D, atoms |-> c.atoms])}

Init == pc = "cells" /\ cs \in Cases /\ pg0 = {} /\ pgp = {} /\ pgm = {} /\ used = {}

(* the three Phonopy objects: each finds the point group of its own cell *)
Groups ==
  /\ pc = "cells"
  /\ LET c == Strip(EntryOf(cs.entry)) IN
       /\ pg0' = PGof(c, cs.G0) /\ pgp' = PGof(c, cs.Gp) /\ pgm' = PGof(c, cs.Gm)
  /\ pc' = "groups"
  /\ UNCHANGED <<cs, used>>

(* PhonopyGruneisen.set_mesh(is_mesh_symmetry=True): rotations = the operations shared by the three objects *)
SetMesh ==
  /\ pc = "groups"
  /\ used' = pg0 \cap pgp \cap pgm
  /\ pc' = "mesh"
  /\ UNCHANGED <<cs, pg0, pgp, pgm>>

Next == Groups \/ SetMesh
Spec == Init /\ [][Next]_vars

Common == pg0 \cap pgp \cap pgm

(* the reduction uses only operations common to the three cells *)
ReqUsedIsCommon == pc = "mesh" => used \subseteq Common
(* hypothesis of the case table: the strained cells do lower (or keep) the symmetry of the reference *)
PreStrainedLower == pc = "groups" => pgp \subseteq pg0 /\ pgm \subseteq pg0

(* recorded from the implementation: the rotations handed to GruneisenMesh, and the comparison of the reduced  *)
(* with the full mesh as weighted multisets of (frequency, gamma) spectra and as weighted averages            *)
Mine(o) == o.id = cs.id
ImplUsedIsCommon == pc = "mesh" => \A o \in Observed : Mine(o) => o.rotations \subseteq Common
ConformsUsed == pc = "mesh" => \A o \in Observed : Mine(o) => o.rotations = used
ImplReducedEqualsFull == pc = "mesh" => \A o \in Observed : Mine(o) => (o.reducedEqualsFull /\ o.averagesAgree)
ObservedAll == pc = "mesh" => (Observed = {} \/ \E o \in Observed : Mine(o))
=============================================================================
