-------------------------- MODULE SymProcessTrace --------------------------
(* Recorded process histories.  An event is one real Python process that     *)
(* handled the crystals ev.seq[1].sys, ev.seq[2].sys, ... in that order      *)
(* (harness/c07_proc.py); for every crystal it carries `out', what the       *)
(* routines returned in that process, and `iso', what they returned in a     *)
(* process that handled this crystal only (same inputs).  The step machine   *)
(* follows the event with no memo.                                           *)
(*   ImplHistoryIndependent   out = iso, route by route (the requirement)    *)
(*   ConformsFresh            iso is the step machine's result               *)
(*   Discriminates            (self-check) a history announced as one on     *)
(*                            which a coarse memo shows really is one        *)
EXTENDS SymProcess

CONSTANT Events

VARIABLE ev

tvars == <<pvars, ev>>

TInit == pol = "none" /\ hist = <<>> /\ results = <<>> /\ verdict = {} /\ ev \in Events

WouldDiffer(py, h) ==
  \E i \in 1..Len(h) :
     LET k == h[i]
         m == OwnerOf(py, SubSeq(h, 1, i - 1), k)
     IN m # k /\ Differences(k, Result(WithTables(k, m), k), Result(SysTable[k], k)) # {}

TCall ==
  /\ Len(hist) < Len(ev.seq)
  /\ LET i == Len(hist) + 1
         k == ev.seq[i].sys
         fresh == Result(SysTable[k], k)
         d1 == Differences(k, ev.seq[i].out, ev.seq[i].iso)
         d2 == Differences(k, ev.seq[i].iso, fresh)
     IN /\ hist' = Append(hist, k)
        /\ pol' = pol
        /\ results' = Append(results, fresh)
        /\ verdict' = verdict
             \cup (IF d1 = {} THEN {} ELSE {"ImplHistoryIndependent"})
             \cup (IF d2 = {} THEN {} ELSE {"ConformsFresh"})
             \cup (IF ev.seq[i].out.exact /\ ev.seq[i].iso.exact THEN {} ELSE {"ImplExact"})
             \cup (IF i = Len(ev.seq) /\ ev.disc
                      /\ ~WouldDiffer("s2p_shape", [j \in 1..Len(ev.seq) |-> ev.seq[j].sys])
                      /\ ~WouldDiffer("natoms", [j \in 1..Len(ev.seq) |-> ev.seq[j].sys])
                    THEN {"Discriminates"} ELSE {})
  /\ UNCHANGED ev

TNext == TCall
TSpec == TInit /\ [][TNext]_tvars

ImplHistoryIndependent == "ImplHistoryIndependent" \notin verdict
ConformsFresh == "ConformsFresh" \notin verdict
ImplProjectionExact == "ImplExact" \notin verdict
Discriminates == "Discriminates" \notin verdict
=============================================================================
