-------------------------- MODULE IrrepsCatalogue --------------------------
(* X04: catalogue entries used by the irreducible-representation check.      *)
(* The entries of Catalogue.tla plus primitive cells of non-symmorphic space *)
(* groups (IrReps accepts primitive cells only):                             *)
(*   dia   - diamond, primitive rhombohedral cell of the F lattice, Fd-3m    *)
(*   rut   - rutile-like AB2, P4_2/mnm, six atoms                            *)
(*   zb    - zincblende, same cell, F-43m (symmorphic, Td)                    *)
(*   scx, hcpx - sc and hcp with generic spring shells                       *)
EXTENDS Catalogue

FccPrim == <<<<2,1,1>>,<<1,2,1>>,<<1,1,2>>>>

Diamond ==
  [name |-> "dia", G |-> FccPrim, D |-> 4, reach |-> 3,
   atoms |-> <<At(1, <<0,0,0>>, 12), At(1, <<1,1,1>>, 12)>>,
   springs |-> (<<1,1,12>> :> <<4,1>>) @@ (<<1,1,32>> :> <<1,1>>) @@ (<<1,1,44>> :> <<2,1>>)]

(* zincblende: same cell, two species; F-43m, symmorphic, Td *)
Zincblende ==
  [name |-> "zb", G |-> FccPrim, D |-> 4, reach |-> 3,
   atoms |-> <<At(1, <<0,0,0>>, 9), At(2, <<1,1,1>>, 16)>>,
   springs |-> (<<1,2,12>> :> <<4,1>>) @@ (<<1,1,32>> :> <<1,0>>) @@ (<<2,2,32>> :> <<2,1>>) @@ (<<1,2,44>> :> <<1,1>>)]

(* rutile-like AB2: cations at 0 and (1/2,1/2,1/2), anions at +-(u,u,0) and (1/2+-u, 1/2-+u, 1/2) with u = 1/3 (D = 6), *)
(* c^2/a^2 = 4/9; apical bonds l2 = 72, equatorial 54, anion pairs 72 and 126, cations along c 144 and along the diagonal 198 *)
(* (enough shells, with tangential constants, that no two different irreps share a frequency at the sampled q)              *)
Rutile ==
  [name |-> "rut", G |-> <<<<9,0,0>>,<<0,9,0>>,<<0,0,4>>>>, D |-> 6, reach |-> 2,
   atoms |-> <<At(1, <<0,0,0>>, 16), At(2, <<2,2,0>>, 9), At(1, <<3,3,3>>, 16), At(2, <<4,4,0>>, 9),
               At(2, <<5,1,3>>, 9), At(2, <<1,5,3>>, 9)>>,
   springs |-> (<<1,2,72>> :> <<5,1>>) @@ (<<1,2,54>> :> <<4,1>>) @@ (<<2,2,72>> :> <<1,1>>) @@ (<<1,1,144>> :> <<1,1>>)
               @@ (<<2,2,126>> :> <<2,1>>) @@ (<<1,1,198>> :> <<1,0>>)]

(* sc and hcp of Catalogue.tla with more shells and tangential constants: the plain entries have accidental degeneracies   *)
(* (different irreps at one frequency) off Gamma, which no statement about irreducibility can be tested on                *)
ScX ==
  [name |-> "scx", G |-> Cubic, D |-> 1, reach |-> 3,
   atoms |-> <<At(1, <<0,0,0>>, 4)>>,
   springs |-> (<<1,1,1>> :> <<5,1>>) @@ (<<1,1,2>> :> <<2,1>>) @@ (<<1,1,3>> :> <<1,2>>) @@ (<<1,1,4>> :> <<1,0>>)]
HcpX ==
  [name |-> "hcpx", G |-> Hexagonal(3), D |-> 6, reach |-> 3,
   atoms |-> <<At(1, <<0,0,0>>, 5), At(1, <<2,4,3>>, 5)>>,
   springs |-> (<<1,1,72>> :> <<3,1>>) @@ (<<1,1,51>> :> <<2,1>>) @@ (<<1,1,216>> :> <<1,1>>) @@ (<<1,1,108>> :> <<1,2>>)]

XEntries == Entries \o <<Diamond, Zincblende, Rutile, ScX, HcpX>>
XEntryByName(n) == XEntries[CHOOSE i \in 1..Len(XEntries) : XEntries[i].name = n]
XNames == {XEntries[i].name : i \in 1..Len(XEntries)}
=============================================================================
