---------------------------- MODULE CLIWorkflow ----------------------------
(* C18 - part 2: the workflow of the commands `phonopy` and `phonopy-load`   *)
(* (phonopy/cui/phonopy_script.py: main, _produce_force_constants,            *)
(* _store_force_constants, _post_process_force_constants, _run_calculation,   *)
(* _finalize_phonopy) as a step machine over                                 *)
(*   - the command,                                                          *)
(*   - the input files present in the working directory (abstract names),    *)
(*   - the settings in force (abstract record, projected from the settings   *)
(*     object whose construction is the subject of CLI.tla).                 *)
(* Every action appends the LIBRARY CALLS that the step stands for to        *)
(* `calls` and the files it writes to `out`.  The harness executes `calls`   *)
(* on the library and compares every file the real command wrote with the    *)
(* library's result (replay), and hands the observed status / files /        *)
(* verdicts back (CLIWorkflowTrace).                                         *)
(*                                                                          *)
(* Requirement (decided by TLC on every reachable state):                    *)
(*   WorkflowPreconditions  a phonon calculation runs only on force          *)
(*                          constants that exist; force constants are        *)
(*                          produced / read only from inputs that exist      *)
(*   OutputsComputed        an output file is written only by the step that  *)
(*                          computed it; the summary is written last and     *)
(*                          only by a run that succeeded                     *)
(*   CommandDefaults        fc solver: `phonopy-load` chooses symfc when     *)
(*                          symmetrisation is on and no solver is named,     *)
(*                          `phonopy` never does                            *)
(*   NacFactorRule          the NAC unit-conversion factor in force is the   *)
(*                          one given by the source of the NAC parameters    *)
(*                          (first line of BORN, or the phonopy-yaml file),  *)
(*                          else the default of the calculator OF THE LOADED *)
(*                          OBJECT (the yaml's calculator when the structure *)
(*                          comes from a yaml file) - never that of a        *)
(*                          calculator option that did not define the object *)
(*   AuxPreconditions       phonopy-qha / phonopy-calc-convert / the gnuplot  *)
(*                          data paths run only on inputs that exist and     *)
(*                          never overwrite an existing output               *)
(*   MeshModifiersForwarded GAMMA_CENTER / MP_SHIFT / MESH_SYMMETRY / the    *)
(*                          mesh numbers reach the mesh of EVERY consumer    *)
(*                          (mesh file, DOS, PDOS, thermal properties,       *)
(*                          projected ones, thermal displacements, matrices, *)
(*                          cif, moment), stored or iterated                 *)
(*   ModePrecedence         exactly one of thermal properties / thermal      *)
(*                          displacements / matrices / projected DOS / DOS   *)
(*                          / moment follows a mesh run                      *)
EXTENDS Naturals, Sequences, FiniteSets, TLC

CONSTANTS WCases,      \* set of [id, cmd, inp, s]
          Installed    \* fc solvers that can run in this environment

VARIABLES wc, pc, status, calls, out, fcsrc, nacsrc, cellsrc, nacfac
wvars == <<wc, pc, status, calls, out, fcsrc, nacsrc, cellsrc, nacfac>>

S == wc.s
Has(f) == f \in wc.inp
Load == wc.cmd = "load"
MainCmds == {"phonopy", "load"}
(* the other console scripts of phonopy/scripts that have a data path *)
AuxCmds == {"qha", "convert", "bandplot", "propplot", "vaspborn"}

(* --- decisions ----------------------------------------------------------- *)
(* fc solver named by the settings, else the command's default *)
Solver ==
  IF S.fccalc # "" THEN S.fccalc
  ELSE IF S.fcsym /\ Load THEN "symfc" ELSE "traditional"

FullFC == S.spg \/ S.fullfc

(* which sub-calculation follows a mesh run (first that applies) *)
SubMode ==
  IF S.tprop THEN "tprop"
  ELSE IF S.tdisp THEN "tdisp"
  ELSE IF S.tdm THEN "tdm"
  ELSE IF S.pdos THEN "pdos"
  ELSE IF S.dos THEN "dos"
  ELSE IF S.moment THEN "moment"
  ELSE "none"

MeshModes == {"mesh", "band_mesh"}
BandModes == {"band", "band_mesh"}
Call(name, arg) == [name |-> name, arg |-> arg]

(* --- machine --------------------------------------------------------------- *)
WInit == /\ wc \in WCases /\ pc = "start" /\ status = "running"
         /\ calls = <<>> /\ out = {} /\ fcsrc = "none" /\ nacsrc = "none" /\ cellsrc = "none"
         /\ nacfac = "none"

Fail(why) == /\ status' = "fail:" \o why /\ pc' = "exit"
             /\ UNCHANGED <<wc, calls, out, fcsrc, nacsrc, cellsrc, nacfac>>

(* -f / --fz : FORCE_SETS from phonopy_disp.yaml and calculator outputs; exits *)
CreateForceSets ==
  /\ pc = "start" /\ wc.cmd \in MainCmds /\ (S.fsets \/ S.fsz)
  /\ IF ~(Has("disp") \/ Has("yaml")) THEN Fail("no displacement file")
     ELSE IF ~Has("forcefiles") THEN Fail("no force files")
     ELSE /\ calls' = Append(calls, Call("create_force_sets", IF S.fsz THEN "zero" ELSE ""))
          /\ out' = {IF S.save_params THEN "phonopy_params.yaml" ELSE "FORCE_SETS"}
          /\ status' = "ok" /\ pc' = "exit"
          /\ UNCHANGED <<wc, fcsrc, nacsrc, cellsrc, nacfac>>

(* crystal structure: calculator file + DIM, else a phonopy-yaml file *)
CellInfo ==
  /\ pc = "start" /\ wc.cmd \in MainCmds /\ ~(S.fsets \/ S.fsz)
  /\ IF ~Load /\ Has("cell") /\ S.dim
     THEN /\ cellsrc' = "cell" /\ pc' = "nac" /\ UNCHANGED <<wc, status, calls, out, fcsrc, nacsrc, nacfac>>
     ELSE IF ~Load /\ Has("cell") /\ ~S.dim
     THEN Fail("no supercell matrix")
     ELSE IF Has("yaml") \/ Has("disp")
     THEN /\ cellsrc' = "yaml" /\ pc' = "nac" /\ UNCHANGED <<wc, status, calls, out, fcsrc, nacsrc, nacfac>>
     ELSE Fail("no crystal structure")

(* NAC parameters: the yaml file, else BORN; `phonopy --nac` requires them.     *)
(* Which calculator the loaded Phonopy object has: that of the phonopy-yaml     *)
(* file when the structure comes from one (and it records a calculator),       *)
(* otherwise the calculator option.  The unit-conversion factor comes from the *)
(* source of the parameters if it states one, else it is the default of the    *)
(* object's calculator.                                                        *)
ObjCalc == IF cellsrc = "yaml" /\ Has("yaml_calc") THEN "yaml" ELSE "option"
FactorOf(src) ==
  IF src = "yaml" /\ Has("yaml_nac_factor") THEN "yaml"
  ELSE IF src = "BORN" /\ Has("BORN_factor") THEN "BORN"
  ELSE "default:" \o ObjCalc
WantNac == S.nac \/ (S.disp /\ Has("BORN"))
SetNac(src) ==
  /\ nacsrc' = src /\ nacfac' = FactorOf(src)
  /\ calls' = Append(calls, Call("set_nac", src \o ":" \o FactorOf(src))) /\ pc' = "disp"
  /\ UNCHANGED <<wc, status, out, fcsrc, cellsrc>>
StoreNac ==
  /\ pc = "nac"
  /\ IF ~WantNac
     THEN /\ pc' = "disp" /\ UNCHANGED <<wc, status, calls, out, fcsrc, nacsrc, cellsrc, nacfac>>
     ELSE IF cellsrc = "yaml" /\ Has("yaml_nac") THEN SetNac("yaml")
     ELSE IF Has("BORN") THEN SetNac("BORN")
     ELSE IF Load
     THEN /\ pc' = "disp" /\ UNCHANGED <<wc, status, calls, out, fcsrc, nacsrc, cellsrc, nacfac>>
     ELSE Fail("no BORN")

(* -d : displacements, supercell files, phonopy_disp.yaml; exits *)
Displacements ==
  /\ pc = "disp"
  /\ IF S.disp
     THEN /\ calls' = Append(calls, Call("generate_displacements", ""))
          /\ out' = {"phonopy_disp.yaml", "SUPERCELLS"}
          /\ status' = "ok" /\ pc' = "exit"
          /\ UNCHANGED <<wc, fcsrc, nacsrc, cellsrc, nacfac>>
     ELSE /\ pc' = "fc" /\ UNCHANGED <<wc, status, calls, out, fcsrc, nacsrc, cellsrc, nacfac>>

(* force constants *)
DatasetSrc ==
  IF cellsrc = "yaml" /\ Has("yaml_fs") THEN "yaml_fs"
  ELSE IF Has("FORCE_SETS") THEN "FORCE_SETS" ELSE "none"

Produce(src) ==
  IF Solver \notin Installed THEN Fail("solver not installed")
  ELSE /\ fcsrc' = src
       /\ calls' = calls \o <<Call("set_dataset", src),
                              Call("produce_fc", IF FullFC THEN Solver \o ":full" ELSE Solver \o ":compact")>>
       /\ pc' = "post" /\ UNCHANGED <<wc, status, out, nacsrc, cellsrc, nacfac>>

ReadFC(src) ==
  /\ fcsrc' = src
  /\ calls' = Append(calls, Call("set_fc", IF FullFC THEN src \o ":full" ELSE src \o ":compact"))
  /\ pc' = "post" /\ UNCHANGED <<wc, status, out, nacsrc, cellsrc, nacfac>>

ForceConstants ==
  /\ pc = "fc"
  /\ IF Load
     THEN IF cellsrc = "yaml" /\ Has("yaml_fc") THEN ReadFC("yaml_fc")
          ELSE IF Has("FORCE_CONSTANTS") THEN ReadFC("FORCE_CONSTANTS")
          ELSE IF Has("force_constants.hdf5") THEN ReadFC("force_constants.hdf5")
          ELSE IF DatasetSrc # "none" THEN Produce(DatasetSrc)
          ELSE Fail("no force constants")
     ELSE IF S.readfc
          THEN IF S.rfmt_hdf5
               THEN IF Has("force_constants.hdf5") THEN ReadFC("force_constants.hdf5") ELSE Fail("no fc file")
               ELSE IF Has("FORCE_CONSTANTS") THEN ReadFC("FORCE_CONSTANTS") ELSE Fail("no fc file")
          ELSE IF DatasetSrc # "none" THEN Produce(DatasetSrc)
          ELSE Fail("no FORCE_SETS")

(* cutoff radius, space-group symmetrisation, symmetrisation, --writefc *)
PostCalls ==
  (IF S.cutoff THEN <<Call("cutoff_radius", "")>> ELSE <<>>)
  \o (IF S.spg THEN <<Call("symmetrize_spg", "")>> ELSE <<>>)
  \o (IF S.fcsym /\ Solver = "traditional" THEN <<Call("symmetrize_fc", "")>> ELSE <<>>)
PostOut ==
  (IF S.spg /\ ~Load THEN {"FORCE_CONSTANTS_SPG"} ELSE {})
  \cup (IF S.writefc THEN {IF S.wfmt_hdf5 THEN "force_constants.hdf5" ELSE "FORCE_CONSTANTS"} ELSE {})
PostProcess ==
  /\ pc = "post"
  /\ calls' = calls \o PostCalls
  /\ out' = out \cup PostOut
  /\ pc' = "run"
  /\ UNCHANGED <<wc, status, fcsrc, nacsrc, cellsrc, nacfac>>

(* phonon calculations *)
QCalls ==
  IF S.mode # "qpoints" THEN <<>>
  ELSE <<Call("run_qpoints", IF S.readq THEN "QPOINTS" ELSE "given")>>
QOut == IF S.mode # "qpoints" THEN {} ELSE {IF S.qp_hdf5 THEN "qpoints.hdf5" ELSE "qpoints.yaml"}
QFails == S.mode = "qpoints" /\ ((S.readq /\ ~Has("QPOINTS")) \/ (~S.readq /\ ~S.qgiven))

BCalls == IF S.mode \in BandModes THEN <<Call("run_band", "")>> ELSE <<>>
BOut == IF S.mode \in BandModes THEN {IF S.band_hdf5 THEN "band.hdf5" ELSE "band.yaml"} ELSE {}

IterMesh == S.tdisp \/ S.tdm   \* mesh is iterated, not stored nor written

(* Which calculation consumes the sampling mesh, and the mesh modifiers in force.  Every   *)
(* modifier applies to every consumer - also to the iterated mesh of the thermal           *)
(* displacement modes: the run_mesh call of the machine names them all, the replay passes  *)
(* them all to the library (GAMMA_CENTER, MP_SHIFT, MESH_SYMMETRY = .FALSE., the mesh      *)
(* numbers; FMIN/FMAX and CUTOFF_FREQUENCY go to the consumer's own call).                 *)
ConsumerS(s) ==
  IF s.mode \notin MeshModes THEN "none"
  ELSE IF s.tprop THEN (IF s.ptprop THEN "ptprop" ELSE "tprop")
  ELSE IF s.tdisp THEN "tdisp"
  ELSE IF s.tdm THEN (IF s.cif THEN "tdm_cif" ELSE "tdm")
  ELSE IF s.pdos THEN "pdos"
  ELSE IF s.dos THEN "dos"
  ELSE IF s.moment THEN "moment"
  ELSE "mesh"
GridModsS(s) == (IF s.gc THEN {"gc"} ELSE {}) \cup (IF s.shift THEN {"shift"} ELSE {})
                \cup (IF s.nomeshsym THEN {"nomeshsym"} ELSE {}) \cup {IF s.even THEN "even" ELSE "odd"}
ModsS(s) == GridModsS(s) \cup (IF s.frange \/ s.cutfreq THEN {"range"} ELSE {})
ModText(s) == (IF s.gc THEN ":gc" ELSE "") \o (IF s.shift THEN ":shift" ELSE "")
              \o (IF s.nomeshsym THEN ":nomeshsym" ELSE "") \o (IF s.even THEN ":even" ELSE ":odd")
MCalls ==
  IF S.mode \notin MeshModes THEN <<>>
  ELSE <<Call("run_mesh", (IF IterMesh THEN "iter" ELSE "store") \o ModText(S))>>
       \o (IF SubMode = "none" THEN <<>> ELSE <<Call("run_" \o SubMode, "")>>)
SubOut ==
  CASE SubMode = "tprop" -> {"thermal_properties.yaml"}
    [] SubMode = "tdisp" -> {"thermal_displacements.yaml"}
    [] SubMode = "tdm" -> {"thermal_displacement_matrices.yaml"} \cup (IF S.cif THEN {"tdispmat.cif"} ELSE {})
    [] SubMode = "pdos" -> {"projected_dos.dat"}
    [] SubMode = "dos" -> {"total_dos.dat"}
    [] OTHER -> {}
MOut ==
  IF S.mode \notin MeshModes THEN {}
  ELSE (IF S.wmesh /\ ~IterMesh THEN {IF S.mesh_hdf5 THEN "mesh.hdf5" ELSE "mesh.yaml"} ELSE {}) \cup SubOut

(* animation, modulation, irreducible representations: one library call, its own files *)
XCalls ==
  CASE S.mode = "anime" -> <<Call("run_anime", "")>>
    [] S.mode = "modulation" -> <<Call("run_modulation", "")>>
    [] S.mode = "irreps" -> <<Call("run_irreps", "")>>
    [] OTHER -> <<>>
XOut ==
  CASE S.mode = "anime" -> {"ANIME"}
    [] S.mode = "modulation" -> {"modulation.yaml", "MODULATED"}
    [] S.mode = "irreps" -> {"irreps.yaml"}
    [] OTHER -> {}

Run ==
  /\ pc = "run"
  /\ IF QFails THEN Fail("no q-points")
     ELSE /\ calls' = calls \o QCalls \o BCalls \o MCalls \o XCalls
          /\ out' = out \cup QOut \cup BOut \cup MOut \cup XOut
          /\ pc' = "final"
          /\ UNCHANGED <<wc, status, fcsrc, nacsrc, cellsrc, nacfac>>

(* summary *)
Finalize ==
  /\ pc = "final"
  /\ out' = out \cup {IF S.save_params THEN "phonopy_params.yaml" ELSE "phonopy.yaml"}
  /\ calls' = Append(calls, Call("summary", ""))
  /\ status' = "ok" /\ pc' = "exit"
  /\ UNCHANGED <<wc, fcsrc, nacsrc, cellsrc, nacfac>>

(* --- the other console scripts: one step each -------------------------------- *)
(* phonopy-qha: e-v.dat + one thermal_properties.yaml per volume -> PhonopyQHA   *)
(* phonopy-calc-convert: read_crystal_structure -> write_crystal_structure       *)
(* phonopy-bandplot --gnuplot, phonopy-propplot --gnuplot: the data files as text *)
(* phonopy-vasp-born --outcar: get_born_OUTCAR as BORN-file text                  *)
QhaFiles == {"helmholtz-volume.dat", "helmholtz-volume_fitted.dat", "volume-temperature.dat",
             "thermal_expansion.dat", "gibbs-temperature.dat", "bulk_modulus-temperature.dat",
             "Cp-temperature.dat", "Cp-temperature_polyfit.dat", "gruneisen-temperature.dat",
             "entropy-volume.dat", "Cv-volume.dat", "dsdv-temperature.dat"}
AuxDone(name, files) ==
  /\ calls' = <<Call(name, "")>> /\ out' = files /\ status' = "ok" /\ pc' = "exit"
  /\ UNCHANGED <<wc, fcsrc, nacsrc, cellsrc, nacfac>>
Aux ==
  /\ pc = "start" /\ wc.cmd \in AuxCmds
  /\ CASE wc.cmd = "qha" ->
          IF ~Has("e-v.dat") THEN Fail("no e-v data")
          ELSE IF S.bulk_only THEN AuxDone("qha_bulk_modulus", {"stdout"})
          ELSE IF ~Has("thermal_properties_set") THEN Fail("thermal properties do not match the e-v data")
          ELSE AuxDone("qha", QhaFiles)
       [] wc.cmd = "convert" ->
          IF ~S.calcs_ok THEN Fail("calculator not supported")
          ELSE IF ~Has("infile") THEN Fail("no input structure")
          ELSE IF Has("outfile") THEN Fail("output exists")
          ELSE AuxDone("convert", {"CONVERTED"})
       [] wc.cmd = "bandplot" ->
          IF ~Has(IF S.band_hdf5 THEN "band.hdf5" ELSE "band.yaml") THEN Fail("no band file")
          ELSE AuxDone("gnuplot_band", {"stdout"})
       [] wc.cmd = "vaspborn" ->   \* phonopy-vasp-born --outcar: BORN text from OUTCAR + POSCAR
          IF ~(Has("OUTCAR") /\ Has("POSCAR")) THEN Fail("no VASP output") ELSE AuxDone("vasp_born", {"stdout"})
       [] OTHER ->
          IF ~Has("thermal_properties.yaml") THEN Fail("no thermal properties")
          ELSE AuxDone("gnuplot_prop", {"stdout"})

WNext == Aux \/ CreateForceSets \/ CellInfo \/ StoreNac \/ Displacements \/ ForceConstants \/ PostProcess \/ Run \/ Finalize
WSpec == WInit /\ [][WNext]_wvars

(* --- requirement ------------------------------------------------------------- *)
Names == {calls[i].name : i \in 1..Len(calls)}
Index(n) == CHOOSE i \in 1..Len(calls) : calls[i].name = n
RunCalls == {"run_qpoints", "run_band", "run_mesh", "run_tprop", "run_tdisp", "run_tdm", "run_pdos", "run_dos",
             "run_moment", "run_anime", "run_modulation", "run_irreps"}
FcCalls == {"produce_fc", "set_fc"}

WorkflowPreconditions ==
  /\ \A i \in 1..Len(calls) : calls[i].name \in RunCalls =>
        \E j \in 1..(i - 1) : calls[j].name \in FcCalls
  /\ ("produce_fc" \in Names) => (fcsrc \in {"yaml_fs", "FORCE_SETS"} /\ Has(fcsrc) /\ Solver \in Installed)
  /\ ("set_fc" \in Names) => (fcsrc \in {"yaml_fc", "FORCE_CONSTANTS", "force_constants.hdf5"} /\ Has(fcsrc))
  /\ ("set_nac" \in Names) => (nacsrc = "yaml" /\ Has("yaml_nac")) \/ (nacsrc = "BORN" /\ Has("BORN"))
  /\ ("create_force_sets" \in Names) => Has("forcefiles")
  /\ (fcsrc \in {"yaml_fc", "yaml_fs"} \/ nacsrc = "yaml") => cellsrc = "yaml"

Needs(f) ==
  CASE f \in {"mesh.yaml", "mesh.hdf5"} -> "run_mesh"
    [] f \in {"band.yaml", "band.hdf5"} -> "run_band"
    [] f \in {"qpoints.yaml", "qpoints.hdf5"} -> "run_qpoints"
    [] f = "thermal_properties.yaml" -> "run_tprop"
    [] f = "thermal_displacements.yaml" -> "run_tdisp"
    [] f \in {"thermal_displacement_matrices.yaml", "tdispmat.cif"} -> "run_tdm"
    [] f = "projected_dos.dat" -> "run_pdos"
    [] f = "total_dos.dat" -> "run_dos"
    [] f = "ANIME" -> "run_anime"
    [] f \in {"modulation.yaml", "MODULATED"} -> "run_modulation"
    [] f = "irreps.yaml" -> "run_irreps"
    [] f \in {"FORCE_CONSTANTS", "force_constants.hdf5", "FORCE_CONSTANTS_SPG"} -> "fc"
    [] f \in {"phonopy_disp.yaml", "SUPERCELLS"} -> "generate_displacements"
    [] f = "FORCE_SETS" -> "create_force_sets"
    [] f = "phonopy.yaml" -> "summary"
    [] f \in QhaFiles -> "qha"
    [] f = "CONVERTED" -> "convert"
    [] OTHER -> "any"

OutputsComputed ==
  /\ \A f \in out : LET n == Needs(f) IN
        CASE n = "fc" -> Names \cap FcCalls # {}
          [] n = "any" -> Names # {}
          [] OTHER -> n \in Names
  /\ ("summary" \in Names) => (calls[Len(calls)].name = "summary" /\ status = "ok")
  /\ (pc = "exit" /\ status = "ok") => out # {}
  /\ (status # "ok" /\ pc = "exit") => ~("summary" \in Names)
  /\ (pc = "exit") => status # "running"

AuxPreconditions ==
  /\ ("qha" \in Names) => (Has("e-v.dat") /\ Has("thermal_properties_set") /\ out = QhaFiles)
  /\ ("convert" \in Names) => (Has("infile") /\ ~Has("outfile") /\ S.calcs_ok)
  /\ ("gnuplot_band" \in Names) => (Has("band.yaml") \/ Has("band.hdf5"))
  /\ ("gnuplot_prop" \in Names) => Has("thermal_properties.yaml")
  /\ ("vasp_born" \in Names) => (Has("OUTCAR") /\ Has("POSCAR"))
  /\ (wc.cmd \in AuxCmds) => (Len(calls) <= 1 /\ fcsrc = "none" /\ cellsrc = "none")
  /\ (wc.cmd \in MainCmds) => Names \cap {"qha", "qha_bulk_modulus", "convert", "gnuplot_band", "gnuplot_prop", "vasp_born"} = {}

NacFactorRule ==
  /\ (nacsrc = "none") <=> (nacfac = "none")
  /\ (nacfac = "BORN") => (nacsrc = "BORN" /\ Has("BORN_factor"))
  /\ (nacfac = "yaml") => (nacsrc = "yaml" /\ Has("yaml_nac_factor"))
  /\ (nacfac = "default:yaml") => (cellsrc = "yaml" /\ Has("yaml_calc"))
  /\ (nacfac = "default:option") => ~(cellsrc = "yaml" /\ Has("yaml_calc"))
  /\ (nacsrc = "BORN" /\ Has("BORN_factor")) => nacfac = "BORN"

CommandDefaults ==
  /\ (~Load /\ S.fccalc = "") => Solver = "traditional"
  /\ (Load /\ S.fccalc = "" /\ S.fcsym) => Solver = "symfc"
  /\ (S.fccalc # "") => Solver = S.fccalc
  /\ ("symmetrize_fc" \in Names) => (S.fcsym /\ Solver = "traditional")

(* the mesh call carries exactly the grid modifiers in force, whichever calculation consumes the mesh *)
MeshModifiersForwarded ==
  \A i \in 1..Len(calls) : calls[i].name = "run_mesh" =>
     calls[i].arg = (IF IterMesh THEN "iter" ELSE "store") \o ModText(S)

ConsumerIsSubMode ==
  (S.mode \in MeshModes) =>
     LET c == ConsumerS(S) IN
       /\ (c \in {"tprop", "ptprop"}) <=> (SubMode = "tprop")
       /\ (c \in {"tdm", "tdm_cif"}) <=> (SubMode = "tdm")
       /\ (c = "mesh") <=> (SubMode = "none")
       /\ (c \in {"tdisp", "pdos", "dos", "moment"}) => (SubMode = c)

SubCalls == {"run_tprop", "run_tdisp", "run_tdm", "run_pdos", "run_dos", "run_moment"}
ModePrecedence ==
  /\ Cardinality(Names \cap SubCalls) <= 1
  /\ (Names \cap SubCalls # {}) => "run_mesh" \in Names
  /\ ("run_tprop" \in Names) => S.tprop
  /\ ("run_tdisp" \in Names) => (S.tdisp /\ ~S.tprop)
  /\ ("run_tdm" \in Names) => (S.tdm /\ ~S.tprop /\ ~S.tdisp)
  /\ ("run_pdos" \in Names) => (S.pdos /\ ~S.tprop /\ ~S.tdisp /\ ~S.tdm)
  /\ ("run_dos" \in Names) => (S.dos /\ ~S.tprop /\ ~S.tdisp /\ ~S.tdm /\ ~S.pdos)
  /\ ("run_mesh" \in Names /\ (S.tprop \/ S.tdisp \/ S.tdm \/ S.pdos \/ S.dos \/ S.moment))
        => Names \cap SubCalls # {}
=============================================================================
