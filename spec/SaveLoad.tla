----------------------------- MODULE SaveLoad -----------------------------
(* C16: Phonopy.save() followed by phonopy.load() reproduces the calculation. *)
(*                                                                          *)
(* Abstract state.  The content of a Phonopy object is a record of FIELDS;   *)
(* what matters for this property is which fields exist, in which variant   *)
(* (dataset type 1/2, with forces, with energies; force constants full or   *)
(* compact; NAC with method / own unit factor; calculator) - the numbers    *)
(* travel through the text codecs (TextCodec.tla).  A loaded field is        *)
(* described by its SOURCE token: "yaml" (the saved file), an ambient file   *)
(* of the working directory ("FORCE_SETS", "FORCE_CONSTANTS", "hdf5",       *)
(* "BORN"), a file named by an argument ("fsfile", "fcfile", "bornfile"),   *)
(* an argument ("arg"), "produced" (force constants computed from the       *)
(* loaded dataset) or "none".                                               *)
(*                                                                          *)
(* One action per step of the code:                                         *)
(*   Choose      - pick object, save() settings, compression, load() args,  *)
(*                 ambient files                                            *)
(*   Save        - Phonopy.save: settings rule + PhonopyYamlDumper           *)
(*   ReadYaml    - PhonopyYaml.read (decompression + PhonopyYamlLoader)      *)
(*   Construct   - calculator / default units / Phonopy(...)                 *)
(*   SelectNAC   - load_helper.get_nac_params                               *)
(*   SelectDataset - load_helper.select_and_load_dataset                    *)
(*   SelectFC    - load_helper.select_and_extract_force_constants           *)
(*   Produce     - load_helper.produce_force_constants                      *)
(* The requirement (Req...) is stated on (object, settings, arguments,        *)
(* loaded record) from what the property and the documentation of save()    *)
(* promise, not from the steps; it is evaluated on the machine's result     *)
(* here and on the implementation's result in SaveLoadTrace.               *)
(*                                                                          *)
(* Options of the constructor that save() does NOT record (class             *)
(* "not persisted"): obj.np = [snf, tol, issym, dense, factor]                *)
(*   snf    use_SNF_supercell  - the ORDER of the supercell atoms; matters    *)
(*          for supercell matrices where the two constructions differ        *)
(*          (obj.cell.snfS).  The saved dataset and force constants are       *)
(*          indexed by that order, and the saved file contains the supercell. *)
(*   tol    symprec ("default" 1e-5 / "loose") - written as                   *)
(*          symmetry_tolerance; a primitive matrix found at the loose         *)
(*          tolerance (obj.cell.fragile) is not a symmetry at the default one *)
(*   issym  is_symmetry        - only force constants re-derived from a       *)
(*          dataset depend on it                                              *)
(*   dense  store_dense_svecs  - no observable effect                         *)
(*   factor frequency unit factor - written, never read; the property text    *)
(*          claims the same phonons "with that calculator's default unit     *)
(*          factor": an own factor rescales the reloaded frequencies by      *)
(*          default/own and nothing else (NotPersistedEffects)               *)
(* load() takes the same options as arguments (args.np).  The machine below  *)
(* describes the REPAIRED load (fixes/c16-snf-supercell-order.md,             *)
(* fixes/c16-symmetry-tolerance-not-read.md): the atom order of the saved     *)
(* supercell and the saved tolerance are honoured; PinnedLoad = TRUE gives    *)
(* the pinned tree's behaviour.                                               *)
(*                                                                          *)
(* Crystal structure by argument (args.cells, documented priority            *)
(* unitcell_filename > supercell_filename > unitcell > supercell >           *)
(* phonopy_yaml): the saved file is then not parsed; structure files are     *)
(* read with the reader of the calculator argument (args.fmt is the format   *)
(* the file is written in).                                                  *)
EXTENDS Integers, Sequences, FiniteSets, TLC

CONSTANTS
  Objs,       \* set of object records
  Sts,        \* set of settings records
  Comps,      \* subset of {"F", "T", "xz"}
  ArgsSet,    \* set of load-argument records
  Envs,       \* set of ambient-file records
  HasFcSolver, \* BOOLEAN: a solver for type-2 datasets (symfc/alm) is installed
  PinnedLoad   \* BOOLEAN: load() as in the pinned tree (saved supercell order and tolerance ignored)

VARIABLES pc, obj, st, comp, args, env, yaml, rd, ld
vars == <<pc, obj, st, comp, args, env, yaml, rd, ld>>

-----------------------------------------------------------------------------
(* vocabulary *)
NoDs  == [type |-> 0, forces |-> FALSE, energies |-> FALSE]
NoNacW == [born |-> FALSE, eps |-> FALSE, method |-> "none", factor |-> FALSE]
NoYaml == [container |-> "none", calc |-> "none", ds |-> NoDs, fc |-> "none", nac |-> NoNacW,
           tol |-> "default", order |-> "same", ffac |-> "default"]
NpObj0 == [snf |-> FALSE, tol |-> "default", issym |-> TRUE, dense |-> TRUE, factor |-> "default"]
NpArg0 == [snf |-> FALSE, tol |-> "unset", issym |-> TRUE, dense |-> TRUE, factor |-> "unset"]
NoCells == [ucfile |-> FALSE, scfile |-> FALSE, unitcell |-> FALSE, supercell |-> FALSE]
NoLd == [status |-> "none", why |-> "none", calc |-> "none", units |-> "none",
         cell |-> [src |-> "none", smat |-> "none"],
         np |-> [order |-> "same", tol |-> "default", issym |-> TRUE, freq |-> "default"],
         ds |-> [src |-> "none", type |-> 0, forces |-> FALSE, energies |-> FALSE],
         fc |-> [src |-> "none", layout |-> "none", sym |-> FALSE],
         nac |-> [src |-> "none", method |-> "none", factor |-> "none"]]

On(x) == x # "F"                 \* "unset" is the default True of the four switches
ForcesIn(d) == d.type # 0 /\ d.forces        \* structure/dataset.py forces_in_dataset
Method(kind) == IF kind \in {"gonze", "wang"} THEN kind ELSE "none"

-----------------------------------------------------------------------------
(* Save *)
(* Phonopy.save: {'force_constants': True} is added when the dataset has no  *)
(* forces and force constants exist, unless force_constants: False was given *)
FcSwitch(o, s) ==
  IF s.fc = "F" THEN FALSE
  ELSE IF ~ForcesIn(o.ds) /\ o.fc # "none" THEN TRUE
  ELSE s.fc = "T"

(* PhonopyYamlDumper._dataset_yaml_lines / _displacements_yaml_lines_*        *)
WrittenDs(o, s) ==
  IF o.ds.type # 0 /\ (On(s.fs) \/ On(s.disp))
    THEN [type |-> o.ds.type, forces |-> o.ds.forces /\ On(s.fs), energies |-> o.ds.energies]
    ELSE NoDs

(* _nac_yaml_lines_given_symbols *)
WrittenNac(o, s) ==
  IF o.nac.kind = "none" \/ (~On(s.born) /\ ~On(s.eps)) THEN NoNacW
  ELSE [born |-> On(s.born), eps |-> On(s.eps), method |-> Method(o.nac.kind), factor |-> o.nac.factor]

WrittenFc(o, s) == IF FcSwitch(o, s) THEN o.fc ELSE "none"

Container(c) == IF c \in {"T", "xz"} THEN "xz" ELSE "plain"

(* order of the supercell atoms of an object / of a construction flag: only supercell      *)
(* matrices of the sensitive kind distinguish the two constructions                       *)
Order(o, flag) == IF o.cell.snfS THEN (IF flag THEN "snf" ELSE "classic") ELSE "same"

(* crystal structure by argument: the documented priority list *)
CellSrc(a) == IF a.cells.ucfile THEN "ucfile" ELSE IF a.cells.scfile THEN "scfile"
              ELSE IF a.cells.unitcell THEN "unitcell" ELSE IF a.cells.supercell THEN "supercell" ELSE "yaml"
Reader(c) == IF c = "qe" THEN "qe" ELSE "vasp"     \* calculator None is the VASP reader
(* supercell matrix classes: "obj" (the object's) / "identity"; they coincide for cells whose matrix is the unit matrix *)
Smat(o, x) == IF o.cell.sid /\ x = "obj" THEN "identity" ELSE x

Init ==
  /\ pc = "choose"
  /\ obj = [cell |-> [name |-> "none", ext |-> FALSE, mag |-> "none", masses |-> "std", generic |-> FALSE, snfS |-> FALSE, fragile |-> FALSE, sid |-> TRUE, allIndep |-> FALSE],
            calc |-> "none", ds |-> NoDs, fc |-> "none", nac |-> [kind |-> "none", factor |-> FALSE], np |-> NpObj0]
  /\ st = [fs |-> "unset", disp |-> "unset", fc |-> "unset", born |-> "unset", eps |-> "unset"]
  /\ comp = "F"
  /\ args = [isCompact |-> TRUE, produceFc |-> TRUE, isNac |-> TRUE, nacArg |-> FALSE, bornFile |-> FALSE,
             fsFile |-> 0, fcFile |-> "none", calcArg |-> "none", cells |-> NoCells, fmt |-> "vasp", smatArg |-> FALSE,
             pmatArg |-> FALSE, np |-> NpArg0]
  /\ env = [FS |-> 0, FC |-> "none", H5 |-> "none", BORN |-> FALSE]
  /\ yaml = NoYaml /\ rd = NoYaml /\ ld = NoLd

Choose ==
  /\ pc = "choose"
  /\ \E o \in Objs, s \in Sts, c \in Comps, a \in ArgsSet, e \in Envs :
       obj' = o /\ st' = s /\ comp' = c /\ args' = a /\ env' = e
  /\ pc' = "save"
  /\ UNCHANGED <<yaml, rd, ld>>

Save ==
  /\ pc = "save"
  /\ yaml' = [container |-> Container(comp), calc |-> obj.calc, ds |-> WrittenDs(obj, st),
              fc |-> WrittenFc(obj, st), nac |-> WrittenNac(obj, st),
              tol |-> obj.np.tol, order |-> Order(obj, obj.np.snf), ffac |-> obj.np.factor]
  /\ pc' = "read"
  /\ UNCHANGED <<obj, st, comp, args, env, rd, ld>>

(* load_yaml chooses the decompressor from the file name that save() returned; *)
(* PhonopyYamlLoader: NAC parameters exist only if both tensors are there.     *)
(* cui/load.py: when the crystal structure is given by an argument (unitcell / supercell),    *)
(* the phonopy_yaml file is not read at all.                                                  *)
ReadYaml ==
  /\ pc = "read"
  /\ rd' = IF CellSrc(args) # "yaml" THEN [NoYaml EXCEPT !.container = yaml.container]
           ELSE [yaml EXCEPT !.nac = IF yaml.nac.born /\ yaml.nac.eps THEN yaml.nac ELSE NoNacW]
  /\ pc' = "construct"
  /\ UNCHANGED <<obj, st, comp, args, env, yaml, ld>>

(* cui/load.py: cell and matrices, calculator and its default units, Phonopy(...) *)
Construct ==
  /\ pc = "construct"
  /\ LET c == IF args.calcArg # "none" THEN args.calcArg ELSE rd.calc
         src == CellSrc(args)
         fromYaml == src = "yaml"
         (* a structure file is read with the reader of the calculator ARGUMENT *)
         misread == src \in {"ucfile", "scfile"} /\ Reader(args.calcArg) # args.fmt
         smat == IF fromYaml THEN "obj"
                 ELSE IF src \in {"scfile", "supercell"} THEN "identity"
                 ELSE IF args.smatArg THEN "obj" ELSE "identity"
         (* symmetry tolerance: the argument, else (repaired) the one recorded in the file *)
         tolEff == IF args.np.tol # "unset" THEN args.np.tol
                   ELSE IF fromYaml /\ ~PinnedLoad THEN rd.tol ELSE "default"
         (* the object's primitive matrix is used (from the file, or handed in again) *)
         objPmat == fromYaml \/ args.pmatArg
         broken == objPmat /\ obj.cell.fragile /\ obj.np.tol = "loose" /\ tolEff = "default"
         (* the two constructions differ only for the object's (sensitive) supercell matrix *)
         built == IF Smat(obj, smat) = "obj" THEN Order(obj, args.np.snf) ELSE "same"
         orderEff == IF fromYaml /\ ~PinnedLoad THEN rd.order ELSE built
     IN /\ pc' = (IF misread \/ broken THEN "done" ELSE "nac")
        /\ ld' = [ld EXCEPT !.status = IF misread \/ broken THEN "raised" ELSE "ok",
                         !.why = IF misread THEN "structure" ELSE IF broken THEN "symmetry" ELSE "none",
                         !.calc = c, !.units = c,
                         !.cell = [src |-> src, smat |-> Smat(obj, smat)],
                         !.np = [order |-> orderEff, tol |-> tolEff, issym |-> args.np.issym,
                                 freq |-> IF args.np.factor = "own" THEN "own" ELSE "default"]]
  /\ UNCHANGED <<obj, st, comp, args, env, yaml, rd>>

(* cui/load.py + load_helper.get_nac_params *)
SelectNAC ==
  /\ pc = "nac"
  /\ LET yamlNac == rd.nac.born /\ rd.nac.eps
         passed == IF args.nacArg THEN "arg" ELSE IF args.isNac /\ yamlNac THEN "yaml" ELSE "none"
         src == IF args.bornFile THEN "bornfile"
                ELSE IF passed # "none" THEN passed
                ELSE IF args.isNac /\ env.BORN THEN "BORN"
                ELSE "none"
     IN ld' = [ld EXCEPT !.nac =
                 [src |-> src,
                  method |-> IF src = "yaml" THEN rd.nac.method ELSE "none",
                  factor |-> IF src = "none" THEN "none"
                             ELSE IF src = "yaml" /\ rd.nac.factor THEN "own" ELSE "default"]]
  /\ pc' = "dataset"
  /\ UNCHANGED <<obj, st, comp, args, env, yaml, rd>>

SelectDataset ==
  /\ pc = "dataset"
  /\ ld' = [ld EXCEPT !.ds =
       IF ForcesIn(rd.ds) THEN [src |-> "yaml", type |-> rd.ds.type, forces |-> TRUE, energies |-> rd.ds.energies]
       ELSE IF args.fsFile # 0 THEN [src |-> "fsfile", type |-> args.fsFile, forces |-> TRUE, energies |-> FALSE]
       ELSE IF env.FS # 0 THEN [src |-> "FORCE_SETS", type |-> env.FS, forces |-> TRUE, energies |-> FALSE]
       ELSE IF rd.ds.type # 0 THEN [src |-> "yaml", type |-> rd.ds.type, forces |-> FALSE, energies |-> rd.ds.energies]
       ELSE [src |-> "none", type |-> 0, forces |-> FALSE, energies |-> FALSE]]
  /\ pc' = "fc"
  /\ UNCHANGED <<obj, st, comp, args, env, yaml, rd>>

Layout(a) == IF a.isCompact THEN "compact" ELSE "full"

SelectFC ==
  /\ pc = "fc"
  /\ LET src == IF rd.fc # "none" THEN "yaml"
                ELSE IF args.fcFile # "none" THEN "fcfile"
                ELSE IF env.FC # "none" THEN "FORCE_CONSTANTS"
                ELSE IF env.H5 # "none" THEN "hdf5"
                ELSE "none"
     IN ld' = [ld EXCEPT !.fc = [src |-> src, layout |-> IF src = "none" THEN "none" ELSE Layout(args), sym |-> FALSE]]
  /\ pc' = "produce"
  /\ UNCHANGED <<obj, st, comp, args, env, yaml, rd>>

(* a type-1 dataset made with the crystal symmetry displaces the symmetry-independent atoms only:   *)
(* where some primitive atom is the image of another (~allIndep) it cannot be solved with the       *)
(* symmetry switched off (is_symmetry=False handed to load())                                       *)
Unsolvable == ld.ds.type = 1 /\ obj.np.issym /\ ~ld.np.issym /\ ~obj.cell.allIndep
Produce ==
  /\ pc = "produce"
  /\ IF ld.fc.src = "none" /\ args.produceFc /\ ld.ds.forces
       THEN IF Unsolvable THEN ld' = [ld EXCEPT !.status = "raised", !.why = "dataset"]
            ELSE IF ld.ds.type = 2 /\ ~HasFcSolver
              THEN ld' = [ld EXCEPT !.status = "raised", !.why = "solver"]     \* ForceCalculatorRequiredError
              ELSE ld' = [ld EXCEPT !.fc = [src |-> "produced", layout |-> Layout(args), sym |-> TRUE]]
       ELSE ld' = ld
  /\ pc' = "done"
  /\ UNCHANGED <<obj, st, comp, args, env, yaml, rd>>

Next == Choose \/ Save \/ ReadYaml \/ Construct \/ SelectNAC \/ SelectDataset \/ SelectFC \/ Produce
Spec == Init /\ [][Next]_vars

-----------------------------------------------------------------------------
(* The requirement, on (object o, settings s, arguments a, ambient e, loaded r). *)
(* "Asked" predicates say what the caller of save() asked to be written, from    *)
(* the documentation of save(), not from the dumper.                            *)

AskedForces(o, s) == ForcesIn(o.ds) /\ On(s.fs)
AskedDisps(o, s)  == o.ds.type # 0 /\ (On(s.fs) \/ On(s.disp))
(* save() docstring: force constants are written on request, and by default when  *)
(* the dataset cannot reproduce them (no forces) unless explicitly refused         *)
AskedFc(o, s) == o.fc # "none" /\ (s.fc = "T" \/ (s.fc = "unset" /\ ~ForcesIn(o.ds)))
AskedNac(o, s) == o.nac.kind # "none" /\ On(s.born) /\ On(s.eps)

NoNacOverride(a) == ~a.nacArg /\ ~a.bornFile /\ a.isNac
(* the saved file is the source of the crystal structure (documented: otherwise it is not parsed) *)
FromFile(a) == CellSrc(a) = "yaml"

Ok(r) == r.status = "ok"

(* calculator and its default units *)
ReqCalculator(o, a, r) == Ok(r) /\ a.calcArg = "none" /\ FromFile(a) => r.calc = o.calc /\ r.units = o.calc
ReqUnitsFollowCalculator(r) == Ok(r) => r.units = r.calc

(* the dataset that was asked to be written comes back, same type, forces, energies *)
ReqDataset(o, s, a, r) ==
  Ok(r) /\ AskedForces(o, s) /\ FromFile(a) =>
    r.ds = [src |-> "yaml", type |-> o.ds.type, forces |-> TRUE, energies |-> o.ds.energies]

(* displacements only: they come back unless forces for them are supplied from elsewhere *)
ReqDisplacements(o, s, a, e, r) ==
  Ok(r) /\ AskedDisps(o, s) /\ ~AskedForces(o, s) /\ a.fsFile = 0 /\ e.FS = 0 /\ FromFile(a) =>
    r.ds = [src |-> "yaml", type |-> o.ds.type, forces |-> FALSE, energies |-> o.ds.energies]

(* force constants that were asked to be written come back, in the requested layout *)
ReqForceConstants(o, s, a, r) ==
  Ok(r) /\ AskedFc(o, s) /\ FromFile(a) => r.fc.src = "yaml" /\ r.fc.layout = Layout(a)

(* NAC parameters come back with their method and their own factor *)
ReqNac(o, s, a, r) ==
  Ok(r) /\ AskedNac(o, s) /\ NoNacOverride(a) /\ FromFile(a) =>
    r.nac = [src |-> "yaml", method |-> Method(o.nac.kind), factor |-> IF o.nac.factor THEN "own" ELSE "default"]

(* "hence the same phonons": whenever the saved file carries force data, the force    *)
(* constants of the reloaded object derive from the saved file and nothing else        *)
(* (when no other source of force constants is offered: which of them wins is a         *)
(* matter of the documented priority list, see DocOrder* below)                        *)
NoFcOffered(a, e) == a.fcFile = "none" /\ e.FC = "none" /\ e.H5 = "none"
ReqPhononsFromSaved(o, s, a, e, r) ==
  Ok(r) /\ FromFile(a) /\ (AskedFc(o, s) \/ (AskedForces(o, s) /\ a.produceFc /\ NoFcOffered(a, e))) =>
    \/ r.fc.src = "yaml"
    \/ r.fc.src = "produced" /\ r.ds.src = "yaml"
(* and when the saved file carries no force data and nothing else is offered, none appear *)
ReqNothingInvented(o, s, a, e, r) ==
  Ok(r) /\ ~AskedFc(o, s) /\ ~ForcesIn(o.ds) /\ NoFcOffered(a, e) /\ a.fsFile = 0 /\ e.FS = 0 /\ s.fc # "T" =>
    r.fc.src = "none"

(* a saved calculation with force constants and no forces never silently loses them *)
ReqSaveRule(o, s, y) ==
  (o.fc # "none" /\ ~ForcesIn(o.ds) /\ s.fc # "F") => y.fc = o.fc

(* what is in the saved file is never replaced by a file that happens to be in the directory *)
ReqNoAmbientCapture(o, s, a, r) ==
  FromFile(a) =>
    /\ r.ds.src = "FORCE_SETS" => ~AskedForces(o, s)
    /\ r.fc.src \in {"FORCE_CONSTANTS", "hdf5"} => ~AskedFc(o, s)
    /\ r.nac.src = "BORN" => ~AskedNac(o, s)
(* with the structure given by argument nothing of the saved file is used *)
ReqCellArgument(a, r) ==
  Ok(r) /\ ~FromFile(a) => r.ds.src # "yaml" /\ r.fc.src # "yaml" /\ r.nac.src # "yaml" /\ r.calc = a.calcArg

(* an explicit argument is never overridden by an ambient file *)
ReqExplicitBeatsAmbient(a, r) ==
  /\ r.ds.src = "FORCE_SETS" => a.fsFile = 0
  /\ r.fc.src \in {"FORCE_CONSTANTS", "hdf5"} => a.fcFile = "none"
  /\ r.nac.src = "BORN" => ~a.bornFile /\ ~a.nacArg

(* loading never fails on a file that save() wrote (a missing solver for type-2      *)
(* datasets is an environment matter and the only exception)                        *)
(* further exceptions: a structure file read with another calculator's reader, and a       *)
(* tolerance handed to load() that is tighter than the one the calculation was made with  *)
ReqLoads(o, a, r, solver) ==
  r.status = "raised" =>
    \/ r.why = "solver" /\ ~solver /\ r.ds.type = 2 /\ r.ds.forces /\ r.fc.src = "none"
    \/ r.why = "structure" /\ CellSrc(a) \in {"ucfile", "scfile"} /\ Reader(a.calcArg) # a.fmt
    \/ r.why = "symmetry" /\ o.cell.fragile /\ o.np.tol = "loose" /\ (a.np.tol = "default" \/ ~FromFile(a))
    \/ r.why = "dataset" /\ o.np.issym /\ ~a.np.issym /\ ~o.cell.allIndep /\ a.produceFc

(* ---- what save() does not record ---- *)
(* the saved dataset and force constants are indexed by the atoms of the saved supercell: *)
(* the reloaded supercell has them in that order, whatever use_SNF_supercell says          *)
ReqAtomOrder(o, a, r) == Ok(r) /\ FromFile(a) => r.np.order = Order(o, o.np.snf)
(* the tolerance the calculation was made with is recorded in the file and used, unless    *)
(* load() is told otherwise                                                               *)
ReqTolerance(o, a, r) == Ok(r) /\ FromFile(a) /\ a.np.tol = "unset" => r.np.tol = o.np.tol
(* repeating the constructor's options as arguments of load() reproduces all of them *)
SameOptions(o, a) == a.np.snf = o.np.snf /\ a.np.tol = o.np.tol /\ a.np.issym = o.np.issym
                     /\ (a.np.factor = "own") = (o.np.factor = "own")
ReqSameOptions(o, a, r) ==
  Ok(r) /\ FromFile(a) /\ SameOptions(o, a) =>
    r.np = [order |-> Order(o, o.np.snf), tol |-> o.np.tol, issym |-> o.np.issym, freq |-> o.np.factor]
(* NotPersistedEffects - declared, allowed differences of a default load():               *)
(*   factor: frequencies are rescaled by default/own (property: "with that calculator's   *)
(*           default unit factor"); issym: force constants re-derived from the dataset    *)
(*           are those of the symmetry setting of load(); dense: none.                    *)
PhononScale(o, r) == IF r.np.freq = o.np.factor THEN "same" ELSE IF r.np.freq = "default" THEN "default/own" ELSE "own/default"
DerivedFcComparable(o, r) == r.np.issym = o.np.issym
(* crystal structure arguments: the documented priority and matrices *)
ReqCellPriority(o, a, r) ==
  Ok(r) => /\ r.cell.src = CellSrc(a)
           /\ (r.cell.src \in {"scfile", "supercell"} => r.cell.smat = "identity")
           /\ (r.cell.src \in {"ucfile", "unitcell"} => r.cell.smat = Smat(o, IF a.smatArg THEN "obj" ELSE "identity"))
           /\ (r.cell.src = "yaml" => r.cell.smat = Smat(o, "obj"))

Requirement(o, s, a, e, y, r) ==
  /\ ReqCalculator(o, a, r) /\ ReqUnitsFollowCalculator(r)
  /\ ReqDataset(o, s, a, r) /\ ReqDisplacements(o, s, a, e, r)
  /\ ReqForceConstants(o, s, a, r) /\ ReqNac(o, s, a, r)
  /\ ReqPhononsFromSaved(o, s, a, e, r) /\ ReqNothingInvented(o, s, a, e, r) /\ ReqSaveRule(o, s, y)
  /\ ReqNoAmbientCapture(o, s, a, r) /\ ReqCellArgument(a, r) /\ ReqExplicitBeatsAmbient(a, r) /\ ReqLoads(o, a, r, HasFcSolver)
  /\ ReqAtomOrder(o, a, r) /\ ReqTolerance(o, a, r) /\ ReqSameOptions(o, a, r) /\ ReqCellPriority(o, a, r)

-----------------------------------------------------------------------------
(* invariants of the step machine *)
Done == pc = "done"
TypeOK == pc \in {"choose", "save", "read", "construct", "nac", "dataset", "fc", "produce", "done"}

InvCalculator == Done => ReqCalculator(obj, args, ld) /\ ReqUnitsFollowCalculator(ld)
InvDataset == Done => ReqDataset(obj, st, args, ld) /\ ReqDisplacements(obj, st, args, env, ld)
InvForceConstants == Done => ReqForceConstants(obj, st, args, ld)
InvNac == Done => ReqNac(obj, st, args, ld)
InvPhononsFromSaved == Done => ReqPhononsFromSaved(obj, st, args, env, ld) /\ ReqNothingInvented(obj, st, args, env, ld)
InvSaveRule == Done => ReqSaveRule(obj, st, yaml)
InvNoAmbientCapture == Done => ReqNoAmbientCapture(obj, st, args, ld) /\ ReqCellArgument(args, ld)
InvExplicitBeatsAmbient == Done => ReqExplicitBeatsAmbient(args, ld)
InvLoads == Done => ReqLoads(obj, args, ld, HasFcSolver)
InvAtomOrder == Done => ReqAtomOrder(obj, args, ld)
InvTolerance == Done => ReqTolerance(obj, args, ld)
InvSameOptions == Done => ReqSameOptions(obj, args, ld)
InvCellPriority == Done => ReqCellPriority(obj, args, ld)
(* the written file holds nothing the object does not have *)
InvWrittenSubset ==
  pc \notin {"choose", "save"} =>
    /\ yaml.ds.type \in {0, obj.ds.type} /\ (yaml.ds.forces => obj.ds.forces)
    /\ yaml.fc \in {"none", obj.fc}
    /\ (yaml.nac.born \/ yaml.nac.eps => obj.nac.kind # "none")

(* The order documented in the docstring of phonopy.load (force_constants_filename  *)
(* and force_sets_filename before the content of phonopy_yaml).  The code follows   *)
(* the other order; these two are NOT part of the requirement and are expected to   *)
(* be violated (DocDeviation, DESIGN 7/D16) - checked in a separate run.            *)
DocOrderFC == Done /\ Ok(ld) /\ args.fcFile # "none" => ld.fc.src = "fcfile"
DocOrderYamlForces == Done /\ Ok(ld) /\ AskedForces(obj, st) /\ ~AskedFc(obj, st) /\ args.fcFile = "none" /\ args.produceFc =>
                         ld.fc.src = "produced"     \* item 4 before items 5, 6 of the docstring
DocOrderFS == Done /\ Ok(ld) /\ args.fsFile # 0 /\ args.fcFile = "none" => ld.ds.src = "fsfile"
(* partial NAC (one of the two tensors switched off) is written but cannot be loaded *)
PartialNacLoadable == Done /\ Ok(ld) /\ (yaml.nac.born \/ yaml.nac.eps) /\ NoNacOverride(args) => ld.nac.src = "yaml"
=============================================================================
