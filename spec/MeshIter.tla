------------------------------ MODULE MeshIter ------------------------------
(* X01(b): the iteration protocol of phonopy/phonon/mesh.py, Mesh and        *)
(* IterMesh (__iter__, __next__ with the internal counter _q_count).         *)
(*                                                                           *)
(* Both classes are their own iterators over the n irreducible q-points of   *)
(* the same GridPoints: Mesh hands out stored results, IterMesh computes at  *)
(* every call.  The requirement is observational equivalence under ANY       *)
(* history of calls: the k-th yield of a pass is q-point k (its frequencies, *)
(* weight, q), a pass ends with StopIteration after exactly n yields and     *)
(* resets the counter, iter() returns the object itself without resetting.   *)
(*                                                                           *)
(* Spec -> code: TLC generates histories (simulation, or the whole graph for *)
(* small n) which the harness replays on a real Mesh and a real IterMesh.    *)
(* Code -> spec: a history with the observed results is one event of         *)
(* MeshIterTrace.                                                            *)
EXTENDS Integers, Sequences, TLC

CONSTANTS Ns,       \* numbers of q-points explored
          MaxCalls  \* bound on the history length

VARIABLES n, count, last, calls, yields
ivars == <<n, count, last, calls, yields>>

Stop == -1
NoneYet == -2

Init == n \in Ns /\ count = 0 /\ last = NoneYet /\ calls = 0 /\ yields = <<>>

(* __next__ *)
CallNext ==
  /\ calls < MaxCalls
  /\ IF count = n
       THEN /\ last' = Stop /\ count' = 0 /\ yields' = <<>>
       ELSE /\ last' = count /\ count' = count + 1 /\ yields' = Append(yields, count)
  /\ calls' = calls + 1
  /\ UNCHANGED n

(* __iter__: returns self; the counter is not touched *)
CallIter ==
  /\ calls < MaxCalls
  /\ last' = NoneYet
  /\ calls' = calls + 1
  /\ UNCHANGED <<n, count, yields>>

Next == CallNext \/ CallIter
Spec == Init /\ [][Next]_ivars

(* ---- requirement: a pass yields 0, 1, 2, ... in order, each q-point once, then stops ---------- *)
InvInOrder == \A k \in 1..Len(yields) : yields[k] = k - 1
InvCounter == count = Len(yields) /\ count \in 0..n
InvStopOnlyAfterAll == last = Stop => count = 0
(* every pass that ends has handed out exactly n points (action property) *)
PassComplete == [][(last' = Stop) => Len(yields) = n]_ivars
=============================================================================
