---------------------------- MODULE AngleSprings ----------------------------
(* A three-body ("angle") harmonic term added to the pair-spring model of   *)
(* Springs.tla.  Pair springs alone give SYMMETRIC 3x3 blocks with          *)
(* Phi(i,j) = Phi(j,i), so a solver that transposed a block or swapped the  *)
(* two atom indices would go unnoticed; the angle term makes the blocks of  *)
(* the reference crystal non-symmetric while keeping every hypothesis of    *)
(* C01 (harmonic; index-permutation symmetry, translational invariance and  *)
(* the full space group of the crystal hold by construction, and are        *)
(* re-checked on every supercell array by the Hyp invariants there).        *)
(*                                                                          *)
(* Potential.  For every atom i and every ORDERED pair (j, k), j # k, of    *)
(* neighbours of i whose bonds r1 = r_j - r_i, r2 = r_k - r_i belong to the  *)
(* `ns` shortest occurring shells of the pair-spring table:                 *)
(*     V += kappa(l1, l2, r1.r2) * (g1 . (u_j - u_i)) * (g2 . (u_k - u_i))    *)
(* with g = G r the covariant components of the bond and l = r^T G r.       *)
(* kappa depends on metric invariants and species only (so V is invariant  *)
(* under the space group of the crystal) and is NOT symmetric in (j, k).    *)
(* Hessian blocks H[x][y][al][be] = d2V / du_x,al du_y,be of one term:       *)
(*   H[j][k] = k g1 g2^T   H[k][j] = k g2 g1^T   H[i][i] = k (g1 g2^T + g2 g1^T) *)
(*   H[j][i] = -k g1 g2^T  H[i][j] = -k g2 g1^T                               *)
(*   H[k][i] = -k g2 g1^T  H[i][k] = -k g1 g2^T                               *)
(* Terms are records [a, b, t, r, T, src] as in Springs.tla (first atom in   *)
(* cell 0, T = D^2 Phi~), `src` keeps contributions of different triplets    *)
(* distinct until they are summed.                                          *)
EXTENDS Catalogue

(* metric invariants, species of the centre and of the FIRST end: not symmetric in the two ends *)
Kappa(l1, l2, dt, sc, s1) == 1 + ((l1 + 2 * l2 + dt) % 3) + 2 * (sc - 1) + (s1 - 1)

RECURSIVE SmallestK(_, _)
SmallestK(S, n) == IF n = 0 \/ S = {} THEN {} ELSE LET m == MinOf(S) IN {m} \cup SmallestK(S \ {m}, n - 1)

AngleTerms(c, pt, ns) ==
  LET shells == SmallestK({QForm(c.G, x.r) : x \in pt}, ns)
      bonds == {x \in pt : QForm(c.G, x.r) \in shells}
      pairs == {p \in bonds \X bonds : p[1].a = p[2].a /\ p[1] # p[2]}
      Seven(x, y) ==
        LET g1 == MatVec(c.G, x.r)
            g2 == MatVec(c.G, y.r)
            kp == Kappa(QForm(c.G, x.r), QForm(c.G, y.r), BForm(c.G, x.r, y.r), Sp(c, x.a), Sp(c, x.b))
            A == MScale(kp, Outer(g1, g2))      \* k g1 g2^T
            B == MScale(kp, Outer(g2, g1))      \* k g2 g1^T
            s == <<x.a, x.b, x.t, y.b, y.t>>
        IN  { [a |-> x.b, b |-> y.b, t |-> VSub(y.t, x.t), r |-> VSub(y.r, x.r), T |-> A, src |-> <<s, 1>>],
              [a |-> y.b, b |-> x.b, t |-> VSub(x.t, y.t), r |-> VSub(x.r, y.r), T |-> B, src |-> <<s, 2>>],
              [a |-> x.b, b |-> x.a, t |-> VNeg(x.t), r |-> VNeg(x.r), T |-> MNeg(A), src |-> <<s, 3>>],
              [a |-> x.a, b |-> x.b, t |-> x.t, r |-> x.r, T |-> MNeg(B), src |-> <<s, 4>>],
              [a |-> y.b, b |-> x.a, t |-> VNeg(y.t), r |-> VNeg(y.r), T |-> MNeg(B), src |-> <<s, 5>>],
              [a |-> x.a, b |-> y.b, t |-> y.t, r |-> y.r, T |-> MNeg(A), src |-> <<s, 6>>],
              [a |-> x.a, b |-> x.a, t |-> Zero3, r |-> Zero3, T |-> MAdd(A, B), src |-> <<s, 7>>] }
  IN  UNION {Seven(p[1], p[2]) : p \in pairs}

(* the pair-spring terms in the same record shape *)
Tagged(X) == {[a |-> x.a, b |-> x.b, t |-> x.t, r |-> x.r, T |-> x.T, src |-> <<>>] : x \in X}

(* sum the contributions to the same pair (a in cell 0, b in cell t); atom by atom to stay cheap *)
MergeTerms(c, X) ==
  UNION { LET Xa == {x \in X : x.a = a}
              K == {<<x.b, x.t>> : x \in Xa}
          IN  {[a |-> a, b |-> kk[1], t |-> kk[2],
                r |-> (CHOOSE x \in Xa : <<x.b, x.t>> = kk).r,
                T |-> SumT({x \in Xa : <<x.b, x.t>> = kk})] : kk \in K}
        : a \in 1..NAtoms(c) }

(* the harmonic models: "pair" = Springs.tla alone, "angleN" = plus angle terms on the N shortest shells *)
ModelTerms(c, model) ==
  LET ns == CASE model = "pair" -> 0 [] model = "angle1" -> 1 [] model = "angle2" -> 2 [] model = "angle3" -> 3
  IN  IF ns = 0 THEN AllTerms(c)
      ELSE MergeTerms(c, Tagged(AllTerms(c)) \cup AngleTerms(c, PairTerms(c), ns))
=============================================================================
