---------------------------- MODULE C01Catalogue ----------------------------
(* Reference crystals added for C01 (same record shape as Catalogue.tla):   *)
(*  - zincblende (F-43m, no inversion): with the angle term its second-     *)
(*    neighbour blocks have the classic non-symmetric form                  *)
(*    [[m, n, d], [n, m, d], [-d, -d, l]] in a CUBIC crystal;               *)
(*  - C-centred and A-centred orthorhombic, rhombohedral in the hexagonal   *)
(*    setting (R, obverse): for primitive_matrix 'C', 'A', 'R', 'auto';     *)
(*  - two antiferromagnets: species 1 / 2 are the up / down sublattices of  *)
(*    ONE chemical species; the spring table is symmetric under 1 <-> 2, so *)
(*    the harmonic model has exactly the symmetry of the magnetic space     *)
(*    group (operations that keep or globally flip the collinear moments).  *)
EXTENDS AngleSprings

ZnS ==
  [name |-> "zns", G |-> Cubic, D |-> 4, reach |-> 3,
   atoms |-> <<At(1, <<0,0,0>>, 64), At(2, <<1,1,1>>, 32), At(1, <<0,2,2>>, 64), At(2, <<1,3,3>>, 32),
               At(1, <<2,0,2>>, 64), At(2, <<3,1,3>>, 32), At(1, <<2,2,0>>, 64), At(2, <<3,3,1>>, 32)>>,
   springs |-> (<<1,2,3>> :> <<4,1>>) @@ (<<1,1,8>> :> <<1,0>>) @@ (<<2,2,8>> :> <<2,1>>)]

OrthoSprings == (<<1,2,6>> :> <<3,1>>) @@ (<<1,1,9>> :> <<2,0>>) @@ (<<2,2,9>> :> <<1,1>>)
                @@ (<<1,2,15>> :> <<1,0>>) @@ (<<1,1,16>> :> <<1,0>>)
OrthoC ==
  [name |-> "orthoc", G |-> <<<<4,0,0>>,<<0,5,0>>,<<0,0,6>>>>, D |-> 2, reach |-> 3,
   atoms |-> <<At(1, <<0,0,0>>, 16), At(2, <<0,0,1>>, 9), At(1, <<1,1,0>>, 16), At(2, <<1,1,1>>, 9)>>,
   springs |-> OrthoSprings]
OrthoA ==
  [name |-> "orthoa", G |-> <<<<6,0,0>>,<<0,4,0>>,<<0,0,5>>>>, D |-> 2, reach |-> 3,
   atoms |-> <<At(1, <<0,0,0>>, 16), At(1, <<0,1,1>>, 16), At(2, <<1,0,0>>, 9), At(2, <<1,1,1>>, 9)>>,
   springs |-> OrthoSprings]

RhombH ==
  [name |-> "rhomb", G |-> Hexagonal(4), D |-> 6, reach |-> 3,
   atoms |-> <<At(1, <<0,0,0>>, 25), At(2, <<0,0,3>>, 16), At(1, <<4,2,2>>, 25), At(2, <<4,2,5>>, 16),
               At(1, <<2,4,4>>, 25), At(2, <<2,4,1>>, 16)>>,
   springs |-> (<<1,2,28>> :> <<4,1>>) @@ (<<1,2,36>> :> <<1,0>>) @@ (<<1,1,40>> :> <<1,0>>) @@ (<<2,2,40>> :> <<2,1>>)]

BccAFM ==
  [name |-> "bccafm", G |-> Cubic, D |-> 2, reach |-> 3,
   atoms |-> <<At(1, <<0,0,0>>, 7), At(2, <<1,1,1>>, 7)>>,
   springs |-> (<<1,2,3>> :> <<3,1>>) @@ (<<1,1,4>> :> <<1,0>>) @@ (<<2,2,4>> :> <<1,0>>)]

ScAFM ==
  [name |-> "scafm", G |-> <<<<4,0,0>>,<<0,1,0>>,<<0,0,1>>>>, D |-> 2, reach |-> 3,
   atoms |-> <<At(1, <<0,0,0>>, 5), At(2, <<1,0,0>>, 5)>>,
   springs |-> (<<1,2,4>> :> <<5,1>>) @@ (<<1,1,4>> :> <<3,1>>) @@ (<<2,2,4>> :> <<3,1>>)
               @@ (<<1,2,8>> :> <<1,0>>) @@ (<<1,1,8>> :> <<2,0>>) @@ (<<2,2,8>> :> <<2,0>>)]

(* simple cubic with spring constants spread over six decades in ONE model (realised with the      *)
(* scale 1e-6: force constants from 1e-6 to 1)                                                     *)
ScWide ==
  [name |-> "scwide", G |-> Cubic, D |-> 1, reach |-> 3,
   atoms |-> <<At(1, <<0,0,0>>, 4)>>,
   springs |-> (<<1,1,1>> :> <<1000000, 1000>>) @@ (<<1,1,2>> :> <<1000, 0>>) @@ (<<1,1,3>> :> <<1, 0>>)]

MoreEntries == <<ZnS, OrthoC, OrthoA, RhombH, BccAFM, ScAFM, ScWide>>
EntryOf(n) ==
  IF n \in Names THEN EntryByName(n)
  ELSE MoreEntries[CHOOSE i \in 1..Len(MoreEntries) : MoreEntries[i].name = n]
=============================================================================
