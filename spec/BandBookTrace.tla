---------------------------- MODULE BandBookTrace ----------------------------
(* X07(b): observations of real BandStructure objects, their band.yaml and   *)
(* the bandplot reader (harness/x07_driver.py): [id, cs |-> case, ob |-> ..] *)
EXTENDS BandBook, Json
CONSTANT EventFile
VARIABLE ev
Events == LET raw == ndJsonDeserialize(EventFile) IN {raw[j] : j \in DOMAIN raw}
TInit == ev \in Events /\ InitWith(ev.cs)
TNext == Next /\ UNCHANGED ev
First == pc = "args" /\ code = CHOOSE k \in Codes : TRUE
(* events recorded through the command line (phonopy --band ...) carry only what band.yaml and the reader show: *)
(* ev.only lists the requirements that can be judged on them                                                  *)
Full == "only" \notin DOMAIN ev
Judged == IF Full THEN Names ELSE {ev.only[j] : j \in DOMAIN ev.only}
Failed == {n \in Judged : ~ Judge(ev.cs, ev.ob, n)}
ImplConn == First => Judge(ev.cs, ev.ob, "Conn")
ImplLabels == First => Judge(ev.cs, ev.ob, "Labels")
ImplIncrements == First => Judge(ev.cs, ev.ob, "Increments")
ImplContinuity == First => Judge(ev.cs, ev.ob, "Continuity")
ImplMonotone == First => Judge(ev.cs, ev.ob, "Monotone")
ImplAccumulated == First => Judge(ev.cs, ev.ob, "Accumulated")
ImplQpoints == First => Judge(ev.cs, ev.ob, "Qpoints")
ImplShapes == First => Judge(ev.cs, ev.ob, "Shapes")
ImplTuple == First => Judge(ev.cs, ev.ob, "Tuple")
ImplYamlCounts == First => Judge(ev.cs, ev.ob, "YamlCounts")
ImplYamlLabels == First => Judge(ev.cs, ev.ob, "YamlLabels")
ImplYamlValues == First => Judge(ev.cs, ev.ob, "YamlValues")
ImplReaderSegments == First => Judge(ev.cs, ev.ob, "ReaderSegments")
ImplReaderLabels == First => Judge(ev.cs, ev.ob, "ReaderLabels")
ImplReaderNoLabels == First => Judge(ev.cs, ev.ob, "ReaderNoLabels")
ImplReaderConn == First => Judge(ev.cs, ev.ob, "ReaderConn")
ImplScriptPanels == First => Judge(ev.cs, ev.ob, "ScriptPanels")
ImplScriptLegacy == First => Judge(ev.cs, ev.ob, "ScriptLegacy")
ReportReq == First => PrintT(ToString(<<"Q", ev.id, Failed>>))
Conf == /\ mconn = ev.ob.conn /\ mlabels = ev.ob.labels /\ minc = ev.ob.inc2
        /\ mpairs = ev.ob.y.labels
        /\ mrd.segn = ev.ob.rd.segn /\ mrd.conn = ev.ob.rd.conn /\ mrd.labels = ev.ob.rd.labels
Report == (Done /\ Full) => PrintT(ToString(<<"R", ev.id, code.lastPair, Conf>>))
=============================================================================
