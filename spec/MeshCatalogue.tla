--------------------------- MODULE MeshCatalogue ---------------------------
(* Additional reference crystals for C09 (mesh sampling).  The interesting   *)
(* reciprocal point groups are the ones given in a PRIMITIVE basis of a      *)
(* centred lattice (the basis phonopy works in): rotations are then not      *)
(* orthogonal matrices (R # R^-T), basis vectors are exchanged with a sign   *)
(* (a -> -b), or are general unimodular matrices.  Every entry is an         *)
(* integer crystal of Crystal.tla with a spring model of Springs.tla, so the *)
(* exact force-constant oracle (SpringsDump) is available for it.            *)
EXTENDS Catalogue

(* fcc, primitive rhombohedral cell (60 degrees); Oh in a non-orthogonal basis *)
FccP ==
  [name |-> "fccp", G |-> <<<<2,1,1>>,<<1,2,1>>,<<1,1,2>>>>, D |-> 1, reach |-> 3,
   atoms |-> <<At(1, <<0,0,0>>, 9)>>,
   springs |-> (<<1,1,2>> :> <<4,1>>) @@ (<<1,1,4>> :> <<1,0>>)]

(* bcc, primitive cell (109.47 degrees) *)
BccP ==
  [name |-> "bccp", G |-> <<<<3,-1,-1>>,<<-1,3,-1>>,<<-1,-1,3>>>>, D |-> 1, reach |-> 3,
   atoms |-> <<At(1, <<0,0,0>>, 7)>>,
   springs |-> (<<1,1,3>> :> <<3,1>>) @@ (<<1,1,4>> :> <<1,0>>)]

(* rhombohedral primitive cell, -3m: cyclic exchange a -> b -> c *)
RhP ==
  [name |-> "rhp", G |-> <<<<4,1,1>>,<<1,4,1>>,<<1,1,4>>>>, D |-> 1, reach |-> 3,
   atoms |-> <<At(1, <<0,0,0>>, 11)>>,
   springs |-> (<<1,1,4>> :> <<3,1>>) @@ (<<1,1,6>> :> <<1,0>>)]

(* C-centred orthorhombic lattice in its primitive basis a'=(a-b)/2, b'=(a+b)/2: *)
(* mmm with the exchange a' <-> b' and a' <-> -b'                                *)
OcP ==
  [name |-> "ocp", G |-> <<<<3,1,0>>,<<1,3,0>>,<<0,0,5>>>>, D |-> 1, reach |-> 3,
   atoms |-> <<At(1, <<0,0,0>>, 13)>>,
   springs |-> (<<1,1,3>> :> <<4,1>>) @@ (<<1,1,4>> :> <<2,0>>) @@ (<<1,1,5>> :> <<3,1>>) @@ (<<1,1,8>> :> <<1,0>>)]

(* C-centred monoclinic lattice in its primitive basis: 2/m = {1, -1, a'<->b', a'<->-b'} *)
McP ==
  [name |-> "mcp", G |-> <<<<3,1,1>>,<<1,3,1>>,<<1,1,5>>>>, D |-> 1, reach |-> 3,
   atoms |-> <<At(1, <<0,0,0>>, 13)>>,
   springs |-> (<<1,1,3>> :> <<4,1>>) @@ (<<1,1,4>> :> <<2,0>>) @@ (<<1,1,5>> :> <<3,1>>) @@ (<<1,1,6>> :> <<1,1>>)]

(* the same lattice with a second atom on the two-fold axis: point group 2 only *)
(* (no inversion, no mirror): {1, (a' -> -b', b' -> -a', c -> -c)}              *)
McP2 ==
  [name |-> "mcp2", G |-> <<<<3,1,1>>,<<1,3,1>>,<<1,1,5>>>>, D |-> 4, reach |-> 3,
   atoms |-> <<At(1, <<0,0,0>>, 13), At(2, <<1,3,0>>, 8)>>,
   springs |-> (<<1,1,48>> :> <<4,1>>) @@ (<<2,2,48>> :> <<2,0>>) @@ (<<1,2,4>> :> <<5,1>>) @@ (<<1,2,36>> :> <<2,1>>)
               @@ (<<1,1,64>> :> <<1,0>>) @@ (<<1,1,80>> :> <<2,1>>) @@ (<<2,2,80>> :> <<1,0>>)]

(* body-centred tetragonal (a^2 = 1, c^2 = 3 in units of 1/4), primitive cell *)
BctP ==
  [name |-> "bctp", G |-> <<<<5,1,-3>>,<<1,5,-3>>,<<-3,-3,5>>>>, D |-> 1, reach |-> 3,
   atoms |-> <<At(1, <<0,0,0>>, 10)>>,
   springs |-> (<<1,1,5>> :> <<3,1>>) @@ (<<1,1,4>> :> <<2,0>>) @@ (<<1,1,8>> :> <<1,1>>)]

(* simple orthorhombic, one atom: mmm, no equivalent axes *)
Ortho ==
  [name |-> "ortho", G |-> <<<<3,0,0>>,<<0,4,0>>,<<0,0,5>>>>, D |-> 1, reach |-> 3,
   atoms |-> <<At(1, <<0,0,0>>, 10)>>,
   springs |-> (<<1,1,3>> :> <<3,1>>) @@ (<<1,1,4>> :> <<2,1>>) @@ (<<1,1,5>> :> <<2,0>>) @@ (<<1,1,7>> :> <<1,0>>)]

MeshEntries == Entries \o <<FccP, BccP, RhP, OcP, McP, McP2, BctP, Ortho>>
MeshEntryByName(n) == MeshEntries[CHOOSE i \in 1..Len(MeshEntries) : MeshEntries[i].name = n]
MeshNames == {MeshEntries[i].name : i \in 1..Len(MeshEntries)}

(* ---- groups ---------------------------------------------------------------------- *)
GroupClosure(gens) ==
  LET RECURSIVE F(_)
      F(S) == LET T == S \cup {MatMul(a, b) : a \in S, b \in gens}
              IN IF T = S THEN S ELSE F(T)
  IN F({Id3} \cup gens)

IsGroup(H) ==
  /\ Id3 \in H
  /\ \A a \in H : Abs(Det(a)) = 1 /\ UniInv(a) \in H
  /\ \A a, b \in H : MatMul(a, b) \in H

=============================================================================
