---------------------------- MODULE Tetrahedron ----------------------------
(* C11, kernel level: the linear tetrahedron method of phonopy               *)
(*   c/tetrahedron_method.c  get_integration_weight / sort_omegas / _n _g _I _J *)
(*   phonopy/structure/tetrahedron_method.py  _get_integration_weight_py      *)
(* as a step machine over exact rationals, and the requirement stated from    *)
(* the DEFINITION of the method, not from its closed forms.                   *)
(*                                                                            *)
(* A tetrahedron carries a value v[i] on each of its four vertices; the       *)
(* interpolant is e(x) = SUM_i lambda_i(x) v[i] (barycentric coordinates).    *)
(* Vertex 1 is the "central" vertex (the grid point the weight belongs to).  *)
(* With the tetrahedron's volume normalised to 1 the definition is            *)
(*     J(w) = INT_{e(x) <= w} lambda_1(x) dx     (cumulative vertex weight)   *)
(*     I(w) = dJ/dw = INT_{e(x) = w} lambda_1 dS / |grad e|   (density)       *)
(* The requirement side evaluates these integrals geometrically: the region   *)
(* {e <= w} is cut into simplices whose corners are tetrahedron vertices and  *)
(* edge/level crossing points, the integral of a linear function over a       *)
(* simplex is volume x (mean over its corners), volumes are determinants of   *)
(* barycentric coordinates; the density uses the co-area formula              *)
(* area/|grad e| = 3 vol(apex, triangle)/|v[apex] - w|.                       *)
(* At a frequency that coincides with vertex values both one-sided values     *)
(* (partition of the vertices into {v < w} | {v >= w} and {v <= w} | {v > w}) *)
(* are computed; a value is acceptable iff it lies between them (J is         *)
(* continuous unless all four values coincide, I may jump).                   *)
(*                                                                            *)
(* Values and frequencies are integers here (the harness scales half-integer  *)
(* grids by 2); J is scale invariant and I is compared in the scaled unit.    *)
(*                                                                            *)
(* Step machine (one action per step of the code):                            *)
(*   Choose        input (function, vertex values, frequency)                 *)
(*   SortVertices  sort_omegas(): 5-comparator network that also tracks where *)
(*                 the central vertex ends up (ci)                            *)
(*   CaseSplit     which of the intervals the frequency falls in              *)
(*   Weight        IJ(kind, ci) * gn(kind): the closed forms                  *)
(* TieRule selects how a frequency equal to a vertex value is treated:        *)
(*   "open"   - the pinned code: strict inequalities everywhere, a frequency  *)
(*              equal to a vertex value matches NO case and contributes 0     *)
(*   "closed" - the repaired rule: w >= top -> full; intervals closed at the  *)
(*              upper end                                                     *)
EXTENDS TetRat

CONSTANTS
  Values,     \* set of integers: vertex values
  Omegas,     \* set of integers: frequencies
  Fns,        \* subset of {"I", "J"}
  TieRule     \* "open" | "closed"

VARIABLES pc, fn, verts, omega, srt, ci, kind, wt
vars == <<pc, fn, verts, omega, srt, ci, kind, wt>>

V4 == 1..4
Quarter == <<1, 4>>

-----------------------------------------------------------------------------
(* ------------------ the DEFINITION (requirement side) ------------------- *)

(* points in barycentric coordinates: integer numerators n over one          *)
(* denominator d, SUM n = d                                                   *)
PtE(a) == [n |-> [i \in V4 |-> IF i = a THEN 1 ELSE 0], d |-> 1]
(* the point of edge a-b where the interpolant equals w; needs v[a] < v[b]   *)
PtP(v, w, a, b) ==
  [n |-> [i \in V4 |-> IF i = a THEN v[b] - w ELSE IF i = b THEN w - v[a] ELSE 0],
   d |-> v[b] - v[a]]

D3(a, b, c, d, e, f, g, h, i) == a * (e * i - f * h) - b * (d * i - f * g) + c * (d * h - e * g)
ColsWithout == <<<<2, 3, 4>>, <<1, 3, 4>>, <<1, 2, 4>>, <<1, 2, 3>>>>
Minor4(M, j) ==
  LET c == ColsWithout[j]
  IN D3(M[2][c[1]], M[2][c[2]], M[2][c[3]],
        M[3][c[1]], M[3][c[2]], M[3][c[3]],
        M[4][c[1]], M[4][c[2]], M[4][c[3]])
Det4(M) == M[1][1] * Minor4(M, 1) - M[1][2] * Minor4(M, 2) + M[1][3] * Minor4(M, 3) - M[1][4] * Minor4(M, 4)

(* volume of the simplex with corners T[1..4] as a fraction of the tetrahedron *)
VolFrac(T) ==
  RMake(RAbs(Det4(<<T[1].n, T[2].n, T[3].n, T[4].n>>)), T[1].d * T[2].d * T[3].d * T[4].d)
Lambda(P, i) == RMake(P.n[i], P.d)
(* INT_T lambda_i = vol(T) * mean of lambda_i over the corners *)
SimplexMoment(T, i) ==
  RMul(VolFrac(T),
       RDivInt(RAdd(RAdd(Lambda(T[1], i), Lambda(T[2], i)), RAdd(Lambda(T[3], i), Lambda(T[4], i))), 4))

MinS(S) == CHOOSE x \in S : \A y \in S : x <= y
Ordered(S) ==   \* the elements of a set of integers as an increasing sequence
  LET RECURSIVE Ord(_)
      Ord(R) == IF R = {} THEN <<>> ELSE <<MinS(R)>> \o Ord(R \ {MinS(R)})
  IN Ord(S)

(* The region {e <= w} for the partition Lo | Hi (v[lo] <= w <= v[hi],        *)
(* v[lo] < v[hi] for every pair) as a list of simplices.                      *)
RegionBelow(v, w, Lo) ==
  LET lo == Ordered(Lo)
      hi == Ordered(V4 \ Lo)
      k == Cardinality(Lo)
  IN IF k = 1 THEN
       <<  <<PtE(lo[1]), PtP(v, w, lo[1], hi[1]), PtP(v, w, lo[1], hi[2]), PtP(v, w, lo[1], hi[3])>>  >>
     ELSE IF k = 2 THEN
       (* wedge with triangular ends (a1,a2,a3), (b1,b2,b3) and edges a_i b_i: *)
       (* staircase triangulation (a1,a2,a3,b3), (a1,a2,b2,b3), (a1,b1,b2,b3)  *)
       LET a1 == PtE(lo[1])  a2 == PtP(v, w, lo[1], hi[1])  a3 == PtP(v, w, lo[1], hi[2])
           b1 == PtE(lo[2])  b2 == PtP(v, w, lo[2], hi[1])  b3 == PtP(v, w, lo[2], hi[2])
       IN << <<a1, a2, a3, b3>>, <<a1, a2, b2, b3>>, <<a1, b1, b2, b3>> >>
     ELSE <<>>   \* k = 0: empty;  k = 3, 4 are handled through the complement
(* the complement {e >= w} for k = 3: one simplex at the top vertex *)
RegionAbove3(v, w, Lo) ==
  LET lo == Ordered(Lo)
      hi == Ordered(V4 \ Lo)
  IN <<PtE(hi[1]), PtP(v, w, lo[1], hi[1]), PtP(v, w, lo[2], hi[1]), PtP(v, w, lo[3], hi[1])>>

RECURSIVE SumMoments(_, _)
SumMoments(Ts, i) == IF Ts = <<>> THEN RZero ELSE RAdd(SimplexMoment(Ts[1], i), SumMoments(Tail(Ts), i))
RECURSIVE SumVols(_)
SumVols(Ts) == IF Ts = <<>> THEN RZero ELSE RAdd(VolFrac(Ts[1]), SumVols(Tail(Ts)))

(* INT_{e <= w} lambda_i for the partition Lo | Hi *)
DefJPart(v, w, Lo, i) ==
  LET k == Cardinality(Lo)
  IN IF k = 0 THEN RZero
     ELSE IF k = 4 THEN Quarter
     ELSE IF k = 3 THEN RSub(Quarter, SimplexMoment(RegionAbove3(v, w, Lo), i))
     ELSE SumMoments(RegionBelow(v, w, Lo), i)
(* volume fraction of {e <= w} *)
DefNPart(v, w, Lo) ==
  LET k == Cardinality(Lo)
  IN IF k = 0 THEN RZero
     ELSE IF k = 4 THEN ROne
     ELSE IF k = 3 THEN RSub(ROne, VolFrac(RegionAbove3(v, w, Lo)))
     ELSE SumVols(RegionBelow(v, w, Lo))

(* the level set {e = w} as a list of triangles *)
LevelSet(v, w, Lo) ==
  LET lo == Ordered(Lo)
      hi == Ordered(V4 \ Lo)
      k == Cardinality(Lo)
  IN IF k = 1 THEN << <<PtP(v, w, lo[1], hi[1]), PtP(v, w, lo[1], hi[2]), PtP(v, w, lo[1], hi[3])>> >>
     ELSE IF k = 3 THEN << <<PtP(v, w, lo[1], hi[1]), PtP(v, w, lo[2], hi[1]), PtP(v, w, lo[3], hi[1])>> >>
     ELSE IF k = 2 THEN
       LET p13 == PtP(v, w, lo[1], hi[1])  p14 == PtP(v, w, lo[1], hi[2])
           p23 == PtP(v, w, lo[2], hi[1])  p24 == PtP(v, w, lo[2], hi[2])
       IN << <<p13, p14, p24>>, <<p13, p24, p23>> >>
     ELSE <<>>

(* co-area: INT_{triangle} f dS/|grad e| = 3 vol(apex, triangle)/|v[apex]-w| * mean f *)
TriangleDensity(tr, x, dist) == RDivInt(RScale(3, VolFrac(<<PtE(x), tr[1], tr[2], tr[3]>>)), dist)
TriangleMoment(tr, x, dist, i) ==
  RMul(TriangleDensity(tr, x, dist),
       RDivInt(RAdd(Lambda(tr[1], i), RAdd(Lambda(tr[2], i), Lambda(tr[3], i))), 3))
(* the apex: a vertex strictly off the level; side "R" has every Hi vertex above w, *)
(* side "L" has every Lo vertex below w                                             *)
Apex(v, w, Lo, side) == IF side = "R" THEN MinS(V4 \ Lo) ELSE MinS(Lo)

RECURSIVE SumTriMoments(_, _, _, _)
SumTriMoments(trs, x, dist, i) ==
  IF trs = <<>> THEN RZero ELSE RAdd(TriangleMoment(trs[1], x, dist, i), SumTriMoments(Tail(trs), x, dist, i))
RECURSIVE SumTriDens(_, _, _)
SumTriDens(trs, x, dist) ==
  IF trs = <<>> THEN RZero ELSE RAdd(TriangleDensity(trs[1], x, dist), SumTriDens(Tail(trs), x, dist))

DefIPart(v, w, Lo, side, i) ==
  LET k == Cardinality(Lo)
  IN IF k = 0 \/ k = 4 THEN RZero
     ELSE LET x == Apex(v, w, Lo, side) IN SumTriMoments(LevelSet(v, w, Lo), x, RAbs(v[x] - w), i)
DefGPart(v, w, Lo, side) ==
  LET k == Cardinality(Lo)
  IN IF k = 0 \/ k = 4 THEN RZero
     ELSE LET x == Apex(v, w, Lo, side) IN SumTriDens(LevelSet(v, w, Lo), x, RAbs(v[x] - w))

LoSet(v, w, side) == IF side = "R" THEN {j \in V4 : v[j] <= w} ELSE {j \in V4 : v[j] < w}

(* one-sided values of the weight of vertex i, and of the totals n(w), g(w) *)
DefW(f, v, w, side, i) ==
  IF f = "J" THEN DefJPart(v, w, LoSet(v, w, side), i) ELSE DefIPart(v, w, LoSet(v, w, side), side, i)
DefTotal(f, v, w, side) ==
  IF f = "J" THEN DefNPart(v, w, LoSet(v, w, side)) ELSE DefGPart(v, w, LoSet(v, w, side), side)

IsTie(v, w) == \E j \in V4 : v[j] = w

(* THE REQUIREMENT on a value x claimed to be the weight of the central vertex *)
(* (off a tie the two one-sided partitions coincide: one evaluation)             *)
ReqWeight(f, v, w, x) ==
  IF IsTie(v, w) THEN RBetween(DefW(f, v, w, "L", 1), x, DefW(f, v, w, "R", 1))
  ELSE x = DefW(f, v, w, "R", 1)
ReqTotal(f, v, w, x) ==
  IF IsTie(v, w) THEN RBetween(DefTotal(f, v, w, "L"), x, DefTotal(f, v, w, "R"))
  ELSE x = DefTotal(f, v, w, "R")

-----------------------------------------------------------------------------
(* ------------------ the ALGORITHM (code side) ---------------------------- *)

(* sort_omegas(): returns the sorted values and the 0-based position ci of   *)
(* the value that was first (the central vertex)                              *)
SortNet(v) ==
  LET sw1 == v[1] > v[2]
      w0 == IF sw1 THEN v[2] ELSE v[1]
      w1 == IF sw1 THEN v[1] ELSE v[2]
      i0 == IF sw1 THEN 1 ELSE 0
      sw2 == v[3] > v[4]
      w2 == IF sw2 THEN v[4] ELSE v[3]
      w3 == IF sw2 THEN v[3] ELSE v[4]
      sw3 == w0 > w2
      a0 == IF sw3 THEN w2 ELSE w0
      a1 == IF sw3 THEN w0 ELSE w2
      i1 == IF sw3 /\ i0 = 0 THEN 4 ELSE i0
      sw4 == w1 > w3
      a3 == IF sw4 THEN w1 ELSE w3
      a2 == IF sw4 THEN w3 ELSE w1
      i2 == IF i1 = 1 THEN (IF sw4 THEN 3 ELSE 5) ELSE i1
      sw5 == a1 > a2
      b1 == IF sw5 THEN a2 ELSE a1
      b2 == IF sw5 THEN a1 ELSE a2
      i3 == IF sw5 THEN (IF i2 = 4 THEN 2 ELSE IF i2 = 5 THEN 1 ELSE i2)
                   ELSE (IF i2 = 4 THEN 1 ELSE IF i2 = 5 THEN 2 ELSE i2)
  IN [s |-> <<a0, b1, b2, a3>>, ci |-> i3]

(* kinds 0..4 as in the code, 5 = no case matches (contributes nothing) *)
CaseOf(s, w, rule) ==
  IF rule = "open" THEN
    IF w < s[1] THEN 0
    ELSE IF s[1] < w /\ w < s[2] THEN 1
    ELSE IF s[2] < w /\ w < s[3] THEN 2
    ELSE IF s[3] < w /\ w < s[4] THEN 3
    ELSE IF s[4] < w THEN 4
    ELSE 5
  ELSE
    IF w < s[1] THEN 0
    ELSE IF s[4] <= w THEN 4
    ELSE IF s[1] < w /\ w <= s[2] THEN 1
    ELSE IF s[2] < w /\ w <= s[3] THEN 2
    ELSE IF s[3] < w THEN 3
    ELSE 5

(* the closed forms; s sorted, indices 0-based as in the code: F(n, m) = _f(n, m) *)
ClosedForm(f, s, w, c, kd) ==
  LET F(n, m) == RMake(w - s[m + 1], s[n + 1] - s[m + 1])
      M2(a, b) == RMul(a, b)
      M3(a, b, cc) == RMul(a, RMul(b, cc))
      M4(a, b, cc, d) == RMul(RMul(a, b), RMul(cc, d))
      A2(a, b) == RAdd(a, b)
      A3(a, b, cc) == RAdd(a, RAdd(b, cc))
      A4(a, b, cc, d) == RAdd(RAdd(a, b), RAdd(cc, d))
      span == s[4] - s[1]
      n1 == M3(F(1, 0), F(2, 0), F(3, 0))
      n2 == A3(M2(F(3, 1), F(2, 1)), M3(F(3, 0), F(1, 3), F(2, 1)), M3(F(3, 0), F(2, 0), F(1, 2)))
      n3 == RSub(ROne, M3(F(0, 3), F(1, 3), F(2, 3)))
      g1 == RDivInt(RScale(3, M2(F(1, 0), F(2, 0))), span)
      gg == A2(M2(F(1, 2), F(2, 0)), M2(F(2, 1), F(1, 3)))
      g2 == RMul(RMake(3, span), gg)
      g3 == RDivInt(RScale(3, M2(F(1, 3), F(2, 3))), span)
      J1 == IF c = 0 THEN RDivInt(A4(ROne, F(0, 1), F(0, 2), F(0, 3)), 4)
            ELSE RDivInt(F(c, 0), 4)
      J2top ==
        IF c = 0 THEN
          A3(M2(F(3, 1), F(2, 1)),
             M4(F(3, 0), F(1, 3), F(2, 1), A2(ROne, F(0, 3))),
             M4(F(3, 0), F(2, 0), F(1, 2), A3(ROne, F(0, 3), F(0, 2))))
        ELSE IF c = 1 THEN
          A3(M3(F(3, 1), F(2, 1), A3(ROne, F(1, 3), F(1, 2))),
             M4(F(3, 0), F(1, 3), F(2, 1), A2(F(1, 3), F(1, 2))),
             M4(F(3, 0), F(2, 0), F(1, 2), F(1, 2)))
        ELSE IF c = 2 THEN
          A3(M3(F(3, 1), F(2, 1), F(2, 1)),
             M4(F(3, 0), F(1, 3), F(2, 1), F(2, 1)),
             M4(F(3, 0), F(2, 0), F(1, 2), A2(F(2, 1), F(2, 0))))
        ELSE
          A3(M3(F(3, 1), F(2, 1), F(3, 1)),
             M4(F(3, 0), F(1, 3), F(2, 1), A2(F(3, 1), F(3, 0))),
             M4(F(3, 0), F(2, 0), F(1, 2), F(3, 0)))
      J2 == RDiv(RDivInt(J2top, 4), n2)
      J3top ==
        IF c = 3 THEN RSub(ROne, M4(F(0, 3), F(1, 3), F(2, 3), A4(ROne, F(3, 0), F(3, 1), F(3, 2))))
        ELSE RSub(ROne, M4(F(0, 3), F(1, 3), F(2, 3), F(c, 3)))
      J3 == RDiv(RDivInt(J3top, 4), n3)
      I1 == IF c = 0 THEN RDivInt(A3(F(0, 1), F(0, 2), F(0, 3)), 3) ELSE RDivInt(F(c, 0), 3)
      I2 ==
        IF c = 0 THEN RDivInt(A2(F(0, 3), RDiv(M3(F(0, 2), F(2, 0), F(1, 2)), gg)), 3)
        ELSE IF c = 1 THEN RDivInt(A2(F(1, 2), RDiv(M3(F(1, 3), F(1, 3), F(2, 1)), gg)), 3)
        ELSE IF c = 2 THEN RDivInt(A2(F(2, 1), RDiv(M3(F(2, 0), F(2, 0), F(1, 2)), gg)), 3)
        ELSE RDivInt(A2(F(3, 0), RDiv(M3(F(3, 1), F(1, 3), F(2, 1)), gg)), 3)
      I3 == IF c = 3 THEN RDivInt(A3(F(3, 0), F(3, 1), F(3, 2)), 3) ELSE RDivInt(F(c, 3), 3)
  IN IF kd = 0 \/ kd = 5 THEN RZero
     ELSE IF f = "J" THEN
       (IF kd = 1 THEN RMul(J1, n1) ELSE IF kd = 2 THEN RMul(J2, n2)
        ELSE IF kd = 3 THEN RMul(J3, n3) ELSE Quarter)
     ELSE
       (IF kd = 1 THEN RMul(I1, g1) ELSE IF kd = 2 THEN RMul(I2, g2)
        ELSE IF kd = 3 THEN RMul(I3, g3) ELSE RZero)

(* the whole algorithm as a function (used by invariants that compare several *)
(* frequencies or several central vertices)                                    *)
AlgoWeight(f, v, w, rule) ==
  LET r == SortNet(v) IN ClosedForm(f, r.s, w, r.ci, CaseOf(r.s, w, rule))

(* vertex i made central *)
Central(v, i) == IF i = 1 THEN v
                 ELSE [j \in V4 |-> IF j = 1 THEN v[i] ELSE IF j = i THEN v[1] ELSE v[j]]

-----------------------------------------------------------------------------
Init ==
  /\ pc = "choose" /\ fn = "J" /\ verts = <<0, 0, 0, 0>> /\ omega = 0
  /\ srt = <<0, 0, 0, 0>> /\ ci = 0 /\ kind = 0 /\ wt = RZero

Choose ==
  /\ pc = "choose"
  /\ \E f \in Fns, a \in Values, b \in Values, c \in Values, d \in Values, w \in Omegas :
       /\ fn' = f /\ verts' = <<a, b, c, d>> /\ omega' = w
  /\ pc' = "sort"
  /\ UNCHANGED <<srt, ci, kind, wt>>

SortVertices ==
  /\ pc = "sort"
  /\ LET r == SortNet(verts) IN srt' = r.s /\ ci' = r.ci
  /\ pc' = "case"
  /\ UNCHANGED <<fn, verts, omega, kind, wt>>

CaseSplit ==
  /\ pc = "case"
  /\ kind' = CaseOf(srt, omega, TieRule)
  /\ pc' = "weight"
  /\ UNCHANGED <<fn, verts, omega, srt, ci, wt>>

Weight ==
  /\ pc = "weight"
  /\ wt' = ClosedForm(fn, srt, omega, ci, kind)
  /\ pc' = "done"
  /\ UNCHANGED <<fn, verts, omega, srt, ci, kind>>

Next == Choose \/ SortVertices \/ CaseSplit \/ Weight
Spec == Init /\ [][Next]_vars

-----------------------------------------------------------------------------
(* ------------------ invariants ------------------------------------------- *)
Done == pc = "done"

TypeOK == pc \in {"choose", "sort", "case", "weight", "done"} /\ IsRat(wt) /\ kind \in 0..5 /\ ci \in 0..3

(* sort_omegas is a sort that knows where the central vertex went *)
InvSortContract ==
  pc \in {"case", "weight", "done"} =>
    /\ \A j \in 1..3 : srt[j] <= srt[j + 1]
    /\ \A x \in Values : Cardinality({j \in V4 : srt[j] = x}) = Cardinality({j \in V4 : verts[j] = x})
    /\ srt[ci + 1] = verts[1]

(* the closed forms compute the integrals of the definition *)
InvWeightIsDefinition == Done => ReqWeight(fn, verts, omega, wt)
(* the same, restricted to frequencies that coincide with no vertex value *)
InvWeightIsDefinitionOffTie == (Done /\ ~IsTie(verts, omega)) => ReqWeight(fn, verts, omega, wt)

InvRange ==
  Done => /\ RLe(RZero, wt)
          /\ fn = "J" => RLe(wt, Quarter)

InvBelowAbove ==
  Done => /\ (\A j \in V4 : omega < verts[j]) => wt = RZero
          /\ (\A j \in V4 : omega > verts[j]) => wt = (IF fn = "J" THEN Quarter ELSE RZero)

(* the four vertex weights add up to the volume fraction n(w) / its density g(w) *)
InvSumRule ==
  Done =>
    ReqTotal(fn, verts, omega,
             RSumSeq([i \in V4 |-> AlgoWeight(fn, Central(verts, i), omega, TieRule)]))
(* ... and n(w) lies in [0, 1], equals 1 above the top *)
InvVolumeFraction ==
  Done => LET n == DefTotal("J", verts, omega, "R")
          IN /\ RLe(RZero, n) /\ RLe(n, ROne)
             /\ (\A j \in V4 : omega >= verts[j]) => n = ROne

(* cumulative weight is non-decreasing in the frequency (from each frequency  *)
(* of the grid to the next one; every frequency of the grid is visited)        *)
InvMonotone ==
  (Done /\ fn = "J" /\ (omega + 1) \in Omegas) => RLe(wt, AlgoWeight("J", verts, omega + 1, TieRule))

(* J is continuous unless all four values coincide *)
InvDefContinuous ==
  (Done /\ fn = "J" /\ ~(\A j \in V4 : verts[j] = verts[1])) =>
     DefW("J", verts, omega, "L", 1) = DefW("J", verts, omega, "R", 1)

(* the vertex weights of equal-valued vertices are equal (the definition is   *)
(* symmetric): whatever position a sort gives to the central vertex among ties *)
(* must not matter                                                             *)
InvTieBreakIrrelevant ==
  Done => \A c \in 0..3 : srt[c + 1] = verts[1] => ClosedForm(fn, srt, omega, c, kind) = wt

(* the density is the derivative of the cumulative weight: on an interval     *)
(* [a, a+2] with no vertex value strictly inside, J is a cubic and I a        *)
(* quadratic, so Simpson's rule is exact:                                      *)
(*   J((a+2)-) - J(a+) = (2/6) (I(a+) + 4 I(a+1) + I((a+2)-))                 *)
InvFundamental ==
  (Done /\ fn = "J" /\ (omega + 2) \in Omegas /\ (\A j \in V4 : verts[j] # omega + 1)) =>
     RSub(DefW("J", verts, omega + 2, "L", 1), DefW("J", verts, omega, "R", 1)) =
       RDivInt(RAdd(RAdd(DefW("I", verts, omega, "R", 1), RScale(4, DefW("I", verts, omega + 1, "R", 1))),
                    DefW("I", verts, omega + 2, "L", 1)), 3)
=============================================================================
