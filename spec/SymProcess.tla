----------------------------- MODULE SymProcess -----------------------------
(* C07, process history: one Python process handles several crystals, one    *)
(* after the other.  The requirement is per object: what a routine returns   *)
(* depends on (this crystal's tables, this array) only - every call must     *)
(* give what a fresh process gives.                                          *)
(*                                                                          *)
(* A module-level memo of derived tables (s2pp / nsym_list of               *)
(* get_nsym_list_and_s2pp, the map_atoms / map_syms of the expansion, the    *)
(* space-group operations with their atom permutations) is modelled by a     *)
(* key policy: a call on crystal k uses the DERIVED tables of the first      *)
(* crystal in the history with the same key (its own if there is none); the  *)
(* raw tables (perms, p2s, s2p) and the array are always its own.            *)
(*   "none"       no memo                                                    *)
(*   "contents"   key = all raw tables: harmless, HistoryIndependent holds   *)
(*   "s2p_shape"  key = (s2p_map, shape of the permutation table)            *)
(*   "natoms"     key = (np, ns)                                             *)
(* TLC enumerates every ordered sequence (no repetition, up to MaxLen) of    *)
(* the crystals in ProcSystems.  With a coarse policy the violations of      *)
(* HistoryIndependent are exactly the histories on which such a memo would   *)
(* show: they are the behaviours the harness replays, each in one real       *)
(* process, and compares with every crystal's result in isolation            *)
(* (SymProcessTrace.tla).                                                    *)
EXTENDS SymOps

CONSTANTS
  ProcSystems,  \* set of system keys handled by the process
  Inputs,       \* key -> [c |-> compact array, f |-> full array]  (integers)
  Policies,     \* memo key policies explored (the process has one of them)
  MaxLen

VARIABLES pol, hist, results, verdict

pvars == <<pol, hist, results, verdict>>

HasCompact(k) == Systems[k].np # Systems[k].ns
HasSG(k) == "ops" \in DOMAIN Systems[k]
RoutesOf(k) == (IF HasCompact(k) THEN {"sym", "symapi", "transpose", "drift", "expand", "tocompact"} ELSE {})
               \cup (IF HasSG(k) THEN {"sg"} ELSE {})

KeyOf(py, k) ==
  LET s == Systems[k]
  IN CASE py = "none" -> <<k>>
       [] py = "contents" -> <<s.perms, s.p2s, s.s2p, IF HasSG(k) THEN s.ops ELSE <<>> >>
       [] py = "s2p_shape" -> <<s.s2p, Len(s.perms), s.ns>>
       [] py = "natoms" -> <<s.np, s.ns>>

(* whose derived tables a call on k uses after history h *)
OwnerOf(py, h, k) ==
  LET hit(i) == KeyOf(py, h[i]) = KeyOf(py, k)
  IN IF \E i \in 1..Len(h) : hit(i)
       THEN h[CHOOSE i \in 1..Len(h) : hit(i) /\ \A j \in 1..(i - 1) : ~hit(j)]
       ELSE k

WithTables(k, m) ==
  IF m = k THEN SysTable[k]
  ELSE LET b == [SysTable[k] EXCEPT !.s2pp = SysTable[m].s2pp, !.nsym = SysTable[m].nsym,
                                    !.mapsym = SysTable[m].mapsym, !.mapatom = SysTable[m].mapatom,
                                    !.ops = SysTable[m].ops]
       IN [b EXCEPT !.sig = TransposeSigma(b)]

XC(k) == Norm(Inputs[k].c)
XF(k) == Norm(Inputs[k].f)

(* everything the compact-layout routes and the space-group route return for crystal k, *)
(* computed with tables T                                                               *)
ArrOf(T, k, r) ==
  CASE r = "sym" -> Run(T, "compact", 1, XC(k))        \* symmetrize_compact_force_constants
    [] r = "symapi" -> Run(T, "compact", 1, XC(k))     \* Phonopy.symmetrize_force_constants on compact fc
    [] r = "transpose" -> TransposeC(T, XC(k))         \* phonoc.transpose_compact_fc
    [] r = "drift" -> TransposeC(T, TransposeC(T, XC(k)))   \* array after show_drift_force_constants
    [] r = "expand" -> Expand(T, XC(k))                \* compact_fc_to_full_fc
    [] r = "tocompact" -> ToCompact(T, XF(k))          \* full_fc_to_compact_fc
    [] r = "sg" -> SGAverage(T, XF(k))                 \* symmetrize_force_constants_by_space_group

Result(T, k) ==
  [arr |-> [r \in RoutesOf(k) |-> ArrOf(T, k, r)],
   shown |-> IF HasCompact(k) THEN DriftShown(T, XC(k)) ELSE 0,
   tables |-> [s2pp |-> T.s2pp, nsym |-> T.nsym]]

Differences(k, got, want) ==
  {r \in RoutesOf(k) : ~SameArr(got.arr[r], want.arr[r])}
  \cup (IF got.shown = want.shown THEN {} ELSE {"shown"})
  \cup (IF got.tables = want.tables THEN {} ELSE {"tables"})

PInit == pol \in Policies /\ hist = <<>> /\ results = <<>> /\ verdict = {}

Call(k) ==
  /\ Len(hist) < MaxLen
  /\ \A i \in 1..Len(hist) : hist[i] # k
  (* crystals of different sizes cannot meet under any of the modelled keys *)
  /\ hist # <<>> => KeyOf("natoms", hist[1]) = KeyOf("natoms", k)
  /\ hist' = Append(hist, k)
  /\ pol' = pol
  /\ LET got == Result(WithTables(k, OwnerOf(pol, hist, k)), k)
     IN /\ results' = Append(results, got)
        /\ verdict' = Differences(k, got, Result(SysTable[k], k))

PNext == \E k \in ProcSystems : Call(k)

PSpec == PInit /\ [][PNext]_pvars

(* every call returns what a fresh process returns: required of a process without memo *)
(* and of one whose memo is keyed on the full contents of the raw tables               *)
HistoryIndependent == pol \in {"none", "contents"} => verdict = {}
(* NOT a requirement: its violations are the histories on which a coarse memo shows   *)
(* (the generator of the behaviours to replay)                                        *)
CoarseMemoInvisible == pol \in {"s2p_shape", "natoms"} => verdict = {}
=============================================================================
