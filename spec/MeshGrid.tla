------------------------------ MODULE MeshGrid ------------------------------
(* Uniform q-point sampling meshes of phonopy and their reduction by the     *)
(* reciprocal point group (phonopy/structure/grid_points.py: GridPoints,     *)
(* extract_ir_grid_points, length2mesh; phonopy/phonon/mesh.py: MeshBase;    *)
(* Phonopy.init_mesh) as a step machine, and what property C09 requires of   *)
(* the result.                                                               *)
(*                                                                           *)
(* Exact arithmetic.  A configuration c has mesh numbers m, a shift          *)
(* sn/sd (numerators over one denominator), flags, and the real-space point  *)
(* group `rots` (integer matrices, x' = R x).  A sampled q-point             *)
(*     q_k = (g_k + total shift_k) / m_k                                     *)
(* is represented by the integer vector  X = q * Q  modulo  Q,               *)
(*     Q = 2 sd m1 m2 m3,                                                    *)
(* so that q == q' (mod reciprocal lattice) iff X == X' (mod Q), and a       *)
(* reciprocal operation R* = R^-T acts as X -> R* X exactly, whatever the    *)
(* mesh numbers (no assumption that R* maps the grid into itself).           *)
(*                                                                           *)
(* REQUIREMENT side (operators Req...): from the definition of the requested *)
(* grid and the group action only.                                           *)
(* MACHINE side: one action per step of the code;                            *)
(* the machine describes the REPAIRED code (Variant = "repaired") or the     *)
(* pinned code (Variant = "pinned"); they differ in three places, marked     *)
(* [D10], [D11a], [D11b].                                                    *)
EXTENDS IntLinAlg

CONSTANTS Configs,    \* set of configuration records explored by the model run
          GroupTable, \* group name -> set of real-space rotations (states stay small)
          Variant     \* "repaired" | "pinned"

VARIABLES pc, cfg, group, eff, isShift, hasSym, map, ir, weights
vars == <<pc, cfg, group, eff, isShift, hasSym, map, ir, weights>>

(* A configuration:                                                          *)
(*   level  "grid"  (a direct GridPoints(...) call) | "api" (Phonopy.init_mesh) *)
(*   len    TRUE when the mesh was given as a length; then `mesh` holds      *)
(*          rint(|a*_k| * length), the real-valued primitive evaluated by    *)
(*          the harness; at the "api" level gamma-centring is then forced    *)
(*   mesh, sn, sd, gamma, tr, sym                                            *)
(*   grp    name of the real-space point group handed over (GroupTable)      *)

None == <<>>
(* the group of the chosen configuration is looked up once (Start) and kept in the   *)
(* variable group: TLC would re-evaluate the whole table at every reference otherwise *)
Rots(c) == group
NPts(m) == m[1] * m[2] * m[3]
(* spglib's address <-> index convention: first index runs fastest *)
AddrOf(m, i) == <<i % m[1], (i \div m[1]) % m[2], i \div (m[1] * m[2])>>
IndexOf(m, g) == (g[1] % m[1]) + m[1] * ((g[2] % m[2]) + m[2] * (g[3] % m[3]))
Cof(m) == <<m[2] * m[3], m[1] * m[3], m[1] * m[2]>>
ModV(q, v) == <<v[1] % q, v[2] % q, v[3] % q>>

RECURSIVE SumTo(_, _)
SumTo(f, n) == IF n = 0 THEN 0 ELSE f[n] + SumTo(f, n - 1)
SeqSum(s) == SumTo(s, Len(s))

RECURSIVE AsSeq(_)
AsSeq(S) == IF S = {} THEN <<>> ELSE LET x == CHOOSE x \in S : TRUE IN <<x>> \o AsSeq(S \ {x})

RECURSIVE SortedSeq(_)
SortedSeq(S) == IF S = {} THEN <<>> ELSE LET x == MinOf(S) IN <<x>> \o SortedSeq(S \ {x})

(* ---- the group ---------------------------------------------------------------- *)
(* reciprocal operations: q' = R^-T q ; time reversal adds q' = -q               *)
RecOps(rots, tr) ==
  LET base == {Transpose(UniInv(R)) : R \in rots}
  IN  IF tr THEN base \cup {MNeg(R) : R \in base} ELSE base

IsGroup(H) ==
  /\ Id3 \in H
  /\ \A a \in H : Abs(Det(a)) = 1 /\ UniInv(a) \in H
  /\ \A a, b \in H : MatMul(a, b) \in H

(* Every entry of the group table is checked to be a group once per run (an ASSUME of   *)
(* the generated MC module); {R^-T} and its extension by -1 are then groups too, so the *)
(* classes of a reduction are orbits.                                                   *)

(* reciprocal axes i, j are exchanged (up to sign) by some operation *)
AxisEquiv(rots, i, j) ==
  \/ i = j
  \/ \E R \in RecOps(rots, FALSE) :
        \A k \in I3 : Abs(R[k][i]) = (IF k = j THEN 1 ELSE 0)

-----------------------------------------------------------------------------
(* REQUIREMENT: the requested grid, by definition                            *)

(* mesh numbers for a length: every axis gets the largest number of its class *)
ReqMeshLen(base, rots) ==
  [k \in I3 |-> Max(1, MaxOf({base[j] : j \in {j \in I3 : AxisEquiv(rots, k, j)}}))]
ReqMesh(c) == IF c.len THEN ReqMeshLen(c.mesh, Rots(c)) ELSE c.mesh
(* ReqMesh is a function of the raw numbers and the point group only: in particular it does *)
(* NOT depend on is_mesh_symmetry (c.sym), and symmetry-equivalent axes get equal numbers.     *)
ReqEquivalentAxesEqual(c, m) ==
  c.len => \A i, j \in I3 : AxisEquiv(Rots(c), i, j) => m[i] = m[j]

(* Lengths chosen just across a rounding boundary.  On a lattice whose symmetry-equivalent axes *)
(* j (strained, "long" or "short" by a relative amount d far below the symmetry tolerance) and   *)
(* p (nominal) differ, the length L with  L |a*_p| = k + 1/2 +- e,  0 < e < (k + 1/2) d,  gives   *)
(* raw numbers that differ on the two axes although they are equivalent:                          *)
(*   nominal axis:  k + 1 for "above", k for "below";                                             *)
(*   strained axis: k for "long" (reciprocal vector shorter), k + 1 for "short".                  *)
BoundaryRaw(b) ==
  [strained |-> IF b.sign = "long" THEN b.k ELSE b.k + 1,
   nominal |-> IF b.side = "above" THEN b.k + 1 ELSE b.k]
BoundaryCases(K) == {[k |-> k, side |-> sd, sign |-> sg] : k \in 1..K, sd \in {"above", "below"}, sg \in {"long", "short"}}
(* a length given to Phonopy.init_mesh forces gamma-centring (documented) *)
ReqGamma(c) == (c.len /\ c.level = "api") \/ c.gamma

Den2(c) == 2 * c.sd
HalfIntegral(c) == \A k \in I3 : (2 * c.sn[k]) % c.sd = 0
(* Total shift in units of 1/Den2 of the grid spacing: the user's shift plus the  *)
(* half spacing of an even Monkhorst-Pack mesh.  The q-point LABELLED by address *)
(* g is (g + total shift)/m as documented ("qpoints = (grid_address + shift) /   *)
(* mesh"); for zero/half shifts whole grid spacings are dropped (same grid, the  *)
(* labelling by spglib's shift bits).  Whatever the labelling, the labelled      *)
(* points are exactly the requested grid (ReqGridComplete).                      *)
TotShift(c, m) ==
  [k \in I3 |->
     LET t == 2 * c.sn[k] + (IF ReqGamma(c) \/ m[k] % 2 = 1 THEN 0 ELSE c.sd)
     IN  IF HalfIntegral(c) THEN t % Den2(c) ELSE t]
QMod(c, m) == Den2(c) * NPts(m)
XOf(c, m, g) ==
  LET t == TotShift(c, m)
      cf == Cof(m)
      q == QMod(c, m)
  IN  [k \in I3 |-> ((Den2(c) * g[k] + t[k]) * cf[k]) % q]

(* operations the reduction may use *)
ReqOps(c) == IF c.level = "api" /\ ~c.sym THEN {Id3} ELSE RecOps(Rots(c), c.tr)

ImgX(opset, q, X) == {ModV(q, MatVec(R, X)) : R \in opset}

(* A result r = [addr, map, ir, weights, qx]:                                 *)
(*  addr[i]  integer address of grid point i-1 ; map[i] (0-based) its           *)
(*  representative ; ir, weights the irreducible points ; qx[k] = q_k * Q.     *)
XTable(c, m, r) == Materialize([i \in 1..Len(r.addr) |-> XOf(c, m, r.addr[i])])

ReqGridComplete(c, m, r) ==
  /\ Len(r.addr) = NPts(m)
  /\ {IndexOf(m, r.addr[i]) : i \in 1..Len(r.addr)} = 0..(NPts(m) - 1)

ReqMapWellFormed(c, m, r) ==
  /\ Len(r.map) = NPts(m)
  /\ \A i \in 1..Len(r.map) : r.map[i] \in 0..(NPts(m) - 1)

(* every grid point is the image of its representative under an allowed operation *)
ReqEveryPointIsImage(c, m, r) ==
  LET n == NPts(m)
      X == XTable(c, m, r)
      q == QMod(c, m)
      opset == ReqOps(c)
      reps == {r.map[i] : i \in 1..n}
      img == Materialize([p \in reps |-> ImgX(opset, q, X[p + 1])])
  IN  \A i \in 1..n : X[i] \in img[r.map[i]]

(* the irreducible points are the representatives, each once, weights = class sizes *)
ReqIrWeights(c, m, r) ==
  /\ Len(r.ir) = Len(r.weights)
  /\ \A k, l \in 1..Len(r.ir) : k # l => r.ir[k] # r.ir[l]
  /\ {r.ir[k] : k \in 1..Len(r.ir)} = {r.map[i] : i \in 1..Len(r.map)}
  /\ \A k \in 1..Len(r.ir) :
        r.weights[k] = Cardinality({i \in 1..Len(r.map) : r.map[i] = r.ir[k]})

ReqWeightsSum(c, m, r) == SeqSum(r.weights) = NPts(m)

(* the q-points handed out are the representatives' q-points of the requested grid *)
ReqQpoints(c, m, r) ==
  /\ Len(r.qx) = Len(r.ir)
  /\ \A k \in 1..Len(r.ir) :
        r.ir[k] \in 0..(NPts(m) - 1) /\ r.qx[k] = XOf(c, m, r.addr[r.ir[k] + 1])

(* mesh symmetry off at the API means the unreduced sum *)
ReqOffIsFull(c, m, r) ==
  (c.level = "api" /\ ~c.sym) => \A i \in 1..Len(r.map) : r.map[i] = i - 1

(* Consequence stated for a function constant on exact orbits: f(X) = sum of h  *)
(* over the images R X, R in the FULL allowed group (h an arbitrary hash).      *)
HashX(Y) == ((Y[1] + 3 * Y[2] + 7 * Y[3]) % 101) + 1
OrbitHash(opseq, q, X) == SumTo([j \in 1..Len(opseq) |-> HashX(ModV(q, MatVec(opseq[j], X)))], Len(opseq))
ReqSymOnOffEqual(c, m, r) ==
  LET n == NPts(m)
      X == XTable(c, m, r)
      q == QMod(c, m)
      opseq == AsSeq(ReqOps(c))
      f == Materialize([i \in 1..n |-> OrbitHash(opseq, q, X[i])])
  IN  SumTo([k \in 1..Len(r.ir) |-> r.weights[k] * f[r.ir[k] + 1]], Len(r.ir)) = SumTo(f, n)

Requirement(c, m, r) ==
  /\ ReqGridComplete(c, m, r) /\ ReqMapWellFormed(c, m, r) /\ ReqEveryPointIsImage(c, m, r)
  /\ ReqIrWeights(c, m, r) /\ ReqWeightsSum(c, m, r) /\ ReqQpoints(c, m, r) /\ ReqOffIsFull(c, m, r)

-----------------------------------------------------------------------------
(* MACHINE: transcription of the code                                        *)

(* get_lattice_vector_equivalence([r.T for r in rotations]) -> (b==c, c==a, a==b) *)
AbsRow(R, i) == <<Abs(R[i][1]), Abs(R[i][2]), Abs(R[i][3])>>
LatEquiv(rots) ==
  <<\E R \in rots : AbsRow(R, 2) = <<0,0,1>> \/ AbsRow(R, 3) = <<0,1,0>>,
    \E R \in rots : AbsRow(R, 1) = <<0,0,1>> \/ AbsRow(R, 3) = <<1,0,0>>,
    \E R \in rots : AbsRow(R, 1) = <<0,1,0>> \/ AbsRow(R, 2) = <<1,0,0>>>>
PairEq(v) == <<v[2] = v[3], v[3] = v[1], v[1] = v[2]>>

(* length2mesh: pairwise alignment to the larger number, in the order (b,c), (c,a), (a,b), *)
(* the mesh equalities being those of the ORIGINAL numbers                                  *)
Length2Mesh(base, rots) ==
  LET eq == LatEquiv(rots)
      me == PairEq(base)
      s1 == IF eq[1] /\ ~me[1]
              THEN [base EXCEPT ![2] = Max(base[2], base[3]), ![3] = Max(base[2], base[3])] ELSE base
      s2 == IF eq[2] /\ ~me[2]
              THEN [s1 EXCEPT ![3] = Max(s1[3], s1[1]), ![1] = Max(s1[3], s1[1])] ELSE s1
      s3 == IF eq[3] /\ ~me[3]
              THEN [s2 EXCEPT ![1] = Max(s2[1], s2[2]), ![2] = Max(s2[1], s2[2])] ELSE s2
  IN  [k \in I3 |-> Max(s3[k], 1)]

(* GridPoints._shift2boolean on a rational shift sn/sd (2 sn/sd either an integer or *)
(* clearly not one: the event generator keeps away from the 0.01 tolerance)          *)
Shift2Bool(sn, sd, gamma, m) ==
  IF \A k \in I3 : (2 * sn[k]) % sd = 0
    THEN [k \in I3 |->
            LET halfOdd == ((2 * sn[k]) \div sd) % 2 = 1
            IN  IF gamma THEN (IF halfOdd THEN 1 ELSE 0)
                         ELSE (IF halfOdd # (m[k] % 2 = 0) THEN 1 ELSE 0)]
    ELSE None

(* the machine's own grid: double addresses 2 g + isShift, plus the generic shift *)
MachX(c, m, sh, generic, g) ==
  LET cf == Cof(m)
      q == QMod(c, m)
  IN  [k \in I3 |-> ((Den2(c) * g[k] + c.sd * sh[k] + (IF generic THEN 2 * c.sn[k] ELSE 0)) * cf[k]) % q]

(* index of the grid point (on the double grid with bits sh) whose X is Y; -1 if none: *)
(* the divisibility and parity tests of spglib's reduction                             *)
IdxOfX(c, m, sh, Y) ==
  LET cf == Cof(m)
      d(k) == Y[k] \div (cf[k] * c.sd)
      ok(k) == Y[k] % (cf[k] * c.sd) = 0 /\ (d(k) - sh[k]) % 2 = 0
  IN  IF \A k \in I3 : ok(k)
        THEN IndexOf(m, [k \in I3 |-> (d(k) - sh[k]) \div 2])
        ELSE -1

(* classes = (orbits of the operations) intersected with the grid, representative = *)
(* smallest index: what get_stabilized_reciprocal_mesh computes on the double grid  *)
OrbitMinMap(c, m, sh, opset) ==
  LET n == NPts(m)
      q == QMod(c, m)
      Orbit(i) == {IdxOfX(c, m, sh, Y) : Y \in ImgX(opset, q, MachX(c, m, sh, FALSE, AddrOf(m, i)))} \ {-1}
      (* points in ascending order; an unassigned point is the smallest of its class *)
      RECURSIVE Fill(_, _)
      Fill(i, mp) ==
        IF i = n THEN mp
        ELSE IF mp[i + 1] # -1 THEN Fill(i + 1, mp)
        ELSE LET orb == Orbit(i)
             IN  Fill(i + 1, Materialize([j \in 1..n |-> IF (j - 1) \in orb THEN i ELSE mp[j]]))
  IN  Fill(0, [j \in 1..n |-> -1])

(* the same thing characterised instead of constructed (used to judge logged tables): *)
(* representatives are not larger than their points and are fixed, every point is an  *)
(* image of its representative, and every on-grid image of a representative belongs   *)
(* to it.                                                                            *)
IsOrbitMinMap(c, m, sh, opset, mp) ==
  LET n == NPts(m)
      q == QMod(c, m)
      reps == {mp[i] : i \in 1..n}
      img == Materialize([p \in reps |->
                 {IdxOfX(c, m, sh, Y) : Y \in ImgX(opset, q, MachX(c, m, sh, FALSE, AddrOf(m, p)))} \ {-1}])
  IN  /\ \A i \in 1..n : mp[i] <= i - 1 /\ (i - 1) \in img[mp[i]]
      /\ \A p \in reps : \A j \in img[p] : mp[j + 1] = p

Init ==
  /\ pc = "choose" /\ cfg = [level |-> "none"] /\ group = {} /\ eff = [mesh |-> <<1,1,1>>]
  /\ isShift = None /\ hasSym = FALSE /\ map = <<>> /\ ir = <<>> /\ weights = <<>>

Start(c) ==
  /\ cfg' = c
  /\ group' = GroupTable[c.grp]
  /\ eff' = [mesh |-> c.mesh, gamma |-> c.gamma, tr |-> c.tr, sym |-> c.sym, generic |-> FALSE]
  /\ pc' = IF c.len THEN "length" ELSE IF c.level = "api" THEN "init" ELSE "shift"
  /\ UNCHANGED <<isShift, hasSym, map, ir, weights>>

Choose == pc = "choose" /\ \E c \in Configs : Start(c)

(* length2mesh(length, lattice, rotations); inside Phonopy.init_mesh with a float it *)
(* is called with the primitive point group and gamma-centring is forced             *)
LengthToMesh ==
  /\ pc = "length"
  /\ eff' = [eff EXCEPT !.mesh = Length2Mesh(cfg.mesh, Rots(cfg)),
                        !.gamma = IF cfg.level = "api" THEN TRUE ELSE eff.gamma]
  /\ pc' = IF cfg.level = "api" THEN "init" ELSE "shift"
  /\ UNCHANGED <<cfg, group, isShift, hasSym, map, ir, weights>>

(* MeshBase.__init__: is_time_reversal = (is_time_reversal and is_mesh_symmetry) *)
InitMesh ==
  /\ pc = "init"
  /\ eff' = [eff EXCEPT !.tr = cfg.tr /\ cfg.sym]
  /\ pc' = "shift"
  /\ UNCHANGED <<cfg, group, isShift, hasSym, map, ir, weights>>

(* GridPoints.__init__: zero/half shifts become bits; any other shift switches the   *)
(* symmetry search off and is added to the q-points afterwards.                      *)
(* [D11a] pinned: the time-reversal reduction stays on in that branch                *)
(* [D11b] pinned: _shift2boolean(None) is called without is_gamma_center             *)
Shift2Boolean ==
  /\ pc = "shift"
  /\ LET b == Shift2Bool(cfg.sn, cfg.sd, eff.gamma, eff.mesh)
     IN  IF b # None
           THEN /\ isShift' = b /\ eff' = eff
           ELSE /\ isShift' = Shift2Bool(<<0,0,0>>, 1, IF Variant = "pinned" THEN FALSE ELSE eff.gamma, eff.mesh)
                /\ eff' = [eff EXCEPT !.generic = TRUE, !.sym = FALSE,
                                      !.tr = IF Variant = "pinned" THEN eff.tr ELSE FALSE]
  /\ pc' = "sym"
  /\ UNCHANGED <<cfg, group, hasSym, map, ir, weights>>

(* GridPoints._has_mesh_symmetry: mesh numbers of equivalent axes must agree          *)
(* [D10] repaired: so must the shift bits (pinned: mesh numbers only)                 *)
HasMeshSymmetry ==
  /\ pc = "sym"
  /\ LET eq == LatEquiv(Rots(cfg))
         me == PairEq(eff.mesh)
         se == PairEq(isShift)
     IN  hasSym' = \A k \in I3 : eq[k] => (me[k] /\ (Variant = "pinned" \/ se[k]))
  /\ pc' = "reduce"
  /\ UNCHANGED <<cfg, group, eff, isShift, map, ir, weights>>

(* operations handed to the reduction (a state function: fixed once pc = "reduce") *)
UsedOps == IF eff.sym /\ hasSym THEN RecOps(Rots(cfg), eff.tr) ELSE RecOps({Id3}, eff.tr)

(* GridPoints._set_ir_qpoints -> get_stabilized_reciprocal_mesh *)
ReduceWith(mp) ==
  /\ pc = "reduce"
  /\ map' = mp
  /\ pc' = "extract"
  /\ UNCHANGED <<cfg, group, eff, isShift, hasSym, ir, weights>>

Reduce == ReduceWith(OrbitMinMap(cfg, eff.mesh, isShift, UsedOps))

(* extract_ir_grid_points: np.unique, counting loop *)
ExtractIr ==
  /\ pc = "extract"
  /\ LET u == SortedSeq({map[i] : i \in 1..Len(map)})
     IN  /\ ir' = u
         /\ weights' = [k \in 1..Len(u) |-> Cardinality({i \in 1..Len(map) : map[i] = u[k]})]
  /\ pc' = "done"
  /\ UNCHANGED <<cfg, group, eff, isShift, hasSym, map>>

Next == Choose \/ LengthToMesh \/ InitMesh \/ Shift2Boolean \/ HasMeshSymmetry \/ Reduce \/ ExtractIr
Spec == Init /\ [][Next]_vars

(* the machine's result as a result record *)
MachineResult ==
  LET m == eff.mesh
      n == NPts(m)
  IN  [addr |-> [i \in 1..n |-> AddrOf(m, i - 1)],
       map |-> map, ir |-> ir, weights |-> weights,
       qx |-> [k \in 1..Len(ir) |-> MachX(cfg, m, isShift, eff.generic, AddrOf(m, ir[k]))]]

-----------------------------------------------------------------------------
(* Invariants of the machine (model run) *)
AtEnd == pc = "done"
TypeOK == pc \in {"choose", "length", "init", "shift", "sym", "reduce", "extract", "done"}

InvMeshIsRequested == AtEnd => eff.mesh = ReqMesh(cfg)
InvGridComplete == AtEnd /\ eff.mesh = ReqMesh(cfg) => ReqGridComplete(cfg, eff.mesh, MachineResult)
InvEveryPointIsImage ==
  AtEnd /\ eff.mesh = ReqMesh(cfg) =>
     ReqMapWellFormed(cfg, eff.mesh, MachineResult) /\ ReqEveryPointIsImage(cfg, eff.mesh, MachineResult)
InvIrWeights == AtEnd /\ eff.mesh = ReqMesh(cfg) => ReqIrWeights(cfg, eff.mesh, MachineResult)
InvWeightsSum == AtEnd /\ eff.mesh = ReqMesh(cfg) => ReqWeightsSum(cfg, eff.mesh, MachineResult)
InvQpoints == AtEnd /\ eff.mesh = ReqMesh(cfg) => ReqQpoints(cfg, eff.mesh, MachineResult)
InvOffIsFull == AtEnd /\ eff.mesh = ReqMesh(cfg) => ReqOffIsFull(cfg, eff.mesh, MachineResult)
InvSymOnOffEqual == AtEnd /\ eff.mesh = ReqMesh(cfg) => ReqSymOnOffEqual(cfg, eff.mesh, MachineResult)
(* length2mesh's pairwise alignment gives every axis the largest number of its class, *)
(* for every group of the table and every triple of raw numbers 0..4                  *)
InvLengthRule ==
  pc = "choose" =>
     \A g \in DOMAIN GroupTable :
        \A b \in {<<x, y, z>> : x \in 0..4, y \in 0..4, z \in 0..4} :
           Length2Mesh(b, GroupTable[g]) = ReqMeshLen(b, GroupTable[g])
(* whatever the case, both axes must end with the larger of the two raw numbers *)
BoundaryTheorem(K) ==
  \A b \in BoundaryCases(K) : \A g \in DOMAIN GroupTable :
     \A j, p \in I3 :
        (j # p /\ AxisEquiv(GroupTable[g], j, p)) =>
           LET o == CHOOSE o \in I3 : o # j /\ o # p
               raw == [i \in I3 |-> IF i = j THEN BoundaryRaw(b).strained
                                    ELSE IF i = p THEN BoundaryRaw(b).nominal ELSE 1]
               m == ReqMeshLen(raw, GroupTable[g])
           IN  /\ m[j] = m[p] /\ m[j] = Max(BoundaryRaw(b).strained, BoundaryRaw(b).nominal)
               /\ Length2Mesh(raw, GroupTable[g]) = m
InvBoundaryTheorem == pc = "choose" => BoundaryTheorem(3)
InvEquivalentAxesEqual == AtEnd => ReqEquivalentAxesEqual(cfg, eff.mesh)
(* the characterisation used on logged tables accepts the constructed table *)
InvCharacterisation == AtEnd => IsOrbitMinMap(cfg, eff.mesh, isShift, UsedOps, map)
(* reduction is as strong as the allowed group permits whenever the code uses the full group *)
InvClassesAreOrbits ==
  (AtEnd /\ eff.mesh = ReqMesh(cfg) /\ UsedOps = ReqOps(cfg) /\ ~eff.generic) =>
     LET r == MachineResult
         X == XTable(cfg, eff.mesh, r)
         q == QMod(cfg, eff.mesh)
         imgs == Materialize([i \in 1..Len(map) |-> ImgX(UsedOps, q, X[i])])
     IN  \A i, j \in 1..Len(map) : (X[j] \in imgs[i]) => map[i] = map[j]
=============================================================================
