----------------------------- MODULE UnitsRoute -----------------------------
(* C17, unit part: the ROUTE by which the calculator reaches phonopy.load(). *)
(* The crystal's numbers (lattice, force constants) are in the unit system   *)
(* of calculator dcalc.  load() takes its unit set (frequency factor, default*)
(* NAC factor) from ONE calculator name, which it resolves from              *)
(*   argc - the calculator= argument ("none" if not given)                   *)
(*   recc - the calculator recorded in the phonopy yaml file it reads        *)
(*          (phonopy_params.yaml / phonopy.yaml written by save(), or        *)
(*          phonopy_disp.yaml; "none" if no file or nothing recorded)        *)
(* by the documented precedence: an explicit argument overrides what the     *)
(* file says ("parameters except for crystal structure can be overwritten"), *)
(* the file is used otherwise, and nothing at all means VASP.                *)
(* Routes:                                                                   *)
(*   "arg"      cells given directly, calculator=dcalc                       *)
(*   "yaml"     save() of a Phonopy object of dcalc, then load(file)         *)
(*   "disp"     phonopy_disp.yaml of dcalc, then load(file)                  *)
(*   "conflict" the file records another calculator, calculator=dcalc given  *)
(*   "default"  neither given (only meaningful for data in VASP units)       *)
(* Requirement: whatever the route, the unit set used is dcalc's - so the    *)
(* same physical crystal has the same THz frequencies and LO-TO splitting.   *)
EXTENDS Units

VARIABLES rpc, dcalc, route, argc, recc, used
rvars == <<rpc, dcalc, route, argc, recc, used>>

Routes == {"arg", "yaml", "disp", "conflict", "default"}

RInit == /\ Init /\ rpc = "choose" /\ dcalc = "vasp" /\ route = "arg"
         /\ argc = "none" /\ recc = "none" /\ used = "none"

Channels(c, r, o) ==
  CASE r = "arg" -> <<c, "none">>
    [] r = "yaml" -> <<"none", c>>
    [] r = "disp" -> <<"none", c>>
    [] r = "conflict" -> <<c, o>>
    [] r = "default" -> <<"none", "none">>

RChoose ==
  /\ rpc = "choose"
  /\ \E c \in Calcs, r \in Routes, o \in AllCalcs :
       /\ (r = "default" => c = "vasp")
       /\ (r = "conflict" => o # c)
       /\ (r # "conflict" => o = c)
       /\ dcalc' = c /\ route' = r
       /\ argc' = Channels(c, r, o)[1] /\ recc' = Channels(c, r, o)[2]
  /\ rpc' = "resolve" /\ UNCHANGED <<used, uvars>>

Resolved(a, f) == IF a # "none" THEN a ELSE IF f # "none" THEN f ELSE "vasp"

RResolve ==
  /\ rpc = "resolve"
  /\ used' = Resolved(argc, recc)
  /\ rpc' = "done" /\ UNCHANGED <<dcalc, route, argc, recc, uvars>>

RNext == RChoose \/ RResolve
RSpec == RInit /\ [][RNext]_<<rvars, uvars>>

RDone == rpc = "done"
InvRouteResolves == RDone => used = dcalc
InvRouteFactor == RDone => ReqFactor(Table[used]) = ReqFactor(Table[dcalc])
InvRouteNac == RDone => ReqNac(Table[used]) = ReqNac(Table[dcalc])
=============================================================================
