------------------------------- MODULE Irreps -------------------------------
(* X04: irreducible representations of phonon modes                          *)
(* (phonopy/phonon/irreps.py: IrReps; API Phonopy.set_irreps).               *)
(*                                                                           *)
(* Requirement side, from the definition.  A space-group operation S = {W|t} *)
(* acts on a displacement field by (T_S u)(r) = R u(S^-1 r).  On the Bloch    *)
(* fields of wave vector q, u(l kappa) = e_kappa exp(2 pi i q.r(l kappa))     *)
(* (the phase convention of phonopy's dynamical matrix), with S in the little *)
(* group of q (q W = q modulo a reciprocal lattice vector), T_S is the matrix *)
(*     Gamma(S)[j a, i b] = delta(j, S i) W[a][b] exp(2 pi i q.(S^-1 x_j - x_j)) *)
(* in LATTICE components of the displacements (W is then the integer matrix   *)
(* of the operation; the Cartesian matrix of the code is conjugate to it by   *)
(* the lattice, the harness undoes that conjugation).  Pure translations act   *)
(* as T_{E|L} = exp(-2 pi i q.L), hence for the coset representatives the code *)
(* happens to use                                                             *)
(*     Gamma(S1) Gamma(S2) = exp(-2 pi i q.L) Gamma(S12),  L = W1 t2 + t1 - t12. *)
(* The little CO-group (multiplier) representation is                          *)
(*     D(W) = exp(+2 pi i q.t) Gamma({W|t}),                                   *)
(* independent of the representative t, with the factor system                *)
(*     D(W1) D(W2) = exp(2 pi i (q - q W1).t2) D(W1 W2).                        *)
(* q = qn/12; positions and translations are numerators over D = C.D; all     *)
(* phases are required to be twelfth roots of unity (Admissible), numbers are *)
(* elements of Z[zeta_12] (Phases12: pairs over Z[sqrt 3], E12(k) = 2 zeta^k). *)
(*                                                                           *)
(* Two uses.  MInit: for every candidate q and both modes the canonical little *)
(* group of the exact space group Aut(C) - TLC decides that Gamma is a          *)
(* projective homomorphism with the stated factor system, that the mechanical  *)
(* character is a class function, and which (q, mode) are admissible.  TInit:  *)
(* one recorded IrReps run per behaviour - the Impl invariants evaluate the     *)
(* requirement on the logged observations.                                     *)
EXTENDS IrrepsCatalogue, Phases12, PointGroups

CONSTANTS Entry,    \* name of the catalogue entry
          Events,   \* set of event records (trace mode)
          QCands,   \* set of q numerators over 12 (model mode)
          Tables,   \* point-group symbol -> sequence of character-table variants (labels at Gamma)
          AutIn     \* the exact space group Aut(C) as TLC computed it for the oracle (SpringsDump); AutExact re-derives it

VARIABLES pc, ev, gam, verdict
vars == <<pc, ev, gam, verdict>>

C == XEntryByName(Entry)
NA == NAtoms(C)
DD == C.D
AutC == AutIn
PGC == {p[1] : p \in AutC}
IsPrimitive == Cardinality({p \in AutC : p[1] = Id3}) = 1

ModD(v) == <<v[1] % DD, v[2] % DD, v[3] % DD>>
Div3(v, d) == <<v[1] \div d, v[2] \div d, v[3] \div d>>
Divisible3(v, d) == \A i \in I3 : v[i] % d = 0

QFix(qn, W) == Divisible3(VSub(VecMat(qn, W), qn), 12)
QFlip(qn, W) == Divisible3(VAdd(VecMat(qn, W), qn), 12)
LittleCoGroup(qn) == {W \in PGC : QFix(qn, W)}


(* ---- the representation of one operation o = [rot, tn] ------------------------------- *)
IsOp(o) == <<o.rot, ModD(o.tn)>> \in AutC
ImgOf(o, i) == CHOOSE j \in 1..NA : SamePosModZ(DD, Act(o.rot, o.tn, Num(C, i)), Num(C, j))
(* D x (the phase angle in turns) x 12 for row atom j *)
PhNum(qn, o, j, cog) ==
  LET v == VSub(MatVec(UniInv(o.rot), VSub(Num(C, j), o.tn)), Num(C, j))
  IN Dot(qn, v) + (IF cog THEN Dot(qn, o.tn) ELSE 0)
(* monomial form: column atom i -> row atom img[i], phase zeta^tw[i], block W *)
Mono(qn, o, cog) ==
  LET im == [i \in 1..NA |-> ImgOf(o, i)]
  IN [rot |-> o.rot, tn |-> o.tn,
      img |-> im,
      ok |-> \A i \in 1..NA : PhNum(qn, o, im[i], cog) % DD = 0,
      tw |-> [i \in 1..NA |-> (PhNum(qn, o, im[i], cog) \div DD) % 12]]

(* 2 x character of the mechanical representation *)
RECURSIVE SumFixed(_, _)
SumFixed(g, i) == IF i = 0 THEN CZero
                  ELSE CAdd(IF g.img[i] = i THEN E12(g.tw[i]) ELSE CZero, SumFixed(g, i - 1))
ChiMech(g) == CScale(Tr(g.rot), SumFixed(g, NA))

IndexOfRot(gs, W) == CHOOSE k \in 1..Len(gs) : gs[k].rot = W

(* factor twelfth of Gamma(g1) Gamma(g2) = zeta^f Gamma(g12) *)
FactorOK(qn, g1, g2, g12, cog) ==
  IF cog THEN Dot(VSub(qn, VecMat(qn, g1.rot)), g2.tn) % DD = 0
  ELSE Divisible3(VSub(VAdd(MatVec(g1.rot, g2.tn), g1.tn), g12.tn), DD)
Factor(qn, g1, g2, g12, cog) ==
  IF cog THEN (Dot(VSub(qn, VecMat(qn, g1.rot)), g2.tn) \div DD) % 12
  ELSE (-Dot(qn, Div3(VSub(VAdd(MatVec(g1.rot, g2.tn), g1.tn), g12.tn), DD))) % 12

Homomorphism(qn, gs, cog) ==
  \A k1, k2 \in 1..Len(gs) :
    LET g1 == gs[k1]
        g2 == gs[k2]
        g12 == gs[IndexOfRot(gs, Mat3(MatMul(g1.rot, g2.rot)))]
    IN /\ FactorOK(qn, g1, g2, g12, cog)
       /\ \A i \in 1..NA : /\ g1.img[g2.img[i]] = g12.img[i]
                           /\ (g1.tw[g2.img[i]] + g2.tw[i] - g12.tw[i] - Factor(qn, g1, g2, g12, cog)) % 12 = 0

(* conjugation: Sg Sk Sg^-1 = {E|L} Sk', L = (-W' tg + Wg tk + tg - tk') / D;                  *)
(* a character of the little group obeys chi(k) = exp(-2 pi i q.L) chi(k'); for the co-group    *)
(* representation chi(k) = exp(2 pi i (q - q Wg^-1).tk ...) - evaluated through the same L:     *)
(* chi_cog(k) exp(-2 pi i q.tk) = exp(-2 pi i q.L) chi_cog(k') exp(-2 pi i q.tk')               *)
ConjIndex(gs, kg, k) == IndexOfRot(gs, Mat3(MatMul(gs[kg].rot, MatMul(gs[k].rot, UniInv(gs[kg].rot)))))
ConjNum(qn, gs, kg, k, cog) ==
  LET k2 == ConjIndex(gs, kg, k)
      Wc == gs[k2].rot
      Lnum == VSub(VAdd(VSub(MatVec(gs[kg].rot, gs[k].tn), MatVec(Wc, gs[kg].tn)), gs[kg].tn), gs[k2].tn)
  IN IF cog THEN -Dot(qn, Lnum) - Dot(qn, gs[k2].tn) + Dot(qn, gs[k].tn) ELSE -Dot(qn, Lnum)
(* chi(k) = zeta^ConjTw chi(k') *)
ConjOK(qn, gs, kg, k, cog) == ConjNum(qn, gs, kg, k, cog) % DD = 0
ConjTw(qn, gs, kg, k, cog) == (ConjNum(qn, gs, kg, k, cog) \div DD) % 12
Rot12(x, f) == CMul(E12(f), x)       \* 2 zeta^f x
ClassFunction(qn, gs, cog, chi2) ==   \* chi2[k] = 2 chi(k)
  \A kg, k \in 1..Len(gs) :
    ConjOK(qn, gs, kg, k, cog) => CScale(2, chi2[k]) = Rot12(chi2[ConjIndex(gs, kg, k)], ConjTw(qn, gs, kg, k, cog))

(* Gamma(o)^n is a scalar matrix; the eigenvalues of Gamma(o) are twelfth roots iff n divides its twelfth *)
RECURSIVE PathTw(_, _, _)
PathTw(g, i, n) == IF n = 0 THEN 0 ELSE g.tw[i] + PathTw(g, g.img[i], n - 1)
EigenAdmissible(g) == LET n == OrderOf(g.rot) IN \A i \in 1..NA : PathTw(g, i, n) % n = 0

CanonOps(qn) == SetToSeq({[rot |-> p[1], tn |-> p[2]] : p \in {p \in AutC : QFix(qn, p[1])}})
MonoSeq(qn, ops, cog) == [k \in 1..Len(ops) |-> Mono(qn, ops[k], cog)]
Admissible(qn, gs) == \A k \in 1..Len(gs) : gs[k].ok /\ EigenAdmissible(gs[k])

(* ---- complex sums ---------------------------------------------------------------------- *)
RECURSIVE CSumSeq(_, _)
CSumSeq(f, n) == IF n = 0 THEN CZero ELSE CAdd(f[n], CSumSeq(f, n - 1))
Norm2(x) == CMul(x, CConj(x))
InnerSeq(a, b) == CSumSeq([k \in 1..Len(a) |-> CMul(a[k], CConj(b[k]))], Len(a))

-----------------------------------------------------------------------------
(* the space group handed in is the one of the definition (one state; thorough tier) *)
AInit == pc = "aut" /\ ev = <<>> /\ gam = <<>> /\ verdict = <<>>
ANext == UNCHANGED vars
AutExact == pc = "aut" => AutIn = Aut(C)

-----------------------------------------------------------------------------
(* model mode *)
MInit == /\ pc = "model"
         /\ ev \in {[qv |-> q, cg |-> c] : q \in QCands, c \in BOOLEAN}
         /\ gam = <<>> /\ verdict = <<>>

MLoad == /\ pc = "model"
         /\ gam' = IF IsPrimitive THEN MonoSeq(ev.qv, CanonOps(ev.qv), ev.cg) ELSE <<>>
         /\ pc' = "mjudge"
         /\ UNCHANGED <<ev, verdict>>

MJudge ==
  /\ pc = "mjudge"
  /\ verdict' = IF ~IsPrimitive THEN [adm |-> FALSE, hom |-> TRUE, cls |-> TRUE, idt |-> TRUE]
                ELSE LET ok == \A k \in 1..Len(gam) : gam[k].ok
                     IN [adm |-> ok /\ Admissible(ev.qv, gam),
                         hom |-> ok => Homomorphism(ev.qv, gam, ev.cg),
                         cls |-> ok => ClassFunction(ev.qv, gam, ev.cg, [k \in 1..Len(gam) |-> ChiMech(gam[k])]),
                         idt |-> ok => ChiMech(gam[IndexOfRot(gam, Id3)]) = CInt(6 * NA)]
  /\ pc' = "mdone"
  /\ UNCHANGED <<ev, gam>>

MNext == MLoad \/ MJudge

ModelHomomorphism == pc = "mdone" => verdict.hom
ModelClassFunction == pc = "mdone" => verdict.cls
ModelIdentity == pc = "mdone" => verdict.idt
MEmit == pc = "mdone" => PrintT(ToString(<<"ADM", Entry, ev.qv, ev.cg, verdict.adm, IsPrimitive, Len(gam)>>))

-----------------------------------------------------------------------------
(* trace mode: one recorded run of IrReps per behaviour                                        *)
(* event: id, qv, cg, crs, st, ox, opl = <<[rot, tn]>>, gx, gm, bsets, gaps, gpf, cx, chr, pgs, vix, rsy, cnv, lbl *)

TInit == /\ pc = "trace" /\ ev \in Events /\ gam = <<>> /\ verdict = <<>>

OpsValid == /\ ev.ox
            /\ \A k \in 1..Len(ev.opl) : IsOp(ev.opl[k])
            /\ {ev.opl[k].rot : k \in 1..Len(ev.opl)} = LittleCoGroup(ev.qv)
            /\ Cardinality({ev.opl[k].rot : k \in 1..Len(ev.opl)}) = Len(ev.opl)

TLoad == /\ pc = "trace"
         /\ gam' = IF ev.st = "ok" /\ IsPrimitive /\ OpsValid THEN MonoSeq(ev.qv, ev.opl, ev.cg) ELSE <<>>
         /\ pc' = "judge"
         /\ UNCHANGED <<ev, verdict>>

NG == Len(gam)
(* the tolerance handed to set_irreps is coarser than a gap the eigenvalues resolve (neighbours closer than the tolerance   *)
(* but further apart than 1e-7, gpf = "numerically equal"), or the run is deliberately coarse: the sets then merge different *)
(* eigenspaces and nothing is demanded about their irreducibility or labels (they must still be characters)               *)
CoarseEv == ev.crs \/ \E i \in 1..Len(ev.gaps) : ev.gaps[i] /\ ~ev.gpf[i]
AtGamma == ev.qv = <<0, 0, 0>>
NS == Len(ev.bsets)
NB == 3 * NA
KE == IndexOfRot(gam, Id3)

(* ground matrices: block (j, i) of operation k is <<tw, M>> (M zeta^tw), tw = -1 for a zero block *)
SameBlock(b, t, W) == \/ b[1] # -1 /\ b[2] = W /\ (b[1] - t) % 12 = 0
                      \/ b[1] # -1 /\ b[2] = Mat3(MNeg(W)) /\ (b[1] - t - 6) % 12 = 0
GroundOK ==
  /\ ev.gx
  /\ \A k \in 1..NG : \A j, i \in 1..NA :
       LET b == ev.gm[k][(j - 1) * NA + i]
       IN IF gam[k].img[i] = j THEN SameBlock(b, gam[k].tw[i], gam[k].rot) ELSE b[1] = -1

(* degenerate sets: maximal runs of consecutive bands whose neighbours are closer than the tolerance *)
PartitionOK ==
  /\ Len(ev.gaps) = NB - 1
  /\ NS >= 1
  /\ \A s \in 1..NS : Len(ev.bsets[s]) >= 1
  /\ ev.bsets[1][1] = 1 /\ ev.bsets[NS][Len(ev.bsets[NS])] = NB
  /\ \A s \in 1..NS : \A m \in 1..(Len(ev.bsets[s]) - 1) :
        ev.bsets[s][m + 1] = ev.bsets[s][m] + 1 /\ ev.gaps[ev.bsets[s][m]]
  /\ \A s \in 1..(NS - 1) : /\ ev.bsets[s + 1][1] = ev.bsets[s][Len(ev.bsets[s])] + 1
                            /\ ~ev.gaps[ev.bsets[s][Len(ev.bsets[s])]]

ShapeOK == /\ Len(ev.chr) = NS /\ \A s \in 1..NS : Len(ev.chr[s]) = NG
DimOK == \A s \in 1..NS : ev.chr[s][KE] = CInt(2 * Len(ev.bsets[s]))
SumRuleOK == \A k \in 1..NG : CSumSeq([s \in 1..NS |-> ev.chr[s][k]], NS) = ChiMech(gam[k])
(* sum_k |2 chi|^2 = 4 m |G| *)
Multiplicity(s) == LET n == InnerSeq(ev.chr[s], ev.chr[s])
                   IN IF n[2] = ZZero /\ n[1][2] = 0 /\ n[1][1] % (4 * NG) = 0 THEN n[1][1] \div (4 * NG) ELSE 0
(* Herring sum: sum over the operations S of the space group (mod translations) with q W = -q  *)
(* of chi(S^2); S^2 = {E|L} rep(W^2), L = (W t + t - t_rep)/D.  Little-group mode only.          *)
FlipOps == {p \in AutC : QFlip(ev.qv, p[1])}
HerringTerm(s, p) ==
  LET k2 == IndexOfRot(gam, Mat3(MatMul(p[1], p[1])))
      L == Div3(VSub(VAdd(MatVec(p[1], p[2]), p[2]), gam[k2].tn), DD)
  IN Rot12(ev.chr[s][k2], (-Dot(ev.qv, L)) % 12)         \* 4 chi(S^2)
Herring4(s) == LET fl == SetToSeq(FlipOps) IN CSumSeq([m \in 1..Len(fl) |-> HerringTerm(s, fl[m])], Len(fl))
(* irreducible under the little group and time reversal: one irrep of real type (m = 1, Herring +n), *)
(* a pair of conjugate irreps (m = 2, Herring 0), twice a pseudo-real one (m = 4, Herring -2n);       *)
(* without an operation reversing q only m = 1                                                        *)
(* at Gamma the three uniform translations have frequency zero whatever the symmetry: the first set  *)
(* is the vector representation, reducible unless the point group is cubic                          *)
VecReducible == CSumSeq([k \in 1..NG |-> CInt(Tr(gam[k].rot) * Tr(gam[k].rot))], NG) # CInt(NG)
Exempt(s) == AtGamma /\ s = 1 /\ VecReducible
AcousticOK ==
  AtGamma => /\ Len(ev.bsets[1]) >= 3
             /\ (Len(ev.bsets[1]) = 3 => \A k \in 1..NG : ev.chr[1][k] = CInt(2 * Tr(gam[k].rot)))
IrreducibleOK ==
  \A s \in 1..NS : Exempt(s) \/ (CoarseEv /\ Multiplicity(s) >= 1) \/
    LET m == Multiplicity(s)
        n == Cardinality(FlipOps)
    IN IF ev.cg THEN m \in {1, 2, 4}
       ELSE \/ m = 1 /\ Herring4(s) = CInt(4 * n)
            \/ m = 2 /\ n > 0 /\ Herring4(s) = CZero
            \/ m = 4 /\ n > 0 /\ Herring4(s) = CInt(-8 * n)
OrthogonalOK ==
  \A s, t \in 1..NS : s < t =>
    LET ip == InnerSeq(ev.chr[s], ev.chr[t])
    IN \/ ip = CZero
       \/ /\ ip[2] = ZZero /\ ip[1][2] = 0 /\ ip[1][1] > 0 /\ ip[1][1] % (4 * NG) = 0
          /\ (Multiplicity(s) = 1 /\ Multiplicity(t) = 1 => ev.chr[s] = ev.chr[t])
ClassOK == \A s \in 1..NS : ClassFunction(ev.qv, gam, ev.cg, ev.chr[s])

(* ---- labels at Gamma ------------------------------------------------------------------------ *)
PointGroupOK == ev.pgs = PGSymbol(PGC)

TV == Tables[ev.pgs][ev.vix]                 \* the variant the code chose
ColOf(sym) == CHOOSE c \in 1..Len(TV.rl) : TV.rl[c] = sym
(* the logged conventional rotations are a faithful image of the operations, lie in the class the   *)
(* table lists under their symbol, and every class is complete                                      *)
SymbolsOK ==
  /\ Len(ev.rsy) = NG /\ Len(ev.cnv) = NG
  /\ \A k \in 1..NG : /\ ev.rsy[k] \in DOMAIN TV.mt
                      /\ ev.cnv[k] \in TV.mt[ev.rsy[k]]
                      /\ Tr(ev.cnv[k]) = Tr(gam[k].rot) /\ Det(ev.cnv[k]) = Det(gam[k].rot)
  /\ \A k1, k2 \in 1..NG :
        Mat3(MatMul(ev.cnv[k1], ev.cnv[k2])) = ev.cnv[IndexOfRot(gam, Mat3(MatMul(gam[k1].rot, gam[k2].rot)))]
  /\ \A sym \in DOMAIN TV.mt : Cardinality({k \in 1..NG : ev.rsy[k] = sym}) = Cardinality(TV.mt[sym])
(* 2 |class| x (class sum of the character of set s) against the table row *)
ClassSum(chi2, sym) == LET ks == SetToSeq({k \in 1..NG : ev.rsy[k] = sym})
                       IN CSumSeq([m \in 1..Len(ks) |-> chi2[ks[m]]], Len(ks))
RowMatches(chi2, lab) ==
  \A c \in 1..Len(TV.rl) : ClassSum(chi2, TV.rl[c]) = CInt(2 * Cardinality(TV.mt[TV.rl[c]]) * TV.ct[lab][c])
(* multiplicity of the table row in the mechanical representation, times |G| and the row's own norm *)
RowNorm(lab) == LET r == TV.ct[lab] IN CSumSeq([c \in 1..Len(TV.rl) |-> CInt(Cardinality(TV.mt[TV.rl[c]]) * r[c] * r[c])], Len(TV.rl))[1][1]
MechDotRow(lab) ==
  CSumSeq([k \in 1..NG |-> CScale(TV.ct[lab][ColOf(ev.rsy[k])], ChiMech(gam[k]))], NG)
VecDotRow(lab) ==
  CSumSeq([k \in 1..NG |-> CInt(2 * TV.ct[lab][ColOf(ev.rsy[k])] * Tr(gam[k].rot))], NG)
LabelsOK ==
  /\ Len(ev.lbl) = NS
  /\ \A s \in 1..NS : IF ev.lbl[s] = "None" THEN Exempt(s) \/ CoarseEv
                        ELSE ev.lbl[s] \in DOMAIN TV.ct /\ RowMatches(ev.chr[s], ev.lbl[s])
  (* number of sets carrying a label = multiplicity of that row in the mechanical representation:  *)
  (* <chi_mech, chi_lab> = n_lab <chi_lab, chi_lab>                                                 *)
  /\ CoarseEv \/ \A lab \in DOMAIN TV.ct :
       CAdd(MechDotRow(lab), IF VecReducible THEN CScale(-1, VecDotRow(lab)) ELSE CZero)
         = CInt(2 * Cardinality({s \in 1..NS : ~Exempt(s) /\ ev.lbl[s] = lab}) * RowNorm(lab))

TJudge ==
  /\ pc = "judge"
  /\ verdict' =
       IF ~IsPrimitive THEN [status |-> ev.st = "RuntimeError"]
       ELSE IF ev.st # "ok" THEN [status |-> FALSE]
       ELSE IF gam = <<>> THEN [status |-> TRUE, group |-> FALSE]
       ELSE LET adm == Admissible(ev.qv, gam)
                shape == ShapeOK /\ ev.cx
                part == PartitionOK
                lab == AtGamma /\ ev.pgs \in DOMAIN Tables
            IN [status |-> TRUE, group |-> TRUE, adm |-> adm,
                ground |-> GroundOK,
                partition |-> part,
                chars |-> shape,
                dim |-> shape /\ part => DimOK,
                acoustic |-> shape /\ part => AcousticOK,
                sumrule |-> shape => SumRuleOK,
                irreducible |-> shape /\ adm => IrreducibleOK,
                orthogonal |-> shape => OrthogonalOK,
                class |-> shape => ClassOK,
                pointgroup |-> PointGroupOK,
                labelled |-> lab => ev.vix >= 1 /\ ev.vix <= Len(Tables[ev.pgs]),
                symbols |-> lab /\ ev.vix >= 1 /\ ev.vix <= Len(Tables[ev.pgs]) => SymbolsOK,
                labels |-> lab /\ ev.vix >= 1 /\ ev.vix <= Len(Tables[ev.pgs]) /\ shape /\ part => SymbolsOK /\ LabelsOK]
  /\ pc' = "done"
  /\ UNCHANGED <<ev, gam>>

TNext == TLoad \/ TJudge

Holds(f) == pc = "done" => (f \in DOMAIN verdict => verdict[f])
(* machinery: the harness may only send admissible (q, mode) *)
WellFormed == Holds("adm")
ImplStatus == Holds("status")
ImplLittleGroup == Holds("group")
ImplGround == Holds("ground")
ImplPartition == Holds("partition")
ImplCharsExact == Holds("chars")
ImplDimension == Holds("dim")
ImplAcoustic == Holds("acoustic")
ImplSumRule == Holds("sumrule")
ImplIrreducible == Holds("irreducible")
ImplOrthogonal == Holds("orthogonal")
ImplClassFunction == Holds("class")
ImplPointGroup == Holds("pointgroup")
ImplLabelled == Holds("labelled")
ImplSymbols == Holds("symbols")
ImplLabels == Holds("labels")
Report == pc = "done" => PrintT(ToString(<<"V", ev.id, {f \in DOMAIN verdict : ~verdict[f]}>>))
(* the factor system and the multiplication table for the logged representatives (replayed on the irrep matrices) *)
MulTable == [k1 \in 1..NG |-> [k2 \in 1..NG |->
               LET k12 == IndexOfRot(gam, Mat3(MatMul(gam[k1].rot, gam[k2].rot)))
               IN <<k12, Factor(ev.qv, gam[k1], gam[k2], gam[k12], ev.cg)>>]]
ReportMul == pc = "done" /\ gam # <<>> => PrintT(ToString(<<"M", ev.id, MulTable>>))
=============================================================================
