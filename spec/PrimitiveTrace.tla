-------------------------- MODULE PrimitiveTrace --------------------------
(* Conformance of phonopy's Primitive with Primitive.tla.  One event = one   *)
(* call Primitive(supercell, inv(S).P) on the real code: ev.pin is the       *)
(* projected input (supercell atoms in the real order), ev.res the        *)
(* projected output (p2s_map, s2p_map, p2p_map, atomic_permutations, the     *)
(* primitive cell's own atoms), or status "error" when the code raised.      *)
EXTENDS Primitive

CONSTANT Events
VARIABLE ev
tvars == <<pvars, ev>>

TInit == ev \in Events /\ PInit(ev.pin)
TNext == PNext /\ UNCHANGED ev

AtEnd == pc = "done"
R == ev.res
Built == AtEnd /\ R.status = "built"

ImplP2S == Built => ReqP2S(ev.pin, R)
ImplS2P == Built => ReqS2P(ev.pin, R)
ImplPerms == Built => ReqPerms(ev.pin, R)
(* p2p_map inverts p2s_map *)
ImplP2P == Built => /\ Len(R.p2p) = Len(R.p2s)
                    /\ \A i \in 1..Len(R.p2s) : R.p2p[i] = <<R.p2s[i], i>>
(* the primitive cell's own atoms are the p2s atoms modulo the primitive lattice *)
ImplPrimAtoms == Built => /\ Len(R.pu) = Len(R.p2s)
                          /\ \A i \in 1..Len(R.p2s) : KeyP(ev.pin, R.pu[i]) = kP[R.p2s[i]]
(* positions_to_reorder honoured: primitive atom i sits at the i-th requested position (modulo LP) *)
ImplReorder == (Built /\ ev.pin.reorder # <<>>) =>
                 /\ Len(R.pu) = Len(ev.pin.reorder)
                 /\ \A i \in 1..Len(R.pu) : KeyP(ev.pin, R.pu[i]) = KeyP(ev.pin, ev.pin.reorder[i])
ImplPrimLattice == Built => R.latticeOK
ImplPrimAttributes == Built => R.attrsOK
ImplPrimExact == Built => R.exact
(* primitive_matrix="auto": what guess_primitive_matrix proposes must be accepted, and the cell it gives must be   *)
(* truly primitive - no two different atoms of the primitive cell are related by a translation symmetry of the  *)
(* crystal, i.e. the number of primitive cells equals the number of pure translations of the supercell crystal  *)
TranslationOf(x, k) == VSub(x.atoms[k].u, x.atoms[1].u)
IsCrystalTranslation(x, t) ==
  \A i \in 1..NA(x) : \E j \in 1..NA(x) :
      x.atoms[j].sp = x.atoms[i].sp /\ KeyS(x, VAdd(x.atoms[i].u, t)) = kS[j]
NumTranslations(x) ==
  Cardinality({k \in 1..NA(x) : x.atoms[k].sp = x.atoms[1].sp /\ IsCrystalTranslation(x, TranslationOf(x, k))})
ImplAutoIsPrimitive == (AtEnd /\ R.auto) => /\ R.status = "built"
                                           /\ Len(R.perms) = NumTranslations(ev.pin)
ImplAcceptsP == AtEnd => ReqAcceptsP(ev.pin, R)
ImplRejectsP == AtEnd => ReqRejectsP(ev.pin, R)

(* the machine itself satisfies the requirement (design-level) *)
InvMachine == AtEnd => RequirementP(inp, result) /\ ReqAcceptsP(inp, result) /\ ReqRejectsP(inp, result)

ConformsPStatus == AtEnd => R.status = result.status
ConformsPMaps == (Built /\ result.status = "built") =>
                   R.p2s = result.p2s /\ R.s2p = result.s2p /\ R.perms = result.perms
=============================================================================
