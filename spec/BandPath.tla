------------------------------ MODULE BandPath ------------------------------
(* X07(a): band-path requests -> sampled q-points.                           *)
(*   phonopy.phonon.band_structure.get_band_qpoints(band_paths, npoints,     *)
(*   rec_lattice) and get_band_qpoints_and_path_connections.                 *)
(*                                                                           *)
(* A request is a list of band paths; a band path is a list of >= 2 special  *)
(* points given by integer numerators over a common denominator den; every   *)
(* consecutive pair of special points of one band path is a SEGMENT.         *)
(*                                                                           *)
(* Requirement (documentation of get_band_qpoints / run_band_structure):     *)
(*   R1 one array of q-points per segment, in request order;                 *)
(*   R2 without rec_lattice every segment has npoints points "including end  *)
(*      points"; with rec_lattice the longest segment has npoints and the    *)
(*      others the nearest integer to npoints * length / longest length      *)
(*      ("sampled in a similar interval", lengths |rec_lattice . dq|), but   *)
(*      never fewer than the two end points;  exact ties of the rounding are *)
(*      not specified: both neighbours are accepted;                         *)
(*   R3 first and last point of a segment ARE its special points;            *)
(*   R4 the points of a segment are equally spaced (exact rationals);        *)
(*   R5 path_connections[s] is TRUE exactly when segment s+1 continues the   *)
(*      same band path as segment s (so the last one is FALSE), and a        *)
(*      connected joint is one shared q-point.                               *)
(* Lengths are compared exactly: |dq|^2 = n^T metric n / den^2 with the      *)
(* integer reciprocal metric (adjugate of the direct Gram matrix), so        *)
(*   r = round(N sqrt(a/b))  <=>  (2r-1)^2 b <= 4 N^2 a <= (2r+1)^2 b.       *)
EXTENDS IntLinAlg

(* ---------------------------------------------------------------- pure --- *)
RECURSIVE FlatSegs(_, _)
FlatSegs(paths, i) ==
  IF i > Len(paths) THEN <<>>
  ELSE [k \in 1..(Len(paths[i]) - 1) |-> [a |-> paths[i][k], b |-> paths[i][k + 1], pi |-> i]]
       \o FlatSegs(paths, i + 1)
Segs(paths) == FlatSegs(paths, 1)

V3(v) == <<v[1], v[2], v[3]>>
SegLen2(metric, sg) == QForm(metric, V3(VSub(sg.b, sg.a)))
MaxLen2(metric, sgs) == MaxOf({SegLen2(metric, sgs[s]) : s \in DOMAIN sgs})

(* r is a nearest integer to N * sqrt(a / b), 0 <= a <= b, b > 0 *)
IsNearest(r, N, a, b) ==
  /\ r >= 0
  /\ (r = 0 \/ (2 * r - 1) * (2 * r - 1) * b <= 4 * N * N * a)
  /\ 4 * N * N * a <= (2 * r + 1) * (2 * r + 1) * b
IsTie(r, N, a, b) == (2 * r + 1) * (2 * r + 1) * b = 4 * N * N * a
Clamp2(n) == IF n < 2 THEN 2 ELSE n

ReqConn(sgs) == [s \in DOMAIN sgs |-> s < Len(sgs) /\ sgs[s + 1].pi = sgs[s].pi]

(* R2 on a list of counts *)
ReqNptsOK(req, sgs, npts) ==
  /\ Len(npts) = Len(sgs)
  /\ IF req.uselen
     THEN \E big \in {MaxLen2(req.metric, sgs)} :
            /\ big > 0
            /\ \A s \in DOMAIN sgs :
                 \E r \in 0..(req.np + 1) : IsNearest(r, req.np, SegLen2(req.metric, sgs[s]), big) /\ npts[s] = Clamp2(r)
     ELSE \A s \in DOMAIN sgs : npts[s] = Clamp2(req.np)

(* the j-th of n points between a and b, as numerators over den * (n - 1) *)
ReqPoint(sg, n, j) == V3(VAdd(VScale(n - 1, sg.a), VScale(j - 1, VSub(sg.b, sg.a))))

(* R3, R4 on one logged segment of numerators over den * (Len - 1) *)
EndpointsOK(sg, pts) == \E n \in {Len(pts)} : n >= 2 /\ pts[1] = V3(VScale(n - 1, sg.a)) /\ pts[n] = V3(VScale(n - 1, sg.b))
EquallySpaced(pts) == \A j \in 1..(Len(pts) - 1) : V3(VSub(pts[j + 1], pts[j])) = V3(VSub(pts[2], pts[1]))

(* ------------------------------------------------------------- machine --- *)
(* one action per step of the code: counts (_get_npts), then one segment per *)
(* step (delta = (b - a) / (n - 1); points delta * j + a), then connections.  *)
CONSTANT Requests
VARIABLES pc, req, cnt, outn, outp, outc
vars == <<pc, req, cnt, outn, outp, outc>>

(* numpy.rint: nearest, ties to even *)
Rint(N, a, b) == CHOOSE r \in 0..(N + 1) : IsNearest(r, N, a, b) /\ (IsTie(r, N, a, b) => r % 2 = 0)
                                          /\ ((r > 0 /\ IsTie(r - 1, N, a, b)) => r % 2 = 0)
NptsCode(rq, sgs) ==
  IF rq.uselen
  THEN [s \in DOMAIN sgs |-> Clamp2(Rint(rq.np, SegLen2(rq.metric, sgs[s]), MaxLen2(rq.metric, sgs)))]
  ELSE [s \in DOMAIN sgs |-> Clamp2(rq.np)]
RECURSIVE ConnCode(_, _)
ConnCode(paths, i) == IF i > Len(paths) THEN <<>>
                      ELSE [k \in 1..(Len(paths[i]) - 2) |-> TRUE] \o <<FALSE>> \o ConnCode(paths, i + 1)
PointsCode(sg, n) == [j \in 1..n |-> V3(VAdd(VScale(j - 1, VSub(sg.b, sg.a)), VScale(n - 1, sg.a)))]

InitWith(r) == /\ req = r /\ pc = "npts" /\ cnt = 1 /\ outn = <<>> /\ outp = <<>> /\ outc = <<>>
Init == \E r \in Requests : InitWith(r)
StepNpts == /\ pc = "npts" /\ pc' = "seg"
            /\ outn' = Materialize(NptsCode(req, Segs(req.paths)))
            /\ UNCHANGED <<req, cnt, outp, outc>>
StepSeg == /\ pc = "seg" /\ cnt <= Len(outn)
           /\ outp' = Append(outp, Materialize(PointsCode(Segs(req.paths)[cnt], outn[cnt])))
           /\ cnt' = cnt + 1
           /\ UNCHANGED <<pc, req, outn, outc>>
StepConn == /\ pc = "seg" /\ cnt > Len(outn) /\ pc' = "done"
            /\ outc' = ConnCode(req.paths, 1)
            /\ UNCHANGED <<req, cnt, outn, outp>>
Next == StepNpts \/ StepSeg \/ StepConn
Done == pc = "done"

(* a connected joint is one q-point (numerators have different denominators) *)
JoinShared(pa, pb) == \E n \in {Len(pa)}, m \in {Len(pb)} : V3(VScale(m - 1, pa[n])) = V3(VScale(n - 1, pb[1]))

InvCount == Done => Len(outp) = Len(Segs(req.paths)) /\ \A s \in DOMAIN outp : Len(outp[s]) = outn[s]
InvNpts == Done => ReqNptsOK(req, Segs(req.paths), outn)
InvEndpoints == Done => \A s \in DOMAIN outp : EndpointsOK(Segs(req.paths)[s], outp[s])
InvSpacing == Done => \A s \in DOMAIN outp : EquallySpaced(outp[s])
InvPointwise == Done => \A s \in DOMAIN outp : \A j \in DOMAIN outp[s] : outp[s][j] = ReqPoint(Segs(req.paths)[s], outn[s], j)
InvConn == Done => outc = ReqConn(Segs(req.paths))
InvJoin == Done => \A s \in DOMAIN outc : outc[s] => JoinShared(outp[s], outp[s + 1])
InvLastOpen == Done => outc[Len(outc)] = FALSE
(* the longest segment gets npoints, nobody gets more, nobody fewer than 2 *)
InvLongest == Done => /\ \A s \in DOMAIN outn : outn[s] >= 2 /\ outn[s] <= Clamp2(req.np)
                      /\ \E s \in DOMAIN outn : outn[s] = Clamp2(req.np)
=============================================================================
