------------------------- MODULE TetrahedronTrace -------------------------
(* Conformance of phonopy's tetrahedron kernels with Tetrahedron.tla.        *)
(* One event = one vertex-value tuple v (central vertex first), one function *)
(* (I or J) and a list of frequencies ws, with the weight of the central     *)
(* vertex returned by each implementation at each frequency:                 *)
(*    val.C   phonopy._phonopy.tetrahedra_integration_weight                 *)
(*    val.CA  phonopy._phonopy.tetrahedra_integration_weight_at_omegas       *)
(*    val.Py  TetrahedronMethod(lang="Py")._get_integration_weight_py        *)
(* (harness/props/c11.py: the 24 rows of the kernel's input all carry the    *)
(* tuple, the result is divided by 4 = 24/6; values are projected to exact   *)
(* rationals, `exact` says the projection residual was below 1e-13).         *)
(* cls = "offtie" : no frequency of ws equals a vertex value; "tie": ws is   *)
(* the whole frequency grid including vertex values (the pinned code drops   *)
(* a tetrahedron there; the harness keys violations by kind).                *)
(* The step machine is run on (fn, v, ws[k]) for every k; at the end         *)
(*   Impl*     the requirement, evaluated on the LOGGED values               *)
(*   Conforms* logged value = the machine's value (repaired tie rule)        *)
EXTENDS Tetrahedron

CONSTANT Events
VARIABLES ev, wi
tvars == <<vars, ev, wi>>

TInit == Init /\ ev \in Events /\ wi = 0

TChoose ==
  /\ pc = "choose"
  /\ \E k \in 1..Len(ev.ws) :
       /\ wi' = k /\ omega' = ev.ws[k]
  /\ fn' = ev.fn /\ verts' = ev.v
  /\ pc' = "sort"
  /\ UNCHANGED <<srt, ci, kind, wt>>

TNext == (TChoose \/ ((SortVertices \/ CaseSplit \/ Weight) /\ UNCHANGED wi)) /\ UNCHANGED ev
TSpec == TInit /\ [][TNext]_tvars

Impls == DOMAIN ev.val
Logged(k) == ev.val[k][wi]

ImplExact == Done => \A k \in Impls : ev.exact[k][wi]

ImplWeight ==
  Done => LET lo == DefW(fn, verts, omega, "L", 1)
              hi == IF IsTie(verts, omega) THEN DefW(fn, verts, omega, "R", 1) ELSE lo
          IN \A k \in Impls : RBetween(lo, Logged(k), hi)

ImplRange ==
  Done => \A k \in Impls : /\ RLe(RZero, Logged(k))
                           /\ fn = "J" => RLe(Logged(k), Quarter)

ImplMonotone ==
  (Done /\ fn = "J") =>
     \A k \in Impls : \A j \in 1..Len(ev.ws) :
        ev.ws[j] > omega => RLe(Logged(k), ev.val[k][j])

(* ws is a list in any order (ascending, descending, shuffled, repeated        *)
(* values): the value at index wi depends on ws[wi] only - every requirement   *)
(* here is per index; equal frequencies get equal values                        *)
ImplPointwise ==
  Done => \A k \in Impls : \A j \in 1..Len(ev.ws) : ev.ws[j] = omega => ev.val[k][j] = Logged(k)

(* compiled and Python implementations agree *)
ImplAgree == Done => \A k1, k2 \in Impls : Logged(k1) = Logged(k2)

ConformsMachine == Done => \A k \in Impls : Logged(k) = wt
=============================================================================
