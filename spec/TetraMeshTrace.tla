--------------------------- MODULE TetraMeshTrace ---------------------------
(* Conformance of phonopy's mesh-level tetrahedron code with TetraMesh.tla.  *)
(* One event = one periodic integer field on a small mesh (harness/props/    *)
(* c11.py), with everything the real code computed for it:                   *)
(*   tabC    TetrahedronMethod(rec. lattice, mesh).tetrahedra  (compiled      *)
(*           table, origin first in every row)                                *)
(*   tabPy   TetrahedronMethod(..., lang="Py"): table and central indices     *)
(*   metric  integer Gram matrix of the microzone lattice (exact); metric0 of   *)
(*           the undivided reciprocal cell; differs = no diagonal is shortest   *)
(*           for both                                                           *)
(*   tabT, tabP, dosCls   relative grid addresses handed to the kernel by        *)
(*           TotalDos / ProjectedDos (recorded at run_tetrahedron_method_dos)    *)
(*           and their results [I][j][m] (m = projections, last = total)         *)
(*   tvC/tvPy  get_tetrahedra_frequencies(lang="C" / "Py") per irreducible    *)
(*           point: [r][b][t][k]                                              *)
(*   wC/wPy  TetrahedronMesh(lang="C"/"Py") integration weights x Ngp:        *)
(*           [f][r][b][j] as rationals                                        *)
(*   dosK    run_tetrahedron_method_dos (phpy_tetrahedron_method_dos):        *)
(*           ["I"][j][m], m = 1..NCoef projected, NCoef+1 total               *)
(*   asc, dosKasc, wCasc, wPyasc   the sorting permutation of cs.ws and the    *)
(*           same three calls with the frequency points in ascending order    *)
(*   exact   every float -> rational projection had a residual < 1e-12        *)
(*   cls     "offtie": no frequency of cs.ws coincides with a grid value;     *)
(*           "tie": some do (the pinned code drops such simplices; the harness *)
(*           keys violations by kind)                                          *)
(* Impl*: the requirement on the LOGGED values; Conforms*: logged = machine.  *)
EXTENDS TetraMesh

CONSTANT MEvents
VARIABLE mev
mtvars == <<mvars, vars, mev>>

MTInit == Init2 /\ mev \in MEvents

DiagOfTable(tab) == IF \E d \in 0..3 : TableContract(tab, d)
                    THEN CHOOSE d \in 0..3 : TableContract(tab, d) ELSE 0

TChooseCase ==
  /\ mpc = "choose"
  /\ cs' = [mev.cs EXCEPT !.diag = DiagOfTable(mev.tabC)]
  /\ mpc' = "table"
  /\ UNCHANGED <<table, tvals, geo, memo, iw, dw, dos, cw>> /\ UNCHANGED vars

MTNext == (TChooseCase \/ RelativeGridAddress \/ NeighbourLookup \/ Tabulate \/ Integrate \/ Accumulate)
          /\ UNCHANGED mev

After(states) == mpc \in states
Chosen == mpc # "choose"

ImplExact == mpc = "table" => mev.exact
ImplWellFormed == mpc = "table" => WellFormed(cs)
(* (each requirement is evaluated in one state of the behaviour: enough, and  *)
(* TLC does not re-evaluate it in the later ones)                             *)
ImplTableContractC == mpc = "table" => (\E d \in 0..3 : TableContract(mev.tabC, d))
ImplTableContractPy == mpc = "table" => TableContract(mev.tabPy, cs.diag)
ImplLookupC == mpc = "table" => ReqLookup(cs, mev.tabC, mev.tvC)
ImplLookupPy == mpc = "table" => ReqLookup(cs, mev.tabPy, mev.tvPy)
ImplGpWeightsC == mpc = "accumulate" => ReqGpWeights(cs, mev.wC, dw)
ImplGpWeightsPy == mpc = "accumulate" => ReqGpWeights(cs, mev.wPy, dw)
(* accumulate the logged weights the way the definition says *)
LoggedDos(wts) ==
  [f \in DOMAIN wts |->
     [j \in 1..Len(cs.ws) |->
        [m \in 1..Total(cs) |-> LET W(r, b, jj) == wts[f][r][b][jj] IN AccumulateOf(W, cs, j, m)]]]
ImplNormalisedC == MDone => ReqNormalised(cs, LoggedDos(mev.wC))
ImplNormalisedPy == MDone => ReqNormalised(cs, LoggedDos(mev.wPy))
ImplCellwiseC == MDone => ReqCellwise(cs, LoggedDos(mev.wC), cw)

ImplDosKernel == MDone => ReqDos(cs, mev.dosK, dw)
ImplDosKernelNonNegative == MDone => ReqNonNegative(cs, mev.dosK)
ImplDosKernelAdditive == MDone => ReqAdditive(cs, mev.dosK)

(* order of the frequency points: mev.asc sorts cs.ws; dosKasc / wCasc / wPyasc *)
(* are the same calls on the real code with the points in ascending order       *)
ImplAscIsOrder == mpc = "table" => IsAscendingOrder(cs, mev.asc)
ImplPointwiseKernel == MDone => ReqPointwise(cs, mev.dosK)
ImplOrderIndependentKernel == mpc = "table" => ReqSameAsAscending(cs, mev.asc, mev.dosK, mev.dosKasc)
WeightsByPoint(wts) ==   \* [f][j] |-> the weights of all (r, b) at point j
  [f \in DOMAIN wts |-> [j \in 1..Len(cs.ws) |->
     [x \in (1..Len(wts[f])) \X (1..NBands(cs)) |-> wts[f][x[1]][x[2]][j]]]]
ImplOrderIndependentMeshC ==
  mpc = "table" => ReqSameAsAscending(cs, mev.asc, WeightsByPoint(mev.wC), WeightsByPoint(mev.wCasc))
ImplOrderIndependentMeshPy ==
  mpc = "table" => ReqSameAsAscending(cs, mev.asc, WeightsByPoint(mev.wPy), WeightsByPoint(mev.wPyasc))

(* WHICH DIVISION.  The method cuts the MICROZONE - the cell spanned by the     *)
(* reciprocal basis vectors divided by the mesh numbers, b_i / n_i - along its  *)
(* shortest main diagonal (mev.metric is the exact integer Gram matrix of the   *)
(* microzone, mev.metric0 that of the undivided reciprocal cell).  Every table  *)
(* handed to the kernel - by TetrahedronMethod (tabC, tabPy), by TotalDos       *)
(* (tabT) and by ProjectedDos (tabP) - must be the table of a shortest          *)
(* diagonal of the microzone; total and projections must use the same one.      *)
TableOfShortest(tab) == \E d \in 0..3 : TableContract(tab, d) /\ ShortestDiagonal(mev.metric, d)
ImplShortestDiagonalC == mpc = "table" => TableOfShortest(mev.tabC)
ImplShortestDiagonalPy == mpc = "table" => TableOfShortest(mev.tabPy)
ImplShortestDiagonalTotalDos == mpc = "table" => TableOfShortest(mev.tabT)
ImplShortestDiagonalProjectedDos == mpc = "table" => TableOfShortest(mev.tabP)
ImplSameDivision == mpc = "table" => DiagOfTable(mev.tabT) = DiagOfTable(mev.tabP)
(* the harness's flag "scaling by the mesh changes the shortest diagonal" is    *)
(* re-derived here exactly (the harness requires such events to be present)     *)
ConformsDiffersFlag ==
  mpc = "table" => (mev.differs <=> ~(\E d \in 0..3 : ShortestDiagonal(mev.metric, d) /\ ShortestDiagonal(mev.metric0, d)))
(* TotalDos / ProjectedDos results: definition, additivity, non-negativity *)
ImplDosClasses == MDone => ReqDos(cs, mev.dosCls, dw)
ImplDosClassesAdditive == MDone => ReqAdditive(cs, mev.dosCls)
ImplDosClassesNonNegative == MDone => ReqNonNegative(cs, mev.dosCls)

(* conformance with the step machine *)
ConformsShortestDiagonal == mpc = "table" => ShortestDiagonal(mev.metric, cs.diag)
ConformsTablePy == mpc = "lookup" => mev.tabPy = table
ConformsLookupPy == mpc = "tabulate" => mev.tvPy = tvals
ConformsWeights ==
  mpc = "accumulate" =>
     \A f \in DOMAIN mev.wC : \A r \in 1..Len(mev.wC[f]) : \A b \in 1..NBands(cs) : \A j \in 1..Len(cs.ws) :
        mev.wC[f][r][b][j] = iw[f][r][b][j] /\ mev.wPy[f][r][b][j] = iw[f][r][b][j]
ConformsDosKernel ==
  MDone => \A j \in 1..Len(cs.ws) : \A m \in 1..Total(cs) :
             mev.dosK["I"][j][m] = dos["I"][j][m]
=============================================================================
