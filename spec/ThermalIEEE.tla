---------------------------- MODULE ThermalIEEE ----------------------------
(* C10, finiteness: an abstract-domain model of IEEE-754 binary64 evaluation  *)
(* of each CODED expression tree of the per-mode kernels (c/phonopy.c:        *)
(* get_free_energy, get_entropy, get_heat_capacity; thermal_properties.py:    *)
(* mode_F, mode_S, mode_cv) as a function of x = h nu / k T.                  *)
(*                                                                            *)
(* Abstract value: one of  nan | inf(sign) | zero | fin(sign, lo, hi) with    *)
(* 2^lo <= |v| <= 2^hi.  Every operation returns the SET of abstract values   *)
(* its IEEE result can have (overflow -> inf at 2^1024, underflow -> zero     *)
(* below 2^-1075, inf - inf, inf * 0, inf / inf, 0 / 0 -> nan); rounding to   *)
(* nearest is monotone and powers of two are representable, so the exponent   *)
(* enclosures are sound.  An x-class is an interval of x: "bin" a  =           *)
(* [2^a, 2^(a+1)],  "int" n = [n, n+1]; the primitives of x (exp, sinh, ...)   *)
(* are enclosed per class with 1.4426 < log2(e) < 1.4427.                      *)
(*                                                                            *)
(* Two variants of every tree are modelled: "pinned" (the tree of the pinned  *)
(* sources) and "stable" (the overflow-free forms with expm1 proposed in      *)
(* fixes/); which one the real code is, is identified by ThermalIEEETrace.    *)
(*                                                                            *)
(* Requirement: for every x-class in range no kernel result is nan or inf;    *)
(* the thermal free energy is <= 0; (stable forms) S and C_V are >= 0.        *)
(* Range assumed: 2^-40 <= x <= 2^23, 1e-3 K <= T <= 1e4 K.                   *)
EXTENDS Integers, Sequences, FiniteSets, TLC

CONSTANTS XClasses,    \* set of x-class records
          Langs,       \* subset of {"C", "Py"}
          VariantOf    \* [C |-> "pinned" | "stable", Py |-> ...]

VARIABLES pc, xc, lang, kern, variant, res
ivars == <<pc, xc, lang, kern, variant, res>>

EMAX == 1024
EMIN == -1075
MaxI(a, b) == IF a > b THEN a ELSE b
MinI(a, b) == IF a < b THEN a ELSE b

Nan == [c |-> "nan", s |-> 0, lo |-> 0, hi |-> 0]
Inf(s) == [c |-> "inf", s |-> s, lo |-> 0, hi |-> 0]
Zero == [c |-> "zero", s |-> 0, lo |-> 0, hi |-> 0]
Fin(s, lo, hi) == [c |-> "fin", s |-> s, lo |-> lo, hi |-> hi]

(* what a result of sign s and magnitude in [2^lo, 2^hi] becomes in binary64 *)
Norm(s, lo, hi) ==
  (IF lo < EMAX /\ hi >= EMIN THEN {Fin(s, MaxI(lo, EMIN), MinI(hi, EMAX))} ELSE {})
  \cup (IF hi >= EMAX THEN {Inf(s)} ELSE {})
  \cup (IF lo < -1074 THEN {Zero} ELSE {})

-----------------------------------------------------------------------------
(* arithmetic on abstract values *)
NegA(a) == IF a.c \in {"fin", "inf"} THEN [a EXCEPT !.s = -a.s] ELSE a

MulA(a, b) ==
  IF a.c = "nan" \/ b.c = "nan" THEN {Nan}
  ELSE IF (a.c = "inf" /\ b.c = "zero") \/ (a.c = "zero" /\ b.c = "inf") THEN {Nan}
  ELSE IF a.c = "inf" \/ b.c = "inf" THEN {Inf(a.s * b.s)}
  ELSE IF a.c = "zero" \/ b.c = "zero" THEN {Zero}
  ELSE Norm(a.s * b.s, a.lo + b.lo, a.hi + b.hi)

DivA(a, b) ==
  IF a.c = "nan" \/ b.c = "nan" THEN {Nan}
  ELSE IF (a.c = "inf" /\ b.c = "inf") \/ (a.c = "zero" /\ b.c = "zero") THEN {Nan}
  ELSE IF a.c = "inf" THEN (IF b.c = "zero" THEN {Inf(1), Inf(-1)} ELSE {Inf(a.s * b.s)})
  ELSE IF b.c = "zero" THEN {Inf(1), Inf(-1)}
  ELSE IF b.c = "inf" \/ a.c = "zero" THEN {Zero}
  ELSE Norm(a.s * b.s, a.lo - b.hi, a.hi - b.lo)

AddA(a, b) ==
  IF a.c = "nan" \/ b.c = "nan" THEN {Nan}
  ELSE IF a.c = "inf" /\ b.c = "inf" THEN (IF a.s = b.s THEN {a} ELSE {Nan})
  ELSE IF a.c = "inf" THEN {a}
  ELSE IF b.c = "inf" THEN {b}
  ELSE IF a.c = "zero" THEN {b}
  ELSE IF b.c = "zero" THEN {a}
  ELSE IF a.s = b.s THEN Norm(a.s, MaxI(a.lo, b.lo), MaxI(a.hi, b.hi) + 1)
  ELSE IF a.lo > b.hi THEN Norm(a.s, a.lo - 1, a.hi)          \* |a| >= 2 |b|
  ELSE IF b.lo > a.hi THEN Norm(b.s, b.lo - 1, b.hi)
  ELSE {Zero} \cup Norm(1, EMIN, MaxI(a.hi, b.hi)) \cup Norm(-1, EMIN, MaxI(a.hi, b.hi))   \* cancellation

SqA(a) ==
  IF a.c = "nan" THEN {Nan} ELSE IF a.c = "inf" THEN {Inf(1)} ELSE IF a.c = "zero" THEN {Zero}
  ELSE Norm(1, 2 * a.lo, 2 * a.hi)

(* |ln v| <= 1075 ln 2 < 2^10;  v = 1 -+ 2^-53 gives |ln v| >= 2^-54 *)
LogA(a) ==
  IF a.c = "nan" THEN {Nan}
  ELSE IF a.c = "zero" THEN {Inf(-1)}
  ELSE IF a.s = -1 THEN {Nan}
  ELSE IF a.c = "inf" THEN {Inf(1)}
  ELSE (IF a.lo <= 0 /\ a.hi >= 0 THEN {Zero} ELSE {})
       \cup (IF a.lo < 0 THEN {Fin(-1, IF a.hi < 0 THEN -1 ELSE -54, 10)} ELSE {})
       \cup (IF a.hi > 0 THEN {Fin(1, IF a.lo > 0 THEN -1 ELSE -54, 10)} ELSE {})

-----------------------------------------------------------------------------
(* enclosures of the primitives of x on a class *)
RECURSIVE FL2(_)
FL2(n) == IF n <= 1 THEN 0 ELSE 1 + FL2(n \div 2)           \* floor(log2 n)
CL2(n) == IF n <= 1 THEN 0 ELSE 1 + FL2(n - 1)               \* ceil(log2 n)

Small(c) == c.kind = "bin" /\ c.a < 0
Huge(c) == c.kind = "bin" /\ c.a >= 11
XLo(c) == IF c.kind = "bin" THEN c.a ELSE FL2(c.n)
XHi(c) == IF c.kind = "bin" THEN c.a + 1 ELSE CL2(c.n + 1)
(* floor / ceil of x log2(e) (half = FALSE) or (x/2) log2(e) (half = TRUE) *)
ELo(c, half) == IF Small(c) THEN 0
                ELSE IF Huge(c) THEN (IF half THEN 1477 ELSE 2954)
                ELSE (c.n * (IF half THEN 7213 ELSE 14426)) \div 10000
EHi(c, half) == IF Small(c) THEN (IF half THEN 1 ELSE 2)
                ELSE IF Huge(c) THEN 20000000
                ELSE ((c.n + 1) * (IF half THEN 7214 ELSE 14427) + 9999) \div 10000

Leaf(name, c) ==
  CASE name = "x"         -> Norm(1, XLo(c), XHi(c))
    [] name = "v"         -> Norm(1, XLo(c) - 1, XHi(c) - 1)                 \* v = x / 2
    [] name = "kb"        -> {Fin(1, -14, -13)}                               \* 8.617e-5
    [] name = "kbt"       -> {Fin(1, -24, 0)}                                 \* k T, 1e-3 K <= T <= 1e4 K
    [] name = "two"       -> {Fin(1, 1, 1)}
    [] name = "exp(x)"    -> Norm(1, ELo(c, FALSE), EHi(c, FALSE))
    [] name = "exp(-x)"   -> Norm(1, -EHi(c, FALSE), -ELo(c, FALSE))
    (* fl(fl(exp x) - 1): x >= 2^-40, so the rounding of exp costs at most a factor 1 + 2^-12 *)
    [] name = "exp(x)-1"  -> IF Small(c) THEN Norm(1, c.a - 1, c.a + 2) ELSE Norm(1, ELo(c, FALSE) - 1, EHi(c, FALSE))
    (* 1 - exp(-x) and -expm1(-x): in [x/2, x] for x < 1, in [1 - 1/e, 1] above *)
    [] name \in {"1-exp(-x)", "-expm1(-x)"} -> IF Small(c) THEN Norm(1, c.a - 2, c.a + 1) ELSE {Fin(1, -1, 0)}
    [] name = "expm1(-x)" -> IF Small(c) THEN Norm(-1, c.a - 2, c.a + 1) ELSE {Fin(-1, -1, 0)}
    (* sinh v in [v, 1.2 v] for v <= 1/2, in [e^v / 4, e^v / 2] above; cosh v in [1, 1.13], [e^v / 2, e^v] *)
    [] name = "sinh(v)"   -> IF Small(c) THEN Norm(1, c.a - 1, c.a + 1) ELSE Norm(1, ELo(c, TRUE) - 2, EHi(c, TRUE) - 1)
    [] name = "cosh(v)"   -> IF Small(c) THEN {Fin(1, 0, 1)} ELSE Norm(1, ELo(c, TRUE) - 1, EHi(c, TRUE))

-----------------------------------------------------------------------------
(* expression trees *)
L(name) == [op |-> "leaf", name |-> name]
Mul(a, b) == [op |-> "mul", a |-> a, b |-> b]
Div(a, b) == [op |-> "div", a |-> a, b |-> b]
Add(a, b) == [op |-> "add", a |-> a, b |-> b]
Sub(a, b) == [op |-> "sub", a |-> a, b |-> b]
Log(a) == [op |-> "log", a |-> a]
Sq(a) == [op |-> "sq", a |-> a]

RECURSIVE Ev(_, _)
Ev(t, c) ==
  CASE t.op = "leaf" -> Leaf(t.name, c)
    [] t.op = "mul" -> UNION {MulA(a, b) : a \in Ev(t.a, c), b \in Ev(t.b, c)}
    [] t.op = "div" -> UNION {DivA(a, b) : a \in Ev(t.a, c), b \in Ev(t.b, c)}
    [] t.op = "add" -> UNION {AddA(a, b) : a \in Ev(t.a, c), b \in Ev(t.b, c)}
    [] t.op = "sub" -> UNION {AddA(a, NegA(b)) : a \in Ev(t.a, c), b \in Ev(t.b, c)}
    [] t.op = "log" -> UNION {LogA(a) : a \in Ev(t.a, c)}
    [] t.op = "sq"  -> UNION {SqA(a) : a \in Ev(t.a, c)}

(* ---- the coded trees ------------------------------------------------------ *)
(* pinned c/phonopy.c *)
(*   KB * temperature * log(1 - exp(-f / (KB * temperature)))                  *)
FthPinned == Mul(L("kbt"), Log(L("1-exp(-x)")))
(*   val = f / (2 KB T);  1 / (2 T) * f * cosh(val) / sinh(val) - KB * log(2 * sinh(val));  f / (2 T) = KB val *)
SPinned == Sub(Div(Mul(Mul(L("kb"), L("v")), L("cosh(v)")), L("sinh(v)")), Mul(L("kb"), Log(Mul(L("two"), L("sinh(v)")))))
(*   val1 = exp(val); val2 = val / (val1 - 1); KB * val1 * val2 * val2 *)
CvPinnedC == LET v2 == Div(L("x"), L("exp(x)-1")) IN Mul(Mul(Mul(L("kb"), L("exp(x)")), v2), v2)
(* pinned thermal_properties.py *)
(*   mode_F:  Kb * temp * log(1.0 - exp(-freqs / (Kb * temp))) + freqs / 2     *)
FPinnedPy == Add(FthPinned, Mul(L("kbt"), L("v")))
(*   mode_cv: Kb * x**2 * expVal / (expVal - 1.0) ** 2                         *)
CvPinnedPy == Div(Mul(Mul(L("kb"), Sq(L("x"))), L("exp(x)")), Sq(L("exp(x)-1")))
(* stable forms (fixes/c10-thermal-properties.md) *)
FthStable == Mul(L("kbt"), Log(L("-expm1(-x)")))
FStablePy == Add(FthStable, Mul(L("kbt"), L("v")))
(*   KB * (val * exp(-val) / -expm1(-val) - log(-expm1(-val))) *)
SStable == Mul(L("kb"), Sub(Div(Mul(L("x"), L("exp(-x)")), L("-expm1(-x)")), Log(L("-expm1(-x)"))))
(*   val1 = exp(-val); val2 = val / expm1(-val); KB * val1 * val2 * val2 *)
CvStableC == LET v2 == Div(L("x"), L("expm1(-x)")) IN Mul(Mul(Mul(L("kb"), L("exp(-x)")), v2), v2)
(*   Kb * x**2 * exp(-x) / expm1(-x) ** 2 *)
CvStablePy == Div(Mul(Mul(L("kb"), Sq(L("x"))), L("exp(-x)")), Sq(L("expm1(-x)")))

Tree(var, lg, k) ==
  IF var = "pinned"
    THEN CASE k = "F" -> (IF lg = "C" THEN FthPinned ELSE FPinnedPy)
           [] k = "S" -> SPinned
           [] k = "Cv" -> (IF lg = "C" THEN CvPinnedC ELSE CvPinnedPy)
    ELSE CASE k = "F" -> (IF lg = "C" THEN FthStable ELSE FStablePy)
           [] k = "S" -> SStable
           [] k = "Cv" -> (IF lg = "C" THEN CvStableC ELSE CvStablePy)

-----------------------------------------------------------------------------
(* the machine: choose a class and a kernel of a code path, evaluate its tree *)
Kernels == {"F", "S", "Cv"}

Init == /\ pc = "eval" /\ xc \in XClasses /\ lang \in Langs /\ kern \in Kernels
        /\ variant = VariantOf[lang] /\ res = {}

EvalF  == pc = "eval" /\ kern = "F"  /\ res' = Ev(Tree(variant, lang, "F"), xc)  /\ pc' = "done" /\ UNCHANGED <<xc, lang, kern, variant>>
EvalS  == pc = "eval" /\ kern = "S"  /\ res' = Ev(Tree(variant, lang, "S"), xc)  /\ pc' = "done" /\ UNCHANGED <<xc, lang, kern, variant>>
EvalCv == pc = "eval" /\ kern = "Cv" /\ res' = Ev(Tree(variant, lang, "Cv"), xc) /\ pc' = "done" /\ UNCHANGED <<xc, lang, kern, variant>>
Next == EvalF \/ EvalS \/ EvalCv

-----------------------------------------------------------------------------
(* requirement *)
Finite(r) == r.c \in {"fin", "zero"}
InvFinite == pc = "done" => \A r \in res : Finite(r)
InvEvaluates == pc = "done" => res # {}
InvThermalFreeEnergyNonPositive ==
  (pc = "done" /\ kern = "F" /\ lang = "C") => \A r \in res : Finite(r) => (r.c = "zero" \/ r.s = -1)
InvNonNegativeStable ==
  (pc = "done" /\ kern \in {"S", "Cv"} /\ variant = "stable") => \A r \in res : Finite(r) => (r.c = "zero" \/ r.s = 1)

(* class spaces *)
BinClasses(lo, hi) == {[kind |-> "bin", a |-> a, n |-> 0] : a \in lo..hi}
IntClasses(lo, hi) == {[kind |-> "int", a |-> 0, n |-> n] : n \in lo..hi}
AllClasses == BinClasses(-40, -1) \cup IntClasses(1, 2047) \cup BinClasses(11, 22)
=============================================================================
