------------------------------ MODULE NACLayout ------------------------------
(* C08: the correction depends on the VALUES of the Born charges and of the  *)
(* dielectric tensor only, not on how the arrays handed in are laid out in   *)
(* memory.                                                                   *)
(*                                                                           *)
(* Anchors: DynamicalMatrixNAC._set_basic_nac_params (stores the tensors the *)
(* compiled kernels read through raw pointers), Phonopy.nac_params,          *)
(* symmetrize_borns_and_epsilon (zeros_like keeps the layout handed in),     *)
(* DynamicalMatrixWang/GL constructors, DynamicalMatrixNAC.nac_params.       *)
(*                                                                           *)
(* An array is (values, layout); every layout carries the same values.       *)
(* Store(entry, layout) hands it in, Query evaluates at the zone centre      *)
(* along a direction and at an arbitrary q.  Requirement: the answer is that *)
(* of the values, i.e. the same for every layout, the tensors the object     *)
(* shows are the values, and the zone-centre limit is the K(n) of NAC.tla    *)
(* for those values.                                                         *)
EXTENDS TLC, FiniteSets

CONSTANT Observed   \* set of [entry, method, layout, which, shown, gamma, same] recorded from the implementation

Layouts == {"C", "F", "transposed_view", "strided_view", "float32", "lists"}
Entries == {"phonopy", "constructor", "setter"}
Methods == {"wang", "gonze"}
Which == {"born", "dielectric", "both"}      \* which tensor is handed in with the layout (the other one C-contiguous)

VARIABLES pc, entry, method, layout, which, stored, answer
vars == <<pc, entry, method, layout, which, stored, answer>>

Init ==
  /\ pc = "hand_in" /\ entry \in Entries /\ method \in Methods /\ layout \in Layouts /\ which \in Which
  /\ stored = "none" /\ answer = "none"

(* the object keeps the values (a C-contiguous double copy of them) *)
Store ==
  /\ pc = "hand_in"
  /\ stored' = "values"
  /\ pc' = "stored"
  /\ UNCHANGED <<entry, method, layout, which, answer>>

Query ==
  /\ pc = "stored"
  /\ answer' = stored
  /\ pc' = "done"
  /\ UNCHANGED <<entry, method, layout, which, stored>>

Next == Store \/ Query
Spec == Init /\ [][Next]_vars

ReqValuesOnly == pc = "done" => answer = "values"

(* recorded: shown - dm.born / dm.dielectric_constant equal the values; gamma - the zone-centre limit is the  *)
(* specification's K(n) of the values; same - zone centre and arbitrary q equal the answer of layout "C"     *)
Match(o) == o.entry = entry /\ o.method = method /\ o.layout = layout /\ o.which = which
ImplValuesOnly == pc = "done" => \A o \in Observed : Match(o) => (o.shown /\ o.gamma /\ o.same)
ObservedComplete == pc = "done" => (Observed = {} \/ \E o \in Observed : Match(o))
=============================================================================
