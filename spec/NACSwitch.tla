----------------------------- MODULE NACSwitch -----------------------------
(* Which correction is applied for which (q, direction): the zone-centre    *)
(* switch of DynamicalMatrixNAC.run (Q_DIRECTION_TOLERANCE), of the compiled *)
(* kernels (c/dynmat.c: get_dynmat_want, get_dd) and of the callers          *)
(* (Phonopy.run_qpoints -> run_dynamical_matrix_solver_c, band structure).   *)
(*                                                                          *)
(* Abstract inputs: qZero (|q| < tolerance), dir in {"none", "given"} (a     *)
(* non-zero direction or none), the call route and the method.  Outcome:    *)
(*   "plain" - no correction,                                                *)
(*   "Kdir"  - the zone-centre limit along the given direction,              *)
(*   "Kq"    - the method's correction computed from q itself.               *)
(* One action per step of the code.                                          *)
EXTENDS TLC, FiniteSets

CONSTANT Observed   \* set of [route, method, qZero, dir, outcome] recorded from the implementation ({} in model runs)

Routes == {"dmrun", "solver", "band"}
Methods == {"wang", "gonze"}
Dirs == {"none", "given"}

VARIABLES pc, route, method, qZero, dir, passedDir, outcome
vars == <<pc, route, method, qZero, dir, passedDir, outcome>>

Init ==
  /\ pc = "call" /\ route \in Routes /\ method \in Methods /\ qZero \in BOOLEAN /\ dir \in Dirs
  /\ passedDir = "none" /\ outcome = "none"
  /\ (route = "band" => dir = "given")      \* a band path through the zone centre always defines a direction

(* the caller decides what to hand down *)
Caller ==
  /\ pc = "call"
  /\ passedDir' = dir
  /\ pc' = CASE route = "dmrun" -> "dmrun"           \* DynamicalMatrixNAC.run(q, q_direction)
             [] route = "band" -> "dmrun"            \* BandStructure._solve_dm_on_path: run(q, q_direction=path[0]-path[-1])
             [] route = "solver" -> "kernel"         \* run_qpoints (OpenMP build): straight to the compiled solver
  /\ UNCHANGED <<route, method, qZero, dir, outcome>>

(* DynamicalMatrixNAC.run: the norm tested is that of the direction when one is given, of q otherwise *)
DMRun ==
  /\ pc = "dmrun"
  /\ LET small == IF passedDir = "none" THEN qZero ELSE FALSE     \* a given direction is non-zero
     IN  IF small THEN /\ outcome' = "plain" /\ pc' = "done"
                  ELSE /\ outcome' = outcome /\ pc' = "kernel"
  /\ UNCHANGED <<route, method, qZero, dir, passedDir>>

(* get_dynmat_want / get_dd: the direction is looked at only where |q| (resp. |q + G|) is below the tolerance *)
Kernel ==
  /\ pc = "kernel"
  /\ outcome' = IF qZero THEN (IF passedDir = "given" THEN "Kdir" ELSE "plain") ELSE "Kq"
  /\ pc' = "done"
  /\ UNCHANGED <<route, method, qZero, dir, passedDir>>

Next == Caller \/ DMRun \/ Kernel
Spec == Init /\ [][Next]_vars

-----------------------------------------------------------------------------
(* requirement *)
Required(qz, d) == IF qz THEN (IF d = "given" THEN "Kdir" ELSE "plain") ELSE "Kq"

ReqSwitch == pc = "done" => outcome = Required(qZero, dir)
(* a direction is used only at the zone centre *)
ReqDirectionOnlyAtGamma == (pc = "done" /\ outcome = "Kdir") => qZero

(* the implementation's recorded outcomes: requirement on them, and agreement with the machine *)
ImplSwitch == pc = "done" => \A o \in Observed : o.outcome = Required(o.qZero, o.dir)
ConformsSwitch ==
  pc = "done" => \A o \in Observed :
     (o.route = route /\ o.method = method /\ o.qZero = qZero /\ o.dir = dir) => o.outcome = outcome
(* every cell of the table was observed *)
ObservedComplete ==
  pc = "done" => Observed = {} \/ \A r \in Routes, m \in Methods, qz \in BOOLEAN, d \in Dirs :
     (r = "band" => d = "given") => \E o \in Observed : o.route = r /\ o.method = m /\ o.qZero = qz /\ o.dir = d
=============================================================================
