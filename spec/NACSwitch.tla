----------------------------- MODULE NACSwitch -----------------------------
(* Which correction is applied for which (q, direction): the zone-centre    *)
(* switch of DynamicalMatrixNAC.run (Q_DIRECTION_TOLERANCE), of the compiled *)
(* kernels (c/dynmat.c: get_dynmat_want, get_dd) and of the callers          *)
(* (Phonopy.run_qpoints -> run_dynamical_matrix_solver_c, band structure).   *)
(*                                                                          *)
(* LENGTHS are Cartesian, in 1/Angstrom, compared with the documented        *)
(* tolerance DynamicalMatrixNAC.Q_DIRECTION_TOLERANCE = 1e-5 (the harness    *)
(* reads the constant from the module).  Abstract inputs:                    *)
(*   qlen in {"zero", "tiny", "finite"}:  |q| < tolerance;  tolerance < |q|  *)
(*         <= 1e-2;  a generic q;                                            *)
(*   dir  in {"none", "given"} and, for a given direction, its length class  *)
(*   dlen in {"above", "below"}:  |n| > tolerance - the direction selects    *)
(*         the direction-dependent term, WHATEVER its length (the limit term *)
(*         is homogeneous of degree 0 in n); |n| < tolerance means "no       *)
(*         direction" (DynamicalMatrixNAC.run only, at the zone centre).     *)
(* Outcome:                                                                  *)
(*   "plain" - no correction,                                                *)
(*   "Kdir"  - the zone-centre limit along the given direction,              *)
(*   "Kq"    - the method's correction computed from q itself (for a tiny q  *)
(*             this is the analytic term along q).                           *)
(* One action per step of the code.                                          *)
EXTENDS TLC, FiniteSets

CONSTANT Observed   \* set of [route, method, qlen, dir, dlen, scale, outcome] recorded from the implementation

Routes == {"dmrun", "solver", "band"}
Methods == {"wang", "gonze"}
Dirs == {"none", "given"}
QLens == {"zero", "tiny", "finite"}
DLens == {"above", "below"}

VARIABLES pc, route, method, qlen, dir, dlen, passedDir, outcome
vars == <<pc, route, method, qlen, dir, dlen, passedDir, outcome>>

Init ==
  /\ pc = "call" /\ route \in Routes /\ method \in Methods /\ qlen \in QLens /\ dir \in Dirs /\ dlen \in DLens
  /\ passedDir = "none" /\ outcome = "none"
  /\ (route = "band" => dir = "given")      \* a band path through the zone centre always defines a direction
  /\ (dir = "none" => dlen = "above")       \* no direction: the length class is immaterial
  /\ (dlen = "below" => (route = "dmrun" /\ qlen = "zero"))   \* domain of the statement about short directions

(* the caller decides what to hand down *)
Caller ==
  /\ pc = "call"
  /\ passedDir' = dir
  /\ pc' = CASE route = "dmrun" -> "dmrun"           \* DynamicalMatrixNAC.run(q, q_direction)
             [] route = "band" -> "dmrun"            \* BandStructure._solve_dm_on_path: run(q, q_direction=path[0]-path[-1])
             [] route = "solver" -> "kernel"         \* run_qpoints (OpenMP build): straight to the compiled solver
  /\ UNCHANGED <<route, method, qlen, dir, dlen, outcome>>

(* DynamicalMatrixNAC.run: the LENGTH (not its square) of the direction when one is given, of q otherwise, *)
(* is compared with the tolerance                                                                           *)
DMRun ==
  /\ pc = "dmrun"
  /\ LET small == IF passedDir = "none" THEN qlen = "zero" ELSE dlen = "below"
     IN  IF small THEN /\ outcome' = "plain" /\ pc' = "done"
                  ELSE /\ outcome' = outcome /\ pc' = "kernel"
  /\ UNCHANGED <<route, method, qlen, dir, dlen, passedDir>>

(* get_dynmat_want / get_dd: the direction is looked at only where |q| (resp. |q + G|) is below the tolerance *)
Kernel ==
  /\ pc = "kernel"
  /\ outcome' = IF qlen = "zero" THEN (IF passedDir = "given" THEN "Kdir" ELSE "plain") ELSE "Kq"
  /\ pc' = "done"
  /\ UNCHANGED <<route, method, qlen, dir, dlen, passedDir>>

Next == Caller \/ DMRun \/ Kernel
Spec == Init /\ [][Next]_vars

-----------------------------------------------------------------------------
(* requirement: a direction counts iff it is longer than the tolerance; nothing else about its length matters *)
Effective(d, dl) == IF d = "given" /\ dl = "above" THEN "given" ELSE "none"
Required(ql, d, dl) == IF ql = "zero" THEN (IF Effective(d, dl) = "given" THEN "Kdir" ELSE "plain") ELSE "Kq"

ReqSwitch == pc = "done" => outcome = Required(qlen, dir, dlen)
(* a direction is used only at the zone centre *)
ReqDirectionOnlyAtGamma == (pc = "done" /\ outcome = "Kdir") => qlen = "zero"
(* a tiny but non-zero q is not the zone centre: the correction is there *)
ReqTinyQCorrected == (pc = "done" /\ qlen = "tiny") => outcome = "Kq"

(* the implementation's recorded outcomes (every rung of the length ladder is one observation): requirement *)
(* on them, and agreement with the machine                                                                 *)
ImplSwitch == pc = "done" => \A o \in Observed : o.outcome = Required(o.qlen, o.dir, o.dlen)
Match(o) == o.route = route /\ o.method = method /\ o.qlen = qlen /\ o.dir = dir /\ o.dlen = dlen
ConformsSwitch == pc = "done" => \A o \in Observed : Match(o) => o.outcome = outcome
(* every cell of the table was observed *)
ObservedComplete == pc = "done" => (Observed = {} \/ \E o \in Observed : Match(o))
=============================================================================
