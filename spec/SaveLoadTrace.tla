-------------------------- MODULE SaveLoadTrace --------------------------
(* Conformance of Phonopy.save / phonopy.load with SaveLoad.tla.            *)
(* Every event is one real  save(settings, compression) ; load(args)  in a  *)
(* working directory populated as the event's env says                      *)
(* (harness/props/c16.py, harness/c16_world.py), with                        *)
(*   w   - what the saved text contains (read off the file, abstract yaml)  *)
(*   obs - the loaded object projected to the abstract `loaded` record: the *)
(*         source of every field identified by its content (each candidate  *)
(*         source carries different numbers), dataset type, layout, and     *)
(*   obs.q - per field an integer error class against the source it came   *)
(*         from: 0 identical, 1 within half a unit of the last written      *)
(*         decimal of that field's format (TextCodec.tla), >1 worse.        *)
(* The machine is run on the event's configuration; at the end              *)
(*   Impl...     the requirement of C16 evaluated on the LOGGED outcome     *)
(*               (a failure is a violation of the property),                 *)
(*   Conforms... the logged outcome is the machine's outcome (a failure     *)
(*               with the requirement intact is specification drift: the    *)
(*               priority rules as implemented differ from the model).      *)
(* event fields eo, es, ec, ea, ee = object, settings, compression, arguments, ambient files *)
(* (named differently from the variables: SANY's linter warns about every clash, slowly)       *)
EXTENDS SaveLoad

CONSTANT Events
VARIABLE ev
tvars == <<vars, ev>>
E == ev

TInit == Init /\ ev \in Events

TChoose ==
  /\ pc = "choose"
  /\ obj' = E.eo /\ st' = E.es /\ comp' = E.ec /\ args' = E.ea /\ env' = E.ee
  /\ pc' = "save"
  /\ UNCHANGED <<yaml, rd, ld>>

TNext == (TChoose \/ Save \/ ReadYaml \/ Construct \/ SelectNAC \/ SelectDataset \/ SelectFC \/ Produce)
         /\ UNCHANGED ev
TSpec == TInit /\ [][TNext]_tvars

AtEnd == pc = "done"
O == E.obs
Core(r) == [status |-> r.status, calc |-> r.calc, ds |-> r.ds, fc |-> [src |-> r.fc.src, layout |-> r.fc.layout], nac |-> r.nac,
            cell |-> r.cell, np |-> r.np]
UnitsClass(c) == IF c = "qe" THEN "qe" ELSE "std"
(* the logged record in the vocabulary of the requirement *)
R == [status |-> O.status, why |-> O.why, calc |-> O.calc, units |-> O.calc, ds |-> O.ds, fc |-> O.fc, nac |-> O.nac,
      cell |-> O.cell, np |-> O.np]
OkObs == O.status = "ok"

(* ---- requirement on the logged outcome ---- *)
ImplCalculator == AtEnd /\ OkObs => /\ (E.ea.calcArg = "none" /\ FromFile(E.ea) => O.calc = E.eo.calc)
                                    /\ O.units = UnitsClass(O.calc)
ImplDataset == AtEnd => ReqDataset(E.eo, E.es, E.ea, R) /\ ReqDisplacements(E.eo, E.es, E.ea, E.ee, R)
ImplForceConstants == AtEnd => ReqForceConstants(E.eo, E.es, E.ea, R)
ImplNac == AtEnd => ReqNac(E.eo, E.es, E.ea, R)
ImplPhononsFromSaved == AtEnd => ReqPhononsFromSaved(E.eo, E.es, E.ea, E.ee, R) /\ ReqNothingInvented(E.eo, E.es, E.ea, E.ee, R)
ImplSaveRule == AtEnd => ReqSaveRule(E.eo, E.es, E.w)
ImplNoAmbientCapture == AtEnd => ReqNoAmbientCapture(E.eo, E.es, E.ea, R) /\ ReqCellArgument(E.ea, R)
ImplExplicitBeatsAmbient == AtEnd => ReqExplicitBeatsAmbient(E.ea, R)
(* loading what save() wrote never fails; the exceptions are the missing solver for a      *)
(* type-2 dataset with forces offered by some source, a structure file read with another  *)
(* calculator's reader, and a tolerance tighter than the calculation's handed to load()   *)
Type2Offered == (E.eo.ds.type = 2 /\ E.eo.ds.forces /\ On(E.es.fs)) \/ E.ea.fsFile = 2 \/ E.ee.FS = 2
ImplLoads == AtEnd /\ O.status = "raised" =>
               \/ O.why = "solver" /\ ~HasFcSolver /\ Type2Offered /\ E.ea.produceFc
               \/ O.why = "structure" /\ CellSrc(E.ea) \in {"ucfile", "scfile"} /\ Reader(E.ea.calcArg) # E.ea.fmt
               \/ O.why = "symmetry" /\ E.eo.cell.fragile /\ E.eo.np.tol = "loose"
                                      /\ (E.ea.np.tol = "default" \/ ~FromFile(E.ea))
               \/ O.why = "dataset" /\ E.eo.np.issym /\ ~E.ea.np.issym /\ ~E.eo.cell.allIndep /\ E.ea.produceFc
(* what save() does not record *)
ImplAtomOrder == AtEnd => ReqAtomOrder(E.eo, E.ea, R)
ImplTolerance == AtEnd => ReqTolerance(E.eo, E.ea, R)
ImplSameOptions == AtEnd => ReqSameOptions(E.eo, E.ea, R)
ImplCellPriority == AtEnd => ReqCellPriority(E.eo, E.ea, R)
(* the declared effect of an own frequency factor: the reloaded frequencies are the      *)
(* original ones times default/own (or own/default), nothing else (scale as observed)     *)
ImplPhononScale == AtEnd /\ OkObs /\ O.q.phonons >= 0 => O.scale = PhononScale(E.eo, R)

(* the crystal: cells, matrices, symbols (extended ones included), masses, moments *)
ImplCells ==
  AtEnd /\ OkObs =>
    /\ O.q.symbols /\ O.q.smat /\ O.q.maps
    /\ O.q.lattice <= 1 /\ O.q.positions <= 1 /\ O.q.pmat <= 1
    /\ O.q.masses <= 1 /\ O.q.magmoms <= 1
(* numbers of every loaded field agree with the source they came from to the written precision; *)
(* a field whose content matches no candidate source has src = "unknown"                        *)
ImplNumbers ==
  AtEnd /\ OkObs =>
    /\ O.q.ds <= 1 /\ O.q.fc <= 1 /\ O.q.nac <= 1
    /\ O.ds.src # "unknown" /\ O.fc.src # "unknown" /\ O.nac.src # "unknown"
    /\ O.nac.factor \notin {"unknown", "missing"}
(* a written zero is a value: every number of the saved dataset / force constants / NAC parameters that is 0.0, -0.0 or   *)
(* prints as zero at the decimals of its format comes back as zero and its field is PRESENT (q.zeros: 0 yes, 9 no); the    *)
(* energies of a type-1 dataset are judged per displaced supercell                                                       *)
ImplZeros == AtEnd /\ OkObs => O.q.zeros = 0
(* the same phonons (error class of the frequencies at the sampled q-points; negative = not compared) *)
ImplPhonons == AtEnd /\ OkObs => O.q.phonons <= 1
(* whenever the saved file determines the force data and NAC of the reloaded object, phonons were compared *)
Comparable ==
  /\ OkObs /\ E.ea.calcArg = "none" /\ FromFile(E.ea)
  /\ O.np.order = Order(E.eo, E.eo.np.snf) /\ O.np.tol = E.eo.np.tol    \* same atoms, same symmetry search
  /\ (O.fc.src = "yaml" \/ (O.fc.src = "produced" /\ O.fc.sym /\ O.ds.src = "yaml" /\ DerivedFcComparable(E.eo, R)))
  /\ ((E.eo.nac.kind = "none" /\ O.nac.src = "none") \/ O.nac.src = "yaml")
(* -2: comparable but skipped for the time budget (costly Gonze-Lee NAC), decided by the harness's seed *)
ImplPhononsCompared == AtEnd /\ Comparable => O.q.phonons # -1

(* ---- the logged outcome is the machine's outcome ---- *)
ConformsWritten == AtEnd => E.w = [calc |-> yaml.calc, ds |-> yaml.ds, fc |-> yaml.fc, nac |-> yaml.nac,
                                   tol |-> yaml.tol, ffac |-> yaml.ffac]
(* container: what the bytes of the file are; named: what its name says *)
ConformsContainer == AtEnd => E.container = yaml.container /\ E.named = yaml.container
ConformsStatus == AtEnd => O.status = ld.status /\ O.why = ld.why
ConformsLoaded == AtEnd /\ OkObs /\ ld.status = "ok" => Core(R) = Core(ld)
ConformsSymmetrized == AtEnd /\ OkObs /\ ld.status = "ok" /\ ld.fc.src = "produced" => O.fc.sym = ld.fc.sym
=============================================================================
