------------------------------- MODULE DosApi -------------------------------
(* C11, API level: Phonopy.run_mesh -> run_total_dos / run_projected_dos     *)
(* (phonon/dos.py TotalDos, ProjectedDos, run_tetrahedron_method_dos) on the *)
(* spring-model crystals of Catalogue.tla, as a trace specification.         *)
(*                                                                            *)
(* The frequencies of these crystals are square roots of eigenvalues, i.e.    *)
(* outside the exact domain of the specification (DESIGN 2.3).  The           *)
(* specification therefore names the quantities and states the requirement    *)
(* on them; the harness evaluates each named comparison in binary64 against   *)
(* the numpy realisation of the definition (harness/c11_tetra.py, validated   *)
(* against the exact values of Tetrahedron.tla) and logs the outcome:         *)
(*   a comparison is logged as the class "ok" (residual <= tolerance),       *)
(*   "off" (residual above) or "nan" (not finite); integer facts are logged   *)
(*   exactly.                                                                 *)
(*                                                                            *)
(* One event = one session:                                                   *)
(*   RunMesh(mesh, symmetry)  -> number of bands, grid size                   *)
(*   RunTotalDos(method)      -> total DOS on a frequency grid                *)
(*   RunProjectedDos(kind)    -> projected DOS (atoms | xyz | direction triad)*)
(*   RunReordered(order)      -> the same on a descending / shuffled grid     *)
(*   RunSmearing(fn, width)   -> total + projected DOS, Normal and Cauchy     *)
(*   RunPresented(present)    -> window arguments as int / float / numpy scalars *)
(* Steps are taken in the order of the event's step list.                     *)
EXTENDS Integers, Sequences, FiniteSets, TLC

CONSTANT Sessions
VARIABLES ses, k, meshDone, totalDone

avars == <<ses, k, meshDone, totalDone>>

Methods == {"tetrahedron", "normal", "cauchy"}
Classes == {"ok", "off", "nan"}

AInit == ses \in Sessions /\ k = 0 /\ meshDone = FALSE /\ totalDone = FALSE

Cur == ses.steps[k]
HasCur == k >= 1 /\ k <= Len(ses.steps)

Advance(name) ==
  /\ k < Len(ses.steps)
  /\ ses.steps[k + 1].op = name
  /\ k' = k + 1
  /\ UNCHANGED ses

RunMesh == Advance("mesh") /\ meshDone' = TRUE /\ UNCHANGED totalDone
(* the code raises unless run_mesh has been called *)
RunTotalDos == Advance("total") /\ meshDone /\ totalDone' = TRUE /\ UNCHANGED meshDone
(* projected DOS needs eigenvectors and the full grid *)
RunProjectedDos == Advance("projected") /\ meshDone /\ UNCHANGED <<meshDone, totalDone>>

(* the same DOS on a frequency grid that is not ascending: descending window  *)
(* (freq_min > freq_max, negative pitch) through the API, shuffled / repeated  *)
(* points through run_tetrahedron_method_dos and TetrahedronMesh               *)
RunReordered == Advance("reordered") /\ meshDone /\ UNCHANGED <<meshDone, totalDone>>

(* smearing method for one smearing FUNCTION ("normal" | "cauchy") and one     *)
(* width: TotalDos and, on the full grid, ProjectedDos (atoms and xyz) on the  *)
(* same frequency grid, which reaches into gaps and tails many widths away     *)
(* from every mode                                                              *)
RunSmearing == Advance("smearing") /\ meshDone /\ UNCHANGED <<meshDone, totalDone>>

(* the frequency window given in another PRESENTATION of the same values:      *)
(* freq_min / freq_max / freq_pitch as Python int, float, numpy int64 or        *)
(* float32 scalars (values exactly representable in all of them), on a crystal  *)
(* whose frequencies are in cm^-1 so that integer grids are natural             *)
RunPresented == Advance("presented") /\ meshDone /\ UNCHANGED <<meshDone, totalDone>>

(* a call of the real code that raised (logged without result fields) *)
RunFailed == Advance("failed") /\ UNCHANGED <<meshDone, totalDone>>

ANext == RunMesh \/ RunTotalDos \/ RunProjectedDos \/ RunReordered \/ RunSmearing \/ RunPresented \/ RunFailed
ASpec == AInit /\ [][ANext]_avars

IsDos == HasCur /\ Cur.op \in {"total", "projected", "reordered", "smearing", "presented"}
IsSmearing == HasCur /\ Cur.op = "smearing"

-----------------------------------------------------------------------------
(* the whole step list is consumed (no step is refused by the machine) *)
ImplAccepted == (~ENABLED ANext) => k = Len(ses.steps)
(* the call returned without raising *)
ImplNoError == HasCur => Cur.err = ""

(* densities are non-negative at every frequency point *)
ImplNonNegative == IsDos => Cur.nonneg
(* every returned number is finite *)
ImplFinite == IsDos => Cur.finite

(* the returned density equals the definition point by point:                 *)
(* tetrahedron: (1/Ngp) SUM_ir mult SUM_band coef (1/6) SUM_star I_central    *)
(* smearing:    SUM_q w_q SUM_band coef K_sigma(f - w) / SUM_q w_q            *)
ImplMatchesDefinition == IsDos => Cur.matches = "ok"

(* normalisation: the cumulative tetrahedron weight above the top of the      *)
(* spectrum is the number of bands, exactly (logged as an exact rational)     *)
ImplCumulativeAtTop ==
  (IsDos /\ Cur.op = "total" /\ Cur.method = "tetrahedron") =>
      /\ Cur.cumTopExact
      /\ Cur.cumTop = <<ses.nbands, 1>>
      /\ Cur.cumTopPy = <<ses.nbands, 1>>
(* ... the cumulative weight is zero below the bottom of the spectrum *)
ImplCumulativeAtBottom ==
  (IsDos /\ Cur.op = "total" /\ Cur.method = "tetrahedron") => Cur.cumBottom = <<0, 1>>
(* ... non-decreasing along the frequency grid *)
ImplCumulativeMonotone ==
  (IsDos /\ Cur.op = "total" /\ Cur.method = "tetrahedron") => Cur.cumMonotone
(* ... and the density is its derivative: the integral of the returned DOS    *)
(* between grid points matches the difference of cumulative weights           *)
(* (quadrature accuracy)                                                      *)
ImplDensityIsDerivative ==
  (IsDos /\ Cur.op = "total" /\ Cur.method = "tetrahedron") => Cur.derivative = "ok"
(* the integral of the returned DOS over the returned grid is the number of   *)
(* bands (times the analytically known mass of the kernel inside the window   *)
(* for smearing): quadrature accuracy                                          *)
ImplIntegral == (IsDos /\ Cur.op = "total") => Cur.integral = "ok"

(* the value at a frequency point depends on that point only: a grid in any  *)
(* order gives, point by point, the values of the ascending grid             *)
ImplOrderIndependent == (IsDos /\ Cur.op = "reordered") => Cur.sameAsAscending = "ok"

(* the DOS is a function of the VALUES of the grid arguments, not of their     *)
(* Python types: the returned frequency points are the same numbers and the     *)
(* densities the same as for the twin call with float arguments (which is       *)
(* itself held to the definition by ImplMatchesDefinition, like this one), and  *)
(* the curve keeps its weight: its integral over the window equals the twin's   *)
Presentations == {"int", "float", "npint64", "npfloat32", "mixed"}
ImplPresentationIndependent ==
  (IsDos /\ Cur.op = "presented") =>
     /\ Cur.present \in Presentations
     /\ Cur.sameGrid /\ Cur.sameAsFloat = "ok" /\ Cur.sameIntegral = "ok"

(* smearing, for every function and width:                                     *)
(*   DOS(w) = SUM_q w_q SUM_band coef K(f_qb - w) / SUM_q w_q  with the FULL   *)
(*   kernel K (no window: a Lorentzian has tails), total and every projection; *)
(*   SUM_atoms pdos = SUM_components pdos = total at every frequency point,    *)
(*   relative to the total's scale AND relative to the total at that point     *)
(*   (gaps and tails, where everything is small)                               *)
ImplSmearingFunction == IsSmearing => Cur.fn \in {"normal", "cauchy"}
ImplSmearingTotal == IsSmearing => Cur.matchesTotal = "ok"
ImplSmearingProjected == (IsSmearing /\ Cur.projected) => (Cur.matchesAtoms = "ok" /\ Cur.matchesXyz = "ok")
ImplSmearingAdditive ==
  (IsSmearing /\ Cur.projected) =>
     /\ Cur.additiveAtoms = "ok" /\ Cur.additiveXyz = "ok"
     /\ Cur.additiveAtomsPointwise = "ok" /\ Cur.additiveXyzPointwise = "ok"
     /\ Cur.nprojAtoms = ses.nbands \div 3 /\ Cur.nprojXyz = ses.nbands

(* WHICH DIVISION: the relative grid addresses a tetrahedron-method DOS hands   *)
(* to the kernel (recorded at run_tetrahedron_method_dos) are those of a        *)
(* shortest main diagonal of the MICROZONE (reciprocal vectors divided by the   *)
(* mesh numbers), for the total and for every projection alike; sessions on     *)
(* anisotropic meshes over primitive cells where the undivided reciprocal cell   *)
(* has another shortest diagonal are part of every run                          *)
ImplMainDiagonal ==
  (IsDos /\ Cur.op \in {"total", "projected"} /\ Cur.method = "tetrahedron") =>
     (Cur.diagUsed \in 0..3 /\ Cur.diagShortest)

(* projections add up to the total at every frequency point *)
ImplAdditive == (IsDos /\ Cur.op = "projected") => Cur.additive = "ok"
(* the number of projections is the number of atoms / of Cartesian components *)
ImplProjectionCount ==
  (IsDos /\ Cur.op = "projected") =>
     Cur.nproj = (IF Cur.kind = "xyz" THEN ses.nbands ELSE ses.nbands \div 3)
=============================================================================
