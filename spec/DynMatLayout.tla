---------------------------- MODULE DynMatLayout ----------------------------
(* C02: the dynamical matrix depends on the VALUES of the arrays handed in     *)
(* (force constants, q-points, masses), not on their MEMORY LAYOUT, the        *)
(* Python type that carries them, or the route by which they reach the         *)
(* kernels.  DynMat.tla fixes the function (series `herm`); this module        *)
(* states that every way of handing in the same values gives that function.   *)
(*                                                                            *)
(* One session = one crystal/supercell with fixed VALUES; the machine hands   *)
(* the values in once per (arg, route, mem) and evaluates every kernel:       *)
(*   arg   which argument carries the unusual layout: "fc" | "q" | "mass"     *)
(*   route "setter"   Phonopy.force_constants = a  (masses: Phonopy.masses =) *)
(*         "ctor"     DynamicalMatrix(supercell, primitive, a)                *)
(*         "factory"  get_dynamical_matrix(a, supercell, primitive)           *)
(*         "call"     the q-array given to run_qpoints / DynamicalMatrix.run  *)
(*   mem   "C"      C-contiguous float64 ndarray owning its data              *)
(*         "F"      Fortran-ordered (np.asfortranarray)                       *)
(*         "T"      built by transposing a Hessian: owns its data, strides    *)
(*                  permuted, neither C- nor F-contiguous                     *)
(*         "view"   non-contiguous slice of a larger buffer (big[:, ::2])     *)
(*         "sub"    contiguous view into a larger buffer (does not own data)  *)
(*         "list"   nested Python lists                                       *)
(*         "f32"    float32 ndarray: must be converted (value class "f32":    *)
(*                  the float32-rounded values) or refused                    *)
(*         "f32ref" the float32-rounded values as a C float64 array           *)
(*   kern  "batch" (compiled, all q) | "C" (compiled, one q) | "Py"           *)
(* The machine's report for a run is the token <<kern, vclass>>: it does not  *)
(* depend on arg, route or mem.  Logged run (harness/c02_report.py):          *)
(*   [arg, route, mem, kern, vclass, status : "ok"|"refused",                 *)
(*    dtok  content token of the returned D (equal <=> bit-identical; 0 when  *)
(*          refused), dOK  D equals DynMat's series to 1e-10 (value class     *)
(*          "exact" only)]                                                    *)
EXTENDS Integers, FiniteSets, TLC

CONSTANT Sessions   \* set of [id, fclayout : "full"|"compact", runs : set of run records]

VARIABLES pc, r, todo, cur, rep
vars == <<pc, r, todo, cur, rep>>

FcMems == {"C", "F", "T", "view", "sub", "list", "f32", "f32ref"}
FcRoutes == {"setter", "ctor", "factory"}
Kernels == {"batch", "C", "Py"}
Key(u) == <<u.arg, u.route, u.mem, u.kern>>

(* what must be exercised: every force-constant layout through every route on every kernel; *)
(* q-arrays and masses in the layouts the interfaces accept                                 *)
Required ==
  {<<"fc", ro, m, k>> : ro \in FcRoutes, m \in FcMems, k \in Kernels}
  \cup {<<"q", "call", m, k>> : m \in {"F", "view", "list"}, k \in Kernels}
  \cup {<<"mass", "setter", m, k>> : m \in {"view", "list", "f32"}, k \in Kernels}

SpecReport(u) == <<u.kern, u.vclass>>     \* a function of the kernel and the VALUES only

NoRun == [none |-> TRUE]
Init == pc = "session" /\ r \in Sessions /\ todo = {Key(u) : u \in r.runs} /\ cur = NoRun /\ rep = <<>>

HandInAndEvaluate ==
  /\ pc = "session" /\ todo # {}
  /\ LET k == CHOOSE k \in todo : TRUE
         u == CHOOSE u \in r.runs : Key(u) = k
     IN  todo' = todo \ {k} /\ cur' = u /\ rep' = SpecReport(u)
  /\ UNCHANGED <<pc, r>>
Finish == pc = "session" /\ todo = {} /\ pc' = "done" /\ UNCHANGED <<r, todo, cur, rep>>
Next == HandInAndEvaluate \/ Finish
Spec == Init /\ [][Next]_vars

Logged == "dtok" \in DOMAIN cur
Ok(u) == u.status = "ok"

ImplAllLayoutsLogged ==
  pc = "done" => /\ Required \subseteq {Key(u) : u \in r.runs}
                 /\ Cardinality({Key(u) : u \in r.runs}) = Cardinality(r.runs)
(* legitimate array_likes are accepted; only float32 may be refused instead of converted *)
ImplAccepted == Logged => (cur.status = "refused" => (cur.mem = "f32" /\ cur.arg = "fc"))
(* the reported D is the lattice Fourier sum of the VALUES ... *)
ImplDIsTheSeriesOfTheValues == Logged => ((Ok(cur) /\ cur.vclass = "exact") => cur.dOK)
(* ... and two runs with the same kernel and the same values report the same matrix,      *)
(* whatever the memory layout, carrier type or route                                     *)
ImplDIsAFunctionOfValuesOnly ==
  pc = "done" => \A u, v \in r.runs : (Ok(u) /\ Ok(v) /\ SpecReport(u) = SpecReport(v)) => (u.dtok = v.dtok /\ u.dtok # 0)
(* the logged run is the machine's report: same token as every other run with that report *)
ConformsLayoutReport ==
  Logged => (Ok(cur) => \A v \in r.runs : (Ok(v) /\ SpecReport(v) = rep) => v.dtok = cur.dtok)
=============================================================================
