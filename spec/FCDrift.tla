------------------------------- MODULE FCDrift -------------------------------
(* X10 (b): the drift of a force-constant array as reported by                             *)
(* phonopy.harmonic.force_constants.show_drift_force_constants, and the translation        *)
(* expansion compact -> full (distribute_force_constants_by_translations through           *)
(* compact_fc_to_full_fc) / the restriction full -> compact.                               *)
(*                                                                                         *)
(* DEFINITION.  For the full array F[i][j][a][b] of a supercell with n atoms               *)
(*    drift1(j, a, b) = sum_i F[i][j][a][b]      (sum over the FIRST atom index)            *)
(*    drift2(i, a, b) = sum_j F[i][j][a][b]      (sum over the SECOND atom index)           *)
(* (both vanish for translationally invariant force constants).  The function prints, for  *)
(* each of the two, the value of largest magnitude and the Cartesian component pair (a b)   *)
(* where it occurs.  A compact array (rows = primitive atoms p2s) stands for the full      *)
(* array obtained by the pure translations of the supercell; its drift is the drift of     *)
(* that full array (ReqCompactSuffices: the maxima are reached on the primitive atoms).    *)
(* The label requirement is split by layout (ImplDrift1Where / ImplDrift1WhereCompact) so  *)
(* that a finding in one layout cannot hide a regression in the other; the weaker          *)
(* ImplDrift1WhereUpToTranspose holds in both.                                             *)
(* Arrays are small integers in units of 1 or 1/4 (the harness divides and multiplies):    *)
(* every sum is exact and "%f" prints it exactly; rv1, rv2 are numerators in that unit.    *)
EXTENDS Integers, Sequences, FiniteSets, TLC, IntLinAlg

CONSTANTS Events
VARIABLES ev, pc, d1, d2, failed
dvars == <<ev, pc, d1, d2, failed>>

RECURSIVE SumTo(_, _)
SumTo(f, k) == IF k = 0 THEN 0 ELSE f[k] + SumTo(f, k - 1)

NAt(e) == Len(e.fullarr)
Keys(e) == (1..NAt(e)) \X I3 \X I3

Drift1(e, k) == SumTo([i \in 1..NAt(e) |-> e.fullarr[i][k[1]][k[2]][k[3]]], NAt(e))
Drift2(e, k) == SumTo([j \in 1..NAt(e) |-> e.fullarr[k[1]][j][k[2]][k[3]]], NAt(e))

MaxAbs(t, ks) == MaxOf({Abs(t[k]) : k \in ks})
PrimKeys(e) == {k \in Keys(e) : \E r \in 1..Len(e.prows) : e.prows[r] = k[1]}

Judgements(e) ==
  LET n == NAt(e)
      full == e.lay = "full"
  IN
  [ HypTransConsistent |-> \A t \in 1..Len(e.tperms) : \A i, j \in 1..n : e.fullarr[e.tperms[t][i]][e.tperms[t][j]] = e.fullarr[i][j],
    HypArrayIsLayout |-> IF full THEN e.farr = e.fullarr
                         ELSE \A r \in 1..Len(e.prows) : e.farr[r] = e.fullarr[e.prows[r]],
    ReqCompactSuffices |-> MaxAbs(d1, PrimKeys(e)) = MaxAbs(d1, Keys(e)) /\ MaxAbs(d2, PrimKeys(e)) = MaxAbs(d2, Keys(e)),
    ImplParsed |-> e.parsed,
    ImplDrift1Value |-> e.parsed => Abs(e.rv1) = MaxAbs(d1, Keys(e)),
    ImplDrift1Where |-> (e.parsed /\ full) => \E j \in 1..n : d1[<<j, e.rc1[1], e.rc1[2]>>] = e.rv1,
    ImplDrift1WhereCompact |-> (e.parsed /\ ~full) => \E j \in 1..n : d1[<<j, e.rc1[1], e.rc1[2]>>] = e.rv1,
    ImplDrift1WhereUpToTranspose |-> e.parsed => \E j \in 1..n : d1[<<j, e.rc1[1], e.rc1[2]>>] = e.rv1 \/ d1[<<j, e.rc1[2], e.rc1[1]>>] = e.rv1,
    ImplDrift2Value |-> e.parsed => Abs(e.rv2) = MaxAbs(d2, Keys(e)),
    ImplDrift2Where |-> e.parsed => \E i \in 1..n : d2[<<i, e.rc2[1], e.rc2[2]>>] = e.rv2,
    ImplUnchanged |-> e.same,
    ImplPrefix |-> e.pfx = (IF e.vo THEN "" ELSE "Max drift of " \o e.nm \o ": "),
    ImplExpand |-> IF full THEN \A r \in 1..Len(e.prows) : e.xarr[r] = e.fullarr[e.prows[r]]
                   ELSE e.xarr = e.fullarr
  ]

JNames == {"HypTransConsistent", "HypArrayIsLayout", "ReqCompactSuffices", "ImplParsed", "ImplDrift1Value", "ImplDrift1Where", "ImplDrift1WhereCompact", "ImplDrift1WhereUpToTranspose",
           "ImplDrift2Value", "ImplDrift2Where", "ImplUnchanged", "ImplPrefix", "ImplExpand"}

Init == ev \in Events /\ pc = "load" /\ d1 = <<>> /\ d2 = <<>> /\ failed = {}

Load ==
  /\ pc = "load"
  /\ d1' = Materialize([k \in Keys(ev) |-> Drift1(ev, k)])
  /\ d2' = Materialize([k \in Keys(ev) |-> Drift2(ev, k)])
  /\ pc' = "judge"
  /\ UNCHANGED <<ev, failed>>

Judge ==
  /\ pc = "judge"
  /\ \E jd \in {Judgements(ev)} : failed' = {nm \in JNames : ~jd[nm]}
  /\ pc' = "done"
  /\ UNCHANGED <<ev, d1, d2>>

Next == Load \/ Judge
Spec == Init /\ [][Next]_dvars

AtEnd == pc = "done"
Holds(nm) == AtEnd => nm \notin failed
HypTransConsistent == Holds("HypTransConsistent")
HypArrayIsLayout == Holds("HypArrayIsLayout")
ReqCompactSuffices == Holds("ReqCompactSuffices")
ImplParsed == Holds("ImplParsed")
ImplDrift1Value == Holds("ImplDrift1Value")
ImplDrift1Where == Holds("ImplDrift1Where")
ImplDrift1WhereCompact == Holds("ImplDrift1WhereCompact")
ImplDrift1WhereUpToTranspose == Holds("ImplDrift1WhereUpToTranspose")
ImplDrift2Value == Holds("ImplDrift2Value")
ImplDrift2Where == Holds("ImplDrift2Where")
ImplUnchanged == Holds("ImplUnchanged")
ImplPrefix == Holds("ImplPrefix")
ImplExpand == Holds("ImplExpand")

(* per event: failed judgements and the definition's maxima with every location attaining them *)
Arg(t, ks) == {<<k[2], k[3]>> : k \in {kk \in ks : Abs(t[kk]) = MaxAbs(t, ks)}}
Report == AtEnd => PrintT(<<"X10D", ev.id, failed, MaxAbs(d1, Keys(ev)), Arg(d1, Keys(ev)), MaxAbs(d2, Keys(ev)), Arg(d2, Keys(ev))>>)
=============================================================================
