------------------------------ MODULE Phases12 ------------------------------
(* Pure module: the finite abelian group Z^3 / M Z^3 of a supercell matrix M   *)
(* (COLUMNS = supercell lattice vectors in primitive coordinates), its dual    *)
(* group (commensurate wave vectors p = N q mod N, N = |det M|) and exact      *)
(* characters exp(2 pi i q.l) whenever they are twelfth roots of unity:        *)
(* numbers a + b sqrt 3 are pairs <<a, b>>, complex numbers are pairs of such, *)
(* and E12(k) = 2 exp(2 pi i k / 12).  Same definitions as in RandomDisp.tla   *)
(* (kept separate so that modules without RandomDisp's variables can use them).*)
EXTENDS IntLinAlg

NN(M) == Abs(Det(M))
Col(M, j) == <<M[1][j], M[2][j], M[3][j]>>
ModV(v, n) == <<v[1] % n, v[2] % n, v[3] % n>>
NegMod(p, n) == ModV(VNeg(p), n)
Cube(n) == {<<x, y, z>> : x \in 0..(n - 1), y \in 0..(n - 1), z \in 0..(n - 1)}
Range(s) == {s[k] : k \in 1..Len(s)}
Injective(s) == \A a, b \in 1..Len(s) : a # b => s[a] # s[b]

(* dual group: p = N q with q . (every supercell lattice vector) integral *)
CommSet(M) == LET n == NN(M) IN {p \in Cube(n) : \A j \in I3 : Dot(p, Col(M, j)) % n = 0}
(* class of a lattice vector modulo M Z^3 *)
LKey(M, t) == ModV(MatVec(Adj(M), t), NN(M))
SameL(M, s, t) == LKey(M, s) = LKey(M, t)
LatticeSites(M) ==
  LET n == NN(M)
      adj == Adj(M)
      keyOf == Materialize([t \in Cube(n) |-> ModV(MatVec(adj, t), n)])
      keys == {keyOf[t] : t \in Cube(n)}
  IN  {CHOOSE t \in Cube(n) : keyOf[t] = k : k \in keys}

(* ---- Z[sqrt 3] ---- *)
ZAdd(x, y) == <<x[1] + y[1], x[2] + y[2]>>
ZSub(x, y) == <<x[1] - y[1], x[2] - y[2]>>
ZMul(x, y) == <<x[1] * y[1] + 3 * x[2] * y[2], x[1] * y[2] + x[2] * y[1]>>
ZScale(k, x) == <<k * x[1], k * x[2]>>
ZZero == <<0, 0>>
TwoCos == << <<2,0>>, <<0,1>>, <<1,0>>, <<0,0>>, <<-1,0>>, <<0,-1>>,
             <<-2,0>>, <<0,-1>>, <<-1,0>>, <<0,0>>, <<1,0>>, <<0,1>> >>
C12(k) == TwoCos[(k % 12) + 1]
S12(k) == TwoCos[((k + 9) % 12) + 1]
ASSUME /\ C12(0) = <<2, 0>>
       /\ \A a, b \in 0..11 : ZAdd(C12(a + b), C12(a + 12 - b)) = ZMul(C12(a), C12(b))
       /\ \A a \in 0..11 : ZAdd(ZMul(C12(a), C12(a)), ZMul(S12(a), S12(a))) = <<4, 0>>
       /\ \A a, b \in 0..11 : ZScale(2, S12(a + b)) = ZAdd(ZMul(S12(a), C12(b)), ZMul(C12(a), S12(b)))

(* ---- complex numbers over Z[sqrt 3] ---- *)
CZero == <<ZZero, ZZero>>
CAdd(x, y) == <<ZAdd(x[1], y[1]), ZAdd(x[2], y[2])>>
CMul(x, y) == <<ZSub(ZMul(x[1], y[1]), ZMul(x[2], y[2])), ZAdd(ZMul(x[1], y[2]), ZMul(x[2], y[1]))>>
CConj(x) == <<x[1], ZScale(-1, x[2])>>
CScale(k, x) == <<ZScale(k, x[1]), ZScale(k, x[2])>>
CInt(k) == <<<<k, 0>>, ZZero>>
E12(k) == <<C12(k), S12(k)>>              \* 2 exp(2 pi i k / 12)
ASSUME \A a, b \in 0..11 : CMul(E12(a), E12(b)) = CScale(2, E12(a + b))

(* twelfths of a turn of exp(2 pi i p.l / n); defined when 12 p.l = 0 mod n *)
Twelfth(p, l, n) == ((12 * Dot(p, l)) \div n) % 12
TwelfthOK(p, l, n) == (12 * Dot(p, l)) % n = 0
=============================================================================
