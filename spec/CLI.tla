-------------------------------- MODULE CLI --------------------------------
(* C18 - the command-line tools are faithful front ends of the library.     *)
(* Part 1: how configuration-file tags and command-line options become the  *)
(* settings object (phonopy/cui/settings.py).                               *)
(*                                                                          *)
(* The table (CLITable.tla, generated from harness/c18_table.py) gives, per *)
(* tag and example value, the parameters it denotes, and per parameter the  *)
(* guarded writes of settings attributes in stage order.  This module is    *)
(* the generic machine over that table:                                     *)
(*                                                                          *)
(*   ReadFile -> ParseConf -> SetSettings -> Flush ->                       *)
(*   ReadOptions -> ParseConf -> SetSettings            (TwoPass = TRUE,    *)
(*                                      PhonopyConfParser.__init__ as built)*)
(*   ReadFile -> ReadOptions -> ParseConf -> SetSettings (TwoPass = FALSE,  *)
(*        the documented flow: "configurations are obtained either from the *)
(*        conf file or command options; these are initially merged",        *)
(*        "the command-line option supersedes the setting tag")             *)
(*                                                                          *)
(* and the requirement of C18 on the settings level:                        *)
(*   RoutesEquivalent     a configuration given wholly in the file and      *)
(*                        wholly as options yields the same settings;       *)
(*   OptionOverridesTag   tag in the file + the same tag as option = the    *)
(*                        option alone;                                     *)
(*   MixedIndependent     splitting a configuration of compatible tags      *)
(*                        between file and options does not matter.         *)
(* TLC checks them for every case in Cases (all single tags x example       *)
(* values, all override pairs, pairs of tags, triples of tags inside the    *)
(* interacting families) for both commands.  With      *)
(* TwoPass = TRUE the same run shows which cases the two-pass construction  *)
(* of the code breaks (MixedIndependent).                                   *)
EXTENDS Naturals, Sequences, FiniteSets, TLC, CLITable

CONSTANTS Cases,    \* set of [id, cmd, kind, F, O]; F, O sequences of items [k |-> tag, e |-> example]
          TwoPass

VARIABLES case, pc, confs, params, settings
vars == <<case, pc, confs, params, settings>>

------------------------------------------------------------------------------
(* finite maps *)
Put(f, k, v) == [x \in (DOMAIN f) \cup {k} |-> IF x = k THEN v ELSE f[x]]
Empty == <<>>

Get(s, cmd, a) == IF a \in DOMAIN s THEN s[a] ELSE TblDefaults(cmd)[a]
Norm(s, cmd) == LET D == {a \in DOMAIN s : s[a] # TblDefaults(cmd)[a]} IN [a \in D |-> s[a]]

(* settings that differ only in attributes the library ignores have the same effect *)
Masked(d) == {TblMasks[i].drop : i \in {j \in 1..Len(TblMasks) :
                  TblMasks[j].attr \in DOMAIN d /\ d[TblMasks[j].attr] = TblMasks[j].val}}
Effective(d) == [a \in (DOMAIN d) \ Masked(d) |-> d[a]]

------------------------------------------------------------------------------
(* ParseConf: conf items in order -> parameters; a later item overrides *)
RECURSIVE AssignSets(_, _)
AssignSets(p, sets) ==
  IF sets = <<>> THEN p ELSE AssignSets(Put(p, Head(sets)[1], Head(sets)[2]), Tail(sets))

RECURSIVE ParseSeq(_, _)
ParseSeq(items, p) ==
  IF items = <<>> THEN p
  ELSE ParseSeq(Tail(items), AssignSets(p, TblSets(Head(items).k, Head(items).e)))

(* SetSettings: rules in stage order *)
CondHolds(p, c) ==
  CASE c.kind = "*" -> c.pk \in DOMAIN p
    [] c.kind = "!" -> c.pk \notin DOMAIN p
    [] OTHER -> c.pk \in DOMAIN p /\ p[c.pk] = c.val

GuardHolds(s, cmd, w) ==
  CASE w.g = "none" -> TRUE
    [] w.g = "eq" -> Get(s, cmd, w.gattr) = w.gval
    [] OTHER -> Get(s, cmd, w.gattr) # w.gval

RECURSIVE ApplyWrites(_, _, _, _)
ApplyWrites(s, cmd, p, ws) ==
  IF ws = <<>> THEN s
  ELSE LET w == Head(ws)
           v == IF w.src = "param" THEN p[w.val] ELSE w.val
       IN ApplyWrites(IF GuardHolds(s, cmd, w) THEN Put(s, w.attr, v) ELSE s, cmd, p, Tail(ws))

(* only the rules whose first condition is on a parameter that is present can fire *)
Applicable(p) == UNION {TblRuleIdx(pk) : pk \in DOMAIN p}
RECURSIVE ApplyIdx(_, _, _, _)
ApplyIdx(s, cmd, p, I) ==
  IF I = {} THEN s
  ELSE LET i == CHOOSE x \in I : \A y \in I : x <= y
           r == TblRules[i]
       IN ApplyIdx(IF \A j \in 1..Len(r.conds) : CondHolds(p, r.conds[j])
                   THEN ApplyWrites(s, cmd, p, r.writes) ELSE s, cmd, p, I \ {i})
ApplyRules(s, cmd, p, i) == ApplyIdx(s, cmd, p, Applicable(p))

RunPass(s, cmd, items) == ApplyRules(s, cmd, ParseSeq(items, Empty), 1)

(* the two flows as functions *)
RunBuilt(cmd, F, O)  == Norm(RunPass(RunPass(Empty, cmd, F), cmd, O), cmd)
RunMerged(cmd, F, O) ==
  LET keys == {O[i].k : i \in 1..Len(O)}
      kept == SelectSeq(F, LAMBDA it : it.k \notin keys)
  IN Norm(RunPass(Empty, cmd, kept \o O), cmd)
Run(cmd, F, O) == IF TwoPass THEN RunBuilt(cmd, F, O) ELSE RunMerged(cmd, F, O)

------------------------------------------------------------------------------
(* step machine *)
Init == /\ case \in Cases /\ pc = "start"
        /\ confs = <<>> /\ params = Empty /\ settings = Empty

ReadFile ==
  /\ pc = "start"
  /\ confs' = case.F
  /\ pc' = IF TwoPass THEN "parse1" ELSE "opts"
  /\ UNCHANGED <<case, params, settings>>

ParseConf ==
  /\ pc \in {"parse1", "parse2"}
  /\ params' = ParseSeq(confs, Empty)
  /\ pc' = IF pc = "parse1" THEN "set1" ELSE "set2"
  /\ UNCHANGED <<case, confs, settings>>

SetSettings ==
  /\ pc \in {"set1", "set2"}
  /\ settings' = ApplyRules(settings, case.cmd, params, 1)
  /\ pc' = IF pc = "set1" THEN "flush" ELSE "done"
  /\ UNCHANGED <<case, confs, params>>

(* ConfParser.__init__(args=args) of the second pass empties confs and params; *)
(* the settings object is kept                                                 *)
Flush ==
  /\ pc = "flush"
  /\ confs' = <<>> /\ params' = Empty
  /\ pc' = "opts"
  /\ UNCHANGED <<case, settings>>

(* an option replaces the entry of the same tag read from the file *)
OptKeys(O) == {O[i].k : i \in 1..Len(O)}
Kept(c, O) == SelectSeq(c, LAMBDA it : it.k \notin OptKeys(O))

ReadOptions ==
  /\ pc = "opts"
  /\ confs' = Kept(confs, case.O) \o case.O
  /\ pc' = "parse2"
  /\ UNCHANGED <<case, params, settings>>

Next == ReadFile \/ ParseConf \/ SetSettings \/ Flush \/ ReadOptions
Spec == Init /\ [][Next]_vars

------------------------------------------------------------------------------
(* requirement *)
Done == pc = "done"
Result == Norm(settings, case.cmd)
Items(c) == c.F \o c.O
Keys(c) == {Items(c)[i].k : i \in 1..Len(Items(c))}

(* Two items conflict when, each given alone, they write a common attribute  *)
(* with different values (TPROP / TDISP, MESH / QPOINTS, FC_FORMAT /         *)
(* READFC_FORMAT, DOS_RANGE / FPITCH ...): then "the later one wins" and     *)
(* "the option supersedes" are both defensible and the property does not     *)
(* constrain the mixed routes.  MESH + BAND and PDOS + BAND conflict on      *)
(* run_mode but have an explicit combination rule (band_mesh): they must be  *)
(* independent of the route.                                                 *)
Alone(cmd, it) == RunPass(Empty, cmd, <<it>>)
Conflict(cmd, a, b) ==
  LET wa == Alone(cmd, a)
      wb == Alone(cmd, b)
  IN \E x \in (DOMAIN wa) \cap (DOMAIN wb) : wa[x] # wb[x]
Combinable == {{"mesh", "band"}, {"pdos", "band"}}
Exclusive(c) ==
  \E i, j \in 1..Len(Items(c)) :
     /\ i # j
     /\ {Items(c)[i].k, Items(c)[j].k} \notin Combinable
     /\ Conflict(c.cmd, Items(c)[i], Items(c)[j])

Uniform(c) == c.F = <<>> \/ c.O = <<>>

InvRoutesEquivalent ==
  (Done /\ Uniform(case) /\ case.kind # "override") =>
     /\ Result = Run(case.cmd, Items(case), <<>>)
     /\ Result = Run(case.cmd, <<>>, Items(case))

InvOptionOverridesTag ==
  (Done /\ case.kind = "override") => Effective(Result) = Effective(Run(case.cmd, <<>>, case.O))

InvMixedIndependent ==
  (Done /\ case.kind \in {"pair", "triple"} /\ ~Exclusive(case)) =>
     Effective(Result) = Effective(Run(case.cmd, Items(case), <<>>))

(* the machine and its functional form agree (sanity of the specification) *)
InvMachineIsRun == Done => Result = Run(case.cmd, case.F, case.O)

(* the settings object only ever holds attributes that have a documented default *)
InvKnownAttributes == DOMAIN settings \subseteq DOMAIN TblDefaults(case.cmd)

(* the differing defaults of the two commands *)
InvCommandDefaults ==
  /\ TblDefaults("phonopy")["fc_symmetry"] = "False" /\ TblDefaults("phonopy")["is_nac"] = "False"
  /\ TblDefaults("load")["fc_symmetry"] = "True" /\ TblDefaults("load")["is_nac"] = "True"
=============================================================================
