------------------------ MODULE SymmetryClassTrace ------------------------
(* Code -> spec for X05: one event = everything one real Symmetry object     *)
(* reports for one decorated integer crystal.  TLC computes the crystal's    *)
(* (magnetic) space group from the definition (SymmetryClass.tla) and judges *)
(* the logged values.                                                        *)
(*                                                                          *)
(* Event fields.  Input: id, gram, den, atm, mmode, bx (box half-width for   *)
(* the isometry search, soundness re-checked here), sym (is_symmetry),       *)
(* s2p (s2p_map, 0-based; <<>> when not given).  Logged, projected by the    *)
(* harness: rots, trn (translations times den, rounded; exact = the rounding *)
(* residual is below the bound), trev (time-reversal parts 1/-1 of the       *)
(* magnetic dataset, all 1 without moments, all 0 when the object keeps no   *)
(* dataset for a magnetic cell), ptg, rcp, mapat, indep, mapop, prm    *)
(* (all 0-based as in phonopy), site (per atom), lveq, pgsym.                *)
(* deep: also evaluate the quadratic judgements (closure, group action).     *)
EXTENDS SymmetryClass

CONSTANT Events

VARIABLES ev, pc, grp, tab, verdict
vars == <<ev, pc, grp, tab, verdict>>

Cr(e) == [gram |-> e.gram, den |-> e.den, atm |-> e.atm, mmode |-> e.mmode]
NOps(e) == Len(e.rots)
Logged(e, k) == <<e.rots[k], ModV(e.den, e.trn[k]), e.trev[k]>>
LoggedSet(e) == {Logged(e, k) : k \in 1..NOps(e)}
SeqSet(s) == {s[k] : k \in 1..Len(s)}

(* the group the class has to report *)
ReqGroup(e) ==
  IF e.sym THEN MSG(Cr(e), e.bx)
  ELSE IF e.s2p = <<>> THEN {OpId}
  ELSE {<<Id3, w, 1>> : w \in LabelTranslations(Cr(e), e.s2p)}

WellFormed(e) ==
  LET n == Len(e.atm)
  IN /\ n >= 1 /\ e.den >= 1
     /\ \A a, b \in 1..n : a # b => ~PosEq(e.den, e.atm[a].num, e.atm[b].num)
     /\ M3(e.gram) = TrM(e.gram)
     /\ BoxSound(e.gram, e.bx)
     /\ (e.s2p # <<>> => Len(e.s2p) = n)

(* shapes and index ranges of what the object reports (part of the requirement: a report outside them is wrong) *)
Typed(e) ==
  LET n == Len(e.atm)
  IN /\ NOps(e) >= 1
     /\ Len(e.trn) = NOps(e) /\ Len(e.trev) = NOps(e) /\ Len(e.prm) = NOps(e)
     /\ Len(e.mapat) = n /\ Len(e.mapop) = n /\ Len(e.site) = n
     /\ \A k \in 1..NOps(e) : Len(e.prm[k]) = n /\ \A i \in 1..n : e.prm[k][i] \in 0..(n - 1)
     /\ \A i \in 1..n : e.mapat[i] \in 0..(n - 1) /\ e.mapop[i] \in 0..(NOps(e) - 1)
     /\ \A k \in 1..Len(e.indep) : e.indep[k] \in 0..(n - 1)
     /\ Len(e.rcp) >= Len(e.ptg) /\ Len(e.lveq) = 3

-----------------------------------------------------------------------------
VerdictNames ==
  {"typed", "exact", "groupEqual", "noDuplicate", "isometries", "closed", "pointGroup", "reciprocal", "pgSymbol",
   "siteSym", "mapAtoms", "independent", "mapOps", "perms", "permsAction", "latVecEq", "smallest", "s2pKept",
   "firstOp", "recIndex", "thmGroup", "thmIso", "thmEquivLength", "thmClass", "thmOrbitsPartition"}

JudgeTyped(e, H, T) ==
  LET c == Cr(e)
      n == NAt(c)
      D == e.den
      LS == LoggedSet(e)
      LP == {<<g[1], g[2]>> : g \in LS}
      trKnown == \A k \in 1..NOps(e) : e.trev[k] # 0
      PG == {g[1] : g \in H}
      base == {InvTr(W) : W \in PG}
      lidx == IF e.deep THEN Materialize([g \in LS |-> CHOOSE k \in 1..NOps(e) : Logged(e, k) = g]) ELSE <<>>
  IN [
   typed |-> TRUE,
   exact |-> e.exact,
   (* the reported operations are exactly the group of the definition, each operation once *)
   (* (time-reversal parts not reported, trev = 0: the pairs (W, w) with the multiplicity of the definition) *)
   groupEqual |-> LP = {<<g[1], g[2]>> : g \in H} /\ (trKnown => LS = H),
   noDuplicate |-> /\ NOps(e) = Cardinality(H)
                   /\ trKnown => Cardinality(LS) = NOps(e)
                   /\ ~trKnown => \A p \in LP : Cardinality({k \in 1..NOps(e) : <<e.rots[k], ModV(D, e.trn[k])>> = p})
                                                  = Cardinality({g \in H : <<g[1], g[2]>> = p}),
   isometries |-> \A k \in 1..NOps(e) : IsIsometry(e.gram, e.rots[k]),
   closed |-> e.deep => IsGroupOps(D, LS),
   (* point group = rotation parts, each once; reciprocal operations = inverse transposes, with -R (time reversal) *)
   pointGroup |-> SeqSet(e.ptg) = PG /\ Len(e.ptg) = Cardinality(PG),
   reciprocal |-> SeqSet(e.rcp) = base \cup {NegM(R) : R \in base}
                  /\ Len(e.rcp) = Cardinality(base \cup {NegM(R) : R \in base}),
   pgSymbol |-> e.pgsym \in ClassOf(PG),
   (* site symmetry of atom i = rotation parts of the stabiliser *)
   siteSym |-> \A i \in 1..n : /\ SeqSet(e.site[i]) = {g[1] : g \in T.stab[i]}
                               /\ Len(e.site[i]) = Cardinality(T.stab[i]),
   (* map_atoms: one representative per orbit; independent atoms: the representatives, ascending *)
   mapAtoms |-> /\ \A i \in 1..n : e.mapat[i] + 1 \in T.orb[i]
                /\ \A i, j \in 1..n : j \in T.orb[i] => e.mapat[i] = e.mapat[j],
   independent |-> /\ SeqSet(e.indep) = {i - 1 : i \in {i \in 1..n : e.mapat[i] = i - 1}}
                   /\ \A k \in 1..(Len(e.indep) - 1) : e.indep[k] < e.indep[k + 1]
                   /\ Len(e.indep) = Cardinality({T.orb[i] : i \in 1..n}),
   (* map_operations[i] sends atom i onto its representative *)
   mapOps |-> \A i \in 1..n :
                 /\ e.mapop[i] + 1 \in 1..NOps(e)
                 /\ e.mapat[i] + 1 \in 1..n
                 /\ PosEq(D, ActOn(e.rots[e.mapop[i] + 1], e.trn[e.mapop[i] + 1], c.atm[i].num), c.atm[e.mapat[i] + 1].num),
   (* atomic_permutations[k][i] = index of the atom at the image of atom i under operation k; *)
   (* species are kept, moments transform with the time-reversal part                         *)
   perms |-> \A k \in 1..NOps(e) : \A i \in 1..n :
                /\ e.prm[k][i] + 1 \in 1..n
                /\ PosEq(D, ActOn(e.rots[k], e.trn[k], c.atm[i].num), c.atm[e.prm[k][i] + 1].num)
                /\ c.atm[e.prm[k][i] + 1].sp = c.atm[i].sp
                /\ \E th \in Thetas(c.mmode) :
                      /\ e.trev[k] = 0 \/ e.trev[k] = th
                      /\ c.atm[e.prm[k][i] + 1].mg = MagImage(c.mmode, e.rots[k], th, c.atm[i].mg),
   (* a group action: perm(g h) = perm(g) o perm(h) *)
   permsAction |-> (e.deep /\ IsGroupOps(D, LS)) =>
                     \A k1, k2 \in 1..NOps(e) :
                        LET k3 == lidx[OpMul(D, Logged(e, k1), Logged(e, k2))]
                        IN \A i \in 1..n : e.prm[k3][i] = e.prm[k1][e.prm[k2][i] + 1],
   latVecEq |-> e.lveq = LatVecEquivDef(PG),
   (* conventions (not demanded by the definition, documented by example / used by callers) *)
   smallest |-> e.sym => \A i \in 1..n : e.mapat[i] + 1 = MinOf(T.orb[i]),
   s2pKept |-> (~e.sym /\ e.s2p # <<>>) => e.mapat = e.s2p,
   firstOp |-> \A i \in 1..n : \A k \in 1..e.mapop[i] : e.prm[k][i] # e.mapat[i],
   recIndex |-> \A k \in 1..Len(e.ptg) : e.rcp[k] = TrM(e.ptg[k]),
   (* theorems about the definition itself (a failure is a defect of the specification or of the inputs) *)
   thmGroup |-> e.deep => IsGroupOps(D, H),
   thmIso |-> \A g \in H : IsIsometry(e.gram, g[1]),
   thmEquivLength |-> LET q == LatVecEquivDef(PG)
                      IN /\ q[1] => e.gram[2][2] = e.gram[3][3]
                         /\ q[2] => e.gram[3][3] = e.gram[1][1]
                         /\ q[3] => e.gram[1][1] = e.gram[2][2],
   thmClass |-> Cardinality(ClassOf(PG)) = 1,
   thmOrbitsPartition |-> \A i, j \in 1..n : T.orb[i] = T.orb[j] \/ T.orb[i] \cap T.orb[j] = {}
  ]

Judge(e, H, T) ==
  IF Typed(e) THEN JudgeTyped(e, H, T)
  ELSE [n \in VerdictNames |-> n # "typed"]

-----------------------------------------------------------------------------
TInit == /\ ev \in Events
         /\ pc = "group"
         /\ grp = {}
         /\ tab = <<>>
         /\ verdict = <<>>

Group == /\ pc = "group"
         /\ grp' = (IF WellFormed(ev) THEN ReqGroup(ev) ELSE {})
         /\ pc' = "tables"
         /\ UNCHANGED <<ev, tab, verdict>>

Tables == /\ pc = "tables"
          /\ tab' = [orb |-> Materialize([i \in 1..Len(ev.atm) |-> OrbitOf(Cr(ev), grp, i)]),
                     stab |-> Materialize([i \in 1..Len(ev.atm) |-> StabOf(Cr(ev), grp, i)])]
          /\ pc' = "judge"
          /\ UNCHANGED <<ev, grp, verdict>>

DoJudge == /\ pc = "judge"
           /\ verdict' = Judge(ev, grp, tab)
           /\ pc' = "done"
           /\ UNCHANGED <<ev, grp, tab>>

TNext == IF WellFormed(ev) THEN Group \/ Tables \/ DoJudge ELSE UNCHANGED vars

Done == pc = "done"
EventWellFormed == WellFormed(ev)
V(name) == Done => verdict[name]

ImplWellTyped == V("typed")
ImplExact == V("exact")
ImplGroupEqual == V("groupEqual")
ImplNoDuplicate == V("noDuplicate")
ImplIsometries == V("isometries")
ImplClosed == V("closed")
ImplPointGroup == V("pointGroup")
ImplReciprocal == V("reciprocal")
ImplPointGroupSymbol == V("pgSymbol")
ImplSiteSymmetry == V("siteSym")
ImplMapAtoms == V("mapAtoms")
ImplIndependent == V("independent")
ImplMapOperations == V("mapOps")
ImplPermutations == V("perms")
ImplPermutationsAction == V("permsAction")
ImplLatticeVectorEquivalence == V("latVecEq")
ConformsSmallest == V("smallest")
ConformsS2PKept == V("s2pKept")
ConformsFirstOperation == V("firstOp")
ConformsReciprocalIndex == V("recIndex")
ThmGroup == V("thmGroup")
ThmIsometries == V("thmIso")
ThmEquivLength == V("thmEquivLength")
ThmClass == V("thmClass")
ThmOrbitsPartition == V("thmOrbitsPartition")
=============================================================================
