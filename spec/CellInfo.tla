---------------------------- MODULE CellInfo ----------------------------
(***************************************************************************)
(* X09 - which structure file the command-line front end reads and where   *)
(* the cell-related settings come from                                     *)
(* (phonopy/cui/collect_cell_info.py: collect_cell_info, and               *)
(* phonopy/cui/phonopy_script.py: _get_cell_info / set_magnetic_moments).  *)
(*                                                                         *)
(* A world w is one input combination:                                     *)
(*   w.fl    slot name -> content kind of the file of that name in the     *)
(*           working directory ("none" = absent).  A kind is an abstract   *)
(*           token for "what the content would give" (see Kinds below)     *)
(*   w.yv    which entries the phonopy yaml files hold (header,            *)
(*           supercell_matrix, primitive_matrix, calculator, magnetic      *)
(*           moments); every yaml file holds its OWN values, tokens        *)
(*           "y:<file>"                                                    *)
(*   w.load  phonopy-load (TRUE) or phonopy (FALSE)                        *)
(*   w.calc  calculator option ("none", "vasp", "qe")                      *)
(*   w.name  explicitly named cell file (-c / CELL_FILENAME / first        *)
(*           argument of phonopy-load), "none" if not given                *)
(*   w.dim   DIM / --dim given;  w.pa  PRIMITIVE_AXES / --pa ("none",      *)
(*           "F", "auto", "M" = a matrix);  w.bauto  BAND = auto;          *)
(*   w.mag   MAGMOM ("none", "ok", "bad" = wrong number of values)         *)
(*                                                                         *)
(* The outcome o: st in {"ok","err","exc"}; for "ok" the file the unit     *)
(* cell came from (src), the calculator (mode), the tokens of supercell    *)
(* matrix, primitive matrix, magnetic moments and whether a phonopy yaml   *)
(* object is handed on; for "err" the statements the message makes (facts) *)
(* and the file names it quotes (ment).                                    *)
(*                                                                         *)
(* Machine: the code as three steps (Resolve: probe of POSCAR and the      *)
(* decision to fall back to the phonopy-yaml mode; Read: the file search;  *)
(* Settle: the settings and the error texts).  Requirement: the Req*       *)
(* operators, written from the documentation (sentences quoted there),     *)
(* evaluated on the machine's outcome for EVERY world and, in              *)
(* CellInfoTrace, on what the real code returned.                          *)
(***************************************************************************)
EXTENDS Naturals, Sequences, FiniteSets, TLC

CONSTANTS Worlds,        \* the input combinations to enumerate
          Emitting       \* TRUE: print the decision table rows

Disp   == "phonopy_disp.yaml"
Phy    == "phonopy.yaml"
Params == "phonopy_params.yaml"
CellX  == "NaCl-cell"
Slots  == {"POSCAR", "unitcell.in", Disp, Phy, Params, CellX}

(* Kinds: "none" absent; "vasp" a POSCAR-style file; "qe" a QE input (fails as POSCAR, no YAML mapping);        *)
(* "yaml" a phonopy yaml; "yother" a YAML mapping that is no phonopy yaml; "junk" plain text;                     *)
(* "ybroken" text the YAML parser rejects.                                                                        *)
Kinds == {"none", "vasp", "qe", "yaml", "yother", "junk", "ybroken"}

SlotCalc == (Disp :> "abinit") @@ (Phy :> "elk") @@ (Params :> "siesta") @@ (CellX :> "wien2k")

DefaultName(calc) == IF calc = "qe" THEN "unitcell.in" ELSE "POSCAR"     \* doc/command-options.md, table under -c
YamlDefaults == <<Disp, Phy>>                                            \* doc/phonopy-load.md: disp > phonopy.yaml

NoneOut == [st |-> "none", src |-> "none", mode |-> "none", dim |-> "none", pa |-> "none", mag |-> "none",
            yml |-> FALSE, facts |-> {}, ment |-> {}]

-----------------------------------------------------------------------------
(* What the content tokens give (the primitives of C17's readers, named, not re-specified).                       *)
ParsesAsVasp(k)      == k = "vasp"
(* is_file_phonopy_yaml: a mapping with the key "phonopy", or with supercell_matrix and unit_cell                 *)
LooksPhonopyYaml(k, yv) == k = "yaml" /\ (yv.hdr \/ yv.dim)
YamlReads(k)         == k \in {"yaml", "yother"}          \* PhonopyYaml.read returns (mapping)
YamlHasCell(k)       == k = "yaml"

-----------------------------------------------------------------------------
(* Step 1 - Resolve (collect_cell_info head, _fallback_to_phonopy_yaml, _poscar_failed).                          *)
PoscarProbe(w) ==
  LET f == IF w.name = "none" THEN "POSCAR" ELSE w.name IN
  IF w.fl[f] = "none" THEN (IF w.name = "none" THEN "default file not found" ELSE "nofallback")
  ELSE IF ParsesAsVasp(w.fl[f]) THEN "nofallback" ELSE "read_vasp parsing failed"

Fallback(w) ==
  IF w.load THEN "load_phonopy_yaml mode"
  ELSE IF w.calc # "none" THEN "nofallback"
  ELSE LET p == PoscarProbe(w) IN IF p # "nofallback" /\ ~w.dim THEN "no supercell matrix given" ELSE p

Resolve(w) ==
  LET fb == Fallback(w)
      ym == fb # "nofallback"
  IN [fb |-> fb, ym |-> ym,
      crash |-> ym /\ w.name # "none" /\ w.fl[w.name] = "none",      \* the named file does not exist (only phonopy-load)
      ename |-> IF ym /\ w.name # "none" /\ ~LooksPhonopyYaml(w.fl[w.name], w.yv) THEN "none" ELSE w.name]

(* Step 2 - Read (read_crystal_structure / _read_phonopy_yaml / _get_cell_filename).                              *)
FirstPresent(w, seq) ==
  IF \E i \in 1..Len(seq) : w.fl[seq[i]] # "none"
  THEN seq[CHOOSE i \in 1..Len(seq) : w.fl[seq[i]] # "none" /\ \A j \in 1..(i - 1) : w.fl[seq[j]] = "none"]
  ELSE "none"

ReadStep(w, r) ==
  IF r.crash THEN [found |-> "none", cell |-> FALSE, phpy |-> FALSE]
  ELSE IF r.ym
  THEN LET f == FirstPresent(w, (IF r.ename = "none" THEN <<>> ELSE <<r.ename>>) \o YamlDefaults) IN
       IF f = "none" THEN [found |-> "none", cell |-> FALSE, phpy |-> FALSE]
       ELSE [found |-> f, cell |-> YamlHasCell(w.fl[f]), phpy |-> YamlReads(w.fl[f])]
  ELSE LET f == IF r.ename = "none" THEN DefaultName(w.calc) ELSE r.ename IN
       [found |-> f, cell |-> w.fl[f] # "none", phpy |-> FALSE]

(* Step 3 - Settle (_collect_cells_info, error texts, enforce auto, set_magnetic_moments).                        *)
FailureMessage(w, r, rd) ==                         \* _get_error_message
  IF r.fb = "nofallback"
  THEN [facts |-> {"notfound"} \cup (IF w.name = "none" THEN {"notspecified"} ELSE {}), ment |-> {rd.found}]
  ELSE LET vf    == IF w.name # "none" THEN w.name ELSE "POSCAR"
           head  == IF r.fb = "read_vasp parsing failed" THEN [facts |-> {"vaspfail", "calchint"}, ment |-> {vf}]
                    ELSE IF r.fb = "default file not found" THEN [facts |-> {"notfound"}, ment |-> {vf}]
                    ELSE IF r.fb = "no supercell matrix given" THEN [facts |-> {"nodimgiven"}, ment |-> {}]
                    ELSE [facts |-> {}, ment |-> {}]
           tail  == IF rd.found = "none" THEN [facts |-> {"noyaml"}, ment |-> {Disp, Phy}]
                    ELSE IF ~rd.phpy THEN [facts |-> {"yamlparse"}, ment |-> {rd.found}]
                    ELSE [facts |-> {}, ment |-> {}]
       IN [facts |-> head.facts \cup {"yamlmode"} \cup tail.facts, ment |-> head.ment \cup tail.ment]

Settle(w, r, rd) ==
  IF r.crash THEN [NoneOut EXCEPT !.st = "err", !.facts = {"notfound"}, !.ment = {w.name}]   \* see note (N) below
  ELSE IF ~rd.cell
  THEN LET m == FailureMessage(w, r, rd) IN [NoneOut EXCEPT !.st = "err", !.facts = m.facts, !.ment = m.ment]
  ELSE
  LET f     == rd.found
      fromy == r.ym /\ rd.phpy
      xmode  == IF fromy /\ w.yv.hdr /\ w.yv.calc THEN SlotCalc[f] ELSE IF r.ym THEN w.calc ELSE w.calc
      xdim   == IF fromy /\ w.yv.dim THEN "y:" \o f ELSE IF w.dim THEN "opt" ELSE "none"
      pa0   == IF w.pa # "none" THEN w.pa ELSE IF fromy /\ w.yv.pa THEN "y:" \o f ELSE "none"
      xpa    == IF w.bauto THEN "auto" ELSE pa0
      mag0  == IF fromy /\ w.yv.mag THEN "y:" \o f ELSE "none"
  IN
  IF xdim = "none"
  THEN IF r.ym THEN [NoneOut EXCEPT !.st = "err", !.facts = {"readfrom", "nodimyaml"}, !.ment = {f}]
       ELSE IF r.ename = "none" /\ f = DefaultName(xmode)
            THEN [NoneOut EXCEPT !.st = "err", !.facts = {"readfrom", "nodim", "oldstyle"}, !.ment = {f, Disp, Phy}]
            ELSE [NoneOut EXCEPT !.st = "err", !.facts = {"readfrom", "nodim"}, !.ment = {f}]
  ELSE IF w.mag = "bad" THEN [NoneOut EXCEPT !.st = "err", !.facts = {"badmagmom"}]
  ELSE [st |-> "ok", src |-> f, mode |-> xmode, dim |-> xdim, pa |-> xpa,
        mag |-> IF w.mag = "ok" THEN "opt" ELSE mag0, yml |-> r.ym, facts |-> {}, ment |-> {}]

(* (N) The named file of phonopy-load does not exist: the machine states the INTENDED outcome - the message the  *)
(* other mode gives for the same mistake ('Crystal structure file "<name>" was not found.', and '"<name>" was not  *)
(* found.' when it is the first argument).  The pinned code opens the file unguarded (is_file_phonopy_yaml) and    *)
(* raises FileNotFoundError when the name comes from CELL_FILENAME of the configuration file: ImplNoTraceback.     *)
Decide(w) == LET r == Resolve(w) IN LET rd == ReadStep(w, r) IN Settle(w, r, rd)

-----------------------------------------------------------------------------
(* The step machine.                                                                                              *)
VARIABLES w, pc, rs, rd, out
vars == <<w, pc, rs, rd, out>>

Init == /\ w \in Worlds
        /\ pc = "resolve" /\ rs = <<>> /\ rd = <<>> /\ out = NoneOut

DoResolve == pc = "resolve" /\ rs' = Resolve(w) /\ pc' = "read" /\ UNCHANGED <<w, rd, out>>
DoRead    == pc = "read" /\ rd' = ReadStep(w, rs) /\ pc' = "settle" /\ UNCHANGED <<w, rs, out>>
DoSettle  == pc = "settle" /\ out' = Settle(w, rs, rd) /\ pc' = "done" /\ UNCHANGED <<w, rs, rd>>
Next == DoResolve \/ DoRead \/ DoSettle

-----------------------------------------------------------------------------
(* REQUIREMENT - from the documentation.  Each operator takes the world and an outcome (the machine's or the      *)
(* one a real run returned).                                                                                      *)

(* The documented deviations of the code (observations, reported by the harness with their counts; they are      *)
(* stated in the docstring of collect_cell_info: "phonopy.yaml like file name can be specified as the input      *)
(* crystal structure. Since phonopy.yaml like file contains supercell and primitive cell matricies information,  *)
(* these parameter inputs of this function are ignored." and in its comment "Not readable as yaml. Proceed to    *)
(* look for default file names.").                                                                                *)
YamlConsulted(x) == x.load \/ (x.calc = "none" /\ PoscarProbe(x) # "nofallback")
DevNameDropped(x) == YamlConsulted(x) /\ x.name # "none" /\ x.fl[x.name] # "none"
                     /\ ~LooksPhonopyYaml(x.fl[x.name], x.yv)
DevDimIgnored(x, o)  == o.st = "ok" /\ o.yml /\ x.dim /\ x.yv.dim
DevCalcIgnored(x, o) == o.st = "ok" /\ o.yml /\ x.calc # "none" /\ x.yv.hdr /\ x.yv.calc

(* R1  doc/command-options.md, "-c or --cell": "Unit cell crystal structure file is specified with this tag."     *)
(*     doc/phonopy-load.md: "phonopy_xxx.yaml type file is given as the first argument of the command."           *)
ReqExplicitCell(x, o) ==
  (x.name # "none" /\ o.st = "ok" /\ ~DevNameDropped(x)) => o.src = x.name

(* R2  doc/command-options.md: "Without specifying this tag, default file name is searched in current            *)
(*     directory. The default file names for the calculators are as follows: VASP POSCAR ... PWscf unitcell.in"   *)
ReqDefaultSearch(x, o) ==
  /\ (~x.load /\ x.name = "none" /\ x.calc # "none" /\ o.st = "ok") => o.src = DefaultName(x.calc)
  /\ (~x.load /\ x.name = "none" /\ x.dim /\ x.mag # "bad"
        /\ ((x.calc = "qe" /\ x.fl["unitcell.in"] = "qe") \/ (x.calc # "qe" /\ x.fl["POSCAR"] = "vasp")))
       => (o.st = "ok" /\ o.src = DefaultName(x.calc) /\ o.dim = "opt")

(* R3  doc/phonopy-load.md: "phonopy_xxx.yaml type file is always necessary in either of two ways: 1. ... given   *)
(*     as the first argument of the command. 2. phonopy_disp.yaml or phonopy.yaml is put in the current           *)
(*     directory. The searching preference order is phonopy_disp.yaml > phonopy.yaml."                            *)
ReqLoadNeedsYaml(x, o) ==
  /\ (x.load /\ o.st = "ok") => (o.yml /\ x.fl[o.src] = "yaml" /\ o.src \in {x.name, Disp, Phy})
  /\ (o.st = "ok" /\ o.yml /\ (x.name = "none" \/ DevNameDropped(x)))
       => o.src = (IF x.fl[Disp] # "none" THEN Disp ELSE Phy)
  /\ (x.load /\ x.name = "none" /\ x.fl[Disp] = "none" /\ x.fl[Phy] = "none")
       => (o.st = "err" /\ {Disp, Phy} \subseteq o.ment)
  /\ (x.load /\ x.name = "none" /\ x.fl[Disp] = "yaml" /\ x.yv.dim /\ x.mag # "bad") => (o.st = "ok" /\ o.src = Disp)

(* R4  doc/input-files.md, phonopy_disp.yaml: "This contains the crystal structure information, primitive cell    *)
(*     and supercell sizes, and also the calculator interface. Therefore with this file, users will not need to   *)
(*     specify those crystal structure related tags when running phonopy."; doc/phonopy-load.md: "Once having     *)
(*     the phonopy_xxx.yaml file, it is unnecessary to specify the calculator name".                              *)
ReqYamlSettings(x, o) ==
  (o.st = "ok" /\ o.yml) =>
     /\ (x.yv.dim => o.dim = "y:" \o o.src)
     /\ (x.yv.pa /\ x.pa = "none" /\ ~x.bauto => o.pa = "y:" \o o.src)
     /\ (x.yv.hdr /\ x.yv.calc => o.mode = SlotCalc[o.src])
     /\ (x.yv.mag /\ x.mag = "none" => o.mag = "y:" \o o.src)

(* R5  doc/setting-tags.md: DIM "The supercell is created from the input unit cell" with the given numbers;        *)
(*     PRIMITIVE_AXES "When specified, transformation from the input unit cell to the primitive cell is           *)
(*     performed."; MAGMOM "The number of values has to be equal to the number of atoms, or its three times";      *)
(*     BAND = AUTO chooses the primitive axes automatically.  A value given by the user is used or the run        *)
(*     stops; it is never dropped - except the documented deviations above.                                       *)
ReqGivenIsUsed(x, o) ==
  /\ (o.st = "ok" /\ x.dim /\ ~DevDimIgnored(x, o)) => o.dim = "opt"
  /\ (o.st = "ok" /\ ~x.dim /\ ~o.yml) => FALSE                         \* no supercell matrix: no success
  /\ (o.st = "ok" /\ x.pa # "none" /\ ~x.bauto) => o.pa = x.pa
  /\ (o.st = "ok" /\ x.bauto) => o.pa = "auto"
  /\ (o.st = "ok" /\ x.calc # "none" /\ ~DevCalcIgnored(x, o)) => o.mode = x.calc
  /\ (o.st = "ok" /\ x.mag = "ok") => o.mag = "opt"
  /\ x.mag = "bad" => o.st # "ok"
  /\ (o.st = "ok" /\ ~o.yml) => (o.mode = x.calc /\ o.mag = (IF x.mag = "ok" THEN "opt" ELSE "none")
                                  /\ o.pa = (IF x.bauto THEN "auto" ELSE x.pa))

(* R6  errors are messages that name the file(s) looked for (doc/command-options.md: "default file name is        *)
(*     searched in current directory"; doc/phonopy-load.md item 2).                                               *)
LookedFor(x) ==
  IF x.name # "none" /\ ~DevNameDropped(x) THEN {x.name}
  ELSE IF x.load \/ DevNameDropped(x) THEN {Disp, Phy}
  ELSE IF x.calc # "none" THEN {DefaultName(x.calc)}
  ELSE {"POSCAR", Disp, Phy}
ReqNoTraceback(x, o) == o.st # "exc"                   \* a failure is a message, not a Python traceback
ReqErrorsNameFile(x, o) ==
  /\ (o.st = "err" /\ "badmagmom" \notin o.facts) => (o.ment \cap LookedFor(x)) # {}
  /\ (x.name # "none" /\ x.fl[x.name] = "none") => (o.st = "err" /\ x.name \in o.ment /\ "notfound" \in o.facts)
  /\ (~x.load /\ x.name = "none" /\ x.calc # "none" /\ x.fl[DefaultName(x.calc)] = "none")
        => (o.st = "err" /\ DefaultName(x.calc) \in o.ment /\ "notfound" \in o.facts)
  /\ (o.st = "err" /\ "noyaml" \in o.facts) => (x.fl[Disp] = "none" /\ x.fl[Phy] = "none")
  /\ (o.st = "err" /\ "yamlparse" \in o.facts) => \E f \in o.ment : x.fl[f] \in {"ybroken", "junk"}

(* R8  phonopy_script.main stops a run that combines magnetic moments (MAGMOM, or those of the yaml unit cell)    *)
(*     with automatically chosen primitive axes: "'PRIMITIVE_AXES = auto' and 'BAND = auto' are not allowed using *)
(*     with MAGMOM." / "... with magnetic_moments.", after 'Unit cell was read from "<file>".'                    *)
MainStops(x, o) == o.st = "ok" /\ o.mag # "none" /\ o.pa = "auto"
MainOutcome(o)  == [NoneOut EXCEPT !.st = "err", !.facts = {"magauto"}, !.ment = {o.src}]
ReqMainStops(x, o) == o.st = "err" /\ "magauto" \in o.facts /\ o.ment # {} /\ \A f \in o.ment : x.fl[f] \in {"vasp", "qe", "yaml"}

(* R7  files the documentation never has phonopy look at do not matter: phonopy_params.yaml and any other file    *)
(*     unless named; the other calculator's default file; POSCAR for phonopy-load.                                *)
Relevant(x) ==
  (IF x.name = "none" THEN {} ELSE {x.name})
  \cup (IF x.load THEN {} ELSE {DefaultName(x.calc)})
  \cup (IF x.load \/ x.calc = "none" THEN {Disp, Phy} ELSE {})
Cleared(x) == [x EXCEPT !.fl = [s \in Slots |-> IF s \in Relevant(x) THEN x.fl[s] ELSE "none"]]
ReqIrrelevantFiles(x, o) == o = Decide(Cleared(x))

ReqNames == <<"ReqExplicitCell", "ReqDefaultSearch", "ReqLoadNeedsYaml", "ReqYamlSettings", "ReqGivenIsUsed",
              "ReqErrorsNameFile">>
ReqHolds(n, x, o) ==
  CASE n = "ReqExplicitCell" -> ReqExplicitCell(x, o)
    [] n = "ReqDefaultSearch" -> ReqDefaultSearch(x, o)
    [] n = "ReqLoadNeedsYaml" -> ReqLoadNeedsYaml(x, o)
    [] n = "ReqYamlSettings" -> ReqYamlSettings(x, o)
    [] n = "ReqGivenIsUsed" -> ReqGivenIsUsed(x, o)
    [] n = "ReqErrorsNameFile" -> ReqErrorsNameFile(x, o)

Done == pc = "done"
InvExplicitCell    == Done => ReqExplicitCell(w, out)
InvDefaultSearch   == Done => ReqDefaultSearch(w, out)
InvLoadNeedsYaml   == Done => ReqLoadNeedsYaml(w, out)
InvYamlSettings    == Done => ReqYamlSettings(w, out)
InvGivenIsUsed     == Done => ReqGivenIsUsed(w, out)
InvErrorsNameFile  == Done => ReqErrorsNameFile(w, out)
InvIrrelevantFiles == Done => ReqIrrelevantFiles(w, out)
InvNoTraceback     == Done => ReqNoTraceback(w, out)
InvMachineIsDecide == Done => out = Decide(w)

-----------------------------------------------------------------------------
(* The decision table for the replay: one printed row per world.                                                 *)
B(b) == IF b THEN "1" ELSE "0"
Key(x) == x.fl["POSCAR"] \o "|" \o x.fl["unitcell.in"] \o "|" \o x.fl[Disp] \o "|" \o x.fl[Phy] \o "|" \o x.fl[Params]
          \o "|" \o x.fl[CellX] \o "|" \o B(x.yv.hdr) \o B(x.yv.dim) \o B(x.yv.pa) \o B(x.yv.calc) \o B(x.yv.mag)
          \o "|" \o B(x.load) \o "|" \o x.calc \o "|" \o x.name \o "|" \o B(x.dim) \o "|" \o x.pa \o "|" \o B(x.bauto)
          \o "|" \o x.mag
Obs(x, o) == {n \in {"DevNameDropped", "DevDimIgnored", "DevCalcIgnored"} :
                 CASE n = "DevNameDropped" -> DevNameDropped(x) /\ o.st = "ok"
                   [] n = "DevDimIgnored" -> DevDimIgnored(x, o)
                   [] n = "DevCalcIgnored" -> DevCalcIgnored(x, o)}
Emit == (Done /\ Emitting) =>
          PrintT(<<"T", Key(w), out.st, out.src, out.mode, out.dim, out.pa, out.mag, out.yml, out.facts, out.ment,
                   Obs(w, out), MainStops(w, out), Key(Cleared(w))>>)
=============================================================================
