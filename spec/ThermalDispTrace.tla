-------------------------- MODULE ThermalDispTrace --------------------------
(* Judgement of recorded runs of Phonopy.run_thermal_displacement_matrices /  *)
(* run_thermal_displacements on oracle crystals (harness/props/c19.py).       *)
(* The sampled modes of a real run are not exactly representable, so an event *)
(* carries, for the run it names (crystal, mesh, shift, temperatures, window, *)
(* direction), the deviations (integers, unit 1e-12 relative to the largest   *)
(* matrix element, capped) of the recorded results from the requirement of    *)
(* ThermalDisp.tla evaluated by the harness on the specification's exact      *)
(* force constants (lattice Fourier sum, numpy eigh, hbar(1+2n)/(2 omega)):   *)
(*   mat    thermal_displacement_matrices  from  (1/N) sum a2 e e^dagger / m  *)
(*   sym    asymmetry  |B - B^T|                                              *)
(*   psd    negative part of the smallest eigenvalue of B                     *)
(*   diag   thermal_displacements (no direction) from the diagonal of B       *)
(*   proj   projected thermal_displacements from  d^T B d                     *)
(*   cif    thermal_displacement_matrices_cif from (A N)^-1 B (A N)^-T with   *)
(*          A N built from the definition (reciprocal lengths)                *)
(*   link   (mesh = commensurate points of the supercell) B_k from the        *)
(*          diagonal block of the supercell's canonical covariance and of     *)
(*          RandomDisplacements.uu                                            *)
(* and the exact facts  nsel (modes in the window, harness) > 0, ntemp.       *)
EXTENDS Integers, FiniteSets

CONSTANTS Events, Tol, Kinds

VARIABLES ev, judged
tvars == <<ev, judged>>

TInit == ev \in Events /\ judged = FALSE
Judge == ~judged /\ judged' = TRUE /\ UNCHANGED ev
TNext == Judge

J == judged
ImplMatrices == J => ev.num.mat <= Tol
ImplSymmetric == J => ev.num.sym <= Tol
ImplPSD == J => ev.num.psd <= Tol
ImplDiagonalIsMSD == J => ev.num.diag <= Tol
ImplProjection == J => ev.num.proj <= Tol
ImplCif == J => ev.num.cif <= Tol
ImplSupercellLink == J => ev.num.link <= Tol
(* no vacuity: the window selects modes, every event is of a known kind *)
CheckNonVacuous == J => ev.nsel > 0 /\ ev.ntemp > 0 /\ ev.kind \in Kinds
=============================================================================
