-------------------------- MODULE ThermalIdentities --------------------------
(* C10, thermodynamic consistency of the REPORTED numbers.                   *)
(*                                                                           *)
(* Claims about real-valued functions of T (S = -dF/dT, C_V = T dS/dT, S and *)
(* C_V non-negative and non-decreasing, C_V -> k_B per mode) lie outside the *)
(* exact domain (DESIGN 2.3): the specification names the claims, fixes the  *)
(* tolerances and the classes of h nu / k T every run has to visit; the      *)
(* harness runs the real code on a frequency set and an increasing           *)
(* temperature grid, takes Richardson-extrapolated central differences of    *)
(* the REPORTED F and S, and logs per grid point INTEGER deviations          *)
(* (units below); TLC walks every logged run row by row and decides.         *)
(*                                                                           *)
(* Row fields:  cls    x-classes of the contributing modes at this row        *)
(*                     ("tiny" < 1e-6 <= "small" < 1e-3 <= "normal" <= 700   *)
(*                     < "big" <= 1400 < "huge")                             *)
(*              tol    conditioning class: "tiny" / "small" if such a mode   *)
(*                     is present, else "normal" (differences of exp(x) - 1  *)
(*                     and 1 - exp(-x) lose eps / x: tolerances below)       *)
(*              fin    all three reported values finite                      *)
(*              sS, sCv  sign of S, C_V (-1, 0, 1)                           *)
(*              dropS, dropCv  decrease w.r.t. the previous (colder) row in  *)
(*                     units of 1e-12 N k_B (0 if none)                      *)
(*              devS   |S + dF/dT| ,  devCv  |C_V - T dS/dT|  in units of    *)
(*                     1e-9 N k_B (-1: not evaluated at this row)            *)
(*              devDP  |C_V / (N k_B) - 1| in units of 1e-9 where all        *)
(*                     x <= 0.01 (then x^2/12 <= 8.4e-6), else -1            *)
(* N k_B = (number of contributing modes) k_B / sum of weights.              *)
EXTENDS Integers, Sequences, FiniteSets, TLC

CONSTANTS Events,        \* set of logged runs [id, lang, classical, rows]
          NeedClasses    \* x-classes the union of all runs must visit

TolIdentity == [normal |-> 1000, small |-> 100000, tiny |-> 10000000]    \* 1e-6, 1e-4, 1e-2 N k_B
TolDrop == [normal |-> 100, small |-> 100000, tiny |-> 100000000]         \* 1e-10, 1e-7, 1e-4 N k_B
TolDulongPetit == 10000                                                   \* 1e-5  (x <= 0.01)

VARIABLES ev, ri
vars == <<ev, ri>>

Init == ev \in Events /\ ri = 1
Step == ri < Len(ev.rows) /\ ri' = ri + 1 /\ UNCHANGED ev
Next == Step

Row == ev.rows[ri]
HasRow == ri <= Len(ev.rows)

ImplFinite == HasRow => Row.fin
(* classical statistics: S = k (1 - ln x) is negative for x > e, only the quantum entropy is >= 0 *)
ImplEntropyNonNegative == (HasRow /\ Row.fin /\ ~ev.classical) => Row.sS >= 0
ImplHeatCapacityNonNegative == (HasRow /\ Row.fin) => Row.sCv >= 0
ImplEntropyNonDecreasing == (HasRow /\ Row.fin) => Row.dropS <= TolDrop[Row.tol]
ImplHeatCapacityNonDecreasing == (HasRow /\ Row.fin) => Row.dropCv <= TolDrop[Row.tol]
ImplEntropyIsMinusDFDT == (HasRow /\ Row.fin /\ Row.devS >= 0) => Row.devS <= TolIdentity[Row.tol]
ImplHeatCapacityIsTDSDT == (HasRow /\ Row.fin /\ Row.devCv >= 0) => Row.devCv <= TolIdentity[Row.tol]
ImplDulongPetit == (HasRow /\ Row.fin /\ Row.devDP >= 0) => Row.devDP <= TolDulongPetit

(* no vacuity: the logged runs visit every class, evaluate every identity, reach the classical limit *)
Visited == UNION {UNION {{e.rows[j].cls[k] : k \in 1..Len(e.rows[j].cls)} : j \in 1..Len(e.rows)} : e \in Events}
ASSUME NeedClasses \subseteq Visited
ASSUME \E e \in Events : \E j \in 1..Len(e.rows) : e.rows[j].devS >= 0 /\ e.rows[j].devCv >= 0
ASSUME \E e \in Events : \E j \in 1..Len(e.rows) : e.rows[j].devDP >= 0
ASSUME \E e \in Events : e.classical
ASSUME {e.lang : e \in Events} = {"C", "Py"}
=============================================================================
