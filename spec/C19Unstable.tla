---------------------------- MODULE C19Unstable ----------------------------
(* Dynamically UNSTABLE reference crystals for C19 (same record shape as    *)
(* Catalogue.tla): pair-spring models with some NEGATIVE spring constants,  *)
(* so that the dynamical matrix has negative eigenvalues (imaginary modes)  *)
(* at commensurate wave vectors.  The model is linear in the constants:     *)
(* index-permutation symmetry, translational invariance and the space group *)
(* hold whatever their signs (checked in C19SpringsDump).  Used for the     *)
(* clause "rebuilding force constants from the unmodified eigen-solutions   *)
(* returns the original ones", which quantifies over ALL force constants.   *)
EXTENDS Catalogue

(* simple cubic: attractive-curvature second neighbours *)
USC ==
  [name |-> "usc", G |-> Cubic, D |-> 1, reach |-> 3,
   atoms |-> <<At(1, <<0,0,0>>, 4)>>,
   springs |-> (<<1,1,1>> :> <<5,1>>) @@ (<<1,1,2>> :> <<-2,0>>)]

(* CsCl structure: like-atom springs of both signs *)
UCsCl ==
  [name |-> "ucscl", G |-> Cubic, D |-> 2, reach |-> 3,
   atoms |-> <<At(1, <<0,0,0>>, 9), At(2, <<1,1,1>>, 4)>>,
   springs |-> (<<1,2,3>> :> <<2,1>>) @@ (<<1,1,4>> :> <<-5,0>>) @@ (<<2,2,4>> :> <<3,-1>>)]

(* triclinic P1, three atoms (complex eigenvectors): every fourth shell negative *)
UTric ==
  [name |-> "utric", G |-> <<<<4,1,1>>,<<1,5,2>>,<<1,2,6>>>>, D |-> 4, reach |-> 3,
   atoms |-> <<At(1, <<0,0,0>>, 12), At(2, <<1,2,1>>, 16), At(1, <<2,1,3>>, 12)>>,
   springs |-> [k \in {<<s1, s2, l2>> : s1 \in 1..2, s2 \in 1..2, l2 \in 1..64} \cap
                      {k \in (1..2) \X (1..2) \X (1..64) : k[1] <= k[2]} |->
                  <<(1 + (k[3] % 3)) * (IF k[3] % 4 = 0 THEN -2 ELSE 1), k[3] % 2>>]]

UEntries == <<USC, UCsCl, UTric>>
UEntryByName(n) == UEntries[CHOOSE i \in 1..Len(UEntries) : UEntries[i].name = n]
=============================================================================
