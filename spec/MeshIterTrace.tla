--------------------------- MODULE MeshIterTrace ---------------------------
(* Code -> spec for MeshIter: one event = one history of calls made on a     *)
(* real object (Mesh or IterMesh) with what each call returned:              *)
(*   cls    "Mesh" | "IterMesh"                                               *)
(*   n      number of irreducible q-points of the underlying grid            *)
(*   hist   sequence of "next" | "iter"                                       *)
(*   obs    sequence of results: index of the q-point whose stored reference *)
(*          frequencies equal the yielded ones, -1 for StopIteration,        *)
(*          -2 for iter() returning the object itself, -3 for anything else  *)
(*   sameGrid  the (q, weight) pairs of the IterMesh are those of the Mesh   *)
(*   eigOK  yielded eigenvectors rebuild the reference dynamical matrix      *)
EXTENDS MeshIter

CONSTANT Events
VARIABLES ev, pos, ok
tvars == <<ivars, ev, pos, ok>>

TInit == ev \in Events /\ n = ev.n /\ count = 0 /\ last = NoneYet /\ calls = 0 /\ yields = <<>>
         /\ pos = 0 /\ ok = TRUE

Step ==
  /\ pos < Len(ev.hist)
  /\ pos' = pos + 1
  /\ IF ev.hist[pos + 1] = "next" THEN CallNext ELSE CallIter
  /\ ok' = (ok /\ ev.obs[pos + 1] = last')
  /\ UNCHANGED ev
TNext == Step

(* the observed results are the specification's after every call *)
ImplObservations == ok
ImplSameGrid == ev.sameGrid
ImplEigenvectors == ev.eigOK
EventWellFormed == Len(ev.hist) = Len(ev.obs) /\ Len(ev.hist) <= MaxCalls
=============================================================================
