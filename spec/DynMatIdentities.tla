-------------------------- MODULE DynMatIdentities --------------------------
(* C03 on the real kernels, with the MEMORY LAYOUT of the handed-in force     *)
(* constants as a dimension.  DynMat.tla decides the identities (Hermitian,   *)
(* TimeReversal, GPeriodic, PointGroupCovariance, ASR, Scaling) on the exact  *)
(* series `herm`; they are statements about the VALUES of the force           *)
(* constants.  This module states that the matrix the real code builds obeys  *)
(* them however those values are handed in:                                   *)
(*   mem   "C" | "F" (np.asfortranarray) | "T" (transposed Hessian, owns its  *)
(*         data, permuted strides) | "view" (strided slice) | "sub" (view     *)
(*         into a larger buffer) | "list" | "f32" (float32: the identities    *)
(*         then hold for the rounded values, tolerance 1e-4)                  *)
(*   route "setter" Phonopy.force_constants = a | "ctor" DynamicalMatrix(..., *)
(*         a) | "factory" get_dynamical_matrix(a, ...)                        *)
(* One event = one real session of C03's replay (harness/props/c03.py): the   *)
(* force constants TLC published for the case, handed in as (mem, route),     *)
(* evaluated by kernel kern at TLC's q, G, R; the harness interprets the      *)
(* identities numerically and logs one verdict per identity:                  *)
(*   [kern, series, herm, trev, gper, pgrp, asr, scal : BOOLEAN]              *)
(* (pgrp / asr / scal are logged TRUE when the antecedent does not apply:     *)
(* arbitrary arrays, unscaled cases).  The machine's verdict for every        *)
(* identity is TRUE for every (mem, route, kern): DynMat's invariants hold    *)
(* for the values.  Impl* judge the logged verdicts.                          *)
EXTENDS Integers, FiniteSets, TLC

CONSTANT Sessions   \* set of [id, mem, route, springs : BOOLEAN, scaled : BOOLEAN, runs : set of run records]

VARIABLES pc, r, todo, cur
vars == <<pc, r, todo, cur>>

Mems == {"C", "F", "T", "view", "sub", "list", "f32"}
Routes == {"setter", "ctor", "factory"}
Kernels == {"batch", "C", "Py"}

Identities == {"series", "herm", "trev", "gper", "pgrp", "asr", "scal"}

(* one step per (kernel, identity): every violated identity has its own state and is named by TLC *)
NoRun == [none |-> TRUE]
Init == pc = "session" /\ r \in Sessions /\ todo = Kernels \X Identities /\ cur = NoRun
Evaluate ==
  /\ pc = "session" /\ todo # {}
  /\ LET k == CHOOSE k \in todo : TRUE IN
       /\ todo' = todo \ {k}
       /\ cur' = IF \E u \in r.runs : u.kern = k[1]
                  THEN LET u == CHOOSE u \in r.runs : u.kern = k[1]
                       IN [kern |-> k[1], ident |-> k[2], mem |-> r.mem, route |-> r.route, ok |-> u[k[2]]]
                  ELSE [missing |-> k[1]]
  /\ UNCHANGED <<pc, r>>
Finish == pc = "session" /\ todo = {} /\ pc' = "done" /\ UNCHANGED <<r, todo, cur>>
Next == Evaluate \/ Finish
Spec == Init /\ [][Next]_vars

Holds(ident) == ("ident" \in DOMAIN cur /\ cur.ident = ident) => cur.ok

(* every layout through every route is exercised by the sessions of a run, on every kernel *)
ImplLayoutsCovered == {<<s.mem, s.route>> : s \in Sessions} = Mems \X Routes
ImplAllKernelsLogged == "missing" \notin DOMAIN cur
(* the identities of DynMat.tla on the matrix the real code built from (mem, route) *)
ImplIsTheSeries == Holds("series")
ImplHermitian == Holds("herm")
ImplTimeReversal == Holds("trev")
ImplGPeriodic == Holds("gper")
ImplPointGroup == Holds("pgrp")
ImplASR == Holds("asr")
ImplScaling == Holds("scal")
=============================================================================
