------------------------ MODULE DisplacementsTrace ------------------------
(* Conformance of the implementation's get_least_displacements with         *)
(* Displacements.tla.  One event = the displacement directions the real     *)
(* code generated for one symmetry-independent atom of a real Phonopy       *)
(* object:                                                                  *)
(*   site : the site-symmetry operations Symmetry.get_site_symmetry(atom)   *)
(*          returned (integer matrices, in the order of the code)           *)
(*   diag, pm, trig : the options of generate_displacements                 *)
(*   out  : the directions [d1, d2, d3] of the rows of                      *)
(*          get_least_displacements(...) for that atom, in order            *)
(* The step machine is started on the logged input; at the end              *)
(*   Impl*     evaluate the REQUIREMENT on the logged output (violations of *)
(*             C01: the displacement set is not sufficient / the plus-minus *)
(*             rule is broken), and                                         *)
(*   Conforms* compare the logged output with the machine's.                *)
EXTENDS Displacements

CONSTANT Events
VARIABLE ev
tvars == <<vars, ev>>

TInit ==
  /\ ev \in Events
  /\ pc = "one" /\ cfg = 0 /\ gens = <<>> /\ grp = {}
  /\ site = ev.site /\ diag = ev.diag /\ k = 1 /\ chosen = <<>> /\ trig = FALSE /\ pm = "none" /\ mi = 0 /\ out = <<>>

TNext == (TryOne \/ TryTwoWith({ev.trig}) \/ FallbackThree \/ ChoosePMWith({ev.pm}) \/ AddMinus) /\ UNCHANGED ev
TSpec == TInit /\ [][TNext]_tvars

AtEnd == pc = "done"

ImplSpan == AtEnd => ReqSpan(ev.site, ev.out)
ImplPlusMinus == AtEnd => ReqPlusMinus(ev.site, ev.pm, ev.out)
ImplFromList == AtEnd => ReqFromList(ev.diag, ev.trig, ev.out)
(* hypothesis of the requirement: what the code calls site symmetry is a finite matrix group *)
ImplSiteIsGroup == pc = "one" => IsMatrixGroup(ev.site)

ConformsOut == AtEnd => ev.out = out
=============================================================================
