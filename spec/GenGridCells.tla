---------------------------- MODULE GenGridCells ----------------------------
(* The reference crystals of MeshCatalogue as data for the X01 harness (one *)
(* state per entry): Gram matrix, position denominator, atoms.              *)
EXTENDS MeshCatalogue
CONSTANT Wanted
VARIABLES name, cr
CInit == name \in Wanted /\ cr = [G |-> MeshEntryByName(name).G, D |-> MeshEntryByName(name).D,
                                  atoms |-> MeshEntryByName(name).atoms]
CNext == UNCHANGED <<name, cr>>
=============================================================================
