--------------------------- MODULE ThermalCoverage ---------------------------
(* C10: the sums run over ALL q-points of the mesh, whatever their number.   *)
(*                                                                           *)
(* Thermal.tla states the requirement as a sum over the whole index set      *)
(* (1..NQ) x bands - nothing in it depends on NQ - and is model-checked for  *)
(* NQ <= 2.  This module carries the same statement to meshes of any size    *)
(* on the trace side: for a q-count ladder (1 .. several thousand q-points,  *)
(* non-uniform weights, one band) the harness records from the real code     *)
(*   kind "perq":  the weight with which EVERY single q-point enters the     *)
(*                 compiled sum, decoded by marking q-points with their own  *)
(*                 frequency level (three per run) against a background      *)
(*                 level and decoding the level coefficients as in           *)
(*                 ThermalTrace;                                             *)
(*   kind "seg":   for both code paths the decoded coefficient of each of    *)
(*                 the four levels when the levels mark contiguous quarters  *)
(*                 of the q-index range, or q mod 4;                         *)
(*   kind "sum":   the integer deviation (1e-12 of the natural scale) of the *)
(*                 reported F, S, C_V from the interpretation of the         *)
(*                 required weights (field req of the state, computed here)  *)
(*                 on a random spectrum, both code paths, and on a dense     *)
(*                 mesh through Phonopy.run_thermal_properties.              *)
(* One action per step: FeedKernel (one call over the whole array), Normalise.*)
EXTENDS Integers, Sequences, FiniteSets, TLC

CONSTANTS Events

VARIABLES pc, ev, seen, div, req
vars == <<pc, ev, seen, div, req>>

NQ(e) == Len(e.w)

(* iterative sums: meshes have thousands of q-points *)
RECURSIVE SumTo(_, _, _)
SumTo(w, q, acc) == IF q = 0 THEN acc ELSE SumTo(w, q - 1, acc + w[q])
WSum(e) == SumTo(e.w, NQ(e), 0)
RECURSIVE LevSum(_, _, _, _)
LevSum(e, L, q, acc) == IF q = 0 THEN acc ELSE LevSum(e, L, q - 1, IF e.levq[q] = L THEN acc + e.w[q] ELSE acc)

(* THE REQUIREMENT: every q-point of the mesh enters with its own weight, once - for every NQ *)
ReqSeen(e) == e.w
ReqLevelCoef(e, L) == LevSum(e, L, NQ(e), 0)

Init == /\ ev \in Events /\ pc = "feed" /\ seen = <<>> /\ div = 0 /\ req = ReqSeen(ev)

(* phonoc.thermal_properties(props, temperatures, frequencies, weights, ...): one call, the whole arrays *)
FeedKernel == /\ pc = "feed" /\ seen' = [q \in 1..NQ(ev) |-> ev.w[q]] /\ pc' = "norm" /\ UNCHANGED <<ev, div, req>>
(* props /= np.sum(weights) *)
Normalise == /\ pc = "norm" /\ div' = WSum(ev) /\ pc' = "done" /\ UNCHANGED <<ev, seen, req>>
Next == FeedKernel \/ Normalise

Done == pc = "done"
InvEveryQPointOnce == Done => seen = ReqSeen(ev) /\ Len(seen) = NQ(ev) /\ div = WSum(ev)

(* on the recorded values *)
ImplCoversEveryQPoint == (Done /\ ev.kind = "perq") => ev.exact /\ ev.qw = ReqSeen(ev)
ConformsSeen == (Done /\ ev.kind = "perq") => ev.qw = seen
SegOK(e, r) == /\ r.exact
               /\ \A L \in 1..4 : r.S[L] = ReqLevelCoef(e, L) /\ r.Cv[L] = ReqLevelCoef(e, L) /\ r.F[L] = ReqLevelCoef(e, L)
               /\ r.nmodes = WSum(e) /\ r.nint = WSum(e)
ImplSegmentSumsC == (Done /\ ev.kind = "seg") => SegOK(ev, ev.c)
ImplSegmentSumsPy == (Done /\ ev.kind = "seg") => SegOK(ev, ev.py)
ImplLadderSameBothLanguages == (Done /\ ev.kind = "seg") => ev.c = ev.py
(* closed-form comparison: deviations in units of 1e-12 of sum |c| max(|term|, k_B or k_B T); tolerance 1e-10 *)
TolSum == 100
ImplWeightedSumsC == (Done /\ ev.kind = "sum") => ev.finC /\ ev.devC <= TolSum
ImplWeightedSumsPy == (Done /\ ev.kind = "sum" /\ ev.hasPy) => ev.finPy /\ ev.devPy <= TolSum
(* C_V -> k_B per mode: hottest row, all x <= 0.01, |C_V / (N k_B) - 1| in units of 1e-9 *)
ImplLadderDulongPetit == (Done /\ ev.kind = "sum" /\ ev.devDP >= 0) => ev.devDP <= 10000
(* no vacuity (the ladder reaches beyond a thousand q-points with non-uniform weights): ASSUMEd in the MC modules *)
=============================================================================
