--------------------------- MODULE YamlCompatTrace ---------------------------
(* Events (harness/c16_compat.py):                                           *)
(*  - fixture: a phonopy yaml file of the repository's test data (read-only, *)
(*    written by versions 1.11 ... 2.3x): layout and content read off the    *)
(*    YAML document independently of phonopy                                 *)
(*  - legacy: a calculation of the C16 world saved by the current code and   *)
(*    re-laid-out by the harness in an older layout (ly)                     *)
(* obs: what PhonopyYaml.read + phonopy.load give: presence flags (g),     *)
(*   q = integer error classes of the numbers against the independent        *)
(*   reading (0 identical, 1 within the written precision), resave = the     *)
(*   loaded object saved by the current code and loaded again is the same    *)
(*   calculation (error class).                                              *)
EXTENDS YamlCompat

CONSTANT Events
VARIABLE ev
tvars == <<vars, ev>>
E == ev
TInit == Init /\ ev \in Events
TChoose == pc = "choose" /\ c' = E.ct /\ v' = E.ly /\ pc' = "write" /\ UNCHANGED <<file, got>>
TNext == (TChoose \/ Write \/ ParseDataset \/ ParseNac) /\ UNCHANGED ev
AtEnd == pc = "done"
O == E.obs

ImplLayoutIndependent == AtEnd /\ O.status = "ok" => O.g.nac = E.ct.nac /\ O.g.ds = E.ct.ds
ImplLoads == AtEnd /\ O.status = "raised" => E.ct.ds.type = 1 /\ ~E.ct.ds.forces /\ E.ly.natom = "no"
ImplNumbers == AtEnd /\ O.status = "ok" => O.q.cells <= 1 /\ O.q.ds <= 1 /\ O.q.nac <= 1 /\ O.q.fc <= 1
ImplResave == AtEnd /\ O.status = "ok" => O.resave <= 1
ConformsGot == AtEnd => O.status = got.status /\ (O.status = "ok" => O.g = [nac |-> got.nac, ds |-> got.ds])
=============================================================================
