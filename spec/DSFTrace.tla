------------------------------ MODULE DSFTrace ------------------------------
(* X03(a): events of the real DynamicStructureFactor (harness/x03_driver.py) *)
(*  [id, cfg, metric, den, Qn, qn, exact, out |-> [status, toks, cutoff, bf]] *)
(* one per (call, Q-point).  Impl*: the requirement on the logged values;     *)
(* Report: under which code variant the machine reproduces them.             *)
EXTENDS DSF, Json
CONSTANT EventFile
VARIABLE ev
SetOf(s) == {s[j] : j \in DOMAIN s}
Conv(e) == [e EXCEPT !.out = [status |-> e.out.status, toks |-> SetOf(e.out.toks), cutoff |-> e.out.cutoff, bf |-> e.out.bf]]
Events == LET raw == ndJsonDeserialize(EventFile) IN {Conv(raw[j]) : j \in DOMAIN raw}
TInit == /\ ev \in Events /\ pc = "init" /\ cfg = ev.cfg /\ code \in {[phaseConj |-> TRUE], [phaseConj |-> FALSE]}
         /\ out = [status |-> "none", tok |-> Tok("-", "-", "-", "-")]
TNext == Next /\ UNCHANGED ev
First == pc = "init" /\ code.phaseConj
ImplStatus == First => ev.out.status = ReqStatus(ev.cfg)
ImplFormula == First => (ev.out.status = "ok" => ReqTok(ev.cfg) \in ev.out.toks)
ImplCutoff == First => ev.out.cutoff # "bad"
ImplDefinition == First => ev.out.bf # "bad"
(* the folded q the object reports: exactly Q minus an integer vector, and shortest *)
ImplFolded == First => (ev.out.status = "ok" => ev.exact /\ IsFolded(ev.metric, ev.den, ev.Qn, ev.qn))
Failed == {n \in {"Status", "Formula", "Cutoff", "Definition", "Folded"} :
            ~ CASE n = "Status" -> ev.out.status = ReqStatus(ev.cfg)
                [] n = "Formula" -> (ev.out.status = "ok" => ReqTok(ev.cfg) \in ev.out.toks)
                [] n = "Cutoff" -> ev.out.cutoff # "bad"
                [] n = "Definition" -> ev.out.bf # "bad"
                [] n = "Folded" -> (ev.out.status = "ok" => ev.exact /\ IsFolded(ev.metric, ev.den, ev.Qn, ev.qn))}
ReportReq == First => PrintT(ToString(<<"Q", ev.id, Failed>>))
Conf == out.status = ev.out.status /\ (out.status = "ok" => out.tok \in ev.out.toks)
Report == Done => PrintT(ToString(<<"R", ev.id, code.phaseConj, Conf>>))
=============================================================================
