------------------------------- MODULE Moment -------------------------------
(* X03(b): phonon state moments (phonopy/phonon/moment.py, Phonopy.run_moment) *)
(*                                                                          *)
(*   M_n = sum_{q,nu in window} w_q f^n / sum_{q,nu in window} w_q           *)
(* and the projected variant, per atom j,                                    *)
(*   M_n^j = (1/3) sum_{c in x,y,z} [ sum w f^n p_jc / sum w p_jc ],  p = |e_jc(q,nu)|^2 *)
(*                                                                          *)
(* The class is a function of three arrays (frequencies, weights, squared   *)
(* eigenvector components), so the whole of it is EXACT here: frequencies,  *)
(* weights and |e|^2 are small integers, moments are rationals <<num, den>>. *)
(* Requirement side: the definition as sums over the SET of modes in the    *)
(* window, and what follows from it (M_0 = 1, bounds, Cauchy-Schwarz,       *)
(* invariance under replacing a q-point of weight w by w copies - the mesh  *)
(* symmetry on/off statement at the level of the definition).               *)
(* Implementation side: the accumulation loops of _get_moment /             *)
(* _get_projected_moment and the window of set_frequency_range, one action  *)
(* per (q, band).  Window: the code compares  fmin - tol < f < fmax + tol   *)
(* with tol = 1e-8, default fmin = tol, default fmax = max f + tol; for     *)
(* integer frequencies (tol < 1) that is  lo <= f <= hi,  f >= 1,  no upper *)
(* bound.  NoLo / NoHi stand for "not given".                               *)
EXTENDS Integers, Sequences, FiniteSets, FiniteSetsExt, TLC

CONSTANTS Tables,    \* set of [f : q -> band -> Int, w : q -> Nat, p : q -> band -> comp -> Nat] (p = <<>> : not projected)
          Orders, Windows   \* Windows: set of <<lo, hi>>
NoLo == -99
NoHi == 99

VARIABLES pc, tab, ord, win, iq, ib, norm0, mom, result
vars == <<pc, tab, ord, win, iq, ib, norm0, mom, result>>

NQ(t) == Len(t.f)
NB(t) == Len(t.f[1])
Projected(t) == t.p # <<>>
NC(t) == Len(t.p[1][1])
Pow(x, n) == IF n = 0 THEN 1 ELSE IF n = 1 THEN x ELSE x * x
InWin(wn, x) == /\ (IF wn[1] = NoLo THEN x >= 1 ELSE x >= wn[1])
                /\ (wn[2] # NoHi => x <= wn[2])

-----------------------------------------------------------------------------
(* REQUIREMENT: the definition *)
Modes(t) == {<<q, b>> : q \in 1..NQ(t), b \in 1..NB(t)}
Sel(t, wn) == {m \in Modes(t) : InWin(wn, t.f[m[1]][m[2]])}
TermNum(t, n, m) == t.w[m[1]] * Pow(t.f[m[1]][m[2]], n)
TermDen(t, m) == t.w[m[1]]
TermPNum(t, n, c, m) == t.w[m[1]] * Pow(t.f[m[1]][m[2]], n) * t.p[m[1]][m[2]][c]
TermPDen(t, c, m) == t.w[m[1]] * t.p[m[1]][m[2]][c]
DefNum(t, wn, n) == FoldSet(LAMBDA m, acc : acc + TermNum(t, n, m), 0, Sel(t, wn))
DefDen(t, wn) == FoldSet(LAMBDA m, acc : acc + TermDen(t, m), 0, Sel(t, wn))
DefPNum(t, wn, n, c) == FoldSet(LAMBDA m, acc : acc + TermPNum(t, n, c, m), 0, Sel(t, wn))
DefPDen(t, wn, c) == FoldSet(LAMBDA m, acc : acc + TermPDen(t, c, m), 0, Sel(t, wn))
(* a rational or "undefined" (0/0: the code divides by zero) *)
Rat(a, b) == IF b = 0 THEN <<0, 0>> ELSE <<a, b>>
SameRat(x, y) == IF x[2] = 0 \/ y[2] = 0 THEN x[2] = y[2] ELSE x[1] * y[2] = y[1] * x[2]
DefMoment(t, wn, n) == Rat(DefNum(t, wn, n), DefDen(t, wn))
(* projected, three components of one atom: (a1/b1 + a2/b2 + a3/b3) / 3 *)
Third(a, b) == IF b[1] = 0 \/ b[2] = 0 \/ b[3] = 0 THEN <<0, 0>>
               ELSE <<a[1] * b[2] * b[3] + a[2] * b[1] * b[3] + a[3] * b[1] * b[2], 3 * b[1] * b[2] * b[3]>>
DefProjMoment(t, wn, n, atom) ==
  LET c0 == 3 * (atom - 1)
  IN Third([c \in 1..3 |-> DefPNum(t, wn, n, c0 + c)], [c \in 1..3 |-> DefPDen(t, wn, c0 + c)])

(* a q-point of weight w is w q-points of weight 1 with the same modes *)
RECURSIVE ExpandFrom(_, _)
ExpandFrom(t, q) ==
  IF q > NQ(t) THEN [f |-> <<>>, w |-> <<>>, p |-> <<>>]
  ELSE LET rest == ExpandFrom(t, q + 1)
           k == t.w[q]
       IN [f |-> [j \in 1..k |-> t.f[q]] \o rest.f, w |-> [j \in 1..k |-> 1] \o rest.w,
           p |-> IF Projected(t) THEN [j \in 1..k |-> t.p[q]] \o rest.p ELSE <<>>]
Expand(t) == ExpandFrom(t, 1)

-----------------------------------------------------------------------------
(* IMPLEMENTATION: the loops of PhononMoment *)
Zeros(n) == [c \in 1..n |-> 0]
Init == /\ pc = "loop" /\ tab \in Tables /\ ord \in Orders /\ win \in Windows
        /\ iq = 1 /\ ib = 1
        /\ norm0 = IF Projected(tab) THEN Zeros(NC(tab)) ELSE 0
        /\ mom = IF Projected(tab) THEN Zeros(NC(tab)) ELSE 0
        /\ result = <<>>

Accumulate ==      \* if self._fmin < freq and freq < self._fmax: norm0 += w; moment += freq**order * w
  /\ pc = "loop"
  /\ LET x == tab.f[iq][ib]
         w == tab.w[iq]
     IN IF InWin(win, x)
          THEN IF Projected(tab)
                 THEN /\ norm0' = [c \in 1..NC(tab) |-> norm0[c] + w * tab.p[iq][ib][c]]
                      /\ mom' = [c \in 1..NC(tab) |-> mom[c] + Pow(x, ord) * w * tab.p[iq][ib][c]]
                 ELSE /\ norm0' = norm0 + w /\ mom' = mom + Pow(x, ord) * w
          ELSE UNCHANGED <<norm0, mom>>
  /\ IF ib < NB(tab) THEN ib' = ib + 1 /\ iq' = iq /\ pc' = "loop"
     ELSE IF iq < NQ(tab) THEN ib' = 1 /\ iq' = iq + 1 /\ pc' = "loop"
     ELSE ib' = ib /\ iq' = iq /\ pc' = "finish"
  /\ UNCHANGED <<tab, ord, win, result>>

Finish ==          \* moment / norm0 ; projected: sum over the three components of each atom / 3
  /\ pc = "finish"
  /\ result' = IF Projected(tab)
                 THEN [a \in 1..(NC(tab) \div 3) |->
                         Third([c \in 1..3 |-> mom[3 * (a - 1) + c]], [c \in 1..3 |-> norm0[3 * (a - 1) + c]])]
                 ELSE <<Rat(mom, norm0)>>
  /\ pc' = "done"
  /\ UNCHANGED <<tab, ord, win, iq, ib, norm0, mom>>

Next == Accumulate \/ Finish
Spec == Init /\ [][Next]_vars

-----------------------------------------------------------------------------
Done == pc = "done"
Want(t, wn, n) == IF Projected(t) THEN [a \in 1..(NC(t) \div 3) |-> DefProjMoment(t, wn, n, a)]
                                  ELSE <<DefMoment(t, wn, n)>>
SameSeq(x, y) == Len(x) = Len(y) /\ \A k \in 1..Len(x) : SameRat(x[k], y[k])

MachineIsDefinition == Done => SameSeq(result, Want(tab, win, ord))
(* M_0 = 1 whenever it is defined: the zeroth moment is normalised, it does not count modes *)
MomentZeroIsOne == (Done /\ ord = 0) => \A k \in 1..Len(result) : result[k][2] # 0 => result[k][1] = result[k][2]
(* for a window of non-negative frequencies:  min f^n <= M_n <= max f^n *)
Bounds ==
  (Done /\ ~Projected(tab) /\ result[1][2] # 0) =>
     LET S == {tab.f[m[1]][m[2]] : m \in Sel(tab, win)}
     IN (\A x \in S : x >= 0) =>
          /\ \A x \in S : (\A y \in S : x <= y) => Pow(x, ord) * result[1][2] <= result[1][1]
          /\ \A x \in S : (\A y \in S : x >= y) => Pow(x, ord) * result[1][2] >= result[1][1]
(* M_1^2 <= M_2 M_0 *)
CauchySchwarz ==
  (Done /\ ~Projected(tab) /\ result[1][2] # 0) =>
     DefNum(tab, win, 1) * DefNum(tab, win, 1) <= DefNum(tab, win, 2) * DefDen(tab, win)
(* mesh symmetry on/off, at the level of the definition: weights are multiplicities *)
WeightIsMultiplicity == Done => SameSeq(Want(Expand(tab), win, ord), Want(tab, win, ord))

(* NOT a theorem (recorded as a counterexample by the check): a projected moment computed on  *)
(* one representative q of weight 2 equals the one computed on the two q-points it represents, *)
(* whose eigenvector components are exchanged (x <-> y) by the symmetry operation.             *)
SwapXY(pq) == [b \in 1..Len(pq) |-> <<pq[b][2], pq[b][1], pq[b][3]>>]
StarOf(t) == [f |-> <<t.f[1], t.f[1]>>, w |-> <<1, 1>>, p |-> <<t.p[1], SwapXY(t.p[1])>>]
ProjectedReducible ==
  (Done /\ Projected(tab) /\ NQ(tab) = 1 /\ tab.w[1] = 2 /\ NC(tab) = 3
        /\ Want(tab, win, ord)[1][2] # 0 /\ Want(StarOf(tab), win, ord)[1][2] # 0) =>
     SameSeq(Want(StarOf(tab), win, ord), Want(tab, win, ord))

Emit == Done => PrintT(ToString(<<"MOM", tab, ord, win, result>>))
=============================================================================
