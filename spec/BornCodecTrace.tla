--------------------------- MODULE BornCodecTrace ---------------------------
(* Events from get_BORN_lines / parse_BORN on the real P4 crystal            *)
(* (harness/c16_codecs.py):                                                  *)
(*   gt    - the generating tensor T (integers, units of 1/64)               *)
(*   ord   - the atom order of the cell                                      *)
(*   listed- the atoms the header line of the file lists (1-based)           *)
(*   rows  - the tensors written in the file (projected to units of 1/64;    *)
(*           exact = the projection had no residual)                         *)
(*   parsed- the tensors of all atoms returned by parse_BORN                 *)
(*   epsW, epsB - dielectric tensor written / read back, eps0 the input      *)
EXTENDS BornCodec

CONSTANT Events
VARIABLE ev
tvars == <<vars, ev>>
E == ev

TInit == Init /\ ev \in Events
TChoose == pc = "choose" /\ T' = E.gt /\ order' = E.ord /\ pc' = "write" /\ UNCHANGED <<file, back>>
TNext == (TChoose \/ Write \/ Parse) /\ UNCHANGED ev
AtEnd == pc = "done"

F0 == Field(E.gt, E.ord)
ImplExact == AtEnd => E.exact
(* the file lists one atom per orbit and holds that atom's tensor *)
ImplIndependent ==
  AtEnd => /\ Len(E.listed) = 2 /\ Len(E.rows) = 2
           /\ {E.ord[E.listed[j]][1] : j \in 1..2} = {1, 2}
           /\ \A j \in 1..2 : E.rows[j] = F0[E.listed[j]]
(* reading the file back gives the tensors of ALL atoms *)
ImplExpand == AtEnd => E.parsed = F0
ImplEps == AtEnd => E.epsW = E.eps0 /\ E.epsB = E.eps0
(* the atoms the code lists are the specification's representatives *)
ConformsReps == AtEnd => {E.listed[j] : j \in 1..Len(E.listed)} = Reps(order)
ConformsBack == AtEnd => E.parsed = back
=============================================================================
