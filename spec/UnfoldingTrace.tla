--------------------------- MODULE UnfoldingTrace ---------------------------
(* Conformance of real Unfolding objects (ideal supercells of oracle crystals, *)
(* harness/props/x02.py) with Unfolding.tla.  An event is one object and one   *)
(* wave vector q: S, atoms per primitive cell, m = rint(q S) (computed by the  *)
(* harness), the recorded translations (_trans_p, integers), sites (ideal      *)
(* positions projected to [atom, lattice vector]), _index_map_inv, the         *)
(* commensurate points (N G, integers), and the deviations (integers, unit     *)
(* 1e-12, capped) of the recorded weights and frequencies from the             *)
(* requirement evaluated with numpy on the specification's exact force         *)
(* constants:                                                                  *)
(*   wgrp   per group of degenerate supercell modes at K: sum of weights -     *)
(*          number of primitive-cell modes of that frequency at q              *)
(*   wrange weights outside [0, 1]                                             *)
(*   total  sum of all weights - 3 x atoms per primitive cell                  *)
(*   sumg   per group: sum over all commensurate G of the weights at q + G -   *)
(*          size of the group (sum rule)                                       *)
(*   freq   supercell eigenvalues at K - union of primitive-cell eigenvalues   *)
(*          at q + G over all G                                                *)
(* The machine is run with the implementation's orderings (contracts checked). *)
EXTENDS Unfolding

CONSTANTS Events, Tol
VARIABLE ev
tvars == <<vars, ev>>
E == ev

TInit == Init /\ ev \in Events
TChoose == ChooseWith(E.S, E.na, E.m) /\ UNCHANGED ev
TSetTranslations == SetTranslationsWith(E.trans, E.sites) /\ UNCHANGED ev
TSetIndexMap == SetIndexMap /\ UNCHANGED ev
TCommPoints == CommPointsWith(E.comm) /\ UNCHANGED ev
TFindG == FindG /\ UNCHANGED ev
TProject == Project /\ UNCHANGED ev
TNext == TChoose \/ TSetTranslations \/ TSetIndexMap \/ TCommPoints \/ TFindG \/ TProject

ImplTranslations == pc = "trans" => TransContract(S, E.trans) /\ SitesContract(S, na, E.sites)
ImplCommPoints == pc = "comm" => Len(E.comm) = NN(S) /\ Injective(E.comm) /\ Range(E.comm) = CommSet(S)
ImplIndexMap == Done => ReqIndexMap(E.S, E.trans, E.sites, E.imap)
ImplOrthogonality == Done => ReqOrthogonality(E.S, E.trans, E.comm)
ImplSumRuleExact == Done => ReqSumRule(E.S, E.trans, E.sites, E.imap, E.comm)
ImplWeights == Done => E.num.wgrp <= Tol /\ E.num.wrange <= Tol /\ E.num.total <= Tol
ImplSumRule == Done => E.num.sumg <= Tol
ImplFrequencies == Done => E.num.freq <= Tol
CheckNonVacuous == Done => E.ngroups > 0

ConformsIndexMap == Done => E.imap = imap
=============================================================================
