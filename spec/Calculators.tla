---------------------------- MODULE Calculators ----------------------------
(* C17, structure part: what phonopy's calculator interfaces do to a cell   *)
(* when it is written to the calculator's structure file and read back, for *)
(* the unit cell and for every displaced supercell, and how forces that a   *)
(* calculator reports in FILE order are paired with the atoms of the        *)
(* displacement dataset (phonopy/interface/calculator.py dispatch,          *)
(* interface/vasp.py: sort_positions_by_symbols,                            *)
(* cui/create_force_sets.py: check_agreements_of_displacements).            *)
(*                                                                          *)
(* Abstract state.  A cell is a sequence of atoms [sp, id, mom]: species    *)
(* (1..NSpecies), identity of the position (a distinct positive integer per *)
(* atom: "this fractional position modulo lattice vectors"; a displaced     *)
(* atom gets a fresh id), magnetic moment (0 where unused).  A structure    *)
(* file is, per file line, a species LABEL and a POSITION (two parallel     *)
(* sequences, because writers produce them separately).                     *)
(*                                                                          *)
(* Actions, one per step of the code:                                       *)
(*   Choose    - pick calculator, cell                                      *)
(*   Order     - the writer's atom order: stable grouping by species in     *)
(*               order of first appearance (sort_positions_by_symbols) for  *)
(*               the grouping formats, identity otherwise                   *)
(*   Write     - labels and positions (and moments) go to the file through  *)
(*               that order                                                 *)
(*   Read      - the reader returns the atoms in file order                 *)
(*   Displace  - one atom of the cell is displaced, the displaced supercell *)
(*               goes through Order/Write/Read again                        *)
(*               (write_supercells_with_displacements)                      *)
(*   Collect   - the calculator's output lists forces (and, for VASP,       *)
(*               positions) in FILE order                                   *)
(*   Agree     - check_agreements_of_displacements: accepted only if the    *)
(*               reported positions are the dataset's positions atom by     *)
(*               atom; otherwise the run is refused                         *)
(* Modes of the displaced phase (chosen in Displace):                       *)
(*   dtype 1 - one atom displaced (type-1 dataset); dtype 2 - every atom    *)
(*             displaced (random displacements, type-2 dataset)             *)
(*   fz      - force_sets_zero_mode: the output of the PERFECT supercell    *)
(*             (residual forces) is listed first and subtracted             *)
(*   sym     - WIEN2k case.scf of a symmetry-reduced struct file: only one  *)
(*             atom per orbit of the displaced cell's space group is listed *)
(*             (with its position); forces of the others follow by symmetry *)
(* Conversion (convert_crystal_structure, phonopy-calc-convert):            *)
(*   ChooseConvert - pick (calc_in, calc_out, cell); the input file is in   *)
(*               calc_in's format, Read(calc_in) then Order/Write(calc_out) *)
(*               and Read(calc_out): a composition of the steps above       *)
EXTENDS Naturals, Integers, Sequences, FiniteSets, TLC

CONSTANTS
  Calcs,      \* set of calculator names explored
  MaxLen,     \* cells have 1..MaxLen atoms
  NSpecies,   \* species 1..NSpecies
  WithMoments, \* BOOLEAN: also explore cells carrying magnetic moments
  Tasks,      \* subset of {"pipeline", "convert"} explored by the model
  Unpermutes  \* interfaces for which create_FORCE_SETS undoes the writer's grouping of the atoms
              \* ({} on the present code; see fixes/c17-advisory-unchecked-grouping.md)

AllCalcs == {"abacus", "abinit", "aims", "castep", "cp2k", "crystal", "dftbp", "elk",
             "fleur", "lammps", "pwmat", "qe", "siesta", "turbomole", "vasp", "wien2k"}

(* Traits of the formats (documented behaviour, not the requirement):       *)
(*  groups  - atoms are grouped by species in the file                      *)
(*  frame   - "asis": lattice vectors are written as they are;              *)
(*            "standard": the format prescribes an orientation (LAMMPS      *)
(*            triclinic box, WIEN2k a,b,c,alpha,beta,gamma) - only a rigid  *)
(*            rotation is allowed                                           *)
(*  magmom  - reader and writer both carry (collinear) magnetic moments     *)
(*  points  - the calculator output parsed for FORCE_SETS carries atomic    *)
(*            positions                                                     *)
Trait ==
  [c \in AllCalcs |->
     [groups |-> c \in {"vasp", "elk", "fleur", "abacus"},
      frame  |-> IF c \in {"lammps", "wien2k"} THEN "standard" ELSE "asis",
      magmom |-> c \in {"abacus", "aims", "castep", "crystal"},
      \* write_supercells_with_displacements also writes a MAGMOM file in FILE order
      magfile |-> c \in {"vasp", "qe"},
      \* non-collinear moments (three components per atom)
      ncl    |-> c \in {"abacus", "vasp", "qe"},
      points |-> c = "vasp",
      \* the rows of the parsed output carry the atom's id (LAMMPS dump: id type x y z fx fy fz)
      ids    |-> c = "lammps",
      \* write_crystal_structure needs the optional_structure_info of a file of this
      \* format, which convert_crystal_structure does not have
      needsinfo |-> c \in {"qe", "wien2k", "elk", "siesta", "cp2k", "crystal", "fleur", "abacus"}]]

(* are moments carried through this route?  "api": write_crystal_structure,   *)
(* "sc": write_supercells_with_displacements                                  *)
MomentsCarried(c, route, ncl) ==
  /\ Trait[c].magmom \/ (route = "sc" /\ Trait[c].magfile)
  /\ ncl => Trait[c].ncl

VARIABLES pc, calc, cell, phase, order, file, back, outp, result,
          mode,     \* [dtype, fz, sym] of the displaced phase
          cell0,    \* the original cell (perfect supercell / cell to be converted)
          order0,   \* the writer's order for the perfect supercell
          resid,    \* output of the perfect supercell (fz)
          orbit,    \* sym: orbit number of every atom of the displaced cell
          calc2,    \* conversion: the output interface ("" otherwise)
          zr,       \* fz: which file is given as the perfect-supercell reference (see ZeroRef)
          rowp      \* order of the ROWS of the displaced run's output (row r = atom rowp[r] of the file)

vars == <<pc, calc, cell, phase, order, file, back, outp, result, mode, cell0, order0, resid, orbit, calc2, zr, rowp>>
aux == <<mode, cell0, order0, resid, orbit, calc2, zr, rowp>>

-----------------------------------------------------------------------------
(* helpers *)

Range(f) == {f[i] : i \in DOMAIN f}
IsPerm(p, n) == Len(p) = n /\ Range(p) = 1..n

RECURSIVE SeqsUpTo(_, _)
SeqsUpTo(S, n) == IF n = 0 THEN {<<>>}
                  ELSE LET prev == SeqsUpTo(S, n - 1)
                       IN prev \cup {Append(s, x) : s \in {t \in prev : Len(t) = n - 1}, x \in S}

SpeciesSeqs == {s \in SeqsUpTo(1..NSpecies, MaxLen) : Len(s) >= 1}

(* the cell realised from a species sequence: position ids 1..n; moments     *)
(* (when carried) distinguish like atoms: +-(1 + id % 2)                     *)
MomOf(i) == IF i % 2 = 0 THEN 0 - 1 - (i % 3) ELSE 1 + (i % 3)
MakeCell(s, withmom) ==
  [i \in 1..Len(s) |-> [sp |-> s[i], id |-> i, mom |-> IF withmom THEN MomOf(i) ELSE 0]]

(* --- the algorithm of sort_positions_by_symbols ---------------------------- *)
(* reduced_symbols = list(dict.fromkeys(symbols))                             *)
RECURSIVE ReducedFrom(_, _, _)
ReducedFrom(s, i, acc) ==
  IF i > Len(s) THEN acc
  ELSE IF \E k \in 1..Len(acc) : acc[k] = s[i] THEN ReducedFrom(s, i + 1, acc)
       ELSE ReducedFrom(s, i + 1, Append(acc, s[i]))
Reduced(s) == ReducedFrom(s, 1, <<>>)
IndexIn(x, seq) == CHOOSE k \in 1..Len(seq) : seq[k] = x
(* sort_keys, then Python's stable sort of range(n) by key                     *)
RECURSIVE InsertStable(_, _, _)
InsertStable(sorted, keys, i) ==     \* insert index i behind all entries with key <= keys[i]
  LET pos == Cardinality({k \in 1..Len(sorted) : keys[sorted[k]] <= keys[i]})
  IN SubSeq(sorted, 1, pos) \o <<i>> \o SubSeq(sorted, pos + 1, Len(sorted))
RECURSIVE StableArgsortFrom(_, _, _)
StableArgsortFrom(keys, i, acc) ==
  IF i > Len(keys) THEN acc ELSE StableArgsortFrom(keys, i + 1, InsertStable(acc, keys, i))
GroupPerm(species) ==
  LET red == Reduced(species)
      keys == [i \in 1..Len(species) |-> IndexIn(species[i], red)]
  IN StableArgsortFrom(keys, 1, <<>>)

SpeciesOf(c) == [i \in 1..Len(c) |-> c[i].sp]
Identity(n) == [i \in 1..n |-> i]

-----------------------------------------------------------------------------
NoFile == [label |-> <<>>, pos |-> <<>>, mom |-> <<>>]
NoMode == [dtype |-> 1, fz |-> FALSE, sym |-> FALSE]
NoRef == [kind |-> "own", p |-> <<>>, e |-> 0]

Init ==
  /\ pc = "choose" /\ calc = "vasp" /\ cell = <<>> /\ phase = "perfect"
  /\ order = <<>> /\ file = NoFile /\ back = <<>> /\ outp = <<>>
  /\ result = [status |-> "none"]
  /\ mode = NoMode /\ cell0 = <<>> /\ order0 = <<>> /\ resid = <<>> /\ orbit = <<>> /\ calc2 = "" /\ zr = NoRef /\ rowp = <<>>

Choose ==
  /\ pc = "choose" /\ "pipeline" \in Tasks
  /\ \E c \in Calcs, s \in SpeciesSeqs, wm \in (IF WithMoments THEN BOOLEAN ELSE {FALSE}) :
       /\ (wm => Trait[c].magmom)
       /\ calc' = c
       /\ cell' = MakeCell(s, wm)
  /\ pc' = "order"
  /\ UNCHANGED <<phase, order, file, back, outp, result, aux>>

(* convert_crystal_structure(file_in, calc_in, file_out, calc_out) *)
ChooseConvert ==
  /\ pc = "choose" /\ "convert" \in Tasks
  /\ \E a \in Calcs, b \in Calcs, s \in SpeciesSeqs :
       /\ calc' = a /\ calc2' = b
       /\ cell' = MakeCell(s, FALSE) /\ cell0' = MakeCell(s, FALSE)
  /\ phase' = "convert-in"
  /\ pc' = "order"
  /\ UNCHANGED <<order, file, back, outp, result, mode, order0, resid, orbit, zr, rowp>>

Order ==
  /\ pc = "order"
  /\ order' = IF Trait[calc].groups THEN GroupPerm(SpeciesOf(cell)) ELSE Identity(Len(cell))
  /\ pc' = "write"
  /\ UNCHANGED <<calc, cell, phase, file, back, outp, result, aux>>

(* labels, positions and moments all go through the same order *)
Write ==
  /\ pc = "write"
  /\ file' = [label |-> [k \in 1..Len(cell) |-> cell[order[k]].sp],
              pos   |-> [k \in 1..Len(cell) |-> cell[order[k]].id],
              mom   |-> [k \in 1..Len(cell) |-> cell[order[k]].mom]]
  /\ pc' = "read"
  /\ UNCHANGED <<calc, cell, phase, order, back, outp, result, aux>>

Read ==
  /\ pc = "read"
  /\ back' = [k \in 1..Len(file.pos) |-> [sp |-> file.label[k], id |-> file.pos[k], mom |-> file.mom[k]]]
  /\ pc' = CASE phase = "perfect" -> "displace"
            [] phase = "convert-in" -> "convert"
            [] phase = "convert-out" -> "done"
            [] OTHER -> "collect"
  /\ UNCHANGED <<calc, cell, phase, order, file, outp, result, aux>>

(* convert_crystal_structure hands the cell it read to the writer of calc_out  *)
(* without optional_structure_info: formats that need it cannot be written    *)
Convert ==
  /\ pc = "convert"
  /\ IF Trait[calc2].needsinfo
       THEN /\ result' = [status |-> "error"] /\ pc' = "done"
            /\ UNCHANGED <<calc, cell, phase>>
       ELSE /\ calc' = calc2 /\ cell' = back /\ phase' = "convert-out" /\ pc' = "order"
            /\ result' = [status |-> "converted"]
  /\ UNCHANGED <<order, file, back, outp, aux>>

(* a displaced supercell: a displaced atom moves to a fresh position id.      *)
(* dtype 1: one atom; dtype 2: all atoms.                                     *)
AllOrbits(c, moved) ==      \* partitions into same-species orbits in which every moved atom is alone
  {f \in [1..Len(c) -> 1..Len(c)] :
     /\ \A i \in 1..Len(c) : f[i] <= i /\ f[f[i]] = f[i]              \* orbit = its smallest member
     /\ \A i \in 1..Len(c) : c[i].sp = c[f[i]].sp
     /\ \A i \in moved : f[i] = i /\ \A j \in 1..Len(c) : f[j] = i => j = i}
Displace ==
  /\ pc = "displace"
  /\ \E dt \in {1, 2}, z \in BOOLEAN, sy \in BOOLEAN, d \in 1..Len(cell) :
       /\ (dt = 2 => d = 1)                      \* d is irrelevant for type 2
       /\ (sy => calc = "wien2k" /\ ~z /\ Len(cell) <= 4)
       /\ mode' = [dtype |-> dt, fz |-> z, sym |-> sy]
       /\ cell' = IF dt = 1 THEN [cell EXCEPT ![d].id = Len(cell) + d]
                            ELSE [k \in 1..Len(cell) |-> [cell[k] EXCEPT !.id = Len(cell) + k]]
       /\ orbit' \in (IF sy THEN AllOrbits(cell, IF dt = 1 THEN {d} ELSE 1..Len(cell)) ELSE {Identity(Len(cell))})
  /\ cell0' = cell /\ order0' = order
  /\ phase' = "displaced"
  /\ pc' = "order"
  /\ UNCHANGED <<calc, order, file, back, outp, result, resid, calc2, zr, rowp>>

(* the force on an atom is a function of which atom it is: token = its id;    *)
(* the residual force (perfect supercell) of dataset atom a: Res(a)           *)
Force(id) == id
Res(a) == 100 * a

(* the calculator lists the atoms in FILE order.  Displaced run: force +       *)
(* residual; perfect run (fz): residual.  sym: only the last member of every   *)
(* orbit is listed.                                                            *)
Listed(k) == ~mode.sym \/ \A j \in 1..Len(cell) : orbit[j] = orbit[order[k]] => j <= order[k]
(* ROW ORDER.  A calculator need not list the atoms in the order of its input *)
(* file (LAMMPS dumps rows in the order of its MPI domains).  Row r of the     *)
(* output belongs to atom q[r] of the structure file.  Where the rows carry    *)
(* the atom's id the parser puts row r at slot id_r, so the collected output   *)
(* does not depend on q; where they carry positions only (VASP), slot k gets   *)
(* row k and a reordered output is caught by the agreement check; outputs with *)
(* neither are positional and are listed in file order by definition.  q is    *)
(* enumerated over ALL permutations (identity, reversed, cyclic shifts and the *)
(* other non-involutive ones, ...) for cells of up to 4 atoms.                  *)
Perms(n) == {p \in [1..n -> 1..n] : \A i, j \in 1..n : i # j => p[i] # p[j]}
RowOrders(c, n, fz) ==
  IF (Trait[c].ids \/ (Trait[c].points /\ ~fz)) /\ n <= 4 THEN Perms(n) ELSE {Identity(n)}
CollectWith(q) ==
  /\ pc = "collect"
  /\ rowp' = q
  /\ outp' = [k \in {k \in 1..Len(back) : Listed(k)} |->
                LET a == IF Trait[calc].ids THEN k ELSE q[k]       \* file atom whose row lands in slot k
                IN [point |-> back[a].id,
                    force |-> Force(back[a].id) + (IF mode.fz THEN Res(order[a]) ELSE 0)]]
  /\ pc' = IF mode.fz THEN "zeroref" ELSE "agree"
  /\ UNCHANGED <<calc, cell, phase, order, file, back, result, mode, cell0, order0, resid, orbit, calc2, zr>>
Collect == \E q \in RowOrders(calc, Len(back), mode.fz) : CollectWith(q)

(* --fz: the FIRST file is the output of the perfect supercell.  It is a file   *)
(* of its own, not necessarily the run of the supercell file phonopy wrote:     *)
(*   "own"  - the run of phonopy's supercell file: atoms in the writer's order  *)
(*   "perm" - a run whose atoms are listed in ANOTHER order p (line k = atom    *)
(*            p[k]): p fixes k of the n atoms, k = 0 .. n (k = n is "own" for   *)
(*            an identity order); e.g. grouped by species vs interleaved        *)
(*   "one"  - the writer's order, but atom e sits at a displaced position (a    *)
(*            displaced-supercell run passed as the reference)                  *)
(*   "all"  - every atom at a displaced position                               *)
(* Each line carries the position (where the output has positions) and the      *)
(* residual force of the atom that sits there.                                  *)
Fixed(p) == Cardinality({i \in DOMAIN p : p[i] = i})
RefVariants(n, own) ==
  {[kind |-> "own", p |-> own, e |-> 0]}
  \cup {[kind |-> "perm", p |-> q, e |-> 0] : q \in Perms(n) \ {own}}
  \cup {[kind |-> "one", p |-> own, e |-> a] : a \in 1..n}
  \cup {[kind |-> "all", p |-> own, e |-> 0]}
RefLine(v, c0, k) ==
  LET a == v.p[k]
      n == Len(c0)
  IN [point |-> IF v.kind = "all" \/ (v.kind = "one" /\ a = v.e) THEN 2 * n + a ELSE c0[a].id,
      force |-> Res(a)]
ZeroRefWith(v) ==
  /\ pc = "zeroref"
  /\ zr' = v
  /\ resid' = [k \in 1..Len(cell0) |-> RefLine(v, cell0, k)]
  /\ pc' = "agree"
  /\ UNCHANGED <<calc, cell, phase, order, file, back, outp, result, mode, cell0, order0, orbit, calc2, rowp>>
(* foreign reference files are explored where the output carries positions (the *)
(* clause of C17), for cells small enough to enumerate all permutations          *)
ZeroRef ==
  \E v \in (IF Trait[calc].points /\ Len(cell0) <= 4
              THEN RefVariants(Len(cell0), order0)
              ELSE {[kind |-> "own", p |-> order0, e |-> 0]}) : ZeroRefWith(v)

Agree ==
  /\ pc = "agree"
  /\ LET n == Len(cell)
         agrees == \A k \in 1..n : outp[k].point = cell[k].id
         agrees0 == mode.fz => \A k \in 1..n : resid[k].point = cell0[k].id
     IN result' =
          IF mode.sym
            THEN \* WIEN2k: every listed atom is found by its position, its force is carried
                 \* to the other members of its orbit by the symmetry operations
                 IF \A a \in 1..n : \E k \in DOMAIN outp : orbit[order[k]] = orbit[a]
                   THEN [status |-> "built", forces |-> [a \in 1..n |-> Force(cell[a].id)]]
                   ELSE [status |-> "error"]
          ELSE IF Trait[calc].points /\ ~(agrees /\ agrees0)
            THEN [status |-> "refused"]
            ELSE [status |-> "built",
                  forces |-> [k \in 1..n |->
                     LET j == IF calc \in Unpermutes THEN CHOOSE i \in 1..n : order[i] = k ELSE k   \* file line used for atom k
                     IN outp[j].force - (IF mode.fz THEN resid[j].force ELSE 0)]]
  /\ pc' = "done"
  /\ UNCHANGED <<calc, cell, phase, order, file, back, outp, aux>>

Next == Choose \/ ChooseConvert \/ Order \/ Write \/ Read \/ Convert \/ Displace \/ Collect \/ ZeroRef \/ Agree

Spec == Init /\ [][Next]_vars

-----------------------------------------------------------------------------
(* The requirement, from the definition (not from the algorithm above).     *)

AtomSet(c) == {<<c[i].sp, c[i].id>> : i \in 1..Len(c)}
AtomSetM(c) == {<<c[i].sp, c[i].id, c[i].mom>> : i \in 1..Len(c)}

(* same crystal: the same species at the same positions, nothing lost or    *)
(* duplicated (position ids are pairwise distinct in the input)             *)
ReqSameCrystal(c, b) == Len(b) = Len(c) /\ AtomSet(b) = AtomSet(c)
ReqSameMoments(c, b) == Len(b) = Len(c) /\ AtomSetM(b) = AtomSetM(c)

(* first appearance of a species in c *)
FirstOf(c, s) == CHOOSE i \in 1..Len(c) : c[i].sp = s /\ \A j \in 1..(i - 1) : c[j].sp # s
(* b is the stable grouping of c: there is a permutation p with b = c o p    *)
(* that lists species in order of first appearance and keeps the original  *)
(* order within a species.  Since ids are distinct p is determined by b.    *)
Mat(f) == f @@ <<>>          \* TLC applies a state-level function lazily: evaluate it once
PermOf(c, b) == Mat([k \in 1..Len(b) |-> CHOOSE i \in 1..Len(c) : c[i].id = b[k].id])
IsStableGrouping(c, b) ==
  /\ ReqSameCrystal(c, b)
  /\ LET p == PermOf(c, b)
         first == Mat([k \in 1..Len(b) |-> FirstOf(c, c[p[k]].sp)])
     IN \A k, l \in 1..Len(b) : k < l =>
          \/ first[k] < first[l]
          \/ (c[p[k]].sp = c[p[l]].sp /\ p[k] < p[l])
IsIdentityOrder(c, b) == Len(b) = Len(c) /\ \A k \in 1..Len(c) : b[k].id = c[k].id /\ b[k].sp = c[k].sp

(* the only re-ordering a format may apply is the documented stable grouping *)
ReqOrder(c, b) == IsIdentityOrder(c, b) \/ IsStableGrouping(c, b)

(* forces: when the output carries positions, a built FORCE_SETS pairs the  *)
(* force of atom k of the dataset with atom k; a cell that is already       *)
(* grouped (file order = dataset order) must not be refused                 *)
ReqForcesPaired(c, r) ==
  r.status = "built" => /\ Len(r.forces) = Len(c)
                        /\ \A k \in 1..Len(c) : r.forces[k] = Force(c[k].id)
ReqNotRefusedWhenSameOrder(c, b, r) == IsIdentityOrder(c, b) => r.status = "built"
(* --fz, output with positions: FORCE_SETS is built only if the reference file   *)
(* lists, line by line, EVERY atom of the perfect supercell at its own position  *)
(* (then the residual force of atom k is subtracted from atom k); a reference    *)
(* that agrees for some atoms only is refused like one that agrees for none      *)
RefAgreesAll(c0, ref) == Len(ref) = Len(c0) /\ \A k \in 1..Len(c0) : ref[k].point = c0[k].id
ReqZeroRef(c0, ref, r) == r.status = "built" => RefAgreesAll(c0, ref)
(* ... and the run of phonopy's own supercell file is never refused for that reason *)
ReqZeroRefAccepted(c, b, c0, ref, r) == (IsIdentityOrder(c, b) /\ RefAgreesAll(c0, ref)) => r.status = "built"
(* whatever the output carries: if the file lists the atoms in the dataset's  *)
(* order, a built FORCE_SETS has the force of atom k at atom k (units, sign   *)
(* and frame conventions of the output format are undone by the parser)      *)
ReqForcesPairedSameOrder(c, b, r) == (IsIdentityOrder(c, b) /\ r.status = "built") => ReqForcesPaired(c, r)

-----------------------------------------------------------------------------
(* Invariants of the step machine *)

TypeOK == pc \in {"choose", "order", "write", "read", "displace", "collect", "zeroref", "agree", "done", "convert"}

Pipeline == phase \in {"perfect", "displaced"}
AfterRead == Pipeline /\ pc \in {"displace", "collect", "agree", "done"}
InvOrderIsPermutation == pc \in {"write", "read"} => IsPerm(order, Len(cell))
InvSameCrystal == AfterRead => ReqSameCrystal(cell, back)
InvSameMoments == AfterRead => ReqSameMoments(cell, back)
InvOrder == AfterRead => ReqOrder(cell, back)
InvGroupingIsTrait ==
  AfterRead => IF Trait[calc].groups THEN IsStableGrouping(cell, back) ELSE IsIdentityOrder(cell, back)
(* grouping twice changes nothing: reading a written file and writing it again gives the same file *)
InvIdempotent == (AfterRead /\ Trait[calc].groups) => GroupPerm(SpeciesOf(back)) = Identity(Len(back))
PDone == Pipeline /\ pc = "done"
InvForcesPaired == (PDone /\ Trait[calc].points) => ReqForcesPaired(cell, result)
RowsInOrder == rowp = Identity(Len(rowp)) \/ Trait[calc].ids
InvNotRefused == (PDone /\ zr.kind = "own" /\ RowsInOrder) => ReqNotRefusedWhenSameOrder(cell, back, result)
(* rows that carry ids: whatever their order, a file whose atoms are in the dataset's order is built and paired *)
InvRowOrderIrrelevant ==
  (PDone /\ Trait[calc].ids /\ IsIdentityOrder(cell, back)) => (result.status = "built" /\ ReqForcesPaired(cell, result))
InvZeroRef == (PDone /\ mode.fz /\ Trait[calc].points) =>
                 /\ ReqZeroRef(cell0, resid, result)
                 /\ ReqZeroRefAccepted(cell, back, cell0, resid, result)
(* every class of partial mismatch is reached: permutations fixing k atoms for all possible k *)
InvFixedRange == (pc = "agree" /\ zr.kind = "perm") => Fixed(zr.p) \in 0..Len(cell0)
InvForcesPairedSameOrder == PDone => ReqForcesPairedSameOrder(cell, back, result)
(* WIEN2k's symmetric route pairs by position whatever the order *)
InvSymPaired == (PDone /\ mode.sym) => (result.status = "built" /\ ReqForcesPaired(cell, result))
(* conversion: whenever the output format can be written at all, the crystal survives the *)
(* pair, and the only re-ordering is the stable grouping                                   *)
CDone == ~Pipeline /\ pc = "done"
InvConvertCrystal == (CDone /\ result.status = "converted") => (ReqSameCrystal(cell0, back) /\ ReqOrder(cell0, back))
InvConvertible == CDone => (result.status = "converted" <=> ~Trait[calc2].needsinfo)
(* what the property does NOT promise: a grouping format whose output carries no positions  *)
(* pairs the forces of an interleaved supercell with the wrong atoms, silently             *)
Mispaired == PDone /\ result.status = "built" /\ ~ReqForcesPaired(cell, result)
InvMispairedOnlyUnchecked ==
  Mispaired => (Trait[calc].groups /\ ~Trait[calc].points /\ ~IsIdentityOrder(cell, back) /\ calc \notin Unpermutes)
(* the refusal is exactly the interleaved case *)
InvRefusedIffReordered ==
  (PDone /\ Trait[calc].points /\ zr.kind = "own") =>
     \* ... of the rows as the output lists them: file order composed with the row order
     (result.status = "refused" <=> ~(\A k \in 1..Len(cell) : back[rowp[k]].id = cell[k].id))
=============================================================================
