---------------------------- MODULE Calculators ----------------------------
(* C17, structure part: what phonopy's calculator interfaces do to a cell   *)
(* when it is written to the calculator's structure file and read back, for *)
(* the unit cell and for every displaced supercell, and how forces that a   *)
(* calculator reports in FILE order are paired with the atoms of the        *)
(* displacement dataset (phonopy/interface/calculator.py dispatch,          *)
(* interface/vasp.py: sort_positions_by_symbols,                            *)
(* cui/create_force_sets.py: check_agreements_of_displacements).            *)
(*                                                                          *)
(* Abstract state.  A cell is a sequence of atoms [sp, id, mom]: species    *)
(* (1..NSpecies), identity of the position (a distinct positive integer per *)
(* atom: "this fractional position modulo lattice vectors"; a displaced     *)
(* atom gets a fresh id), magnetic moment (0 where unused).  A structure    *)
(* file is, per file line, a species LABEL and a POSITION (two parallel     *)
(* sequences, because writers produce them separately).                     *)
(*                                                                          *)
(* Actions, one per step of the code:                                       *)
(*   Choose    - pick calculator, cell                                      *)
(*   Order     - the writer's atom order: stable grouping by species in     *)
(*               order of first appearance (sort_positions_by_symbols) for  *)
(*               the grouping formats, identity otherwise                   *)
(*   Write     - labels and positions (and moments) go to the file through  *)
(*               that order                                                 *)
(*   Read      - the reader returns the atoms in file order                 *)
(*   Displace  - one atom of the cell is displaced, the displaced supercell *)
(*               goes through Order/Write/Read again                        *)
(*               (write_supercells_with_displacements)                      *)
(*   Collect   - the calculator's output lists forces (and, for VASP,       *)
(*               positions) in FILE order                                   *)
(*   Agree     - check_agreements_of_displacements: accepted only if the    *)
(*               reported positions are the dataset's positions atom by     *)
(*               atom; otherwise the run is refused                         *)
EXTENDS Naturals, Integers, Sequences, FiniteSets, TLC

CONSTANTS
  Calcs,      \* set of calculator names explored
  MaxLen,     \* cells have 1..MaxLen atoms
  NSpecies,   \* species 1..NSpecies
  WithMoments \* BOOLEAN: also explore cells carrying magnetic moments

AllCalcs == {"abacus", "abinit", "aims", "castep", "cp2k", "crystal", "dftbp", "elk",
             "fleur", "lammps", "pwmat", "qe", "siesta", "turbomole", "vasp", "wien2k"}

(* Traits of the formats (documented behaviour, not the requirement):       *)
(*  groups  - atoms are grouped by species in the file                      *)
(*  frame   - "asis": lattice vectors are written as they are;              *)
(*            "standard": the format prescribes an orientation (LAMMPS      *)
(*            triclinic box, WIEN2k a,b,c,alpha,beta,gamma) - only a rigid  *)
(*            rotation is allowed                                           *)
(*  magmom  - reader and writer both carry (collinear) magnetic moments     *)
(*  points  - the calculator output parsed for FORCE_SETS carries atomic    *)
(*            positions                                                     *)
Trait ==
  [c \in AllCalcs |->
     [groups |-> c \in {"vasp", "elk", "fleur", "abacus"},
      frame  |-> IF c \in {"lammps", "wien2k"} THEN "standard" ELSE "asis",
      magmom |-> c \in {"abacus", "aims", "castep", "crystal"},
      points |-> c = "vasp"]]

VARIABLES pc, calc, cell, phase, order, file, back, outp, result

vars == <<pc, calc, cell, phase, order, file, back, outp, result>>

-----------------------------------------------------------------------------
(* helpers *)

Range(f) == {f[i] : i \in DOMAIN f}
IsPerm(p, n) == Len(p) = n /\ Range(p) = 1..n

RECURSIVE SeqsUpTo(_, _)
SeqsUpTo(S, n) == IF n = 0 THEN {<<>>}
                  ELSE LET prev == SeqsUpTo(S, n - 1)
                       IN prev \cup {Append(s, x) : s \in {t \in prev : Len(t) = n - 1}, x \in S}

SpeciesSeqs == {s \in SeqsUpTo(1..NSpecies, MaxLen) : Len(s) >= 1}

(* the cell realised from a species sequence: position ids 1..n; moments     *)
(* (when carried) distinguish like atoms: +-(1 + id % 2)                     *)
MomOf(i) == IF i % 2 = 0 THEN 0 - 1 - (i % 3) ELSE 1 + (i % 3)
MakeCell(s, withmom) ==
  [i \in 1..Len(s) |-> [sp |-> s[i], id |-> i, mom |-> IF withmom THEN MomOf(i) ELSE 0]]

(* --- the algorithm of sort_positions_by_symbols ---------------------------- *)
(* reduced_symbols = list(dict.fromkeys(symbols))                             *)
RECURSIVE ReducedFrom(_, _, _)
ReducedFrom(s, i, acc) ==
  IF i > Len(s) THEN acc
  ELSE IF \E k \in 1..Len(acc) : acc[k] = s[i] THEN ReducedFrom(s, i + 1, acc)
       ELSE ReducedFrom(s, i + 1, Append(acc, s[i]))
Reduced(s) == ReducedFrom(s, 1, <<>>)
IndexIn(x, seq) == CHOOSE k \in 1..Len(seq) : seq[k] = x
(* sort_keys, then Python's stable sort of range(n) by key                     *)
RECURSIVE InsertStable(_, _, _)
InsertStable(sorted, keys, i) ==     \* insert index i behind all entries with key <= keys[i]
  LET pos == Cardinality({k \in 1..Len(sorted) : keys[sorted[k]] <= keys[i]})
  IN SubSeq(sorted, 1, pos) \o <<i>> \o SubSeq(sorted, pos + 1, Len(sorted))
RECURSIVE StableArgsortFrom(_, _, _)
StableArgsortFrom(keys, i, acc) ==
  IF i > Len(keys) THEN acc ELSE StableArgsortFrom(keys, i + 1, InsertStable(acc, keys, i))
GroupPerm(species) ==
  LET red == Reduced(species)
      keys == [i \in 1..Len(species) |-> IndexIn(species[i], red)]
  IN StableArgsortFrom(keys, 1, <<>>)

SpeciesOf(c) == [i \in 1..Len(c) |-> c[i].sp]
Identity(n) == [i \in 1..n |-> i]

-----------------------------------------------------------------------------
NoFile == [label |-> <<>>, pos |-> <<>>, mom |-> <<>>]

Init ==
  /\ pc = "choose" /\ calc = "vasp" /\ cell = <<>> /\ phase = "perfect"
  /\ order = <<>> /\ file = NoFile /\ back = <<>> /\ outp = <<>>
  /\ result = [status |-> "none"]

Choose ==
  /\ pc = "choose"
  /\ \E c \in Calcs, s \in SpeciesSeqs, wm \in (IF WithMoments THEN BOOLEAN ELSE {FALSE}) :
       /\ (wm => Trait[c].magmom)
       /\ calc' = c
       /\ cell' = MakeCell(s, wm)
  /\ pc' = "order"
  /\ UNCHANGED <<phase, order, file, back, outp, result>>

Order ==
  /\ pc = "order"
  /\ order' = IF Trait[calc].groups THEN GroupPerm(SpeciesOf(cell)) ELSE Identity(Len(cell))
  /\ pc' = "write"
  /\ UNCHANGED <<calc, cell, phase, file, back, outp, result>>

(* labels, positions and moments all go through the same order *)
Write ==
  /\ pc = "write"
  /\ file' = [label |-> [k \in 1..Len(cell) |-> cell[order[k]].sp],
              pos   |-> [k \in 1..Len(cell) |-> cell[order[k]].id],
              mom   |-> [k \in 1..Len(cell) |-> cell[order[k]].mom]]
  /\ pc' = "read"
  /\ UNCHANGED <<calc, cell, phase, order, back, outp, result>>

Read ==
  /\ pc = "read"
  /\ back' = [k \in 1..Len(file.pos) |-> [sp |-> file.label[k], id |-> file.pos[k], mom |-> file.mom[k]]]
  /\ pc' = IF phase = "perfect" THEN "displace" ELSE "collect"
  /\ UNCHANGED <<calc, cell, phase, order, file, outp, result>>

(* a displaced supercell: atom d moves to a fresh position id *)
Displace ==
  /\ pc = "displace"
  /\ \E d \in 1..Len(cell) :
       cell' = [cell EXCEPT ![d].id = Len(cell) + d]
  /\ phase' = "displaced"
  /\ pc' = "order"
  /\ UNCHANGED <<calc, order, file, back, outp, result>>

(* the force on an atom is a function of which atom it is: token = its id *)
Force(id) == id

Collect ==
  /\ pc = "collect"
  /\ outp' = [k \in 1..Len(back) |-> [point |-> back[k].id, force |-> Force(back[k].id)]]
  /\ pc' = "agree"
  /\ UNCHANGED <<calc, cell, phase, order, file, back, result>>

Agree ==
  /\ pc = "agree"
  /\ LET n == Len(cell)
         agrees == \A k \in 1..n : outp[k].point = cell[k].id
     IN result' = IF Trait[calc].points /\ ~agrees
                    THEN [status |-> "refused"]
                    ELSE [status |-> "built", forces |-> [k \in 1..n |-> outp[k].force]]
  /\ pc' = "done"
  /\ UNCHANGED <<calc, cell, phase, order, file, back, outp>>

Next == Choose \/ Order \/ Write \/ Read \/ Displace \/ Collect \/ Agree

Spec == Init /\ [][Next]_vars

-----------------------------------------------------------------------------
(* The requirement, from the definition (not from the algorithm above).     *)

AtomSet(c) == {<<c[i].sp, c[i].id>> : i \in 1..Len(c)}
AtomSetM(c) == {<<c[i].sp, c[i].id, c[i].mom>> : i \in 1..Len(c)}

(* same crystal: the same species at the same positions, nothing lost or    *)
(* duplicated (position ids are pairwise distinct in the input)             *)
ReqSameCrystal(c, b) == Len(b) = Len(c) /\ AtomSet(b) = AtomSet(c)
ReqSameMoments(c, b) == Len(b) = Len(c) /\ AtomSetM(b) = AtomSetM(c)

(* first appearance of a species in c *)
FirstOf(c, s) == CHOOSE i \in 1..Len(c) : c[i].sp = s /\ \A j \in 1..(i - 1) : c[j].sp # s
(* b is the stable grouping of c: there is a permutation p with b = c o p    *)
(* that lists species in order of first appearance and keeps the original  *)
(* order within a species.  Since ids are distinct p is determined by b.    *)
Mat(f) == f @@ <<>>          \* TLC applies a state-level function lazily: evaluate it once
PermOf(c, b) == Mat([k \in 1..Len(b) |-> CHOOSE i \in 1..Len(c) : c[i].id = b[k].id])
IsStableGrouping(c, b) ==
  /\ ReqSameCrystal(c, b)
  /\ LET p == PermOf(c, b)
         first == Mat([k \in 1..Len(b) |-> FirstOf(c, c[p[k]].sp)])
     IN \A k, l \in 1..Len(b) : k < l =>
          \/ first[k] < first[l]
          \/ (c[p[k]].sp = c[p[l]].sp /\ p[k] < p[l])
IsIdentityOrder(c, b) == Len(b) = Len(c) /\ \A k \in 1..Len(c) : b[k].id = c[k].id /\ b[k].sp = c[k].sp

(* the only re-ordering a format may apply is the documented stable grouping *)
ReqOrder(c, b) == IsIdentityOrder(c, b) \/ IsStableGrouping(c, b)

(* forces: when the output carries positions, a built FORCE_SETS pairs the  *)
(* force of atom k of the dataset with atom k; a cell that is already       *)
(* grouped (file order = dataset order) must not be refused                 *)
ReqForcesPaired(c, r) ==
  r.status = "built" => /\ Len(r.forces) = Len(c)
                        /\ \A k \in 1..Len(c) : r.forces[k] = Force(c[k].id)
ReqNotRefusedWhenSameOrder(c, b, r) == IsIdentityOrder(c, b) => r.status = "built"
(* whatever the output carries: if the file lists the atoms in the dataset's  *)
(* order, a built FORCE_SETS has the force of atom k at atom k (units, sign   *)
(* and frame conventions of the output format are undone by the parser)      *)
ReqForcesPairedSameOrder(c, b, r) == (IsIdentityOrder(c, b) /\ r.status = "built") => ReqForcesPaired(c, r)

-----------------------------------------------------------------------------
(* Invariants of the step machine *)

TypeOK == pc \in {"choose", "order", "write", "read", "displace", "collect", "agree", "done"}

AfterRead == pc \in {"displace", "collect", "agree", "done"}
InvOrderIsPermutation == pc \in {"write", "read"} => IsPerm(order, Len(cell))
InvSameCrystal == AfterRead => ReqSameCrystal(cell, back)
InvSameMoments == AfterRead => ReqSameMoments(cell, back)
InvOrder == AfterRead => ReqOrder(cell, back)
InvGroupingIsTrait ==
  AfterRead => IF Trait[calc].groups THEN IsStableGrouping(cell, back) ELSE IsIdentityOrder(cell, back)
(* grouping twice changes nothing: reading a written file and writing it again gives the same file *)
InvIdempotent == (AfterRead /\ Trait[calc].groups) => GroupPerm(SpeciesOf(back)) = Identity(Len(back))
InvForcesPaired == (pc = "done" /\ Trait[calc].points) => ReqForcesPaired(cell, result)
InvNotRefused == pc = "done" => ReqNotRefusedWhenSameOrder(cell, back, result)
InvForcesPairedSameOrder == pc = "done" => ReqForcesPairedSameOrder(cell, back, result)
(* what the property does NOT promise: a grouping format whose output carries no positions  *)
(* pairs the forces of an interleaved supercell with the wrong atoms, silently             *)
Mispaired == pc = "done" /\ result.status = "built" /\ ~ReqForcesPaired(cell, result)
InvMispairedOnlyUnchecked == Mispaired => (Trait[calc].groups /\ ~Trait[calc].points /\ ~IsIdentityOrder(cell, back))
(* the refusal is exactly the interleaved case *)
InvRefusedIffReordered ==
  (pc = "done" /\ Trait[calc].points) => (result.status = "refused" <=> ~IsIdentityOrder(cell, back))
=============================================================================
