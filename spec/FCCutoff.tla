------------------------------ MODULE FCCutoff ------------------------------
(* X10 (a): force constants beyond a cut-off radius are set to zero                       *)
(* (phonopy.harmonic.force_constants.cutoff_force_constants,                              *)
(*  Phonopy.set_force_constants_zero_with_radius).                                         *)
(*                                                                                         *)
(* Crystal: integer crystal of DESIGN 2.4.  Unit-cell Gram matrix G (integers), atoms of   *)
(* the supercell at u/D in unit-cell coordinates (u integer), supercell lattice = S Z^3    *)
(* (columns of S are the supercell basis vectors in unit-cell coordinates, phonopy's       *)
(* convention).  Squared lengths are integers in units of (a/D)^2.                         *)
(*                                                                                         *)
(* DEFINITION.  The distance of the pair (i, j) in the periodic supercell is the length of *)
(* the shortest image:  d2(i,j) = min over n in Z^3 of  |u_j - u_i + D S n|^2_G.            *)
(* REQUIREMENT.  After the call with radius r the block (i,j) is untouched if              *)
(* d2(i,j) <= r^2 and is the zero block otherwise.  The code compares floats with `>`;    *)
(* the radii of the events lie strictly between two values of d2 (ReqOffBoundary) so that  *)
(* the tie at the boundary is outside the claim.  Compact layout: row p is the row of      *)
(* supercell atom p2s[p].                                                                   *)
(*                                                                                         *)
(* ReqAtomsDistinct: the logged atoms are |det S| x (atoms of the unit cell) pairwise       *)
(* distinct points modulo the supercell lattice (the projection of the real cell is sane). *)
(*                                                                                         *)
(* The images are enumerated on a second basis rbas = S U of the same lattice (ReqRebase:   *)
(* U unimodular, chosen by the harness so that the basis is short; any choice is sound).    *)
(* The separation is first wrapped into the cell centred at the origin (Wrapped); the      *)
(* minimum over Z^3 is taken over a box -B..B of coefficients on that basis around it;      *)
(* ReqBoxSound proves for every pair that no image outside the box can be as short         *)
(* (Cauchy-Schwarz with the reciprocal basis of the supercell:                            *)
(*  w_i^2 det G <= d2 * adj(R^T G R)_ii  for w = adj(R) v, R = rbas).                                 *)
EXTENDS Integers, Sequences, FiniteSets, TLC, IntLinAlg

CONSTANTS Events
VARIABLES ev, pc, dtab, ktab, failed
cvars == <<ev, pc, dtab, ktab, failed>>

Box(B) == {<<a, b, c>> : a \in -B..B, b \in -B..B, c \in -B..B}

(* image of the separation du under the supercell lattice vector with coefficients n *)
Img(S, D, du, n) ==
  << du[1] + D * (S[1][1]*n[1] + S[1][2]*n[2] + S[1][3]*n[3]),
     du[2] + D * (S[2][1]*n[1] + S[2][2]*n[2] + S[2][3]*n[3]),
     du[3] + D * (S[3][1]*n[1] + S[3][2]*n[2] + S[3][3]*n[3]) >>

Q3(G, v) == G[1][1]*v[1]*v[1] + G[2][2]*v[2]*v[2] + G[3][3]*v[3]*v[3]
            + 2 * (G[1][2]*v[1]*v[2] + G[1][3]*v[1]*v[3] + G[2][3]*v[2]*v[3])

Sep(e, i, j) == <<e.upos[j][1] - e.upos[i][1], e.upos[j][2] - e.upos[i][2], e.upos[j][3] - e.upos[i][3]>>

(* the separation moved into the cell centred at the origin: du - D R n0 with                *)
(* n0 = round(R^-1 du / D), so that its coefficients on the basis lie in [-1/2, 1/2]         *)
Wrapped(e, du) ==
  LET w == MatVec(Adj(e.rbas), du)
      dt == e.dd * Det(e.rbas)
      sg == Sign(dt)
      m == Abs(dt)
      n0 == <<FloorDiv(2 * sg * w[1] + m, 2 * m), FloorDiv(2 * sg * w[2] + m, 2 * m), FloorDiv(2 * sg * w[3] + m, 2 * m)>>
  IN Img(e.rbas, e.dd, du, <<-n0[1], -n0[2], -n0[3]>>)

(* shortest image over the box around the wrapped separation *)
MinD2v(e, bx, i, j) ==
  LET d0 == Wrapped(e, Sep(e, i, j))
  IN  MinOf({Q3(e.gram, Img(e.rbas, e.dd, d0, n)) : n \in bx})

NAt(e) == Len(e.upos)
Rows(e) == 1..Len(e.rows)              \* e.rows[r] = supercell atom of row r (1..n for the full layout)
Pairs(e) == Rows(e) \X (1..NAt(e))

SGram(e) == MatMul(Transpose(e.rbas), MatMul(e.gram, e.rbas))

PairBoxSound(e, r, j) ==
  LET du == Wrapped(e, Sep(e, e.rows[r], j))
      w == MatVec(Adj(e.rbas), du)
      m == e.dd * Abs(Det(e.rbas)) * (e.box + 1)
      A == Adj(SGram(e))
      dg == Det(e.gram)
  IN \A i \in I3 : m > Abs(w[i]) /\ (m - Abs(w[i])) * (m - Abs(w[i])) * dg > dtab[<<r, j>>] * A[i][i]

Within(e, p, num, den) == dtab[p] * den <= num
Expect(e, num, den) == [r \in Rows(e) |-> [j \in 1..NAt(e) |-> IF Within(e, <<r, j>>, num, den) THEN 0 ELSE 1]]
AsSeqs(m) == [r \in DOMAIN m |-> [j \in DOMAIN m[r] |-> m[r][j]]]

(* min(r, r3): the smaller of the two radii as a fraction *)
LoNum(e) == IF e.rnum * e.qden <= e.qnum * e.rden THEN e.rnum ELSE e.qnum
LoDen(e) == IF e.rnum * e.qden <= e.qnum * e.rden THEN e.rden ELSE e.qden
HiNum(e) == IF e.rnum * e.qden <= e.qnum * e.rden THEN e.qnum ELSE e.rnum
HiDen(e) == IF e.rnum * e.qden <= e.qnum * e.rden THEN e.qden ELSE e.rden

Same(e, logged, want) == \A r \in Rows(e) : \A j \in 1..NAt(e) : logged[r][j] = want[r][j]

Judgements(e) ==
  LET n == NAt(e)
      x1 == Materialize(Expect(e, e.rnum, e.rden))
      xlo == Materialize(Expect(e, LoNum(e), LoDen(e)))
      x3 == Materialize(Expect(e, e.qnum, e.qden))
      full == e.lay = "full"
  IN
  [ \* ---- model side: decided on the exact table
    ReqBoxSound |-> \A p \in Pairs(e) : PairBoxSound(e, p[1], p[2]),
    ReqRebase |-> Unimodular(e.umat) /\ \A i, j \in I3 : e.rbas[i][j] = MatMul(e.smat, e.umat)[i][j],
    ReqAtomsDistinct |-> /\ n = e.nunit * Abs(Det(e.smat))
                         /\ Cardinality({ClassKey(e.smat, e.dd, e.upos[i]) : i \in 1..n}) = n,
    ReqSelfZero |-> \A r \in Rows(e) : \A j \in 1..n : (dtab[<<r, j>>] = 0) <=> (j = e.rows[r]),
    ReqSymmetric |-> full => \A i, j \in 1..n : dtab[<<i, j>>] = dtab[<<j, i>>],
    ReqPeriodic |-> Cardinality({<<ktab[p], dtab[p]>> : p \in Pairs(e)}) = Cardinality({ktab[p] : p \in Pairs(e)}),
    ReqOffBoundary |-> \A p \in Pairs(e) : dtab[p] * e.rden # e.rnum /\ dtab[p] * e.qden # e.qnum,
    ReqMonotone |-> \A p \in Pairs(e) : Within(e, p, LoNum(e), LoDen(e)) => Within(e, p, HiNum(e), HiDen(e)),
    ReqSymmetricKept |-> full => \A i, j \in 1..n : x1[i][j] = x1[j][i],
    ReqAllKeptBeyondDiameter |-> (\A p \in Pairs(e) : dtab[p] * e.rden <= e.rnum) => \A r \in Rows(e) : \A j \in 1..n : x1[r][j] = 0,
    \* ---- implementation side: logged statuses (0 untouched, 1 zero block, 2 anything else)
    ImplKeptIffWithin |-> Same(e, e.st, x1),
    ImplIdempotent |-> Same(e, e.st2, x1),
    ImplCompose |-> Same(e, e.st3, xlo),
    ImplDirect |-> Same(e, e.sd3, x3),
    ImplCompactIsRowsOfFull |-> (~full) => \A r \in Rows(e) : \A j \in 1..n : e.st[r][j] = e.sf[e.rows[r]][j]
  ]

JNames == {"ReqBoxSound", "ReqRebase", "ReqAtomsDistinct", "ReqSelfZero", "ReqSymmetric", "ReqPeriodic", "ReqOffBoundary", "ReqMonotone", "ReqSymmetricKept",
           "ReqAllKeptBeyondDiameter", "ImplKeptIffWithin", "ImplIdempotent", "ImplCompose", "ImplDirect",
           "ImplCompactIsRowsOfFull"}

Init == ev \in Events /\ pc = "load" /\ dtab = <<>> /\ ktab = <<>> /\ failed = {}

Load ==
  /\ pc = "load"
  /\ \E bx \in {Box(ev.box)} :
       dtab' = Materialize([p \in Pairs(ev) |-> MinD2v(ev, bx, ev.rows[p[1]], p[2])])
  /\ ktab' = Materialize([p \in Pairs(ev) |-> ClassKey(ev.smat, ev.dd, Sep(ev, ev.rows[p[1]], p[2]))])
  /\ pc' = "judge"
  /\ UNCHANGED <<ev, failed>>

Judge ==
  /\ pc = "judge"
  /\ \E jd \in {Judgements(ev)} : failed' = {nm \in JNames : ~jd[nm]}
  /\ pc' = "done"
  /\ UNCHANGED <<ev, dtab, ktab>>

Next == Load \/ Judge
Spec == Init /\ [][Next]_cvars

AtEnd == pc = "done"
Holds(nm) == AtEnd => nm \notin failed

ReqBoxSound == Holds("ReqBoxSound")
ReqRebase == Holds("ReqRebase")
ReqAtomsDistinct == Holds("ReqAtomsDistinct")
ReqSelfZero == Holds("ReqSelfZero")
ReqSymmetric == Holds("ReqSymmetric")
ReqPeriodic == Holds("ReqPeriodic")
ReqOffBoundary == Holds("ReqOffBoundary")
ReqMonotone == Holds("ReqMonotone")
ReqSymmetricKept == Holds("ReqSymmetricKept")
ReqAllKeptBeyondDiameter == Holds("ReqAllKeptBeyondDiameter")
ImplKeptIffWithin == Holds("ImplKeptIffWithin")
ImplIdempotent == Holds("ImplIdempotent")
ImplCompose == Holds("ImplCompose")
ImplDirect == Holds("ImplDirect")
ImplCompactIsRowsOfFull == Holds("ImplCompactIsRowsOfFull")

(* report per event: failed judgements, the expected status matrix (replayed on the code), *)
(* number of kept pairs and the largest squared distance                                    *)
Report ==
  AtEnd => PrintT(<<"X10C", ev.id, failed, AsSeqs(Expect(ev, ev.rnum, ev.rden)),
                    Cardinality({p \in Pairs(ev) : Within(ev, p, ev.rnum, ev.rden)}),
                    MaxOf({dtab[p] : p \in Pairs(ev)})>>)
=============================================================================
