-------------------------- MODULE SupercellTrace --------------------------
(* Conformance of the implementation's supercells with Supercell.tla.       *)
(* Every event is one call get_supercell(cell, S, is_old_style) on the real *)
(* code with its projected result (harness/props/c04.py).  The step machine *)
(* is run on the event's input (logged fields bind cell, S, style); at the  *)
(* end                                                                       *)
(*   - the requirement of C04 is evaluated on the LOGGED result             *)
(*     (Impl* invariants: a failure is a property violation), and           *)
(*   - the logged result is compared with the machine's result              *)
(*     (Conforms*: a failure with the requirement intact is specification   *)
(*     drift - atom order is not part of the property).                     *)
EXTENDS Supercell

CONSTANT Events   \* set of event records

VARIABLE ev
tvars == <<vars, ev>>

(* the event itself is carried in the state: TLC would re-evaluate a large   *)
(* constant table at every access otherwise                                *)
E == ev

TInit == Init /\ ev \in Events

TChoose ==
  /\ pc = "choose"
  /\ cell' = E.cell /\ S' = E.S /\ style' = E.style
  /\ pc' = IF Det(E.S) = 0 THEN "reject" ELSE IF E.style = "classic" THEN "frame" ELSE "snf"
  /\ UNCHANGED <<multi, P, sur, kept, extracted, result>>

TSNF == SNFWith(E.snf)

TNext == (TChoose \/ SurroundingFrame \/ TSNF \/ SimpleSupercell \/ Trim \/ MapIndices \/ Reject)
         /\ UNCHANGED ev

TSpec == TInit /\ [][TNext]_tvars

AtEnd == pc = "done"

ImplRequirementCount      == AtEnd /\ E.result.status = "built" => ReqCount(E.cell, E.S, E.result)
ImplRequirementNoDup      == AtEnd /\ E.result.status = "built" => ReqNoDuplicates(E.cell, E.S, E.result)
ImplRequirementImageOf    == AtEnd /\ E.result.status = "built" => ReqImageOf(E.cell, E.S, E.result)
ImplRequirementMaps       == AtEnd /\ E.result.status = "built" => ReqMaps(E.cell, E.S, E.result)
ImplRequirementLattice    == AtEnd /\ E.result.status = "built" => E.result.latticeOK
ImplRequirementAttributes == AtEnd /\ E.result.status = "built" => E.result.attrsOK
ImplRequirementExact      == AtEnd /\ E.result.status = "built" => E.result.exact
ImplAccepts == AtEnd => ReqAccepts(E.cell, E.S, E.result)
ImplRejects == AtEnd => ReqRejects(E.cell, E.S, E.result)
(* the SNF result recorded from SNF3x3 obeys its contract whenever it is used *)
ImplSNFContract ==
  (pc = "snf" /\ ~IsDiagonal(S)) => SNFContract(S, E.snf)

ConformsStatus == AtEnd => E.result.status = result.status
ConformsOrder ==
  (AtEnd /\ E.result.status = "built" /\ result.status = "built") =>
     /\ Len(E.result.atoms) = Len(result.atoms)
     /\ \A k \in 1..Len(result.atoms) :
           /\ E.result.atoms[k].a = result.atoms[k].a
           /\ SameClass(S, cell.D, E.result.atoms[k].u, result.atoms[k].u)
     /\ E.result.s2u = result.s2u /\ E.result.u2s = result.u2s
=============================================================================
