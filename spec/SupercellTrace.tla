-------------------------- MODULE SupercellTrace --------------------------
(* Conformance of the implementation's supercells with Supercell.tla.       *)
(* Event fields (ucell, smat, sty, res, snf) deliberately differ from variable *)
(* names: SANY's linter warns per record field that shadows a name, which   *)
(* costs ~40 ms per event.                                                  *)
(* Every event is one call get_supercell(cell, S, is_old_style) on the real *)
(* code with its projected result (harness/props/c04.py).  The step machine *)
(* is run on the event's input (logged fields bind cell, S, style); at the  *)
(* end                                                                       *)
(*   - the requirement of C04 is evaluated on the LOGGED result             *)
(*     (Impl* invariants: a failure is a property violation), and           *)
(*   - the logged result is compared with the machine's result              *)
(*     (Conforms*: a failure with the requirement intact is specification   *)
(*     drift - atom order is not part of the property).                     *)
EXTENDS Supercell

CONSTANT Events   \* set of event records

VARIABLE ev
tvars == <<vars, ev>>

(* the event itself is carried in the state: TLC would re-evaluate a large   *)
(* constant table at every access otherwise                                *)
E == ev

TInit == Init /\ ev \in Events

TChoose ==
  /\ pc = "choose"
  /\ cell' = E.ucell /\ S' = E.smat /\ style' = E.sty
  /\ pc' = IF Det(E.smat) = 0 THEN "reject" ELSE IF E.sty = "classic" THEN "frame" ELSE "snf"
  /\ UNCHANGED <<multi, P, sur, kept, extracted, result>>

TSNF == SNFWith(E.snf)

TNext == (TChoose \/ SurroundingFrame \/ TSNF \/ SimpleSupercell \/ Trim \/ MapIndices \/ Reject)
         /\ UNCHANGED ev

TSpec == TInit /\ [][TNext]_tvars

AtEnd == pc = "done"

ImplRequirementCount      == AtEnd /\ E.res.status = "built" => ReqCount(E.ucell, E.smat, E.res)
ImplRequirementNoDup      == AtEnd /\ E.res.status = "built" => ReqNoDuplicates(E.ucell, E.smat, E.res)
ImplRequirementImageOf    == AtEnd /\ E.res.status = "built" => ReqImageOf(E.ucell, E.smat, E.res)
ImplRequirementMaps       == AtEnd /\ E.res.status = "built" => ReqMaps(E.ucell, E.smat, E.res)
ImplRequirementLattice    == AtEnd /\ E.res.status = "built" => E.res.latticeOK
ImplRequirementAttributes == AtEnd /\ E.res.status = "built" => E.res.attrsOK
ImplRequirementExact      == AtEnd /\ E.res.status = "built" => E.res.exact
ImplAccepts == AtEnd => ReqAccepts(E.ucell, E.smat, E.res)
ImplRejects == AtEnd => ReqRejects(E.ucell, E.smat, E.res)
(* the SNF result recorded from SNF3x3 obeys its contract whenever it is used *)
ImplSNFContract ==
  (pc = "snf" /\ ~IsDiagonal(S)) => SNFContract(S, E.snf)

ConformsStatus == AtEnd => E.res.status = result.status
ConformsOrder ==
  (AtEnd /\ E.res.status = "built" /\ result.status = "built") =>
     /\ Len(E.res.atoms) = Len(result.atoms)
     /\ \A k \in 1..Len(result.atoms) :
           /\ E.res.atoms[k].a = result.atoms[k].a
           /\ SameClass(S, cell.D, E.res.atoms[k].u, result.atoms[k].u)
     /\ E.res.s2u = result.s2u /\ E.res.u2s = result.u2s
=============================================================================
