-------------------------- MODULE DispHistoryTrace --------------------------
(* Call histories recorded on real Phonopy objects (harness/props/c01.py):   *)
(* a history is a sequence of steps                                          *)
(*   [op    : "gen" | "set" | "read",                                        *)
(*    ds    : the object's dataset after the step, projected,                *)
(*    cells : for "read": the handed-out supercells, projected (else <<>>),  *)
(*    clean : for "read": one cell per displacement, every other atom,       *)
(*            the lattice and the species are those of the supercell]        *)
(* ImplHandedOut evaluates the requirement on the LOGGED values: the cells   *)
(* handed out are the supercell plus the displacements of the dataset the    *)
(* object holds at that moment.  Conforms* compare with the step machine.    *)
EXTENDS DispHistory

CONSTANT Histories
VARIABLES h, i
tvars == <<hvars, h, i>>

TInit == HInit /\ h \in Histories /\ i = 0

TStep ==
  /\ i < Len(h)
  /\ i' = i + 1
  /\ h' = h
  /\ IF h[i + 1].op = "read" THEN Read ELSE Install(h[i + 1].ds)

TNext == TStep
TSpec == TInit /\ [][TNext]_tvars

AtRead == i > 0 /\ h[i].op = "read"
ImplHandedOut == AtRead => (h[i].clean /\ h[i].cells = h[i].ds)
ImplReadKeepsDataset == (AtRead /\ i > 1) => h[i].ds = h[i - 1].ds
ConformsDataset == i > 0 => h[i].ds = ds
ConformsHandedOut == AtRead => h[i].cells = handed
=============================================================================
