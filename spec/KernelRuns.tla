----------------------------- MODULE KernelRuns -----------------------------
(* C13 - contracts of the 19 compiled kernels at the phonopy._phonopy        *)
(* boundary, over builds, thread counts and repetitions.                     *)
(*                                                                           *)
(* A CASE is one argument tuple the Python layer produced (recorded from the *)
(* wrappers around phonoc.*; harness/c13_kernels.py), either as recorded or  *)
(* with its free data arrays randomised.  A RUN executes one case on one     *)
(* build of the extension with one OMP_NUM_THREADS setting, one repetition.  *)
(*                                                                           *)
(* Spec -> code: `Matrix` (below) is the set of runs the property quantifies *)
(* over; TLC enumerates it (plan phase), the harness executes these runs.   *)
(* Code -> spec: the observations of all runs of one case form a GROUP; TLC  *)
(* evaluates the requirement on every group (Impl* invariants).              *)
(*                                                                           *)
(* Real-valued results are compared by the harness with the reference        *)
(* semantics (harness/c13_refs.py) and the distance is logged in integer     *)
(* units of 1e-16 relative to the largest reference magnitude; the           *)
(* tolerances live here.  Bitwise equality is decided on digests.            *)
EXTENDS Integers, FiniteSets, Sequences, TLC

CONSTANTS
  Kernels,        \* the exported numerical kernels (19 names)
  ThreadCounts,   \* OMP_NUM_THREADS settings of the OpenMP build
  Reps,           \* repetitions per setting
  WithSerial,     \* also the build without OpenMP
  WithAsan,       \* also the AddressSanitizer/UBSan build (one run per case)
  Groups,         \* trace: set of [kernel, case, variant, indexmaps, noncontig, p2sprefix, runs : set of run records]
  Glue,           \* trace: set of glue records (see GlueOK)
  FlagArgs,       \* from the glue (c/_phonopy.cpp signatures): set of <<kernel, name of an integer / bool / char* scalar argument>>
  TwoPass,        \* trace: set of two-pass records of the dense shortest-vector kernel (see TwoPassOK)
  NoiseClasses,   \* near-tie classes: set of <<crystal, noise index, tolerance index>> the harness must cover
  Divergent       \* from the sources: set of [site, kernels] - code compiled only with / only without _OPENMP and the kernels reaching it

VARIABLES phase, cfg, grp
vars == <<phase, cfg, grp>>

-----------------------------------------------------------------------------
(* the run matrix                                                            *)
RunKeys ==
  {[build |-> "omp", threads |-> t, rep |-> r] : t \in ThreadCounts, r \in Reps}
  \cup (IF WithSerial THEN {[build |-> "serial", threads |-> 1, rep |-> r] : r \in Reps} ELSE {})
  \cup (IF WithAsan THEN {[build |-> "asan", threads |-> 1, rep |-> 1]} ELSE {})

KeyOf(r) == [build |-> r.build, threads |-> r.threads, rep |-> r.rep]

(* tolerances in units of 1e-16 (relative to max |reference|)                *)
ExactKernels == {"compute_permutation", "tetrahedra_relative_grid_address",
                 "all_tetrahedra_relative_grid_address", "tetrahedra_frequencies",
                 "transpose_compact_fc"}
Tol(k) == IF k \in ExactKernels THEN 0
          ELSE IF k = "thermal_properties" THEN 100000000   \* 1e-8: (exp(x)-1) cancellation near the cutoff
          ELSE 100000                                         \* 1e-11
CrossBuildTol(k) == IF k \in ExactKernels THEN 0 ELSE 10000   \* 1e-12 between OpenMP and serial builds

-----------------------------------------------------------------------------
(* requirement on the observations of one case                              *)
ReqReference(g) == \A r \in g.runs : r.referr <= Tol(g.kernel)
ReqThreadsRepsBitwise(g) ==
  \A r1, r2 \in g.runs : (r1.build = r2.build) => r1.digest = r2.digest
ReqBuilds(g) == \A r \in g.runs : r.xbuild <= CrossBuildTol(g.kernel)
ReqGuards(g) == \A r \in g.runs : r.guards
ReqConstInputs(g) == \A r \in g.runs : r.constok
ReqUseOpenmpFlag(g) == \A r \in g.runs : r.flagok   \* kernel's own use_openmp argument 0/1: same bits
ReqNoException(g) == \A r \in g.runs : ~r.raised
ReqNoSanitizer(g) == \A r \in g.runs : ~r.sanitizer
ReqMatrix(g) == {KeyOf(r) : r \in g.runs} = RunKeys
ReqKernelKnown(g) == g.kernel \in Kernels

(* the nanobind glue casts every array to the element type the Python layer *)
(* actually passes, and never asks for an axis the array does not have      *)
GlueOK(x) ==
  /\ x.kernel \in Kernels
  /\ x.dtypes \subseteq {x.ctype}
  /\ x.maxaxis < x.minndim
(* every kernel is exercised                                                *)
Covered == \A k \in Kernels : \E g \in Groups : g.kernel = k

(* Kernels that scan the supercell for the images of a primitive atom       *)
(* (`s2p_map[k] == p2s_map[j]`) or address rows through p2s / fc_index_map  *)
(* must be exercised on inputs where the Python layer's maps are not the    *)
(* trivial ones: some primitive atom whose images are NOT one consecutive   *)
(* block of supercell indices (interleaved species with a centring          *)
(* primitive matrix), and a p2s-like map that is not 0..n-1.  Otherwise an  *)
(* early-terminating scan or a row/prefix confusion is invisible.  The      *)
(* facts are projected from the recorded argument tuples by the harness.    *)
IndexMapKernels == {"transform_dynmat_to_fc", "dynamical_matrices_with_dd_openmp_over_qpoints",
                    "derivative_dynmat", "perm_trans_symmetrize_compact_fc", "transpose_compact_fc"}
IndexMapCovered ==
  \A k \in IndexMapKernels \cap Kernels :
     /\ \E g \in Groups : g.kernel = k /\ g.indexmaps /\ g.noncontig
     /\ \E g \in Groups : g.kernel = k /\ g.indexmaps /\ ~g.p2sprefix
     /\ \E g \in Groups : g.kernel = k /\ g.indexmaps /\ g.noncontig /\ g.variant = "random"
     /\ \A g \in Groups : g.kernel = k => g.indexmaps
(* Kernels that receive both the number of primitive atoms and of supercell *)
(* atoms must be exercised in every relation between num_patom and the       *)
(* number N = num_satom / num_patom of lattice points: "lt" num_patom < N,   *)
(* "eq" num_patom = N, "gt" num_patom > N >= 2 (then p2s_map = 0, N, 2N, ..  *)
(* has entries BELOW num_patom: a confusion of the compact row i with the    *)
(* full row p2s[i] hits another atom's row only here), "one" N = 1.  For the *)
(* kernels with a full and a compact layout, "gt" in both layouts.           *)
ShapeKernels == {"transform_dynmat_to_fc", "dynamical_matrices_with_dd_openmp_over_qpoints",
                 "derivative_dynmat", "perm_trans_symmetrize_compact_fc", "transpose_compact_fc",
                 "gsv_set_smallest_vectors_sparse", "gsv_set_smallest_vectors_dense"}
TwoLayoutKernels == {"transform_dynmat_to_fc", "dynamical_matrices_with_dd_openmp_over_qpoints", "derivative_dynmat"}
ShapeCovered ==
  /\ \A k \in ShapeKernels \cap Kernels : \A c \in {"lt", "eq", "gt", "one"} :
        (* with N = 1 a compact array has the full shape and the Python layer calls the full-layout kernel *)
        (c = "one" /\ k \in {"perm_trans_symmetrize_compact_fc", "transpose_compact_fc"}) \/
        /\ \E g \in Groups : g.kernel = k /\ g.shapecls = c /\ g.variant = "recorded"
        /\ (k \notin {"gsv_set_smallest_vectors_sparse", "gsv_set_smallest_vectors_dense"}) =>
              \E g \in Groups : g.kernel = k /\ g.shapecls = c /\ g.variant = "random"
  /\ \A k \in TwoLayoutKernels \cap Kernels :
        /\ \E g \in Groups : g.kernel = k /\ g.shapecls = "gt" /\ ~g.p2sprefix /\ g.variant = "random"
        /\ \E g \in Groups : g.kernel = k /\ g.shapecls = "gt" /\ g.p2sprefix /\ g.variant = "random"
  /\ \A g \in Groups : (g.kernel \in ShapeKernels) = (g.shapecls # "na")

(* the Gonze-Lee reciprocal dipole-dipole kernel must be exercised where a   *)
(* K = G + q vanishes (q = 0 or q = a reciprocal lattice point) WITH a       *)
(* q-direction and with its own use_openmp flag on, both as recorded and     *)
(* with random data: the limiting term is the only schedule-sensitive spot   *)
LimitCovered ==
  ("recip_dipole_dipole" \in Kernels) =>
     /\ \E g \in Groups : g.kernel = "recip_dipole_dipole" /\ g.gllimit /\ g.variant = "recorded"
     /\ \E g \in Groups : g.kernel = "recip_dipole_dipole" /\ g.gllimit /\ g.variant = "random"

-----------------------------------------------------------------------------
(* Two-pass contract of gsv_set_smallest_vectors_dense.  The Python layer    *)
(* calls the kernel twice with identical inputs: a counting pass             *)
(* (initialize = 1) fills multiplicity[pair] = <<count, address>>, then it   *)
(* allocates sum(count) rows and calls the filling pass (initialize = 0).    *)
(* Both passes must apply the SAME selection rule, else the filling pass     *)
(* writes outside the array it was given.  Judged on logged values of a      *)
(* guard-padded replay of both passes on structures whose equidistant images *)
(* are split by noise of 0.01 .. 3 times the tolerance (and on the exact     *)
(* crystal, noise class 0), for two tolerances:                              *)
(*   count1[p]  count reported by the counting pass for pair p               *)
(*   addr1[p]   address reported by the counting pass                        *)
(*   fill2[p]   rows the filling pass writes for pair p (kernel on that pair)*)
(*   filltotal  rows the filling pass writes for the whole input             *)
(*   alloc      rows the Python layer allocates (= sum of count1)            *)
RECURSIVE SumTo(_, _)
SumTo(sq, n) == IF n = 0 THEN 0 ELSE sq[n] + SumTo(sq, n - 1)
TwoPassOK(e) ==
  /\ Len(e.count1) = Len(e.fill2) /\ Len(e.addr1) = Len(e.count1)
  /\ \A p \in 1..Len(e.count1) : e.count1[p] >= 1 /\ e.fill2[p] = e.count1[p]
  /\ \A p \in 1..Len(e.count1) : e.addr1[p] = SumTo(e.count1, p - 1)
  /\ e.alloc = SumTo(e.count1, Len(e.count1))
  /\ e.filltotal = e.alloc
  /\ e.guards1 /\ e.guards2
(* vacuity: every noise class is present on every build, and the noise does  *)
(* split ties somewhere (some record's counts differ from the exact crystal) *)
TwoPassCovered ==
  /\ \A b \in {"omp", "serial"} : \A c \in NoiseClasses :
        \E e \in TwoPass : e.build = b /\ <<e.crystal, e.noise, e.sp>> = c
  /\ \E e \in TwoPass, x \in TwoPass :
        x.noise = 0 /\ e.noise # 0 /\ x.crystal = e.crystal /\ x.sp = e.sp /\ x.build = e.build
        /\ x.count1 # e.count1

-----------------------------------------------------------------------------
(* Plan: enumerate the matrix (spec -> code); Check: judge groups            *)
Init == \/ /\ phase = "plan" /\ cfg \in RunKeys /\ grp = <<>>
        \/ /\ phase = "check" /\ cfg = <<>> /\ grp \in Groups
        \/ /\ phase = "glue" /\ cfg = <<>> /\ grp \in Glue
        \/ /\ phase = "twopass" /\ cfg = <<>> /\ grp \in TwoPass
        \/ /\ phase = "cover" /\ cfg = <<>> /\ grp = <<>>
Next == UNCHANGED vars
Spec == Init /\ [][Next]_vars

InCheck == phase = "check"
ImplMatchesReference      == InCheck => ReqReference(grp)
ImplThreadsRepsBitwise    == InCheck => ReqThreadsRepsBitwise(grp)
ImplBuildsAgree           == InCheck => ReqBuilds(grp)
ImplGuardsIntact          == InCheck => ReqGuards(grp)
ImplConstInputsUnchanged  == InCheck => ReqConstInputs(grp)
ImplUseOpenmpFlagIrrelevant == InCheck => ReqUseOpenmpFlag(grp)
ImplNoException           == InCheck => ReqNoException(grp)
ImplNoSanitizerReport     == InCheck => ReqNoSanitizer(grp)
ImplCoversMatrix          == InCheck => ReqMatrix(grp)
ImplKernelKnown           == InCheck => ReqKernelKnown(grp)
ImplGlue                  == (phase = "glue") => GlueOK(grp)
ImplAllKernelsCovered     == (phase = "cover") => Covered
ImplIndexMapCoverage      == (phase = "cover") => IndexMapCovered /\ LimitCovered
ImplShapeCoverage         == (phase = "cover") => ShapeCovered

(* Every scalar mode argument of every kernel (`classical`, `use_openmp`,    *)
(* `is_nac`, `is_nac_q_zero`, `use_Wang_NAC`, `initialize`, `level`,         *)
(* `function`; the list is read off the glue signatures, so a new flag is    *)
(* picked up) takes at least two values among the cases, and each value is   *)
(* executed on every build of the matrix: each (kernel, flag value, build)   *)
(* cell is exercised.  g.flags is the set of <<argument name, value>> pairs  *)
(* of the case (projected from the recorded argument tuple).                 *)
BuildsOfMatrix == {k.build : k \in RunKeys}
FlagValues(k, a, b) ==
  {fv[2] : fv \in {x \in UNION {g.flags : g \in {h \in Groups : h.kernel = k /\ \E r \in h.runs : r.build = b}} : x[1] = a}}
FlagCellsCovered ==
  \A ka \in FlagArgs : (ka[1] \in Kernels) =>
     \A b \in BuildsOfMatrix : Cardinality(FlagValues(ka[1], ka[2], b)) >= 2
(* code that exists in only one of the builds must be reached by a kernel    *)
(* whose cases run on the OpenMP and on the serial build (and are compared   *)
(* there by ImplBuildsAgree / ImplMatchesReference)                         *)
DivergentCovered ==
  \A d \in Divergent : \A k \in d.kernels \cap Kernels :
     \E g \in Groups : g.kernel = k /\ {"omp", "serial"} \subseteq {r.build : r \in g.runs}
ImplTwoPassContract       == (phase = "twopass") => TwoPassOK(grp)
ImplTwoPassCovered        == (phase = "cover") => TwoPassCovered
ImplFlagCellsCovered      == (phase = "cover") => FlagCellsCovered
ImplDivergentCovered      == (phase = "cover") => DivergentCovered
=============================================================================
