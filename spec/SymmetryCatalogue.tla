------------------------- MODULE SymmetryCatalogue -------------------------
(* Decorated crystals for X05: the catalogue entries (Catalogue.tla,          *)
(* MeshCatalogue.tla) as decorated crystals without moments, and entries of   *)
(* our own with collinear / non-collinear magnetic moments.  Dumped once by   *)
(* TLC; the harness realises them and builds supercells of them.             *)
EXTENDS MeshCatalogue

Plain(c) == [name |-> c.name, gram |-> c.G, den |-> c.D, mmode |-> "none",
             atm |-> [a \in 1..Len(c.atoms) |-> [sp |-> c.atoms[a].sp, num |-> c.atoms[a].num, mg |-> <<0,0,0>>]]]

A(sp, n, m) == [sp |-> sp, num |-> n, mg |-> m]
C(sp, n, m) == A(sp, n, <<m, 0, 0>>)   \* collinear moment
Cub(k) == <<<<k,0,0>>,<<0,k,0>>,<<0,0,k>>>>

Magnetic == <<
  (* bcc conventional cell, antiferromagnetic (type IV: the centring translation carries time reversal) *)
  [name |-> "bccafm", gram |-> Cub(4), den |-> 2, mmode |-> "col",
   atm |-> <<C(1, <<0,0,0>>, 1), C(1, <<1,1,1>>, -1)>>],
  (* the same, ferromagnetic: every operation without time reversal only *)
  [name |-> "bccfm", gram |-> Cub(4), den |-> 2, mmode |-> "col",
   atm |-> <<C(1, <<0,0,0>>, 2), C(1, <<1,1,1>>, 2)>>],
  (* all moments zero: grey group, every spatial operation with both time-reversal parts *)
  [name |-> "bccgrey", gram |-> Cub(4), den |-> 2, mmode |-> "col",
   atm |-> <<C(1, <<0,0,0>>, 0), C(1, <<1,1,1>>, 0)>>],
  (* rock salt conventional cell, interleaved; metal sublattice antiferromagnetic in (001) layers *)
  [name |-> "naclafm", gram |-> Cub(4), den |-> 2, mmode |-> "col",
   atm |-> <<C(1, <<0,0,0>>, 1), C(2, <<1,0,0>>, 0), C(1, <<0,1,1>>, -1), C(2, <<1,1,1>>, 0),
             C(1, <<1,0,1>>, -1), C(2, <<0,0,1>>, 0), C(1, <<1,1,0>>, 1), C(2, <<0,1,0>>, 0)>>],
  (* ferrimagnet: two inequivalent magnitudes *)
  [name |-> "csclferri", gram |-> Cub(4), den |-> 2, mmode |-> "col",
   atm |-> <<C(1, <<0,0,0>>, 2), C(1, <<1,1,1>>, -1)>>],
  (* hcp, antiferromagnetic between the two layers *)
  [name |-> "hcpafm", gram |-> Hexagonal(3), den |-> 6, mmode |-> "col",
   atm |-> <<C(1, <<0,0,0>>, 1), C(1, <<2,4,3>>, -1)>>],
  (* non-collinear: bcc with moments along c, antiparallel (axial vectors: mirrors containing c flip them) *)
  [name |-> "bccncl", gram |-> Cub(4), den |-> 2, mmode |-> "ncl",
   atm |-> <<A(1, <<0,0,0>>, <<0,0,1>>), A(1, <<1,1,1>>, <<0,0,-1>>)>>],
  (* non-collinear: 120-degree arrangement on the three atoms of a hexagonal layer cell (a, b, -(a+b)) *)
  [name |-> "hex120", gram |-> Hexagonal(5), den |-> 3, mmode |-> "ncl",
   atm |-> <<A(1, <<0,0,0>>, <<1,0,0>>), A(1, <<1,2,0>>, <<0,1,0>>), A(1, <<2,1,0>>, <<-1,-1,0>>)>>],
  (* non-collinear, tetragonal, two species, moments in the plane, ferromagnetic *)
  [name |-> "tetncl", gram |-> <<<<4,0,0>>,<<0,4,0>>,<<0,0,5>>>>, den |-> 4, mmode |-> "ncl",
   atm |-> <<A(1, <<0,0,0>>, <<1,1,0>>), A(2, <<2,2,1>>, <<0,0,0>>)>>],
  (* triclinic with inversion-related pair carrying opposite collinear moments: -1' only *)
  [name |-> "tricafm", gram |-> <<<<4,1,1>>,<<1,5,2>>,<<1,2,6>>>>, den |-> 4, mmode |-> "col",
   atm |-> <<C(1, <<1,2,1>>, 1), C(2, <<0,0,0>>, 0), C(1, <<3,2,3>>, -1)>>]
  >>

AllDecorated == [k \in 1..Len(MeshEntries) |-> Plain(MeshEntries[k])] \o Magnetic

VARIABLES cr, tick   \* (two variables: the dump parser wants a conjunct list)
CInit == cr \in {AllDecorated[k] : k \in 1..Len(AllDecorated)} /\ tick = 0
CNext == UNCHANGED <<cr, tick>>
=============================================================================
