-------------------------- MODULE UnitsRouteTrace --------------------------
(* Conformance of phonopy.load() with UnitsRoute.tla.  One event per         *)
(* (calculator, route, NAC mode), recorded by harness/c17_units.py: the ONE  *)
(* physical crystal of the unit replay, expressed in the calculator's units  *)
(* with the specification's factors, reaches load() by the route; logged are *)
(* the calculator the Phonopy object reports, its frequency factor and (NAC  *)
(* modes "params": nac_params without factor, "born": BORN file without a    *)
(* factor) its NAC factor - floats projected to monomials as in UnitsTrace - *)
(* and whether frequencies / LO-TO split frequencies equal the reference's.  *)
EXTENDS UnitsRoute

CONSTANT Events     \* [n, dc, rt, nm, oc, reported, factor, nacSet, nac, phys]
VARIABLE ev
E == ev

TRInit == RInit /\ ev \in Events
TRChoose ==
  /\ rpc = "choose"
  /\ dcalc' = E.dc /\ route' = E.rt
  /\ argc' = Channels(E.dc, E.rt, E.oc)[1] /\ recc' = Channels(E.dc, E.rt, E.oc)[2]
  /\ rpc' = "resolve" /\ UNCHANGED <<used, uvars>>
TRNext == (TRChoose \/ RResolve) /\ UNCHANGED ev

tD == Table[E.dc]
WithNac == E.nm # "none" /\ E.dc # "cp2k"        \* CP2K documents its NAC factor as not implemented

ImplRouteReported == RDone => E.reported = E.dc
ImplRouteFactor == RDone => Mul(Mul(Pow(E.factor, 2), Mul(Pow(TwoPi, 2), Pow(THz, 2))), AMU) = FcSI(tD)
ImplRouteNac == (RDone /\ WithNac) =>
                  /\ E.nacSet
                  /\ Mul(E.nac, Mul(FcSI(tD), Pow(LengthUnit[tD.l2], 3))) = Coulomb
ImplRoutePhysFrequencies == RDone => E.phys.sameFrequencies
ImplRoutePhysLOTO == (RDone /\ WithNac) => E.phys.sameLOTO
TInvRoute == InvRouteResolves /\ InvRouteFactor /\ InvRouteNac
ConformsRouteFactor == RDone => E.factor = ReqFactor(Table[used])
ConformsRouteNac == (RDone /\ WithNac /\ E.nacSet) => E.nac = ReqNac(Table[used])
=============================================================================
