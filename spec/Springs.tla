------------------------------ MODULE Springs ------------------------------
(* Finite-range pair-spring model on an integer crystal: the exact harmonic  *)
(* force constants used as the oracle by C01, C02, C03, C06, C07, C12, C19.  *)
(*                                                                          *)
(* For atoms a (cell 0) and b (cell t) with separation r = num_b + D t -    *)
(* num_a (integer vector over D) and squared length l2 = r^T G r, the       *)
(* catalogue gives integers (kR, kT) = c.springs[<<spLo, spHi, l2>>] and    *)
(*                                                                          *)
(*   Phi(a0, bt) = -[ kT' 1 + kR' r_c r_c^T ]      (Cartesian, r_c = r L / D) *)
(*                                                                          *)
(* In covariant lattice components Phi~ = L Phi L^T this is, up to the       *)
(* positive factors absorbed in kT', kR',                                    *)
(*                                                                          *)
(*   D^2 Phi~(a0, bt) = -[ kT D^2 G + kR (G r)(G r)^T ]   (integer matrix)   *)
(*                                                                          *)
(* and the on-site term is fixed by the acoustic sum rule.  By construction  *)
(* the model obeys index-permutation symmetry, translational invariance and  *)
(* the full space group of the crystal (it depends on species and distance   *)
(* only).  Supercell force constants are the sums over periodic images.      *)
EXTENDS Crystal

Outer(v, w) == [i \in I3 |-> [j \in I3 |-> v[i] * w[j]]]
ZeroM == <<<<0,0,0>>,<<0,0,0>>,<<0,0,0>>>>

RECURSIVE MSum(_)
MSum(seq) == IF seq = <<>> THEN ZeroM ELSE MAdd(Head(seq), MSum(Tail(seq)))

SpringKey(c, a, b, r) ==
  <<Min(Sp(c, a), Sp(c, b)), Max(Sp(c, a), Sp(c, b)), QForm(c.G, r)>>

(* D^2 Phi~ for a pair (not on-site) *)
PairTensor(c, a, b, r) ==
  LET k == c.springs[SpringKey(c, a, b, r)]
      gr == MatVec(c.G, r)
  IN  MNeg(MAdd(MScale(k[2] * c.D * c.D, c.G), MScale(k[1], Outer(gr, gr))))

Interacts(c, a, b, r) == r # Zero3 /\ SpringKey(c, a, b, r) \in DOMAIN c.springs

(* the infinite crystal's force constants as a finite set of terms           *)
(* [a, b, t, r, T]: atom a in cell 0, atom b in cell t, r = separation, T = D^2 Phi~ *)
PairTerms(c) ==
  {[a |-> p[1], b |-> p[2], t |-> p[3],
    r |-> VSub(VAdd(Num(c, p[2]), VScale(c.D, p[3])), Num(c, p[1])),
    T |-> PairTensor(c, p[1], p[2], VSub(VAdd(Num(c, p[2]), VScale(c.D, p[3])), Num(c, p[1])))] :
     p \in {p \in (1..NAtoms(c)) \X (1..NAtoms(c)) \X Box(c.reach) :
              Interacts(c, p[1], p[2], VSub(VAdd(Num(c, p[2]), VScale(c.D, p[3])), Num(c, p[1])))}}

(* the box really contains every interacting pair: no interaction reaches its faces *)
ReachOK(c) ==
  \A x \in PairTerms(c) : \A i \in I3 : Abs(x.t[i]) < c.reach

(* helper: sum of the tensors of a set of terms (terms are distinct records, so a set is fine) *)
SumT(X) == LET RECURSIVE F(_)
               F(R) == IF R = {} THEN ZeroM ELSE LET x == CHOOSE x \in R : TRUE IN MAdd(x.T, F(R \ {x}))
           IN F(X)

OnSiteTensor(terms, a) == MNeg(SumT({x \in terms : x.a = a}))

(* all terms including the on-site ones *)
AllTerms(c) ==
  LET pt == PairTerms(c)
  IN  pt \cup {[a |-> a, b |-> a, t |-> Zero3, r |-> Zero3, T |-> OnSiteTensor(pt, a)] : a \in 1..NAtoms(c)}

(* supercell force constants (D^2 Phi~) for supercell atoms `atoms` (sequence of [a, u]):   *)
(* fc[i][j] = sum over terms from a_i to an image of atom j                                *)
SuperFC(c, S, atoms, terms) ==
  LET n == Len(atoms)
      key == Materialize([k \in 1..n |-> ClassKey(S, c.D, atoms[k].u)])
  IN  [i \in 1..n |-> [j \in 1..n |->
         SumT({x \in terms : /\ x.a = atoms[i].a /\ x.b = atoms[j].a
                              /\ ClassKey(S, c.D, VAdd(atoms[i].u, x.r)) = key[j]})]]

(* ---- invariances, stated on a supercell array ---------------------------------------- *)
PermSym(fc) == \A i, j \in DOMAIN fc : fc[i][j] = Transpose(fc[j][i])
RECURSIVE RowSum(_, _, _)
RowSum(fc, i, j) == IF j = 0 THEN ZeroM ELSE MAdd(fc[i][j], RowSum(fc, i, j - 1))
TransInv(fc) == \A i \in DOMAIN fc : RowSum(fc, i, Len(fc)) = ZeroM
=============================================================================
