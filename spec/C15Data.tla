------------------------------ MODULE C15Data ------------------------------
(* Placeholder.  harness/props/c15.py replaces this module, in the private   *)
(* run directory of each TLC run, by the recorded histories of the real     *)
(* Phonopy object: a sequence of histories, each a sequence of events        *)
(* [op, lay, m, keep, f, typ, cls, k, i, refused, err, stored, qok, frame,   *)
(*  obs] where obs is the projected real state after the call.              *)
Histories == <<>>
=============================================================================
