----------------------------- MODULE ThermalArgs -----------------------------
(* C10, the arguments and the reporting around the harmonic sums of           *)
(* Thermal.tla: three small machines, each with the requirement as            *)
(* invariants and with events recorded from the real code.                    *)
(*                                                                            *)
(* A. ThermalProperties.set_temperature_range(t_min, t_max, t_step)            *)
(*    (also reached by Phonopy.run_thermal_properties(t_min, t_max, t_step)). *)
(*    Temperatures are integers in TICKS (1 tick = 1/den K, den per event),   *)
(*    so steps like 0.1 K are exact here while the code works in binary64.    *)
(*    Requirement: the reported temperatures are exactly the grid             *)
(*    t_min' + k t_step' (k = 0, 1, ...) up to and including t_max', where    *)
(*    a negative t_min is 0, a t_max below t_min' is t_min', a missing or     *)
(*    non-positive t_step is the default; never a negative temperature,       *)
(*    never a point beyond t_max', strictly increasing.                       *)
(*                                                                            *)
(* B. Phonopy.run_thermal_properties(is_projection) on the mesh of run_mesh:  *)
(*    a projected component k is by definition the sum over ALL q-points of   *)
(*    the mesh of w |e_q[k, b]|^2 f(nu_qb).  On a symmetry-reduced mesh the   *)
(*    star of a q-point is represented by one member with weight = size of    *)
(*    the star, but |e|^2 of the other members is |e|^2 of the representative *)
(*    with its components permuted (rotated) - the reduced sum is the full    *)
(*    sum only if all those permutations are trivial (time reversal).  The    *)
(*    call must therefore be refused or give the full-mesh values; without    *)
(*    eigenvectors it must be refused.  (Lemma* below: the orbit algebra.)    *)
(*                                                                            *)
(* C. ThermalProperties.write_yaml: the file is the attributes at the printed *)
(*    precision, one row per temperature, never NaN / inf.                    *)
EXTENDS Integers, Sequences, FiniteSets, TLC

CONSTANTS RangeArgs,     \* A: set of argument records explored by the model
          RangeEvents,   \* A: recorded calls
          GuardEvents,   \* B: recorded API calls
          YamlEvents,    \* C: recorded files
          ApiVariant     \* [guardsProjection |-> BOOLEAN,  FALSE = run_thermal_properties does not look at the mesh
                         \*  rangeStopsAtMax |-> BOOLEAN]   FALSE = arange stops at t_max + t_step / 2

VARIABLES pc, ev, a, lo, hi, st, grid, outcome
vars == <<pc, ev, a, lo, hi, st, grid, outcome>>

NoArg == [den |-> 1, gmin |-> FALSE, tmin |-> 0, gmax |-> FALSE, tmax |-> 0, gstep |-> FALSE, tstep |-> 0]
NoEv == [part |-> "none"]

-----------------------------------------------------------------------------
(* A. the temperature grid *)
DefMin == 10
DefMax == 1000
DefStep == 10

RECURSIVE Arange(_, _, _)
(* numpy.arange(start, stop2 / 2, step): start, start + step, ... while 2 * value < stop2 *)
Arange(start, stop2, step) == IF 2 * start < stop2 THEN <<start>> \o Arange(start + step, stop2, step) ELSE <<>>

ClampMin ==      \* _t_min = 10 if None, 0 if negative
  /\ pc = "tmin"
  /\ lo' = IF ~a.gmin THEN DefMin * a.den ELSE IF a.tmin < 0 THEN 0 ELSE a.tmin
  /\ pc' = "tmax" /\ UNCHANGED <<ev, a, hi, st, grid, outcome>>
ClampMax ==      \* _t_max = 1000 if None, t_max if t_max > _t_min else _t_min
  /\ pc = "tmax"
  /\ hi' = IF ~a.gmax THEN DefMax * a.den ELSE IF a.tmax > lo THEN a.tmax ELSE lo
  /\ pc' = "tstep" /\ UNCHANGED <<ev, a, lo, st, grid, outcome>>
ClampStep ==     \* _t_step = 10 if None or not positive
  /\ pc = "tstep"
  /\ st' = IF a.gstep /\ a.tstep > 0 THEN a.tstep ELSE DefStep * a.den
  /\ pc' = "arange" /\ UNCHANGED <<ev, a, lo, hi, grid, outcome>>
MakeGrid ==      \* np.arange(_t_min, _t_max + _t_step / 2.0, _t_step): a grid point in (t_max, t_max + t_step/2) is kept
  /\ pc = "arange"
  /\ grid' = IF ApiVariant.rangeStopsAtMax THEN Arange(lo, 2 * hi + 1, st) ELSE Arange(lo, 2 * hi + st, st)
  /\ pc' = "done" /\ UNCHANGED <<ev, a, lo, hi, st, outcome>>

(* requirement, from the documented meaning of TMIN / TMAX / TSTEP *)
ReqLo(x) == IF ~x.gmin THEN DefMin * x.den ELSE IF x.tmin < 0 THEN 0 ELSE x.tmin
ReqHi(x) == LET h == IF ~x.gmax THEN DefMax * x.den ELSE x.tmax IN IF h < ReqLo(x) THEN ReqLo(x) ELSE h
ReqSt(x) == IF x.gstep /\ x.tstep > 0 THEN x.tstep ELSE DefStep * x.den
ReqGrid(x) == [k \in 1..((ReqHi(x) - ReqLo(x)) \div ReqSt(x) + 1) |-> ReqLo(x) + (k - 1) * ReqSt(x)]
GridOK(x, g) ==
  /\ g = ReqGrid(x)
  /\ Len(g) >= 1 /\ g[1] = ReqLo(x) /\ g[Len(g)] <= ReqHi(x) /\ g[Len(g)] + ReqSt(x) > ReqHi(x)
  /\ \A k \in 1..Len(g) : g[k] >= 0
  /\ \A k \in 1..(Len(g) - 1) : g[k + 1] = g[k] + ReqSt(x)

InvRangeIsTheGrid == (pc = "done" /\ ev.part = "model") => GridOK(a, grid)
ImplRange == (pc = "done" /\ ev.part = "range") => ev.exact /\ GridOK(a, ev.got)
ConformsRange == (pc = "done" /\ ev.part = "range") => ev.got = grid

-----------------------------------------------------------------------------
(* B. projection through the API *)
(* the orbit algebra on two components: e2 = <<|e[1,b]|^2, |e[2,b]|^2>> of one band in units of 1/4, *)
(* a star of size n whose members carry the component permutations perms[1..n]                      *)
Perms2 == {<<1, 2>>, <<2, 1>>}
E2s == {<<4, 0>>, <<3, 1>>, <<2, 2>>, <<1, 3>>, <<0, 4>>}
RECURSIVE SumOver(_, _, _)
SumOver(e2, perms, k) == IF perms = <<>> THEN 0 ELSE e2[Head(perms)[k]] + SumOver(e2, Tail(perms), k)
FullProjection(e2, perms, k) == SumOver(e2, perms, k)          \* every member of the star with its own |e|^2
ReducedProjection(e2, perms, k) == Len(perms) * e2[k]          \* the representative times the weight
(* time reversal only (all permutations trivial): the reduced sum is the full sum *)
ASSUME LemmaTrivialStar ==
  \A e2 \in E2s : \A n \in 1..3 : \A k \in 1..2 :
     LET perms == [i \in 1..n |-> <<1, 2>>] IN ReducedProjection(e2, perms, k) = FullProjection(e2, perms, k)
(* a rotation that exchanges components: it is not, unless |e|^2 happens to be invariant *)
ASSUME LemmaRotatedStar ==
  \A e2 \in E2s : LET perms == <<<<1, 2>>, <<2, 1>>>> IN
     (ReducedProjection(e2, perms, 1) = FullProjection(e2, perms, 1)) = (e2[1] = e2[2])
(* the total (sum over components) never notices *)
ASSUME LemmaTotal ==
  \A e2 \in E2s : \A p1 \in Perms2, p2 \in Perms2 : LET perms == <<p1, p2>> IN
     ReducedProjection(e2, perms, 1) + ReducedProjection(e2, perms, 2) = FullProjection(e2, perms, 1) + FullProjection(e2, perms, 2)

(* the machine: run_mesh(with_eigenvectors, is_mesh_symmetry) then run_thermal_properties(is_projection) *)
(* ev.mesh: "full" | "trs" (reduced by time reversal only) | "rot" (reduced by rotations)                *)
ApiRun ==
  /\ pc = "api"
  /\ outcome' =
       IF ~ev.isProj THEN "correct"
       ELSE IF ApiVariant.guardsProjection /\ ((~ev.withEig) \/ ev.mesh # "full") THEN "refused"
       ELSE IF ~ev.withEig THEN "crash"             \* None.shape
       ELSE IF ev.mesh = "rot" THEN "wrong"         \* LemmaRotatedStar
       ELSE "correct"                               \* LemmaTrivialStar
  /\ pc' = "done" /\ UNCHANGED <<ev, a, lo, hi, st, grid>>

ReqOutcome(e, o) ==
  /\ o \in {"refused", "correct"}                    \* never wrong numbers, never an accidental crash
  /\ (~e.isProj \/ (e.withEig /\ e.mesh = "full")) => o = "correct"     \* nothing to refuse

InvProjectionRefusedOrCorrect == (pc = "done" /\ ev.part = "guard") => ReqOutcome(ev, outcome)
ImplProjectionRefusedOrCorrect == (pc = "done" /\ ev.part = "guard") => ReqOutcome(ev, ev.outcome)
ConformsGuard == (pc = "done" /\ ev.part = "guard") => ev.outcome = outcome

-----------------------------------------------------------------------------
(* C. thermal_properties.yaml: integer deviations logged by the harness (units of 1e-9 of the printed unit) *)
(* "%15.7f" rounds to 5e-8 *)
TolPrinted == 51
YamlStep == pc = "yaml" /\ pc' = "done" /\ UNCHANGED <<ev, a, lo, hi, st, grid, outcome>>
IsYaml == pc = "done" /\ ev.part = "yaml"
ImplYamlParses == IsYaml => ev.parses
ImplYamlNoNonFinite == IsYaml => ~ev.nonfinite
ImplYamlRows == IsYaml => ev.rows = ev.ntemps /\ (ev.isProj => ev.prows = ev.ntemps)
ImplYamlValues == IsYaml /\ ev.parses => ev.devT <= TolPrinted /\ ev.devF <= TolPrinted /\ ev.devS <= TolPrinted /\ ev.devCv <= TolPrinted
ImplYamlEnergy == IsYaml /\ ev.parses => ev.devE <= 2 * TolPrinted          \* F + T S / 1000 of the attributes
ImplYamlHeader == IsYaml /\ ev.parses =>
   /\ ev.numModesOK /\ ev.numIntegratedOK /\ ev.devZpe <= TolPrinted /\ ev.devCutoff <= 5100   \* "%.5f"
   /\ ev.bandIndexOK
ImplYamlNatom == IsYaml /\ ev.parses => ev.natomOK                          \* number of atoms of the cell
ImplYamlProjected == IsYaml /\ ev.parses /\ ev.isProj => ev.devProj <= TolPrinted /\ ev.devProjSum <= 20 * TolPrinted

-----------------------------------------------------------------------------
Init ==
  /\ lo = 0 /\ hi = 0 /\ st = 0 /\ grid = <<>> /\ outcome = "none"
  /\ \/ \E x \in RangeArgs : ev = [part |-> "model"] /\ a = x /\ pc = "tmin"
     \/ \E e \in RangeEvents : ev = e /\ a = e.args /\ pc = "tmin"
     \/ \E e \in GuardEvents : ev = e /\ a = NoArg /\ pc = "api"
     \/ \E e \in YamlEvents : ev = e /\ a = NoArg /\ pc = "yaml"
Next == ClampMin \/ ClampMax \/ ClampStep \/ MakeGrid \/ ApiRun \/ YamlStep

(* argument space of the model run: ticks of 1/2 K *)
ArgSpace ==
  { [den |-> 2, gmin |-> gmn, tmin |-> mn, gmax |-> gmx, tmax |-> mx, gstep |-> gs, tstep |-> s] :
      gmn \in BOOLEAN, mn \in {-3, 0, 1, 4, 30}, gmx \in BOOLEAN, mx \in {-1, 0, 4, 9, 10, 31}, gs \in BOOLEAN, s \in {-2, 0, 1, 3, 7} }
=============================================================================
